(* Consequences of PixelProofs for the span blitters' pixel functions (C03 corollaries, C14). *)
Require Import RQ.Base RQ.Pixel RQ.PixelProofs RQ.F32 RQ.Rect RQ.Raster RQ.PathF RQ.Shader RQ.Surface RQ.Target RQ.TargetProofs.
From Coq Require Import ZifyBool.

(* full coverage, no clip path: exactly blend(src, dst), for every mode *)
Theorem full_coverage_is_blend m s d b :
  wf_px d -> blend m s d = Ok b -> wf_px b -> mode_eqb m SrcOver = false ->
  blit_px (choose_blitter true None m) s d 255 0 = Ok b.
Proof.
  intros Hd Hb Hwb Hm. rewrite blitter_formula, Hm. unfold blend_mask_px. cbn [Z.eqb]. rewrite Hb. cbn [bind].
  unfold alpha_to_alpha256. change (255 + 1) with 256. now rewrite lerp_256.
Qed.
Theorem full_coverage_srcover s d : wf_px s -> wf_px d -> premul s = true ->
  blit_px (choose_blitter true None SrcOver) s d 255 0 = Ok (over s d).
Proof. intros Hs Hd Hp. rewrite blitter_formula. cbn [mode_eqb Z.eqb]. now rewrite over_in_255_over. Qed.
(* an opaque SrcOver source replaces the pixel exactly *)
Theorem opaque_srcover_replaces s d : wf_px s -> wf_px d -> premul s = true -> get_a s = 255 ->
  blit_px (choose_blitter true None SrcOver) s d 255 0 = Ok s.
Proof. intros Hs Hd Hp Ha. rewrite full_coverage_srcover by assumption. now rewrite over_opaque. Qed.
(* Src at full coverage replaces the pixel exactly; clear() (Src, alpha 1) therefore yields exactly the colour *)
Theorem src_replaces s d : wf_px s -> wf_px d -> blit_px (choose_blitter true None Src) s d 255 0 = Ok s.
Proof. intros Hs Hd. apply full_coverage_is_blend; try assumption; reflexivity. Qed.
Theorem clear_colour_is_exact c : wf_px c -> alpha_mul c (alpha_to_alpha256 255) = c.
Proof. intros H. unfold alpha_to_alpha256. change (255 + 1) with 256. now apply alpha_mul_256_id. Qed.
(* zero source under SrcOver changes nothing, whatever the coverage *)
Theorem zero_source_srcover_noop d m : wf_px d -> 0 <= m <= 255 -> blit_px (choose_blitter true None SrcOver) 0 d m 0 = Ok d.
Proof.
  intros Hd Hm. rewrite blitter_formula. cbn [mode_eqb]. destruct (m =? 0); [reflexivity|]. rewrite over_in_src0; [reflexivity|exact Hd|exact Hm].
Qed.
(* zero global alpha: the solid shader's colour is 0 *)
Theorem zero_alpha_solid_is_zero c : wf_px c -> alpha_mul c (alpha_to_alpha256 0) = 0.
Proof.
  intros H. destruct (alpha_mul_channels c 1 H ltac:(lia)) as (W & A & R & G & B).
  unfold alpha_to_alpha256. change (0 + 1) with 1.
  rewrite (pack_get _ W), A, R, G, B.
  pose proof (get_a_range c). pose proof (get_r_range c). pose proof (get_g_range c). pose proof (get_b_range c).
  rewrite !Z.mul_1_r, !Z.div_small by lia. reflexivity.
Qed.

(* C14: the integer fast path of fill_rect (no coverage mask) and the general path at coverage 255 (what an
   integer-aligned rectangle rasterises to) compute the same pixel, for every blend mode, on premultiplied inputs *)
Theorem fast_path_pixel_eq_general m s d :
  wf_px s -> wf_px d -> premul s = true -> premul d = true ->
  (exists b, blend m s d = Ok b) ->
  blit_px (choose_blitter false None m) s d 0 0 = blit_px (choose_blitter true None m) s d 255 0.
Proof.
  intros Hs Hd Hps Hpd [b Hb].
  destruct (mode_eqb m SrcOver) eqn:Hm.
  - assert (m = SrcOver) as -> by (destruct m; try discriminate; reflexivity).
    rewrite full_coverage_srcover by assumption. rewrite blitter_formula. reflexivity.
  - destruct (blend_ok_premul_all m s d b Hs Hd Hps Hpd Hb) as [_ Hwb].
    rewrite (full_coverage_is_blend m s d b Hd Hb Hwb Hm). rewrite blitter_formula. exact Hb.
Qed.
