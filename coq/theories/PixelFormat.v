(* C19: pixel word layout, byte views and the pixel mapping of write_png (draw_target.rs). *)
Require Import RQ.Base RQ.Pixel.
From Coq Require Import ZifyBool.

(* SolidSource::to_u32 *)
Definition to_u32 (a r g b : Z) : Z := Z.lor (Z.lor (Z.lor (Z.shiftl a 24) (Z.shiftl r 16)) (Z.shiftl g 8)) b.
(* SolidSource::from_unpremultiplied_argb: (a, r, g, b) components *)
Definition from_unpremultiplied_argb (a r g b : Z) : Z * Z * Z * Z :=
  (a, wrapu8 (muldiv255 a r), wrapu8 (muldiv255 a g), wrapu8 (muldiv255 a b)).
(* the little-endian byte view of one word: bytes 4i .. 4i+3 *)
Definition word_bytes (p : Z) : list Z := [Z.land p 255; Z.land (Z.shiftr p 8) 255; Z.land (Z.shiftr p 16) 255; Z.land (Z.shiftr p 24) 255].
Definition bytes_word (bs : list Z) : Z :=
  match bs with [b0; b1; b2; b3] => b0 + 256 * b1 + 65536 * b2 + 16777216 * b3 | _ => 0 end.
Definition byte_view (buf : list Z) : list Z := flat_map word_bytes buf.
(* writing byte v at byte index k of the view *)
Definition set_byte (buf : list Z) (k v : Z) : list Z :=
  let i := k / 4 in let j := k mod 4 in
  let w := zn buf i in
  let bs := word_bytes w in
  let bs' := splice bs j [v] in
  splice buf i [bytes_word bs'].
(* from_vec: vec.resize(w*h, 0) *)
Definition from_vec (w h : Z) (v : list Z) : list Z :=
  let n := Z.to_nat (w * h) in firstn n v ++ repeat 0 (n - length v).
(* write_png: the four bytes written for one pixel (r, g, b as u8 casts) *)
Definition png_pixel (p : Z) : list Z :=
  let a := Z.land (Z.shiftr p 24) 255 in
  let r := Z.land (Z.shiftr p 16) 255 in
  let g := Z.land (Z.shiftr p 8) 255 in
  let b := Z.land p 255 in
  if 0 <? a then [wrapu8 (r * 255 / a); wrapu8 (g * 255 / a); wrapu8 (b * 255 / a); a] else [r; g; b; a].
Definition png_bytes (buf : list Z) : list Z := flat_map png_pixel buf.
