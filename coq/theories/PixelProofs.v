(* PixelProofs: the pixel arithmetic of sw-composite (as modelled in Pixel.v) preserves
   premultiplied alpha (property C18).  New lemma file; no model definition is changed. *)
Require Import RQ.Base RQ.Pixel.
From Coq Require Import ZArith List Lia Bool ZifyBool.
Import ListNotations.
Open Scope Z_scope.
Ltac Zify.zify_post_hook ::= Z.to_euclidean_division_equations.

Definition wf_px (p : Z) : Prop := 0 <= p < 2^32.
Definition byte (x : Z) : Prop := 0 <= x <= 255.

(* ================================================================== *)
(** * 0. Bridging lemmas: bit operations as div / mod                  *)
(* ================================================================== *)

Lemma land_255 x : Z.land x 255 = x mod 256.
Proof. change 255 with (Z.ones 8). rewrite Z.land_ones by lia. reflexivity. Qed.

Lemma wrapu32_mod x : wrapu32 x = x mod 4294967296.
Proof. unfold wrapu32. change 4294967295 with (Z.ones 32). rewrite Z.land_ones by lia. reflexivity. Qed.

Lemma shiftr8 x : Z.shiftr x 8 = x / 256.
Proof. rewrite Z.shiftr_div_pow2 by lia. reflexivity. Qed.
Lemma shiftr16 x : Z.shiftr x 16 = x / 65536.
Proof. rewrite Z.shiftr_div_pow2 by lia. reflexivity. Qed.
Lemma shiftr24 x : Z.shiftr x 24 = x / 16777216.
Proof. rewrite Z.shiftr_div_pow2 by lia. reflexivity. Qed.
Lemma shiftr30 x : Z.shiftr x 30 = x / 1073741824.
Proof. rewrite Z.shiftr_div_pow2 by lia. reflexivity. Qed.
Lemma shiftl8 x : Z.shiftl x 8 = x * 256.
Proof. rewrite Z.shiftl_mul_pow2 by lia. reflexivity. Qed.
Lemma shiftl16 x : Z.shiftl x 16 = x * 65536.
Proof. rewrite Z.shiftl_mul_pow2 by lia. reflexivity. Qed.
Lemma shiftl24 x : Z.shiftl x 24 = x * 16777216.
Proof. rewrite Z.shiftl_mul_pow2 by lia. reflexivity. Qed.

(* splitting land / lor at bit n *)
Lemma land_split n x m : 0 <= n ->
  Z.land x m = Z.land (x mod 2^n) (m mod 2^n) + 2^n * Z.land (x / 2^n) (m / 2^n).
Proof.
  intros Hn.
  rewrite (Z.div_mod (Z.land x m) (2^n)) at 1 by lia.
  rewrite <- !Z.shiftr_div_pow2, <- !Z.land_ones, Z.shiftr_land by lia.
  replace (Z.land (Z.land x (Z.ones n)) (Z.land m (Z.ones n))) with (Z.land (Z.land x m) (Z.ones n)).
  - lia.
  - apply Z.bits_inj'. intros i Hi. rewrite !Z.land_spec.
    destruct (Z.testbit x i), (Z.testbit m i), (Z.testbit (Z.ones n) i); reflexivity.
Qed.

Lemma lor_split n x m : 0 <= n ->
  Z.lor x m = Z.lor (x mod 2^n) (m mod 2^n) + 2^n * Z.lor (x / 2^n) (m / 2^n).
Proof.
  intros Hn.
  rewrite (Z.div_mod (Z.lor x m) (2^n)) at 1 by lia.
  rewrite <- !Z.shiftr_div_pow2, <- !Z.land_ones, Z.shiftr_lor by lia.
  replace (Z.lor (Z.land x (Z.ones n)) (Z.land m (Z.ones n))) with (Z.land (Z.lor x m) (Z.ones n)).
  - lia.
  - apply Z.bits_inj'. intros i Hi. rewrite !Z.land_spec, !Z.lor_spec, !Z.land_spec.
    destruct (Z.testbit x i), (Z.testbit m i), (Z.testbit (Z.ones n) i); reflexivity.
Qed.

(* lor of disjoint bit fields is addition *)
Lemma lor_disjoint_add x y : Z.land x y = 0 -> Z.lor x y = x + y.
Proof.
  intros H. rewrite <- Z.lxor_lor by exact H. symmetry. apply Z.add_nocarry_lxor. exact H.
Qed.

Lemma lor_hi_lo n hi lo : 0 <= n -> 0 <= lo < 2^n -> Z.lor (hi * 2^n) lo = hi * 2^n + lo.
Proof.
  intros Hn Hlo. rewrite (lor_split n) by lia.
  rewrite Z.mod_mul, Z.div_mul by lia.
  rewrite (Z.mod_small lo), (Z.div_small lo) by lia.
  rewrite Z.lor_0_l, Z.lor_0_r. lia.
Qed.

(* the two-lane masks *)
Lemma land_MASK x : Z.land x MASK = x mod 256 + 65536 * ((x / 65536) mod 256).
Proof.
  rewrite (land_split 16) by lia. change (2^16) with 65536.
  change (MASK mod 65536) with 255. change (MASK / 65536) with 255.
  rewrite !land_255. lia.
Qed.

Lemma land_NMASK x : Z.land x NMASK = 256 * ((x / 256) mod 256) + 16777216 * ((x / 16777216) mod 256).
Proof.
  rewrite (land_split 8) by lia. change (2^8) with 256.
  change (NMASK mod 256) with 0. change (NMASK / 256) with MASK.
  rewrite Z.land_0_r, land_MASK. lia.
Qed.

Lemma MASK_NMASK_disjoint x y : Z.land (Z.land x MASK) (Z.land y NMASK) = 0.
Proof.
  replace (Z.land (Z.land x MASK) (Z.land y NMASK)) with (Z.land (Z.land x y) (Z.land MASK NMASK)).
  - change (Z.land MASK NMASK) with 0. apply Z.land_0_r.
  - apply Z.bits_inj'. intros i Hi. rewrite !Z.land_spec.
    destruct (Z.testbit x i), (Z.testbit y i), (Z.testbit MASK i), (Z.testbit NMASK i); reflexivity.
Qed.

(* ================================================================== *)
(** * 1. Channel access                                                *)
(* ================================================================== *)

Lemma get_b_eq p : get_b p = p mod 256.
Proof. unfold get_b. apply land_255. Qed.
Lemma get_g_eq p : get_g p = (p / 256) mod 256.
Proof. unfold get_g. rewrite land_255, shiftr8. reflexivity. Qed.
Lemma get_r_eq p : get_r p = (p / 65536) mod 256.
Proof. unfold get_r. rewrite land_255, shiftr16. reflexivity. Qed.
Lemma get_a_eq p : get_a p = (p / 16777216) mod 256.
Proof. unfold get_a. rewrite land_255, shiftr24. reflexivity. Qed.
Lemma packed_alpha_eq p : packed_alpha p = p / 16777216.
Proof. unfold packed_alpha. apply shiftr24. Qed.

Lemma get_a_range p : 0 <= get_a p <= 255. Proof. rewrite get_a_eq. lia. Qed.
Lemma get_r_range p : 0 <= get_r p <= 255. Proof. rewrite get_r_eq. lia. Qed.
Lemma get_g_range p : 0 <= get_g p <= 255. Proof. rewrite get_g_eq. lia. Qed.
Lemma get_b_range p : 0 <= get_b p <= 255. Proof. rewrite get_b_eq. lia. Qed.

Lemma packed_alpha_get_a p : wf_px p -> packed_alpha p = get_a p.
Proof. unfold wf_px. intros H. rewrite packed_alpha_eq, get_a_eq. change (2^32) with 4294967296 in H. lia. Qed.

(* arithmetic value of a packed pixel *)
Lemma pack_eq a r g b : byte a -> byte r -> byte g -> byte b ->
  pack a r g b = b + 256 * g + 65536 * r + 16777216 * a.
Proof.
  unfold byte, pack. intros Ha Hr Hg Hb.
  rewrite shiftl8, shiftl16, shiftl24.
  change 256 with (2^8) at 1. rewrite (lor_hi_lo 8) by lia.
  change 16777216 with (2^24) at 1.
  replace (r * 65536) with ((r * 2^16)) by lia.
  replace (Z.lor (a * 2^24) (r * 2^16)) with (Z.lor ((a * 2^8) * 2^16) (r * 2^16)) by (f_equal; lia).
  rewrite (lor_split 16 (a * 2 ^ 8 * 2 ^ 16)) by lia.
  rewrite !Z.mod_mul, !Z.div_mul by lia. rewrite Z.lor_0_l.
  rewrite (lor_hi_lo 8) by lia.
  replace ((0 + 2 ^ 16 * (a * 2 ^ 8 + r))) with ((a * 2^8 + r) * 2^16) by lia.
  rewrite (lor_hi_lo 16) by lia. lia.
Qed.

Lemma wf_pack a r g b : byte a -> byte r -> byte g -> byte b -> wf_px (pack a r g b).
Proof. intros Ha Hr Hg Hb. rewrite pack_eq by assumption. unfold wf_px, byte in *. change (2^32) with 4294967296. lia. Qed.

Lemma get_a_pack a r g b : byte a -> byte r -> byte g -> byte b -> get_a (pack a r g b) = a.
Proof. intros Ha Hr Hg Hb. rewrite get_a_eq, pack_eq by assumption. unfold byte in *. lia. Qed.
Lemma get_r_pack a r g b : byte a -> byte r -> byte g -> byte b -> get_r (pack a r g b) = r.
Proof. intros Ha Hr Hg Hb. rewrite get_r_eq, pack_eq by assumption. unfold byte in *. lia. Qed.
Lemma get_g_pack a r g b : byte a -> byte r -> byte g -> byte b -> get_g (pack a r g b) = g.
Proof. intros Ha Hr Hg Hb. rewrite get_g_eq, pack_eq by assumption. unfold byte in *. lia. Qed.
Lemma get_b_pack a r g b : byte a -> byte r -> byte g -> byte b -> get_b (pack a r g b) = b.
Proof. intros Ha Hr Hg Hb. rewrite get_b_eq, pack_eq by assumption. unfold byte in *. lia. Qed.

Lemma wf_value p : wf_px p ->
  p = get_b p + 256 * get_g p + 65536 * get_r p + 16777216 * get_a p.
Proof.
  unfold wf_px. change (2^32) with 4294967296. intros H.
  rewrite get_a_eq, get_r_eq, get_g_eq, get_b_eq. lia.
Qed.

Lemma pack_get p : wf_px p -> p = pack (get_a p) (get_r p) (get_g p) (get_b p).
Proof.
  intros H. rewrite pack_eq by (unfold byte; auto using get_a_range, get_r_range, get_g_range, get_b_range).
  apply wf_value. exact H.
Qed.

(* lanes *)
Lemma lane_rb p : wf_px p -> Z.land p MASK = get_b p + 65536 * get_r p.
Proof. intros _. rewrite land_MASK, get_b_eq, get_r_eq. reflexivity. Qed.
Lemma lane_ag p : wf_px p -> Z.land (Z.shiftr p 8) MASK = get_g p + 65536 * get_a p.
Proof.
  intros _. rewrite land_MASK, shiftr8, get_g_eq, get_a_eq.
  rewrite Z.div_div by lia. reflexivity.
Qed.

(* recombination of the two lane pairs *)
Lemma combine RB AG :
  Z.lor (Z.land RB MASK) (Z.land AG NMASK) =
  pack ((AG / 16777216) mod 256) ((RB / 65536) mod 256) ((AG / 256) mod 256) (RB mod 256).
Proof.
  rewrite lor_disjoint_add by apply MASK_NMASK_disjoint.
  rewrite land_MASK, land_NMASK, pack_eq by (unfold byte; lia). lia.
Qed.

Lemma pack_add a r g b a' r' g' b' :
  byte a -> byte r -> byte g -> byte b -> byte a' -> byte r' -> byte g' -> byte b' ->
  byte (a + a') -> byte (r + r') -> byte (g + g') -> byte (b + b') ->
  pack a r g b + pack a' r' g' b' = pack (a + a') (r + r') (g + g') (b + b').
Proof. intros. rewrite !pack_eq by assumption. lia. Qed.

Lemma wrapu32_wf p : wf_px p -> wrapu32 p = p.
Proof. unfold wf_px. change (2^32) with 4294967296. intros H. rewrite wrapu32_mod. lia. Qed.

Lemma pack_inj_goal a r g b a' r' g' b' :
  a = a' -> r = r' -> g = g' -> b = b' -> pack a r g b = pack a' r' g' b'.
Proof. intros; subst; reflexivity. Qed.

(* lane arithmetic: u is the low lane product, v the high lane product *)
Lemma lane_shr_lo u v : 0 <= u < 65536 -> ((u + 65536 * v) / 256) mod 256 = u / 256.
Proof. intros. lia. Qed.
Lemma lane_shr_hi u v : 0 <= u < 65536 -> 0 <= v < 65536 -> (((u + 65536 * v) / 256) / 65536) mod 256 = v / 256.
Proof. intros. lia. Qed.
Lemma lane_hi u v : 0 <= u < 65536 -> 0 <= v < 65536 -> ((u + 65536 * v) / 16777216) mod 256 = v / 256.
Proof. intros. lia. Qed.

(* ================================================================== *)
(** * 2. The packed primitives, channel by channel                     *)
(* ================================================================== *)

(* Blinn's division by 255 and its relatives *)
Definition blinn (t : Z) : Z := (t + t / 256) / 256.
Lemma muldiv255_blinn a b : muldiv255 a b = blinn (a * b + 128).
Proof. unfold muldiv255, blinn. cbv zeta. rewrite !shiftr8. reflexivity. Qed.
Lemma div255_blinn a : div255 a = blinn (a + 128).
Proof. unfold div255, blinn. cbv zeta. rewrite !shiftr8. reflexivity. Qed.
Lemma alpha_mul_256_blinn v a : alpha_mul_256 v a = blinn (v * a).
Proof. unfold alpha_mul_256, blinn. cbv zeta. rewrite !shiftr8. reflexivity. Qed.
Lemma alpha_mul_inv256_blinn v a : alpha_mul_inv256 v a = 256 - blinn (v * a).
Proof. unfold alpha_mul_inv256, blinn. cbv zeta. rewrite !shiftr8. reflexivity. Qed.
Lemma blinn_mono t u : t <= u -> blinn t <= blinn u.
Proof. unfold blinn; intros. lia. Qed.
Lemma blinn_range t : 0 <= t <= 65280 -> 0 <= blinn t <= 255.
Proof. unfold blinn; intros. lia. Qed.
Lemma blinn_lip t k : 0 <= k -> blinn (t + 255 * k) <= blinn t + k.
Proof. unfold blinn; intros. lia. Qed.

Ltac bytes_of p :=
  pose proof (get_a_range p); pose proof (get_r_range p);
  pose proof (get_g_range p); pose proof (get_b_range p).

(** ** alpha_mul *)
Definition amul (c a : Z) : Z := c * a / 256.
Lemma amul_byte c a : byte c -> 0 <= a <= 256 -> byte (amul c a).
Proof. unfold byte, amul. intros. assert (0 <= c * a <= 255 * 256) by nia. lia. Qed.

Lemma alpha_mul_pack x a : wf_px x -> 0 <= a <= 256 ->
  alpha_mul x a = pack (amul (get_a x) a) (amul (get_r x) a) (amul (get_g x) a) (amul (get_b x) a).
Proof.
  intros Hx Ha. unfold alpha_mul. cbv zeta.
  rewrite (lane_rb x Hx), (lane_ag x Hx), shiftr8, combine.
  bytes_of x. unfold amul.
  assert (0 <= get_a x * a <= 65280) by nia.
  assert (0 <= get_r x * a <= 65280) by nia.
  assert (0 <= get_g x * a <= 65280) by nia.
  assert (0 <= get_b x * a <= 65280) by nia.
  replace ((get_b x + 65536 * get_r x) * a) with (get_b x * a + 65536 * (get_r x * a)) by ring.
  replace ((get_g x + 65536 * get_a x) * a) with (get_g x * a + 65536 * (get_a x * a)) by ring.
  apply pack_inj_goal.
  - apply lane_hi; lia.
  - apply lane_shr_hi; lia.
  - apply lane_shr_lo; lia.
  - apply lane_shr_lo; lia.
Qed.

Theorem alpha_mul_channels x a : wf_px x -> 0 <= a <= 256 ->
  wf_px (alpha_mul x a) /\
  get_a (alpha_mul x a) = get_a x * a / 256 /\
  get_r (alpha_mul x a) = get_r x * a / 256 /\
  get_g (alpha_mul x a) = get_g x * a / 256 /\
  get_b (alpha_mul x a) = get_b x * a / 256.
Proof.
  intros Hx Ha. rewrite alpha_mul_pack by assumption. bytes_of x.
  assert (byte (amul (get_a x) a)) by (apply amul_byte; unfold byte; lia).
  assert (byte (amul (get_r x) a)) by (apply amul_byte; unfold byte; lia).
  assert (byte (amul (get_g x) a)) by (apply amul_byte; unfold byte; lia).
  assert (byte (amul (get_b x) a)) by (apply amul_byte; unfold byte; lia).
  rewrite get_a_pack, get_r_pack, get_g_pack, get_b_pack by assumption.
  split; [apply wf_pack; assumption|]. unfold amul. auto.
Qed.

(** ** over_in_scaled (common core of over_in and over_in_in) *)
(* channel formula: (sc * al + dc * k) / 256 with k = alpha_mul_inv256 sa al *)
Definition oic (sc dc al k : Z) : Z := (sc * al + dc * k) / 256.

Lemma inv256_range sa al : byte sa -> 0 <= al <= 256 -> 1 <= alpha_mul_inv256 sa al <= 256.
Proof.
  unfold byte. intros Hs Ha. rewrite alpha_mul_inv256_blinn.
  assert (0 <= sa * al <= 65280) by nia. unfold blinn. lia.
Qed.

(* the no-carry bound: a lane never reaches 65536 when the source channel is <= source alpha *)
Lemma oic_nocarry sc dc sa al : 0 <= sc <= sa -> sa <= 255 -> byte dc -> 0 <= al <= 256 ->
  0 <= sc * al + dc * alpha_mul_inv256 sa al <= 65535.
Proof.
  unfold byte. intros Hsc Hsa Hdc Hal.
  pose proof (inv256_range sa al ltac:(unfold byte; lia) Hal) as Hk.
  rewrite alpha_mul_inv256_blinn in *.
  assert (Hp : 0 <= sa * al <= 65280) by nia.
  assert (0 <= sc * al <= sa * al) by nia.
  set (p := sa * al) in *. clearbody p.
  assert (0 <= dc * (256 - blinn p) <= 255 * (256 - blinn p)) by nia.
  unfold blinn in *. lia.
Qed.

Lemma over_in_scaled_pack s d al : wf_px s -> wf_px d -> premul s = true -> 0 <= al <= 256 ->
  let k := alpha_mul_inv256 (get_a s) al in
  over_in_scaled s d al = pack (oic (get_a s) (get_a d) al k) (oic (get_r s) (get_r d) al k)
                               (oic (get_g s) (get_g d) al k) (oic (get_b s) (get_b d) al k).
Proof.
  intros Hs Hd Hp Hal k. unfold over_in_scaled. cbv zeta.
  rewrite (packed_alpha_get_a s Hs). fold k.
  rewrite (lane_rb s Hs), (lane_ag s Hs), (lane_rb d Hd), (lane_ag d Hd), shiftr8.
  unfold premul in Hp. bytes_of s. bytes_of d.
  pose proof (oic_nocarry (get_a s) (get_a d) (get_a s) al ltac:(lia) ltac:(lia) ltac:(unfold byte; lia) Hal) as Ba.
  pose proof (oic_nocarry (get_r s) (get_r d) (get_a s) al ltac:(lia) ltac:(lia) ltac:(unfold byte; lia) Hal) as Br.
  pose proof (oic_nocarry (get_g s) (get_g d) (get_a s) al ltac:(lia) ltac:(lia) ltac:(unfold byte; lia) Hal) as Bg.
  pose proof (oic_nocarry (get_b s) (get_b d) (get_a s) al ltac:(lia) ltac:(lia) ltac:(unfold byte; lia) Hal) as Bb.
  fold k in Ba, Br, Bg, Bb.
  replace ((get_b s + 65536 * get_r s) * al + (get_b d + 65536 * get_r d) * k)
    with ((get_b s * al + get_b d * k) + 65536 * (get_r s * al + get_r d * k)) by ring.
  replace ((get_g s + 65536 * get_a s) * al + (get_g d + 65536 * get_a d) * k)
    with ((get_g s * al + get_g d * k) + 65536 * (get_a s * al + get_a d * k)) by ring.
  rewrite wrapu32_wf by (unfold wf_px; change (2^32) with 4294967296; lia).
  rewrite combine. unfold oic.
  apply pack_inj_goal.
  - apply lane_hi; lia.
  - apply lane_shr_hi; lia.
  - apply lane_shr_lo; lia.
  - apply lane_shr_lo; lia.
Qed.

Lemma oic_byte sc dc sa al : 0 <= sc <= sa -> sa <= 255 -> byte dc -> 0 <= al <= 256 ->
  byte (oic sc dc al (alpha_mul_inv256 sa al)).
Proof. intros. pose proof (oic_nocarry sc dc sa al). unfold oic, byte in *. lia. Qed.

Lemma oic_mono sc dc sa da al k : 0 <= sc <= sa -> 0 <= dc <= da -> 0 <= al -> 0 <= k ->
  oic sc dc al k <= oic sa da al k.
Proof. intros. unfold oic. apply Z.div_le_mono; [lia|]. nia. Qed.

Lemma premul_iff p : premul p = true <-> get_r p <= get_a p /\ get_g p <= get_a p /\ get_b p <= get_a p.
Proof. unfold premul. lia. Qed.

Lemma premul_pack a r g b : byte a -> byte r -> byte g -> byte b ->
  r <= a -> g <= a -> b <= a -> premul (pack a r g b) = true.
Proof.
  intros. apply premul_iff. rewrite get_a_pack, get_r_pack, get_g_pack, get_b_pack by assumption. lia.
Qed.

Theorem over_in_scaled_channels s d al : wf_px s -> wf_px d -> premul s = true -> 0 <= al <= 256 ->
  let k := alpha_mul_inv256 (get_a s) al in
  let r := over_in_scaled s d al in
  wf_px r /\
  get_a r = (get_a s * al + get_a d * k) / 256 /\
  get_r r = (get_r s * al + get_r d * k) / 256 /\
  get_g r = (get_g s * al + get_g d * k) / 256 /\
  get_b r = (get_b s * al + get_b d * k) / 256.
Proof.
  intros Hs Hd Hp Hal k r. subst r. rewrite over_in_scaled_pack by assumption. fold k.
  apply premul_iff in Hp. bytes_of s. bytes_of d.
  assert (byte (oic (get_a s) (get_a d) al k)) by (apply oic_byte; unfold byte; lia).
  assert (byte (oic (get_r s) (get_r d) al k)) by (apply oic_byte; unfold byte; lia).
  assert (byte (oic (get_g s) (get_g d) al k)) by (apply oic_byte; unfold byte; lia).
  assert (byte (oic (get_b s) (get_b d) al k)) by (apply oic_byte; unfold byte; lia).
  rewrite get_a_pack, get_r_pack, get_g_pack, get_b_pack by assumption.
  split; [apply wf_pack; assumption|]. unfold oic. auto.
Qed.

Theorem premul_over_in_scaled s d al : wf_px s -> wf_px d -> premul s = true -> premul d = true ->
  0 <= al <= 256 -> wf_px (over_in_scaled s d al) /\ premul (over_in_scaled s d al) = true.
Proof.
  intros Hs Hd Hp Hq Hal. rewrite over_in_scaled_pack by assumption. cbv zeta.
  apply premul_iff in Hp. apply premul_iff in Hq. bytes_of s. bytes_of d.
  pose proof (inv256_range (get_a s) al ltac:(unfold byte; lia) Hal) as Hk.
  set (k := alpha_mul_inv256 (get_a s) al) in *.
  assert (byte (oic (get_a s) (get_a d) al k)) by (apply oic_byte; unfold byte; lia).
  assert (byte (oic (get_r s) (get_r d) al k)) by (apply oic_byte; unfold byte; lia).
  assert (byte (oic (get_g s) (get_g d) al k)) by (apply oic_byte; unfold byte; lia).
  assert (byte (oic (get_b s) (get_b d) al k)) by (apply oic_byte; unfold byte; lia).
  split; [apply wf_pack; assumption|].
  apply premul_pack; try assumption; apply oic_mono; lia.
Qed.

(** ** over_in, over_in_in *)
Lemma alpha256_in_in_range mask clip : byte mask -> byte clip ->
  1 <= alpha_to_alpha256 (alpha_mul_256 clip (alpha_to_alpha256 mask)) <= 256.
Proof.
  unfold byte, alpha_to_alpha256. intros. rewrite alpha_mul_256_blinn.
  assert (0 <= clip * (mask + 1) <= 65280) by nia. unfold blinn. lia.
Qed.

Theorem over_in_channels s d alpha : wf_px s -> wf_px d -> premul s = true -> byte alpha ->
  let k := alpha_mul_inv256 (get_a s) (alpha + 1) in
  let r := over_in s d alpha in
  wf_px r /\
  get_a r = (get_a s * (alpha + 1) + get_a d * k) / 256 /\
  get_r r = (get_r s * (alpha + 1) + get_r d * k) / 256 /\
  get_g r = (get_g s * (alpha + 1) + get_g d * k) / 256 /\
  get_b r = (get_b s * (alpha + 1) + get_b d * k) / 256.
Proof.
  intros Hs Hd Hp Ha. unfold over_in, alpha_to_alpha256.
  apply over_in_scaled_channels; try assumption. unfold byte in Ha; lia.
Qed.

Theorem over_in_in_channels s d mask clip : wf_px s -> wf_px d -> premul s = true -> byte mask -> byte clip ->
  let al := alpha_mul_256 clip (mask + 1) + 1 in
  let k := alpha_mul_inv256 (get_a s) al in
  let r := over_in_in s d mask clip in
  wf_px r /\
  get_a r = (get_a s * al + get_a d * k) / 256 /\
  get_r r = (get_r s * al + get_r d * k) / 256 /\
  get_g r = (get_g s * al + get_g d * k) / 256 /\
  get_b r = (get_b s * al + get_b d * k) / 256.
Proof.
  intros Hs Hd Hp Hm Hc. unfold over_in_in.
  pose proof (alpha256_in_in_range mask clip Hm Hc) as H. unfold alpha_to_alpha256 in *.
  apply over_in_scaled_channels; try assumption. lia.
Qed.

Theorem premul_over_in s d m : wf_px s -> wf_px d -> premul s = true -> premul d = true -> byte m ->
  wf_px (over_in s d m) /\ premul (over_in s d m) = true.
Proof.
  intros. unfold over_in, alpha_to_alpha256. apply premul_over_in_scaled; try assumption. unfold byte in *; lia.
Qed.

Theorem premul_over_in_in s d mask clip : wf_px s -> wf_px d -> premul s = true -> premul d = true ->
  byte mask -> byte clip -> wf_px (over_in_in s d mask clip) /\ premul (over_in_in s d mask clip) = true.
Proof.
  intros. unfold over_in_in. pose proof (alpha256_in_in_range mask clip ltac:(assumption) ltac:(assumption)).
  apply premul_over_in_scaled; try assumption. lia.
Qed.

(** ** over *)
Lemma over_as_alpha_mul s d : over s d = wrapu32 (s + alpha_mul d (256 - packed_alpha s)).
Proof. reflexivity. Qed.

Definition ovc (sc dc sa : Z) : Z := sc + dc * (256 - sa) / 256.

Lemma ovc_byte sc dc sa : 0 <= sc <= sa -> sa <= 255 -> byte dc -> byte (ovc sc dc sa).
Proof.
  unfold byte, ovc. intros.
  assert (0 <= dc * (256 - sa) <= 255 * (256 - sa)) by nia. lia.
Qed.

Lemma over_pack s d : wf_px s -> wf_px d -> premul s = true ->
  over s d = pack (ovc (get_a s) (get_a d) (get_a s)) (ovc (get_r s) (get_r d) (get_a s))
                  (ovc (get_g s) (get_g d) (get_a s)) (ovc (get_b s) (get_b d) (get_a s)).
Proof.
  intros Hs Hd Hp. rewrite over_as_alpha_mul, (packed_alpha_get_a s Hs).
  apply premul_iff in Hp. bytes_of s. bytes_of d.
  rewrite alpha_mul_pack by (try assumption; lia).
  rewrite (pack_get s Hs) at 1.
  assert (byte (ovc (get_a s) (get_a d) (get_a s))) by (apply ovc_byte; unfold byte; lia).
  assert (byte (ovc (get_r s) (get_r d) (get_a s))) by (apply ovc_byte; unfold byte; lia).
  assert (byte (ovc (get_g s) (get_g d) (get_a s))) by (apply ovc_byte; unfold byte; lia).
  assert (byte (ovc (get_b s) (get_b d) (get_a s))) by (apply ovc_byte; unfold byte; lia).
  rewrite pack_add; try (unfold byte; lia); try (apply amul_byte; unfold byte; lia); try assumption.
  apply wrapu32_wf. apply wf_pack; assumption.
Qed.

Theorem over_channels s d : wf_px s -> wf_px d -> premul s = true ->
  let r := over s d in
  wf_px r /\
  get_a r = get_a s + get_a d * (256 - get_a s) / 256 /\
  get_r r = get_r s + get_r d * (256 - get_a s) / 256 /\
  get_g r = get_g s + get_g d * (256 - get_a s) / 256 /\
  get_b r = get_b s + get_b d * (256 - get_a s) / 256.
Proof.
  intros Hs Hd Hp r. subst r. rewrite over_pack by assumption.
  apply premul_iff in Hp. bytes_of s. bytes_of d.
  assert (byte (ovc (get_a s) (get_a d) (get_a s))) by (apply ovc_byte; unfold byte; lia).
  assert (byte (ovc (get_r s) (get_r d) (get_a s))) by (apply ovc_byte; unfold byte; lia).
  assert (byte (ovc (get_g s) (get_g d) (get_a s))) by (apply ovc_byte; unfold byte; lia).
  assert (byte (ovc (get_b s) (get_b d) (get_a s))) by (apply ovc_byte; unfold byte; lia).
  rewrite get_a_pack, get_r_pack, get_g_pack, get_b_pack by assumption.
  split; [apply wf_pack; assumption|]. unfold ovc. auto.
Qed.

Lemma ovc_mono sc dc sa da k : sc <= sa -> 0 <= dc <= da -> 0 <= k -> sc + dc * k / 256 <= sa + da * k / 256.
Proof. intros. assert (dc * k / 256 <= da * k / 256) by (apply Z.div_le_mono; [lia|nia]). lia. Qed.

Theorem premul_over s d : wf_px s -> wf_px d -> premul s = true -> premul d = true ->
  wf_px (over s d) /\ premul (over s d) = true.
Proof.
  intros Hs Hd Hp Hq. rewrite over_pack by assumption.
  apply premul_iff in Hp. apply premul_iff in Hq. bytes_of s. bytes_of d.
  assert (byte (ovc (get_a s) (get_a d) (get_a s))) by (apply ovc_byte; unfold byte; lia).
  assert (byte (ovc (get_r s) (get_r d) (get_a s))) by (apply ovc_byte; unfold byte; lia).
  assert (byte (ovc (get_g s) (get_g d) (get_a s))) by (apply ovc_byte; unfold byte; lia).
  assert (byte (ovc (get_b s) (get_b d) (get_a s))) by (apply ovc_byte; unfold byte; lia).
  split; [apply wf_pack; assumption|].
  apply premul_pack; try assumption; unfold ovc; apply ovc_mono; lia.
Qed.

Theorem premul_alpha_mul x a : wf_px x -> premul x = true -> 0 <= a <= 256 ->
  wf_px (alpha_mul x a) /\ premul (alpha_mul x a) = true.
Proof.
  intros Hx Hp Ha. rewrite alpha_mul_pack by assumption.
  apply premul_iff in Hp. bytes_of x.
  assert (byte (amul (get_a x) a)) by (apply amul_byte; unfold byte; lia).
  assert (byte (amul (get_r x) a)) by (apply amul_byte; unfold byte; lia).
  assert (byte (amul (get_g x) a)) by (apply amul_byte; unfold byte; lia).
  assert (byte (amul (get_b x) a)) by (apply amul_byte; unfold byte; lia).
  split; [apply wf_pack; assumption|].
  apply premul_pack; try assumption; unfold amul; apply Z.div_le_mono; try lia; nia.
Qed.

(** ** lerp *)
Definition lerpc (ca cb t : Z) : Z := (ca + (cb - ca) * t / 256) mod 256.

Lemma lerpc_byte ca cb t : byte (lerpc ca cb t).
Proof. unfold byte, lerpc. lia. Qed.

Lemma wrapu32_mul_l x t : wrapu32 (wrapu32 x * t) = wrapu32 (x * t).
Proof. rewrite !wrapu32_mod. apply Z.mul_mod_idemp_l. lia. Qed.

(* one lane pair of lerp: A = al + 65536 ah, B = bl + 65536 bh *)
Lemma lerp_lane al ah bl bh t : byte al -> byte ah -> byte bl -> byte bh -> 0 <= t <= 256 ->
  let A := al + 65536 * ah in
  let B := bl + 65536 * bh in
  let S := A + Z.shiftr (wrapu32 (wrapu32 (B - A) * t)) 8 in
  S mod 256 = lerpc al bl t /\ (S / 65536) mod 256 = lerpc ah bh t.
Proof.
  intros Hal Hah Hbl Hbh Ht A B S. subst S A B. unfold byte in *.
  rewrite wrapu32_mul_l, shiftr8, wrapu32_mod. unfold lerpc.
  replace ((bl + 65536 * bh - (al + 65536 * ah)) * t) with ((bl - al) * t + 65536 * ((bh - ah) * t)) by ring.
  assert (- 256 * al <= (bl - al) * t <= 256 * (255 - al)) by nia.
  assert (- 65280 <= (bh - ah) * t <= 65280) by nia.
  set (L := (bl - al) * t) in *. set (H' := (bh - ah) * t) in *. clearbody L H'.
  split; lia.
Qed.

Lemma lerp_pack a b t : wf_px a -> wf_px b -> 0 <= t <= 256 ->
  lerp a b t = pack (lerpc (get_a a) (get_a b) t) (lerpc (get_r a) (get_r b) t)
                    (lerpc (get_g a) (get_g b) t) (lerpc (get_b a) (get_b b) t).
Proof.
  intros Ha Hb Ht. unfold lerp. cbv zeta.
  rewrite (lane_rb a Ha), (lane_ag a Ha), (lane_rb b Hb), (lane_ag b Hb).
  bytes_of a. bytes_of b.
  pose proof (lerp_lane (get_b a) (get_r a) (get_b b) (get_r b) t) as Hrb.
  pose proof (lerp_lane (get_g a) (get_a a) (get_g b) (get_a b) t) as Hag.
  cbv zeta in Hrb, Hag.
  specialize (Hrb ltac:(unfold byte; lia) ltac:(unfold byte; lia) ltac:(unfold byte; lia) ltac:(unfold byte; lia) Ht).
  specialize (Hag ltac:(unfold byte; lia) ltac:(unfold byte; lia) ltac:(unfold byte; lia) ltac:(unfold byte; lia) Ht).
  destruct Hrb as [Hb' Hr']. destruct Hag as [Hg' Ha'].
  rewrite combine.
  set (RB := get_b a + 65536 * get_r a +
             Z.shiftr (wrapu32 (wrapu32 (get_b b + 65536 * get_r b - (get_b a + 65536 * get_r a)) * t)) 8) in *.
  set (AG := get_g a + 65536 * get_a a +
             Z.shiftr (wrapu32 (wrapu32 (get_g b + 65536 * get_a b - (get_g a + 65536 * get_a a)) * t)) 8) in *.
  rewrite <- Hb', <- Hr', <- Hg', <- Ha'.
  rewrite shiftl8, wrapu32_mod.
  clearbody RB AG.
  apply pack_inj_goal; lia.
Qed.

Theorem lerp_channels a b t : wf_px a -> wf_px b -> 0 <= t <= 256 ->
  let r := lerp a b t in
  wf_px r /\
  get_a r = (get_a a + (get_a b - get_a a) * t / 256) mod 256 /\
  get_r r = (get_r a + (get_r b - get_r a) * t / 256) mod 256 /\
  get_g r = (get_g a + (get_g b - get_g a) * t / 256) mod 256 /\
  get_b r = (get_b a + (get_b b - get_b a) * t / 256) mod 256.
Proof.
  intros Ha Hb Ht r. subst r. rewrite lerp_pack by assumption.
  rewrite get_a_pack, get_r_pack, get_g_pack, get_b_pack by apply lerpc_byte.
  split; [apply wf_pack; apply lerpc_byte|]. unfold lerpc. auto.
Qed.

(* for channels in 0..255 and 0 <= t <= 256 the mod 256 is vacuous *)
Lemma lerpc_nowrap ca cb t : byte ca -> byte cb -> 0 <= t <= 256 ->
  lerpc ca cb t = ca + (cb - ca) * t / 256 /\ Z.min ca cb <= lerpc ca cb t <= Z.max ca cb.
Proof.
  unfold byte, lerpc. intros Ha Hb Ht.
  assert (- 256 * ca <= (cb - ca) * t <= 256 * (255 - ca)) by nia.
  assert (cb <= ca -> (cb - ca) * 256 <= (cb - ca) * t <= 0) by nia.
  assert (ca <= cb -> 0 <= (cb - ca) * t <= (cb - ca) * 256) by nia.
  set (L := (cb - ca) * t) in *. clearbody L. lia.
Qed.

Lemma lerpc_mono ca cb aa ba t : byte ca -> byte cb -> byte aa -> byte ba -> 0 <= t <= 256 ->
  ca <= aa -> cb <= ba -> lerpc ca cb t <= lerpc aa ba t.
Proof.
  intros Hca Hcb Haa Hba Ht H1 H2.
  destruct (lerpc_nowrap ca cb t Hca Hcb Ht) as [-> _].
  destruct (lerpc_nowrap aa ba t Haa Hba Ht) as [-> _].
  unfold byte in *.
  (* ca + floor((cb-ca)t/256) = floor((ca(256-t) + cb t)/256) *)
  assert (E1 : ca + (cb - ca) * t / 256 = (ca * (256 - t) + cb * t) / 256).
  { replace (ca * (256 - t) + cb * t) with ((cb - ca) * t + ca * 256) by ring.
    rewrite Z.div_add by lia. lia. }
  assert (E2 : aa + (ba - aa) * t / 256 = (aa * (256 - t) + ba * t) / 256).
  { replace (aa * (256 - t) + ba * t) with ((ba - aa) * t + aa * 256) by ring.
    rewrite Z.div_add by lia. lia. }
  rewrite E1, E2. apply Z.div_le_mono; [lia|]. nia.
Qed.

Theorem premul_lerp a b t : wf_px a -> wf_px b -> premul a = true -> premul b = true -> 0 <= t <= 256 ->
  wf_px (lerp a b t) /\ premul (lerp a b t) = true.
Proof.
  intros Ha Hb Hp Hq Ht. rewrite lerp_pack by assumption.
  apply premul_iff in Hp. apply premul_iff in Hq. bytes_of a. bytes_of b.
  split; [apply wf_pack; apply lerpc_byte|].
  apply premul_pack; try apply lerpc_byte; apply lerpc_mono; unfold byte; lia.
Qed.

(* ================================================================== *)
(** * 3. Special values                                                *)
(* ================================================================== *)

Lemma pack_is p a r g b : wf_px p -> a = get_a p -> r = get_r p -> g = get_g p -> b = get_b p ->
  pack a r g b = p.
Proof. intros Hp -> -> -> ->. symmetry. apply pack_get. exact Hp. Qed.

Theorem lerp_256 a b : wf_px a -> wf_px b -> lerp a b 256 = b.
Proof.
  intros Ha Hb. rewrite lerp_pack by (try assumption; lia).
  bytes_of a. bytes_of b. unfold lerpc.
  apply pack_is; try assumption; rewrite Z.div_mul by lia; lia.
Qed.

Theorem lerp_0 a b : wf_px a -> wf_px b -> lerp a b 0 = a.
Proof.
  intros Ha Hb. rewrite lerp_pack by (try assumption; lia).
  bytes_of a. bytes_of b. unfold lerpc.
  apply pack_is; try assumption; rewrite Z.mul_0_r; lia.
Qed.

Theorem over_in_255_over s d : wf_px s -> wf_px d -> premul s = true -> over_in s d 255 = over s d.
Proof.
  intros Hs Hd Hp. unfold over_in, alpha_to_alpha256.
  rewrite over_in_scaled_pack, over_pack by (try assumption; lia). cbv zeta.
  rewrite alpha_mul_inv256_blinn. bytes_of s. bytes_of d.
  assert (E : blinn (get_a s * (255 + 1)) = get_a s) by (unfold blinn; lia).
  rewrite E. unfold oic, ovc.
  apply pack_inj_goal.
  - replace (get_a s * (255 + 1) + get_a d * (256 - get_a s)) with (get_a d * (256 - get_a s) + get_a s * 256) by ring.
    rewrite Z.div_add by lia. lia.
  - replace (get_r s * (255 + 1) + get_r d * (256 - get_a s)) with (get_r d * (256 - get_a s) + get_r s * 256) by ring.
    rewrite Z.div_add by lia. lia.
  - replace (get_g s * (255 + 1) + get_g d * (256 - get_a s)) with (get_g d * (256 - get_a s) + get_g s * 256) by ring.
    rewrite Z.div_add by lia. lia.
  - replace (get_b s * (255 + 1) + get_b d * (256 - get_a s)) with (get_b d * (256 - get_a s) + get_b s * 256) by ring.
    rewrite Z.div_add by lia. lia.
Qed.

Theorem over_opaque s d : wf_px s -> wf_px d -> premul s = true -> get_a s = 255 -> over s d = s.
Proof.
  intros Hs Hd Hp Ha. rewrite over_pack by assumption.
  bytes_of s. bytes_of d. unfold ovc. rewrite Ha.
  apply pack_is; try assumption; lia.
Qed.

Lemma premul_0 : premul 0 = true. Proof. reflexivity. Qed.
Lemma wf_0 : wf_px 0. Proof. unfold wf_px. lia. Qed.

Theorem over_in_scaled_src0 d al : wf_px d -> 0 <= al <= 256 -> over_in_scaled 0 d al = d.
Proof.
  intros Hd Hal. rewrite over_in_scaled_pack by (try assumption; try apply wf_0; reflexivity).
  cbv zeta.
  change (get_a 0) with 0. change (get_r 0) with 0. change (get_g 0) with 0. change (get_b 0) with 0.
  rewrite alpha_mul_inv256_blinn. change (blinn (0 * al)) with 0.
  bytes_of d. unfold oic. apply pack_is; try assumption; lia.
Qed.

Theorem over_in_src0 d m : wf_px d -> byte m -> over_in 0 d m = d.
Proof. intros Hd Hm. unfold over_in, alpha_to_alpha256. apply over_in_scaled_src0; [assumption|unfold byte in Hm; lia]. Qed.

Theorem over_in_in_src0 d mask clip : wf_px d -> byte mask -> byte clip -> over_in_in 0 d mask clip = d.
Proof.
  intros Hd Hm Hc. unfold over_in_in. pose proof (alpha256_in_in_range mask clip Hm Hc).
  apply over_in_scaled_src0; [assumption|lia].
Qed.

Theorem alpha_mul_256_id c : wf_px c -> alpha_mul c 256 = c.
Proof.
  intros Hc. rewrite alpha_mul_pack by (try assumption; lia).
  unfold amul. apply pack_is; try assumption; apply Z.div_mul; lia.
Qed.

(** ** muldiv255 *)
Lemma muldiv255_255 a : byte a -> muldiv255 a 255 = a.
Proof. unfold byte. intros. rewrite muldiv255_blinn. unfold blinn. lia. Qed.
Lemma muldiv255_255_l a : byte a -> muldiv255 255 a = a.
Proof. unfold byte. intros. rewrite muldiv255_blinn. unfold blinn. lia. Qed.
Lemma muldiv255_0_l b : muldiv255 0 b = 0.
Proof. reflexivity. Qed.
Lemma muldiv255_0_r a : muldiv255 a 0 = 0.
Proof. rewrite muldiv255_blinn, Z.mul_0_r. reflexivity. Qed.
Lemma muldiv255_comm a b : muldiv255 a b = muldiv255 b a.
Proof. rewrite !muldiv255_blinn. f_equal. lia. Qed.
Lemma muldiv255_mono a b a' b' : 0 <= a <= a' -> 0 <= b <= b' -> muldiv255 a b <= muldiv255 a' b'.
Proof. intros. rewrite !muldiv255_blinn. apply blinn_mono. nia. Qed.
Lemma muldiv255_nonneg a b : 0 <= a -> 0 <= b -> 0 <= muldiv255 a b.
Proof. intros. rewrite muldiv255_blinn. assert (0 <= a * b) by nia. unfold blinn. lia. Qed.
Lemma muldiv255_le_l a b : byte a -> byte b -> muldiv255 a b <= a.
Proof.
  intros Ha Hb. rewrite <- (muldiv255_255 a Ha) at 2. unfold byte in *. apply muldiv255_mono; lia.
Qed.
Lemma muldiv255_le_r a b : byte a -> byte b -> muldiv255 a b <= b.
Proof. intros. rewrite muldiv255_comm. apply muldiv255_le_l; assumption. Qed.
Lemma muldiv255_byte a b : byte a -> byte b -> byte (muldiv255 a b).
Proof.
  intros Ha Hb. pose proof (muldiv255_le_l a b Ha Hb). unfold byte in *.
  pose proof (muldiv255_nonneg a b). lia.
Qed.
(* 1-Lipschitz in each argument: the basis of the srcover_byte monotonicity *)
Lemma muldiv255_lip a a' b : 0 <= a <= a' -> byte b -> muldiv255 a' b <= muldiv255 a b + (a' - a).
Proof.
  unfold byte. intros Ha Hb. rewrite !muldiv255_blinn.
  eapply Z.le_trans; [|apply (blinn_lip (a * b + 128) (a' - a)); lia].
  apply blinn_mono. nia.
Qed.

(* ================================================================== *)
(** * 4. Blend modes                                                   *)
(* ================================================================== *)

(** ** finite checks over 256 x 256 alpha pairs *)
Definition range256 : list Z := map Z.of_nat (seq 0 256).
Lemma in_range256 x : byte x -> In x range256.
Proof.
  unfold byte. intros. unfold range256. apply in_map_iff. exists (Z.to_nat x).
  split; [lia|]. apply in_seq. lia.
Qed.
Lemma check256x256 (f : Z -> Z -> bool) :
  forallb (fun a => forallb (fun b => f a b) range256) range256 = true ->
  forall a b, byte a -> byte b -> f a b = true.
Proof.
  intros H a b Ha Hb. rewrite forallb_forall in H.
  specialize (H a (in_range256 a Ha)). rewrite forallb_forall in H.
  exact (H b (in_range256 b Hb)).
Qed.

(* the extreme cases (colour = alpha in both pixels), 65536 cases *)
Definition extreme_ok (sa da : Z) : bool :=
  (muldiv255 da sa + muldiv255 (255 - sa) da <=? da) &&
  (muldiv255 (255 - da) sa + muldiv255 (255 - sa) da <=? sa + da - muldiv255 sa da * 2) &&
  (sa + da - muldiv255 sa da * 2 <=? 255) &&
  (clamp_div255round (255 * (sa + da) - sa * da) <=? srcover_byte sa da).

Lemma extreme_all : forallb (fun a => forallb (fun b => extreme_ok a b) range256) range256 = true.
Proof. vm_compute. reflexivity. Qed.

Lemma extreme sa da : byte sa -> byte da ->
  muldiv255 da sa + muldiv255 (255 - sa) da <= da /\
  muldiv255 (255 - da) sa + muldiv255 (255 - sa) da <= sa + da - muldiv255 sa da * 2 /\
  sa + da - muldiv255 sa da * 2 <= 255 /\
  clamp_div255round (255 * (sa + da) - sa * da) <= srcover_byte sa da.
Proof.
  intros Hs Hd. pose proof (check256x256 extreme_ok extreme_all sa da Hs Hd) as H.
  unfold extreme_ok in H. lia.
Qed.

(** ** pack_argb32 succeeds on premultiplied bytes *)
Definition good (r : result Z) : Prop := exists v, r = Ok v /\ wf_px v /\ premul v = true.

Lemma pack_argb32_good a r g b : byte a -> 0 <= r <= a -> 0 <= g <= a -> 0 <= b <= a ->
  good (pack_argb32 a r g b).
Proof.
  unfold byte. intros Ha Hr Hg Hb. exists (pack a r g b). unfold pack_argb32.
  replace ((r <=? a) && (g <=? a) && (b <=? a)) with true by lia.
  split; [reflexivity|]. split.
  - apply wf_pack; unfold byte; lia.
  - apply premul_pack; unfold byte; lia.
Qed.

Lemma good_Ok v : wf_px v -> premul v = true -> good (Ok v).
Proof. intros. exists v. auto. Qed.

Ltac setup :=
  match goal with
  | Ps : premul ?s = true, Pd : premul ?d = true |- _ =>
    pose proof Ps as Ps'; pose proof Pd as Pd';
    apply premul_iff in Ps'; apply premul_iff in Pd'; bytes_of s; bytes_of d
  end.

Theorem premul_blend_Dst s d : wf_px s -> wf_px d -> premul s = true -> premul d = true ->
  exists v, blend Dst s d = Ok v /\ wf_px v /\ premul v = true.
Proof.
  intros Hs Hd Ps Pd. change (good (blend Dst s d)).
  apply good_Ok; assumption. Qed.
Theorem premul_blend_Src s d : wf_px s -> wf_px d -> premul s = true -> premul d = true ->
  exists v, blend Src s d = Ok v /\ wf_px v /\ premul v = true.
Proof.
  intros Hs Hd Ps Pd. change (good (blend Src s d)).
  apply good_Ok; assumption. Qed.
Theorem premul_blend_Clear s d : wf_px s -> wf_px d -> premul s = true -> premul d = true ->
  exists v, blend Clear s d = Ok v /\ wf_px v /\ premul v = true.
Proof.
  intros Hs Hd Ps Pd. change (good (blend Clear s d)).
  apply good_Ok; [apply wf_0|reflexivity]. Qed.
Theorem premul_blend_SrcOver s d : wf_px s -> wf_px d -> premul s = true -> premul d = true ->
  exists v, blend SrcOver s d = Ok v /\ wf_px v /\ premul v = true.
Proof.
  intros Hs Hd Ps Pd. change (good (blend SrcOver s d)).
  cbn [blend]. apply good_Ok; apply premul_over; assumption. Qed.
Theorem premul_blend_DstOver s d : wf_px s -> wf_px d -> premul s = true -> premul d = true ->
  exists v, blend DstOver s d = Ok v /\ wf_px v /\ premul v = true.
Proof.
  intros Hs Hd Ps Pd. change (good (blend DstOver s d)).
  cbn [blend]. apply good_Ok; apply premul_over; assumption. Qed.
Theorem premul_blend_SrcIn s d : wf_px s -> wf_px d -> premul s = true -> premul d = true ->
  exists v, blend SrcIn s d = Ok v /\ wf_px v /\ premul v = true.
Proof.
  intros Hs Hd Ps Pd. change (good (blend SrcIn s d)).
   cbn [blend]. rewrite (packed_alpha_get_a d Hd). unfold alpha_to_alpha256. bytes_of d.
  apply good_Ok; apply premul_alpha_mul; try assumption; lia.
Qed.
Theorem premul_blend_DstIn s d : wf_px s -> wf_px d -> premul s = true -> premul d = true ->
  exists v, blend DstIn s d = Ok v /\ wf_px v /\ premul v = true.
Proof.
  intros Hs Hd Ps Pd. change (good (blend DstIn s d)).
   cbn [blend]. rewrite (packed_alpha_get_a s Hs). unfold alpha_to_alpha256. bytes_of s.
  apply good_Ok; apply premul_alpha_mul; try assumption; lia.
Qed.
Theorem premul_blend_SrcOut s d : wf_px s -> wf_px d -> premul s = true -> premul d = true ->
  exists v, blend SrcOut s d = Ok v /\ wf_px v /\ premul v = true.
Proof.
  intros Hs Hd Ps Pd. change (good (blend SrcOut s d)).
   cbn [blend]. rewrite (packed_alpha_get_a d Hd). unfold alpha_to_alpha256. bytes_of d.
  apply good_Ok; apply premul_alpha_mul; try assumption; lia.
Qed.
Theorem premul_blend_DstOut s d : wf_px s -> wf_px d -> premul s = true -> premul d = true ->
  exists v, blend DstOut s d = Ok v /\ wf_px v /\ premul v = true.
Proof.
  intros Hs Hd Ps Pd. change (good (blend DstOut s d)).
   cbn [blend]. rewrite (packed_alpha_get_a s Hs). unfold alpha_to_alpha256. bytes_of s.
  apply good_Ok; apply premul_alpha_mul; try assumption; lia.
Qed.

(* SrcAtop / DstAtop / Xor : monotone in the colour channels + extreme case *)
Lemma atop_channel sc dc sa da : 0 <= sc <= sa -> sa <= 255 -> 0 <= dc <= da -> da <= 255 ->
  0 <= muldiv255 da sc + muldiv255 (255 - sa) dc <= da.
Proof.
  intros. destruct (extreme sa da) as [E _]; [unfold byte; lia..|].
  pose proof (muldiv255_mono da sc da sa ltac:(lia) ltac:(lia)).
  pose proof (muldiv255_mono (255 - sa) dc (255 - sa) da ltac:(lia) ltac:(lia)).
  pose proof (muldiv255_nonneg da sc ltac:(lia) ltac:(lia)).
  pose proof (muldiv255_nonneg (255 - sa) dc ltac:(lia) ltac:(lia)). lia.
Qed.

Theorem premul_blend_SrcAtop s d : wf_px s -> wf_px d -> premul s = true -> premul d = true ->
  exists v, blend SrcAtop s d = Ok v /\ wf_px v /\ premul v = true.
Proof.
  intros Hs Hd Ps Pd. change (good (blend SrcAtop s d)).
   cbn [blend]. cbv zeta. rewrite (packed_alpha_get_a d Hd), (packed_alpha_get_a s Hs). setup.
  apply pack_argb32_good; [unfold byte; lia|..]; apply atop_channel; lia.
Qed.

Theorem premul_blend_DstAtop s d : wf_px s -> wf_px d -> premul s = true -> premul d = true ->
  exists v, blend DstAtop s d = Ok v /\ wf_px v /\ premul v = true.
Proof.
  intros Hs Hd Ps Pd. change (good (blend DstAtop s d)).
   cbn [blend]. cbv zeta. rewrite (packed_alpha_get_a d Hd), (packed_alpha_get_a s Hs). setup.
  apply pack_argb32_good; [unfold byte; lia|..];
    rewrite Z.add_comm; apply atop_channel; lia.
Qed.

Lemma xor_channel sc dc sa da : 0 <= sc <= sa -> sa <= 255 -> 0 <= dc <= da -> da <= 255 ->
  0 <= muldiv255 (255 - da) sc + muldiv255 (255 - sa) dc <= sa + da - muldiv255 sa da * 2.
Proof.
  intros. destruct (extreme sa da) as (_ & E & _); [unfold byte; lia..|].
  pose proof (muldiv255_mono (255 - da) sc (255 - da) sa ltac:(lia) ltac:(lia)).
  pose proof (muldiv255_mono (255 - sa) dc (255 - sa) da ltac:(lia) ltac:(lia)).
  pose proof (muldiv255_nonneg (255 - da) sc ltac:(lia) ltac:(lia)).
  pose proof (muldiv255_nonneg (255 - sa) dc ltac:(lia) ltac:(lia)). lia.
Qed.

Theorem premul_blend_Xor s d : wf_px s -> wf_px d -> premul s = true -> premul d = true ->
  exists v, blend Xor s d = Ok v /\ wf_px v /\ premul v = true.
Proof.
  intros Hs Hd Ps Pd. change (good (blend Xor s d)).
   cbn [blend]. cbv zeta. rewrite (packed_alpha_get_a d Hd), (packed_alpha_get_a s Hs). setup.
  destruct (extreme (get_a s) (get_a d)) as (_ & _ & E & _); [unfold byte; lia..|].
  pose proof (xor_channel (get_r s) (get_r d) (get_a s) (get_a d) ltac:(lia) ltac:(lia) ltac:(lia) ltac:(lia)).
  apply pack_argb32_good; [unfold byte; lia|..]; apply xor_channel; lia.
Qed.

Lemma saturated_add8_mono a b a' b' : a <= a' -> b <= b' -> saturated_add8 a b <= saturated_add8 a' b'.
Proof. unfold saturated_add8. cbv zeta. intros. destruct (255 <? a + b) eqn:E1, (255 <? a' + b') eqn:E2; lia. Qed.
Lemma saturated_add8_byte a b : 0 <= a -> 0 <= b -> byte (saturated_add8 a b).
Proof. unfold saturated_add8, byte. cbv zeta. intros. destruct (255 <? a + b) eqn:E1; lia. Qed.

Theorem premul_blend_Add s d : wf_px s -> wf_px d -> premul s = true -> premul d = true ->
  exists v, blend Pixel.Add s d = Ok v /\ wf_px v /\ premul v = true.
Proof.
  intros Hs Hd Ps Pd. change (good (blend Pixel.Add s d)).
   cbn [blend]. setup.
  apply pack_argb32_good; [apply saturated_add8_byte; lia|..];
    (split; [apply saturated_add8_byte; lia | apply saturated_add8_mono; lia]).
Qed.

(* srcover_byte *)
Lemma srcover_byte_mono a b a' b' : 0 <= a <= a' -> a' <= 255 -> 0 <= b <= b' -> b' <= 255 ->
  srcover_byte a b <= srcover_byte a' b'.
Proof.
  intros. unfold srcover_byte.
  pose proof (muldiv255_lip a a' b ltac:(lia) ltac:(unfold byte; lia)).
  pose proof (muldiv255_lip b b' a' ltac:(lia) ltac:(unfold byte; lia)).
  pose proof (muldiv255_comm a' b). pose proof (muldiv255_comm a' b'). lia.
Qed.
Lemma srcover_byte_range a b : byte a -> byte b -> a <= srcover_byte a b <= 255 /\ b <= srcover_byte a b.
Proof.
  intros Ha Hb. unfold srcover_byte.
  pose proof (muldiv255_le_l a b Ha Hb). pose proof (muldiv255_le_r a b Ha Hb).
  (* a + b - round(ab/255) <= 255 : from the Lipschitz bound against a = 255 *)
  pose proof (muldiv255_lip a 255 b ltac:(unfold byte in *; lia) Hb) as L.
  rewrite (muldiv255_255_l b Hb) in L. unfold byte in *. lia.
Qed.

Theorem premul_blend_Screen s d : wf_px s -> wf_px d -> premul s = true -> premul d = true ->
  exists v, blend Screen s d = Ok v /\ wf_px v /\ premul v = true.
Proof.
  intros Hs Hd Ps Pd. change (good (blend Screen s d)).
   cbn [blend]. setup.
  pose proof (srcover_byte_range (get_a s) (get_a d) ltac:(unfold byte; lia) ltac:(unfold byte; lia)).
  apply pack_argb32_good; [unfold byte; lia|..];
    (split; [match goal with |- 0 <= srcover_byte ?x ?y =>
               pose proof (srcover_byte_range x y ltac:(unfold byte; lia) ltac:(unfold byte; lia)); lia end
            | apply srcover_byte_mono; lia]).
Qed.


(** ** separable modes (sep f) *)
Definition sep_ok (f : Z -> Z -> Z -> Z -> Z) : Prop :=
  forall sc dc sa da, 0 <= sc <= sa -> sa <= 255 -> 0 <= dc <= da -> da <= 255 ->
    0 <= f sc dc sa da <= srcover_byte sa da.

Lemma sep_good f s d : wf_px s -> wf_px d -> premul s = true -> premul d = true ->
  sep_ok f -> good (sep f s d).
Proof.
  intros Hs Hd Ps Pd Hf. unfold sep. cbv zeta. setup.
  pose proof (srcover_byte_range (get_a s) (get_a d) ltac:(unfold byte; lia) ltac:(unfold byte; lia)).
  apply pack_argb32_good; [unfold byte; lia|..]; apply Hf; lia.
Qed.

Lemma clamp_nonneg p : 0 <= clamp_div255round p <= 255.
Proof.
  unfold clamp_div255round. destruct (p <=? 0) eqn:E1; [lia|]. destruct (65025 <=? p) eqn:E2; [lia|].
  rewrite div255_blinn. unfold blinn. lia.
Qed.

Lemma clamp_mono p q : p <= q -> clamp_div255round p <= clamp_div255round q.
Proof.
  intros H. pose proof (clamp_nonneg p). pose proof (clamp_nonneg q).
  unfold clamp_div255round in *.
  destruct (p <=? 0) eqn:E1; [lia|]. destruct (q <=? 0) eqn:E3; [lia|].
  destruct (65025 <=? q) eqn:E4; [lia|]. destruct (65025 <=? p) eqn:E2; [lia|].
  rewrite !div255_blinn. apply blinn_mono. lia.
Qed.

(* every "rc + sc*(255-da) + dc*(255-sa)" mode with rc <= sa*da *)
Lemma sep_bound rc sc dc sa da : 0 <= sc <= sa -> sa <= 255 -> 0 <= dc <= da -> da <= 255 ->
  rc <= sa * da ->
  0 <= clamp_div255round (rc + sc * (255 - da) + dc * (255 - sa)) <= srcover_byte sa da.
Proof.
  intros. split; [apply clamp_nonneg|].
  destruct (extreme sa da) as (_ & _ & _ & E); [unfold byte; lia..|].
  eapply Z.le_trans; [|exact E]. apply clamp_mono.
  assert (sc * (255 - da) <= sa * (255 - da)) by nia.
  assert (dc * (255 - sa) <= da * (255 - sa)) by nia.
  lia.
Qed.

Lemma multiply_ok : sep_ok multiply_byte.
Proof.
  intros sc dc sa da H1 H2 H3 H4. unfold multiply_byte.
  replace (sc * (255 - da) + dc * (255 - sa) + sc * dc) with (sc * dc + sc * (255 - da) + dc * (255 - sa)) by ring.
  apply sep_bound; try lia. nia.
Qed.

Lemma overlay_ok : sep_ok overlay_byte.
Proof.
  intros sc dc sa da H1 H2 H3 H4. unfold overlay_byte. cbv zeta.
  rewrite Z.add_assoc. apply sep_bound; try lia.
  destruct (2 * dc <=? da) eqn:E.
  - assert (2 * dc * sc <= da * sc) by nia. nia.
  - assert (0 <= (da - dc) * (sa - sc)) by nia. lia.
Qed.

Lemma hardlight_ok : sep_ok hardlight_byte.
Proof.
  intros sc dc sa da H1 H2 H3 H4. unfold hardlight_byte. cbv zeta.
  apply sep_bound; try lia.
  destruct (2 * sc <=? sa) eqn:E.
  - assert (2 * sc * dc <= sa * dc) by nia. nia.
  - assert (0 <= (da - dc) * (sa - sc)) by nia. lia.
Qed.

Lemma exclusion_ok : sep_ok exclusion_byte.
Proof.
  intros sc dc sa da H1 H2 H3 H4. unfold exclusion_byte.
  replace (255 * (sc + dc) - 2 * sc * dc)
    with ((sc * (da - dc) + dc * (sa - sc)) + sc * (255 - da) + dc * (255 - sa)) by ring.
  apply sep_bound; try lia.
  assert (sc * (da - dc) <= sa * (da - dc)) by nia.
  assert (dc * (sa - sc) <= dc * sa) by nia. nia.
Qed.

(* darken / lighten / difference *)
Lemma div255_mul a b : div255 (a * b) = muldiv255 a b.
Proof. reflexivity. Qed.

Lemma lighten_bound sc dc sa da : 0 <= sc <= sa -> sa <= 255 -> 0 <= dc <= da -> da <= 255 ->
  sc + dc - div255 (Z.min (sc * da) (dc * sa)) <= srcover_byte sa da.
Proof.
  intros. unfold srcover_byte.
  destruct (Z.min_spec (sc * da) (dc * sa)) as [[_ ->]|[_ ->]]; rewrite div255_mul.
  - pose proof (muldiv255_lip sc sa da ltac:(lia) ltac:(unfold byte; lia)). lia.
  - pose proof (muldiv255_lip dc da sa ltac:(lia) ltac:(unfold byte; lia)).
    pose proof (muldiv255_comm da sa). lia.
Qed.

Lemma darken_lower sc dc sa da : 0 <= sc <= sa -> sa <= 255 -> 0 <= dc <= da -> da <= 255 ->
  div255 (sc * da) <= sc /\ div255 (dc * sa) <= dc /\ 0 <= div255 (sc * da) /\ 0 <= div255 (dc * sa).
Proof.
  intros. rewrite !div255_mul.
  pose proof (muldiv255_le_l sc da ltac:(unfold byte; lia) ltac:(unfold byte; lia)).
  pose proof (muldiv255_le_l dc sa ltac:(unfold byte; lia) ltac:(unfold byte; lia)).
  pose proof (muldiv255_nonneg sc da ltac:(lia) ltac:(lia)).
  pose proof (muldiv255_nonneg dc sa ltac:(lia) ltac:(lia)). lia.
Qed.

Lemma div255_mono p q : p <= q -> div255 p <= div255 q.
Proof. intros. rewrite !div255_blinn. apply blinn_mono. lia. Qed.

Lemma lighten_ok : sep_ok lighten_byte.
Proof.
  intros sc dc sa da H1 H2 H3 H4. unfold lighten_byte. cbv zeta.
  pose proof (lighten_bound sc dc sa da H1 H2 H3 H4) as L.
  pose proof (darken_lower sc dc sa da H1 H2 H3 H4) as D.
  destruct (dc * sa <? sc * da) eqn:E.
  - rewrite Z.min_r in L by lia. lia.
  - rewrite Z.min_l in L by lia. lia.
Qed.

Lemma darken_ok : sep_ok darken_byte.
Proof.
  intros sc dc sa da H1 H2 H3 H4. unfold darken_byte. cbv zeta.
  pose proof (lighten_bound sc dc sa da H1 H2 H3 H4) as L.
  pose proof (darken_lower sc dc sa da H1 H2 H3 H4) as D.
  destruct (sc * da <? dc * sa) eqn:E.
  - rewrite Z.min_l in L by lia.
    pose proof (div255_mono (sc * da) (dc * sa) ltac:(lia)). lia.
  - rewrite Z.min_r in L by lia.
    pose proof (div255_mono (dc * sa) (sc * da) ltac:(lia)). lia.
Qed.

Lemma difference_ok : sep_ok difference_byte.
Proof.
  intros sc dc sa da H1 H2 H3 H4. unfold difference_byte. cbv zeta.
  pose proof (lighten_bound sc dc sa da H1 H2 H3 H4) as L.
  pose proof (darken_lower sc dc sa da H1 H2 H3 H4) as D.
  pose proof (srcover_byte_range sa da ltac:(unfold byte; lia) ltac:(unfold byte; lia)) as R.
  assert (0 <= div255 (Z.min (sc * da) (dc * sa))).
  { destruct (Z.min_spec (sc * da) (dc * sa)) as [[_ ->]|[_ ->]]; lia. }
  unfold clamp_signed_byte.
  destruct (sc + dc - 2 * div255 (Z.min (sc * da) (dc * sa)) <? 0) eqn:E1; [lia|].
  destruct (255 <? sc + dc - 2 * div255 (Z.min (sc * da) (dc * sa))) eqn:E2; lia.
Qed.

(* colour dodge / colour burn *)
Lemma colordodge_ok : sep_ok colordodge_byte.
Proof.
  intros sc dc sa da H1 H2 H3 H4. unfold colordodge_byte. cbv zeta.
  pose proof (srcover_byte_range sa da ltac:(unfold byte; lia) ltac:(unfold byte; lia)) as R.
  destruct (dc =? 0) eqn:E0.
  - pose proof (muldiv255_le_l sc (255 - da) ltac:(unfold byte; lia) ltac:(unfold byte; lia)).
    pose proof (muldiv255_nonneg sc (255 - da) ltac:(lia) ltac:(lia)). lia.
  - destruct (sa - sc =? 0) eqn:E1.
    + apply sep_bound; lia.
    + apply sep_bound; try lia.
      destruct (da <? Z.quot (dc * sa) (sa - sc)) eqn:E2; [lia|]. nia.
Qed.

Lemma colorburn_ok : sep_ok colorburn_byte.
Proof.
  intros sc dc sa da H1 H2 H3 H4. unfold colorburn_byte. cbv zeta.
  pose proof (srcover_byte_range sa da ltac:(unfold byte; lia) ltac:(unfold byte; lia)) as R.
  destruct (dc =? da) eqn:E0.
  - apply sep_bound; lia.
  - destruct (sc =? 0) eqn:E1.
    + pose proof (muldiv255_le_l dc (255 - sa) ltac:(unfold byte; lia) ltac:(unfold byte; lia)).
      pose proof (muldiv255_nonneg dc (255 - sa) ltac:(lia) ltac:(lia)). lia.
    + apply sep_bound; try lia.
      assert (0 <= Z.quot ((da - dc) * sa) sc) by (apply Z.quot_pos; nia).
      destruct (da <? Z.quot ((da - dc) * sa) sc) eqn:E2; nia.
Qed.

(* soft light *)
Lemma check256 (f : Z -> bool) : forallb f range256 = true -> forall a, byte a -> f a = true.
Proof. intros H a Ha. rewrite forallb_forall in H. exact (H a (in_range256 a Ha)). Qed.

Definition softlight_tmp (m : Z) : Z := Z.shiftr (4 * m * (4 * m + 256) * (m - 256)) 16 + 7 * m.
Lemma softlight_tmp_all :
  forallb (fun m => if m <=? 64 then (0 <=? softlight_tmp m) && (softlight_tmp m <=? 64) else true) range256 = true.
Proof. vm_compute. reflexivity. Qed.
Lemma softlight_tmp_range m : 0 <= m <= 64 -> 0 <= softlight_tmp m <= 64.
Proof.
  intros H. pose proof (check256 _ softlight_tmp_all m ltac:(unfold byte; lia)) as C. cbv beta in C.
  destruct (m <=? 64) eqn:E; lia.
Qed.

Lemma softlight_m_range dc da : 0 <= dc <= da -> da <= 255 ->
  let m := if da =? 0 then 0 else Z.quot (dc * 256) da in
  0 <= m <= 256 /\ (4 * dc <= da -> m <= 64).
Proof.
  intros H1 H2 m. subst m. destruct (da =? 0) eqn:E; [lia|].
  rewrite Z.quot_div_nonneg by lia.
  split.
  - split; [apply Z.div_pos; lia|]. apply Z.div_le_upper_bound; lia.
  - intros. apply Z.div_le_upper_bound; lia.
Qed.

Lemma softlight_ok : sep_ok softlight_byte.
Proof.
  intros sc dc sa da H1 H2 H3 H4. unfold softlight_byte.
  pose proof (softlight_m_range dc da H3 H4) as Hm. cbv zeta in Hm |- *.
  set (m := if da =? 0 then 0 else Z.quot (dc * 256) da) in *. clearbody m.
  destruct Hm as [Hm Hm4].
  apply sep_bound; try lia.
  replace (sa * da) with (da * sa) by ring.
  assert (Q : dc * sa <= da * sa) by nia.
  destruct (2 * sc <=? sa) eqn:E1.
  - rewrite shiftr8.
    assert ((2 * sc - sa) * (256 - m) <= 0) by nia.
    assert ((2 * sc - sa) * (256 - m) / 256 <= 0) by lia.
    nia.
  - destruct (4 * dc <=? da) eqn:E2.
    + fold (softlight_tmp m). rewrite shiftr8.
      pose proof (softlight_tmp_range m ltac:(lia)) as T.
      set (t := softlight_tmp m) in *. clearbody t.
      assert (da * (2 * sc - sa) * t <= (da * sa) * 64).
      { assert (da * (2 * sc - sa) <= da * sa) by nia.
        assert (0 <= da * (2 * sc - sa)) by nia.
        assert (0 <= da * sa) by nia. nia. }
      assert (4 * (dc * sa) <= da * sa) by nia.
      assert (0 <= da * sa) by nia.
      set (P := da * sa) in *. set (Q' := dc * sa) in *.
      set (T' := da * (2 * sc - sa) * t) in *. clearbody P Q' T'. lia.
    + rewrite shiftr8. unfold sqrt_unit_byte. rewrite shiftr30.
      replace (m / 1073741824 >=? 1) with false by lia.
      assert (da * (2 * sc - sa) * (0 - m) <= 0).
      { assert (0 <= da * (2 * sc - sa)) by nia. nia. }
      set (T' := da * (2 * sc - sa) * (0 - m)) in *. clearbody T'. lia.
Qed.

(** ** the 24 theorems *)
Theorem premul_blend_Overlay s d : wf_px s -> wf_px d -> premul s = true -> premul d = true ->
  exists v, blend Overlay s d = Ok v /\ wf_px v /\ premul v = true.
Proof. intros. apply sep_good; auto using overlay_ok. Qed.
Theorem premul_blend_Darken s d : wf_px s -> wf_px d -> premul s = true -> premul d = true ->
  exists v, blend Darken s d = Ok v /\ wf_px v /\ premul v = true.
Proof. intros. apply sep_good; auto using darken_ok. Qed.
Theorem premul_blend_Lighten s d : wf_px s -> wf_px d -> premul s = true -> premul d = true ->
  exists v, blend Lighten s d = Ok v /\ wf_px v /\ premul v = true.
Proof. intros. apply sep_good; auto using lighten_ok. Qed.
Theorem premul_blend_ColorDodge s d : wf_px s -> wf_px d -> premul s = true -> premul d = true ->
  exists v, blend ColorDodge s d = Ok v /\ wf_px v /\ premul v = true.
Proof. intros. apply sep_good; auto using colordodge_ok. Qed.
Theorem premul_blend_ColorBurn s d : wf_px s -> wf_px d -> premul s = true -> premul d = true ->
  exists v, blend ColorBurn s d = Ok v /\ wf_px v /\ premul v = true.
Proof. intros. apply sep_good; auto using colorburn_ok. Qed.
Theorem premul_blend_HardLight s d : wf_px s -> wf_px d -> premul s = true -> premul d = true ->
  exists v, blend HardLight s d = Ok v /\ wf_px v /\ premul v = true.
Proof. intros. apply sep_good; auto using hardlight_ok. Qed.
Theorem premul_blend_SoftLight s d : wf_px s -> wf_px d -> premul s = true -> premul d = true ->
  exists v, blend SoftLight s d = Ok v /\ wf_px v /\ premul v = true.
Proof. intros. apply sep_good; auto using softlight_ok. Qed.
Theorem premul_blend_Difference s d : wf_px s -> wf_px d -> premul s = true -> premul d = true ->
  exists v, blend Difference s d = Ok v /\ wf_px v /\ premul v = true.
Proof. intros. apply sep_good; auto using difference_ok. Qed.
Theorem premul_blend_Exclusion s d : wf_px s -> wf_px d -> premul s = true -> premul d = true ->
  exists v, blend Exclusion s d = Ok v /\ wf_px v /\ premul v = true.
Proof. intros. apply sep_good; auto using exclusion_ok. Qed.
Theorem premul_blend_Multiply s d : wf_px s -> wf_px d -> premul s = true -> premul d = true ->
  exists v, blend Multiply s d = Ok v /\ wf_px v /\ premul v = true.
Proof. intros. apply sep_good; auto using multiply_ok. Qed.

Definition separable_modes : list mode :=
  [Dst; Src; Clear; SrcOver; DstOver; SrcIn; DstIn; SrcOut; DstOut; SrcAtop; DstAtop; Xor; Pixel.Add; Screen;
   Overlay; Darken; Lighten; ColorDodge; ColorBurn; HardLight; SoftLight; Difference; Exclusion; Multiply].

Theorem premul_blend_separable m s d : In m separable_modes ->
  wf_px s -> wf_px d -> premul s = true -> premul d = true ->
  exists v, blend m s d = Ok v /\ wf_px v /\ premul v = true.
Proof.
  intros Hm Hs Hd Ps Pd. unfold separable_modes in Hm. cbn [In] in Hm.
  destruct Hm as [<-|Hm]; [exact (premul_blend_Dst s d Hs Hd Ps Pd)|].
  destruct Hm as [<-|Hm]; [exact (premul_blend_Src s d Hs Hd Ps Pd)|].
  destruct Hm as [<-|Hm]; [exact (premul_blend_Clear s d Hs Hd Ps Pd)|].
  destruct Hm as [<-|Hm]; [exact (premul_blend_SrcOver s d Hs Hd Ps Pd)|].
  destruct Hm as [<-|Hm]; [exact (premul_blend_DstOver s d Hs Hd Ps Pd)|].
  destruct Hm as [<-|Hm]; [exact (premul_blend_SrcIn s d Hs Hd Ps Pd)|].
  destruct Hm as [<-|Hm]; [exact (premul_blend_DstIn s d Hs Hd Ps Pd)|].
  destruct Hm as [<-|Hm]; [exact (premul_blend_SrcOut s d Hs Hd Ps Pd)|].
  destruct Hm as [<-|Hm]; [exact (premul_blend_DstOut s d Hs Hd Ps Pd)|].
  destruct Hm as [<-|Hm]; [exact (premul_blend_SrcAtop s d Hs Hd Ps Pd)|].
  destruct Hm as [<-|Hm]; [exact (premul_blend_DstAtop s d Hs Hd Ps Pd)|].
  destruct Hm as [<-|Hm]; [exact (premul_blend_Xor s d Hs Hd Ps Pd)|].
  destruct Hm as [<-|Hm]; [exact (premul_blend_Add s d Hs Hd Ps Pd)|].
  destruct Hm as [<-|Hm]; [exact (premul_blend_Screen s d Hs Hd Ps Pd)|].
  destruct Hm as [<-|Hm]; [exact (premul_blend_Overlay s d Hs Hd Ps Pd)|].
  destruct Hm as [<-|Hm]; [exact (premul_blend_Darken s d Hs Hd Ps Pd)|].
  destruct Hm as [<-|Hm]; [exact (premul_blend_Lighten s d Hs Hd Ps Pd)|].
  destruct Hm as [<-|Hm]; [exact (premul_blend_ColorDodge s d Hs Hd Ps Pd)|].
  destruct Hm as [<-|Hm]; [exact (premul_blend_ColorBurn s d Hs Hd Ps Pd)|].
  destruct Hm as [<-|Hm]; [exact (premul_blend_HardLight s d Hs Hd Ps Pd)|].
  destruct Hm as [<-|Hm]; [exact (premul_blend_SoftLight s d Hs Hd Ps Pd)|].
  destruct Hm as [<-|Hm]; [exact (premul_blend_Difference s d Hs Hd Ps Pd)|].
  destruct Hm as [<-|Hm]; [exact (premul_blend_Exclusion s d Hs Hd Ps Pd)|].
  destruct Hm as [<-|Hm]; [exact (premul_blend_Multiply s d Hs Hd Ps Pd)|].
  contradiction.
Qed.
Print Assumptions premul_blend_separable.

(* ================================================================== *)
(** * 5. The Color mode does not preserve premultiplication            *)
(* ================================================================== *)
Theorem premul_blend_Color_refuted :
  premul 0xcece3fce = true /\ premul 0x0d0d0d0d = true /\ blend Color 0xcece3fce 0x0d0d0d0d = Err DebugAssert.
Proof. vm_compute. auto. Qed.
Print Assumptions premul_blend_Color_refuted.

(* ================================================================== *)
(** * 6. The row procedures of draw_target.rs, per pixel               *)
(* ================================================================== *)

Theorem premul_blend_px m s d : In m separable_modes ->
  wf_px s -> wf_px d -> premul s = true -> premul d = true ->
  exists v, blend_px m s d = Ok v /\ wf_px v /\ premul v = true.
Proof. unfold blend_px. apply premul_blend_separable. Qed.

Lemma lerp_after_blend m s d t : In m separable_modes ->
  wf_px s -> wf_px d -> premul s = true -> premul d = true -> 1 <= t <= 256 ->
  exists v, (do b <- blend m s d; Ok (lerp d b t)) = Ok v /\ wf_px v /\ premul v = true.
Proof.
  intros Hm Hs Hd Ps Pd Ht.
  destruct (premul_blend_separable m s d Hm Hs Hd Ps Pd) as (b & -> & Hb & Pb).
  cbn [bind]. exists (lerp d b t). split; [reflexivity|].
  apply premul_lerp; try assumption; lia.
Qed.

Theorem premul_blend_mask_px m s d mask : In m separable_modes ->
  wf_px s -> wf_px d -> premul s = true -> premul d = true -> byte mask ->
  exists v, blend_mask_px m s d mask = Ok v /\ wf_px v /\ premul v = true.
Proof.
  intros Hm Hs Hd Ps Pd Hk. unfold blend_mask_px.
  destruct (mask =? 0) eqn:E; [exists d; auto|].
  apply lerp_after_blend; try assumption. unfold alpha_to_alpha256, byte in *. lia.
Qed.

Theorem premul_blend_mask_clip_px m s d mask clip : In m separable_modes ->
  wf_px s -> wf_px d -> premul s = true -> premul d = true -> byte mask -> byte clip ->
  exists v, blend_mask_clip_px m s d mask clip = Ok v /\ wf_px v /\ premul v = true.
Proof.
  intros Hm Hs Hd Ps Pd Hk Hc. unfold blend_mask_clip_px. cbv zeta.
  pose proof (muldiv255_byte mask clip Hk Hc) as Hb.
  destruct (muldiv255 mask clip =? 0) eqn:E; [exists d; auto|].
  apply lerp_after_blend; try assumption. unfold alpha_to_alpha256, byte in *. lia.
Qed.
Print Assumptions premul_blend_mask_clip_px.

(* ================================================================== *)
(** * 7. Whatever pack_argb32 lets through is premultiplied            *)
(* ================================================================== *)

Lemma pack_argb32_ok_inv a r g b v : byte a -> 0 <= r -> 0 <= g -> 0 <= b ->
  pack_argb32 a r g b = Ok v -> premul v = true /\ wf_px v.
Proof.
  unfold byte, pack_argb32. intros Ha Hr Hg Hb.
  destruct ((r <=? a) && (g <=? a) && (b <=? a)) eqn:E; [|discriminate].
  intros H. inversion H; subst v; clear H.
  split; [apply premul_pack|apply wf_pack]; unfold byte; lia.
Qed.

Definition sep_nonneg (f : Z -> Z -> Z -> Z -> Z) : Prop :=
  forall sc dc sa da, byte sc -> byte dc -> byte sa -> byte da -> 0 <= f sc dc sa da.

Lemma sep_ok_inv f s d v : sep_nonneg f -> sep f s d = Ok v -> premul v = true /\ wf_px v.
Proof.
  intros Hf. unfold sep. cbv zeta. bytes_of s. bytes_of d.
  pose proof (srcover_byte_range (get_a s) (get_a d) ltac:(unfold byte; lia) ltac:(unfold byte; lia)).
  apply pack_argb32_ok_inv; [unfold byte; lia|..]; apply Hf; unfold byte; lia.
Qed.

Lemma nonsep_ok_inv k s d v : nonsep k s d = Ok v -> premul v = true /\ wf_px v.
Proof.
  unfold nonsep. cbv zeta. bytes_of s. bytes_of d.
  pose proof (srcover_byte_range (get_a s) (get_a d) ltac:(unfold byte; lia) ltac:(unfold byte; lia)).
  destruct (if negb (get_a s =? 0) && negb (get_a d =? 0)
            then k (get_r s, get_g s, get_b s) (get_r d, get_g d, get_b d) (get_a s) (get_a d)
            else Ok (0, 0, 0)) as [[[R G] B]|e]; cbn [bind]; [|discriminate].
  apply pack_argb32_ok_inv; [unfold byte; lia|..]; unfold nonsep_byte; apply clamp_nonneg.
Qed.

Lemma clamp_sep_nonneg f g : (forall sc dc sa da, f sc dc sa da = clamp_div255round (g sc dc sa da)) -> sep_nonneg f.
Proof. intros H sc dc sa da _ _ _ _. rewrite H. apply clamp_nonneg. Qed.

Lemma div255_mul_le a b : byte a -> byte b -> 0 <= div255 (a * b) <= a.
Proof.
  intros Ha Hb. rewrite div255_mul. pose proof (muldiv255_le_l a b Ha Hb).
  unfold byte in *. pose proof (muldiv255_nonneg a b). lia.
Qed.

Lemma multiply_nonneg : sep_nonneg multiply_byte.
Proof. intros sc dc sa da _ _ _ _. apply clamp_nonneg. Qed.
Lemma overlay_nonneg : sep_nonneg overlay_byte.
Proof. intros sc dc sa da _ _ _ _. apply clamp_nonneg. Qed.
Lemma hardlight_nonneg : sep_nonneg hardlight_byte.
Proof. intros sc dc sa da _ _ _ _. apply clamp_nonneg. Qed.
Lemma softlight_nonneg : sep_nonneg softlight_byte.
Proof. intros sc dc sa da _ _ _ _. apply clamp_nonneg. Qed.
Lemma exclusion_nonneg : sep_nonneg exclusion_byte.
Proof. intros sc dc sa da _ _ _ _. apply clamp_nonneg. Qed.
Lemma darken_nonneg : sep_nonneg darken_byte.
Proof.
  intros sc dc sa da Hsc Hdc Hsa Hda. unfold darken_byte. cbv zeta.
  pose proof (div255_mul_le sc da Hsc Hda). pose proof (div255_mul_le dc sa Hdc Hsa).
  unfold byte in *. destruct (sc * da <? dc * sa); lia.
Qed.
Lemma lighten_nonneg : sep_nonneg lighten_byte.
Proof.
  intros sc dc sa da Hsc Hdc Hsa Hda. unfold lighten_byte. cbv zeta.
  pose proof (div255_mul_le sc da Hsc Hda). pose proof (div255_mul_le dc sa Hdc Hsa).
  unfold byte in *. destruct (dc * sa <? sc * da); lia.
Qed.
Lemma difference_nonneg : sep_nonneg difference_byte.
Proof.
  intros sc dc sa da _ _ _ _. unfold difference_byte, clamp_signed_byte. cbv zeta.
  destruct (sc + dc - 2 * div255 (Z.min (sc * da) (dc * sa)) <? 0) eqn:E1; [lia|].
  destruct (255 <? sc + dc - 2 * div255 (Z.min (sc * da) (dc * sa))) eqn:E2; lia.
Qed.
Lemma colordodge_nonneg : sep_nonneg colordodge_byte.
Proof.
  intros sc dc sa da Hsc Hdc Hsa Hda. unfold colordodge_byte. cbv zeta. unfold byte in *.
  destruct (dc =? 0); [apply muldiv255_nonneg; lia|].
  destruct (sa - sc =? 0); apply clamp_nonneg.
Qed.
Lemma colorburn_nonneg : sep_nonneg colorburn_byte.
Proof.
  intros sc dc sa da Hsc Hdc Hsa Hda. unfold colorburn_byte. cbv zeta. unfold byte in *.
  destruct (dc =? da); [apply clamp_nonneg|].
  destruct (sc =? 0); [apply muldiv255_nonneg; lia|apply clamp_nonneg].
Qed.

Definition packed_modes : list mode :=
  [SrcAtop; DstAtop; Xor; Pixel.Add; Screen; Overlay; Darken; Lighten; ColorDodge; ColorBurn; HardLight;
   SoftLight; Difference; Exclusion; Multiply; Hue; Saturation; Color; Luminosity].

Lemma xor_alpha_byte sa da : byte sa -> byte da -> byte (sa + da - muldiv255 sa da * 2).
Proof.
  intros Hs Hd. destruct (extreme sa da Hs Hd) as (_ & _ & E & _).
  pose proof (muldiv255_le_l sa da Hs Hd). pose proof (muldiv255_le_r sa da Hs Hd).
  unfold byte in *. lia.
Qed.

Theorem blend_ok_premul_packed m s d v : wf_px s -> wf_px d -> In m packed_modes ->
  blend m s d = Ok v -> premul v = true /\ wf_px v.
Proof.
  intros Hs Hd Hm. unfold packed_modes in Hm. cbn [In] in Hm.
  bytes_of s. bytes_of d.
  assert (MN : forall a b, 0 <= a -> 0 <= b -> 0 <= muldiv255 a b) by apply muldiv255_nonneg.
  destruct Hm as [<-|Hm].
  { cbn [blend]. cbv zeta. rewrite (packed_alpha_get_a d Hd), (packed_alpha_get_a s Hs).
    apply pack_argb32_ok_inv; [unfold byte; lia|..];
      apply Z.add_nonneg_nonneg; apply MN; lia. }
  destruct Hm as [<-|Hm].
  { cbn [blend]. cbv zeta. rewrite (packed_alpha_get_a d Hd), (packed_alpha_get_a s Hs).
    apply pack_argb32_ok_inv; [unfold byte; lia|..];
      apply Z.add_nonneg_nonneg; apply MN; lia. }
  destruct Hm as [<-|Hm].
  { cbn [blend]. cbv zeta. rewrite (packed_alpha_get_a d Hd), (packed_alpha_get_a s Hs).
    apply pack_argb32_ok_inv; [apply xor_alpha_byte; unfold byte; lia|..];
      apply Z.add_nonneg_nonneg; apply MN; lia. }
  destruct Hm as [<-|Hm].
  { cbn [blend].
    apply pack_argb32_ok_inv; [apply saturated_add8_byte; lia|..]; apply saturated_add8_byte; lia. }
  destruct Hm as [<-|Hm].
  { cbn [blend].
    pose proof (srcover_byte_range (get_a s) (get_a d) ltac:(unfold byte; lia) ltac:(unfold byte; lia)).
    pose proof (srcover_byte_range (get_r s) (get_r d) ltac:(unfold byte; lia) ltac:(unfold byte; lia)).
    pose proof (srcover_byte_range (get_g s) (get_g d) ltac:(unfold byte; lia) ltac:(unfold byte; lia)).
    pose proof (srcover_byte_range (get_b s) (get_b d) ltac:(unfold byte; lia) ltac:(unfold byte; lia)).
    apply pack_argb32_ok_inv; unfold byte; lia. }
  destruct Hm as [<-|Hm]; [exact (sep_ok_inv _ s d v overlay_nonneg)|].
  destruct Hm as [<-|Hm]; [exact (sep_ok_inv _ s d v darken_nonneg)|].
  destruct Hm as [<-|Hm]; [exact (sep_ok_inv _ s d v lighten_nonneg)|].
  destruct Hm as [<-|Hm]; [exact (sep_ok_inv _ s d v colordodge_nonneg)|].
  destruct Hm as [<-|Hm]; [exact (sep_ok_inv _ s d v colorburn_nonneg)|].
  destruct Hm as [<-|Hm]; [exact (sep_ok_inv _ s d v hardlight_nonneg)|].
  destruct Hm as [<-|Hm]; [exact (sep_ok_inv _ s d v softlight_nonneg)|].
  destruct Hm as [<-|Hm]; [exact (sep_ok_inv _ s d v difference_nonneg)|].
  destruct Hm as [<-|Hm]; [exact (sep_ok_inv _ s d v exclusion_nonneg)|].
  destruct Hm as [<-|Hm]; [exact (sep_ok_inv _ s d v multiply_nonneg)|].
  destruct Hm as [<-|Hm]; [apply nonsep_ok_inv|].
  destruct Hm as [<-|Hm]; [apply nonsep_ok_inv|].
  destruct Hm as [<-|Hm]; [apply nonsep_ok_inv|].
  destruct Hm as [<-|Hm]; [apply nonsep_ok_inv|].
  contradiction.
Qed.
Print Assumptions blend_ok_premul_packed.

(* ================================================================== *)
(** * 8. C18 in conditional form for all 28 modes                      *)
(* ================================================================== *)

Lemma all_modes_split m : In m separable_modes \/ In m [Hue; Saturation; Color; Luminosity].
Proof. destruct m; cbn; tauto. Qed.

(* if a blend of premultiplied pixels returns at all, the result is premultiplied (all 28 modes) *)
Theorem blend_ok_premul_all m s d v : wf_px s -> wf_px d -> premul s = true -> premul d = true ->
  blend m s d = Ok v -> premul v = true /\ wf_px v.
Proof.
  intros Hs Hd Ps Pd H. destruct (all_modes_split m) as [Hm|Hm].
  - destruct (premul_blend_separable m s d Hm Hs Hd Ps Pd) as (v' & E & W & P).
    rewrite E in H. inversion H; subst; auto.
  - apply (blend_ok_premul_packed m s d v Hs Hd); [|exact H].
    unfold packed_modes. cbn [In] in *. tauto.
Qed.
Print Assumptions blend_ok_premul_all.

Theorem blend_px_ok_premul_all m s d v : wf_px s -> wf_px d -> premul s = true -> premul d = true ->
  blend_px m s d = Ok v -> premul v = true /\ wf_px v.
Proof. unfold blend_px. apply blend_ok_premul_all. Qed.

Lemma lerp_after_blend_all m s d t v : wf_px s -> wf_px d -> premul s = true -> premul d = true ->
  1 <= t <= 256 -> (do b <- blend m s d; Ok (lerp d b t)) = Ok v -> premul v = true /\ wf_px v.
Proof.
  intros Hs Hd Ps Pd Ht. destruct (blend m s d) as [b|e] eqn:E; cbn [bind]; [|discriminate].
  destruct (blend_ok_premul_all m s d b Hs Hd Ps Pd E) as [Pb Wb].
  intros H; inversion H; subst v. 
  destruct (premul_lerp d b t Hd Wb Pd Pb ltac:(lia)). auto.
Qed.

Theorem blend_mask_px_ok_premul_all m s d mask v :
  wf_px s -> wf_px d -> premul s = true -> premul d = true -> byte mask ->
  blend_mask_px m s d mask = Ok v -> premul v = true /\ wf_px v.
Proof.
  intros Hs Hd Ps Pd Hk. unfold blend_mask_px.
  destruct (mask =? 0) eqn:E; [intros H; inversion H; subst; auto|].
  apply lerp_after_blend_all; try assumption. unfold alpha_to_alpha256, byte in *. lia.
Qed.

Theorem blend_mask_clip_px_ok_premul_all m s d mask clip v :
  wf_px s -> wf_px d -> premul s = true -> premul d = true -> byte mask -> byte clip ->
  blend_mask_clip_px m s d mask clip = Ok v -> premul v = true /\ wf_px v.
Proof.
  intros Hs Hd Ps Pd Hk Hc. unfold blend_mask_clip_px. cbv zeta.
  pose proof (muldiv255_byte mask clip Hk Hc) as Hb.
  destruct (muldiv255 mask clip =? 0) eqn:E; [intros H; inversion H; subst; auto|].
  apply lerp_after_blend_all; try assumption. unfold alpha_to_alpha256, byte in *. lia.
Qed.
Print Assumptions blend_mask_clip_px_ok_premul_all.

(* ================================================================== *)
(** * 9. Remarks proved by computation                                 *)
(* ================================================================== *)

(* the other three non-separable modes can also fail on premultiplied input: lum overflows u32 *)
Theorem premul_blend_Hue_refuted :
  premul 0x877c2f6e = true /\ premul 0x06010000 = true /\ blend Hue 0x877c2f6e 0x06010000 = Err PixelOverflow.
Proof. vm_compute. auto. Qed.
Theorem premul_blend_Saturation_refuted :
  premul 0x8f675429 = true /\ premul 0x01000001 = true /\ blend Saturation 0x8f675429 0x01000001 = Err PixelOverflow.
Proof. vm_compute. auto. Qed.
Theorem premul_blend_Luminosity_refuted :
  premul 0x01010000 = true /\ premul 0xed9457ea = true /\ blend Luminosity 0x01010000 0xed9457ea = Err PixelOverflow.
Proof. vm_compute. auto. Qed.

(* without premul src the lanes of over_in do carry: here the blue lane reaches 130305 >= 65536 and its
   carry changes the red channel (0 instead of the per-channel formula's 255) *)
Remark over_in_carry_without_premul :
  let s := 0x000100ff in let d := 0xffffffff in
  premul s = false /\
  get_b s * 255 + get_b d * alpha_mul_inv256 (get_a s) 255 = 130305 /\
  get_r (over_in s d 254) = 0 /\
  (get_r s * 255 + get_r d * alpha_mul_inv256 (get_a s) 255) / 256 = 255.
Proof. vm_compute. auto. Qed.

(* ================================================================== *)
(** * 10. Extras used by the callers of the pixel layer                *)
(* ================================================================== *)

(* the SrcOver span blitters' pixels exactly as Target.blit_px writes them *)
Corollary premul_srcover_mask_px s d mask : wf_px s -> wf_px d -> premul s = true -> premul d = true -> byte mask ->
  let v := if mask =? 0 then d else over_in s d mask in wf_px v /\ premul v = true.
Proof. intros Hs Hd Ps Pd Hm v. subst v. destruct (mask =? 0); [auto|apply premul_over_in; assumption]. Qed.

Corollary premul_srcover_mask_clip_px s d mask clip :
  wf_px s -> wf_px d -> premul s = true -> premul d = true -> byte mask -> byte clip ->
  let v := if (mask =? 0) || (clip =? 0) then d else over_in_in s d mask clip in wf_px v /\ premul v = true.
Proof.
  intros Hs Hd Ps Pd Hm Hc v. subst v.
  destruct ((mask =? 0) || (clip =? 0)); [auto|apply premul_over_in_in; assumption].
Qed.

(* premultiply never trips its assertion, and yields a premultiplied pixel (for any word c, even not wf) *)
Theorem premultiply_total c : premultiply c = Ok (premultiply_t c).
Proof.
  unfold premultiply, premultiply_t. cbv zeta. bytes_of c.
  destruct (get_a c <? 255) eqn:E; unfold pack_argb32.
  - pose proof (muldiv255_le_r (get_r c) (get_a c) ltac:(unfold byte; lia) ltac:(unfold byte; lia)).
    pose proof (muldiv255_le_r (get_g c) (get_a c) ltac:(unfold byte; lia) ltac:(unfold byte; lia)).
    pose proof (muldiv255_le_r (get_b c) (get_a c) ltac:(unfold byte; lia) ltac:(unfold byte; lia)).
    replace ((muldiv255 (get_r c) (get_a c) <=? get_a c) && (muldiv255 (get_g c) (get_a c) <=? get_a c) &&
             (muldiv255 (get_b c) (get_a c) <=? get_a c)) with true by lia.
    reflexivity.
  - replace ((get_r c <=? get_a c) && (get_g c <=? get_a c) && (get_b c <=? get_a c)) with true by lia.
    reflexivity.
Qed.

Theorem premul_premultiply_t c : wf_px (premultiply_t c) /\ premul (premultiply_t c) = true.
Proof.
  unfold premultiply_t. cbv zeta. bytes_of c.
  destruct (get_a c <? 255) eqn:E.
  - pose proof (muldiv255_le_r (get_r c) (get_a c) ltac:(unfold byte; lia) ltac:(unfold byte; lia)).
    pose proof (muldiv255_le_r (get_g c) (get_a c) ltac:(unfold byte; lia) ltac:(unfold byte; lia)).
    pose proof (muldiv255_le_r (get_b c) (get_a c) ltac:(unfold byte; lia) ltac:(unfold byte; lia)).
    pose proof (muldiv255_nonneg (get_r c) (get_a c) ltac:(lia) ltac:(lia)).
    pose proof (muldiv255_nonneg (get_g c) (get_a c) ltac:(lia) ltac:(lia)).
    pose proof (muldiv255_nonneg (get_b c) (get_a c) ltac:(lia) ltac:(lia)).
    split; [apply wf_pack|apply premul_pack]; unfold byte; lia.
  - split; [apply wf_pack|apply premul_pack]; unfold byte; lia.
Qed.

(* rows: a list of premultiplied pixels stays premultiplied under a pixel-wise map2r *)
Definition row_ok (l : list Z) : Prop := Forall (fun p => wf_px p /\ premul p = true) l.

Lemma map2r_row_ok (f : Z -> Z -> result Z) srcs dsts out :
  (forall s d v, wf_px s -> wf_px d -> premul s = true -> premul d = true -> f s d = Ok v ->
                 premul v = true /\ wf_px v) ->
  row_ok srcs -> row_ok dsts -> map2r f srcs dsts = Ok out -> row_ok out.
Proof.
  intros Hf. revert dsts out. induction srcs as [|s st IH]; intros [|d dt] out Hs Hd H; cbn in H;
    try (inversion H; subst; constructor).
  destruct (f s d) as [v|e] eqn:E; cbn [bind] in H; [|discriminate].
  destruct (map2r f st dt) as [t|e] eqn:E2; cbn [bind] in H; [|discriminate].
  inversion H; subst out. inversion Hs; subst. inversion Hd; subst.
  constructor.
  - destruct H2, H4. destruct (Hf s d v) as [P W]; auto.
  - eapply IH; eauto.
Qed.

Corollary blend_row_ok m srcs dsts out : row_ok srcs -> row_ok dsts ->
  map2r (blend_px m) srcs dsts = Ok out -> row_ok out.
Proof.
  apply map2r_row_ok. intros s d v Hs Hd Ps Pd H.
  exact (blend_px_ok_premul_all m s d v Hs Hd Ps Pd H).
Qed.

(* ================================================================== *)
(** * Assumption audit                                                 *)
(* ================================================================== *)
Print Assumptions pack_get.
Print Assumptions lane_rb.
Print Assumptions lane_ag.
Print Assumptions alpha_mul_channels.
Print Assumptions over_in_channels.
Print Assumptions over_in_in_channels.
Print Assumptions over_channels.
Print Assumptions lerp_channels.
Print Assumptions oic_nocarry.
Print Assumptions premul_over_in.
Print Assumptions premul_over_in_in.
Print Assumptions premul_over.
Print Assumptions premul_alpha_mul.
Print Assumptions premul_lerp.
Print Assumptions lerp_256.
Print Assumptions lerp_0.
Print Assumptions over_in_255_over.
Print Assumptions over_opaque.
Print Assumptions over_in_src0.
Print Assumptions alpha_mul_256_id.
Print Assumptions muldiv255_255.
Print Assumptions muldiv255_le_l.
Print Assumptions muldiv255_le_r.
Print Assumptions premul_blend_px.
Print Assumptions premul_blend_mask_px.
Print Assumptions blend_px_ok_premul_all.
Print Assumptions blend_mask_px_ok_premul_all.
Print Assumptions premultiply_total.
Print Assumptions premul_premultiply_t.
Print Assumptions blend_row_ok.
