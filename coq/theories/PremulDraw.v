(* PremulDraw: lifting of the pixel-level facts of PixelProofs.v to shaders, span blitters and composite. *)
Require Import RQ.Base RQ.F32 RQ.Rect RQ.Pixel RQ.PixelProofs RQ.Raster RQ.PathF RQ.PathOps RQ.Shader RQ.Surface RQ.Target RQ.SurfaceProofs RQ.TargetProofs RQ.OpsProofs RQ.ClipProofs.
Require RQ.PixelFormat.
From Coq Require Import ZArith List Lia Bool ZifyBool.
Import ListNotations.
Open Scope Z_scope.
Ltac Zify.zify_post_hook ::= Z.to_euclidean_division_equations.

Definition px_ok (p : Z) : Prop := wf_px p /\ premul p = true.

(* ================================================================== *)
(** * A. bilinear_interpolation                                        *)
(* ================================================================== *)

(* weighted average of four channels with weights summing to 256 *)
Definition bic (c1 c2 c3 c4 w1 w2 w3 w4 : Z) : Z := (c1 * w1 + c2 * w2 + c3 * w3 + c4 * w4) / 256.

Lemma bilinear_weights dx dy : 0 <= dx <= 15 -> 0 <= dy <= 15 ->
  let wxy := dx * dy in
  let wxiy := Z.shiftl dx 4 - wxy in
  let wixy := Z.shiftl dy 4 - wxy in
  let wixiy := wrapu32 (256 - Z.shiftl dy 4 - Z.shiftl dx 4 + wxy) in
  0 <= wxy /\ 0 <= wxiy /\ 0 <= wixy /\ 0 <= wixiy /\ wixiy + wxiy + wixy + wxy = 256.
Proof.
  intros Hx Hy. cbv zeta. rewrite !Z.shiftl_mul_pow2 by lia. change (2^4) with 16.
  assert (0 <= dx * dy <= 15 * dy) by nia. assert (dx * dy <= dx * 15) by nia.
  assert (E : 256 - dy * 16 - dx * 16 + dx * dy = (16 - dx) * (16 - dy)) by ring.
  assert (1 <= (16 - dx) * (16 - dy) <= 256) by nia.
  rewrite wrapu32_mod, Z.mod_small by lia. lia.
Qed.

Lemma bic_sum_bound c1 c2 c3 c4 w1 w2 w3 w4 :
  byte c1 -> byte c2 -> byte c3 -> byte c4 -> 0 <= w1 -> 0 <= w2 -> 0 <= w3 -> 0 <= w4 ->
  w1 + w2 + w3 + w4 = 256 -> 0 <= c1 * w1 + c2 * w2 + c3 * w3 + c4 * w4 <= 65280.
Proof. unfold byte. intros. nia. Qed.

Lemma bic_byte c1 c2 c3 c4 w1 w2 w3 w4 :
  byte c1 -> byte c2 -> byte c3 -> byte c4 -> 0 <= w1 -> 0 <= w2 -> 0 <= w3 -> 0 <= w4 ->
  w1 + w2 + w3 + w4 = 256 -> byte (bic c1 c2 c3 c4 w1 w2 w3 w4).
Proof. intros. pose proof (bic_sum_bound c1 c2 c3 c4 w1 w2 w3 w4). unfold bic, byte in *. lia. Qed.

Lemma bic_mono c1 c2 c3 c4 a1 a2 a3 a4 w1 w2 w3 w4 :
  c1 <= a1 -> c2 <= a2 -> c3 <= a3 -> c4 <= a4 -> 0 <= w1 -> 0 <= w2 -> 0 <= w3 -> 0 <= w4 ->
  bic c1 c2 c3 c4 w1 w2 w3 w4 <= bic a1 a2 a3 a4 w1 w2 w3 w4.
Proof. intros. unfold bic. apply Z.div_le_mono; [lia|]. nia. Qed.

Lemma bilinear_none_pack tl tr bl br dx dy :
  wf_px tl -> wf_px tr -> wf_px bl -> wf_px br -> 0 <= dx <= 15 -> 0 <= dy <= 15 ->
  let wxy := dx * dy in
  let wxiy := Z.shiftl dx 4 - wxy in
  let wixy := Z.shiftl dy 4 - wxy in
  let wixiy := wrapu32 (256 - Z.shiftl dy 4 - Z.shiftl dx 4 + wxy) in
  bilinear_interpolation tl tr bl br dx dy None =
  pack (bic (get_a tl) (get_a tr) (get_a bl) (get_a br) wixiy wxiy wixy wxy)
       (bic (get_r tl) (get_r tr) (get_r bl) (get_r br) wixiy wxiy wixy wxy)
       (bic (get_g tl) (get_g tr) (get_g bl) (get_g br) wixiy wxiy wixy wxy)
       (bic (get_b tl) (get_b tr) (get_b bl) (get_b br) wixiy wxiy wixy wxy).
Proof.
  intros H1 H2 H3 H4 Hx Hy. pose proof (bilinear_weights dx dy Hx Hy) as W. cbv zeta in W |- *.
  unfold bilinear_interpolation. cbv zeta.
  set (w1 := wrapu32 (256 - Z.shiftl dy 4 - Z.shiftl dx 4 + dx * dy)) in *.
  set (w2 := Z.shiftl dx 4 - dx * dy) in *. set (w3 := Z.shiftl dy 4 - dx * dy) in *.
  set (w4 := dx * dy) in *. clearbody w1 w2 w3 w4. destruct W as (W4 & W2 & W3 & W1 & WS).
  rewrite (lane_rb tl H1), (lane_rb tr H2), (lane_rb bl H3), (lane_rb br H4).
  rewrite (lane_ag tl H1), (lane_ag tr H2), (lane_ag bl H3), (lane_ag br H4).
  rewrite shiftr8, PixelProofs.combine. bytes_of tl. bytes_of tr. bytes_of bl. bytes_of br.
  pose proof (bic_sum_bound (get_a tl) (get_a tr) (get_a bl) (get_a br) w1 w2 w3 w4) as Ba.
  pose proof (bic_sum_bound (get_r tl) (get_r tr) (get_r bl) (get_r br) w1 w2 w3 w4) as Br.
  pose proof (bic_sum_bound (get_g tl) (get_g tr) (get_g bl) (get_g br) w1 w2 w3 w4) as Bg.
  pose proof (bic_sum_bound (get_b tl) (get_b tr) (get_b bl) (get_b br) w1 w2 w3 w4) as Bb.
  unfold byte in *.
  specialize (Ba ltac:(lia) ltac:(lia) ltac:(lia) ltac:(lia) W1 W2 W3 W4 ltac:(lia)).
  specialize (Br ltac:(lia) ltac:(lia) ltac:(lia) ltac:(lia) W1 W2 W3 W4 ltac:(lia)).
  specialize (Bg ltac:(lia) ltac:(lia) ltac:(lia) ltac:(lia) W1 W2 W3 W4 ltac:(lia)).
  specialize (Bb ltac:(lia) ltac:(lia) ltac:(lia) ltac:(lia) W1 W2 W3 W4 ltac:(lia)).
  replace ((get_b tl + 65536 * get_r tl) * w1 + (get_b tr + 65536 * get_r tr) * w2 +
           (get_b bl + 65536 * get_r bl) * w3 + (get_b br + 65536 * get_r br) * w4)
    with ((get_b tl * w1 + get_b tr * w2 + get_b bl * w3 + get_b br * w4) +
          65536 * (get_r tl * w1 + get_r tr * w2 + get_r bl * w3 + get_r br * w4)) by ring.
  replace ((get_g tl + 65536 * get_a tl) * w1 + (get_g tr + 65536 * get_a tr) * w2 +
           (get_g bl + 65536 * get_a bl) * w3 + (get_g br + 65536 * get_a br) * w4)
    with ((get_g tl * w1 + get_g tr * w2 + get_g bl * w3 + get_g br * w4) +
          65536 * (get_a tl * w1 + get_a tr * w2 + get_a bl * w3 + get_a br * w4)) by ring.
  unfold bic. apply pack_inj_goal.
  - apply lane_hi; lia.
  - apply lane_shr_hi; lia.
  - apply lane_shr_lo; lia.
  - apply lane_shr_lo; lia.
Qed.

Theorem bilinear_none_ok tl tr bl br dx dy :
  px_ok tl -> px_ok tr -> px_ok bl -> px_ok br -> 0 <= dx <= 15 -> 0 <= dy <= 15 ->
  px_ok (bilinear_interpolation tl tr bl br dx dy None).
Proof.
  intros [H1 P1] [H2 P2] [H3 P3] [H4 P4] Hx Hy.
  rewrite bilinear_none_pack by assumption. cbv zeta.
  pose proof (bilinear_weights dx dy Hx Hy) as W. cbv zeta in W.
  set (w1 := wrapu32 (256 - Z.shiftl dy 4 - Z.shiftl dx 4 + dx * dy)) in *.
  set (w2 := Z.shiftl dx 4 - dx * dy) in *. set (w3 := Z.shiftl dy 4 - dx * dy) in *.
  set (w4 := dx * dy) in *. clearbody w1 w2 w3 w4. destruct W as (W4 & W2 & W3 & W1 & WS).
  apply premul_iff in P1. apply premul_iff in P2. apply premul_iff in P3. apply premul_iff in P4.
  bytes_of tl. bytes_of tr. bytes_of bl. bytes_of br.
  assert (byte (bic (get_a tl) (get_a tr) (get_a bl) (get_a br) w1 w2 w3 w4)) by (apply bic_byte; unfold byte; lia).
  assert (byte (bic (get_r tl) (get_r tr) (get_r bl) (get_r br) w1 w2 w3 w4)) by (apply bic_byte; unfold byte; lia).
  assert (byte (bic (get_g tl) (get_g tr) (get_g bl) (get_g br) w1 w2 w3 w4)) by (apply bic_byte; unfold byte; lia).
  assert (byte (bic (get_b tl) (get_b tr) (get_b bl) (get_b br) w1 w2 w3 w4)) by (apply bic_byte; unfold byte; lia).
  split; [apply wf_pack; assumption|].
  apply premul_pack; try assumption; apply bic_mono; lia.
Qed.

(* the alpha variant is alpha_mul of the plain variant *)
Lemma bilinear_some_alpha_mul tl tr bl br dx dy a :
  wf_px tl -> wf_px tr -> wf_px bl -> wf_px br -> 0 <= dx <= 15 -> 0 <= dy <= 15 ->
  bilinear_interpolation tl tr bl br dx dy (Some a) =
  alpha_mul (bilinear_interpolation tl tr bl br dx dy None) a.
Proof.
  intros H1 H2 H3 H4 Hx Hy.
  assert (Wn : wf_px (bilinear_interpolation tl tr bl br dx dy None)).
  { rewrite bilinear_none_pack by assumption. cbv zeta.
    pose proof (bilinear_weights dx dy Hx Hy) as W. cbv zeta in W.
    destruct W as (W4 & W2 & W3 & W1 & WS).
    bytes_of tl. bytes_of tr. bytes_of bl. bytes_of br.
    apply wf_pack; apply bic_byte; unfold byte; lia. }
  unfold alpha_mul. cbv zeta.
  revert Wn. unfold bilinear_interpolation. cbv zeta.
  set (lo := Z.land tl MASK * _ + Z.land tr MASK * _ + Z.land bl MASK * _ + Z.land br MASK * _).
  set (hi := Z.land (Z.shiftr tl 8) MASK * _ + Z.land (Z.shiftr tr 8) MASK * _ +
             Z.land (Z.shiftr bl 8) MASK * _ + Z.land (Z.shiftr br 8) MASK * _).
  clearbody lo hi. intros Wn.
  set (x := Z.lor (Z.land (Z.shiftr lo 8) MASK) (Z.land hi NMASK)) in *.
  assert (E1 : Z.land x MASK = Z.land (Z.shiftr lo 8) MASK).
  { subst x. rewrite PixelProofs.combine. rewrite land_MASK.
    rewrite pack_eq by (unfold byte; lia). rewrite land_MASK. lia. }
  assert (E2 : Z.land (Z.shiftr x 8) MASK = Z.land (Z.shiftr hi 8) MASK).
  { subst x. rewrite PixelProofs.combine, !shiftr8, !land_MASK.
    rewrite pack_eq by (unfold byte; lia). lia. }
  rewrite E1, E2. reflexivity.
Qed.

Theorem bilinear_ok tl tr bl br dx dy alpha :
  px_ok tl -> px_ok tr -> px_ok bl -> px_ok br -> 0 <= dx <= 15 -> 0 <= dy <= 15 ->
  match alpha with None => True | Some a => 0 <= a <= 256 end ->
  px_ok (bilinear_interpolation tl tr bl br dx dy alpha).
Proof.
  intros O1 O2 O3 O4 Hx Hy Ha.
  pose proof (bilinear_none_ok tl tr bl br dx dy O1 O2 O3 O4 Hx Hy) as [Wn Pn].
  destruct alpha as [a|]; [|split; assumption].
  rewrite bilinear_some_alpha_mul by (try apply O1; try apply O2; try apply O3; try apply O4; assumption).
  apply premul_alpha_mul; assumption.
Qed.
Print Assumptions bilinear_ok.

(* ================================================================== *)
(** * B. Shaders produce premultiplied colours                         *)
(* ================================================================== *)

Lemma px_ok_0 : px_ok 0.
Proof. split; [apply wf_0|reflexivity]. Qed.

Lemma zn_ok l i : Forall px_ok l -> px_ok (zn l i).
Proof.
  intros H. unfold zn. destruct (nth_in_or_default (Z.to_nat i) l 0) as [Hin| ->]; [|apply px_ok_0].
  rewrite Forall_forall in H. apply H. exact Hin.
Qed.

Definition image_ok (im : image) : Prop := Forall px_ok (i_data im).
Definition alpha_opt_ok (alpha : option Z) : Prop := match alpha with None => True | Some a => 0 <= a <= 256 end.

Lemma img_at_ok im x y : image_ok im -> px_ok (img_at im x y).
Proof. intros H. unfold img_at. apply zn_ok. exact H. Qed.

Lemma fetch_ok e im x y : image_ok im -> px_ok (fetch e im x y).
Proof. intros H. destruct e; cbn [fetch]; unfold pad_fetch, repeat_fetch; cbv zeta; apply img_at_ok; exact H. Qed.

Lemma alpha_mul_ok p a : px_ok p -> 0 <= a <= 256 -> px_ok (alpha_mul p a).
Proof. intros [W P] Ha. apply premul_alpha_mul; assumption. Qed.

Lemma bilinear_weight_range x : 0 <= bilinear_weight x <= 15.
Proof.
  unfold bilinear_weight.
  assert (E : forall v, Z.land v 15 = v mod 16) by (intros v; apply (Z.land_ones v 4); lia).
  rewrite E. lia.
Qed.

Lemma fetch_bilinear_ok e im x y alpha : image_ok im -> alpha_opt_ok alpha -> px_ok (fetch_bilinear e im x y alpha).
Proof.
  intros Hi Ha. unfold fetch_bilinear. cbv zeta.
  apply bilinear_ok; try (apply fetch_ok; exact Hi); try apply bilinear_weight_range. exact Ha.
Qed.

Lemma fetch_nearest_ok e im x y alpha : image_ok im -> alpha_opt_ok alpha -> px_ok (fetch_nearest e im x y alpha).
Proof.
  intros Hi Ha. unfold fetch_nearest. cbv zeta. destruct alpha as [a|].
  - apply alpha_mul_ok; [apply fetch_ok; exact Hi|exact Ha].
  - apply fetch_ok; exact Hi.
Qed.

Definition shader_ok (sh : shader) : Prop :=
  match sh with
  | ShSolid c => px_ok c
  | ShImageOffset im _ _ _ a => image_ok im /\ 0 <= a <= 256
  | ShImageXf im _ _ _ alpha => image_ok im /\ alpha_opt_ok alpha
  | ShLinear lut _ _ | ShRadial lut _ _ | ShTwoCircle lut _ _ _ _ _ _ | ShSweep lut _ _ _ _ => Forall px_ok lut
  end.

Theorem shade_ok sh x y : shader_ok sh -> px_ok (shade sh x y).
Proof.
  destruct sh as [c|im e ox oy a|im e f m alpha|lut s m|lut s m|lut s m c1 r1 c2 r2|lut s m tb ts]; cbn [shader_ok]; intros H.
  - exact H.
  - destruct H as [Hi Ha]. destruct e; cbn [shade]; apply alpha_mul_ok; try assumption; apply img_at_ok; exact Hi.
  - destruct H as [Hi Ha]. destruct f; cbn [shade]; destruct (fix_transform m x y) as [px py];
      [apply fetch_bilinear_ok|apply fetch_nearest_ok]; assumption.
  - cbn [shade]. destruct (fix_transform m x y) as [px py]. apply zn_ok. exact H.
  - cbn [shade]. destruct (fix_transform m x y) as [px py]. apply zn_ok. exact H.
  - cbn [shade]. destruct (fix_transform m x y) as [ix iy]. cbv zeta.
    match goal with |- px_ok (match ?r with Some _ => _ | None => _ end) => destruct r end;
      [apply zn_ok; exact H|apply px_ok_0].
  - cbn [shade]. destruct (fix_transform m x y) as [ix iy]. apply zn_ok. exact H.
Qed.

(* the gradient look-up table: every entry is an output of premultiply_t *)
Lemma premultiply_t_ok c : px_ok (premultiply_t c).
Proof. apply premul_premultiply_t. Qed.

Lemma fill_run_ok fuel : forall i npos last next inverse t,
  Forall px_ok (fst (fill_run fuel i npos last next inverse t)).
Proof.
  induction fuel as [|k IH]; intros i npos last next inverse t; cbn [fill_run]; [constructor|].
  destruct ((i <=? npos) && (i <? 255)); [|constructor].
  specialize (IH (i + 1) npos last next inverse (t + inverse)).
  destruct (fill_run k (i + 1) npos last next inverse (t + inverse)) as [rest i'].
  cbn [fst] in *. constructor; [apply premultiply_t_ok|exact IH].
Qed.

Lemma lut_loop_ok stops alpha fuel : forall i idx last next npos,
  Forall px_ok (lut_loop stops alpha fuel i idx last next npos).
Proof.
  induction fuel as [|k IH]; intros i idx last next npos; cbn [lut_loop]; [constructor|].
  destruct (i <? 255); [|constructor].
  destruct (advance_stops stops alpha (Z.to_nat (nstops stops) + 2) i idx last next npos) as [[[idx' last'] next'] npos'].
  pose proof (fill_run_ok 256 i npos' last' next' (Z.quot 65536 (npos' - i)) 0) as F.
  destruct (fill_run 256 i npos' last' next' (Z.quot 65536 (npos' - i)) 0) as [run i'].
  cbn [fst] in F. apply Forall_app. split; [exact F|apply IH].
Qed.

Lemma build_lut_ok stops alpha : Forall px_ok (build_lut stops alpha).
Proof.
  unfold build_lut. cbv zeta. apply Forall_app. split; [apply lut_loop_ok|].
  constructor; [apply premultiply_t_ok|constructor].
Qed.

Definition source_ok (src : source) : Prop :=
  match src with
  | Solid c => px_ok c
  | Image im _ _ _ => image_ok im
  | _ => True   (* gradient stops are unpremultiplied colours: no condition *)
  end.

Lemma to_u32_nonneg x : 0 <= to_u32 x.
Proof. unfold to_u32, clampz. destruct (ftrunc x); lia. Qed.

Lemma draw_alpha_range alpha : 0 <= Z.min (unit_to_u32 alpha) 255 <= 255.
Proof. unfold unit_to_u32. pose proof (to_u32_nonneg (fadd (fmul alpha f255) fhalf)). lia. Qed.

Theorem choose_shader_ok ti src alpha : source_ok src -> shader_ok (choose_shader ti src alpha).
Proof.
  intros H. unfold choose_shader. cbv zeta. pose proof (draw_alpha_range alpha) as Ha.
  set (a := Z.min (unit_to_u32 alpha) 255) in *. clearbody a.
  destruct src as [c|im e f t|stops s t|stops s t|stops s c1 r1 c2 r2 t|stops s a0 a1 t]; cbn [source_ok] in H.
  - cbn [shader_ok]. apply alpha_mul_ok; [exact H|unfold alpha_to_alpha256; lia].
  - destruct (is_integer_transform (xf_then ti t)) as [[ox oy]|]; cbn [shader_ok].
    + split; [exact H|unfold alpha_to_alpha256; lia].
    + split; [exact H|]. destruct (a =? 255); cbn [alpha_opt_ok]; [exact I|unfold alpha_to_alpha256; lia].
  - apply build_lut_ok.
  - apply build_lut_ok.
  - apply build_lut_ok.
  - cbv zeta. apply build_lut_ok.
Qed.
Print Assumptions choose_shader_ok.
Print Assumptions shade_ok.

(* ================================================================== *)
(** * C. The span blitters                                             *)
(* ================================================================== *)

Theorem blit_px_ok k s d m c v : px_ok s -> px_ok d -> byte m -> byte c ->
  blit_px k s d m c = Ok v -> px_ok v.
Proof.
  intros [Ws Ps] [Wd Pd] Hm Hc H. unfold px_ok.
  destruct k as [|cl|md|md cl|md]; cbn [blit_px] in H.
  - inversion H; subst v. apply (premul_srcover_mask_px s d m Ws Wd Ps Pd Hm).
  - inversion H; subst v. apply (premul_srcover_mask_clip_px s d m c Ws Wd Ps Pd Hm Hc).
  - destruct (blend_mask_px_ok_premul_all md s d m v Ws Wd Ps Pd Hm H); auto.
  - destruct (blend_mask_clip_px_ok_premul_all md s d m c v Ws Wd Ps Pd Hm Hc H); auto.
  - destruct (blend_px_ok_premul_all md s d v Ws Wd Ps Pd H); auto.
Qed.

(* with a mode among the 24 the pixel function cannot fail *)
Theorem blit_px_total k s d m c : px_ok s -> px_ok d -> byte m -> byte c ->
  match k with BBlendMask md | BClipBlendMask md _ | BBlend md => In md separable_modes | _ => True end ->
  exists v, blit_px k s d m c = Ok v /\ px_ok v.
Proof.
  intros [Ws Ps] [Wd Pd] Hm Hc Hk. unfold px_ok.
  destruct k as [|cl|md|md cl|md]; cbn [blit_px].
  - eexists; split; [reflexivity|]. apply (premul_srcover_mask_px s d m Ws Wd Ps Pd Hm).
  - eexists; split; [reflexivity|]. apply (premul_srcover_mask_clip_px s d m c Ws Wd Ps Pd Hm Hc).
  - apply premul_blend_mask_px; assumption.
  - apply premul_blend_mask_clip_px; assumption.
  - apply premul_blend_px; assumption.
Qed.

Lemma byte_0 : byte 0. Proof. unfold byte; lia. Qed.
Lemma hd_byte l : Forall byte l -> byte (match l with m :: _ => m | [] => 0 end).
Proof. intros H. destruct l; [apply byte_0|]. inversion H; assumption. Qed.
Lemma tl_Forall {A} (P : A -> Prop) l : Forall P l -> Forall P (tl l).
Proof. intros H. destruct l; [constructor|]. inversion H; assumption. Qed.

Lemma span_px_ok k sh y : shader_ok sh -> forall dsts x masks clips out,
  Forall px_ok dsts -> Forall byte masks -> Forall byte clips ->
  span_px 0 k sh y x dsts masks clips = Ok out -> Forall px_ok out.
Proof.
  intros Hsh. induction dsts as [|d t IH]; intros x masks clips out Hd Hm Hc H.
  - cbn in H. inversion H; constructor.
  - cbn [span_px] in H. replace (0 =? -1) with false in H by reflexivity.
    inversion Hd as [|? ? Hd1 Hd2]; subst.
    destruct (blit_px k (shade sh x y) d match masks with m :: _ => m | [] => 0 end
                      match clips with c :: _ => c | [] => 0 end) as [v|e] eqn:Ev; [|discriminate].
    cbn [bind] in H.
    destruct (span_px 0 k sh y (x + 1) t (tl masks) (tl clips)) as [rest|e] eqn:Er; [|discriminate].
    cbn [bind] in H. inversion H; subst out; clear H.
    constructor.
    + eapply blit_px_ok; [apply shade_ok; exact Hsh|exact Hd1|apply hd_byte; exact Hm|apply hd_byte; exact Hc|exact Ev].
    + eapply IH; [exact Hd2|apply tl_Forall; exact Hm|apply tl_Forall; exact Hc|exact Er].
Qed.

(* slices and splices of good rows *)
Lemma In_skipn' {A} (l : list A) n x : In x (skipn n l) -> In x l.
Proof. revert l; induction n as [|k IH]; intros l H; [exact H|]. destruct l; [exact H|]. right. apply IH. exact H. Qed.
Lemma In_firstn' {A} (l : list A) n x : In x (firstn n l) -> In x l.
Proof.
  revert l; induction n as [|k IH]; intros l H; [destruct H|]. destruct l; [destruct H|].
  destruct H as [->|H]; [left; reflexivity|right; apply IH; exact H].
Qed.

Lemma slice_Forall {A} (P : A -> Prop) l a b r : Forall P l -> slice l a b = Ok r -> Forall P r.
Proof.
  intros H. unfold slice. destruct ((0 <=? a) && (a <=? b) && (b <=? zlen l)); [|discriminate].
  intros E; inversion E; subst r. apply Forall_forall. intros x Hx.
  apply In_firstn' in Hx. apply In_skipn' in Hx. rewrite Forall_forall in H. auto.
Qed.

Lemma splice_Forall {A} (P : A -> Prop) l a new : Forall P l -> Forall P new -> Forall P (splice l a new).
Proof.
  intros Hl Hn. unfold splice. apply Forall_app. split.
  - apply Forall_forall. intros x Hx. apply In_firstn' in Hx. rewrite Forall_forall in Hl. auto.
  - apply Forall_app. split; [exact Hn|].
    apply Forall_forall. intros x Hx. apply In_skipn' in Hx. rewrite Forall_forall in Hl. auto.
Qed.

Definition kind_ok (k : blitter_kind) : Prop :=
  match k with BClipMask c | BClipBlendMask _ c => Forall byte c | _ => True end.

Lemma blit_span_ok k sh surf_w dest db y x1 x2 mask dest' :
  shader_ok sh -> kind_ok k -> Forall px_ok dest -> Forall byte mask ->
  blit_span 0 k sh surf_w dest db y x1 x2 mask = Ok dest' -> Forall px_ok dest'.
Proof.
  intros Hsh Hk Hd Hm H. unfold blit_span in H. cbv zeta in H.
  destruct (surf_w <? x2 - x1); [discriminate|].
  set (start := (y - y0 db) * r_w db + x1 - x0 db) in *.
  destruct (slice dest start (start + (x2 - x1))) as [drow|e] eqn:Ed; [|discriminate]. cbn [bind] in H.
  apply (slice_Forall _ _ _ _ _ Hd) in Ed.
  set (crow_r := match k with
                 | BClipMask c | BClipBlendMask _ c => slice c (y * surf_w + x1) (y * surf_w + x1 + (x2 - x1))
                 | _ => Ok [] end) in *.
  destruct crow_r as [crow|e] eqn:Ec; [|discriminate]. cbn [bind] in H.
  assert (Hc : Forall byte crow).
  { unfold crow_r in Ec. destruct k as [|c|md|md c|md]; cbn [kind_ok] in Hk;
      try (inversion Ec; apply Forall_nil); exact (slice_Forall _ _ _ _ _ Hk Ec). }
  set (mrow_r := match k with BBlend _ => Ok [] | _ => if zlen mask <? x2 - x1 then Err OutOfBounds else Ok mask end) in *.
  destruct mrow_r as [mrow|e] eqn:Em; [|discriminate]. cbn [bind] in H.
  assert (Hmr : Forall byte mrow).
  { unfold mrow_r in Em. destruct k; try (destruct (zlen mask <? x2 - x1); inversion Em; subst; assumption);
      inversion Em; apply Forall_nil. }
  replace (0 <? 0) with false in H by reflexivity.
  destruct (span_px 0 k sh y x1 drow mrow crow) as [new|e] eqn:Esp; [|discriminate]. cbn [bind] in H.
  inversion H; subst dest'. apply splice_Forall; [exact Hd|].
  exact (span_px_ok k sh y Hsh drow x1 mrow crow new Ed Hmr Hc Esp).
Qed.

Lemma composite_rows_ok k sh surf_w db mask mr r ys : forall dest dest',
  shader_ok sh -> kind_ok k -> Forall px_ok dest ->
  match mask with Some m => Forall byte m | None => True end ->
  composite_rows 0 k sh surf_w db mask mr r ys dest = Ok dest' -> Forall px_ok dest'.
Proof.
  induction ys as [|y t IH]; intros dest dest' Hsh Hk Hd Hm H.
  - cbn in H. inversion H; subst; exact Hd.
  - cbn [composite_rows] in H.
    set (mrow_r := match mask with
                   | Some m => slice m ((y - y0 mr) * r_w mr + x0 r - x0 mr) ((y - y0 mr) * r_w mr + x1 r - x0 mr)
                   | None => Ok [] end) in *.
    destruct mrow_r as [mrow|e] eqn:Em; [|discriminate]. cbn [bind] in H.
    assert (Hmr : Forall byte mrow).
    { unfold mrow_r in Em. destruct mask as [m|]; [exact (slice_Forall _ _ _ _ _ Hm Em)|inversion Em; apply Forall_nil]. }
    destruct (blit_span 0 k sh surf_w dest db y (x0 r) (x1 r) mrow) as [d1|e] eqn:Eb; [|discriminate]. cbn [bind] in H.
    apply (IH d1 dest' Hsh Hk); [|exact Hm|exact H].
    exact (blit_span_ok k sh surf_w dest db y (x0 r) (x1 r) mrow d1 Hsh Hk Hd Hmr Eb).
Qed.

(* ================================================================== *)
(** * D. DrawTarget::composite and the state invariant                 *)
(* ================================================================== *)

Definition clip_ok (c : clip) : Prop := match c_mask c with Some m => Forall byte m | None => True end.
Definition layer_ok (l : layer) : Prop := Forall px_ok (l_buf l).

(* every pixel of the surface and of every layer is a premultiplied 32-bit word; clip masks are bytes;
   the model-only instrumentation is off *)
Definition all_premul (st : dt) : Prop :=
  d_probe st = 0 /\ Forall px_ok (d_buf st) /\ Forall layer_ok (d_layers st) /\ Forall clip_ok (d_clips st).

Lemma dest_ok st : all_premul st -> Forall px_ok (fst (dest_of st)).
Proof.
  intros (_ & Hb & Hl & _). unfold dest_of. destruct (d_layers st) as [|l t]; cbn [fst]; [exact Hb|].
  inversion Hl; assumption.
Qed.

Lemma set_dest_ok st b : all_premul st -> Forall px_ok b -> all_premul (set_dest st b).
Proof.
  intros (Hp & Hb & Hl & Hc) H. unfold set_dest, all_premul.
  destruct (d_layers st) as [|l t] eqn:El; cbn; rewrite ?El; repeat split; try assumption.
  inversion Hl; subst. constructor; assumption.
Qed.

Lemma top_clip_ok st : all_premul st -> match top_clip_mask st with Some c => Forall byte c | None => True end.
Proof.
  intros (_ & _ & _ & Hc). unfold top_clip_mask. destruct (d_clips st) as [|c t]; [exact I|].
  inversion Hc; subst. assumption.
Qed.

Lemma choose_blitter_ok hm cm blend : match cm with Some c => Forall byte c | None => True end ->
  kind_ok (choose_blitter hm cm blend).
Proof. intros H. unfold choose_blitter. destruct hm, cm; try destruct (mode_eqb blend SrcOver); cbn [kind_ok]; auto. Qed.

Definition mask_ok (mask : option (list Z)) : Prop := match mask with Some m => Forall byte m | None => True end.

Theorem composite_premul st src mask mr rect0 blend alpha st' :
  all_premul st -> source_ok src -> mask_ok mask ->
  composite st src mask mr rect0 blend alpha = Ok st' -> all_premul st'.
Proof.
  intros Hst Hsrc Hm H. unfold composite in H.
  destruct (xf_inverse (d_ctm st)) as [ti|]; [|inversion H; subst; exact Hst].
  pose proof (dest_ok st Hst) as Hd.
  destruct (dest_of st) as [dest db] eqn:Ed. cbn [fst] in Hd.
  destruct (r_empty _); [inversion H; subst; exact Hst|].
  destruct Hst as (Hp & Hrest). rewrite Hp in H.
  destruct (composite_rows 0 _ _ _ _ _ _ _ _ _) as [dest'|e] eqn:Er; [|discriminate].
  cbn [bind] in H. inversion H; subst st'.
  apply set_dest_ok; [split; assumption|].
  eapply composite_rows_ok; [| | | |exact Er].
  - apply choose_shader_ok. exact Hsrc.
  - apply choose_blitter_ok. apply top_clip_ok. split; assumption.
  - exact Hd.
  - exact Hm.
Qed.
Print Assumptions composite_premul.

(* ================================================================== *)
(** * E. The rasteriser's coverage masks are bytes                     *)
(* ================================================================== *)

Lemma wrapu8_byte v : byte (wrapu8 v).
Proof. unfold wrapu8, byte. rewrite PixelProofs.land_255. lia. Qed.

Lemma saturated_add_byte a b : byte (saturated_add a b).
Proof. unfold saturated_add. cbv zeta. apply wrapu8_byte. Qed.

Lemma add_all_byte l v l' : 0 <= v -> Forall byte l -> add_all l v = Ok l' -> Forall byte l'.
Proof.
  intros Hv. revert l'. induction l as [|x t IH]; intros l' Hl H; cbn [add_all] in H.
  - inversion H; constructor.
  - destruct (255 <? x + v) eqn:E; [discriminate|].
    destruct (add_all t v) as [t'|e]; [|discriminate]. cbn [bind] in H. inversion H; subst l'.
    inversion Hl; subst. constructor; [unfold byte in *; lia|]. apply IH; auto.
Qed.

Lemma firstn_Forall {A} (P : A -> Prop) n l : Forall P l -> Forall P (firstn n l).
Proof. intros H. apply Forall_forall. intros x Hx. apply In_firstn' in Hx. rewrite Forall_forall in H. auto. Qed.
Lemma skipn_Forall {A} (P : A -> Prop) n l : Forall P l -> Forall P (skipn n l).
Proof. intros H. apply Forall_forall. intros x Hx. apply In_skipn' in Hx. rewrite Forall_forall in H. auto. Qed.

Lemma blit_super_byte m y x1 x2 m' : Forall byte (m_buf m) -> blit_super m y x1 x2 = Ok m' -> Forall byte (m_buf m').
Proof.
  intros Hm H. unfold blit_super in H. cbv zeta in H.
  destruct (_ || _ || _); [discriminate|].
  destruct (slice (m_buf m) _ _) as [b|e] eqn:Eb; [|discriminate]. cbn [bind] in H.
  pose proof (slice_Forall _ _ _ _ _ Hm Eb) as Hb.
  match type of H with (do b' <- ?X; _) = _ => destruct X as [b'|e] eqn:Eb' end; [|discriminate].
  cbn [bind] in H. inversion H; subst m'. cbn [m_buf].
  apply splice_Forall; [exact Hm|].
  destruct (zlen b =? 0); [inversion Eb'; subst; exact Hb|].
  destruct (zlen b =? 1).
  - destruct b as [|x rest]; inversion Eb'; subst; [constructor|].
    constructor; [apply saturated_add_byte|constructor].
  - destruct b as [|x rest]; [inversion Eb'; subst; constructor|].
    destruct (add_all _ _) as [mid'|e] eqn:Ea; [|discriminate]. cbn [bind] in Eb'. inversion Eb'; subst b'.
    inversion Hb; subst.
    constructor; [apply saturated_add_byte|]. apply Forall_app. split.
    + eapply add_all_byte; [|apply firstn_Forall; eassumption|exact Ea].
      (* max = 64 - ((y land 3) + 1) >> 2 is 63 or 64 *)
      rewrite Z.shiftr_div_pow2 by lia. change (2^2) with 4.
      assert (E : forall v, Z.land v 3 = v mod 4) by (intros v; apply (Z.land_ones v 2); lia).
      rewrite E. lia.
    + constructor; [apply saturated_add_byte|constructor].
Qed.

Lemma set_Forall {A} (P : A -> Prop) l i v l' : Forall P l -> P v -> set l i v = Ok l' -> Forall P l'.
Proof.
  intros Hl Hv H. unfold set in H. destruct (_ && _); [|discriminate]. inversion H; subst.
  apply splice_Forall; [exact Hl|]. constructor; [exact Hv|constructor].
Qed.

Lemma set_ff_byte is_ : forall buf buf', Forall byte buf -> set_ff buf is_ = Ok buf' -> Forall byte buf'.
Proof.
  induction is_ as [|i t IH]; intros buf buf' Hb H; cbn [set_ff] in H.
  - inversion H; subst; exact Hb.
  - destruct (set buf i 255) as [b1|e] eqn:E; [|discriminate]. cbn [bind] in H.
    apply (IH b1); [|exact H]. eapply set_Forall; [exact Hb| |exact E]. unfold byte; lia.
Qed.

Lemma blit_mask_byte m y x1 x2 m' : Forall byte (m_buf m) -> blit_mask m y x1 x2 = Ok m' -> Forall byte (m_buf m').
Proof.
  intros Hm H. unfold blit_mask in H. cbv zeta in H.
  destruct (negb _); [inversion H; subst; exact Hm|].
  destruct (set_ff _ _) as [buf|e] eqn:E; [|discriminate]. cbn [bind] in H. inversion H; subst m'. cbn [m_buf].
  eapply set_ff_byte; eassumption.
Qed.

Section RasterBytes.
  Variable blit : maskbuf -> Z -> Z -> Z -> result maskbuf.
  Variable rule : winding_rule.
  Hypothesis blit_byte : forall m y a b m', Forall byte (m_buf m) -> blit m y a b = Ok m' -> Forall byte (m_buf m').

  Lemma blit_spans_byte y spans : forall m m', Forall byte (m_buf m) -> blit_spans blit m y spans = Ok m' -> Forall byte (m_buf m').
  Proof.
    induction spans as [|[a b] t IH]; intros m m' Hm H; cbn [blit_spans] in H.
    - inversion H; subst; exact Hm.
    - destruct (blit m y a b) as [m1|e] eqn:E; [|discriminate]. cbn [bind] in H.
      apply (IH m1); [|exact H]. eapply blit_byte; eassumption.
  Qed.

  Lemma rows_byte n : forall w4 starts y active m active' m',
    Forall byte (m_buf m) -> rows blit rule n w4 starts y active m = Ok (active', m') -> Forall byte (m_buf m').
  Proof.
    induction n as [|k IH]; intros w4 starts y active m active' m' Hm H; cbn [rows] in H.
    - inversion H; subst; exact Hm.
    - cbv zeta in H.
      destruct (blit_spans blit m y _) as [m1|e] eqn:E; [|discriminate]. cbn [bind] in H.
      destruct (existsb e_err _); [discriminate|].
      eapply IH; [|exact H]. eapply blit_spans_byte; eassumption.
  Qed.

  Lemma rasterize_byte r m r' m' : Forall byte (m_buf m) -> rasterize blit rule r m = Ok (r', m') -> Forall byte (m_buf m').
  Proof.
    intros Hm H. unfold rasterize in H. cbv zeta in H.
    destruct (existsb _ _); [discriminate|].
    destruct (rows blit rule _ _ _ _ _ m) as [[active m1]|e] eqn:E; [|discriminate]. cbn [bind] in H.
    inversion H; subst. eapply rows_byte; eassumption.
  Qed.
End RasterBytes.

Lemma repeat_Forall {A} (P : A -> Prop) v n : P v -> Forall P (repeat v n).
Proof. intros H. induction n; cbn; constructor; auto. Qed.

Lemma maskbuf_new_byte x y w h : Forall byte (m_buf (maskbuf_new x y w h)).
Proof. unfold maskbuf_new. cbn [m_buf]. apply repeat_Forall. apply byte_0. Qed.

Lemma rasterize_any_byte (aa : bool) rule r x y w h r' m' :
  rasterize (if aa then blit_super else blit_mask) rule r (maskbuf_new x y w h) = Ok (r', m') -> Forall byte (m_buf m').
Proof.
  intros H. eapply rasterize_byte; [|apply maskbuf_new_byte|exact H].
  destruct aa; [apply blit_super_byte|apply blit_mask_byte].
Qed.

(* ================================================================== *)
(** * F. Every operation of the DrawTarget preserves the invariant     *)
(* ================================================================== *)

Lemma all_premul_vis a b : vis_eq a b -> all_premul a -> all_premul b.
Proof.
  intros (A & B & C & D & E & F & G) (Hp & Hb & Hl & Hc). unfold all_premul.
  rewrite G, C, E, D. repeat split; assumption.
Qed.

Lemma all_premul_with_ctm st t : all_premul st -> all_premul (with_ctm st t).
Proof. unfold all_premul. cbn. tauto. Qed.
Lemma all_premul_with_cur st c : all_premul st -> all_premul (with_cur st c).
Proof. unfold all_premul. cbn. tauto. Qed.
Lemma all_premul_reset st : all_premul st -> all_premul (reset_raster st).
Proof. unfold all_premul, reset_raster. cbn. tauto. Qed.

Theorem fill_premul st p src o st' : all_premul st -> source_ok src -> fill st p src o = Ok st' -> all_premul st'.
Proof.
  intros Hst Hsrc H. unfold fill in H.
  set (c := apply_path (d_h st) (d_ctm st) (d_cur st) p) in *.
  set (b := get_bounds (rz c)) in *. cbv zeta in H.
  destruct ((0 <? r_w b) && (0 <? r_h b)).
  - destruct (rasterize (if o_aa o then blit_super else blit_mask) (p_winding p) (rz c) (maskbuf_new (x0 b) (y0 b) (r_w b) (r_h b)))
      as [[rz' m]|e] eqn:Er; [|discriminate]. cbn [bind] in H.
    set (st1 := with_cur (with_cur st c) (mk_cursor (cur c) (first c) rz')) in *.
    destruct (composite st1 src (Some (m_buf m)) b b (o_blend o) (o_alpha o)) as [st2|e] eqn:Ec; [|discriminate].
    cbn [bind] in H. inversion H; subst st'; clear H.
    apply all_premul_reset.
    eapply composite_premul; [| exact Hsrc | |exact Ec].
    + unfold st1. apply all_premul_with_cur. apply all_premul_with_cur. exact Hst.
    + cbn [mask_ok]. eapply rasterize_any_byte. exact Er.
  - cbn [bind] in H. inversion H; subst st'. apply all_premul_reset. apply all_premul_with_cur. exact Hst.
Qed.

Theorem fill_rect_premul st x y w h src o st' : all_premul st -> source_ok src ->
  fill_rect st x y w h src o = Ok st' -> all_premul st'.
Proof.
  intros Hst Hsrc H. unfold fill_rect in H. cbv zeta in H.
  destruct (xf_is_identity (d_ctm st) && _ && _).
  - destruct (r_empty _); [inversion H; subst; exact Hst|].
    exact (composite_premul _ _ None _ _ _ _ _ Hst Hsrc I H).
  - eapply fill_premul; eassumption.
Qed.

Lemma map_const_Forall {A B} (P : B -> Prop) (v : B) (l : list A) : P v -> Forall P (map (fun _ => v) l).
Proof. intros H. induction l; cbn; constructor; auto. Qed.

Theorem clear_premul st c st' : all_premul st -> px_ok c -> clear st c = Ok st' -> all_premul st'.
Proof.
  intros Hst Hc H. unfold clear in H. destruct (d_clips st) eqn:Ecl.
  - destruct (dest_of st) as [dest db] eqn:Ed. inversion H; subst st'.
    apply set_dest_ok; [exact Hst|]. destruct Hst as (Hp & _). rewrite Hp.
    replace (0 =? -1) with false by reflexivity. apply map_const_Forall. exact Hc.
  - destruct (fill _ _ _ _) as [stF|] eqn:Ef; [|discriminate]. cbn [bind] in H. inversion H; subst st'.
    apply all_premul_with_ctm. eapply fill_premul; [| |exact Ef].
    + apply all_premul_with_ctm. exact Hst.
    + exact Hc.
Qed.

Theorem mask_op_premul st src x y mw mh data st' : all_premul st -> source_ok src -> Forall byte data ->
  mask_op st src x y mw mh data = Ok st' -> all_premul st'.
Proof.
  intros Hst Hsrc Hd H. unfold mask_op in H. cbv zeta in H.
  exact (composite_premul _ _ (Some data) _ _ _ _ _ Hst Hsrc Hd H).
Qed.

Theorem draw_image_with_size_at_premul st w h x y im o st' : all_premul st -> image_ok im ->
  draw_image_with_size_at st w h x y im o = Ok st' -> all_premul st'.
Proof. intros Hst Him H. unfold draw_image_with_size_at in H. eapply fill_rect_premul; [exact Hst| |exact H]. exact Him. Qed.

Theorem draw_image_at_premul st x y im o st' : all_premul st -> image_ok im ->
  draw_image_at st x y im o = Ok st' -> all_premul st'.
Proof. intros Hst Him H. unfold draw_image_at in H. eapply draw_image_with_size_at_premul; eassumption. Qed.

(* clip stack *)
Lemma push_clip_rect_premul st r : all_premul st -> all_premul (push_clip_rect st r).
Proof.
  intros (Hp & Hb & Hl & Hc). unfold push_clip_rect, all_premul. cbn. repeat split; try assumption.
  constructor; [|exact Hc]. destruct (d_clips st) as [|c t]; unfold clip_ok; cbn; [exact I|].
  inversion Hc; subst. assumption.
Qed.

Lemma pop_clip_premul st : all_premul st -> all_premul (pop_clip st).
Proof.
  intros (Hp & Hb & Hl & Hc). unfold pop_clip, all_premul. cbn. repeat split; try assumption.
  apply tl_Forall. exact Hc.
Qed.

Lemma map2_Forall {A B C} (P : C -> Prop) (f : A -> B -> C) l1 l2 : (forall a b, P (f a b)) -> Forall P (map2 f l1 l2).
Proof. intros H. revert l2; induction l1 as [|a t IH]; intros [|b t2]; cbn; constructor; auto. Qed.

Theorem push_clip_premul st p st' : all_premul st -> push_clip st p = Ok st' -> all_premul st'.
Proof.
  intros Hst H. unfold push_clip in H. cbv zeta in H.
  destruct (rasterize blit_super _ _ _) as [[rz' m]|e] eqn:Er; [|discriminate]. cbn [bind] in H.
  inversion H; subst st'; clear H.
  assert (Hm : Forall byte (m_buf m)) by (apply (rasterize_any_byte true _ _ _ _ _ _ _ _ Er)).
  destruct Hst as (Hp & Hb & Hl & Hc).
  unfold all_premul, reset_raster. cbn. repeat split; try assumption.
  constructor; [|exact Hc]. unfold clip_ok. cbn [c_mask].
  destruct (top_clip_mask st) as [last|]; [|exact Hm].
  apply Forall_app. split; [|apply skipn_Forall; exact Hm].
  apply map2_Forall. intros a b. apply wrapu8_byte.
Qed.

(* layers *)
Lemma push_layer_premul st opacity blend : all_premul st -> all_premul (push_layer st opacity blend).
Proof.
  intros (Hp & Hb & Hl & Hc). unfold push_layer, all_premul. cbn. repeat split; try assumption.
  constructor; [|exact Hl]. unfold layer_ok. cbn [l_buf]. apply repeat_Forall. apply px_ok_0.
Qed.

Lemma to_u8_byte x : byte (to_u8 x).
Proof. unfold to_u8, clampz, byte. destruct (ftrunc x); lia. Qed.

Theorem pop_layer_premul st st' : all_premul st -> pop_layer st = Ok st' -> all_premul st'.
Proof.
  intros Hst H. unfold pop_layer in H. destruct (d_layers st) as [|l rest] eqn:El; [discriminate|]. cbv zeta in H.
  destruct (composite _ _ _ _ _ _ _) as [st2|] eqn:Ec; [|discriminate]. cbn [bind] in H. inversion H; subst st'.
  apply all_premul_with_ctm. destruct Hst as (Hp & Hb & Hl & Hc). rewrite El in Hl. inversion Hl; subst.
  eapply composite_premul; [| | |exact Ec].
  - unfold all_premul. cbn. repeat split; assumption.
  - cbn [source_ok]. unfold image_ok. cbn [i_data]. assumption.
  - cbn [mask_ok]. apply repeat_Forall. unfold unit_to_u8. apply to_u8_byte.
Qed.

(* composite_surface *)
Definition cs_kind_ok (k : cs_kind) : Prop := match k with CsAlpha a => byte a | _ => True end.

Lemma cs_fn_ok k s d v : cs_kind_ok k -> px_ok s -> px_ok d -> cs_fn k s d = Ok v -> px_ok v.
Proof.
  intros Hk [Ws Ps] [Wd Pd] H. destruct k as [|m|a]; cbn [cs_fn] in H.
  - inversion H; subst. split; assumption.
  - destruct (blend_ok_premul_all m s d v Ws Wd Ps Pd H). split; assumption.
  - inversion H; subst. apply premul_over_in; assumption.
Qed.

Lemma map2r_ok (g : Z -> Z -> result Z) : (forall s d v, px_ok s -> px_ok d -> g s d = Ok v -> px_ok v) ->
  forall srcs dsts out, Forall px_ok srcs -> Forall px_ok dsts -> map2r g srcs dsts = Ok out -> Forall px_ok out.
Proof.
  intros Hg. induction srcs as [|s st IH]; intros [|d dt] out Hs Hd H; cbn in H;
    try (inversion H; subst; apply Forall_nil).
  destruct (g s d) as [v|e] eqn:E; cbn [bind] in H; [|discriminate].
  destruct (map2r g st dt) as [t|e] eqn:E2; cbn [bind] in H; [|discriminate].
  inversion H; subst out. inversion Hs; subst. inversion Hd; subst.
  constructor; [refine (Hg s d v _ _ E); assumption|]. refine (IH dt t _ _ E2); assumption.
Qed.

Section SurfaceOk.
  Variable g : Z -> Z -> result Z.
  Hypothesis g_ok : forall s d v, px_ok s -> px_ok d -> g s d = Ok v -> px_ok v.

  Lemma cs_row_ok dw sw sbuf ox oy xa w buf y buf' : Forall px_ok sbuf -> Forall px_ok buf ->
    cs_row g dw sw sbuf ox oy xa w buf y = Ok buf' -> Forall px_ok buf'.
  Proof.
    intros Hs Hb H. unfold cs_row in H. cbv zeta in H.
    destruct (slice sbuf _ _) as [srow|] eqn:E1; [|discriminate]. cbn [bind] in H.
    destruct (slice buf _ _) as [drow|] eqn:E2; [|discriminate]. cbn [bind] in H.
    destruct (map2r g srow drow) as [row|] eqn:E3; [|discriminate]. cbn [bind] in H.
    inversion H; subst buf'. apply splice_Forall; [exact Hb|].
    eapply (map2r_ok g g_ok); [| |exact E3].
    - exact (slice_Forall _ _ _ _ _ Hs E1).
    - exact (slice_Forall _ _ _ _ _ Hb E2).
  Qed.

  Lemma cs_rows_ok dw sw sbuf ox oy xa w ys : forall buf buf', Forall px_ok sbuf -> Forall px_ok buf ->
    cs_rows g dw sw sbuf ox oy xa w ys buf = Ok buf' -> Forall px_ok buf'.
  Proof.
    induction ys as [|y t IH]; intros buf buf' Hs Hb H; cbn [cs_rows] in H.
    - inversion H; subst; exact Hb.
    - destruct (cs_row g dw sw sbuf ox oy xa w buf y) as [b1|] eqn:E; [|discriminate]. cbn [bind] in H.
      apply (IH b1 buf' Hs); [|exact H]. exact (cs_row_ok _ _ _ _ _ _ _ _ _ _ Hs Hb E).
  Qed.

  Lemma composite_surface_ok dw dh dbuf sw sh sbuf sr dx dy out : Forall px_ok sbuf -> Forall px_ok dbuf ->
    composite_surface g dw dh dbuf sw sh sbuf sr dx dy = Ok out -> Forall px_ok out.
  Proof.
    intros Hs Hb H. unfold composite_surface in H. cbv zeta in H.
    destruct (_ || _); [inversion H; subst; exact Hb|].
    exact (cs_rows_ok _ _ _ _ _ _ _ _ _ _ Hs Hb H).
  Qed.
End SurfaceOk.

Theorem surface_op_premul k dw dh dbuf sw sh sbuf sr dx dy out : cs_kind_ok k ->
  Forall px_ok sbuf -> Forall px_ok dbuf -> surface_op k dw dh dbuf sw sh sbuf sr dx dy = Ok out -> Forall px_ok out.
Proof.
  intros Hk Hs Hb H. unfold surface_op in H.
  eapply (composite_surface_ok (cs_fn k)); [|exact Hs|exact Hb|exact H].
  intros s d v. apply cs_fn_ok. exact Hk.
Qed.

(* ---- all operations ---- *)
Definition op_ok (o : op) : Prop :=
  match o with
  | OpFill _ s _ | OpStroke _ s _ | OpFillRect _ _ _ _ s _ | OpFillPre _ s _ => source_ok s
  | OpClear c => px_ok c
  | OpMask s _ _ _ _ data => source_ok s /\ Forall byte data
  | OpDrawImageAt _ _ im _ | OpDrawImageSize _ _ _ _ im _ => image_ok im
  | OpSurface k _ _ sbuf _ _ _ => cs_kind_ok k /\ Forall px_ok sbuf
  | _ => True
  end.

Theorem step_op_premul st o st' : all_premul st -> op_ok o -> step_op st o = Ok st' -> all_premul st'.
Proof.
  intros Hst Ho H. destruct o; cbn [step_op op_ok] in *.
  - inversion H; subst. apply all_premul_with_ctm. exact Hst.
  - inversion H; subst. apply push_clip_rect_premul. exact Hst.
  - eapply push_clip_premul; eassumption.
  - inversion H; subst. apply pop_clip_premul. exact Hst.
  - inversion H; subst. apply push_layer_premul. exact Hst.
  - eapply pop_layer_premul; eassumption.
  - eapply fill_premul; eassumption.
  - eapply fill_premul; eassumption.
  - eapply fill_rect_premul; eassumption.
  - eapply clear_premul; eassumption.
  - destruct Ho. eapply mask_op_premul; eassumption.
  - eapply draw_image_at_premul; eassumption.
  - eapply draw_image_with_size_at_premul; eassumption.
  - cbv zeta in H. destruct (fill _ _ _ _) as [stF|] eqn:Ef; [|discriminate]. cbn [bind] in H. inversion H; subst st'.
    apply all_premul_with_ctm. eapply fill_premul; [| |exact Ef]; [apply all_premul_with_ctm; exact Hst|exact Ho].
  - destruct Ho as [Hk Hs]. destruct (surface_op _ _ _ _ _ _ _ _ _ _) as [b|] eqn:E; [|discriminate]. cbn [bind] in H.
    inversion H; subst st'. destruct Hst as (Hp & Hb & Hl & Hc).
    unfold all_premul. cbn. repeat split; try assumption.
    exact (surface_op_premul _ _ _ _ _ _ _ _ _ _ _ Hk Hs Hb E).
Qed.
Print Assumptions step_op_premul.

Theorem run_ops_premul ops : forall st st', all_premul st -> Forall op_ok ops -> run_ops st ops = Ok st' -> all_premul st'.
Proof.
  induction ops as [|o t IH]; intros st st' Hst Ho H; cbn [run_ops] in H.
  - inversion H; subst; exact Hst.
  - destruct (step_op st o) as [s1|] eqn:E; [|discriminate]. cbn [bind] in H. inversion Ho; subst.
    apply (IH s1 st'); [|assumption|exact H]. eapply step_op_premul; eassumption.
Qed.

Lemma dt_new_premul w h buf : Forall px_ok buf -> all_premul (dt_new w h buf).
Proof. intros H. unfold all_premul, dt_new. cbn. repeat split; [exact H|constructor|constructor]. Qed.

(* C18: starting from a premultiplied surface, after any sequence of operations with premultiplied sources that
   returns, every pixel of the surface (and of every open layer) is a premultiplied 32-bit word *)
Theorem C18_premultiplied_preserved w h buf ops st' :
  Forall px_ok buf -> Forall op_ok ops -> run_ops (dt_new w h buf) ops = Ok st' ->
  Forall px_ok (d_buf st') /\ Forall layer_ok (d_layers st').
Proof.
  intros Hb Ho H. destruct (run_ops_premul ops _ _ (dt_new_premul w h buf Hb) Ho H) as (_ & A & B & _). auto.
Qed.
Print Assumptions C18_premultiplied_preserved.

(* ================================================================== *)
(** * G. SolidSource::from_unpremultiplied_argb                        *)
(* ================================================================== *)

Lemma to_u32_pack a r g b : byte a -> byte r -> byte g -> byte b -> PixelFormat.to_u32 a r g b = pack a r g b.
Proof.
  intros Ha Hr Hg Hb. rewrite pack_eq by assumption. unfold PixelFormat.to_u32, byte in *.
  rewrite shiftl8, shiftl16, shiftl24.
  assert (E1 : Z.lor (a * 16777216) (r * 65536) = a * 16777216 + r * 65536).
  { replace (a * 16777216) with ((a * 256) * 2^16) by lia. replace (r * 65536) with (r * 2^16) by lia.
    rewrite (lor_split 16) by lia. rewrite !Z.mod_mul, !Z.div_mul by lia. rewrite Z.lor_0_l.
    change 256 with (2^8). rewrite (lor_hi_lo 8) by lia. lia. }
  rewrite E1.
  assert (E2 : Z.lor (a * 16777216 + r * 65536) (g * 256) = a * 16777216 + r * 65536 + g * 256).
  { replace (a * 16777216 + r * 65536) with ((a * 65536 + r * 256) * 2^8) by lia. replace (g * 256) with (g * 2^8) by lia.
    rewrite (lor_split 8) by lia. rewrite !Z.mod_mul, !Z.div_mul by lia. rewrite Z.lor_0_l.
    replace (a * 65536 + r * 256) with ((a * 256 + r) * 2^8) by lia. rewrite (lor_hi_lo 8) by lia. lia. }
  rewrite E2.
  replace (a * 16777216 + r * 65536 + g * 256) with ((a * 65536 + r * 256 + g) * 2^8) by lia.
  rewrite (lor_hi_lo 8) by lia. lia.
Qed.

(* the colour a SolidSource built from unpremultiplied components holds is a premultiplied pixel *)
Theorem from_unpremultiplied_argb_premul a r g b : byte a -> byte r -> byte g -> byte b ->
  let '(a', r', g', b') := PixelFormat.from_unpremultiplied_argb a r g b in
  byte a' /\ byte r' /\ byte g' /\ byte b' /\ r' <= a' /\ g' <= a' /\ b' <= a' /\
  px_ok (PixelFormat.to_u32 a' r' g' b') /\ source_ok (Solid (PixelFormat.to_u32 a' r' g' b')).
Proof.
  intros Ha Hr Hg Hb. unfold PixelFormat.from_unpremultiplied_argb.
  pose proof (muldiv255_byte a r Ha Hr) as B1. pose proof (muldiv255_byte a g Ha Hg) as B2.
  pose proof (muldiv255_byte a b Ha Hb) as B3.
  pose proof (muldiv255_le_l a r Ha Hr) as L1. pose proof (muldiv255_le_l a g Ha Hg) as L2.
  pose proof (muldiv255_le_l a b Ha Hb) as L3.
  assert (W : forall v, byte v -> wrapu8 v = v).
  { intros v Hv. unfold wrapu8. rewrite PixelProofs.land_255. unfold byte in Hv. lia. }
  rewrite !W by assumption.
  assert (P : px_ok (PixelFormat.to_u32 a (muldiv255 a r) (muldiv255 a g) (muldiv255 a b))).
  { rewrite to_u32_pack by assumption. split; [apply wf_pack|apply premul_pack]; assumption. }
  split; [exact Ha|]. split; [exact B1|]. split; [exact B2|]. split; [exact B3|].
  split; [exact L1|]. split; [exact L2|]. split; [exact L3|]. split; exact P.
Qed.
Print Assumptions from_unpremultiplied_argb_premul.
