(* C01 - Polygon fill coverage equals the exact 4x4 supersampling model.
   Proved on the model of Rasterizer::{add_edge, rasterize} and the two mask blitters (RasterProofs.v) for every
   rasteriser that received straight edges, every surface size, every position relative to the surface, both winding
   rules (theorems 1-6; _partial because they speak about the coverage mask), and end to end from DrawTarget::fill of a
   polygon with an opaque white source over a transparent surface down to the alpha of every pixel (theorems 7-9,
   FillProofs.v), with the f32 conversion of quarter-grid vertices exact (theorem 10, GridProofs.v).  Theorems 11-14
   (ExactCrossing.v) restate the coverage on the exact rational crossings; their gap hypothesis (no crossing within the
   fixed-point error of a cell boundary) is necessary and is what the rational oracle of the C01 check leaves open too. *)
Require Import RQ.Base RQ.Rect RQ.Raster RQ.RasterProofs.

(* (1) antialiased: every byte of the coverage mask is min(255,16K) or 16K-1, K = number of quarter cells of the pixel
   (4 sample rows x 4 cells) that are covered; "covered" (cov) is the winding rule applied to the edges live on that
   sample row, each at its closed-form crossing rounded to the nearest quarter pixel.  Never an error. *)
Theorem C01_coverage_antialiased_partial : forall (rule : winding_rule) (W H : Z) (gs : list seg),
  0 <= H ->
  let r := add_segs (rast_new W H) gs in
  let b := get_bounds r in
  0 <= r_w b -> 0 <= r_h b ->
  exists r' buf',
    rasterize blit_super rule r (maskbuf_new (x0 b) (y0 b) (r_w b) (r_h b))
      = Ok (r', mk_maskbuf (x0 b * 4) (y0 b * 4) (r_w b) buf') /\
    length buf' = Z.to_nat (r_w b * r_h b + 1) /\ bytes_ok buf' /\
    forall q p, 0 <= q < r_h b -> 0 <= p < r_w b ->
      let K := Kpix rule (y0 b * 4) (r_starts r) (x0 b * 4) (y0 b * 4) q p in
      0 <= K <= 16 /\
      (zn buf' (q * r_w b + p) = Z.min 255 (16 * K) \/ zn buf' (q * r_w b + p) = 16 * K - 1).
Proof. exact rasterize_lines_coverage. Qed.
Print Assumptions C01_coverage_antialiased_partial.

(* (2) aliased: only the first sample row counts; a pixel is 255 exactly when quarter cell 4p+3 of that row is covered
   (which is floor(x_start) <= p < floor(x_end) for the span containing it), every other pixel stays 0 *)
Theorem C01_coverage_aliased_partial : forall (rule : winding_rule) (W H : Z) (gs : list seg),
  0 <= H ->
  let r := add_segs (rast_new W H) gs in
  let b := get_bounds r in
  0 <= r_w b -> 0 <= r_h b ->
  exists r' buf',
    rasterize blit_mask rule r (maskbuf_new (x0 b) (y0 b) (r_w b) (r_h b))
      = Ok (r', mk_maskbuf (x0 b * 4) (y0 b * 4) (r_w b) buf') /\
    length buf' = Z.to_nat (r_w b * r_h b + 1) /\
    forall q p, 0 <= q < r_h b -> 0 <= p < r_w b ->
      zn buf' (q * r_w b + p) =
        if cov rule (live (y0 b * 4) (r_starts r) (y0 b * 4 + 4 * q)) (4 * p + 3 + x0 b * 4) then 255 else 0.
Proof. exact rasterize_lines_coverage_aliased. Qed.
Print Assumptions C01_coverage_aliased_partial.

(* (3) what "covered" means: the spans of a sample row are exactly the cells where the winding rule holds for the sum
   of the windings of the edges whose rounded crossing is at or left of the cell *)
Theorem C01_spans_are_winding_rule : forall rule w4 l c, sorted l -> 0 <= c < w4 ->
  ((exists s, In s (scan_edges rule w4 l) /\ fst s <= c < snd s) <->
   inside rule (wsum l c) = true /\ (exists e, In e l /\ c < rnd (e_fullx e))).
Proof. exact scan_edges_spec. Qed.
Print Assumptions C01_spans_are_winding_rule.

(* (4) every live edge sits at its closed-form position F y = x1*2^14 + (y-y1) * quot((x2-x1)*2^14, y2-y1) ... *)
Theorem C01_live_edges_closed_form : forall r y0 y e, lines_inv r -> In e (live y0 (r_starts r) y) ->
  exists x1 y1 x2 y2 wd,
    y1 < y2 /\ Z.max y1 0 <= y < y2 /\ e_wind e = wd /\
    e_fullx e = x1 * 16384 + (y - y1) * Z.quot ((x2 - x1) * 16384) (y2 - y1).
Proof. exact lines_live_closed_form. Qed.
Print Assumptions C01_live_edges_closed_form.

(* (5) ... which differs from the exact crossing x1 + (y-y1)(x2-x1)/(y2-y1) (in units of 2^-16 pixel) by at most
   (y-y1) such units, and never leaves the segment's x range *)
Theorem C01_crossing_error : forall x1 y1 x2 y2, y1 < y2 -> forall y, y1 <= y <= y2 ->
  Z.abs ((x1 * 16384 + (y - y1) * Z.quot ((x2 - x1) * 16384) (y2 - y1)) * (y2 - y1)
         - (x1 * 16384 * (y2 - y1) + (y - y1) * (x2 - x1) * 16384)) <= (y - y1) * (y2 - y1).
Proof. exact crossing_error. Qed.
Print Assumptions C01_crossing_error.

(* (6) the accumulator: four sub-rows of sorted disjoint spans give 16K or 16K-1 exactly as stated, no u8 overflow *)
Theorem C01_pixel_row_accumulator : forall mx my w py buf sp0 sp1 sp2 sp3,
  let st := py * w in
  0 <= w -> 0 <= py -> st + w < zlen buf -> bytes_ok buf -> (forall p, 0 <= p < w -> zn buf (st + p) = 0) ->
  spans_ok mx w sp0 -> spans_ok mx w sp1 -> spans_ok mx w sp2 -> spans_ok mx w sp3 ->
  exists buf',
    blit_pixel_row (mk_maskbuf mx my w buf) (my + 4 * py) sp0 sp1 sp2 sp3 = Ok (mk_maskbuf mx my w buf') /\
    length buf' = length buf /\ bytes_ok buf' /\
    (forall p, 0 <= p < w ->
      let K := kcov mx sp0 p + kcov mx sp1 p + kcov mx sp2 p + kcov mx sp3 p in
      0 <= K <= 16 /\
      zn buf' (st + p) = (if hasint p (map (rel mx w) sp3) then 16 * K - 1 else Z.min 255 (16 * K)) /\
      (zn buf' (st + p) = Z.min 255 (16 * K) \/ zn buf' (st + p) = 16 * K - 1)) /\
    (forall i, 0 <= i < zlen buf -> i < st \/ st + w <= i -> zn buf' i = zn buf i).
Proof. exact pixel_row_coverage. Qed.
Print Assumptions C01_pixel_row_accumulator.

(* non-vacuity: the design-phase triangle (0.25,0.5) (3.5,1.25) (1.0,3.75) on a 4x4 surface *)
Example C01_triangle :
  let r := add_segs (rast_new 4 4) example_tri in
  get_bounds r = mkrect 0 0 4 4 /\
  (match rasterize blit_super NonZero r (maskbuf_new 0 0 4 4) with Ok (_, m) => m_buf m | Err _ => [] end)
    = [48; 16; 0; 0;  144; 255; 223; 48;  80; 255; 96; 0;  16; 96; 0; 0;  0] /\
  map (fun q => map (fun p => Kpix NonZero 0 (r_starts r) 0 0 q p) [0; 1; 2; 3]) [0; 1; 2; 3]
    = [[3; 1; 0; 0]; [9; 16; 14; 3]; [5; 16; 6; 0]; [1; 6; 0; 0]] /\
  (match rasterize blit_mask NonZero r (maskbuf_new 0 0 4 4) with Ok (_, m) => m_buf m | Err _ => [] end)
    = [0; 0; 0; 0;  255; 255; 0; 0;  255; 255; 0; 0;  255; 0; 0; 0;  0].
Proof. exact example_tri_mask. Qed.

(* ---- end to end: DrawTarget::fill (FillProofs.v) ---- *)
Require Import RQ.F32 RQ.Pixel RQ.PathF RQ.Shader RQ.Target RQ.FillProofs.

(* (7) the path becomes exactly the list of straight edges poly_segs: every LineTo, the implicit closing edge of every
   subpath, Close returning to the subpath start, either orientation (swap flag) *)
Theorem C01_path_is_its_edge_list : forall h t a b r p, is_polygon p = true -> h <> 0 ->
  rz (apply_path h t (mk_cursor a b r) p) = add_segs r (poly_segs t p).
Proof. exact apply_path_polygon. Qed.
Print Assumptions C01_path_is_its_edge_list.

(* (8) antialiased fill of a polygon, opaque white over a transparent w x h surface: the call returns, every pixel inside
   the path's bounds has alpha min(255,16K) or 16K-1 (and r=g=b=alpha), K = covered quarter cells of the pixel, every
   pixel outside the bounds stays 0 - wherever the polygon lies relative to the surface *)
Theorem C01_fill_polygon_coverage : forall w h p, 0 <= w -> 0 < h -> is_polygon p = true ->
  let r := add_segs (rast_new w h) (poly_segs xf_identity p) in
  let b := get_bounds r in
  exists st', fill (dt_new w h (repeat 0 (Z.to_nat (w * h)))) p (Solid white) (mk_opts SrcOver f1 true) = Ok st' /\
    d_w st' = w /\ d_h st' = h /\ zlen (d_buf st') = w * h /\
    forall X Y, 0 <= X < w -> 0 <= Y < h ->
      let v := zn (d_buf st') (Y * w + X) in
      if r_in b X Y then
        let K := Kpix (p_winding p) (y0 b * 4) (r_starts r) (x0 b * 4) (y0 b * 4) (Y - y0 b) (X - x0 b) in
        0 <= K <= 16 /\ (Z.shiftr v 24 = Z.min 255 (16 * K) \/ Z.shiftr v 24 = 16 * K - 1) /\
        v = gray (Z.shiftr v 24)
      else v = 0.
Proof. exact fill_polygon_coverage. Qed.
Print Assumptions C01_fill_polygon_coverage.

(* (9) antialiasing off: a pixel is fully painted exactly when cell 4p+3 of its first sample row is covered, every other
   pixel is untouched *)
Theorem C01_fill_polygon_coverage_aliased : forall w h p, 0 <= w -> 0 < h -> is_polygon p = true ->
  let r := add_segs (rast_new w h) (poly_segs xf_identity p) in
  let b := get_bounds r in
  exists st', fill (dt_new w h (repeat 0 (Z.to_nat (w * h)))) p (Solid white) (mk_opts SrcOver f1 false) = Ok st' /\
    d_w st' = w /\ d_h st' = h /\ zlen (d_buf st') = w * h /\
    forall X Y, 0 <= X < w -> 0 <= Y < h ->
      let v := zn (d_buf st') (Y * w + X) in
      if r_in b X Y then
        v = (if cov (p_winding p) (live (y0 b * 4) (r_starts r) (y0 b * 4 + 4 * (Y - y0 b)))
                    (4 * (X - x0 b) + 3 + x0 b * 4) then white else 0)
      else v = 0.
Proof. exact fill_polygon_coverage_aliased. Qed.
Print Assumptions C01_fill_polygon_coverage_aliased.

(* ---- quarter-grid vertices reach the rasteriser exactly (GridProofs.v) ---- *)
Require Import RQ.UserSpace RQ.PathRange RQ.GridProofs.

(* (10) a vertex whose coordinates are quarter-pixel multiples (n/4 as finite floats) is handed to the rasteriser as
   exactly (nx, ny), also through the identity transform fill applies: the integers of poly_segs in (7)-(9) ARE the
   polygon's quarter-grid coordinates *)
Theorem C01_quarter_grid_vertices_convert_exactly : forall q nx ny, fquarter (px q) nx -> fquarter (py q) ny ->
  i32_min <= nx <= i32_max -> i32_min <= ny <= i32_max ->
  f32_to_dot2 (px (xf_point xf_identity q)) = nx /\ f32_to_dot2 (py (xf_point xf_identity q)) = ny.
Proof. exact dot2_quarter_identity. Qed.
Print Assumptions C01_quarter_grid_vertices_convert_exactly.

(* ---- the model's fixed-point crossings against the exact geometry (ExactCrossing.v) ---- *)
Require Import RQ.ExactCrossing.

(* (11) the rounded 16.16 crossing of a segment with a sample row IS the exact rational crossing rounded half-up to the
   quarter-pixel cell, whenever the exact crossing is not within (y-ya)/16384 cells of a cell boundary (gap_ok; the
   hypothesis is necessary: ExactCrossing.tie_counterexample) *)
Theorem C01_crossings_are_exact_crossings_rounded : forall xa ya xb yb y,
  ya < yb -> ya <= y <= yb -> gap_ok xa ya xb yb y ->
  Raster.rnd (fixed_cross xa ya xb yb y) = exact_round xa ya xb yb y.
Proof. exact rnd_is_exact_round. Qed.
Print Assumptions C01_crossings_are_exact_crossings_rounded.

(* (12) without the gap hypothesis the crossing is still within one cell of the exact one on every segment no taller
   than 4096 px *)
Theorem C01_crossings_within_one_cell_of_exact : forall xa ya xb yb y,
  ya < yb -> ya <= y <= yb -> y - ya <= 16384 ->
  let m := exact_round xa ya xb yb y in
  let r := Raster.rnd (fixed_cross xa ya xb yb y) in
  Z.abs (r - m) <= 1 /\ (r <> m -> ~ gap_ok xa ya xb yb y).
Proof. intros xa ya xb yb y H1 H2 H3. destruct (rnd_near_exact_round xa ya xb yb y H1 H2 H3) as (A & B & _). split; assumption. Qed.
Print Assumptions C01_crossings_within_one_cell_of_exact.

(* (13) 4x4 supersampling stated on the EXACT geometry: the mask byte of pixel (q,p) is 16*K (255 when K = 16; 16*K-1 is
   the accumulate-byte carry, see (8)) where K counts the 16 sample cells (4 rows x 4 columns) that the winding rule,
   evaluated on the exact rational crossings rounded to cells, puts inside.  Partial: gap_all (no live crossing within
   the fixed-point error of a cell boundary) is assumed for the sample rows of the mask; it is decidable
   (gap_allb_sound) and holds for every corpus polygon, but not for every polygon *)
Theorem C01_coverage_is_exact_supersampling_partial : forall rule W H gs,
  let r := add_segs (rast_new W H) gs in
  let b := get_bounds r in
  let G := map seg_geom gs in
  0 <= H -> 0 <= r_w b -> 0 <= r_h b ->
  gap_all G (y0 b * 4) (y0 b * 4 + r_h b * 4) ->
  exists r' buf',
    rasterize blit_super rule r (maskbuf_new (x0 b) (y0 b) (r_w b) (r_h b)) =
      Ok (r', mk_maskbuf (x0 b * 4) (y0 b * 4) (r_w b) buf') /\
    length buf' = Z.to_nat (r_w b * r_h b + 1) /\ bytes_ok buf' /\
    forall q p, 0 <= q < r_h b -> 0 <= p < r_w b ->
      let K := Kpix_exact rule G (x0 b * 4) (y0 b * 4) q p in
      0 <= K <= 16 /\
      (zn buf' (q * r_w b + p) = Z.min 255 (16 * K) \/ zn buf' (q * r_w b + p) = 16 * K - 1).
Proof. exact rasterize_lines_coverage_exact. Qed.
Print Assumptions C01_coverage_is_exact_supersampling_partial.

(* (14) the same with antialiasing off: 255 exactly when cell 4p+3 of the pixel's first sample row is inside by the exact
   rounded crossings *)
Theorem C01_coverage_aliased_is_exact_sampling_partial : forall rule W H gs,
  let r := add_segs (rast_new W H) gs in
  let b := get_bounds r in
  let G := map seg_geom gs in
  let my := y0 b * 4 in
  0 <= H -> 0 <= r_w b -> 0 <= r_h b ->
  (forall q, 0 <= q < r_h b -> forall g, In g G -> g_live (my + 4 * q) g = true -> g_gap (my + 4 * q) g) ->
  exists r' buf',
    rasterize blit_mask rule r (maskbuf_new (x0 b) (y0 b) (r_w b) (r_h b)) =
      Ok (r', mk_maskbuf (x0 b * 4) my (r_w b) buf') /\
    length buf' = Z.to_nat (r_w b * r_h b + 1) /\
    forall q p, 0 <= q < r_h b -> 0 <= p < r_w b ->
      zn buf' (q * r_w b + p) =
        (if cov_exact rule (filter (g_live (my + 4 * q)) G) (my + 4 * q) (4 * p + 3 + x0 b * 4) then 255 else 0).
Proof. exact rasterize_lines_coverage_aliased_exact. Qed.
Print Assumptions C01_coverage_aliased_is_exact_sampling_partial.

(* ---- slopes that are exact in 16.16 need no gap hypothesis (ExactSlopes.v) ---- *)
Require Import RQ.ExactSlopes.

(* (15) when dx * 2^14 is divisible by dy (vertical and 45-degree edges, every edge whose reduced dy divides 2^14: slopes
   k/2, k/4, k/8 ... per quarter row) the fixed-point crossing is the exact crossing on every row, ties included *)
Theorem C01_exact_slope_crossings_are_exact : forall xa ya xb yb y,
  ya < yb -> ya <= y <= yb -> ((xb - xa) * 16384) mod (yb - ya) = 0 ->
  Raster.rnd (fixed_cross xa ya xb yb y) = exact_round xa ya xb yb y.
Proof. exact rnd_is_exact_round_exact_slope. Qed.
Print Assumptions C01_exact_slope_crossings_are_exact.

(* (16) FULL statement on that class of polygons, no hypothesis left about crossings: for every list of edges with
   exact slopes - in particular every rectilinear and every octilinear polygon (17) - every surface size and position,
   both rules, the mask byte of every pixel is 16*K (255 at K = 16; 16*K-1 is the accumulator's carry), K = the number of
   the pixel's 16 sample cells inside the exact polygon with crossings rounded to the nearest quarter *)
Theorem C01_coverage_is_exact_supersampling_for_exact_slopes : forall rule W H gs,
  let r := add_segs (rast_new W H) gs in
  let b := get_bounds r in
  let G := map seg_geom gs in
  0 <= H -> 0 <= r_w b -> 0 <= r_h b ->
  all_exact_slopes G = true ->
  exists r' buf',
    rasterize blit_super rule r (maskbuf_new (x0 b) (y0 b) (r_w b) (r_h b)) =
      Ok (r', mk_maskbuf (x0 b * 4) (y0 b * 4) (r_w b) buf') /\
    length buf' = Z.to_nat (r_w b * r_h b + 1) /\ bytes_ok buf' /\
    forall q p, 0 <= q < r_h b -> 0 <= p < r_w b ->
      let K := Kpix_exact rule G (x0 b * 4) (y0 b * 4) q p in
      0 <= K <= 16 /\
      (zn buf' (q * r_w b + p) = Z.min 255 (16 * K) \/ zn buf' (q * r_w b + p) = 16 * K - 1).
Proof. exact rasterize_lines_coverage_exact_slopes. Qed.
Print Assumptions C01_coverage_is_exact_supersampling_for_exact_slopes.

Theorem C01_coverage_aliased_is_exact_sampling_for_exact_slopes : forall rule W H gs,
  let r := add_segs (rast_new W H) gs in
  let b := get_bounds r in
  let G := map seg_geom gs in
  let my := y0 b * 4 in
  0 <= H -> 0 <= r_w b -> 0 <= r_h b ->
  all_exact_slopes G = true ->
  exists r' buf',
    rasterize blit_mask rule r (maskbuf_new (x0 b) (y0 b) (r_w b) (r_h b)) =
      Ok (r', mk_maskbuf (x0 b * 4) my (r_w b) buf') /\
    length buf' = Z.to_nat (r_w b * r_h b + 1) /\
    forall q p, 0 <= q < r_h b -> 0 <= p < r_w b ->
      zn buf' (q * r_w b + p) =
        (if cov_exact rule (filter (g_live (my + 4 * q)) G) (my + 4 * q) (4 * p + 3 + x0 b * 4) then 255 else 0).
Proof. exact rasterize_lines_coverage_aliased_exact_slopes. Qed.
Print Assumptions C01_coverage_aliased_is_exact_sampling_for_exact_slopes.

(* (17) the polygons users draw most are in the class *)
Theorem C01_rectilinear_and_octilinear_polygons_have_exact_slopes : forall gs,
  (rectilinear gs = true -> all_exact_slopes (map seg_geom gs) = true) /\
  (octilinear gs = true -> all_exact_slopes (map seg_geom gs) = true).
Proof. intro gs; split; [apply rectilinear_all_exact_slopes | apply octilinear_all_exact_slopes]. Qed.
Print Assumptions C01_rectilinear_and_octilinear_polygons_have_exact_slopes.

(* (18) which slopes are exact: the reduced denominator divides 2^14 *)
Theorem C01_exact_slope_characterisation : forall xa ya xb yb w, ya < yb ->
  (exact_slope (xa, ya, xb, yb, w) = true <-> ((yb - ya) / Z.gcd (xb - xa) (yb - ya) | 16384)).
Proof. exact exact_slope_iff_reduced. Qed.
Print Assumptions C01_exact_slope_characterisation.

(* ---- from the public call down to the exact polygon (FillExact.v) ---- *)
Require Import RQ.F32 RQ.PathF RQ.Pixel RQ.Shader RQ.Target RQ.FillProofs RQ.Contains RQ.ContainsF32 RQ.FillExact.

(* (19) THE PROPERTY, end to end, for every polygon whose edges have slopes exact in 16.16 - decided on the PATH: any finite
   f32 vertices (on or off the quarter grid; path_vertices are the integers f32_to_dot2 hands to the rasteriser), any
   number of subpaths, any self-intersection, both rules, every surface size, the polygon anywhere relative to it:
   DrawTarget::fill with opaque white over a transparent surface returns, and the alpha of every pixel inside the bounds is
   16*K (255 at K = 16; or 16*K-1), K = the number of its 16 sample cells inside the exact polygon with every crossing
   rounded to the nearest quarter; r = g = b = a; every other pixel stays 0 *)
Theorem C01_fill_of_exact_slope_polygon_is_exact_supersampling : forall w h p, 0 <= w -> 0 < h ->
  is_polygon p = true -> path_finiteb p = true -> path_exact_slopes p = true ->
  let gs := poly_segs xf_identity p in
  let r := add_segs (rast_new w h) gs in
  let b := get_bounds r in
  let G := map seg_geom gs in
  exists st', fill (dt_new w h (repeat 0 (Z.to_nat (w * h)))) p (Solid white) (mk_opts SrcOver f1 true) = Ok st' /\
    d_w st' = w /\ d_h st' = h /\ zlen (d_buf st') = w * h /\
    forall X Y, 0 <= X < w -> 0 <= Y < h ->
      let v := zn (d_buf st') (Y * w + X) in
      if r_in b X Y then
        let K := Kpix_exact (p_winding p) G (x0 b * 4) (y0 b * 4) (Y - y0 b) (X - x0 b) in
        0 <= K <= 16 /\ (Z.shiftr v 24 = Z.min 255 (16 * K) \/ Z.shiftr v 24 = 16 * K - 1) /\
        v = gray (Z.shiftr v 24)
      else v = 0.
Proof. exact fill_polygon_coverage_path_exact_slopes. Qed.
Print Assumptions C01_fill_of_exact_slope_polygon_is_exact_supersampling.

(* (20) antialiasing off *)
Theorem C01_fill_of_exact_slope_polygon_aliased_is_exact_sampling : forall w h p, 0 <= w -> 0 < h ->
  is_polygon p = true -> path_finiteb p = true -> path_exact_slopes p = true ->
  let gs := poly_segs xf_identity p in
  let r := add_segs (rast_new w h) gs in
  let b := get_bounds r in
  let G := map seg_geom gs in
  exists st', fill (dt_new w h (repeat 0 (Z.to_nat (w * h)))) p (Solid white) (mk_opts SrcOver f1 false) = Ok st' /\
    d_w st' = w /\ d_h st' = h /\ zlen (d_buf st') = w * h /\
    forall X Y, 0 <= X < w -> 0 <= Y < h ->
      let v := zn (d_buf st') (Y * w + X) in
      if r_in b X Y then
        let y := y0 b * 4 + 4 * (Y - y0 b) in
        v = (if cov_exact (p_winding p) (filter (g_live y) G) y (4 * (X - x0 b) + 3 + x0 b * 4) then white else 0)
      else v = 0.
Proof. exact fill_polygon_coverage_aliased_path_exact_slopes. Qed.
Print Assumptions C01_fill_of_exact_slope_polygon_aliased_is_exact_sampling.

(* (21) octilinear paths (every edge horizontal, vertical or diagonal) are in the class *)
Theorem C01_octilinear_paths_have_exact_slopes : forall p,
  is_polygon p = true -> path_finiteb p = true -> path_octilinear p = true ->
  all_exact_slopes (map seg_geom (poly_segs xf_identity p)) = true.
Proof. exact path_octilinear_all_exact_slopes. Qed.
Print Assumptions C01_octilinear_paths_have_exact_slopes.

(* (22) for quarter-grid vertices the edge list is the integer polygon itself (swap flags included), so r, b, G and K above
   are functions of the integer polygon only *)
Theorem C01_grid_path_is_its_integer_polygon : forall B ops zops rule, B <= i32_max ->
  grid_ops_within B ops zops -> poly_segs xf_identity (mk_path ops rule) = zpoly_segs zops.
Proof. exact grid_poly_segs. Qed.
Print Assumptions C01_grid_path_is_its_integer_polygon.
(* the same under the gap hypothesis or for mixed polygons: fill_polygon_coverage_gap_all, fill_polygon_coverage_exact_or_gap *)
