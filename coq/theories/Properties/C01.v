(* C01 - placeholder until the theorems are in place. *)
Require Import RQ.Base.
Theorem C01_placeholder : True. Proof. exact I. Qed.
Print Assumptions C01_placeholder.
