(* C02 - placeholder until the frame theorem is in place: see TargetProofs. *)
Require Import RQ.Base RQ.Target.
Theorem C02_placeholder : True. Proof. exact I. Qed.
Print Assumptions C02_placeholder.
