(* C02 - Drawing never changes pixels outside shape, clip and surface. *)
Require Import RQ.Base RQ.F32 RQ.Rect RQ.Pixel RQ.Raster RQ.PathF RQ.Shader RQ.Surface RQ.Target RQ.TargetProofs RQ.OpsProofs.

(* (1) Every drawing call - fill, stroke, fill_rect, clear, mask, draw_image_at, draw_image_with_size_at -
   that returns leaves everything but the pixels of the current destination (innermost open layer, or
   the surface) as it was: size, clip stack, transform, every outer layer, the surface under an open
   layer, the destination's own rectangle and length; and what it did to the destination's pixels is
   nothing, or the unclipped clear, or exactly ONE composite run on the same pixels / clips / layers. *)
Theorem C02_drawing_call_frame : forall st o st',
  d_probe st = 0 -> drawing_op o = true -> step_op st o = Ok st' -> same_frame st st' /\ effect st st'.
Proof. exact (fun st o st' Hp Hd H => conj (effect_same_frame st st' Hp (drawing_op_effect st o st' Hd H)) (drawing_op_effect st o st' Hd H)). Qed.
Print Assumptions C02_drawing_call_frame.

(* (2) A composite - with ANY blend mode (all 28 are instances of `blend`), any source, any alpha -
   leaves a destination pixel bit-identical when it lies outside rect /\ clip bounds /\ destination /\
   mask rectangle, or its shape coverage byte is 0, or (a clip path being in force) its clip coverage
   byte is 0; and it changes no buffer but the current destination. *)
Theorem C02_composite_frame : forall st src mask mr rect0 blend alpha st',
  d_probe st = 0 -> composite st src mask mr rect0 blend alpha = Ok st' ->
  d_w st' = d_w st /\ d_h st' = d_h st /\ d_clips st' = d_clips st /\ d_ctm st' = d_ctm st /\ d_cur st' = d_cur st /\
  tl (d_layers st') = tl (d_layers st) /\ (d_layers st <> [] -> d_buf st' = d_buf st) /\
  snd (dest_of st') = snd (dest_of st) /\ zlen (fst (dest_of st')) = zlen (fst (dest_of st)) /\
  let dest := fst (dest_of st) in let db := snd (dest_of st) in
  let r := r_inter (r_inter (r_inter rect0 (clip_bounds st)) db) mr in
  forall X Y, x0 db <= X < x1 db -> 0 <= didx db X Y < zlen dest ->
    r_in r X Y = false \/ (has_mask mask = true /\ mask_at mask mr X Y = 0) \/
    (has_mask mask = true /\ (exists c, top_clip_mask st = Some c /\ zn c (Y * d_w st + X) = 0)) ->
    zn (fst (dest_of st')) (didx db X Y) = zn dest (didx db X Y).
Proof. exact composite_frame. Qed.
Print Assumptions C02_composite_frame.

(* (3) the pixel function of every span blitter returns the old value at zero shape coverage or zero clip coverage *)
Theorem C02_zero_coverage_keeps_pixel : forall k src dst m c,
  (kind_has_mask k = true /\ m = 0) \/ (kind_has_clip k = true /\ c = 0) -> blit_px k src dst m c = Ok dst.
Proof. exact blit_px_zero_coverage. Qed.
Print Assumptions C02_zero_coverage_keeps_pixel.

(* (4) pop_layer is one composite onto what lies below the layer (then (2) applies to it) *)
Theorem C02_pop_layer : forall st st', pop_layer st = Ok st' ->
  exists l rest st2, (d_layers st = l :: rest) /\
    (composite (with_ctm (with_layers st rest) xf_identity)
              (Image (mk_image (r_w (l_rect l)) (r_h (l_rect l)) (l_buf l)) ExtPad Nearest
                     (xf_translation (of_int (- x0 (l_rect l))) (of_int (- y0 (l_rect l)))))
              (Some (repeat (unit_to_u8 (l_opacity l)) (Z.to_nat (d_w st * d_h st)))) (surface_rect st) (l_rect l) (l_blend l) f1 = Ok st2) /\
    (st' = with_ctm st2 (d_ctm st)).
Proof. exact pop_layer_is_one_composite. Qed.
Print Assumptions C02_pop_layer.

(* non-vacuity: Clear-mode fill_rect of a 1x1 rectangle on a 3x2 surface of 0xff102030 touches one pixel only *)
Example C02_example :
  let st := dt_new 3 2 (repeat 4279246896 6) in
  match step_op st (OpFillRect (of_int 1) (of_int 0) (of_int 1) (of_int 1) (Solid 4294967295) (mk_opts Clear f1 true)) with
  | Ok st' => d_buf st' = [4279246896; 0; 4279246896; 4279246896; 4279246896; 4279246896]
  | Err _ => False
  end.
Proof. vm_compute. reflexivity. Qed.
