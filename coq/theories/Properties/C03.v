(* C03 - placeholder until the theorems are in place. *)
Require Import RQ.Base RQ.Target.
Theorem C03_placeholder : True. Proof. exact I. Qed.
Print Assumptions C03_placeholder.
