(* C03 - Each pixel is composited by the blend mode's formula weighted by coverage. *)
Require Import RQ.Base RQ.F32 RQ.Rect RQ.Pixel RQ.PixelProofs RQ.Raster RQ.PathF RQ.Shader RQ.Surface RQ.Target RQ.TargetProofs RQ.PixelCorollaries RQ.OpsProofs.

(* (1) After any composite that returns, a pixel (X,Y) of the current destination - the surface or a
   layer at any origin: `didx` is the only place the origin enters - is, inside the effective
   rectangle, the blitter's function of ITS OWN inputs only: the shader's colour at (X,Y) (source colour
   scaled by the global alpha), its previous value, the mask byte at (X,Y) minus the mask origin, and
   the clip byte at (X,Y); outside it is unchanged. No neighbouring pixel, no position-dependent term. *)
Theorem C03_composite_pixel_formula : forall st src mask mr rect0 blend alpha st',
  d_probe st = 0 -> composite st src mask mr rect0 blend alpha = Ok st' ->
  match xf_inverse (d_ctm st) with
  | None => st' = st
  | Some ti =>
      let dest := fst (dest_of st) in let db := snd (dest_of st) in
      let r := r_inter (r_inter (r_inter rect0 (clip_bounds st)) db) mr in
      if r_empty r then st' = st else
      let k := choose_blitter (has_mask mask) (top_clip_mask st) blend in
      let sh := choose_shader ti src alpha in
      exists dest', st' = set_dest st dest' /\ zlen dest' = zlen dest /\
        forall X Y, x0 db <= X < x1 db -> 0 <= didx db X Y < zlen dest ->
          if r_in r X Y
          then blit_px k (shade sh X Y) (zn dest (didx db X Y)) (mask_at mask mr X Y) (clip_byte k (d_w st) X Y)
               = Ok (zn dest' (didx db X Y))
          else zn dest' (didx db X Y) = zn dest (didx db X Y)
  end.
Proof. exact composite_spec. Qed.
Print Assumptions C03_composite_pixel_formula.

(* (2) the function: no mask -> blend(src,dst); mask -> SrcOver: source-over scaled by coverage (x clip
   coverage), other modes: interpolation between dst and blend(src,dst) by coverage (x clip coverage) *)
Theorem C03_formula : forall has_m clipmask blend src dst m c,
  blit_px (choose_blitter has_m clipmask blend) src dst m c =
  match has_m, clipmask with
  | false, _ => blend_px blend src dst
  | true, None => if mode_eqb blend SrcOver then Ok (if m =? 0 then dst else over_in src dst m) else blend_mask_px blend src dst m
  | true, Some _ => if mode_eqb blend SrcOver then Ok (if (m =? 0) || (c =? 0) then dst else over_in_in src dst m c)
                    else blend_mask_clip_px blend src dst m c
  end.
Proof. exact blitter_formula. Qed.
Print Assumptions C03_formula.

(* (3) every drawing call is at most one such composite (so (1) describes fill, stroke, fill_rect, mask,
   draw_image_*, the clipped clear; the unclipped clear writes the colour itself) *)
Theorem C03_drawing_call_is_one_composite : forall st o st',
  drawing_op o = true -> step_op st o = Ok st' -> effect st st'.
Proof. exact drawing_op_effect. Qed.
Print Assumptions C03_drawing_call_is_one_composite.

(* (4) consequences: full coverage with no clip path yields exactly blend(source, previous) for every mode; an opaque
   SrcOver source or any Src source replaces the pixel exactly (so clear yields exactly the requested colour); zero
   source or zero global alpha under SrcOver changes nothing *)
Theorem C03_full_coverage_is_blend : forall m s d b, wf_px d -> blend m s d = Ok b -> wf_px b -> mode_eqb m SrcOver = false ->
  blit_px (choose_blitter true None m) s d 255 0 = Ok b.
Proof. exact full_coverage_is_blend. Qed.
Print Assumptions C03_full_coverage_is_blend.
Theorem C03_full_coverage_srcover : forall s d, wf_px s -> wf_px d -> premul s = true ->
  blit_px (choose_blitter true None SrcOver) s d 255 0 = Ok (over s d).
Proof. exact full_coverage_srcover. Qed.
Theorem C03_opaque_srcover_replaces : forall s d, wf_px s -> wf_px d -> premul s = true -> get_a s = 255 ->
  blit_px (choose_blitter true None SrcOver) s d 255 0 = Ok s.
Proof. exact opaque_srcover_replaces. Qed.
Print Assumptions C03_opaque_srcover_replaces.
Theorem C03_src_replaces : forall s d, wf_px s -> wf_px d -> blit_px (choose_blitter true None Src) s d 255 0 = Ok s.
Proof. exact src_replaces. Qed.
Theorem C03_zero_source_changes_nothing : forall d m, wf_px d -> 0 <= m <= 255 -> blit_px (choose_blitter true None SrcOver) 0 d m 0 = Ok d.
Proof. exact zero_source_srcover_noop. Qed.
Theorem C03_zero_alpha_solid_source_is_zero : forall c, wf_px c -> alpha_mul c (alpha_to_alpha256 0) = 0.
Proof. exact zero_alpha_solid_is_zero. Qed.
Print Assumptions C03_zero_alpha_solid_source_is_zero.
(* the fast path (no mask) computes the same pixel as the masked path at full coverage *)
Theorem C03_fast_path_independent : forall m s d, wf_px s -> wf_px d -> premul s = true -> premul d = true -> (exists b, blend m s d = Ok b) ->
  blit_px (choose_blitter false None m) s d 0 0 = blit_px (choose_blitter true None m) s d 255 0.
Proof. exact fast_path_pixel_eq_general. Qed.

(* non-vacuity: a half-covered SrcOver pixel; 0x80 coverage of opaque white over 0xff000000 *)
Example C03_example : blit_px (choose_blitter true None SrcOver) 4294967295 4278190080 128 0 = Ok 4286611584.
Proof. vm_compute. reflexivity. Qed.
