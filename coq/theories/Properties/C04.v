(* C04 - placeholder until the theorems are in place. *)
Require Import RQ.Base.
Theorem C04_placeholder : True. Proof. exact I. Qed.
Print Assumptions C04_placeholder.
