(* C04 - Strokes cover exactly the offset region implied by width, joins and caps.
   PARTIAL: the f32 model of stroke_to_path is compared bit for bit with the crate and the painted pixels with the f64
   region of the statement; proved here: a non-positive width paints nothing, stroke = fill of the outline.
   Further down (StrokeShape.v): the closed form of the outline of every open / closed polyline and of every piece, join and cap. *)
Require Import RQ.Base RQ.F32 RQ.Raster RQ.PathF RQ.PathOps RQ.Target RQ.MiscProofs.

Theorem C04_nonpositive_width_paints_nothing_partial : forall p st, fle (s_width st) f0 = true -> stroke_to_path p st = Ok (mk_path [] NonZero).
Proof. exact stroke_nonpositive_width_paints_nothing. Qed.
Print Assumptions C04_nonpositive_width_paints_nothing_partial.
Theorem C04_stroke_is_fill_of_outline_partial : forall st p s o, step_op st (OpStroke p s o) = fill st p s o.
Proof. reflexivity. Qed.

(* ---- every subpath is stroked on its own (StrokeProofs.v) ---- *)
Require Import RQ.StrokeProofs.

(* caps and joins are decided inside a subpath: the outline of a path is the outline of what precedes a MoveTo followed
   by the outline of the rest, each taken on its own (the previous subpath is capped, nothing of it - cursor, normals,
   start point - is read again; same errors too) *)
Theorem C04_every_subpath_is_stroked_on_its_own_partial : forall ops1 p ops2 w w1 w2 st,
  stroke_to_path (mk_path (ops1 ++ MoveTo p :: ops2) w) st =
  do r1 <- stroke_to_path (mk_path ops1 w1) st;
  do r2 <- stroke_to_path (mk_path (MoveTo p :: ops2) w2) st;
  Ok (mk_path (p_ops r1 ++ p_ops r2) NonZero).
Proof. exact stroke_to_path_concat. Qed.
Print Assumptions C04_every_subpath_is_stroked_on_its_own_partial.

(* the offset region of one segment with butt caps: the rectangle a +- n*hw, b +- n*hw, n the unit normal, hw half the width *)
Theorem C04_single_segment_is_its_offset_rectangle_partial : forall a b n w st,
  fle (s_width st) f0 = false -> s_cap st = CapButt -> compute_normal a b = Some n ->
  let hw := fdiv (s_width st) (of_int 2) in
  stroke_to_path (mk_path [MoveTo a; LineTo b] w) st =
  Ok (mk_path [MoveTo (fadd (px a) (fmul (px n) hw), fadd (py a) (fmul (py n) hw));
               LineTo (fadd (px b) (fmul (px n) hw), fadd (py b) (fmul (py n) hw));
               LineTo b;
               LineTo (fadd (px b) (fmul (fneg (px n)) hw), fadd (py b) (fmul (fneg (py n)) hw));
               LineTo (fsub (px a) (fmul (px n) hw), fsub (py a) (fmul (py n) hw));
               LineTo a; Close] NonZero).
Proof. exact stroke_single_segment_butt. Qed.
Print Assumptions C04_single_segment_is_its_offset_rectangle_partial.

(* ---- the outline of a whole polyline (StrokeShape.v) ---- *)
Require Import RQ.StrokeShape.

(* open polyline, any points (zero-length segments are skipped by segs): the outline is, in this order, the offset
   rectangle of the first segment, then for every further segment the join with its predecessor followed by its own
   rectangle, then the cap at the end point (last normal) and the cap at the start (first normal reversed) - all built by
   the stroker's own segment_piece / join_line / cap_line; always NonZero *)
Theorem C04_open_polyline_is_pieces_joins_caps_partial : forall p0 pts w st,
  fle (s_width st) f0 = false ->
  stroke_to_path (mk_path (MoveTo p0 :: map LineTo pts) w) st =
  Ok (mk_path (rev (open_outline st (half_width st) (segs p0 pts) (end_pt p0 pts))) NonZero).
Proof. exact stroke_open_polyline_gen. Qed.
Print Assumptions C04_open_polyline_is_pieces_joins_caps_partial.

(* closed polyline: no caps, a join at every vertex including the closing vertex; the closing segment is part of
   cyc_segs when it has a length *)
Theorem C04_closed_polyline_is_pieces_and_joins_partial : forall p0 pts w st,
  fle (s_width st) f0 = false ->
  stroke_to_path (mk_path (MoveTo p0 :: map LineTo pts ++ [Close]) w) st =
  Ok (mk_path (rev (closed_outline st (half_width st) (cyc_segs p0 pts))) NonZero).
Proof. exact stroke_closed_polyline_gen. Qed.
Print Assumptions C04_closed_polyline_is_pieces_and_joins_partial.

(* any number of such subpaths: the outlines one after the other *)
Theorem C04_polylines_partial : forall sps w st,
  fle (s_width st) f0 = false ->
  stroke_to_path (mk_path (flat_map subpath_ops sps) w) st =
  Ok (mk_path (flat_map (fun sp => rev (subpath_outline st (half_width st) sp)) sps) NonZero).
Proof. exact stroke_polylines. Qed.
Print Assumptions C04_polylines_partial.

(* one piece is the rectangle of half-width hw around its segment: a+n*hw, b+n*hw, b, b-n*hw, a-n*hw, a *)
Theorem C04_segment_piece_is_the_offset_rectangle_partial : forall out a b n hw,
  segment_piece out a b n hw = rev (polygon [poff a n hw; poff b n hw; b; poff b (vflip n) hw; pofm a n hw; a]) ++ out.
Proof. exact segment_piece_points. Qed.
Print Assumptions C04_segment_piece_is_the_offset_rectangle_partial.
(* further lemmas of the same file: bevel_points, miter_points, miter_beyond_limit_points, round_join_points, square_cap_points, butt_cap_points, round_cap_points, stroke_op_zero_length *)
(* ---- the statement itself on the Manhattan sub-domain, where binary32 is exact (StrokeHypot.v, StrokeExact.v) ----
   Domain: integer vertices |n| <= 2048, horizontal / vertical segments (zero-length ones skipped as the stroker does), width
   2h with 1 <= h <= 1024, butt or square caps, bevel or miter joins with any miter limit. *)
Require Import RQ.Contains RQ.DashZ RQ.DashPos RQ.DashSpec RQ.DashExact RQ.StrokeHypot RQ.StrokeExact.

(* the f32 outline is the image of an integer outline, op for op: offset rectangles of the segments, square cap
   rectangles, bevel triangles or miter squares on the outer side of every right-angle turn *)
Theorem C04_outline_is_exact_on_manhattan_paths : forall st k p0 pts w,
  style_ok st k -> pt_ok p0 -> Forall pt_ok pts -> poly_axis p0 pts ->
  stroke_to_path (mk_path (MoveTo (ept p0) :: map LineTo (map ept pts)) w) st =
  Ok (mk_path (map eop (zoutline_ops (zstroke_open k p0 pts))) NonZero).
Proof. exact stroke_exact_open. Qed.
Print Assumptions C04_outline_is_exact_on_manhattan_paths.
Theorem C04_outline_is_exact_on_closed_manhattan_paths : forall st k p0 pts w,
  style_ok st k -> pt_ok p0 -> Forall pt_ok pts -> poly_axis p0 (pts ++ [p0]) ->
  stroke_to_path (mk_path (MoveTo (ept p0) :: map LineTo (map ept pts) ++ [Close]) w) st =
  Ok (mk_path (map eop (zoutline_ops (zstroke_closed k p0 pts))) NonZero).
Proof. exact stroke_exact_closed. Qed.
Print Assumptions C04_outline_is_exact_on_closed_manhattan_paths.

(* every contour is one of the statement's shapes (rectangle around a segment, cap rectangle, join triangle / square) ... *)
Theorem C04_manhattan_contours_are_the_statement_s_shapes : forall k p0 pts,
  pt_ok p0 -> Forall pt_ok pts -> poly_axis p0 pts -> Forall (zshape (k_h k)) (zstroke_open k p0 pts).
Proof. exact zstroke_open_shapes. Qed.
Print Assumptions C04_manhattan_contours_are_the_statement_s_shapes.

(* ... all of ONE orientation (negative shoelace area, or a degenerate join of area 0), whatever the direction of the path
   and of its turns: no contour can cancel another under the NonZero rule *)
Theorem C04_manhattan_contours_have_one_orientation : forall k p0 pts,
  1 <= k_h k -> pt_ok p0 -> Forall pt_ok pts -> poly_axis p0 pts ->
  Forall (fun c => area2 c < 0 \/ (area2 c = 0 /\ degenerate_join (k_h k) c)) (zstroke_open k p0 pts).
Proof. exact zstroke_open_orientation. Qed.
Print Assumptions C04_manhattan_contours_have_one_orientation.

(* THE STATEMENT: the NonZero interior of the outline is the UNION of the pieces - at every integer point the winding
   number of the whole outline is minus the number of contours around the point, so the point is inside iff some
   rectangle / cap / join contains it (open and closed subpaths) *)
Theorem C04_stroke_is_the_union_of_its_pieces_on_manhattan_paths : forall k p0 pts X Y,
  1 <= k_h k -> pt_ok p0 -> Forall pt_ok pts -> poly_axis p0 pts ->
  let cs := zstroke_open k p0 pts in
  let w := winding_number (path_edges (zoutline_ops cs) None None) X Y in
  w = - Z.of_nat (length (filter (fun c => cwn c X Y =? -1) cs)) /\
  (inside NonZero w = true <-> exists c, In c cs /\ cwn c X Y = -1).
Proof. exact zstroke_open_union. Qed.
Print Assumptions C04_stroke_is_the_union_of_its_pieces_on_manhattan_paths.
Theorem C04_closed_stroke_is_the_union_of_its_pieces_on_manhattan_paths : forall k p0 pts X Y,
  1 <= k_h k -> pt_ok p0 -> Forall pt_ok pts -> poly_axis p0 (pts ++ [p0]) ->
  let cs := zstroke_closed k p0 pts in
  let w := winding_number (path_edges (zoutline_ops cs) None None) X Y in
  w = - Z.of_nat (length (filter (fun c => cwn c X Y =? -1) cs)) /\
  (inside NonZero w = true <-> exists c, In c cs /\ cwn c X Y = -1).
Proof. exact zstroke_closed_union. Qed.
Print Assumptions C04_closed_stroke_is_the_union_of_its_pieces_on_manhattan_paths.
