(* C04 - Strokes cover exactly the offset region implied by width, joins and caps.
   PARTIAL: the f32 model of stroke_to_path is compared bit for bit with the crate and the painted pixels with the f64
   region of the statement; proved here: a non-positive width paints nothing, stroke = fill of the outline. *)
Require Import RQ.Base RQ.F32 RQ.Raster RQ.PathF RQ.PathOps RQ.Target RQ.MiscProofs.

Theorem C04_nonpositive_width_paints_nothing_partial : forall p st, fle (s_width st) f0 = true -> stroke_to_path p st = Ok (mk_path [] NonZero).
Proof. exact stroke_nonpositive_width_paints_nothing. Qed.
Print Assumptions C04_nonpositive_width_paints_nothing_partial.
Theorem C04_stroke_is_fill_of_outline_partial : forall st p s o, step_op st (OpStroke p s o) = fill st p s o.
Proof. reflexivity. Qed.
