(* C05 - placeholder until the theorems are in place. *)
Require Import RQ.Base RQ.Target.
Theorem C05_placeholder : True. Proof. exact I. Qed.
Print Assumptions C05_placeholder.
