(* C05 - The effective clip is the intersection of every clip pushed and not yet popped. *)
Require Import RQ.Base RQ.F32 RQ.Rect RQ.Pixel RQ.Raster RQ.PathF RQ.Shader RQ.Surface RQ.Target RQ.TargetProofs RQ.OpsProofs RQ.ClipProofs.

(* (1) One step: whatever the call (clip push/pop, transform, layer push/pop, any drawing call, surface copy),
   if the clip stack summarised the pushed-and-not-popped requests g before, it summarises the updated
   requests after: a rectangle push adds a rectangle, a path push adds that path's coverage mask, a pop
   removes the newest request - so pop restores exactly the previous clip - and nothing else touches it. *)
Theorem C05_clip_stack_step : forall st o st' g, d_probe st = 0 -> clip_inv st g -> step_op st o = Ok st' ->
  exists g', ghost_after o g g' /\ clip_inv st' g'.
Proof. exact clip_inv_step. Qed.
Print Assumptions C05_clip_stack_step.

(* (2) Any call sequence from a state whose stack is a summary (e.g. a fresh target, clip_inv_fresh) *)
Theorem C05_clip_stack_is_summary : forall ops st g st', d_probe st = 0 -> clip_inv st g -> run_ops st ops = Ok st' ->
  exists g', clip_inv st' g'.
Proof. exact clip_stack_is_summary. Qed.
Print Assumptions C05_clip_stack_is_summary.

(* (3) What the summary is. Bounds: a pixel is inside the clip bounds iff it is inside the surface and inside
   EVERY rectangle request, in whatever order they were pushed, with paths in between or not *)
Theorem C05_bounds_are_the_intersection : forall surf g X Y,
  r_in (rect_of surf g) X Y = true <-> r_in surf X Y = true /\ forall r, In (CRect r) g -> r_in r X Y = true.
Proof. exact rect_of_in. Qed.
Print Assumptions C05_bounds_are_the_intersection.
Theorem C05_disjoint_rectangles_clip_everything : forall surf g r1 r2 X Y,
  In (CRect r1) g -> In (CRect r2) g -> r_in r1 X Y = false \/ r_in r2 X Y = false -> r_in (rect_of surf g) X Y = false.
Proof. exact empty_intersection_clips_all. Qed.
Print Assumptions C05_disjoint_rectangles_clip_everything.

(* (4) Mask: where ANY pushed path has coverage 0 the combined clip coverage is 0 (so by C02 nothing is drawn
   there); rectangles pushed above paths keep the mask, paths pushed above rectangles keep the bounds *)
Theorem C05_zero_path_coverage_clips : forall n g mk m i, masks_long n g -> mask_of n g = Some mk -> In (CPath m) g ->
  0 <= i < Z.of_nat n -> zn m i = 0 -> zn mk i = 0.
Proof. exact mask_of_zero. Qed.
Print Assumptions C05_zero_path_coverage_clips.
Theorem C05_rect_after_path_keeps_mask : forall n g r, mask_of n (CRect r :: g) = mask_of n g.
Proof. exact mask_survives_rect. Qed.
Theorem C05_path_after_rect_keeps_bounds : forall surf g m, rect_of surf (CPath m :: g) = rect_of surf g.
Proof. exact rect_survives_path. Qed.
(* the combined coverage is the rounded product of the factors, per pixel *)
Theorem C05_mask_is_product : forall n m prev i, 0 <= i < Z.of_nat n -> (n <= length m)%nat -> (n <= length prev)%nat ->
  zn (combine_masks n m prev) i = wrapu8 (muldiv255 (zn m i) (zn prev i)).
Proof. exact zn_combine. Qed.
Print Assumptions C05_mask_is_product.

(* non-vacuity: rectangle, path-less nesting on a 4x4 target *)
Example C05_example :
  clip_bounds (push_clip_rect (push_clip_rect (dt_new 4 4 (repeat 0 16)) (mkrect 1 0 9 3)) (mkrect (-2) 1 3 7)) = mkrect 1 1 3 3.
Proof. vm_compute. reflexivity. Qed.
