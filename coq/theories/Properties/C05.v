(* C05 - The effective clip is the intersection of every clip pushed and not yet popped. *)
Require Import RQ.Base RQ.F32 RQ.Rect RQ.Pixel RQ.Raster RQ.PathF RQ.Shader RQ.Surface RQ.Target RQ.TargetProofs RQ.OpsProofs RQ.ClipProofs.

(* (1) One step: whatever the call (clip push/pop, transform, layer push/pop, any drawing call, surface copy),
   if the clip stack summarised the pushed-and-not-popped requests g before, it summarises the updated
   requests after: a rectangle push adds a rectangle, a path push adds that path's coverage mask, a pop
   removes the newest request - so pop restores exactly the previous clip - and nothing else touches it. *)
Theorem C05_clip_stack_step : forall st o st' g, d_probe st = 0 -> clip_inv st g -> step_op st o = Ok st' ->
  exists g', ghost_after o g g' /\ clip_inv st' g'.
Proof. exact clip_inv_step. Qed.
Print Assumptions C05_clip_stack_step.

(* (2) Any call sequence from a state whose stack is a summary (e.g. a fresh target, clip_inv_fresh) *)
Theorem C05_clip_stack_is_summary : forall ops st g st', d_probe st = 0 -> clip_inv st g -> run_ops st ops = Ok st' ->
  exists g', clip_inv st' g'.
Proof. exact clip_stack_is_summary. Qed.
Print Assumptions C05_clip_stack_is_summary.

(* (3) What the summary is. Bounds: a pixel is inside the clip bounds iff it is inside the surface and inside
   EVERY rectangle request, in whatever order they were pushed, with paths in between or not *)
Theorem C05_bounds_are_the_intersection : forall surf g X Y,
  r_in (rect_of surf g) X Y = true <-> r_in surf X Y = true /\ forall r, In (CRect r) g -> r_in r X Y = true.
Proof. exact rect_of_in. Qed.
Print Assumptions C05_bounds_are_the_intersection.
Theorem C05_disjoint_rectangles_clip_everything : forall surf g r1 r2 X Y,
  In (CRect r1) g -> In (CRect r2) g -> r_in r1 X Y = false \/ r_in r2 X Y = false -> r_in (rect_of surf g) X Y = false.
Proof. exact empty_intersection_clips_all. Qed.
Print Assumptions C05_disjoint_rectangles_clip_everything.

(* (4) Mask: where ANY pushed path has coverage 0 the combined clip coverage is 0 (so by C02 nothing is drawn
   there); rectangles pushed above paths keep the mask, paths pushed above rectangles keep the bounds *)
Theorem C05_zero_path_coverage_clips : forall n g mk m i, masks_long n g -> mask_of n g = Some mk -> In (CPath m) g ->
  0 <= i < Z.of_nat n -> zn m i = 0 -> zn mk i = 0.
Proof. exact mask_of_zero. Qed.
Print Assumptions C05_zero_path_coverage_clips.
Theorem C05_rect_after_path_keeps_mask : forall n g r, mask_of n (CRect r :: g) = mask_of n g.
Proof. exact mask_survives_rect. Qed.
Theorem C05_path_after_rect_keeps_bounds : forall surf g m, rect_of surf (CPath m :: g) = rect_of surf g.
Proof. exact rect_survives_path. Qed.
(* the combined coverage is the rounded product of the factors, per pixel *)
Theorem C05_mask_is_product : forall n m prev i, 0 <= i < Z.of_nat n -> (n <= length m)%nat -> (n <= length prev)%nat ->
  zn (combine_masks n m prev) i = wrapu8 (muldiv255 (zn m i) (zn prev i)).
Proof. exact zn_combine. Qed.
Print Assumptions C05_mask_is_product.

(* non-vacuity: rectangle, path-less nesting on a 4x4 target *)
Example C05_example :
  clip_bounds (push_clip_rect (push_clip_rect (dt_new 4 4 (repeat 0 16)) (mkrect 1 0 9 3)) (mkrect (-2) 1 3 7)) = mkrect 1 1 3 3.
Proof. vm_compute. reflexivity. Qed.

(* ---- "for rectangular clips the result inside the clip equals the unclipped drawing exactly" (ClipRestrict.v) ---- *)
Require Import RQ.PremulDraw RQ.TotalProofs RQ.IdleProofs RQ.RasterGlue RQ.ClipRestrict.

(* (5) one composite: with rectangle clips only (no clip mask in force), any layer stack closed, any transform, mask, blend
   mode and alpha: inside the clip bounds the clipped call writes exactly what the unclipped call writes, outside it
   leaves the pixel alone *)
Theorem C05_rect_clip_restricts_composite : forall st src mask mr rect0 blend alpha s1 s0,
  d_probe st = 0 -> d_layers st = [] -> top_clip_mask st = None ->
  composite (unclip st) src mask mr rect0 blend alpha = Ok s0 ->
  composite st src mask mr rect0 blend alpha = Ok s1 ->
  forall X Y, 0 <= X < d_w st -> 0 <= Y < d_h st ->
    (r_in (clip_bounds st) X Y = true -> zn (d_buf s1) (Y * d_w st + X) = zn (d_buf s0) (Y * d_w st + X)) /\
    (r_in (clip_bounds st) X Y = false -> zn (d_buf s1) (Y * d_w st + X) = zn (d_buf st) (Y * d_w st + X)).
Proof. exact composite_rect_clip. Qed.
Print Assumptions C05_rect_clip_restricts_composite.

(* (6) every drawing operation (fill, stroke, mask, fill_rect, clear, draw_image_at, draw_image_with_size_at): on the
   current destination (surface or innermost layer) the clipped call equals the unclipped call inside the clip bounds
   and changes nothing outside.  fill_rect / draw_image* / clear take DIFFERENT routes with and without a clip (integer
   fast route vs path fill); for those op_clip_side carries the hypotheses of the route-agreement theorems of C14. *)
Theorem C05_rect_clip_restricts_drawing : forall st o s1 s0,
  d_probe st = 0 -> top_clip_mask st = None -> op_clip_side st o ->
  step_op st o = Ok s1 -> step_op (unclip st) o = Ok s0 -> restricts st s1 s0.
Proof. exact rect_clip_restricts. Qed.
Print Assumptions C05_rect_clip_restricts_drawing.

(* (7) total form: on a well-formed target with an idle rasteriser, for a separable blend mode, both calls return and
   the clipped result is the restriction of the unclipped one *)
Theorem C05_rect_clip_restricts_total : forall st o,
  dt_wf st -> raster_ok st -> top_clip_mask st = None -> drawing_op o = true ->
  op_in_range st o -> op_no_wrap st o -> op_separable st o -> op_clip_geom st o ->
  exists s1 s0, step_op st o = Ok s1 /\ step_op (unclip st) o = Ok s0 /\ dt_wf s1 /\ dt_wf s0 /\ restricts st s1 s0.
Proof. exact rect_clip_restricts_total. Qed.
Print Assumptions C05_rect_clip_restricts_total.
