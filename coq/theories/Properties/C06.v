(* C06 - A layer is an isolated group composited once with its opacity and blend mode. *)
Require Import RQ.Base RQ.F32 RQ.Rect RQ.Pixel RQ.Raster RQ.PathF RQ.Shader RQ.Surface RQ.Target RQ.TargetProofs RQ.OpsProofs RQ.ClipProofs RQ.LayerProofs.

(* (1) push_layer opens an initially transparent buffer that covers exactly the clip bounds in force; the surface, the
   outer layers, the clip stack and the transform are unchanged *)
Theorem C06_push_layer : forall st opacity blend,
  let st' := push_layer st opacity blend in
  exists l, d_layers st' = l :: d_layers st /\ l_rect l = clip_bounds st /\ l_opacity l = opacity /\ l_blend l = blend /\
    Forall (fun p => p = 0) (l_buf l) /\
    zlen (l_buf l) = Z.max (r_w (clip_bounds st)) 0 * Z.max (r_h (clip_bounds st)) 0 /\
    d_buf st' = d_buf st /\ d_clips st' = d_clips st /\ d_ctm st' = d_ctm st /\ d_w st' = d_w st /\ d_h st' = d_h st.
Proof. exact push_layer_spec. Qed.
Print Assumptions C06_push_layer.

(* (2) while a layer is open every drawing call (clear included) changes only the innermost layer's buffer: the surface
   and all outer layers, the clip stack, the transform are untouched (same_frame), and the change is nothing, the
   unclipped clear, or one composite whose destination is that layer *)
Theorem C06_drawing_targets_innermost_layer : forall st o st',
  d_probe st = 0 -> drawing_op o = true -> step_op st o = Ok st' -> same_frame st st' /\ effect st st'.
Proof. exact (fun st o st' Hp Hd H => conj (effect_same_frame st st' Hp (drawing_op_effect st o st' Hd H)) (drawing_op_effect st o st' Hd H)). Qed.
Print Assumptions C06_drawing_targets_innermost_layer.

(* (3) pop_layer composites the layer ONCE onto what lies below it: the layer's pixels, placed at the layer's origin,
   through a constant coverage equal to the opacity byte, with the layer's blend mode, restricted to the layer's
   rectangle and (inside composite) to the clip current at pop time; under the identity, the transform restored.
   With C03_composite_pixel_formula this gives every pixel's value after the pop. *)
Theorem C06_pop_is_one_composite : forall st st', pop_layer st = Ok st' ->
  exists l rest st2, (d_layers st = l :: rest) /\
    (composite (with_ctm (with_layers st rest) xf_identity)
              (Image (mk_image (r_w (l_rect l)) (r_h (l_rect l)) (l_buf l)) ExtPad Nearest
                     (xf_translation (of_int (- x0 (l_rect l))) (of_int (- y0 (l_rect l)))))
              (Some (repeat (unit_to_u8 (l_opacity l)) (Z.to_nat (d_w st * d_h st)))) (surface_rect st) (l_rect l) (l_blend l) f1 = Ok st2) /\
    (st' = with_ctm st2 (d_ctm st)).
Proof. exact pop_layer_is_one_composite. Qed.
Print Assumptions C06_pop_is_one_composite.

(* (4) push/pop leave the transform and the clip stack as they found them; the layers below the popped one and the
   surface under them are untouched *)
Theorem C06_pop_preserves : forall st st', d_probe st = 0 -> pop_layer st = Ok st' ->
  d_ctm st' = d_ctm st /\ d_clips st' = d_clips st /\ d_w st' = d_w st /\ d_h st' = d_h st /\
  d_layers st' = match tl (d_layers st) with [] => [] | _ => d_layers st' end /\
  tl (d_layers st') = tl (tl (d_layers st)) /\ (tl (d_layers st) <> [] -> d_buf st' = d_buf st).
Proof. exact pop_restores_transform_and_clips. Qed.
Print Assumptions C06_pop_preserves.

(* (5) a layer pushed under an empty clip is empty and harmless: popping it only removes it *)
Theorem C06_empty_layer_harmless : forall st l rest, d_layers st = l :: rest -> r_empty (l_rect l) = true ->
  pop_layer st = Ok (with_ctm (with_ctm (with_layers st rest) xf_identity) (d_ctm st)).
Proof. exact empty_layer_is_harmless. Qed.
Print Assumptions C06_empty_layer_harmless.

(* non-vacuity: two overlapping opaque squares in a half-opacity layer share one opacity *)
Example C06_example :
  let white := Solid 4294967295 in
  let o := mk_opts SrcOver f1 true in
  match run_ops (dt_new 3 1 [0; 0; 0])
          [OpPushLayer fhalf SrcOver; OpFillRect f0 f0 (of_int 2) f1 white o; OpFillRect f1 f0 (of_int 2) f1 white o; OpPopLayer] with
  | Ok st => d_buf st = [2155905152; 2155905152; 2155905152]
  | Err _ => False
  end.
Proof. vm_compute. reflexivity. Qed.
