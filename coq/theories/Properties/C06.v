(* C06 - placeholder until the theorems are in place. *)
Require Import RQ.Base RQ.Target.
Theorem C06_placeholder : True. Proof. exact I. Qed.
Print Assumptions C06_placeholder.
