(* C07 - No panic, abort or hang for any in-range input or call sequence.
   In the model a panic is an `Err` result.  The theorems below cover the parts of the crate whose index and division
   arithmetic the statement's anchors name; each is total (returns Ok) on its whole domain.  The property as a whole
   (every operation of every sequence returns Ok) is not yet one theorem, hence the suffix _partial; what is not
   covered here (curve edges in `rasterize`, the f32 path utilities, the glue of every DrawTarget operation) is decided
   by the correspondence on the degenerate stream, where the model must answer Ok and the crate must return. *)
Require Import RQ.Base RQ.F32 RQ.Rect RQ.Pixel RQ.PixelProofs RQ.Surface RQ.SurfaceProofs RQ.Raster RQ.RasterProofs RQ.RasterIdle
               RQ.PathF RQ.Shader RQ.Target RQ.ClipProofs RQ.LayerProofs RQ.IdleProofs.

(* (1) edge bucket indexing and slope divisions (src/rasterizer.rs:337-345, 366-431): whatever edge is added (line or
   curve, any coordinates), every edge that is filed sits in a bucket row inside both the recorded bounds and the
   bucket array, and carries no division by zero *)
Theorem C07_edges_filed_in_range_partial : forall r swap sx sy ex ey curve cx cy,
  0 < r_h4 r -> rinv r ->
  rinv (add_edge r swap sx sy ex ey curve cx cy) /\
  r_h4 (add_edge r swap sx sy ex ey curve cx cy) = r_h4 r /\ r_w4 (add_edge r swap sx sy ex ey curve cx cy) = r_w4 r /\
  r_active (add_edge r swap sx sy ex ey curve cx cy) = r_active r.
Proof. exact add_edge_rinv. Qed.
Print Assumptions C07_edges_filed_in_range_partial.

(* (2) ActiveEdge::step (src/rasterizer.rs:173-205) never divides by zero *)
Theorem C07_step_never_divides_by_zero_partial : forall e cury, cinv e -> e_err e = false ->
  e_err (step e cury) = false /\ cinv (step e cury) /\
  e_y2 (step e cury) = e_y2 e /\ e_shift (step e cury) = e_shift e /\ e_wind (step e cury) = e_wind e.
Proof. exact step_no_err. Qed.
Print Assumptions C07_step_never_divides_by_zero_partial.

(* (3) the mask buffers with their one-byte overrun allowance (src/blitter.rs:35-44, 57-84): for straight edges, any
   surface size, any position, `rasterize` returns Ok with both blitters: no index outside the mask, no u8 overflow *)
Theorem C07_rasterize_lines_total_partial : forall rule W H gs, 0 <= H ->
  let r := add_segs (rast_new W H) gs in let b := get_bounds r in
  0 <= r_w b -> 0 <= r_h b ->
  (exists rm, rasterize blit_super rule r (maskbuf_new (x0 b) (y0 b) (r_w b) (r_h b)) = Ok rm) /\
  (exists rm, rasterize blit_mask rule r (maskbuf_new (x0 b) (y0 b) (r_w b) (r_h b)) = Ok rm).
Proof.
  intros rule W H gs HH r b Hw Hh. split.
  - destruct (rasterize_lines_coverage rule W H gs HH Hw Hh) as (r' & buf' & E & _). eexists. exact E.
  - destruct (rasterize_lines_coverage_aliased rule W H gs HH Hw Hh) as (r' & buf' & E & _). eexists. exact E.
Qed.
Print Assumptions C07_rasterize_lines_total_partial.

(* (4) no state survives a call: after every operation that returns the rasteriser is idle again, so no later call can
   index a stale bucket or step a stale edge *)
Theorem C07_rasteriser_idle_after_every_call_partial : forall st o st', raster_ok st -> step_op st o = Ok st' -> raster_ok st'.
Proof. exact step_op_idle. Qed.
Print Assumptions C07_rasteriser_idle_after_every_call_partial.

(* (5) copy_surface / blend_surface / blend_surface_with_alpha (src/draw_target.rs:1002-1026): source rectangles and
   destinations anywhere (any integers: inside, far outside either surface, at the ends of the i32 range) never index out
   of bounds nor overflow *)
Theorem C07_surface_ops_total_partial :
  forall (gr : Z -> Z -> result Z) (g : Z -> Z -> Z), (forall s d, gr s d = Ok (g s d)) ->
  forall dw dh dbuf sw sh sbuf sr dx dy,
    dom_ok dw dh sw sh sr dx dy -> zlen dbuf = dw * dh -> zlen sbuf = sw * sh ->
    exists buf', composite_surface gr dw dh dbuf sw sh sbuf sr dx dy = Ok buf' /\ zlen buf' = zlen dbuf.
Proof.
  intros gr g Hg dw dh dbuf sw sh sbuf sr dx dy D L1 L2.
  destruct (composite_surface_block_transfer gr g Hg dw dh dbuf sw sh sbuf sr dx dy D L1 L2) as (b & E & L & _).
  exists b. split; assumption.
Qed.
Print Assumptions C07_surface_ops_total_partial.

(* (6) the pixel arithmetic: 24 of the 28 blend modes are total on premultiplied input ... *)
Theorem C07_separable_blends_total_partial : forall m s d, In m separable_modes ->
  wf_px s -> wf_px d -> premul s = true -> premul d = true ->
  exists v, blend m s d = Ok v /\ wf_px v /\ premul v = true.
Proof. exact premul_blend_separable. Qed.
Print Assumptions C07_separable_blends_total_partial.

(* (7) ... and the other four are NOT: the dependency's Hue / Saturation / Color / Luminosity overflow a u32 or trip
   pack_argb32's debug assertion on premultiplied input (open known findings nonsep-lum-overflow, color-assert) *)
Theorem C07_nonseparable_blends_refuted :
  blend Color 0xcece3fce 0x0d0d0d0d = Err DebugAssert /\
  blend Hue 0x877c2f6e 0x06010000 = Err PixelOverflow /\
  blend Saturation 0x8f675429 0x01000001 = Err PixelOverflow /\
  blend Luminosity 0x01010000 0xed9457ea = Err PixelOverflow.
Proof.
  exact (conj (proj2 (proj2 premul_blend_Color_refuted)) (conj (proj2 (proj2 premul_blend_Hue_refuted))
        (conj (proj2 (proj2 premul_blend_Saturation_refuted)) (proj2 (proj2 premul_blend_Luminosity_refuted))))).
Qed.
Print Assumptions C07_nonseparable_blends_refuted.

(* ---- the compositor and every DrawTarget operation (TotalProofs.v) ---- *)
Require Import RQ.PremulDraw RQ.TotalProofs.

(* (8) the only errors the pixel functions can raise at all are the two dependency errors of (7) *)
Theorem C07_blend_error_class : forall m s d e, blend m s d = Err e -> e = PixelOverflow \/ e = DebugAssert.
Proof. exact blend_err_class. Qed.
Print Assumptions C07_blend_error_class.

(* (9) composite - the one routine through which every drawing call writes pixels (span blitters, clip mask rows,
   coverage mask rows, layer-relative destination rows): on a well-formed target, with a premultiplied source and a
   coverage mask that covers its own rectangle, it returns for ANY rectangle (inside, outside, inverted), transform
   (singular, NaN), alpha and separable blend mode, and the target stays well formed *)
Theorem C07_composite_total : forall st src mask mr rect0 blend alpha,
  dt_wf st -> source_ok src -> mask_ok mask -> mask_fits mask mr -> In blend separable_modes ->
  exists st', composite st src mask mr rect0 blend alpha = Ok st' /\ dt_wf st'.
Proof. exact composite_total_separable. Qed.
Print Assumptions C07_composite_total.

(* (10) every one of the 15 operations, inside its documented preconditions (op_in_range: premultiplied sources, data
   lengths matching sizes, pops matching pushes - no condition at all on positions, rectangles, offsets or any other
   number: every i32 / f32 value is allowed), returns Ok and keeps the target well formed, or raises one of the two dependency errors - PROVIDED the
   rasteriser run it makes (if any) returns (op_raster_ok; discharged for straight edges by (3)).  This is the _partial
   part: rasterize for curve edges is not yet proved total. *)
Theorem C07_every_operation_total_partial : forall st o, dt_wf st -> op_in_range st o -> op_raster_ok st o ->
  (exists st', step_op st o = Ok st' /\ dt_wf st') \/ step_op st o = Err PixelOverflow \/ step_op st o = Err DebugAssert.
Proof. exact step_op_total_any_mode. Qed.
Print Assumptions C07_every_operation_total_partial.

(* (11) operations that never reach the rasteriser (set_transform, push_clip_rect, pop_clip, push_layer, pop_layer,
   clear without clip, mask, fill_rect / draw_image on the integer fast route, copy_surface, blend_surface and blend_surface_with_alpha) with a
   separable blend mode: unconditional *)
Theorem C07_non_rasterising_operations_total : forall st o,
  dt_wf st -> op_in_range st o -> op_no_raster st o = true -> op_separable st o ->
  exists st', step_op st o = Ok st' /\ dt_wf st'.
Proof. exact step_op_total_no_raster. Qed.
Print Assumptions C07_non_rasterising_operations_total.

(* (12) whole programs from a fresh target *)
Theorem C07_programs_total_partial : forall strict w h buf ops,
  0 <= w <= i32_max -> 0 <= h <= i32_max -> w * h <= i32_max -> zlen buf = w * h -> Forall px_ok buf ->
  run_ok strict (dt_new w h buf) ops ->
  match run_ops (dt_new w h buf) ops with
  | Ok st' => dt_wf st' /\ all_premul st' /\ exists g, clip_inv st' g
  | Err e => strict = false /\ (e = PixelOverflow \/ e = DebugAssert)
  end.
Proof. exact run_ops_total_fresh. Qed.
Print Assumptions C07_programs_total_partial.

(* (13) image sources: under the documented precondition (non-empty, data length = width * height) every texel fetch
   of both extend modes is an in-range read *)
Theorem C07_image_fetch_in_range : forall im x y, image_wf im ->
  (exists x' y', pad_fetch im x y = img_at im x' y' /\ in_img im x' y') /\
  (exists x' y', repeat_fetch im x y = img_at im x' y' /\ in_img im x' y').
Proof. intros im x y H. split; [exact (pad_fetch_in_range im x y H)|exact (repeat_fetch_in_range im x y H)]. Qed.
Print Assumptions C07_image_fetch_in_range.

(* ---- the rasteriser with curve edges (RasterTotal.v) ---- *)
Require Import RQ.RasterTotal.

(* (14) Rasterizer::rasterize is total for ANY list of add_edge calls on a fresh rasteriser - straight and curve edges,
   arbitrary integer coordinates, monotone or not - provided no slope quotient computed by ActiveEdge::step wraps the
   i32 range (no_slope_wrap; decidable: no_slope_wrapb; no wrap was found for coordinates within +-4000 px, and a wrap
   needs a curve tens of thousands of pixels wide, see RasterTotal.NOTES.md).  No division by zero, no index outside
   the coverage buffer, no u8 overflow; both blitters.  _partial because of that hypothesis. *)
Theorem C07_rasterize_total_partial : forall rule W H es,
  0 <= W -> 0 <= H -> (forall a, In a es -> no_slope_wrap a) ->
  let r := fold_left add_any es (rast_new W H) in
  let b := get_bounds r in
  0 <= r_w b -> 0 <= r_h b ->
  (exists r' m', rasterize blit_super rule r (maskbuf_new (x0 b) (y0 b) (r_w b) (r_h b)) = Ok (r', m') /\
     length (m_buf m') = Z.to_nat (r_w b * r_h b + 1) /\ bytes_ok (m_buf m')) /\
  (exists r' m', rasterize blit_mask rule r (maskbuf_new (x0 b) (y0 b) (r_w b) (r_h b)) = Ok (r', m') /\
     length (m_buf m') = Z.to_nat (r_w b * r_h b + 1) /\ bytes_ok (m_buf m')).
Proof.
  intros rule W H es HW HH Ha r b Hw Hh. split.
  - exact (rasterize_total rule W H es HW HH Ha Hw Hh).
  - exact (rasterize_total_aliased rule W H es HW HH Ha Hw Hh).
Qed.
Print Assumptions C07_rasterize_total_partial.

(* (15) the statement (14) was FALSE for the crate as pinned: with the step of the original code the curve
   (6.75,0) (1,0.5) (1,0.75) on an 8x4 surface makes the antialiasing blitter index the coverage buffer at -1.
   The proof attempt produced this witness; the crate panicked on it; repaired by fix commits 3346b5e and 47902b1. *)
Theorem C07_rasterize_legacy_refuted :
  let r := fold_left add_any witness_aa (rast_new 8 4) in
  let b := get_bounds r in
  b = mkrect 1 0 8 1 /\
  rasterize_legacy blit_super NonZero r (maskbuf_new (x0 b) (y0 b) (r_w b) (r_h b)) = Err OutOfBounds /\
  is_ok (rasterize blit_super NonZero r (maskbuf_new (x0 b) (y0 b) (r_w b) (r_h b))) = true.
Proof. exact rasterize_legacy_refuted. Qed.
Print Assumptions C07_rasterize_legacy_refuted.

(* ---- everything together (RasterGlue.v) ---- *)
Require Import RQ.RasterGlue.

(* (16) EVERY OPERATION RETURNS.  On a well-formed target whose rasteriser is idle, every one of the 15 operations,
   inside its documented preconditions (op_in_range: premultiplied sources, data lengths matching sizes, pops matching
   pushes - no condition on any coordinate, size, rectangle, offset, transform, alpha, opacity or blend mode), returns Ok
   and leaves a well-formed target with an idle rasteriser - or raises one of the two dependency errors of the four
   non-separable blend modes.  The single remaining hypothesis is op_no_wrap: for the curve edges of a filled or
   stroked path no slope quotient of ActiveEdge::step wraps the i32 range (computable; True for every other operation,
   clip paths included: the clip rasteriser writes into a full-surface buffer and cannot leave it).  What the model
   takes as data (the stroked outline of OpStroke, lyon's quadratics of a cubic) is produced by code this theorem does
   not cover; those routines are compared with their f32 models and run under a watchdog.  Hence _partial. *)
Theorem C07_every_operation_returns_partial : forall st o,
  dt_wf st -> raster_ok st -> op_in_range st o -> op_no_wrap st o ->
  (exists st', step_op st o = Ok st' /\ dt_wf st' /\ raster_ok st') \/
  step_op st o = Err PixelOverflow \/ step_op st o = Err DebugAssert.
Proof. exact step_op_total. Qed.
Print Assumptions C07_every_operation_returns_partial.

(* (17) with a separable blend mode (24 of 28), or none: it returns, full stop *)
Theorem C07_every_operation_returns_separable_partial : forall st o,
  dt_wf st -> raster_ok st -> op_in_range st o -> op_no_wrap st o -> op_separable st o ->
  exists st', step_op st o = Ok st' /\ dt_wf st' /\ raster_ok st'.
Proof. exact step_op_total_separable. Qed.
Print Assumptions C07_every_operation_returns_separable_partial.

(* (18) every call sequence from a fresh target *)
Theorem C07_every_call_sequence_returns_partial : forall strict w h buf ops,
  0 <= w <= i32_max -> 0 <= h <= i32_max -> w * h <= i32_max -> zlen buf = w * h -> Forall px_ok buf ->
  run_ok_nw strict (dt_new w h buf) ops ->
  match run_ops (dt_new w h buf) ops with
  | Ok st' => dt_wf st' /\ raster_ok st' /\ all_premul st' /\ exists g, clip_inv st' g
  | Err e => strict = false /\ (e = PixelOverflow \/ e = DebugAssert)
  end.
Proof. exact run_ops_total. Qed.
Print Assumptions C07_every_call_sequence_returns_partial.

(* ---- the remaining hypothesis discharged inside the working range (NoWrap.v) ---- *)
Require Import RQ.CurveMetric RQ.NoWrap.

(* (19) for a y-monotone curve edge (what add_quad produces) whose x coordinates lie within +-4000 px (16000 quarter
   pixels) no slope quotient of ActiveEdge::step wraps - whatever the y coordinates are *)
Theorem C07_no_slope_wrap_in_range : forall x1 y1 x2 y2 cx cy w, y1 < y2 -> y1 <= cy <= y2 ->
  Z.abs x1 <= 16000 -> Z.abs x2 <= 16000 -> Z.abs cx <= 16000 ->
  Z.abs y1 <= 16000 -> Z.abs y2 <= 16000 -> Z.abs cy <= 16000 ->
  curve_no_slope_wrap x1 y1 x2 y2 cx cy w.
Proof. exact curve_no_slope_wrap_in_range. Qed.
Print Assumptions C07_no_slope_wrap_in_range.

(* (20) hence Rasterizer::rasterize is total, without any hypothesis about wrapping, for every list of add_edge calls
   whose curve edges are y-monotone with x coordinates within +-4000 px (straight edges: any integers) *)
Theorem C07_rasterize_total_in_range : forall rule W H es,
  0 <= W -> 0 <= H -> (forall a, In a es -> arg_mono_in_range a) ->
  let r := fold_left add_any es (rast_new W H) in
  let b := get_bounds r in
  0 <= r_w b -> 0 <= r_h b ->
  (exists r' m', rasterize blit_super rule r (maskbuf_new (x0 b) (y0 b) (r_w b) (r_h b)) = Ok (r', m') /\
     length (m_buf m') = Z.to_nat (r_w b * r_h b + 1) /\ bytes_ok (m_buf m')) /\
  (exists r' m', rasterize blit_mask rule r (maskbuf_new (x0 b) (y0 b) (r_w b) (r_h b)) = Ok (r', m') /\
     length (m_buf m') = Z.to_nat (r_w b * r_h b + 1) /\ bytes_ok (m_buf m')).
Proof. exact rasterize_total_in_range. Qed.
Print Assumptions C07_rasterize_total_in_range.

(* ---- and the path-level hypothesis too (PathRange.v) ---- *)
Require Import RQ.UserSpace RQ.PathRange.

(* (21) EVERY OPERATION RETURNS, stated with geometry only.  op_geom_in_range: for a filled or stroked path every point the
   path builder uses is, after the current transform, a finite float with |x| <= 3998 px (nothing about y beyond
   finiteness; True for the other operations).  From it: every curve edge add_quad produces - unchopped, chopped at its
   extremum, or with the forced control point - is y-monotone with x within +-4000 px (Flocq), so by (19) no slope
   wraps, so by (16) the operation returns.  No hypothesis about the rasteriser or about arithmetic is left. *)
Theorem C07_every_operation_returns_in_range_partial : forall st o,
  dt_wf st -> raster_ok st -> op_in_range st o -> op_geom_in_range st o ->
  (exists st', step_op st o = Ok st' /\ dt_wf st' /\ raster_ok st') \/
  step_op st o = Err PixelOverflow \/ step_op st o = Err DebugAssert.
Proof. exact step_op_total_in_range. Qed.
Print Assumptions C07_every_operation_returns_in_range_partial.

(* (22) every call sequence from a fresh target, likewise *)
Theorem C07_every_call_sequence_returns_in_range_partial : forall strict w h buf ops,
  0 <= w <= i32_max -> 0 <= h <= i32_max -> w * h <= i32_max -> zlen buf = w * h -> Forall px_ok buf ->
  run_ok_geom strict (dt_new w h buf) ops ->
  match run_ops (dt_new w h buf) ops with
  | Ok st' => dt_wf st' /\ raster_ok st' /\ all_premul st' /\ exists g, clip_inv st' g
  | Err e => strict = false /\ (e = PixelOverflow \/ e = DebugAssert)
  end.
Proof. exact run_ops_total_in_range. Qed.
Print Assumptions C07_every_call_sequence_returns_in_range_partial.
