(* C07 - placeholder until the theorems are in place. *)
Require Import RQ.Base.
Theorem C07_placeholder : True. Proof. exact I. Qed.
Print Assumptions C07_placeholder.
