(* C08 - Curved paths fill their true interior (quads, cubics, arcs, any transform).
   The metric statement (more than one pixel inside / outside the exact shape) is real-number geometry about code that
   works in f32 and 16.16 fixed point; it is decided by the correspondence (curve edges are modelled exactly) plus an
   f64 oracle on the crate's output.  Proved here are the structural claims of the statement and the facts about the
   curve-edge machinery that the anchors name; hence _partial. *)
Require Import RQ.Base RQ.F32 RQ.Rect RQ.Raster RQ.RasterIdle RQ.PathF.

(* (1) "a drawing command issued after close continues from the subpath's starting point" *)
Theorem C08_after_close_continues_from_start : forall c, cur (c_close c) = first c /\ first (c_close c) = first c.
Proof. intros c. split; reflexivity. Qed.
Print Assumptions C08_after_close_continues_from_start.

(* (2) "subpaths are implicitly closed for filling": every MoveTo and the end of the path close the open subpath
   (that is how apply_path is defined), and closing twice adds nothing: an explicit Close before them changes no edge *)
Theorem C08_close_is_idempotent_partial : forall c, rz (c_close (c_close c)) = rz (c_close c).
Proof.
  assert (Hsame : forall r p, raster_add r p p false pzero = r).
  { intros r p. unfold raster_add, add_edge.
    destruct (flt (py p) (py p)); cbv beta iota zeta;
    match goal with |- context [(?a <? 0) || (?h <=? ?b)] => destruct ((a <? 0) || (h <=? b)); [reflexivity|] end;
    rewrite Z.leb_refl; reflexivity. }
  intros [cu fi r0]. unfold c_close. cbn [first cur rz]. destruct fi as [fp|]; [|reflexivity]. apply Hsame.
Qed.
Print Assumptions C08_close_is_idempotent_partial.

(* (3) curve edge set-up (src/rasterizer.rs:249-282, 356-406): the forward-differencing loop consumes at most the
   segment count, stops at the first segment that ends below the current row (or at the last), and keeps the edge's end
   point, shift and winding *)
Theorem C08_curve_advance_partial : forall fuel cury e,
  0 <= e_count e -> (Z.to_nat (e_count e) <= fuel)%nat ->
  let e' := curve_advance fuel cury e in
  0 <= e_count e' <= e_count e /\ (e_count e' = 0 \/ cury < dot16_to_dot2 (e_nexty e')) /\
  e_x2 e' = e_x2 e /\ e_y2 e' = e_y2 e /\ e_shift e' = e_shift e /\ e_err e' = e_err e /\ e_oldy e' = e_oldy e /\ e_wind e' = e_wind e.
Proof. exact curve_advance_spec. Qed.
Print Assumptions C08_curve_advance_partial.

(* (4) curve stepping per sample row (ActiveEdge::step): never a zero denominator, the edge keeps its end row, shift
   and winding, the segment counter stays in range *)
Theorem C08_curve_step_partial : forall e cury, cinv e -> e_err e = false ->
  e_err (step e cury) = false /\ cinv (step e cury) /\
  e_y2 (step e cury) = e_y2 e /\ e_shift (step e cury) = e_shift e /\ e_wind (step e cury) = e_wind e.
Proof. exact step_no_err. Qed.
Print Assumptions C08_curve_step_partial.

(* (5) curve edges that start above the surface are brought to row 0 without error and keep their end row *)
Theorem C08_curve_edges_above_the_surface_partial : forall fuel e cury, cinv e -> e_err e = false -> cury <= 0 ->
  e_err (fst (prestep_fast fuel e cury)) = false /\ snd (prestep_fast fuel e cury) = 0 /\
  e_y2 (fst (prestep_fast fuel e cury)) = e_y2 e.
Proof. exact prestep_fast_spec. Qed.
Print Assumptions C08_curve_edges_above_the_surface_partial.

(* ---- the curve-edge machinery (RasterTotal.v) ---- *)
From Coq Require Import Permutation.
Require Import RQ.RasterProofs RQ.RasterTotal.

(* (6) the forward differencing follows the quadratic: with n = 2^s segments the k-th point P_k of the polyline never
   lies above the exact Bezier point B(k/n) and at most 2k+1 <= 129 units of 2^-16 pixel below it
   (bez_num = n^2 B(k/n); applies to the x and to the y coordinate alike) *)
Theorem C08_curve_points_follow_the_bezier_partial : forall p1 p2 c s k, 1 <= s ->
  let n := 2 ^ s in let K := Z.of_nat k in
  0 <= 16384 * bez_num p1 c p2 n K - n * n * fd_point p1 p2 c s k <= n * n * K + n * K * (K + 1).
Proof. exact curve_point_error. Qed.
Print Assumptions C08_curve_points_follow_the_bezier_partial.

(* (7) hence every vertex of the polyline lies in the hull of the control values (up to that rounding) *)
Theorem C08_curve_points_in_hull_partial : forall p1 p2 c s k lo hi, 1 <= s -> Z.of_nat k <= 2 ^ s ->
  lo <= p1 <= hi -> lo <= c <= hi -> lo <= p2 <= hi ->
  lo * 16384 - (2 * Z.of_nat k + 1) <= fd_point p1 p2 c s k <= hi * 16384.
Proof. exact fd_point_hull. Qed.
Print Assumptions C08_curve_points_in_hull_partial.

(* (8) row coverage of a curve edge: for y-monotone control points the polyline's y never decreases; the edge is filed
   under row max(y1,0), ends at y2, is scanned exactly once on each sample row of [max(y1,0), y2) and on no other; and
   (if no slope quotient wraps) on each of those rows the current segment reaches the row and the rounded crossing
   lies inside the pixel-aligned hull of the control points - the edge never leaves the path's bounds *)
Theorem C08_curve_edge_rows_partial : forall x1 y1 x2 y2 cx cy w, y1 < y2 ->
  let s := curve_shift x1 y1 x2 y2 cx cy in
  let p := curve_entry x1 y1 x2 y2 cx cy w in
  (y1 <= cy <= y2 -> forall k, Z.of_nat k < 2 ^ s -> fd_point y1 y2 cy s k <= fd_point y1 y2 cy s (S k)) /\
  (fst p = Z.max y1 0 /\ e_y2 (snd p) = y2 /\ egood (snd p)) /\
  (forall y0 starts n, starts_wf starts -> y0 <= Z.max y1 0 ->
     let y := y0 + Z.of_nat n in
     let f := fun q : Z * aedge => (y0 <=? fst q) && (fst q <=? y) && (y <? e_y2 (snd q)) in
     Permutation (scanned starts y (act_list starts n y0 [])) (map (edge_at_gen y) (filter f starts)) /\
     f p = (Z.max y1 0 <=? y) && (y <? y2)) /\
  (curve_no_slope_wrap x1 y1 x2 y2 cx cy w -> forall y, Z.max y1 0 <= y < y2 ->
     y <= dot16_to_dot2 (e_nexty (edge_at_gen y p)) /\
     4 * (Z.min (Z.min x1 x2) cx / 4) <= rnd (e_fullx (edge_at_gen y p)) <= 4 * ((Z.max (Z.max x1 x2) cx + 3) / 4)).
Proof. exact curve_edge_rows. Qed.
Print Assumptions C08_curve_edge_rows_partial.

(* ---- how far the rasterised polyline is from the exact curve (CurveMetric.v) ---- *)
Require Import RQ.CurveMetric.

(* (9) between two vertices the chord differs from the exact quadratic by exactly (p1-2c+p2) j(n'-j)/(n n')^2,
   at most |p1-2c+p2|/(4 n^2) (denominator-free) *)
Theorem C08_chord_curve_gap_partial : forall p1 c p2 n n' k j, 0 <= j <= n' ->
  4 * Z.abs (n' * ((n' - j) * bez_num p1 c p2 n k + j * bez_num p1 c p2 n (k + 1)) - bez_num p1 c p2 (n * n') (k * n' + j))
  <= Z.abs (bez_dev p1 c p2) * (n' * n').
Proof. exact chord_curve_gap_bound. Qed.
Print Assumptions C08_chord_curve_gap_partial.

(* (10) the subdivision count chosen by the code is enough: with D the larger coordinate of the deviation vector (dot2),
   D + 2 <= 4 * 4^s, i.e. the chord-to-curve gap is below a quarter pixel, unless the count is clamped at 64 segments,
   which needs a deviation of at least 10922 dot2 = 2730 px *)
Theorem C08_subdivision_is_enough_partial : forall x1 y1 x2 y2 cx cy,
  let s := curve_shift x1 y1 x2 y2 cx cy in
  let n := 2 ^ s in
  let D := curve_dev x1 y1 x2 y2 cx cy in
  D + 2 <= 4 * (n * n) \/ (s = 6 /\ 10922 <= D).
Proof. exact shift_is_enough. Qed.
Print Assumptions C08_subdivision_is_enough_partial.

(* (11) the polyline the rasteriser scans stays within ONE PIXEL of the exact curve, per coordinate, at every point of
   every segment, for all control points within +-4000 px (units of 2^-16 px: 64129 < 65536; 16513 = 0.25 px when the
   deviation is below 2730 px: polyline_close_to_curve_unclamped); t = (k n' + j)/(n n'), statement multiplied by (n n')^2 *)
Theorem C08_polyline_within_a_pixel_of_the_curve_partial : forall x1 y1 x2 y2 cx cy k n' j,
  let s := curve_shift x1 y1 x2 y2 cx cy in
  let n := 2 ^ s in let N := n * n' in
  Z.abs x1 <= 16000 -> Z.abs x2 <= 16000 -> Z.abs cx <= 16000 ->
  Z.abs y1 <= 16000 -> Z.abs y2 <= 16000 -> Z.abs cy <= 16000 ->
  0 <= k < n -> 0 < n' -> 0 <= j <= n' ->
  (- (N * N * 64000) <= 16384 * bez_num x1 cx x2 N (k * n' + j) - n * n * n' * poly_num x1 x2 cx s k n' j <= N * N * 64129) /\
  (- (N * N * 64000) <= 16384 * bez_num y1 cy y2 N (k * n' + j) - n * n * n' * poly_num y1 y2 cy s k n' j <= N * N * 64129).
Proof. exact polyline_close_to_curve_in_range. Qed.
Print Assumptions C08_polyline_within_a_pixel_of_the_curve_partial.
