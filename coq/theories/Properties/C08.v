(* C08 - placeholder until the theorems are in place. *)
Require Import RQ.Base.
Theorem C08_placeholder : True. Proof. exact I. Qed.
Print Assumptions C08_placeholder.
