(* C08 - Curved paths fill their true interior (quads, cubics, arcs, any transform).
   The metric statement (more than one pixel inside / outside the exact shape) is real-number geometry about code that
   works in f32 and 16.16 fixed point; it is decided by the correspondence (curve edges are modelled exactly) plus an
   f64 oracle on the crate's output.  Proved here are the structural claims of the statement and the facts about the
   curve-edge machinery that the anchors name; hence _partial. *)
Require Import RQ.Base RQ.F32 RQ.Rect RQ.Raster RQ.RasterIdle RQ.PathF.

(* (1) "a drawing command issued after close continues from the subpath's starting point" *)
Theorem C08_after_close_continues_from_start : forall c, cur (c_close c) = first c /\ first (c_close c) = first c.
Proof. intros c. split; reflexivity. Qed.
Print Assumptions C08_after_close_continues_from_start.

(* (2) "subpaths are implicitly closed for filling": every MoveTo and the end of the path close the open subpath
   (that is how apply_path is defined), and closing twice adds nothing: an explicit Close before them changes no edge *)
Theorem C08_close_is_idempotent_partial : forall c, rz (c_close (c_close c)) = rz (c_close c).
Proof.
  assert (Hsame : forall r p, raster_add r p p false pzero = r).
  { intros r p. unfold raster_add, add_edge.
    destruct (flt (py p) (py p)); cbv beta iota zeta;
    match goal with |- context [(?a <? 0) || (?h <=? ?b)] => destruct ((a <? 0) || (h <=? b)); [reflexivity|] end;
    rewrite Z.leb_refl; reflexivity. }
  intros [cu fi r0]. unfold c_close. cbn [first cur rz]. destruct fi as [fp|]; [|reflexivity]. apply Hsame.
Qed.
Print Assumptions C08_close_is_idempotent_partial.

(* (3) curve edge set-up (src/rasterizer.rs:249-282, 356-406): the forward-differencing loop consumes at most the
   segment count, stops at the first segment that ends below the current row (or at the last), and keeps the edge's end
   point, shift and winding *)
Theorem C08_curve_advance_partial : forall fuel cury e,
  0 <= e_count e -> (Z.to_nat (e_count e) <= fuel)%nat ->
  let e' := curve_advance fuel cury e in
  0 <= e_count e' <= e_count e /\ (e_count e' = 0 \/ cury < dot16_to_dot2 (e_nexty e')) /\
  e_x2 e' = e_x2 e /\ e_y2 e' = e_y2 e /\ e_shift e' = e_shift e /\ e_err e' = e_err e /\ e_oldy e' = e_oldy e /\ e_wind e' = e_wind e.
Proof. exact curve_advance_spec. Qed.
Print Assumptions C08_curve_advance_partial.

(* (4) curve stepping per sample row (ActiveEdge::step): never a zero denominator, the edge keeps its end row, shift
   and winding, the segment counter stays in range *)
Theorem C08_curve_step_partial : forall e cury, cinv e -> e_err e = false ->
  e_err (step e cury) = false /\ cinv (step e cury) /\
  e_y2 (step e cury) = e_y2 e /\ e_shift (step e cury) = e_shift e /\ e_wind (step e cury) = e_wind e.
Proof. exact step_no_err. Qed.
Print Assumptions C08_curve_step_partial.

(* (5) curve edges that start above the surface are brought to row 0 without error and keep their end row *)
Theorem C08_curve_edges_above_the_surface_partial : forall fuel e cury, cinv e -> e_err e = false -> cury <= 0 ->
  e_err (fst (prestep_fast fuel e cury)) = false /\ snd (prestep_fast fuel e cury) = 0 /\
  e_y2 (fst (prestep_fast fuel e cury)) = e_y2 e.
Proof. exact prestep_fast_spec. Qed.
Print Assumptions C08_curve_edges_above_the_surface_partial.
