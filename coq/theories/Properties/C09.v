(* C09 - Dashes follow the dash pattern along arc length, restarted per subpath.
   PARTIAL: the f32 model is compared bit for bit with the crate and the arc-length statement is evaluated on the crate's
   output; proved here: a non-positive (or NaN) total paints nothing, the dash state restarts at every MoveTo.
   Further down (DashShape.v): parity of the dash index, whole-on / whole-off subpaths, output op kinds, the cuts of a segment. *)
Require Import RQ.Base RQ.F32 RQ.Raster RQ.PathF RQ.PathOps RQ.MiscProofs.

Theorem C09_nonpositive_total_paints_nothing_partial : forall arr p off,
  fgt (let t := fold_left fadd arr f0 in if Z.odd (zlen arr) then fmul t (of_int 2) else t) f0 = false ->
  dash_path arr p off = Ok (mk_path [] NonZero).
Proof. exact dash_nonpositive_total_paints_nothing. Qed.
Print Assumptions C09_nonpositive_total_paints_nothing_partial.
Theorem C09_restart_at_every_subpath_partial : forall arr initial a p,
  exists out, dash_op arr initial a (MoveTo p) = Ok (mk_da (Some p) (Some p) true true [] initial out).
Proof. exact dash_restarts_at_moveto. Qed.
Print Assumptions C09_restart_at_every_subpath_partial.

(* ---- "restarted per subpath", in full (DashProofs.v) ---- *)
Require Import RQ.DashProofs.

(* the dashes of a path are the dashes of its subpaths one after the other: whatever came before a MoveTo - any number of
   subpaths, closed or left open, in any dash state - the dashes emitted from that MoveTo on are exactly those of the
   rest of the path taken on its own, appended to exactly those of what came before taken on its own (same errors too) *)
Theorem C09_dashes_of_a_path_are_the_dashes_of_its_subpaths : forall arr ops1 p ops2 w w1 w2 off,
  dash_path arr (mk_path (ops1 ++ MoveTo p :: ops2) w) off =
  do r1 <- dash_path arr (mk_path ops1 w1) off;
  do r2 <- dash_path arr (mk_path (MoveTo p :: ops2) w2) off;
  Ok (mk_path (p_ops r1 ++ p_ops r2) NonZero).
Proof. exact dash_path_concat. Qed.
Print Assumptions C09_dashes_of_a_path_are_the_dashes_of_its_subpaths.

(* ---- structure of the dasher (DashShape.v) ---- *)
Require Import RQ.DashShape.

(* in every state the dasher can reach - during the offset loop, at the start of a subpath, after any number of cuts -
   the pattern is 'on' exactly when the index is even: entries 0,2,4.. are dashes, 1,3,5.. gaps *)
Theorem C09_on_iff_even_index_partial : forall arr off st,
  dash_reachable arr off st -> ds_on st = Z.even (ds_idx st) /\ 0 <= ds_idx st.
Proof. exact dash_state_parity. Qed.
Print Assumptions C09_on_iff_even_index_partial.

(* a pattern that is 'on' over a whole open subpath returns the subpath (its vertex list, vertices possibly repeated in
   place: the first dash is buffered and flushed behind the MoveTo) *)
Theorem C09_whole_open_subpath_on_partial : forall arr off initial p0 pts w,
  fgt (dash_total arr) f0 = true -> dash_initial arr off = Some initial -> ds_on initial = true ->
  never_chops (ds_rem initial) p0 pts = true ->
  dash_path arr (mk_path (MoveTo p0 :: map LineTo pts) w) off = Ok (mk_path (open_on_result p0 pts) NonZero) /\
  stutter (p0 :: pts) (DashShape.op_points (open_on_result p0 pts)).
Proof. exact dash_whole_subpath_on_open. Qed.
Print Assumptions C09_whole_open_subpath_on_partial.

(* ... and over a whole closed subpath gives the complete closed outline, ending with Close *)
Theorem C09_whole_closed_subpath_on_gives_closed_outline_partial : forall arr off initial p0 pts w,
  fgt (dash_total arr) f0 = true -> dash_initial arr off = Some initial -> ds_on initial = true ->
  never_chops (ds_rem initial) p0 (pts ++ [p0]) = true ->
  dash_path arr (mk_path (MoveTo p0 :: map LineTo pts ++ [Close]) w) off = Ok (mk_path (closed_on_result p0 pts) NonZero) /\
  stutter (p0 :: pts) (DashShape.op_points (closed_on_result p0 pts)) /\
  last (closed_on_result p0 pts) (MoveTo p0) = Close.
Proof. exact dash_whole_subpath_on_closed. Qed.
Print Assumptions C09_whole_closed_subpath_on_gives_closed_outline_partial.

(* the output holds only MoveTo / LineTo / Close, and never more Close ops than the input (a Close is emitted only for a
   closed subpath that is 'on' all the way round: dash_close_only_whole_on, dashed_sub_close) *)
Theorem C09_output_ops_partial : forall arr p off r,
  dash_path arr p off = Ok r -> Forall mlc (p_ops r) /\ (closes (p_ops r) <= closes (p_ops p))%nat.
Proof. exact dash_output_ops. Qed.
Print Assumptions C09_output_ops_partial.
(* further lemmas of the same file: dash_close_only_whole_on, dashed_sub_close *)
(* a subpath lying wholly in a gap contributes no line at all *)
Theorem C09_whole_subpath_off_partial : forall arr off initial p0 pts w (closed : bool),
  fgt (dash_total arr) f0 = true -> dash_initial arr off = Some initial -> ds_on initial = false ->
  never_chops (ds_rem initial) p0 (if closed then pts ++ [p0] else pts) = true ->
  dash_path arr (mk_path (MoveTo p0 :: map LineTo pts ++ (if closed then [Close] else [])) w) off =
    Ok (mk_path (MoveTo p0 :: map MoveTo pts) NonZero) /\
  forall q, ~ In (LineTo q) (MoveTo p0 :: map MoveTo pts).
Proof. exact dash_whole_subpath_off. Qed.
Print Assumptions C09_whole_subpath_off_partial.

(* the cuts of one segment: k cuts at the points q(j+1) = q(j) + lv * r(j), r(0) what is left of the current entry and
   r(j) the following entries of the array, all on the segment's ray; on/off alternates with every cut *)
(* further lemmas of the same file: dash_points_on_segments, chop_emit_by_index *)
(* ---- the arc-length statement itself, on the sub-domain where binary32 is exact (DashZ/DashPos/DashSpec/DashClosed/DashExact.v) ----
   Domain: integer vertices with |coordinate| <= 2048, every segment horizontal, vertical or empty, integer dash entries
   >= 1 with period (sum, twice for an odd array) <= 2^24, integer offset |off| <= 2^24 (and off mod period <= 131071, the
   fuel of the offset loop).  On it every f32 operation of the dasher is exact and the statement can be proved outright. *)
Require Import RQ.Contains RQ.DashZ RQ.DashPos RQ.DashSpec RQ.DashClosed RQ.DashExact.

(* the binary32 dasher is, op for op, an integer dasher *)
Theorem C09_dasher_is_exact_on_integer_axis_aligned_paths : forall zarr, zarr <> [] -> Forall (fun a => 1 <= a) zarr -> ztotal zarr <= i24 ->
  forall ops w off, Z.abs off <= i24 -> off mod ztotal zarr <= 131071 -> zops_ok None None ops ->
  dash_path (map of_int zarr) (mk_path (map eop ops) w) (of_int off) =
  Ok (mk_path (map eop (zdash_path zarr ops off)) NonZero).
Proof. exact dash_path_int. Qed.
Print Assumptions C09_dasher_is_exact_on_integer_axis_aligned_paths.

(* pattern_on zarr o s: the unit interval (s, s+1) of arc length lies in a dash of the cyclic pattern (odd arrays repeated
   twice) shifted by o; on_intervals are exactly its maximal runs inside [0, L] *)
Theorem C09_on_intervals_are_the_runs_of_the_pattern : forall zarr, (forall i, 1 <= zarr_at zarr i) -> forall o, 0 <= o -> forall L,
  (forall a b, In (a, b) (on_intervals zarr o L) ->
     0 <= a /\ a < b /\ b <= L /\ (forall t, a <= t < b -> pattern_on zarr o t = true) /\
     (a = 0 \/ pattern_on zarr o (a - 1) = false) /\ (b = L \/ pattern_on zarr o b = false)) /\
  (forall t, 0 <= t < L -> pattern_on zarr o t = true -> exists a b, In (a, b) (on_intervals zarr o L) /\ a <= t < b).
Proof. intros zarr H o Ho L. split; [intros a b; apply on_intervals_sound; assumption | intros t; apply on_intervals_complete; assumption]. Qed.
Print Assumptions C09_on_intervals_are_the_runs_of_the_pattern.

(* THE STATEMENT for an open polyline: the pieces the dasher emits (split at MoveTo, consecutive duplicate points merged)
   are exactly, for every 'on' interval [a,b] of the pattern along the arc length, the point at arc length a, the
   vertices strictly between, the point at arc length b (pieces_spec: defined from pattern_on, point_at and the vertex list
   only) - in order, except that a first piece that starts inside a dash is emitted last (the dasher buffers it) *)
Theorem C09_open_polyline_pieces_are_the_on_intervals : forall zarr, zarr <> [] -> Forall (fun a => 1 <= a) zarr -> ztotal zarr <= i24 ->
  forall p0 pts w off, Z.abs off <= i24 -> off mod ztotal zarr <= 131071 -> pt_ok p0 -> Forall pt_ok pts -> poly_axis p0 pts ->
  let o := off mod ztotal zarr in
  exists zout,
    dash_path (map of_int zarr) (mk_path (MoveTo (ept p0) :: map LineTo (map ept pts)) w) (of_int off) =
      Ok (mk_path (map eop zout) NonZero) /\
    znorm (zpieces zout) = (if starts_in_dash zarr o then rot1 (pieces_spec zarr o p0 pts) else pieces_spec zarr o p0 pts).
Proof. exact dash_open_polyline_spec. Qed.
Print Assumptions C09_open_polyline_pieces_are_the_on_intervals.

(* "restarted at the start of every subpath": several open subpaths give the pieces of each, the pattern starting afresh *)
Theorem C09_pattern_restarts_at_every_subpath : forall zarr, zarr <> [] -> Forall (fun a => 1 <= a) zarr -> ztotal zarr <= i24 ->
  forall subs w off, Z.abs off <= i24 -> off mod ztotal zarr <= 131071 -> Forall sub_ok subs ->
  let o := off mod ztotal zarr in
  exists zout,
    dash_path (map of_int zarr) (mk_path (concat (map sub_fops subs)) w) (of_int off) = Ok (mk_path (map eop zout) NonZero) /\
    znorm (zpieces zout) =
      concat (map (fun s => if starts_in_dash zarr o then rot1 (pieces_spec zarr o (fst s) (snd s))
                            else pieces_spec zarr o (fst s) (snd s)) subs).
Proof. exact dash_open_polylines_spec. Qed.
Print Assumptions C09_pattern_restarts_at_every_subpath.

(* closed subpath: the pieces are those of the polyline closed by an explicit last segment, and either nothing more
   happens, or the piece reaching the end is joined to the piece starting at the beginning, or (pattern 'on' all the way
   round) the output is the closed outline; _partial: which case applies is not expressed through pattern_on *)
Theorem C09_closed_subpath_joins_end_to_start_partial : forall zarr, zarr <> [] -> Forall (fun a => 1 <= a) zarr -> ztotal zarr <= i24 ->
  forall p0 pts w off, Z.abs off <= i24 -> off mod ztotal zarr <= 131071 -> pt_ok p0 -> Forall pt_ok pts -> poly_axis p0 (pts ++ [p0]) ->
  let o := off mod ztotal zarr in
  exists zc zo,
    dash_path (map of_int zarr) (mk_path (MoveTo (ept p0) :: map LineTo (map ept pts) ++ [Close]) w) (of_int off) =
      Ok (mk_path (map eop zc) NonZero) /\
    dash_path (map of_int zarr) (mk_path (MoveTo (ept p0) :: map LineTo (map ept (pts ++ [p0]))) w) (of_int off) =
      Ok (mk_path (map eop zo) NonZero) /\
    znorm (zpieces zo) =
      (if starts_in_dash zarr o then rot1 (pieces_spec zarr o p0 (pts ++ [p0])) else pieces_spec zarr o p0 (pts ++ [p0])) /\
    (znorm (zpieces zc) = znorm (zpieces zo) \/
     (exists xs pa pb, zpieces zo = xs ++ [pa ++ [p0]; p0 :: pb] /\ zpieces zc = xs ++ [pa ++ p0 :: pb]) \/
     (exists buf, zc = ZMove p0 :: map ZLine buf ++ [ZClose] /\ zpieces zo = [[p0]; buf ++ [last pts p0; p0]])).
Proof. exact dash_closed_subpath_exact. Qed.
Print Assumptions C09_closed_subpath_joins_end_to_start_partial.

(* ---- closed subpaths: which outcome, decided by the pattern (DashClosedSpec.v) ---- *)
Require Import RQ.DashClosedSpec.

(* closed_pieces_spec is defined from the pattern and the vertex list only: with L the length of the closed polyline,
   if the subpath starts inside a dash: the whole closed outline when the pattern is on over [0,L); else the pieces of the
   explicitly closed polyline with the last piece joined to the first when the pattern is on at the end; else those
   pieces, the first emitted last; if it starts in a gap: those pieces as they are.  Close appears exactly in the first case *)
Theorem C09_closed_subpath_pieces_are_decided_by_the_pattern : forall zarr, zarr <> [] -> Forall (fun a => 1 <= a) zarr -> ztotal zarr <= i24 ->
  forall p0 pts w off, Z.abs off <= i24 -> off mod ztotal zarr <= 131071 -> pt_ok p0 -> Forall pt_ok pts -> poly_axis p0 (pts ++ [p0]) ->
  let o := off mod ztotal zarr in
  exists zc,
    dash_path (map of_int zarr) (mk_path (MoveTo (ept p0) :: map LineTo (map ept pts) ++ [Close]) w) (of_int off) =
      Ok (mk_path (map eop zc) NonZero) /\
    znorm (zpieces zc) = closed_pieces_spec zarr o p0 pts /\
    (closed_whole zarr o p0 pts = true -> zc = ZMove p0 :: map ZLine (zseg_pairs p0 pts) ++ [ZClose]) /\
    (closed_whole zarr o p0 pts = false -> 0 < plen p0 (pts ++ [p0]) -> ~ In ZClose zc).
Proof. exact dash_closed_subpath_spec. Qed.
Print Assumptions C09_closed_subpath_pieces_are_decided_by_the_pattern.

(* "a pattern that is 'on' over the whole subpath giving the complete closed outline" - and only such a pattern *)
Theorem C09_closed_outline_iff_pattern_on_all_the_way_round : forall zarr, zarr <> [] -> Forall (fun a => 1 <= a) zarr -> ztotal zarr <= i24 ->
  forall p0 pts w off out, Z.abs off <= i24 -> off mod ztotal zarr <= 131071 -> pt_ok p0 -> Forall pt_ok pts ->
  poly_axis p0 (pts ++ [p0]) -> 0 < plen p0 (pts ++ [p0]) ->
  let o := off mod ztotal zarr in
  dash_path (map of_int zarr) (mk_path (MoveTo (ept p0) :: map LineTo (map ept pts) ++ [Close]) w) (of_int off) = Ok out ->
  (In Close (p_ops out) <->
   starts_in_dash zarr o = true /\ forall t, 0 <= t < plen p0 (pts ++ [p0]) -> pattern_on zarr o t = true).
Proof. exact closed_outline_iff_whole_on. Qed.
Print Assumptions C09_closed_outline_iff_pattern_on_all_the_way_round.

(* "a piece reaching the end is joined to a piece starting at the beginning" *)
Theorem C09_end_piece_is_joined_to_start_piece : forall zarr, zarr <> [] -> Forall (fun a => 1 <= a) zarr -> ztotal zarr <= i24 ->
  forall p0 pts w off, Z.abs off <= i24 -> off mod ztotal zarr <= 131071 -> pt_ok p0 -> Forall pt_ok pts -> poly_axis p0 (pts ++ [p0]) ->
  let o := off mod ztotal zarr in
  let L := plen p0 (pts ++ [p0]) in
  starts_in_dash zarr o = true -> (exists t, 0 <= t < L /\ pattern_on zarr o t = false) -> pattern_on zarr o (L - 1) = true ->
  exists zc s mid e,
    dash_path (map of_int zarr) (mk_path (MoveTo (ept p0) :: map LineTo (map ept pts) ++ [Close]) w) (of_int off) =
      Ok (mk_path (map eop zc) NonZero) /\
    pieces_spec zarr o p0 (pts ++ [p0]) = (p0 :: s) :: mid ++ [e ++ [p0]] /\
    znorm (zpieces zc) = mid ++ [e ++ p0 :: s].
Proof. exact closed_end_piece_joined_to_start_piece. Qed.
Print Assumptions C09_end_piece_is_joined_to_start_piece.
