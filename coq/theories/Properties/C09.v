(* C09 - Dashes follow the dash pattern along arc length, restarted per subpath.
   PARTIAL: the f32 model is compared bit for bit with the crate and the arc-length statement is evaluated on the crate's
   output; proved here: a non-positive (or NaN) total paints nothing, the dash state restarts at every MoveTo.
   Further down (DashShape.v): parity of the dash index, whole-on / whole-off subpaths, output op kinds, the cuts of a segment. *)
Require Import RQ.Base RQ.F32 RQ.Raster RQ.PathF RQ.PathOps RQ.MiscProofs.

Theorem C09_nonpositive_total_paints_nothing_partial : forall arr p off,
  fgt (let t := fold_left fadd arr f0 in if Z.odd (zlen arr) then fmul t (of_int 2) else t) f0 = false ->
  dash_path arr p off = Ok (mk_path [] NonZero).
Proof. exact dash_nonpositive_total_paints_nothing. Qed.
Print Assumptions C09_nonpositive_total_paints_nothing_partial.
Theorem C09_restart_at_every_subpath_partial : forall arr initial a p,
  exists out, dash_op arr initial a (MoveTo p) = Ok (mk_da (Some p) (Some p) true true [] initial out).
Proof. exact dash_restarts_at_moveto. Qed.
Print Assumptions C09_restart_at_every_subpath_partial.

(* ---- "restarted per subpath", in full (DashProofs.v) ---- *)
Require Import RQ.DashProofs.

(* the dashes of a path are the dashes of its subpaths one after the other: whatever came before a MoveTo - any number of
   subpaths, closed or left open, in any dash state - the dashes emitted from that MoveTo on are exactly those of the
   rest of the path taken on its own, appended to exactly those of what came before taken on its own (same errors too) *)
Theorem C09_dashes_of_a_path_are_the_dashes_of_its_subpaths : forall arr ops1 p ops2 w w1 w2 off,
  dash_path arr (mk_path (ops1 ++ MoveTo p :: ops2) w) off =
  do r1 <- dash_path arr (mk_path ops1 w1) off;
  do r2 <- dash_path arr (mk_path (MoveTo p :: ops2) w2) off;
  Ok (mk_path (p_ops r1 ++ p_ops r2) NonZero).
Proof. exact dash_path_concat. Qed.
Print Assumptions C09_dashes_of_a_path_are_the_dashes_of_its_subpaths.

(* ---- structure of the dasher (DashShape.v) ---- *)
Require Import RQ.DashShape.

(* in every state the dasher can reach - during the offset loop, at the start of a subpath, after any number of cuts -
   the pattern is 'on' exactly when the index is even: entries 0,2,4.. are dashes, 1,3,5.. gaps *)
Theorem C09_on_iff_even_index_partial : forall arr off st,
  dash_reachable arr off st -> ds_on st = Z.even (ds_idx st) /\ 0 <= ds_idx st.
Proof. exact dash_state_parity. Qed.
Print Assumptions C09_on_iff_even_index_partial.

(* a pattern that is 'on' over a whole open subpath returns the subpath (its vertex list, vertices possibly repeated in
   place: the first dash is buffered and flushed behind the MoveTo) *)
Theorem C09_whole_open_subpath_on_partial : forall arr off initial p0 pts w,
  fgt (dash_total arr) f0 = true -> dash_initial arr off = Some initial -> ds_on initial = true ->
  never_chops (ds_rem initial) p0 pts = true ->
  dash_path arr (mk_path (MoveTo p0 :: map LineTo pts) w) off = Ok (mk_path (open_on_result p0 pts) NonZero) /\
  stutter (p0 :: pts) (DashShape.op_points (open_on_result p0 pts)).
Proof. exact dash_whole_subpath_on_open. Qed.
Print Assumptions C09_whole_open_subpath_on_partial.

(* ... and over a whole closed subpath gives the complete closed outline, ending with Close *)
Theorem C09_whole_closed_subpath_on_gives_closed_outline_partial : forall arr off initial p0 pts w,
  fgt (dash_total arr) f0 = true -> dash_initial arr off = Some initial -> ds_on initial = true ->
  never_chops (ds_rem initial) p0 (pts ++ [p0]) = true ->
  dash_path arr (mk_path (MoveTo p0 :: map LineTo pts ++ [Close]) w) off = Ok (mk_path (closed_on_result p0 pts) NonZero) /\
  stutter (p0 :: pts) (DashShape.op_points (closed_on_result p0 pts)) /\
  last (closed_on_result p0 pts) (MoveTo p0) = Close.
Proof. exact dash_whole_subpath_on_closed. Qed.
Print Assumptions C09_whole_closed_subpath_on_gives_closed_outline_partial.

(* the output holds only MoveTo / LineTo / Close, and never more Close ops than the input (a Close is emitted only for a
   closed subpath that is 'on' all the way round: dash_close_only_whole_on, dashed_sub_close) *)
Theorem C09_output_ops_partial : forall arr p off r,
  dash_path arr p off = Ok r -> Forall mlc (p_ops r) /\ (closes (p_ops r) <= closes (p_ops p))%nat.
Proof. exact dash_output_ops. Qed.
Print Assumptions C09_output_ops_partial.
(* further lemmas of the same file: dash_close_only_whole_on, dashed_sub_close *)
(* a subpath lying wholly in a gap contributes no line at all *)
Theorem C09_whole_subpath_off_partial : forall arr off initial p0 pts w (closed : bool),
  fgt (dash_total arr) f0 = true -> dash_initial arr off = Some initial -> ds_on initial = false ->
  never_chops (ds_rem initial) p0 (if closed then pts ++ [p0] else pts) = true ->
  dash_path arr (mk_path (MoveTo p0 :: map LineTo pts ++ (if closed then [Close] else [])) w) off =
    Ok (mk_path (MoveTo p0 :: map MoveTo pts) NonZero) /\
  forall q, ~ In (LineTo q) (MoveTo p0 :: map MoveTo pts).
Proof. exact dash_whole_subpath_off. Qed.
Print Assumptions C09_whole_subpath_off_partial.

(* the cuts of one segment: k cuts at the points q(j+1) = q(j) + lv * r(j), r(0) what is left of the current entry and
   r(j) the following entries of the array, all on the segment's ray; on/off alternates with every cut *)
(* further lemmas of the same file: dash_points_on_segments, chop_emit_by_index *)