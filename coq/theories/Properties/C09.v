(* C09 - Dashes follow the dash pattern along arc length, restarted per subpath.
   PARTIAL: the f32 model is compared bit for bit with the crate and the arc-length statement is evaluated on the crate's
   output; proved here: a non-positive (or NaN) total paints nothing, the dash state restarts at every MoveTo. *)
Require Import RQ.Base RQ.F32 RQ.Raster RQ.PathF RQ.PathOps RQ.MiscProofs.

Theorem C09_nonpositive_total_paints_nothing_partial : forall arr p off,
  fgt (let t := fold_left fadd arr f0 in if Z.odd (zlen arr) then fmul t (of_int 2) else t) f0 = false ->
  dash_path arr p off = Ok (mk_path [] NonZero).
Proof. exact dash_nonpositive_total_paints_nothing. Qed.
Print Assumptions C09_nonpositive_total_paints_nothing_partial.
Theorem C09_restart_at_every_subpath_partial : forall arr initial a p,
  exists out, dash_op arr initial a (MoveTo p) = Ok (mk_da (Some p) (Some p) true true [] initial out).
Proof. exact dash_restarts_at_moveto. Qed.
Print Assumptions C09_restart_at_every_subpath_partial.

(* ---- "restarted per subpath", in full (DashProofs.v) ---- *)
Require Import RQ.DashProofs.

(* the dashes of a path are the dashes of its subpaths one after the other: whatever came before a MoveTo - any number of
   subpaths, closed or left open, in any dash state - the dashes emitted from that MoveTo on are exactly those of the
   rest of the path taken on its own, appended to exactly those of what came before taken on its own (same errors too) *)
Theorem C09_dashes_of_a_path_are_the_dashes_of_its_subpaths : forall arr ops1 p ops2 w w1 w2 off,
  dash_path arr (mk_path (ops1 ++ MoveTo p :: ops2) w) off =
  do r1 <- dash_path arr (mk_path ops1 w1) off;
  do r2 <- dash_path arr (mk_path (MoveTo p :: ops2) w2) off;
  Ok (mk_path (p_ops r1 ++ p_ops r2) NonZero).
Proof. exact dash_path_concat. Qed.
Print Assumptions C09_dashes_of_a_path_are_the_dashes_of_its_subpaths.
