(* C09 - placeholder until the theorems are in place. *)
Require Import RQ.Base.
Theorem C09_placeholder : True. Proof. exact I. Qed.
Print Assumptions C09_placeholder.
