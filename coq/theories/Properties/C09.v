(* C09 - Dashes follow the dash pattern along arc length, restarted per subpath.
   PARTIAL: the f32 model is compared bit for bit with the crate and the arc-length statement is evaluated on the crate's
   output; proved here: a non-positive (or NaN) total paints nothing, the dash state restarts at every MoveTo. *)
Require Import RQ.Base RQ.F32 RQ.Raster RQ.PathF RQ.PathOps RQ.MiscProofs.

Theorem C09_nonpositive_total_paints_nothing_partial : forall arr p off,
  fgt (let t := fold_left fadd arr f0 in if Z.odd (zlen arr) then fmul t (of_int 2) else t) f0 = false ->
  dash_path arr p off = Ok (mk_path [] NonZero).
Proof. exact dash_nonpositive_total_paints_nothing. Qed.
Print Assumptions C09_nonpositive_total_paints_nothing_partial.
Theorem C09_restart_at_every_subpath_partial : forall arr initial a p,
  exists out, dash_op arr initial a (MoveTo p) = Ok (mk_da (Some p) (Some p) true true [] initial out).
Proof. exact dash_restarts_at_moveto. Qed.
Print Assumptions C09_restart_at_every_subpath_partial.
