(* C10 - A drawing call's effect is independent of earlier calls. *)
Require Import RQ.Base RQ.F32 RQ.Rect RQ.Pixel RQ.Raster RQ.PathF RQ.Shader RQ.Surface RQ.Target RQ.TargetProofs RQ.OpsProofs RQ.ClipProofs RQ.LayerProofs.

(* (1) The result of any call is a function of the visible state (pixels, size, clip stack, layer stack, transform)
   and of the rasteriser's state only: two targets that agree on those (whatever path cursor their histories left
   behind) both return or both fail, and agree again afterwards - in particular on every pixel. *)
Theorem C10_history_independent : forall a b o a', same_input a b -> step_op a o = Ok a' ->
  exists b', step_op b o = Ok b' /\ same_input a' b'.
Proof. exact history_independent. Qed.
Print Assumptions C10_history_independent.

(* (2) hence for whole histories: replaying a history on a target with the same visible state and a rasteriser in the
   same (idle) state gives the same visible state *)
Theorem C10_history_independent_seq : forall ops a b a', same_input a b -> run_ops a ops = Ok a' ->
  exists b', run_ops b ops = Ok b' /\ same_input a' b'.
Proof. exact history_independent_seq. Qed.
Print Assumptions C10_history_independent_seq.

(* (3) the path cursor left by earlier paths is never read: every path starts afresh *)
Theorem C10_cursor_never_read : forall h t c1 c2 p, rz c1 = rz c2 -> apply_path h t c1 p = apply_path h t c2 p.
Proof. exact apply_path_cursor_irrelevant. Qed.
Print Assumptions C10_cursor_never_read.

(* (4) the rasteriser is back in its canonical initial state after every call that returns, whatever the call drew:
   no edge, bound or active-list entry survives a call *)
Require Import RQ.RasterIdle RQ.IdleProofs.
Theorem C10_rasteriser_idle_after_every_call : forall st o st', raster_ok st -> step_op st o = Ok st' -> raster_ok st'.
Proof. exact step_op_idle. Qed.
Print Assumptions C10_rasteriser_idle_after_every_call.
Theorem C10_fresh_target_is_idle : forall w h buf, 0 <= h -> raster_ok (dt_new w h buf).
Proof. exact dt_new_raster_ok. Qed.
Print Assumptions C10_fresh_target_is_idle.

(* (5) hence (1) and (2) need no hypothesis about the rasteriser for reachable states: two targets reached from fresh
   targets of the same size by ANY two histories, which show the same pixels, clips, layers and transform, are
   indistinguishable by every later call *)
Theorem C10_reachable_states_depend_on_visible_state_only : forall w h buf1 buf2 ops1 ops2 a b, 0 <= h ->
  run_ops (dt_new w h buf1) ops1 = Ok a -> run_ops (dt_new w h buf2) ops2 = Ok b -> vis_eq a b -> same_input a b.
Proof. exact reachable_same_input. Qed.
Print Assumptions C10_reachable_states_depend_on_visible_state_only.
