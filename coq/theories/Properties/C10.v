(* C10 - A drawing call's effect is independent of earlier calls. *)
Require Import RQ.Base RQ.F32 RQ.Rect RQ.Pixel RQ.Raster RQ.PathF RQ.Shader RQ.Surface RQ.Target RQ.TargetProofs RQ.OpsProofs RQ.ClipProofs RQ.LayerProofs.

(* (1) The result of any call is a function of the visible state (pixels, size, clip stack, layer stack, transform)
   and of the rasteriser's state only: two targets that agree on those (whatever path cursor their histories left
   behind) both return or both fail, and agree again afterwards - in particular on every pixel. *)
Theorem C10_history_independent : forall a b o a', same_input a b -> step_op a o = Ok a' ->
  exists b', step_op b o = Ok b' /\ same_input a' b'.
Proof. exact history_independent. Qed.
Print Assumptions C10_history_independent.

(* (2) hence for whole histories: replaying a history on a target with the same visible state and a rasteriser in the
   same (idle) state gives the same visible state *)
Theorem C10_history_independent_seq : forall ops a b a', same_input a b -> run_ops a ops = Ok a' ->
  exists b', run_ops b ops = Ok b' /\ same_input a' b'.
Proof. exact history_independent_seq. Qed.
Print Assumptions C10_history_independent_seq.

(* (3) the path cursor left by earlier paths is never read: every path starts afresh *)
Theorem C10_cursor_never_read : forall h t c1 c2 p, rz c1 = rz c2 -> apply_path h t c1 p = apply_path h t c2 p.
Proof. exact apply_path_cursor_irrelevant. Qed.
Print Assumptions C10_cursor_never_read.
