(* C10 - placeholder until the theorems are in place. *)
Require Import RQ.Base RQ.Target.
Theorem C10_placeholder : True. Proof. exact I. Qed.
Print Assumptions C10_placeholder.
