(* C11 - placeholder until the theorems are in place. *)
Require Import RQ.Base.
Theorem C11_placeholder : True. Proof. exact I. Qed.
Print Assumptions C11_placeholder.
