(* C11 - The current transform acts on geometry and sources as one user space.
   PARTIAL: the structural claims below are theorems; "fill under T = fill of Path::transform(T) under the identity" and
   "a pixel's colour is the source at T^-1 of the pixel centre" involve f32 rounding of the matrix products and are decided
   by the bit-exact correspondence (Flocq front end) and by the metamorphic pairs run on the implementation, not proved. *)
Require Import RQ.Base RQ.F32 RQ.Rect RQ.Pixel RQ.Raster RQ.PathF RQ.PathOps RQ.Shader RQ.Surface RQ.Target RQ.TargetProofs RQ.OpsProofs RQ.ClipProofs RQ.LayerProofs RQ.MiscProofs.

(* a non-invertible transform draws nothing *)
Theorem C11_singular_transform_draws_nothing_partial : forall st src mask mr rect0 blend alpha,
  xf_inverse (d_ctm st) = None -> composite st src mask mr rect0 blend alpha = Ok st.
Proof. exact singular_ctm_draws_nothing. Qed.
Print Assumptions C11_singular_transform_draws_nothing_partial.
(* clip rectangles are in device space: pushing one commutes with any change of transform *)
Theorem C11_clip_rect_in_device_space_partial : forall st t r, push_clip_rect (with_ctm st t) r = with_ctm (push_clip_rect st r) t.
Proof. exact clip_rect_ignores_ctm. Qed.
(* copy_surface / blend_surface(_with_alpha) read and write the base surface only *)
Theorem C11_surface_ops_ignore_transform_partial : forall st k sw sh sbuf sr dx dy st',
  step_op st (OpSurface k sw sh sbuf sr dx dy) = Ok st' ->
  exists b, surface_op k (d_w st) (d_h st) (d_buf st) sw sh sbuf sr dx dy = Ok b /\ st' = with_buf st b.
Proof. exact surface_op_only_touches_the_surface. Qed.
Print Assumptions C11_surface_ops_ignore_transform_partial.
(* mask(): its rectangle is (x, y, x+w, y+h) whatever the transform (definition of mask_op), and a solid source is the same
   colour under every transform *)
Theorem C11_solid_source_ignores_transform_partial : forall t1 t2 c alpha, choose_shader t1 (Solid c) alpha = choose_shader t2 (Solid c) alpha.
Proof. exact solid_shader_ignores_ctm. Qed.
(* pop_layer and clear leave the transform as they found it *)
Theorem C11_clear_preserves_transform_partial : forall st c st', d_probe st = 0 -> clear st c = Ok st' -> d_ctm st' = d_ctm st.
Proof. exact clear_preserves_ctm. Qed.
Print Assumptions C11_clear_preserves_transform_partial.
Theorem C11_pop_layer_preserves_transform_partial : forall st st', d_probe st = 0 -> pop_layer st = Ok st' -> d_ctm st' = d_ctm st.
Proof. exact (fun st st' Hp H => proj1 (pop_restores_transform_and_clips st st' Hp H)). Qed.
Print Assumptions C11_pop_layer_preserves_transform_partial.
(* every drawing call keeps the transform (same_frame) *)
Theorem C11_drawing_preserves_transform_partial : forall st o st', d_probe st = 0 -> drawing_op o = true -> step_op st o = Ok st' -> d_ctm st' = d_ctm st.
Proof. exact (fun st o st' Hp Hd H => match effect_same_frame st st' Hp (drawing_op_effect st o st' Hd H) with conj _ (conj _ (conj _ (conj A _))) => A end). Qed.
Print Assumptions C11_drawing_preserves_transform_partial.
(* stroke is the fill, under the current transform, of the user-space outline (definition of step_op on OpStroke) *)
Theorem C11_stroke_is_fill_of_user_space_outline_partial : forall st p s o, step_op st (OpStroke p s o) = fill st p s o.
Proof. reflexivity. Qed.

(* ---- one user space for geometry (UserSpace.v) ---- *)
Require Import RQ.PathOps RQ.RasterGlue RQ.UserSpace.

(* (9) the identity transform is invisible to the rasteriser: for finite coordinates x*1 + y*0 + 0 differs from x at most
   in the sign of zero, and no consumer sees that *)
Theorem C11_pretransformed_path_gives_the_same_edges : forall h t c p, path_finite t p ->
  rz (apply_path h xf_identity c (path_transform t p)) = rz (apply_path h t c p).
Proof. exact apply_path_pretransformed. Qed.
Print Assumptions C11_pretransformed_path_gives_the_same_edges.

(* (10) THE CORE OF C11: filling a path under an invertible current transform T with a solid source gives exactly the
   state - every pixel, layer, clip, the transform, the rasteriser - that filling Path::transform(T) of it under the
   identity gives (or both fail with the same error); any state: clips and layers included.  Invertibility is needed:
   singular_ctm_counterexample in UserSpace.v (a singular T draws nothing, the pre-transformed degenerate path does). *)
Theorem C11_fill_under_T_is_fill_of_transformed_path : forall st p c o ti,
  xf_inverse (d_ctm st) = Some ti -> path_finite (d_ctm st) p ->
  match step_op st (OpFillPre p (Solid c) o), step_op st (OpFill p (Solid c) o) with
  | Ok a, Ok b => same_visible a b
  | Err e, Err e' => e = e'
  | _, _ => False
  end.
Proof. exact fill_under_T_is_fill_of_transformed_path. Qed.
Print Assumptions C11_fill_under_T_is_fill_of_transformed_path.
