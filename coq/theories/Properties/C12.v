(* C12 - placeholder until the theorems are in place. *)
Require Import RQ.Base.
Theorem C12_placeholder : True. Proof. exact I. Qed.
Print Assumptions C12_placeholder.
