(* C12 - Gradient sources are positioned and coloured as constructed.
   PARTIAL: the integer stage of the look-up (spread modes, table index) is proved; the tolerance statement as a whole
   (f32 evaluation of the radial / two-circle / sweep parameter, quantisation of the 256-entry table) is decided by the
   bit-exact correspondence and the f64 oracle, not proved.  Two dependency defects are open known findings. *)
Require Import RQ.Base RQ.F32 RQ.Rect RQ.Pixel RQ.PathF RQ.Shader RQ.MiscProofs.

(* Pad clamps the table index to [0,255]: beyond the ends the colour is exactly the first / last entry *)
Theorem C12_pad_clamps_partial : forall x, apply_spread x SpreadPad = Z.max 0 (Z.min 255 x).
Proof. exact spread_pad_clamps. Qed.
Print Assumptions C12_pad_clamps_partial.
(* Repeat uses frac(t): index mod 256, also for negative t *)
Theorem C12_repeat_wraps_partial : forall x, apply_spread x SpreadRepeat = x mod 256.
Proof. exact spread_repeat_wraps. Qed.
Print Assumptions C12_repeat_wraps_partial.
(* Reflect mirrors with period 512 *)
Theorem C12_reflect_mirrors_partial : forall x, apply_spread x SpreadReflect = if x mod 512 <? 256 then x mod 512 else 511 - x mod 512.
Proof. exact spread_reflect_mirrors. Qed.
Print Assumptions C12_reflect_mirrors_partial.
(* linear gradient: the index is the 16.16 x coordinate of the matrix applied to the pixel, divided by 256 (definition) *)
Theorem C12_linear_index_partial : forall lut s m x y,
  shade (ShLinear lut s m) x y = zn lut (apply_spread (Z.shiftr (fst (fix_transform m x y)) 8) s).
Proof. intros. unfold shade. destruct (fix_transform m x y). reflexivity. Qed.
(* a one-stop gradient is one colour: first and last table entries are the premultiplied, alpha-scaled stop *)
Example C12_single_stop_lut : let l := build_lut [mk_gstop fhalf 4286611456] 256 in
  length l = 256%nat /\ nth 0 l 0 = 4286611456 /\ nth 100 l 0 = 4286611456 /\ nth 255 l 0 = 4286611456.
Proof. vm_compute. repeat split. Qed.
