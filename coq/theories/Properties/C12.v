(* C12 - Gradient sources are positioned and coloured as constructed.
   PARTIAL: the integer stage of the look-up (spread modes, table index) is proved; the tolerance statement as a whole
   (f32 evaluation of the radial / two-circle / sweep parameter, quantisation of the 256-entry table) is decided by the
   bit-exact correspondence and the f64 oracle, not proved.  Two dependency defects are open known findings. *)
Require Import RQ.Base RQ.F32 RQ.Rect RQ.Pixel RQ.PathF RQ.Shader RQ.MiscProofs.

(* Pad clamps the table index to [0,255]: beyond the ends the colour is exactly the first / last entry *)
Theorem C12_pad_clamps_partial : forall x, apply_spread x SpreadPad = Z.max 0 (Z.min 255 x).
Proof. exact spread_pad_clamps. Qed.
Print Assumptions C12_pad_clamps_partial.
(* Repeat uses frac(t): index mod 256, also for negative t *)
Theorem C12_repeat_wraps_partial : forall x, apply_spread x SpreadRepeat = x mod 256.
Proof. exact spread_repeat_wraps. Qed.
Print Assumptions C12_repeat_wraps_partial.
(* Reflect mirrors with period 512 *)
Theorem C12_reflect_mirrors_partial : forall x, apply_spread x SpreadReflect = if x mod 512 <? 256 then x mod 512 else 511 - x mod 512.
Proof. exact spread_reflect_mirrors. Qed.
Print Assumptions C12_reflect_mirrors_partial.
(* linear gradient: the index is the 16.16 x coordinate of the matrix applied to the pixel, divided by 256 (definition) *)
Theorem C12_linear_index_partial : forall lut s m x y,
  shade (ShLinear lut s m) x y = zn lut (apply_spread (Z.shiftr (fst (fix_transform m x y)) 8) s).
Proof. intros. unfold shade. destruct (fix_transform m x y). reflexivity. Qed.
(* a one-stop gradient is one colour: first and last table entries are the premultiplied, alpha-scaled stop *)
Example C12_single_stop_lut : let l := build_lut [mk_gstop fhalf 4286611456] 256 in
  length l = 256%nat /\ nth 0 l 0 = 4286611456 /\ nth 100 l 0 = 4286611456 /\ nth 255 l 0 = 4286611456.
Proof. vm_compute. repeat split. Qed.

(* ---- the colour table (GradientProofs.v) ---- *)
Require Import RQ.PixelProofs RQ.GradientProofs.

(* (5) shape: 256 entries, each a premultiplied 32-bit word, for every stop list and every alpha *)
Theorem C12_table_shape : forall stops alpha,
  length (build_lut stops alpha) = 256%nat /\
  forall i, wf_px (lut_at (build_lut stops alpha) i) /\ premul (lut_at (build_lut stops alpha) i) = true.
Proof. exact GradientProofs.C12_lut_shape. Qed.
Print Assumptions C12_table_shape.

(* (6) "exactly the first / last stop colour beyond the ends": entries up to the first stop's index are the first stop's
   colour, entries above every stop index (and entry 255 always) are the last stop's colour (premultiplied, with the
   alpha the code applies) *)
Theorem C12_table_before_first_stop : forall stops alpha j, stops <> [] -> 0 <= alpha <= 256 -> stops_wf stops ->
  0 < stop_index stops 0 -> 0 <= j <= stop_index stops 0 -> j <= 254 ->
  lut_at (build_lut stops alpha) j = premultiply_t (stop_colour stops alpha 0).
Proof. exact GradientProofs.C12_lut_first_stop. Qed.
Print Assumptions C12_table_before_first_stop.
Theorem C12_table_after_last_stop : forall stops alpha j, stops <> [] -> 0 <= alpha <= 256 -> stops_wf stops ->
  (forall m, 0 <= m < nstops stops -> stop_index stops m < j) -> 0 <= j <= 255 ->
  lut_at (build_lut stops alpha) j = premultiply_t (alpha_mul (gs_color (last_stop stops)) alpha).
Proof. exact GradientProofs.C12_lut_last_stop. Qed.
Print Assumptions C12_table_after_last_stop.
Theorem C12_pad_beyond_the_end_is_the_last_stop : forall stops alpha m x y,
  65280 <= fst (fix_transform m x y) ->
  shade (ShLinear (build_lut stops alpha) SpreadPad m) x y = premultiply_t (alpha_mul (gs_color (last_stop stops)) alpha).
Proof. exact GradientProofs.C12_linear_pad_end. Qed.
Print Assumptions C12_pad_beyond_the_end_is_the_last_stop.

(* (7) "piecewise-linear interpolation of the (unpremultiplied) stops, premultiplied": between two consecutive stops every
   unpremultiplied channel is c0 + floor((c1-c0) w / 256) with the code's weight w, lies between the two stops'
   channels, and is within 2 of the exact linear interpolation (within 1 is false: witness in GradientProofs.v) *)
Theorem C12_table_between_stops : forall stops alpha k s j,
  stops <> [] -> 0 <= alpha <= 256 -> stops_wf stops -> sorted_indices stops ->
  0 <= k -> k + 1 < nstops stops -> run_start stops s ->
  stop_index stops k <= s < stop_index stops (k + 1) -> s <= j <= stop_index stops (k + 1) -> j <= 254 ->
  let d := stop_index stops (k + 1) - s in
  let w := lut_weight d (j - s) in
  exists u, lut_at (build_lut stops alpha) j = premultiply_t u /\ wf_px u /\ 1 <= d /\ 0 <= w <= 256 /\
    chan_all (fun ch =>
      let c0 := ch (gs_color (stop_at stops k)) * alpha / 256 in
      let c1 := ch (gs_color (stop_at stops (k + 1))) * alpha / 256 in
      ch u = c0 + (c1 - c0) * w / 256 /\
      Z.min c0 c1 <= ch u <= Z.max c0 c1 /\
      - 5 * d < 2 * (d * (ch u - c0) - (c1 - c0) * (j - s)) < 3 * d /\
      c0 + (c1 - c0) * (j - s) / d - 2 <= ch u <= c0 + (c1 - c0) * (j - s) / d + 2).
Proof. exact GradientProofs.C12_lut_between_stops. Qed.
Print Assumptions C12_table_between_stops.

(* (8) every gradient shader returns an entry of its table (or transparent, for a two-circle gradient outside its cone) *)
Theorem C12_gradient_pixels_come_from_the_table : forall sh x y,
  match sh with
  | ShLinear lut _ _ | ShRadial lut _ _ | ShSweep lut _ _ _ _ => exists i, 0 <= i <= 255 /\ shade sh x y = lut_at lut i
  | ShTwoCircle lut _ _ _ _ _ _ => shade sh x y = 0 \/ exists i, 0 <= i <= 255 /\ shade sh x y = lut_at lut i
  | _ => True
  end.
Proof. exact GradientProofs.C12_shade_in_table. Qed.
Print Assumptions C12_gradient_pixels_come_from_the_table.
