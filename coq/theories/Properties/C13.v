(* C13 - Image sources show the texel under the pixel centre (pad/repeat, filter, alpha).
   PARTIAL: the fetch stage is proved; that the span shaders for integer translations equal the general shaders, and the
   16.16 matrix error bound, are decided by the bit-exact correspondence. *)
Require Import RQ.Base RQ.F32 RQ.Rect RQ.Pixel RQ.PathF RQ.Shader RQ.MiscProofs.

(* Nearest: exactly the texel at the floor of the (half-pixel corrected) 16.16 position *)
Theorem C13_nearest_texel_partial : forall e im px py, fetch_nearest e im px py None = fetch e im (Z.shiftr (px + 32768) 16) (Z.shiftr (py + 32768) 16).
Proof. exact nearest_texel. Qed.
(* Repeat wraps modulo the image size, for negative coordinates too *)
Theorem C13_repeat_wraps_partial : forall im x y, 0 < i_w im -> 0 < i_h im -> repeat_fetch im x y = img_at im (x mod i_w im) (y mod i_h im).
Proof. exact repeat_fetch_wraps. Qed.
Print Assumptions C13_repeat_wraps_partial.
(* Pad clamps to the edge texel *)
Theorem C13_pad_clamps_partial : forall im x y, 0 < i_w im -> 0 < i_h im ->
  pad_fetch im x y = img_at im (Z.max 0 (Z.min (i_w im - 1) x)) (Z.max 0 (Z.min (i_h im - 1) y)).
Proof. exact pad_fetch_clamps. Qed.
Print Assumptions C13_pad_clamps_partial.
(* Bilinear: the four weights are built from the 4-bit fractions and sum to 256 (a convex combination) *)
Theorem C13_bilinear_weights_sum_partial : forall dx dy, 0 <= dx <= 15 -> 0 <= dy <= 15 ->
  wrapu32 (256 - Z.shiftl dy 4 - Z.shiftl dx 4 + dx * dy) + (Z.shiftl dx 4 - dx * dy) + (Z.shiftl dy 4 - dx * dy) + dx * dy = 256.
Proof. exact bilinear_weights_sum. Qed.
Print Assumptions C13_bilinear_weights_sum_partial.
(* the result is scaled by the global alpha *)
Theorem C13_alpha_scaling_partial : forall e im px py a, fetch_nearest e im px py (Some a) = alpha_mul (fetch_nearest e im px py None) a.
Proof. exact nearest_alpha. Qed.
(* the integer-translation shader: Pad clamps, Repeat wraps (definition of shade), scaled by alpha *)
Theorem C13_offset_shader_partial : forall im ox oy a x y,
  shade (ShImageOffset im ExtPad ox oy a) x y = alpha_mul (img_at im (clampi (x + ox) 0 (i_w im - 1)) (clampi (y + oy) 0 (i_h im - 1))) a /\
  shade (ShImageOffset im ExtRepeat ox oy a) x y = alpha_mul (img_at im ((x + ox) mod i_w im) ((y + oy) mod i_h im)) a.
Proof. intros. split; reflexivity. Qed.

(* ---- bilinear range / exactness, integer translations (ImageProofs.v) ---- *)
Require Import RQ.PixelProofs RQ.Target RQ.FillProofs RQ.ImageProofs.

(* (7) "Bilinear returns the 4-bit-weighted interpolation of the four texels": the exact per-channel formula *)
Theorem C13_bilinear_channel_formula : forall c t00 t10 t01 t11 dx dy, 0 <= dx <= 15 -> 0 <= dy <= 15 ->
  chan c (bilinear_interpolation t00 t10 t01 t11 dx dy None) =
  Z.shiftr (chan c t00 * ((16 - dx) * (16 - dy)) + chan c t10 * (dx * (16 - dy))
            + chan c t01 * ((16 - dx) * dy) + chan c t11 * (dx * dy)) 8.
Proof. exact bilinear_channel. Qed.
Print Assumptions C13_bilinear_channel_formula.

(* (8) "hence within their per-channel range" *)
Theorem C13_bilinear_within_texel_range : forall c t00 t10 t01 t11 dx dy, 0 <= dx <= 15 -> 0 <= dy <= 15 ->
  Z.min (Z.min (chan c t00) (chan c t10)) (Z.min (chan c t01) (chan c t11))
  <= chan c (bilinear_interpolation t00 t10 t01 t11 dx dy None)
  <= Z.max (Z.max (chan c t00) (chan c t10)) (Z.max (chan c t01) (chan c t11)).
Proof. exact bilinear_in_range. Qed.
Print Assumptions C13_bilinear_within_texel_range.

(* (9) "exact at texel centres" *)
Theorem C13_bilinear_exact_at_texel_centre : forall t00 t10 t01 t11, wf_px t00 ->
  bilinear_interpolation t00 t10 t01 t11 0 0 None = t00.
Proof. exact bilinear_exact_at_centre. Qed.
Print Assumptions C13_bilinear_exact_at_texel_centre.

(* (10) "and for pure integer translations": when the combined transform is an integer translation the shader chosen
   (the integer-offset span shader) shows exactly the texel (x+ox, y+oy) scaled by the global alpha, and the general
   matrix shader - either filter - would have produced the same pixel *)
Theorem C13_integer_translation_is_a_texel_copy : forall ti im e f t alpha ox oy x y,
  int_translation (xf_then ti t) ox oy -> -32768 <= ox <= 32767 -> -32768 <= oy <= 32767 ->
  image_wf im -> 0 < i_w im -> 0 < i_h im -> 0 <= x < 65536 -> 0 <= y < 65536 -> x + ox < 32768 -> y + oy < 32768 ->
  let a := Z.min (unit_to_u32 alpha) 255 in
  shade (choose_shader ti (Image im e f t) alpha) x y =
  shade (ShImageXf im e f (transform_to_fixed (half_pixel_sandwich (xf_then ti t)))
                   (if a =? 255 then None else Some (alpha_to_alpha256 a))) x y
  /\ shade (choose_shader ti (Image im e f t) alpha) x y = alpha_mul (fetch e im (x + ox) (y + oy)) (alpha_to_alpha256 a).
Proof. exact integer_translation_routes_agree. Qed.
Print Assumptions C13_integer_translation_is_a_texel_copy.

(* (11) "draw_image_at(x, y) puts texel (i, j) on pixel (x+i, y+j)" - at the level of the shader composite builds *)
Theorem C13_draw_image_at_places_texels_partial : forall ctm cx cy x y X Y im alpha,
  int_translation ctm cx cy -> fint x X -> fint y Y ->
  Z.abs cx < 2097152 -> Z.abs cy < 2097152 -> Z.abs X < 2097152 -> Z.abs Y < 2097152 ->
  0 < i_w im < 16777216 -> 0 < i_h im < 16777216 ->
  exists ti, xf_inverse ctm = Some ti /\
    let a := alpha_to_alpha256 (Z.min (unit_to_u32 alpha) 255) in
    let sh := choose_shader ti (Image im ExtPad Bilinear (draw_image_src x y im)) alpha in
    sh = ShImageOffset im ExtPad (- cx - X) (- cy - Y) a /\
    (forall px py, shade sh px py = alpha_mul (pad_fetch im (px - cx - X) (py - cy - Y)) a) /\
    (forall i j, 0 <= i < i_w im -> 0 <= j < i_h im -> shade sh (cx + X + i) (cy + Y + j) = alpha_mul (img_at im i j) a).
Proof. exact draw_image_at_texels. Qed.
Print Assumptions C13_draw_image_at_places_texels_partial.
