(* C13 - Image sources show the texel under the pixel centre (pad/repeat, filter, alpha).
   PARTIAL: the fetch stage is proved; that the span shaders for integer translations equal the general shaders, and the
   16.16 matrix error bound, are decided by the bit-exact correspondence. *)
Require Import RQ.Base RQ.F32 RQ.Rect RQ.Pixel RQ.PathF RQ.Shader RQ.MiscProofs.

(* Nearest: exactly the texel at the floor of the (half-pixel corrected) 16.16 position *)
Theorem C13_nearest_texel_partial : forall e im px py, fetch_nearest e im px py None = fetch e im (Z.shiftr (px + 32768) 16) (Z.shiftr (py + 32768) 16).
Proof. exact nearest_texel. Qed.
(* Repeat wraps modulo the image size, for negative coordinates too *)
Theorem C13_repeat_wraps_partial : forall im x y, 0 < i_w im -> 0 < i_h im -> repeat_fetch im x y = img_at im (x mod i_w im) (y mod i_h im).
Proof. exact repeat_fetch_wraps. Qed.
Print Assumptions C13_repeat_wraps_partial.
(* Pad clamps to the edge texel *)
Theorem C13_pad_clamps_partial : forall im x y, 0 < i_w im -> 0 < i_h im ->
  pad_fetch im x y = img_at im (Z.max 0 (Z.min (i_w im - 1) x)) (Z.max 0 (Z.min (i_h im - 1) y)).
Proof. exact pad_fetch_clamps. Qed.
Print Assumptions C13_pad_clamps_partial.
(* Bilinear: the four weights are built from the 4-bit fractions and sum to 256 (a convex combination) *)
Theorem C13_bilinear_weights_sum_partial : forall dx dy, 0 <= dx <= 15 -> 0 <= dy <= 15 ->
  wrapu32 (256 - Z.shiftl dy 4 - Z.shiftl dx 4 + dx * dy) + (Z.shiftl dx 4 - dx * dy) + (Z.shiftl dy 4 - dx * dy) + dx * dy = 256.
Proof. exact bilinear_weights_sum. Qed.
Print Assumptions C13_bilinear_weights_sum_partial.
(* the result is scaled by the global alpha *)
Theorem C13_alpha_scaling_partial : forall e im px py a, fetch_nearest e im px py (Some a) = alpha_mul (fetch_nearest e im px py None) a.
Proof. exact nearest_alpha. Qed.
(* the integer-translation shader: Pad clamps, Repeat wraps (definition of shade), scaled by alpha *)
Theorem C13_offset_shader_partial : forall im ox oy a x y,
  shade (ShImageOffset im ExtPad ox oy a) x y = alpha_mul (img_at im (clampi (x + ox) 0 (i_w im - 1)) (clampi (y + oy) 0 (i_h im - 1))) a /\
  shade (ShImageOffset im ExtRepeat ox oy a) x y = alpha_mul (img_at im ((x + ox) mod i_w im) ((y + oy) mod i_h im)) a.
Proof. intros. split; reflexivity. Qed.
