(* C13 - placeholder until the theorems are in place. *)
Require Import RQ.Base.
Theorem C13_placeholder : True. Proof. exact I. Qed.
Print Assumptions C13_placeholder.
