(* C14 - Optimised paths give the same pixels as the general path.
   PARTIAL: proved at the pixel level (fast-path blitter = masked blitter at coverage 255, the clear colour is exact) and
   structurally (both routes are one composite over the same rectangle); that an integer-aligned rectangle rasterises to
   coverage 255 on exactly its pixels is C01's subject; the routes are also compared on the implementation itself
   (metamorphic pairs) and with the model on every run. *)
Require Import RQ.Base RQ.Pixel RQ.PixelProofs RQ.F32 RQ.Rect RQ.Raster RQ.PathF RQ.Shader RQ.Surface RQ.Target RQ.TargetProofs RQ.PixelCorollaries RQ.OpsProofs.

(* the blitter of the integer fast path (no coverage mask) and the general path's blitter at coverage 255 compute the same
   pixel for every blend mode on premultiplied inputs (when the blend function returns) *)
Theorem C14_fast_path_pixel_eq_general_partial : forall m s d,
  wf_px s -> wf_px d -> premul s = true -> premul d = true -> (exists b, blend m s d = Ok b) ->
  blit_px (choose_blitter false None m) s d 0 0 = blit_px (choose_blitter true None m) s d 255 0.
Proof. exact fast_path_pixel_eq_general. Qed.
Print Assumptions C14_fast_path_pixel_eq_general_partial.
(* clear(c): the unclipped route writes c; the clipped route draws c with Src at alpha 1, whose shader colour is exactly c
   and whose pixel at full coverage is exactly the source *)
Theorem C14_clear_routes_agree_partial : forall c d, wf_px c -> wf_px d ->
  alpha_mul c (alpha_to_alpha256 255) = c /\ blit_px (choose_blitter true None Src) c d 255 0 = Ok c.
Proof. exact (fun c d Hc Hd => conj (clear_colour_is_exact c Hc) (src_replaces c d Hc Hd)). Qed.
Print Assumptions C14_clear_routes_agree_partial.
(* draw_image_at is fill_rect with the translated image source (definition of the model, compared with the crate) *)
Theorem C14_draw_image_at_is_fill_rect_partial : forall st x y im o,
  draw_image_at st x y im o =
  fill_rect st x y (of_int (i_w im)) (of_int (i_h im))
    (Image im ExtPad Bilinear (xf_then_scale (xf_translation (fneg x) (fneg y)) (fdiv (of_int (i_w im)) (of_int (i_w im))) (fdiv (of_int (i_h im)) (of_int (i_h im))))) o.
Proof. reflexivity. Qed.
(* both routes of fill_rect are at most one composite on the same destination *)
Theorem C14_both_routes_are_one_composite_partial : forall st x y w h src o st', fill_rect st x y w h src o = Ok st' -> effect st st'.
Proof. exact fill_rect_effect. Qed.
Print Assumptions C14_both_routes_are_one_composite_partial.
