(* C14 - Optimised paths give the same pixels as the general path.
   PARTIAL: proved at the pixel level (fast-path blitter = masked blitter at coverage 255, the clear colour is exact) and
   structurally (both routes are one composite over the same rectangle); that an integer-aligned rectangle rasterises to
   coverage 255 on exactly its pixels is C01's subject; the routes are also compared on the implementation itself
   (metamorphic pairs) and with the model on every run. *)
Require Import RQ.Base RQ.Pixel RQ.PixelProofs RQ.F32 RQ.Rect RQ.Raster RQ.PathF RQ.Shader RQ.Surface RQ.Target RQ.TargetProofs RQ.PixelCorollaries RQ.OpsProofs.

(* the blitter of the integer fast path (no coverage mask) and the general path's blitter at coverage 255 compute the same
   pixel for every blend mode on premultiplied inputs (when the blend function returns) *)
Theorem C14_fast_path_pixel_eq_general_partial : forall m s d,
  wf_px s -> wf_px d -> premul s = true -> premul d = true -> (exists b, blend m s d = Ok b) ->
  blit_px (choose_blitter false None m) s d 0 0 = blit_px (choose_blitter true None m) s d 255 0.
Proof. exact fast_path_pixel_eq_general. Qed.
Print Assumptions C14_fast_path_pixel_eq_general_partial.
(* clear(c): the unclipped route writes c; the clipped route draws c with Src at alpha 1, whose shader colour is exactly c
   and whose pixel at full coverage is exactly the source *)
Theorem C14_clear_routes_agree_partial : forall c d, wf_px c -> wf_px d ->
  alpha_mul c (alpha_to_alpha256 255) = c /\ blit_px (choose_blitter true None Src) c d 255 0 = Ok c.
Proof. exact (fun c d Hc Hd => conj (clear_colour_is_exact c Hc) (src_replaces c d Hc Hd)). Qed.
Print Assumptions C14_clear_routes_agree_partial.
(* draw_image_at is fill_rect with the translated image source (definition of the model, compared with the crate) *)
Theorem C14_draw_image_at_is_fill_rect_partial : forall st x y im o,
  draw_image_at st x y im o =
  fill_rect st x y (of_int (i_w im)) (of_int (i_h im))
    (Image im ExtPad Bilinear (xf_then_scale (xf_translation (fneg x) (fneg y)) (fdiv (of_int (i_w im)) (of_int (i_w im))) (fdiv (of_int (i_h im)) (of_int (i_h im))))) o.
Proof. reflexivity. Qed.
(* both routes of fill_rect are at most one composite on the same destination *)
Theorem C14_both_routes_are_one_composite_partial : forall st x y w h src o st', fill_rect st x y w h src o = Ok st' -> effect st st'.
Proof. exact fill_rect_effect. Qed.
Print Assumptions C14_both_routes_are_one_composite_partial.

(* ---- the missing half: an integer rectangle rasterises to full coverage (FillProofs.v) ---- *)
Require Import RQ.Raster RQ.RasterProofs RQ.PremulDraw RQ.FillProofs.

(* (5) fill_rect's two routes agree: for an integer rectangle of positive size (coordinates below 2^22 in magnitude, any
   position relative to the surface), identity transform, no clip and no layer, all 28 blend modes, every source, any
   alpha, antialiasing on or off: if the integer fast route and the fill of PathBuilder::rect both return, they leave the
   same pixels *)
Theorem C14_fill_rect_routes_agree_partial : forall st x y w h src o stF stG,
  plain_dt st -> Forall px_ok (d_buf st) -> source_ok src ->
  d_ctm st = xf_identity -> 0 <= d_w st -> 0 < d_h st ->
  rz (d_cur st) = rast_new (d_w st) (d_h st) ->
  let ix := to_i32 x in let iy := to_i32 y in let iw := to_i32 w in let ih := to_i32 h in
  0 < iw -> 0 < ih ->
  Z.abs ix < 4194304 -> Z.abs iy < 4194304 -> Z.abs iw < 4194304 -> Z.abs ih < 4194304 ->
  Z.abs (ix + iw) < 4194304 -> Z.abs (iy + ih) < 4194304 ->
  fill_rect st x y w h src o = Ok stF ->
  fill st (rect_path x y w h) src o = Ok stG ->
  d_buf stF = d_buf stG.
Proof. exact fill_rect_routes_agree_integer. Qed.
Print Assumptions C14_fill_rect_routes_agree_partial.

(* (6) and for the 24 separable blend modes both routes do return *)
Theorem C14_fill_rect_routes_total_partial : forall st x y w h src o,
  plain_dt st -> Forall px_ok (d_buf st) -> source_ok src -> In (o_blend o) separable_modes ->
  d_ctm st = xf_identity -> 0 <= d_w st -> 0 < d_h st ->
  rz (d_cur st) = rast_new (d_w st) (d_h st) ->
  let ix := to_i32 x in let iy := to_i32 y in let iw := to_i32 w in let ih := to_i32 h in
  0 < iw -> 0 < ih ->
  Z.abs ix < 4194304 -> Z.abs iy < 4194304 -> Z.abs iw < 4194304 -> Z.abs ih < 4194304 ->
  Z.abs (ix + iw) < 4194304 -> Z.abs (iy + ih) < 4194304 ->
  exists stF stG,
    fill_rect st x y w h src o = Ok stF /\ fill st (rect_path x y w h) src o = Ok stG /\ d_buf stF = d_buf stG.
Proof. exact fill_rect_routes_total. Qed.
Print Assumptions C14_fill_rect_routes_total_partial.

(* ---- negative sizes, covering clips, clear (UserSpace.v) ---- *)
Require Import RQ.UserSpace.

(* (7) any signs of width and height (non-zero): the fast route fills the rectangle between the two corners, the path
   route a rectangle path of the opposite orientation - same pixels, all 28 blend modes, antialias on or off *)
Theorem C14_fill_rect_negative_size_agree_partial : forall st x y w h src o stF stG,
  plain_dt st -> Forall px_ok (d_buf st) -> source_ok src ->
  d_ctm st = xf_identity -> 0 <= d_w st -> 0 < d_h st ->
  rz (d_cur st) = rast_new (d_w st) (d_h st) ->
  let ix := to_i32 x in let iy := to_i32 y in let iw := to_i32 w in let ih := to_i32 h in
  iw <> 0 -> ih <> 0 ->
  Z.abs ix < 4194304 -> Z.abs iy < 4194304 -> Z.abs iw < 16777216 -> Z.abs ih < 16777216 ->
  Z.abs (ix + iw) < 4194304 -> Z.abs (iy + ih) < 4194304 ->
  fill_rect st x y w h src o = Ok stF ->
  fill st (rect_path x y w h) src o = Ok stG ->
  d_buf stF = d_buf stG.
Proof. exact fill_rect_negative_size_agree. Qed.
Print Assumptions C14_fill_rect_negative_size_agree_partial.

(* (8) "the same call gives identical pixels whether or not a surface-covering clip rectangle is pushed" *)
Theorem C14_fill_rect_covering_clip_agree_partial : forall st R x y w h src o stF stC,
  plain_dt st -> Forall px_ok (d_buf st) -> source_ok src ->
  d_ctm st = xf_identity -> 0 <= d_w st -> 0 < d_h st ->
  rz (d_cur st) = rast_new (d_w st) (d_h st) -> covers_surface st R ->
  let ix := to_i32 x in let iy := to_i32 y in let iw := to_i32 w in let ih := to_i32 h in
  iw <> 0 -> ih <> 0 ->
  Z.abs ix < 4194304 -> Z.abs iy < 4194304 -> Z.abs iw < 16777216 -> Z.abs ih < 16777216 ->
  Z.abs (ix + iw) < 4194304 -> Z.abs (iy + ih) < 4194304 ->
  fill_rect st x y w h src o = Ok stF ->
  fill_rect (push_clip_rect st R) x y w h src o = Ok stC ->
  d_buf stF = d_buf stC /\ d_clips stC = d_clips (push_clip_rect st R).
Proof. exact fill_rect_covering_clip_agree. Qed.
Print Assumptions C14_fill_rect_covering_clip_agree_partial.

(* (9) "clear(c) with an empty clip stack equals clear(c) under a surface-covering clip": both give a buffer of all c *)
Theorem C14_clear_routes_agree_full_partial : forall st R c a b,
  plain_dt st -> Forall px_ok (d_buf st) -> wf_px c ->
  0 < d_w st < 4194304 -> 0 < d_h st < 4194304 ->
  rz (d_cur st) = rast_new (d_w st) (d_h st) -> covers_surface st R ->
  clear st c = Ok a -> clear (push_clip_rect st R) c = Ok b ->
  d_buf a = d_buf b /\ d_buf a = map (fun _ => c) (d_buf st) /\ d_ctm b = d_ctm st.
Proof. exact clear_routes_agree_full. Qed.
Print Assumptions C14_clear_routes_agree_full_partial.
