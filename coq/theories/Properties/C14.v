(* C14 - placeholder until the theorems are in place. *)
Require Import RQ.Base.
Theorem C14_placeholder : True. Proof. exact I. Qed.
Print Assumptions C14_placeholder.
