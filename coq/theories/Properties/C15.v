(* C15 - Surface copies and blends place exactly the requested block.
   Nothing but statements closed by `exact` and their assumptions. *)
Require Import RQ.Base RQ.Rect RQ.Pixel RQ.Surface RQ.SurfaceProofs RQ.SurfaceCorollaries.

(* For every per-pixel row function gr computing the total function g (copy, any blend mode
   that cannot trip a debug assertion, source-over by an alpha byte), every destination and
   source size (0 included), every src_rect (inside, overlapping, outside, empty, inverted) and
   every dst point - any integers at all, dom_ok only asks for non-negative sizes (the clipping is done
   in i64, where values derived from i32s cannot overflow): the call returns normally (no
   out-of-bounds access), the destination keeps its size, and destination pixel (X,Y) becomes
   g (source pixel at src_rect.min + (X,Y) - dst) (old value) exactly when that source position
   lies inside src_rect and inside the source; every other pixel keeps its value. *)
Theorem C15_block_transfer :
  forall (gr : Z -> Z -> result Z) (g : Z -> Z -> Z), (forall s d, gr s d = Ok (g s d)) ->
  forall dw dh dbuf sw sh sbuf sr dx dy,
    dom_ok dw dh sw sh sr dx dy -> zlen dbuf = dw * dh -> zlen sbuf = sw * sh ->
    exists buf', composite_surface gr dw dh dbuf sw sh sbuf sr dx dy = Ok buf' /\ zlen buf' = zlen dbuf /\
      forall X Y, 0 <= X < dw -> 0 <= Y < dh ->
        zn buf' (Y * dw + X) =
          if cs_written sw sh sr dx dy X Y
          then let '(SX, SY) := cs_src_pos sr dx dy X Y in g (zn sbuf (SY * sw + SX)) (zn dbuf (Y * dw + X))
          else zn dbuf (Y * dw + X).
Proof. exact composite_surface_block_transfer. Qed.
Print Assumptions C15_block_transfer.

(* the three entry points are instances *)
Theorem C15_copy_surface : forall s d, cs_fn CsCopy s d = Ok s.
Proof. exact (fun s d => eq_refl). Qed.
Theorem C15_blend_surface_with_alpha : forall a s d, cs_fn (CsAlpha a) s d = Ok (over_in s d a).
Proof. exact (fun a s d => eq_refl). Qed.
Theorem C15_blend_surface_porter_duff :
  forall m, In m [Dst; Src; Clear; SrcOver; DstOver; SrcIn; DstIn; SrcOut; DstOut] ->
  exists g, forall s d, cs_fn (CsBlend m) s d = Ok (g s d).
Proof. exact blend_porter_duff_total. Qed.
Print Assumptions C15_blend_surface_porter_duff.

(* Whole-buffer consequences (SurfaceCorollaries.v). *)

(* copy_surface of the whole source onto a destination of the same size at (0,0): the destination becomes the source,
   as a list, whatever it held before. *)
Theorem C15_full_frame_copy_is_the_source :
  forall w h dbuf sbuf, 0 <= w -> 0 <= h -> zlen dbuf = w * h -> zlen sbuf = w * h ->
  surface_op CsCopy w h dbuf w h sbuf (mkrect 0 0 w h) 0 0 = Ok sbuf.
Proof. exact full_frame_copy_is_the_source. Qed.
Print Assumptions C15_full_frame_copy_is_the_source.

(* copying an in-range block out to a scratch surface of the block's size and back to where it came from leaves the
   first surface exactly as it was: the two calls agree about which pixel is which. *)
Theorem C15_copy_out_and_back_is_identity :
  forall w h buf bw bh tmp sx sy tmp',
  0 <= w -> 0 <= h -> 0 <= bw -> 0 <= bh -> zlen buf = w * h -> zlen tmp = bw * bh ->
  surface_op CsCopy bw bh tmp w h buf (mkrect sx sy (sx + bw) (sy + bh)) 0 0 = Ok tmp' ->
  0 <= sx -> 0 <= sy -> sx + bw <= w -> sy + bh <= h ->
  surface_op CsCopy w h buf bw bh tmp' (mkrect 0 0 bw bh) sx sy = Ok buf.
Proof. exact copy_out_and_back_is_identity. Qed.
Print Assumptions C15_copy_out_and_back_is_identity.

(* a transfer whose per-pixel function ignores the old destination value (copy_surface; blend modes Src and Clear)
   is idempotent: doing it again changes nothing. *)
Theorem C15_transfer_twice_is_once :
  forall (gr : Z -> Z -> result Z) (g : Z -> Z -> Z), (forall s d, gr s d = Ok (g s d)) ->
  forall dw dh dbuf sw sh sbuf sr dx dy buf1,
    (forall s d d', g s d = g s d') ->
    dom_ok dw dh sw sh sr dx dy -> zlen dbuf = dw * dh -> zlen sbuf = sw * sh ->
    composite_surface gr dw dh dbuf sw sh sbuf sr dx dy = Ok buf1 ->
    composite_surface gr dw dh buf1 sw sh sbuf sr dx dy = Ok buf1.
Proof. exact transfer_twice_is_once. Qed.
Print Assumptions C15_transfer_twice_is_once.

(* "everything else untouched", for whole calls: when no destination pixel has a source position inside src_rect and
   the source, the call returns the destination unchanged - and that is the case for an empty or inverted src_rect,
   for a src_rect that misses the source, and for a dst that puts the block beyond the destination. *)
Theorem C15_nothing_written_is_identity :
  forall (gr : Z -> Z -> result Z) (g : Z -> Z -> Z), (forall s d, gr s d = Ok (g s d)) ->
  forall dw dh dbuf sw sh sbuf sr dx dy,
    dom_ok dw dh sw sh sr dx dy -> zlen dbuf = dw * dh -> zlen sbuf = sw * sh ->
    (forall X Y, 0 <= X < dw -> 0 <= Y < dh -> cs_written sw sh sr dx dy X Y = false) ->
    composite_surface gr dw dh dbuf sw sh sbuf sr dx dy = Ok dbuf.
Proof. exact nothing_written_is_identity. Qed.
Print Assumptions C15_nothing_written_is_identity.
Theorem C15_empty_rect_selects_nothing :
  forall sw sh sr dx dy X Y, x1 sr <= x0 sr \/ y1 sr <= y0 sr -> cs_written sw sh sr dx dy X Y = false.
Proof. exact empty_rect_not_written. Qed.
Print Assumptions C15_empty_rect_selects_nothing.
Theorem C15_rect_off_the_source_selects_nothing :
  forall sw sh sr dx dy X Y,
    x1 sr <= 0 \/ y1 sr <= 0 \/ sw <= x0 sr \/ sh <= y0 sr -> cs_written sw sh sr dx dy X Y = false.
Proof. exact outlying_rect_not_written. Qed.
Print Assumptions C15_rect_off_the_source_selects_nothing.
Theorem C15_block_off_the_destination_selects_nothing :
  forall dw dh sw sh sr dx dy X Y, 0 <= X < dw -> 0 <= Y < dh ->
    dw <= dx \/ dh <= dy \/ dx + (x1 sr - x0 sr) <= 0 \/ dy + (y1 sr - y0 sr) <= 0 ->
    cs_written sw sh sr dx dy X Y = false.
Proof. exact outlying_dst_not_written. Qed.
Print Assumptions C15_block_off_the_destination_selects_nothing.

(* non-vacuity of the round trip: a 2x1 block of a 3x2 surface out and back *)
Example C15_round_trip_example :
  surface_op CsCopy 2 1 [9;9] 3 2 [1;2;3; 4;5;6] (mkrect 1 1 3 2) 0 0 = Ok [5;6] /\
  surface_op CsCopy 3 2 [1;2;3; 4;5;6] 2 1 [5;6] (mkrect 0 0 2 1) 1 1 = Ok [1;2;3; 4;5;6].
Proof. vm_compute. split; reflexivity. Qed.

(* non-vacuity: a 3x2 source copied with src_rect (1,0)-(3,2) to (1,1) of a 3x3 destination *)
Example C15_example :
  surface_op CsCopy 3 3 [0;0;0; 0;0;0; 0;0;0] 3 2 [1;2;3; 4;5;6] (mkrect 1 0 3 2) 1 1
  = Ok [0;0;0; 0;2;3; 0;5;6].
Proof. vm_compute. reflexivity. Qed.
