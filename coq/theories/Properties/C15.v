(* C15 - Surface copies and blends place exactly the requested block.
   Nothing but statements closed by `exact` and their assumptions. *)
Require Import RQ.Base RQ.Rect RQ.Pixel RQ.Surface RQ.SurfaceProofs.

(* For every per-pixel row function gr computing the total function g (copy, any blend mode
   that cannot trip a debug assertion, source-over by an alpha byte), every destination and
   source size (0 included), every src_rect (inside, overlapping, outside, empty, inverted) and
   every dst point - any integers at all, dom_ok only asks for non-negative sizes (the clipping is done
   in i64, where values derived from i32s cannot overflow): the call returns normally (no
   out-of-bounds access), the destination keeps its size, and destination pixel (X,Y) becomes
   g (source pixel at src_rect.min + (X,Y) - dst) (old value) exactly when that source position
   lies inside src_rect and inside the source; every other pixel keeps its value. *)
Theorem C15_block_transfer :
  forall (gr : Z -> Z -> result Z) (g : Z -> Z -> Z), (forall s d, gr s d = Ok (g s d)) ->
  forall dw dh dbuf sw sh sbuf sr dx dy,
    dom_ok dw dh sw sh sr dx dy -> zlen dbuf = dw * dh -> zlen sbuf = sw * sh ->
    exists buf', composite_surface gr dw dh dbuf sw sh sbuf sr dx dy = Ok buf' /\ zlen buf' = zlen dbuf /\
      forall X Y, 0 <= X < dw -> 0 <= Y < dh ->
        zn buf' (Y * dw + X) =
          if cs_written sw sh sr dx dy X Y
          then let '(SX, SY) := cs_src_pos sr dx dy X Y in g (zn sbuf (SY * sw + SX)) (zn dbuf (Y * dw + X))
          else zn dbuf (Y * dw + X).
Proof. exact composite_surface_block_transfer. Qed.
Print Assumptions C15_block_transfer.

(* the three entry points are instances *)
Theorem C15_copy_surface : forall s d, cs_fn CsCopy s d = Ok s.
Proof. exact (fun s d => eq_refl). Qed.
Theorem C15_blend_surface_with_alpha : forall a s d, cs_fn (CsAlpha a) s d = Ok (over_in s d a).
Proof. exact (fun a s d => eq_refl). Qed.
Theorem C15_blend_surface_porter_duff :
  forall m, In m [Dst; Src; Clear; SrcOver; DstOver; SrcIn; DstIn; SrcOut; DstOut] ->
  exists g, forall s d, cs_fn (CsBlend m) s d = Ok (g s d).
Proof. exact blend_porter_duff_total. Qed.
Print Assumptions C15_blend_surface_porter_duff.

(* non-vacuity: a 3x2 source copied with src_rect (1,0)-(3,2) to (1,1) of a 3x3 destination *)
Example C15_example :
  surface_op CsCopy 3 3 [0;0;0; 0;0;0; 0;0;0] 3 2 [1;2;3; 4;5;6] (mkrect 1 0 3 2) 1 1
  = Ok [0;0;0; 0;2;3; 0;5;6].
Proof. vm_compute. reflexivity. Qed.
