(* C16 - Flattening preserves geometry and subpath structure.
   PARTIAL: structure is proved (with lyon's per-curve points as an oracle input of the model); the deviation bound
   (8 x tolerance) is checked numerically on every output of the crate, not proved. *)
Require Import RQ.Base RQ.F32 RQ.Raster RQ.PathF RQ.PathOps RQ.MiscProofs.

Theorem C16_only_lines_partial : forall ops oracle cur start, forallb flat_op (flatten_ops ops oracle cur start) = true.
Proof. exact flatten_only_lines. Qed.
Print Assumptions C16_only_lines_partial.
Theorem C16_flat_path_unchanged_partial : forall ops oracle cur start, forallb flat_op ops = true -> flatten_ops ops oracle cur start = ops.
Proof. exact flatten_flat_identity. Qed.
Print Assumptions C16_flat_path_unchanged_partial.
Theorem C16_winding_preserved_partial : forall p oracle, p_winding (flatten p oracle) = p_winding p.
Proof. exact flatten_preserves_winding. Qed.
(* after Close the current point is the subpath's start: a curve following Close starts there *)
Theorem C16_curve_after_close_partial : forall s p c q rest,
  curve_starts (MoveTo s :: LineTo p :: Close :: QuadTo c q :: rest) None None = s :: curve_starts rest (Some q) (Some s).
Proof. exact flatten_after_close_starts_at_subpath_start. Qed.
(* a curve as first op starts at its control point, which is emitted so that the polygon is the one filling sees *)
Example C16_curve_first_op : forall c q l, flatten_ops [QuadTo c q] [[l; q]] None None = [LineTo c; LineTo l; LineTo q].
Proof. reflexivity. Qed.
