(* C16 - Flattening preserves geometry and subpath structure.
   PARTIAL: structure is proved (with lyon's per-curve points as an oracle input of the model); the deviation bound
   (8 x tolerance) is checked numerically on every output of the crate, not proved.
   Further down (PathShape.v): flatten op by op, MoveTo/LineTo/Close preserved, cursor preserved (also fill's), idempotence. *)
Require Import RQ.Base RQ.F32 RQ.Raster RQ.PathF RQ.PathOps RQ.MiscProofs.

Theorem C16_only_lines_partial : forall ops oracle cur start, forallb flat_op (flatten_ops ops oracle cur start) = true.
Proof. exact flatten_only_lines. Qed.
Print Assumptions C16_only_lines_partial.
Theorem C16_flat_path_unchanged_partial : forall ops oracle cur start, forallb flat_op ops = true -> flatten_ops ops oracle cur start = ops.
Proof. exact flatten_flat_identity. Qed.
Print Assumptions C16_flat_path_unchanged_partial.
Theorem C16_winding_preserved_partial : forall p oracle, p_winding (flatten p oracle) = p_winding p.
Proof. exact flatten_preserves_winding. Qed.
(* after Close the current point is the subpath's start: a curve following Close starts there *)
Theorem C16_curve_after_close_partial : forall s p c q rest,
  curve_starts (MoveTo s :: LineTo p :: Close :: QuadTo c q :: rest) None None = s :: curve_starts rest (Some q) (Some s).
Proof. exact flatten_after_close_starts_at_subpath_start. Qed.
(* a curve as first op starts at its control point, which is emitted so that the polygon is the one filling sees *)
Example C16_curve_first_op : forall c q l, flatten_ops [QuadTo c q] [[l; q]] None None = [LineTo c; LineTo l; LineTo q].
Proof. reflexivity. Qed.

(* ---- closed form of flatten and its cursor (PathShape.v) ---- *)
Require Import RQ.RasterGlue RQ.PathShape.

(* op by op: MoveTo / LineTo / Close are copied, a curve becomes (LineTo of its first control point when there is no
   current point, then) one LineTo per point the flattener returned for it *)
Theorem C16_flatten_op_by_op_partial : forall ops oracle cur start,
  flatten_ops ops oracle cur start = concat (flat_pieces ops oracle (cur, start)).
Proof. exact flatten_decomposition. Qed.
Print Assumptions C16_flatten_op_by_op_partial.

(* MoveTo / LineTo / Close and their order are preserved: dropping what came from curves leaves exactly the input's
   non-curve ops, and everything that came from a curve is a LineTo *)
Theorem C16_mlz_preserved_partial : forall ops oracle cur start,
  map snd (flat_tagged ops oracle (cur, start)) = flatten_ops ops oracle cur start /\
  map snd (filter (fun x => negb (fst x)) (flat_tagged ops oracle (cur, start))) = filter MiscProofs.flat_op ops /\
  (forall x, In x (flat_tagged ops oracle (cur, start)) -> fst x = true -> exists p, snd x = LineTo p).
Proof. exact flatten_preserves_mlz. Qed.
Print Assumptions C16_mlz_preserved_partial.

(* if the flattener ends every curve exactly at the curve's end point (checked on every output of the crate), the
   flattened path and the original have the same current point and subpath start after every prefix - also for the
   cursor DrawTarget::fill keeps (RasterGlue.c_op), under every transform: whatever follows starts at the same place *)
Theorem C16_cursor_preserved_partial : forall pre post oracle,
  oracle_ends_ok (pre ++ post) oracle ->
  let fpre := flatten_ops pre oracle None None in
  let k := fl_run (None, None) pre in
  flatten_ops (pre ++ post) oracle None None = fpre ++ flatten_ops post (skipn (ncurves pre) oracle) (fst k) (snd k) /\
  fl_run (None, None) fpre = k /\
  (forall t r r',
     let c := fold_left (RasterGlue.c_op t) fpre (mk_cursor None None r) in
     let c' := fold_left (RasterGlue.c_op t) pre (mk_cursor None None r') in
     cur c = cur c' /\ first c = first c') /\
  curve_starts (pre ++ post) None None = curve_starts pre None None ++ curve_starts post (fst k) (snd k).
Proof. exact flatten_curve_ends_exactly. Qed.
Print Assumptions C16_cursor_preserved_partial.

(* flattening twice changes nothing *)
Theorem C16_flatten_idempotent : forall ops oracle cur start oracle' cur' start',
  flatten_ops (flatten_ops ops oracle cur start) oracle' cur' start' = flatten_ops ops oracle cur start.
Proof. exact flatten_idempotent. Qed.
Print Assumptions C16_flatten_idempotent.

(* after Close the current point is the subpath's start, in the flattened path as in the original and in fill's cursor *)
(* further lemmas of the same file: flatten_cursor_after_close *)