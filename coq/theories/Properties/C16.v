(* C16 - placeholder until the theorems are in place. *)
Require Import RQ.Base.
Theorem C16_placeholder : True. Proof. exact I. Qed.
Print Assumptions C16_placeholder.
