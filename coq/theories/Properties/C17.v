(* C17 - contains_point agrees with the fill rule. *)
Require Import RQ.Base RQ.Raster RQ.Contains.

(* For every flat path (any number of subpaths, open or closed, either orientation,
   self-intersecting, with horizontal edges, with drawing ops directly after Close) given by exact
   coordinates, both winding rules and every query point: the crossing count kept by contains_point's
   WindState equals the winding number of the implicitly closed path (signed crossings of the
   leftward ray with the half-open rule, each counted when the exact crossing abscissa is strictly
   left of the point), and the answer is  inside(rule, winding number) || the point lies on a segment. *)
Theorem C17_contains_iff : forall rule ops x y,
  contains_Z rule ops x y = (inside rule (winding_number (path_edges ops None None) x y) || on_path (path_edges ops None None) x y).
Proof. exact contains_Z_correct. Qed.
Print Assumptions C17_contains_iff.

(* the side test is the comparison of the exact crossing abscissa with the query abscissa *)
Theorem C17_side_test_down : forall x1 y1 x2 y2 x y, y1 <= y < y2 ->
  (cross ((x1, y1), (x2, y2)) x y < 0 <-> (x2 - x1) * (y - y1) < (x - x1) * (y2 - y1)).
Proof. exact crossing_left_of_point. Qed.
Print Assumptions C17_side_test_down.
Theorem C17_side_test_up : forall x1 y1 x2 y2 x y, y2 <= y < y1 ->
  (0 < cross ((x1, y1), (x2, y2)) x y <-> (x2 - x1) * (y1 - y) < (x - x1) * (y1 - y2)).
Proof. exact crossing_left_of_point_up. Qed.
Print Assumptions C17_side_test_up.

(* a query level with a vertex joining two monotone edges counts that vertex once *)
Theorem C17_vertex_counted_once : forall xa ya xb yb xc yc x, ya < yb < yc -> xb < x ->
  crossing ((xa, ya), (xb, yb)) x yb + crossing ((xb, yb), (xc, yc)) x yb = -1.
Proof. exact vertex_counted_once. Qed.
Print Assumptions C17_vertex_counted_once.

(* non-vacuity: the triangle and the points of the defect report *)
Example C17_example :
  contains_Z NonZero [ZMove (0, 0); ZLine (-4, -4); ZLine (-4, 4); ZClose] 20 0 = false /\
  contains_Z NonZero [ZMove (0, 0); ZLine (-4, -4); ZLine (-4, 4); ZClose] (-2) 0 = true /\
  contains_Z EvenOdd [ZMove (0, 0); ZLine (4, 0)] 8 0 = false /\
  contains_Z EvenOdd [ZMove (0, 0); ZLine (4, 0)] 2 0 = true.
Proof. vm_compute. repeat split. Qed.
