(* C17 - contains_point agrees with the fill rule.
   Further down (ContainsF32.v, Flocq): the binary32 procedure equals the integer one, hence the statement, on the quarter grid within +-512 px. *)
Require Import RQ.Base RQ.Raster RQ.Contains.

(* For every flat path (any number of subpaths, open or closed, either orientation,
   self-intersecting, with horizontal edges, with drawing ops directly after Close) given by exact
   coordinates, both winding rules and every query point: the crossing count kept by contains_point's
   WindState equals the winding number of the implicitly closed path (signed crossings of the
   leftward ray with the half-open rule, each counted when the exact crossing abscissa is strictly
   left of the point), and the answer is  inside(rule, winding number) || the point lies on a segment. *)
Theorem C17_contains_iff : forall rule ops x y,
  contains_Z rule ops x y = (inside rule (winding_number (path_edges ops None None) x y) || on_path (path_edges ops None None) x y).
Proof. exact contains_Z_correct. Qed.
Print Assumptions C17_contains_iff.

(* the side test is the comparison of the exact crossing abscissa with the query abscissa *)
Theorem C17_side_test_down : forall x1 y1 x2 y2 x y, y1 <= y < y2 ->
  (cross ((x1, y1), (x2, y2)) x y < 0 <-> (x2 - x1) * (y - y1) < (x - x1) * (y2 - y1)).
Proof. exact crossing_left_of_point. Qed.
Print Assumptions C17_side_test_down.
Theorem C17_side_test_up : forall x1 y1 x2 y2 x y, y2 <= y < y1 ->
  (0 < cross ((x1, y1), (x2, y2)) x y <-> (x2 - x1) * (y1 - y) < (x - x1) * (y1 - y2)).
Proof. exact crossing_left_of_point_up. Qed.
Print Assumptions C17_side_test_up.

(* a query level with a vertex joining two monotone edges counts that vertex once *)
Theorem C17_vertex_counted_once : forall xa ya xb yb xc yc x, ya < yb < yc -> xb < x ->
  crossing ((xa, ya), (xb, yb)) x yb + crossing ((xb, yb), (xc, yc)) x yb = -1.
Proof. exact vertex_counted_once. Qed.
Print Assumptions C17_vertex_counted_once.

(* non-vacuity: the triangle and the points of the defect report *)
Example C17_example :
  contains_Z NonZero [ZMove (0, 0); ZLine (-4, -4); ZLine (-4, 4); ZClose] 20 0 = false /\
  contains_Z NonZero [ZMove (0, 0); ZLine (-4, -4); ZLine (-4, 4); ZClose] (-2) 0 = true /\
  contains_Z EvenOdd [ZMove (0, 0); ZLine (4, 0)] 8 0 = false /\
  contains_Z EvenOdd [ZMove (0, 0); ZLine (4, 0)] 2 0 = true.
Proof. vm_compute. repeat split. Qed.

(* ---- the binary32 procedure IS the integer procedure on the quarter-pixel grid (ContainsF32.v, Flocq) ---- *)
Require Import RQ.F32 RQ.PathF RQ.PathOps RQ.GridProofs RQ.ContainsF32.

(* for every flat path whose points are quarter-pixel multiples n/4 with |n| <= 2048 (+-512 px) and every such query
   point, the f32 model of Path::contains_point returns exactly the integer procedure's answer: the differences and the
   two products of the cross product are exact, the final subtraction may round but never across zero *)
Theorem C17_f32_procedure_is_the_integer_procedure_on_the_grid : forall rule ops zops x y nx ny,
  grid_ops_within 2048 ops zops -> fquarter x nx -> fquarter y ny -> Z.abs nx <= 2048 -> Z.abs ny <= 2048 ->
  contains_point_flat (mk_path ops rule) x y = Ok (contains_Z rule zops nx ny).
Proof. exact contains_point_flat_on_grid_2048. Qed.
Print Assumptions C17_f32_procedure_is_the_integer_procedure_on_the_grid.

(* ... and therefore the declarative statement: inside by the winding number of the implicitly closed path, or on a segment *)
Theorem C17_f32_procedure_is_the_statement_on_the_grid : forall rule ops zops x y nx ny,
  grid_ops_within 2048 ops zops -> fquarter x nx -> fquarter y ny -> Z.abs nx <= 2048 -> Z.abs ny <= 2048 ->
  contains_point_flat (mk_path ops rule) x y = Ok (contains_spec rule zops nx ny).
Proof. exact contains_point_flat_spec_on_grid_2048. Qed.
Print Assumptions C17_f32_procedure_is_the_statement_on_the_grid.

(* the bound is not an artefact: at |n| = 4096 the f32 cross product of a point one unit off a long edge rounds to zero
   and the procedure reports "on the outline" (a limit of binary32, inside the crate's contract: tolerance-free hit test) *)
Theorem C17_grid_bound_is_needed : 
  grid_ops_within 4096 sharp_ops sharp_zops /\ fquarter (of_quarter 4094) 4094 /\ fquarter (of_quarter 4095) 4095 /\
  contains_point_flat (mk_path sharp_ops NonZero) (of_quarter 4094) (of_quarter 4095) = Ok true /\
  contains_Z NonZero sharp_zops 4094 4095 = false.
Proof. exact bound_4096_fails. Qed.
Print Assumptions C17_grid_bound_is_needed.
