(* C18 - Premultiplied-alpha validity is preserved by every drawing operation.
   The pixel layer is proved in full here; the lift to every drawing call (all buffers stay premultiplied) is in
   PremulDraw.v when present - until then the operation-level statement is decided by the correspondence and the
   check of r,g,b <= a on every pixel the crate produces.  Blend mode Color is refuted (dependency defect, known finding). *)
Require Import RQ.Base RQ.Pixel RQ.PixelProofs.

(* (1) 24 of the 28 blend modes map premultiplied pixels to a premultiplied pixel and never trip an assertion *)
Theorem C18_blend_preserves_premul : forall m s d, In m separable_modes ->
  wf_px s -> wf_px d -> premul s = true -> premul d = true ->
  exists v, blend m s d = Ok v /\ wf_px v /\ premul v = true.
Proof. exact premul_blend_separable. Qed.
Print Assumptions C18_blend_preserves_premul.

(* (2) for ALL 28 modes: if the blend returns at all, the result is premultiplied *)
Theorem C18_blend_result_is_premul : forall m s d v, wf_px s -> wf_px d -> premul s = true -> premul d = true ->
  blend m s d = Ok v -> premul v = true /\ wf_px v.
Proof. exact blend_ok_premul_all. Qed.
Print Assumptions C18_blend_result_is_premul.

(* (3) the coverage / clip weighted pixel functions of the span blitters *)
Theorem C18_srcover_mask_pixel : forall s d m, wf_px s -> wf_px d -> premul s = true -> premul d = true -> byte m ->
  wf_px (over_in s d m) /\ premul (over_in s d m) = true.
Proof. exact premul_over_in. Qed.
Print Assumptions C18_srcover_mask_pixel.
Theorem C18_srcover_mask_clip_pixel : forall s d m c, wf_px s -> wf_px d -> premul s = true -> premul d = true -> byte m -> byte c ->
  wf_px (over_in_in s d m c) /\ premul (over_in_in s d m c) = true.
Proof. exact premul_over_in_in. Qed.
Print Assumptions C18_srcover_mask_clip_pixel.
Theorem C18_blend_mask_pixel : forall m s d mask, In m separable_modes ->
  wf_px s -> wf_px d -> premul s = true -> premul d = true -> byte mask ->
  exists v, blend_mask_px m s d mask = Ok v /\ wf_px v /\ premul v = true.
Proof. exact premul_blend_mask_px. Qed.
Print Assumptions C18_blend_mask_pixel.
Theorem C18_blend_mask_clip_pixel : forall m s d mask clip, In m separable_modes ->
  wf_px s -> wf_px d -> premul s = true -> premul d = true -> byte mask -> byte clip ->
  exists v, blend_mask_clip_px m s d mask clip = Ok v /\ wf_px v /\ premul v = true.
Proof. exact premul_blend_mask_clip_px. Qed.
Print Assumptions C18_blend_mask_clip_pixel.
(* (4) global alpha scaling and gradient table entries *)
Theorem C18_alpha_mul : forall x a, wf_px x -> premul x = true -> 0 <= a <= 256 -> wf_px (alpha_mul x a) /\ premul (alpha_mul x a) = true.
Proof. exact premul_alpha_mul. Qed.
Print Assumptions C18_alpha_mul.
Theorem C18_lut_entries : forall c, wf_px (premultiply_t c) /\ premul (premultiply_t c) = true.
Proof. exact premul_premultiply_t. Qed.
Print Assumptions C18_lut_entries.

(* (5) the dependency's Color mode does NOT preserve premultiplication (open known finding); Hue, Saturation and
   Luminosity can fail with an arithmetic overflow on premultiplied inputs (known finding of C07) *)
Theorem C18_Color_refuted : premul 3469623246 = true /\ premul 218959117 = true /\ blend Color 3469623246 218959117 = Err DebugAssert.
Proof. exact premul_blend_Color_refuted. Qed.
Print Assumptions C18_Color_refuted.
