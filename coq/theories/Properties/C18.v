(* C18 - placeholder until the theorems are in place. *)
Require Import RQ.Base RQ.Target.
Theorem C18_placeholder : True. Proof. exact I. Qed.
Print Assumptions C18_placeholder.
