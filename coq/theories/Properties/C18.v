(* C18 - Premultiplied-alpha validity is preserved by every drawing operation.
   The pixel layer (PixelProofs.v) and its lift to shaders, span blitters, composite and every DrawTarget operation
   (PremulDraw.v) are proved; the operation-level statements are in "if the call returns" form so that they cover all
   28 blend modes.  Blend mode Color is refuted as a total function (dependency defect, known finding). *)
Require Import RQ.Base RQ.Pixel RQ.PixelProofs RQ.Shader RQ.Surface RQ.Target RQ.ClipProofs RQ.PremulDraw.

(* (1) 24 of the 28 blend modes map premultiplied pixels to a premultiplied pixel and never trip an assertion *)
Theorem C18_blend_preserves_premul : forall m s d, In m separable_modes ->
  wf_px s -> wf_px d -> premul s = true -> premul d = true ->
  exists v, blend m s d = Ok v /\ wf_px v /\ premul v = true.
Proof. exact premul_blend_separable. Qed.
Print Assumptions C18_blend_preserves_premul.

(* (2) for ALL 28 modes: if the blend returns at all, the result is premultiplied *)
Theorem C18_blend_result_is_premul : forall m s d v, wf_px s -> wf_px d -> premul s = true -> premul d = true ->
  blend m s d = Ok v -> premul v = true /\ wf_px v.
Proof. exact blend_ok_premul_all. Qed.
Print Assumptions C18_blend_result_is_premul.

(* (3) the coverage / clip weighted pixel functions of the span blitters *)
Theorem C18_srcover_mask_pixel : forall s d m, wf_px s -> wf_px d -> premul s = true -> premul d = true -> byte m ->
  wf_px (over_in s d m) /\ premul (over_in s d m) = true.
Proof. exact premul_over_in. Qed.
Print Assumptions C18_srcover_mask_pixel.
Theorem C18_srcover_mask_clip_pixel : forall s d m c, wf_px s -> wf_px d -> premul s = true -> premul d = true -> byte m -> byte c ->
  wf_px (over_in_in s d m c) /\ premul (over_in_in s d m c) = true.
Proof. exact premul_over_in_in. Qed.
Print Assumptions C18_srcover_mask_clip_pixel.
Theorem C18_blend_mask_pixel : forall m s d mask, In m separable_modes ->
  wf_px s -> wf_px d -> premul s = true -> premul d = true -> byte mask ->
  exists v, blend_mask_px m s d mask = Ok v /\ wf_px v /\ premul v = true.
Proof. exact premul_blend_mask_px. Qed.
Print Assumptions C18_blend_mask_pixel.
Theorem C18_blend_mask_clip_pixel : forall m s d mask clip, In m separable_modes ->
  wf_px s -> wf_px d -> premul s = true -> premul d = true -> byte mask -> byte clip ->
  exists v, blend_mask_clip_px m s d mask clip = Ok v /\ wf_px v /\ premul v = true.
Proof. exact premul_blend_mask_clip_px. Qed.
Print Assumptions C18_blend_mask_clip_pixel.
(* (4) global alpha scaling and gradient table entries *)
Theorem C18_alpha_mul : forall x a, wf_px x -> premul x = true -> 0 <= a <= 256 -> wf_px (alpha_mul x a) /\ premul (alpha_mul x a) = true.
Proof. exact premul_alpha_mul. Qed.
Print Assumptions C18_alpha_mul.
Theorem C18_lut_entries : forall c, wf_px (premultiply_t c) /\ premul (premultiply_t c) = true.
Proof. exact premul_premultiply_t. Qed.
Print Assumptions C18_lut_entries.

(* (5) the dependency's Color mode does NOT preserve premultiplication (open known finding); Hue, Saturation and
   Luminosity can fail with an arithmetic overflow on premultiplied inputs (known finding of C07) *)
Theorem C18_Color_refuted : premul 3469623246 = true /\ premul 218959117 = true /\ blend Color 3469623246 218959117 = Err DebugAssert.
Proof. exact premul_blend_Color_refuted. Qed.
Print Assumptions C18_Color_refuted.

(* (6) the state invariant: instrumentation off, every pixel of the surface and of every open layer is a 32-bit word
   with r, g, b <= a, every clip mask entry is a byte *)
Theorem C18_invariant_is st :
  all_premul st <->
  d_probe st = 0 /\ Forall (fun p => wf_px p /\ premul p = true) (d_buf st) /\
  Forall (fun l => Forall (fun p => wf_px p /\ premul p = true) (l_buf l)) (d_layers st) /\
  Forall (fun c => match c_mask c with Some m => Forall (fun x => 0 <= x <= 255) m | None => True end) (d_clips st).
Proof. reflexivity. Qed.
Print Assumptions C18_invariant_is.

(* (7) every operation with premultiplied sources that returns preserves it (all 15 operations, all 28 blend modes) *)
Theorem C18_step st o st' : all_premul st -> op_ok o -> step_op st o = Ok st' -> all_premul st'.
Proof. exact (step_op_premul st o st'). Qed.
Print Assumptions C18_step.

(* (8) from a premultiplied surface, after any sequence of operations, the surface and every open layer are premultiplied *)
Theorem C18_premultiplied_alpha_preserved w h buf ops st' :
  Forall px_ok buf -> Forall op_ok ops -> run_ops (dt_new w h buf) ops = Ok st' ->
  Forall px_ok (d_buf st') /\ Forall layer_ok (d_layers st').
Proof. exact (C18_premultiplied_preserved w h buf ops st'). Qed.
Print Assumptions C18_premultiplied_alpha_preserved.

(* (9) Hue, Saturation and Luminosity can fail on premultiplied input with a u32 overflow in lum *)
Theorem C18_nonseparable_modes_can_fail :
  (premul 0x877c2f6e = true /\ premul 0x06010000 = true /\ blend Hue 0x877c2f6e 0x06010000 = Err PixelOverflow) /\
  (premul 0x8f675429 = true /\ premul 0x01000001 = true /\ blend Saturation 0x8f675429 0x01000001 = Err PixelOverflow) /\
  (premul 0x01010000 = true /\ premul 0xed9457ea = true /\ blend Luminosity 0x01010000 0xed9457ea = Err PixelOverflow).
Proof.
  exact (conj premul_blend_Hue_refuted (conj premul_blend_Saturation_refuted premul_blend_Luminosity_refuted)).
Qed.
Print Assumptions C18_nonseparable_modes_can_fail.
