(* C19 - Pixel word layout, byte views and PNG export agree. *)
Require Import RQ.Base RQ.Pixel RQ.PixelFormat RQ.MiscProofs.

(* the byte view of a word is B, G, R, A (little endian) and determines the word *)
Theorem C19_bytes_are_bgra : forall p, word_bytes p = [get_b p; get_g p; get_r p; get_a p].
Proof. exact word_bytes_are_bgra. Qed.
Theorem C19_word_bytes_roundtrip : forall p, 0 <= p < 4294967296 -> bytes_word (word_bytes p) = p.
Proof. exact word_bytes_roundtrip. Qed.
Print Assumptions C19_word_bytes_roundtrip.
Theorem C19_byte_view_length : forall buf, length (byte_view buf) = (4 * length buf)%nat.
Proof. exact byte_view_length. Qed.
(* write_png: alpha unchanged, each colour floor(c*255/a) for premultiplied pixels, transparent pixels passed through,
   4 bytes per pixel in buffer (row-major) order *)
Theorem C19_png_pixel : forall p,
  let a := get_a p in let r := get_r p in let g := get_g p in let b := get_b p in
  0 < a -> r <= a -> g <= a -> b <= a -> 0 <= r -> 0 <= g -> 0 <= b -> a <= 255 ->
  png_pixel p = [r * 255 / a; g * 255 / a; b * 255 / a; a].
Proof. exact png_pixel_unpremultiplies. Qed.
Print Assumptions C19_png_pixel.
Theorem C19_png_transparent : forall p, get_a p = 0 -> png_pixel p = [get_r p; get_g p; get_b p; 0].
Proof. exact png_pixel_transparent. Qed.
Theorem C19_png_row_major : forall buf, length (png_bytes buf) = (4 * length buf)%nat.
Proof. exact png_is_row_major. Qed.
(* from_vec keeps a buffer of the right size unchanged and always yields w*h words *)
Theorem C19_from_vec : forall w h v, (zlen v = w * h -> from_vec w h v = v) /\ (0 <= w * h -> zlen (from_vec w h v) = w * h).
Proof. exact (fun w h v => conj (from_vec_exact w h v) (from_vec_length w h v)). Qed.
Print Assumptions C19_from_vec.
Example C19_example : word_bytes 2155876368 = [16; 16; 128; 128] /\ png_pixel 2155876368 = [255; 31; 31; 128].
Proof. vm_compute. split; reflexivity. Qed.
