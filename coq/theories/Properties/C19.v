(* C19 - placeholder until the theorems are in place. *)
Require Import RQ.Base.
Theorem C19_placeholder : True. Proof. exact I. Qed.
Print Assumptions C19_placeholder.
