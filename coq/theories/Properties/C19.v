(* C19 - Pixel word layout, byte views and PNG export agree. *)
Require Import RQ.Base RQ.Pixel RQ.PixelProofs RQ.PixelFormat RQ.MiscProofs RQ.FormatProofs.

(* the byte view of a word is B, G, R, A (little endian) and determines the word *)
Theorem C19_bytes_are_bgra : forall p, word_bytes p = [get_b p; get_g p; get_r p; get_a p].
Proof. exact word_bytes_are_bgra. Qed.
Theorem C19_word_bytes_roundtrip : forall p, 0 <= p < 4294967296 -> bytes_word (word_bytes p) = p.
Proof. exact word_bytes_roundtrip. Qed.
Print Assumptions C19_word_bytes_roundtrip.
Theorem C19_byte_view_length : forall buf, length (byte_view buf) = (4 * length buf)%nat.
Proof. exact byte_view_length. Qed.
(* write_png: alpha unchanged, each colour floor(c*255/a) for premultiplied pixels, transparent pixels passed through,
   4 bytes per pixel in buffer (row-major) order *)
Theorem C19_png_pixel : forall p,
  let a := get_a p in let r := get_r p in let g := get_g p in let b := get_b p in
  0 < a -> r <= a -> g <= a -> b <= a -> 0 <= r -> 0 <= g -> 0 <= b -> a <= 255 ->
  png_pixel p = [r * 255 / a; g * 255 / a; b * 255 / a; a].
Proof. exact png_pixel_unpremultiplies. Qed.
Print Assumptions C19_png_pixel.
Theorem C19_png_transparent : forall p, get_a p = 0 -> png_pixel p = [get_r p; get_g p; get_b p; 0].
Proof. exact png_pixel_transparent. Qed.
Theorem C19_png_row_major : forall buf, length (png_bytes buf) = (4 * length buf)%nat.
Proof. exact png_is_row_major. Qed.
(* from_vec keeps a buffer of the right size unchanged and always yields w*h words *)
Theorem C19_from_vec : forall w h v, (zlen v = w * h -> from_vec w h v = v) /\ (0 <= w * h -> zlen (from_vec w h v) = w * h).
Proof. exact (fun w h v => conj (from_vec_exact w h v) (from_vec_length w h v)). Qed.
Print Assumptions C19_from_vec.
(* SolidSource::to_u32 is the word (A<<24)|(R<<16)|(G<<8)|B, and its byte view is B, G, R, A *)
Theorem C19_to_u32_word : forall a r g b, byte a -> byte r -> byte g -> byte b ->
  to_u32 a r g b = 16777216 * a + 65536 * r + 256 * g + b /\ word_bytes (to_u32 a r g b) = [b; g; r; a].
Proof. exact (fun a r g b Ha Hr Hg Hb => conj (to_u32_value a r g b Ha Hr Hg Hb) (to_u32_bytes a r g b Ha Hr Hg Hb)). Qed.
Print Assumptions C19_to_u32_word.
(* four bytes determine the word whose bytes they are (the other direction of the round trip) *)
Theorem C19_bytes_word_roundtrip : forall b0 b1 b2 b3, byte b0 -> byte b1 -> byte b2 -> byte b3 ->
  word_bytes (bytes_word [b0; b1; b2; b3]) = [b0; b1; b2; b3].
Proof. exact bytes_word_roundtrip. Qed.
Print Assumptions C19_bytes_word_roundtrip.
(* a store of byte v at position j of a word through the byte view (store_byte = the word set_byte writes back):
   reading the bytes back gives v at j and the old bytes elsewhere ... *)
Theorem C19_byte_store_visible_in_byte_view : forall w j v, 0 <= j < 4 -> byte v ->
  word_bytes (store_byte w j v) = splice (word_bytes w) j [v].
Proof. exact store_byte_visible. Qed.
Print Assumptions C19_byte_store_visible_in_byte_view.
(* ... and through the word view: position 0,1,2,3 is channel B,G,R,A; that channel becomes v, the other three keep
   their values (for every word, also one wider than 32 bits) *)
Theorem C19_byte_store_visible_in_word_view : forall w v, byte v ->
  (get_b (store_byte w 0 v) = v /\ get_g (store_byte w 0 v) = get_g w /\ get_r (store_byte w 0 v) = get_r w /\ get_a (store_byte w 0 v) = get_a w) /\
  (get_b (store_byte w 1 v) = get_b w /\ get_g (store_byte w 1 v) = v /\ get_r (store_byte w 1 v) = get_r w /\ get_a (store_byte w 1 v) = get_a w) /\
  (get_b (store_byte w 2 v) = get_b w /\ get_g (store_byte w 2 v) = get_g w /\ get_r (store_byte w 2 v) = v /\ get_a (store_byte w 2 v) = get_a w) /\
  (get_b (store_byte w 3 v) = get_b w /\ get_g (store_byte w 3 v) = get_g w /\ get_r (store_byte w 3 v) = get_r w /\ get_a (store_byte w 3 v) = v).
Proof. exact store_byte_channels. Qed.
Print Assumptions C19_byte_store_visible_in_word_view.
(* the byte view is laid out word after word: byte 4i+j of the view is byte j of word i *)
Theorem C19_byte_view_layout : forall buf i j, (i < length buf)%nat -> (j < 4)%nat ->
  nth (4 * i + j) (byte_view buf) 0 = nth j (word_bytes (nth i buf 0)) 0.
Proof. exact byte_view_nth. Qed.
Print Assumptions C19_byte_view_layout.
(* set_byte writes exactly that word *)
Theorem C19_set_byte_is_store_byte : forall buf k v,
  set_byte buf k v = splice buf (k / 4) [store_byte (zn buf (k / 4)) (k mod 4) v].
Proof. exact (fun buf k v => eq_refl). Qed.
Example C19_store_example : store_byte 2155876368 2 255 = 2164199440 /\ get_r 2164199440 = 255 /\ get_g 2164199440 = 16.
Proof. vm_compute. repeat split; reflexivity. Qed.
Example C19_example : word_bytes 2155876368 = [16; 16; 128; 128] /\ png_pixel 2155876368 = [255; 31; 31; 128].
Proof. vm_compute. split; reflexivity. Qed.
