(* C20 - PathBuilder helpers and Path::transform produce the documented geometry.
   PARTIAL: rect, transform and finish are proved (structure; the coordinates are the f32 sums / products of the code);
   the arc's radius band, angles and direction are checked numerically on every output of the crate (lyon is an oracle).
   Further down (PathShape.v): builder calls in order, structure of arc (transcription of lyon's arc, curve count compared with the crate), transform structure. *)
Require Import RQ.Base RQ.F32 RQ.Raster RQ.PathF RQ.PathOps RQ.MiscProofs.

Theorem C20_rect_ops_partial : forall x y w h,
  builder_rect x y w h = [MoveTo (x, y); LineTo (fadd x w, y); LineTo (fadd x w, fadd y h); LineTo (x, fadd y h); Close].
Proof. exact rect_ops. Qed.
Theorem C20_transform_maps_every_point_partial : forall t p,
  length (p_ops (path_transform t p)) = length (p_ops p) /\ p_winding (path_transform t p) = p_winding p /\
  forall i, nth i (p_ops (path_transform t p)) Close = op_transform t (nth i (p_ops p) Close).
Proof. exact transform_preserves_structure. Qed.
Print Assumptions C20_transform_maps_every_point_partial.

(* ---- builder calls, the arc's structure, transform (PathShape.v, PathShapeArc.v) ---- *)
Require Import RQ.PathShape RQ.PathShapeArc.

(* finish() returns the ops of the calls in call order, NonZero.  b_run transcribes PathBuilder's methods as the pushes
   they make (path_builder.rs); lyon's arc is a parameter *)
Theorem C20_finish_returns_ops_in_call_order_partial : forall lyon_arc calls,
  p_ops (b_run lyon_arc b_new calls) = flat_map (call_ops lyon_arc) calls /\
  p_winding (b_run lyon_arc b_new calls) = NonZero.
Proof. exact finish_returns_ops_in_call_order. Qed.
Print Assumptions C20_finish_returns_ops_in_call_order_partial.

(* arc: a LineTo to the point at the start angle, then k quadratic curves, k = ceil(min(|sweep|, 2 pi) / (pi/4)) <= 8 in
   binary32 (so a sweep beyond one turn gives one full circle), the last one ending at the angle start + clamped sweep.
   builder_arc transcribes lyon_geom 1.0's Arc::for_each_quadratic_bezier with libm's sinf/cosf/tanf as parameters; the
   curve count is compared with the crate on every run (C20 check), the points are judged by the f64 oracle *)
Theorem C20_arc_structure_partial : forall (fsin fcos ftan : f32 -> f32) x y r start sweep,
  let k := arc_nsteps sweep in
  builder_arc fsin fcos ftan x y r start sweep =
    LineTo (arc_from fsin fcos x y r start sweep)
    :: map (fun i => QuadTo (arc_ctrl fsin fcos ftan x y r start sweep i)
                            (arc_point fsin fcos x y r (arc_angle start sweep (i + 1)))) (zrange 0 k) /\
  length (builder_arc fsin fcos ftan x y r start sweep) = S (Z.to_nat k) /\
  forallb is_quad_op (tl (builder_arc fsin fcos ftan x y r start sweep)) = true /\
  k = fceil_z (fdiv (fmin (fabs sweep) f_two_pi) f_frac_pi_4) /\
  arc_from fsin fcos x y r start sweep =
    (let a := fadd start (fmul sweep f0) in
     let cx := fmul r (fcos a) in let sy := fmul r (fsin a) in
     (fadd x (fsub (fmul cx f1) (fmul sy f0)), fadd y (fadd (fmul sy f1) (fmul cx f0)))) /\
  (0 < k -> exists c, last (builder_arc fsin fcos ftan x y r start sweep) Close =
                      QuadTo c (arc_point fsin fcos x y r (arc_angle start sweep k))).
Proof. exact arc_structure. Qed.
Print Assumptions C20_arc_structure_partial.
Theorem C20_arc_curve_count_partial : forall sweep, 0 <= arc_nsteps sweep <= 8.
Proof. exact arc_nsteps_bound. Qed.
Print Assumptions C20_arc_curve_count_partial.

(* transform: number, kind and order of ops and the winding rule are kept, every point of every op is mapped *)
Theorem C20_transform_preserves_structure_partial : forall t p,
  length (p_ops (path_transform t p)) = length (p_ops p) /\
  map op_kind (p_ops (path_transform t p)) = map op_kind (p_ops p) /\
  map op_points (p_ops (path_transform t p)) = map (fun o => map (xf_point t) (op_points o)) (p_ops p) /\
  p_winding (path_transform t p) = p_winding p /\
  map MiscProofs.flat_op (p_ops (path_transform t p)) = map MiscProofs.flat_op (p_ops p) /\
  filter MiscProofs.flat_op (p_ops (path_transform t p)) = map (op_transform t) (filter MiscProofs.flat_op (p_ops p)).
Proof. exact transform_preserves_structure_strong. Qed.
Print Assumptions C20_transform_preserves_structure_partial.
(* composing two transforms is NOT the transform of the composition in binary32 *)
(* further lemmas of the same file: transform_composition_counterexample *)