(* C20 - PathBuilder helpers and Path::transform produce the documented geometry.
   PARTIAL: rect, transform and finish are proved (structure; the coordinates are the f32 sums / products of the code);
   the arc's radius band, angles and direction are checked numerically on every output of the crate (lyon is an oracle). *)
Require Import RQ.Base RQ.F32 RQ.Raster RQ.PathF RQ.PathOps RQ.MiscProofs.

Theorem C20_rect_ops_partial : forall x y w h,
  builder_rect x y w h = [MoveTo (x, y); LineTo (fadd x w, y); LineTo (fadd x w, fadd y h); LineTo (x, fadd y h); Close].
Proof. exact rect_ops. Qed.
Theorem C20_transform_maps_every_point_partial : forall t p,
  length (p_ops (path_transform t p)) = length (p_ops p) /\ p_winding (path_transform t p) = p_winding p /\
  forall i, nth i (p_ops (path_transform t p)) Close = op_transform t (nth i (p_ops p) Close).
Proof. exact transform_preserves_structure. Qed.
Print Assumptions C20_transform_maps_every_point_partial.
