(* C20 - placeholder until the theorems are in place. *)
Require Import RQ.Base.
Theorem C20_placeholder : True. Proof. exact I. Qed.
Print Assumptions C20_placeholder.
