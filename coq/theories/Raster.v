(* The scanline rasteriser (rasterizer.rs) and the two coverage accumulators
   (MaskSuperBlitter, MaskBlitter of blitter.rs), all on integers.
   Coordinates: dot2 = quarter pixels (30.2), dot16 = dot2 << 14 (16.16 in pixel units << ... ),
   as in the code.  Edge geometry is not overflow-checked here: the working range
   (|coordinates| <= 4000 px) keeps every i32 expression in range (C07); the one deliberate
   wrap of the code (the `as i32` in div_fixed16_fixed16) is explicit. *)
Require Import RQ.Base RQ.Rect.

Inductive winding_rule := NonZero | EvenOdd.
Definition inside (r : winding_rule) (w : Z) : bool :=
  match r with NonZero => negb (w =? 0) | EvenOdd => negb (Z.land w 1 =? 0) end.

Record aedge := mk_aedge {
  e_x2 : Z; e_y2 : Z; e_slope : Z; e_fullx : Z; e_nextx : Z; e_nexty : Z;
  e_dx : Z; e_ddx : Z; e_dy : Z; e_ddy : Z; e_oldx : Z; e_oldy : Z;
  e_shift : Z; e_count : Z; e_wind : Z;
  e_err : bool   (* a division by zero happened while stepping this edge (Rust would panic) *)
}.

Definition dot16_to_dot2 (v : Z) : Z := Z.shiftr v 14.
Definition dot2_to_dot16 (v : Z) : Z := v * 16384.
Definition dot2_to_int (v : Z) : Z := Z.shiftr v 2.

(* (((a as i64) << 16) / (b as i64)) as i32 ; None when b = 0 *)
Definition div_fixed16_fixed16 (a b : Z) : option Z :=
  if b =? 0 then None else Some (wrap32 (Z.quot (a * 65536) b)).

(* one forward-difference step of a curve edge *)
Definition curve_next (e : aedge) : aedge :=
  mk_aedge (e_x2 e) (e_y2 e) (e_slope e) (e_fullx e)
    (e_nextx e + Z.shiftr (e_dx e) (e_shift e)) (e_nexty e + Z.shiftr (e_dy e) (e_shift e))
    (e_dx e + e_ddx e) (e_ddx e) (e_dy e + e_ddy e) (e_ddy e) (e_oldx e) (e_oldy e)
    (e_shift e) (e_count e - 1) (e_wind e) (e_err e).

(* while count > 0 && cury >= dot16_to_dot2(next_y) { ... } ; count <= 64 so 64 rounds suffice *)
Fixpoint curve_advance (fuel : nat) (cury : Z) (e : aedge) : aedge :=
  match fuel with
  | O => e
  | S k => if (0 <? e_count e) && (dot16_to_dot2 (e_nexty e) <=? cury)
           then curve_advance k cury (curve_next e) else e
  end.

Definition set_next_to_end (e : aedge) : aedge :=
  if e_count e =? 0 then
    mk_aedge (e_x2 e) (e_y2 e) (e_slope e) (e_fullx e) (dot2_to_dot16 (e_x2 e)) (dot2_to_dot16 (e_y2 e))
      (e_dx e) (e_ddx e) (e_dy e) (e_ddy e) (e_oldx e) (e_oldy e) (e_shift e) (e_count e) (e_wind e) (e_err e)
  else e.

Definition with_fullx (e : aedge) (fx : Z) : aedge :=
  mk_aedge (e_x2 e) (e_y2 e) (e_slope e) fx (e_nextx e) (e_nexty e) (e_dx e) (e_ddx e) (e_dy e) (e_ddy e)
    (e_oldx e) (e_oldy e) (e_shift e) (e_count e) (e_wind e) (e_err e).

(* ActiveEdge::step *)
Definition step (e : aedge) (cury : Z) : aedge :=
  if e_shift e =? 0 then with_fullx e (e_fullx e + e_slope e) else
  if dot16_to_dot2 (e_nexty e) <=? cury then
    let e := mk_aedge (e_x2 e) (e_y2 e) (e_slope e) (e_nextx e) (e_nextx e) (e_nexty e)
               (e_dx e) (e_ddx e) (e_dy e) (e_ddy e) (e_nextx e) (e_nexty e)
               (e_shift e) (e_count e) (e_wind e) (e_err e) in
    let e := set_next_to_end (curve_advance 64 cury e) in
    if cury + 1 <? e_y2 e then
      match div_fixed16_fixed16 (e_nextx e - e_oldx e) (e_nexty e - e_oldy e) with
      | Some q =>
          (* the new segment starts at old_y, part of the way through this sample row: advance by the rest of the row *)
          let slope := Z.quot q 4 in
          let rest := dot2_to_dot16 (cury + 1) - e_oldy e in
          mk_aedge (e_x2 e) (e_y2 e) slope (e_fullx e + Z.shiftr (slope * rest) 14) (e_nextx e) (e_nexty e)
            (e_dx e) (e_ddx e) (e_dy e) (e_ddy e) (e_oldx e) (e_oldy e) (e_shift e) (e_count e) (e_wind e) (e_err e)
      | None =>
          mk_aedge (e_x2 e) (e_y2 e) (e_slope e) (e_fullx e + e_slope e) (e_nextx e) (e_nexty e)
            (e_dx e) (e_ddx e) (e_dy e) (e_ddy e) (e_oldx e) (e_oldy e) (e_shift e) (e_count e) (e_wind e) true
      end
    else with_fullx e (e_fullx e + e_slope e)
  else with_fullx e (e_fullx e + e_slope e).

(* step while cury < 0 (edges starting above the surface) *)
Fixpoint prestep (n : nat) (e : aedge) (cury : Z) : aedge * Z :=
  match n with
  | O => (e, cury)
  | S k => if cury <? 0 then prestep k (step e cury) (cury + 1) else (e, cury)
  end.

(* the same for curve edges without visiting every row: while cury < dot16_to_dot2(next_y) a step only adds
   slope_x, so those rows are taken in one jump; a row that reaches next_y is a real step *)
Fixpoint prestep_fast (fuel : nat) (e : aedge) (cury : Z) : aedge * Z :=
  match fuel with
  | O => prestep (Z.to_nat (- cury)) e cury
  | S k =>
      if cury <? 0 then
        let ny := dot16_to_dot2 (e_nexty e) in
        if ny <=? cury then prestep_fast k (step e cury) (cury + 1)
        else let n := Z.min (- cury) (ny - cury) in
             prestep_fast k (with_fullx e (e_fullx e + n * e_slope e)) (cury + n)
      else (e, cury)
  end.

(* ---- the rasteriser state ---- *)
Record rast := mk_rast {
  r_w4 : Z; r_h4 : Z;                       (* width and height in dot2 *)
  r_top : Z; r_bottom : Z; r_left : Z; r_right : Z;   (* bounds of the added edges, in pixels *)
  r_starts : list (Z * aedge);              (* edge_starts: (row, edge), most recently added first *)
  r_active : list aedge
}.

Definition rast_new (w h : Z) : rast := mk_rast (w * 4) (h * 4) h 0 w 0 [] [].

Definition leading_zeros32 (v : Z) : Z := if v <=? 0 then 32 else 32 - Z.log2 v - 1.
Definition cheap_distance (dx dy : Z) : Z :=
  let dx := Z.abs dx in let dy := Z.abs dy in
  if dy <? dx then dx + Z.shiftr dy 1 else dy + Z.shiftr dx 1.
Definition diff_to_shift (dx dy : Z) : Z :=
  let dist := Z.shiftr (cheap_distance dx dy + 16) 5 in
  Z.shiftr (32 - leading_zeros32 dist) 1.

(* Rasterizer::add_edge on converted coordinates.  (sx,sy) (ex,ey) are start and end in dot2,
   swap says whether the float comparison end.y < start.y held, (cx,cy) is the control point. *)
Definition add_edge (r : rast) (swap : bool) (sx sy ex ey : Z) (curve : bool) (cx cy : Z) : rast :=
  let '(x1, y1, x2, y2, w) := if swap then (ex, ey, sx, sy, -1) else (sx, sy, ex, ey, 1) in
  if (y2 <? 0) || (r_h4 r <=? y1) then r else
  if y2 <=? y1 then r else
  let top := Z.min (r_top r) (dot2_to_int y1) in
  let bottom := Z.max (r_bottom r) (dot2_to_int (y2 + 3)) in
  let left := Z.min (Z.min (r_left r) (dot2_to_int x1)) (dot2_to_int x2) in
  let right := Z.max (Z.max (r_right r) (dot2_to_int (x1 + 3))) (dot2_to_int (x2 + 3)) in
  let left := if curve then Z.min left (dot2_to_int cx) else left in
  let right := if curve then Z.max right (dot2_to_int (cx + 3)) else right in
  let fullx := dot2_to_dot16 x1 in
  let e :=
    if curve then
      let A := (x1 - cx - cx + x2) * 8192 in
      let B := cx - x1 in
      let shift0 := diff_to_shift ((cx * 2 - x1 - x2) * 16) ((cy * 2 - y1 - y2) * 16) in
      let shift := if shift0 =? 0 then 1 else if 6 <? shift0 then 6 else shift0 in
      let count := Z.shiftl 1 shift in
      let dx := 2 * Z.shiftr A shift + 2 * B * 16384 in
      let ddx := 2 * Z.shiftr A (shift - 1) in
      let A := (y1 - cy - cy + y2) * 8192 in
      let B := cy - y1 in
      let dy := 2 * Z.shiftr A shift + 2 * B * 16384 in
      let ddy := 2 * Z.shiftr A (shift - 1) in
      let count := count - 1 in
      let next_x := fullx + Z.shiftr dx shift in
      let next_y := y1 * 16384 + Z.shiftr dy shift in
      let e := mk_aedge x2 y2 0 fullx next_x next_y (dx + ddx) ddx (dy + ddy) ddy 0 0 shift count w false in
      let e := set_next_to_end (curve_advance 64 y1 e) in
      let den := dot16_to_dot2 (e_nexty e - dot2_to_dot16 y1) in
      mk_aedge x2 y2 (Z.quot (e_nextx e - fullx) den) fullx (e_nextx e) (e_nexty e) (e_dx e) (e_ddx e) (e_dy e) (e_ddy e)
        0 0 shift (e_count e) w (den =? 0)
    else
      mk_aedge x2 y2 (Z.quot ((x2 - x1) * 16384) (y2 - y1)) fullx 0 0 0 0 0 0 0 0 0 0 w false in
  (* a straight edge steps by a constant: stepping it -y1 times is one multiplication (prestep_line below) *)
  let '(e, cury) := if y1 <? 0 then
                      (if curve then prestep_fast 200 e y1 else (with_fullx e (e_fullx e + (- y1) * e_slope e), 0))
                    else (e, y1) in
  let r' := mk_rast (r_w4 r) (r_h4 r) top bottom left right in
  if (y1 <? 0) && (y2 <=? cury) && negb (e_err e) then r' (r_starts r) (r_active r)
  else r' ((cury, e) :: r_starts r) (r_active r).

(* Rasterizer::get_bounds *)
Definition get_bounds (r : rast) : rect :=
  mkrect (Z.max (r_left r) 0) (Z.max (r_top r) 0)
         (Z.min (r_right r) (dot2_to_int (r_w4 r))) (Z.min (r_bottom r) (dot2_to_int (r_h4 r))).

(* Rasterizer::reset *)
Definition reset (r : rast) : rast :=
  if r_bottom r <? r_top r then r else
  let start := Z.max (r_top r * 4) 0 in
  let end_ := Z.min (r_bottom r * 4) (r_h4 r) in
  mk_rast (r_w4 r) (r_h4 r) (dot2_to_int (r_h4 r)) 0 (dot2_to_int (r_w4 r)) 0
    (filter (fun p => negb ((start <=? fst p) && (fst p <? end_))) (r_starts r)) [].

Definition rast_idle (r : rast) : bool :=
  match r_starts r, r_active r with
  | [], [] => (r_bottom r =? 0) && (r_right r =? 0) && (r_top r =? dot2_to_int (r_h4 r)) && (r_left r =? dot2_to_int (r_w4 r))
  | _, _ => false
  end.

(* insert before the first element whose fullx is >= ours *)
Fixpoint insert_edge (e : aedge) (l : list aedge) : list aedge :=
  match l with
  | [] => [e]
  | a :: t => if e_fullx e <=? e_fullx a then e :: l else a :: insert_edge e t
  end.
(* insert_starting_edges: insertion-sort this row's new edges, then merge them into the active list *)
Definition insert_starting (new_edges active : list aedge) : list aedge :=
  let sorted_new := fold_left (fun acc e => insert_edge e acc) new_edges [] in
  fold_left (fun acc e => insert_edge e acc) sorted_new active.

Definition rnd (f : Z) : Z := dot16_to_dot2 (f + 8192).

(* scan_edges: the spans (x1, x2) in dot2 handed to the blitter for the current row *)
Fixpoint skip_left (l : list aedge) (w : Z) : list aedge * Z :=
  match l with
  | e :: t => if e_fullx e <? 0 then skip_left t (w + e_wind e) else (l, w)
  | [] => ([], w)
  end.
Fixpoint scan (rule : winding_rule) (w4 : Z) (l : list aedge) (w prevx : Z) : list (Z * Z) :=
  match l with
  | [] => []
  | e :: t =>
      let sp := if inside rule w then [(rnd prevx, rnd (e_fullx e))] else [] in
      if w4 <=? dot16_to_dot2 (e_fullx e) then sp else sp ++ scan rule w4 t (w + e_wind e) (e_fullx e)
  end.
Definition scan_edges (rule : winding_rule) (w4 : Z) (active : list aedge) : list (Z * Z) :=
  let '(l, w) := skip_left active 0 in scan rule w4 l w 0.

(* step_edges: step every edge, drop the finished ones *)
Definition step_edges (active : list aedge) (cury : Z) : list aedge :=
  filter (fun e => negb (e_y2 e <=? cury + 1)) (map (fun e => step e cury) active).
(* sort_edges (bubble sort; only the sorted order is observable): stable insertion sort *)
Fixpoint insert_sorted (e : aedge) (l : list aedge) : list aedge :=
  match l with
  | [] => [e]
  | a :: t => if e_fullx a <=? e_fullx e then a :: insert_sorted e t else e :: l
  end.
Definition sort_edges (l : list aedge) : list aedge := fold_left (fun acc e => insert_sorted e acc) l [].

(* ---- coverage accumulators ---- *)
Record maskbuf := mk_maskbuf { m_x : Z; m_y : Z; m_w : Z; m_buf : list Z }.   (* m_x, m_y in dot2 *)
Definition maskbuf_new (x y w h : Z) : maskbuf := mk_maskbuf (x * 4) (y * 4) w (repeat 0 (Z.to_nat (w * h + 1))).

Definition saturated_add (a b : Z) : Z := let t := a + b in wrapu8 (t - Z.shiftr t 8).
Definition coverage_to_partial_alpha (aa : Z) : Z := wrapu8 (aa * 16).

Fixpoint add_all (l : list Z) (v : Z) : result (list Z) :=
  match l with
  | [] => Ok []
  | x :: t => if 255 <? x + v then Err Overflow else do t' <- add_all t v; Ok (x + v :: t')
  end.

(* MaskSuperBlitter::blit_span *)
Definition blit_super (m : maskbuf) (y x1 x2 : Z) : result maskbuf :=
  let y := y - m_y m in
  let x1 := x1 - m_x m in
  let x2 := Z.min (x2 - m_x m) (m_w m * 4) in
  let max := 64 - Z.shiftr (Z.land y 3 + 1) 2 in
  let start := Z.quot y 4 * m_w m in
  let fb := Z.land x1 3 in
  let fe := Z.land x2 3 in
  let lo := start + Z.shiftr x1 2 in
  let hi := start + Z.shiftr x2 2 + 1 in
  (* the code casts y/4*width, x1>>2 and x2>>2 to usize separately *)
  if (start <? 0) || (x1 <? 0) || (x2 <? 0) then Err OutOfBounds else
  do b <- slice (m_buf m) lo hi;
  let len := zlen b in
  do b' <-
    (if len =? 0 then Ok b
     else if len =? 1 then
       match b with x :: _ => Ok [saturated_add x (coverage_to_partial_alpha (fe - fb))] | [] => Ok b end
     else
       match b with
       | x :: rest =>
           let mid := firstn (Z.to_nat (len - 2)) rest in
           let last := nth (Z.to_nat (len - 2)) rest 0 in
           do mid' <- add_all mid max;
           Ok (saturated_add x (coverage_to_partial_alpha (4 - fb)) :: mid' ++ [saturated_add last (coverage_to_partial_alpha fe)])
       | [] => Ok b
       end);
  Ok (mk_maskbuf (m_x m) (m_y m) (m_w m) (splice (m_buf m) lo b')).

(* MaskBlitter::blit_span *)
Fixpoint set_ff (buf : list Z) (is_ : list Z) : result (list Z) :=
  match is_ with
  | [] => Ok buf
  | i :: t => do buf' <- set buf i 255; set_ff buf' t
  end.
Definition blit_mask (m : maskbuf) (y x1 x2 : Z) : result maskbuf :=
  let y := y - m_y m in
  let x1 := x1 - m_x m in
  let x2 := x2 - m_x m in
  if negb (Z.rem y 4 =? 0) then Ok m else
  let x2 := Z.min x2 (m_w m * 4) in
  let x1 := Z.shiftr x1 2 in
  let x2 := Z.shiftr x2 2 in
  do buf <- set_ff (m_buf m) (map (fun i => Z.quot y 4 * m_w m + i) (zrange x1 x2));
  Ok (mk_maskbuf (m_x m) (m_y m) (m_w m) buf).

(* ---- Rasterizer::rasterize ---- *)
Section Rasterize.
  Variable blit : maskbuf -> Z -> Z -> Z -> result maskbuf.
  Variable rule : winding_rule.

  Fixpoint blit_spans (m : maskbuf) (y : Z) (spans : list (Z * Z)) : result maskbuf :=
    match spans with
    | [] => Ok m
    | (a, b) :: t => do m' <- blit m y a b; blit_spans m' y t
    end.

  (* rows start, start+1, ... (n rows): insert, scan, step, sort *)
  Fixpoint rows (n : nat) (w4 : Z) (starts : list (Z * aedge)) (y : Z) (active : list aedge) (m : maskbuf)
    : result (list aedge * maskbuf) :=
    match n with
    | O => Ok (active, m)
    | S k =>
        let new_edges := map snd (filter (fun p => fst p =? y) starts) in
        let active := insert_starting new_edges active in
        do m' <- blit_spans m y (scan_edges rule w4 active);
        let active := step_edges active y in
        if existsb e_err active then Err DivZero else
        let active := sort_edges active in
        rows k w4 starts (y + 1) active m'
    end.

  Definition rasterize (r : rast) (m : maskbuf) : result (rast * maskbuf) :=
    let start := Z.max (r_top r * 4) 0 in
    let end_ := Z.min (r_bottom r * 4) (r_h4 r) in
    if existsb (fun p => e_err (snd p)) (r_starts r) then Err DivZero else
    do am <- rows (Z.to_nat (end_ - start)) (r_w4 r) (r_starts r) start (r_active r) m;
    let '(active, m') := am in
    Ok (mk_rast (r_w4 r) (r_h4 r) (r_top r) (r_bottom r) (r_left r) (r_right r) (r_starts r) active, m').
End Rasterize.
