(* RasterGlue: the rasteriser runs inside DrawTarget operations return (C07).
   Connects RasterTotal (rasterize never fails on add_edge sequences) with Target.fill / push_clip and discharges
   TotalProofs.op_raster_ok:
     1. apply_path is a sequence of add_edge calls (path_args, apply_path_is_adds);
     2. fill's rasteriser run returns if the slope divisions of the path's curve edges do not wrap (fill_raster_total);
     3. push_clip's rasteriser run (into the full-surface buffer) ALWAYS returns (push_clip_raster_total);
     4. step_op_total / run_ops_total: operation-level totality without any hypothesis on the rasteriser run. *)
Require Import RQ.Base RQ.F32 RQ.Rect RQ.Pixel RQ.Raster RQ.RasterProofs RQ.RasterIdle RQ.RasterTotal RQ.PathF RQ.PathOps
               RQ.Shader RQ.Surface RQ.Target RQ.ClipProofs RQ.PremulDraw RQ.TotalProofs RQ.IdleProofs.
From Coq Require Import ZArith List Lia Bool ZifyBool.
Import ListNotations.
Open Scope Z_scope.
Ltac Zify.zify_post_hook ::= Z.to_euclidean_division_equations.

(* ===== 1. apply_path as a list of add_edge calls ===== *)
(* Rasterizer::add_edge(start, end, curve, control) on float points *)
Definition edge_arg (s e : pt) (curve : bool) (c : pt) : edge_args :=
  (flt (py e) (py s), f32_to_dot2 (px s), f32_to_dot2 (py s), f32_to_dot2 (px e), f32_to_dot2 (py e),
   curve, f32_to_dot2 (px c), f32_to_dot2 (py c)).

Lemma raster_add_is_add r s e curve c : raster_add r s e curve c = add_any r (edge_arg s e curve c).
Proof. reflexivity. Qed.

(* DrawTarget::add_quad: one curve edge, or two after chopping at the y extremum *)
Definition quad_args (p0 p1 p2 : pt) : list edge_args :=
  let a := py p0 in let b := py p1 in let c := py p2 in
  if is_not_monotonic a b c then
    match valid_unit_divide (fsub a b) (fadd (fsub (fsub a b) b) c) with
    | Some t =>
        let '(d0, d1, d2, d3, d4) := chop_quad p0 p1 p2 t in
        [edge_arg d0 d2 true d1; edge_arg d2 d4 true d3]
    | None =>
        let b' := if flt (fabs (fsub a b)) (fabs (fsub b c)) then a else c in
        [edge_arg p0 p2 true (px p1, b')]
    end
  else [edge_arg p0 p2 true p1].

Lemma add_quad_is_adds r p0 p1 p2 : add_quad r p0 p1 p2 = fold_left add_any (quad_args p0 p1 p2) r.
Proof.
  unfold add_quad, quad_args. cbv zeta. destruct (is_not_monotonic _ _ _); [|reflexivity].
  destruct (valid_unit_divide _ _) as [t|]; [|reflexivity].
  destruct (chop_quad p0 p1 p2 t) as [[[[d0 d1] d2] d3] d4]. reflexivity.
Qed.

Definition quads_args (quads : list (pt * pt * pt)) : list edge_args :=
  flat_map (fun q => let '(a, b, d) := q in quad_args a b d) quads.

Lemma quads_is_adds quads : forall r,
  fold_left (fun r q => let '(a, b, d) := q in add_quad r a b d) quads r = fold_left add_any (quads_args quads) r.
Proof.
  induction quads as [|[[a b] d] t IH]; intros r; cbn [fold_left quads_args flat_map]; [reflexivity|].
  rewrite fold_left_app. rewrite <- add_quad_is_adds. apply IH.
Qed.

(* the path cursor without the rasteriser: (current point, first point of the subpath) *)
Definition pcur : Type := (option pt * option pt)%type.
Definition simc (c : cursor) (k : pcur) : Prop := cur c = fst k /\ first c = snd k.

Definition a_close (k : pcur) : pcur * list edge_args :=
  ((snd k, snd k), match snd k, fst k with Some fp, Some cp => [edge_arg cp fp false pzero] | _, _ => [] end).
Definition a_move (k : pcur) (p : pt) : pcur * list edge_args := ((Some p, Some p), []).
Definition a_start (k : pcur) (p : pt) : pcur := match fst k with None => (Some p, Some p) | Some _ => k end.
Definition a_line (k : pcur) (p : pt) : pcur * list edge_args :=
  let k := a_start k p in
  match fst k with Some cp => ((Some p, snd k), [edge_arg cp p false pzero]) | None => (k, []) end.
Definition a_quad (k : pcur) (cp p : pt) : pcur * list edge_args :=
  let k := a_start k cp in
  match fst k with Some c0 => ((Some p, snd k), quad_args c0 cp p) | None => (k, []) end.
Definition a_cubic (k : pcur) (c1 c2 p : pt) (quads : list (pt * pt * pt)) : pcur * list edge_args :=
  let k := a_start k c1 in
  match fst k with Some _ => ((Some p, snd k), quads_args quads) | None => (k, []) end.
Definition a_op (t : xform) (k : pcur) (o : pathop) : pcur * list edge_args :=
  match o with
  | MoveTo p => let '(k1, l1) := a_close k in let '(k2, l2) := a_move k1 (xf_point t p) in (k2, l1 ++ l2)
  | LineTo p => a_line k (xf_point t p)
  | QuadTo cp p => a_quad k (xf_point t cp) (xf_point t p)
  | CubicTo c1 c2 p quads => a_cubic k (xf_point t c1) (xf_point t c2) (xf_point t p) quads
  | Close => a_close k
  end.
Fixpoint a_ops (t : xform) (k : pcur) (ops : list pathop) : pcur * list edge_args :=
  match ops with
  | [] => (k, [])
  | o :: r => let '(k1, l1) := a_op t k o in let '(k2, l2) := a_ops t k1 r in (k2, l1 ++ l2)
  end.
(* the add_edge calls DrawTarget::apply_path makes for path p under transform t (height <> 0) *)
Definition path_args (t : xform) (p : path) : list edge_args :=
  let '(k, l) := a_ops t (None, None) (p_ops p) in l ++ snd (a_close k).

Definition step_ok (c c' : cursor) (kl : pcur * list edge_args) : Prop :=
  simc c' (fst kl) /\ rz c' = fold_left add_any (snd kl) (rz c).

Lemma c_close_sim c k : simc c k -> step_ok c (c_close c) (a_close k).
Proof.
  intros [Hc Hf]. unfold step_ok, c_close, a_close, simc. cbn [fst snd cur first rz]. rewrite Hc, Hf.
  split; [split; reflexivity|]. destruct (snd k); [destruct (fst k)|]; reflexivity.
Qed.
Lemma c_move_sim c k p : step_ok c (c_move_to c p) (a_move k p).
Proof. unfold step_ok, simc. cbn. repeat split. Qed.
Lemma c_line_sim c k p : simc c k -> step_ok c (c_line_to c p) (a_line k p).
Proof.
  intros [Hc Hf]. unfold step_ok, c_line_to, a_line, a_start, simc. rewrite Hc.
  destruct (fst k) as [cp|] eqn:E; cbn [cur first rz fst snd]; rewrite ?Hc, ?E; cbn [cur first rz fst snd];
    (split; [split; [reflexivity|try exact Hf; reflexivity]|reflexivity]).
Qed.
Lemma c_quad_sim c k cp p : simc c k -> step_ok c (c_quad_to c cp p) (a_quad k cp p).
Proof.
  intros [Hc Hf]. unfold step_ok, c_quad_to, a_quad, a_start, simc. rewrite Hc.
  destruct (fst k) as [c0|] eqn:E; cbn [cur first rz fst snd]; rewrite ?Hc, ?E; cbn [cur first rz fst snd];
    (split; [split; [reflexivity|try exact Hf; reflexivity]|apply add_quad_is_adds]).
Qed.
Lemma c_cubic_sim c k c1 c2 p quads : simc c k -> step_ok c (c_cubic_to c c1 c2 p quads) (a_cubic k c1 c2 p quads).
Proof.
  intros [Hc Hf]. unfold step_ok, c_cubic_to, a_cubic, a_start, simc. rewrite Hc.
  destruct (fst k) as [c0|] eqn:E; cbn [cur first rz fst snd]; rewrite ?Hc, ?E; cbn [cur first rz fst snd];
    (split; [split; [reflexivity|try exact Hf; reflexivity]|apply quads_is_adds]).
Qed.

Definition c_op (t : xform) (c : cursor) (op : pathop) : cursor :=
  match op with
  | MoveTo p => c_move_to (c_close c) (xf_point t p)
  | LineTo p => c_line_to c (xf_point t p)
  | QuadTo cp p => c_quad_to c (xf_point t cp) (xf_point t p)
  | CubicTo c1 c2 p quads => c_cubic_to c (xf_point t c1) (xf_point t c2) (xf_point t p) quads
  | Close => c_close c
  end.

Lemma c_op_sim t c k o : simc c k -> step_ok c (c_op t c o) (a_op t k o).
Proof.
  intros H. destruct o; cbn [c_op a_op].
  - destruct (c_close_sim c k H) as [S1 R1]. destruct (a_close k) as [k1 l1]. cbn [fst snd] in *.
    destruct (c_move_sim (c_close c) k1 (xf_point t p)) as [S2 R2]. unfold a_move in *. cbn [fst snd] in *.
    split; [exact S2|]. cbn [fst snd]. rewrite app_nil_r. rewrite R2. exact R1.
  - apply c_line_sim; exact H.
  - apply c_quad_sim; exact H.
  - apply c_cubic_sim; exact H.
  - apply c_close_sim; exact H.
Qed.

Lemma c_ops_sim t ops : forall c k, simc c k -> step_ok c (fold_left (c_op t) ops c) (a_ops t k ops).
Proof.
  induction ops as [|o r IH]; intros c k H; cbn [fold_left a_ops].
  - split; [exact H|reflexivity].
  - destruct (c_op_sim t c k o H) as [S1 R1]. destruct (a_op t k o) as [k1 l1]. cbn [fst snd] in *.
    destruct (IH (c_op t c o) k1 S1) as [S2 R2]. destruct (a_ops t k1 r) as [k2 l2]. cbn [fst snd] in *.
    split; [exact S2|]. cbn [fst snd]. rewrite fold_left_app, <- R1. exact R2.
Qed.

(* ITEM 1 *)
Theorem apply_path_is_adds h t c p : h <> 0 ->
  rz (apply_path h t c p) = fold_left add_any (path_args t p) (rz c).
Proof.
  intros Hh. unfold apply_path, path_args. replace (h =? 0) with false by lia.
  fold (c_op t).
  destruct (c_ops_sim t (p_ops p) (mk_cursor None None (rz c)) (None, None) (conj eq_refl eq_refl)) as [S R].
  destruct (a_ops t (None, None) (p_ops p)) as [k l]. cbn [fst snd rz] in *.
  destruct (c_close_sim _ k S) as [_ R2]. rewrite R2, fold_left_app, <- R. reflexivity.
Qed.
Theorem apply_path_h0_unchanged t c p : rz (apply_path 0 t c p) = rz c.
Proof. reflexivity. Qed.

(* ===== 2. fill: the rasteriser run returns ===== *)
(* an idle rasteriser with the target's dimensions is the fresh one *)
Lemma raster_ok_new st : raster_ok st -> rz (d_cur st) = rast_new (d_w st) (d_h st).
Proof.
  intros (_ & Hi & H4 & W4). rewrite (idle_canonical _ Hi), H4, W4. unfold rast_new. rewrite !dot2_to_int_eq.
  replace (d_h st * 4 / 4) with (d_h st) by lia. replace (d_w st * 4 / 4) with (d_w st) by lia. reflexivity.
Qed.

(* the rasteriser state fill / push_clip hand to rasterize *)
Lemma apply_path_from_new st p : raster_ok st ->
  rz (apply_path (d_h st) (d_ctm st) (d_cur st) p) =
    if d_h st =? 0 then rast_new (d_w st) 0 else fold_left add_any (path_args (d_ctm st) p) (rast_new (d_w st) (d_h st)).
Proof.
  intros R. destruct (d_h st =? 0) eqn:E.
  - assert (E0 : d_h st = 0) by lia. rewrite E0 at 1. rewrite apply_path_h0_unchanged, (raster_ok_new st R), E0. reflexivity.
  - rewrite apply_path_is_adds by lia. rewrite (raster_ok_new st R). reflexivity.
Qed.

(* ITEM 2 *)
Theorem fill_raster_total st p aa : raster_ok st -> 0 <= d_w st ->
  (forall a, In a (path_args (d_ctm st) p) -> no_slope_wrap a) -> fill_raster_ok st p aa.
Proof.
  intros R Hw Ha Hb. unfold fill_raster, fill_bounds in *. cbv zeta.
  rewrite (apply_path_from_new st p R) in *. destruct R as (Hh & _).
  destruct (d_h st =? 0) eqn:E.
  - exfalso. unfold get_bounds, rast_new, r_h in Hb. cbn [r_top r_bottom r_h4 y0 y1] in Hb. rewrite dot2_to_int_eq in Hb. lia.
  - set (r := fold_left add_any (path_args (d_ctm st) p) (rast_new (d_w st) (d_h st))) in *.
    assert (Hbw : 0 <= r_w (get_bounds r)) by lia. assert (Hbh : 0 <= r_h (get_bounds r)) by lia.
    destruct aa.
    + destruct (rasterize_total (p_winding p) (d_w st) (d_h st) _ Hw Hh Ha Hbw Hbh) as (r' & m' & Er & _).
      exists (r', m'). exact Er.
    + destruct (rasterize_total_aliased (p_winding p) (d_w st) (d_h st) _ Hw Hh Ha Hbw Hbh) as (r' & m' & Er & _).
      exists (r', m'). exact Er.
Qed.

(* ===== 3. push_clip: rasterising into the full-surface buffer always returns ===== *)
(* With a buffer that spans the whole surface no hull property is needed at all: scan_edges never emits a span that
   starts left of 0 or right of the surface width, and the rows visited lie inside [0, H).  Only "no DivZero" and the
   accumulation bound of the four sub-rows are used. *)
Theorem rasterize_full_surface rule r W H :
  starts_good (r_starts r) -> r_active r = [] -> r_h4 r = H * 4 -> r_w4 r = W * 4 -> 0 <= W -> 0 <= H ->
  exists r' m', rasterize blit_super rule r (maskbuf_new 0 0 W H) = Ok (r', m') /\
    length (m_buf m') = Z.to_nat (W * H + 1) /\ bytes_ok (m_buf m').
Proof.
  intros Hg Ha Hh Hw HW HH. unfold rasterize, maskbuf_new. rewrite (starts_good_no_err _ Hg), Ha, Hh.
  change (0 * 4) with 0.
  set (py := Z.max (r_top r) 0). set (k := Z.to_nat (Z.min (r_bottom r) H - py)).
  replace (Z.max (r_top r * 4) 0) with (0 + 4 * py) by (subst py; lia).
  replace (Z.to_nat (Z.min (r_bottom r * 4) (H * 4) - (0 + 4 * py))) with (4 * k)%nat by (subst k py; lia).
  assert (Hlenb : 0 <= W * H) by (apply Z.mul_nonneg_nonneg; assumption).
  destruct (Nat.eq_dec k 0) as [K0|KN].
  - rewrite K0. cbn [Nat.mul rows bind]. eexists. eexists. split; [reflexivity|]. cbn [m_buf].
    split; [apply repeat_length|apply bytes_ok_repeat0].
  - assert (Hk : py + Z.of_nat k <= H) by (subst k py; lia).
    destruct (rows_total_super rule (r_w4 r) (r_starts r) 0 0 W Hg HW k py [] (repeat 0 (Z.to_nat (W * H + 1))))
      as (a' & buf' & C1 & _ & C3 & C4).
    + subst py; lia.
    + apply ainv_nil.
    + unfold zlen. rewrite repeat_length.
      assert ((py + Z.of_nat k) * W <= H * W) by (apply Z.mul_le_mono_nonneg_r; lia). lia.
    + apply bytes_ok_repeat0.
    + intros. apply zn_repeat0.
    + apply rows_guard_full_width; [exact Hg|lia|exact Hw|apply ainv_nil].
    + rewrite C1. cbn [bind]. eexists. eexists. split; [reflexivity|]. cbn [m_buf].
      split; [rewrite C3; apply repeat_length|exact C4].
Qed.

(* ITEM 3: no hypothesis on the path at all *)
Theorem push_clip_raster_total st p : raster_ok st -> 0 <= d_w st -> exists rm, push_clip_raster st p = Ok rm.
Proof.
  intros R Hw. unfold push_clip_raster. rewrite (apply_path_from_new st p R). destruct R as (Hh & _).
  assert (G : exists r' m', rasterize blit_super (p_winding p)
              (if d_h st =? 0 then rast_new (d_w st) 0 else fold_left add_any (path_args (d_ctm st) p) (rast_new (d_w st) (d_h st)))
              (maskbuf_new 0 0 (d_w st) (d_h st)) = Ok (r', m') /\
              length (m_buf m') = Z.to_nat (d_w st * d_h st + 1) /\ bytes_ok (m_buf m')).
  { destruct (d_h st =? 0) eqn:E.
    - assert (E0 : d_h st = 0) by lia. rewrite E0.
      apply rasterize_full_surface; try reflexivity; try lia. intros q [].
    - destruct (fold_add_any_new (d_w st) (d_h st) (path_args (d_ctm st) p)) as (S & H4 & W4 & A).
      apply rasterize_full_surface; assumption. }
  destruct G as (r' & m' & E & _). exists (r', m'). exact E.
Qed.

(* ===== 4. operation-level totality without a hypothesis on the rasteriser run ===== *)
(* straight paths add straight edges only, for which no_slope_wrap is vacuous *)
Definition arg_is_line (a : edge_args) : Prop := let '(_, _, _, _, _, curve, _, _) := a in curve = false.
Lemma no_slope_wrap_line a : arg_is_line a -> no_slope_wrap a.
Proof.
  destruct a as [[[[[[[swap sx] sy] ex] ey] curve] cx] cy]. unfold arg_is_line, no_slope_wrap. intros -> H. discriminate.
Qed.
Definition op_straight (o : pathop) : Prop := match o with MoveTo _ | LineTo _ | Close => True | _ => False end.

Lemma a_close_line k a : In a (snd (a_close k)) -> arg_is_line a.
Proof.
  unfold a_close. cbn [snd]. destruct (snd k); [destruct (fst k)|]; cbn [In]; try tauto. intros [<-|[]]. reflexivity.
Qed.
Lemma a_op_line t k o a : op_straight o -> In a (snd (a_op t k o)) -> arg_is_line a.
Proof.
  destruct o; cbn [op_straight a_op]; intros Hs Hin; try contradiction.
  - destruct (a_close k) as [k1 l1] eqn:E. unfold a_move in Hin. cbn [snd] in Hin. rewrite app_nil_r in Hin.
    apply (a_close_line k). rewrite E. exact Hin.
  - unfold a_line in Hin. destruct (fst (a_start k (xf_point t p))); cbn [snd In] in Hin; [|contradiction].
    destruct Hin as [<-|[]]. reflexivity.
  - apply (a_close_line k). exact Hin.
Qed.
Lemma a_ops_line t ops : Forall op_straight ops -> forall k a, In a (snd (a_ops t k ops)) -> arg_is_line a.
Proof.
  induction 1 as [|o r Ho Hr IH]; intros k a Hin; cbn [a_ops] in Hin; [destruct Hin|].
  destruct (a_op t k o) as [k1 l1] eqn:E1. destruct (a_ops t k1 r) as [k2 l2] eqn:E2. cbn [snd] in Hin.
  apply in_app_or in Hin. destruct Hin as [Hin|Hin].
  - apply (a_op_line t k o a Ho). rewrite E1. exact Hin.
  - apply (IH k1 a). rewrite E2. exact Hin.
Qed.
Lemma path_args_straight t p : Forall op_straight (p_ops p) -> forall a, In a (path_args t p) -> no_slope_wrap a.
Proof.
  intros Hs a Hin. apply no_slope_wrap_line. unfold path_args in Hin.
  destruct (a_ops t (None, None) (p_ops p)) as [k l] eqn:E. apply in_app_or in Hin. destruct Hin as [Hin|Hin].
  - apply (a_ops_line t (p_ops p) Hs (None, None) a). rewrite E. exact Hin.
  - apply (a_close_line k a Hin).
Qed.
Lemma rect_path_no_wrap t x y w h : forall a, In a (path_args t (rect_path x y w h)) -> no_slope_wrap a.
Proof. apply path_args_straight. cbn [rect_path p_ops]. repeat constructor. Qed.

(* the only hypothesis left on an operation: the slope divisions of the CURVE edges of a filled / stroked path fit i32
   (RasterTotal.no_slope_wrap; computable: no_slope_wrapb).  Nothing for push_clip, fill_rect, draw_image*, clear. *)
Definition op_no_wrap (st : dt) (o : op) : Prop :=
  match o with
  | OpFill p _ _ | OpStroke p _ _ => forall a, In a (path_args (d_ctm st) p) -> no_slope_wrap a
  | OpFillPre p _ _ => forall a, In a (path_args xf_identity (path_transform (d_ctm st) p)) -> no_slope_wrap a
  | _ => True
  end.

Theorem op_raster_ok_of_no_wrap st o : raster_ok st -> 0 <= d_w st -> op_no_wrap st o -> op_raster_ok st o.
Proof.
  intros R Hw Hn. destruct o; cbn [op_raster_ok op_no_wrap] in *; try exact I.
  - apply push_clip_raster_total; assumption.
  - apply fill_raster_total; assumption.
  - apply fill_raster_total; assumption.
  - intros _. apply fill_raster_total; [exact R|exact Hw|apply rect_path_no_wrap].
  - intros _. apply fill_raster_total; [apply with_ctm_idle; exact R|exact Hw|apply rect_path_no_wrap].
  - intros _. apply fill_raster_total; [exact R|exact Hw|apply rect_path_no_wrap].
  - intros _. apply fill_raster_total; [exact R|exact Hw|apply rect_path_no_wrap].
  - apply fill_raster_total; [apply with_ctm_idle; exact R|exact Hw|exact Hn].
Qed.

(* ITEM 4 *)
Theorem step_op_total st o : dt_wf st -> raster_ok st -> op_in_range st o -> op_no_wrap st o ->
  (exists st', step_op st o = Ok st' /\ dt_wf st' /\ raster_ok st') \/
  step_op st o = Err PixelOverflow \/ step_op st o = Err DebugAssert.
Proof.
  intros W R Hr Hn. assert (Hw : 0 <= d_w st) by (destruct W as ((Hw & _) & _); exact Hw).
  destruct (step_op_total_any_mode st o W Hr (op_raster_ok_of_no_wrap st o R Hw Hn)) as [(st' & E & W')|H]; [left|right; exact H].
  exists st'. split; [exact E|]. split; [exact W'|exact (step_op_idle st o st' R E)].
Qed.

(* with a separable blend mode (or none) the operation returns *)
Theorem step_op_total_separable st o : dt_wf st -> raster_ok st -> op_in_range st o -> op_no_wrap st o -> op_separable st o ->
  exists st', step_op st o = Ok st' /\ dt_wf st' /\ raster_ok st'.
Proof.
  intros W R Hr Hn Hs. assert (Hw : 0 <= d_w st) by (destruct W as ((Hw & _) & _); exact Hw).
  destruct (step_op_total_given_raster st o W Hr (op_raster_ok_of_no_wrap st o R Hw Hn) Hs) as (st' & E & W').
  exists st'. split; [exact E|]. split; [exact W'|exact (step_op_idle st o st' R E)].
Qed.

(* programs: every operation inside its preconditions and with non-wrapping curve edges in the state it is applied to *)
Fixpoint run_ok_nw (strict : bool) (st : dt) (ops : list op) : Prop :=
  match ops with
  | [] => True
  | o :: t => op_in_range st o /\ op_no_wrap st o /\ (strict = true -> op_separable st o) /\
              forall st', step_op st o = Ok st' -> run_ok_nw strict st' t
  end.

Lemma run_ok_nw_run_ok strict ops : forall st, dt_wf st -> raster_ok st -> run_ok_nw strict st ops -> run_ok strict st ops.
Proof.
  induction ops as [|o t IH]; intros st W R H; cbn [run_ok run_ok_nw] in *; [exact I|].
  destruct H as (Hr & Hn & Hs & Hnext).
  assert (Hw : 0 <= d_w st) by (destruct W as ((Hw & _) & _); exact Hw).
  pose proof (op_raster_ok_of_no_wrap st o R Hw Hn) as Hz.
  split; [exact Hr|]. split; [exact Hz|]. split; [exact Hs|].
  intros st' E. apply IH; [|exact (step_op_idle st o st' R E)|exact (Hnext st' E)].
  pose proof (step_op_total_partial st o W Hr Hz) as T. rewrite E in T. exact T.
Qed.

Theorem run_ops_total strict w h buf ops :
  0 <= w <= i32_max -> 0 <= h <= i32_max -> w * h <= i32_max -> zlen buf = w * h -> Forall px_ok buf ->
  run_ok_nw strict (dt_new w h buf) ops ->
  match run_ops (dt_new w h buf) ops with
  | Ok st' => dt_wf st' /\ raster_ok st' /\ all_premul st' /\ exists g, clip_inv st' g
  | Err e => strict = false /\ (e = PixelOverflow \/ e = DebugAssert)
  end.
Proof.
  intros Hw Hh Hwh Hl Hb Hok.
  pose proof (dt_new_raster_ok w h buf ltac:(lia)) as R0.
  pose proof (run_ok_nw_run_ok strict ops _ (dt_new_wf w h buf Hw Hh Hwh Hl Hb) R0 Hok) as Hok'.
  pose proof (run_ops_total_fresh strict w h buf ops Hw Hh Hwh Hl Hb Hok') as T.
  destruct (run_ops (dt_new w h buf) ops) as [st'|e] eqn:E; [|exact T].
  destruct T as (W' & P & G). split; [exact W'|]. split; [exact (run_idle ops _ _ R0 E)|]. split; assumption.
Qed.
Print Assumptions apply_path_is_adds.
Print Assumptions fill_raster_total.
Print Assumptions push_clip_raster_total.
Print Assumptions step_op_total.
Print Assumptions run_ops_total.
Print Assumptions rasterize_full_surface.

(* ===== 5. non-vacuity: the path that made the crate panic before the repairs, as DrawTarget operations ===== *)
Definition gq (n : Z) : f32 := fdiv (of_int n) f4.    (* n quarter pixels *)
Definition g_path : path :=
  mk_path [MoveTo (gq 27, gq 0); QuadTo (gq 4, gq 2) (gq 4, gq 3); LineTo (gq 32, gq 3); LineTo (gq 32, gq 0); Close] NonZero.
Definition g_st : dt := dt_new 8 4 (repeat 0 32%nat).
Definition g_red : Z := 4294901760.
Example g_path_args :
  path_args xf_identity g_path =
    [(false, 27, 0, 4, 3, true, 4, 2); (false, 4, 3, 32, 3, false, 0, 0); (true, 32, 3, 32, 0, false, 0, 0);
     (false, 32, 0, 27, 0, false, 0, 0); (false, 27, 0, 27, 0, false, 0, 0)] /\
  forallb no_slope_wrapb (path_args xf_identity g_path) = true.
Proof. vm_compute. split; reflexivity. Qed.
Example g_ops_no_wrap :
  op_no_wrap g_st (OpFill g_path (Solid g_red) (mk_opts SrcOver f1 true)) /\ op_no_wrap g_st (OpPushClip g_path).
Proof.
  split; [|exact I]. cbn [op_no_wrap]. change (d_ctm g_st) with xf_identity.
  destruct g_path_args as [_ H]. rewrite forallb_forall in H. intros a Ha. apply no_slope_wrapb_ok. apply H. exact Ha.
Qed.
Example g_ops_run :
  match run_ops g_st [OpPushClip g_path; OpFill g_path (Solid g_red) (mk_opts SrcOver f1 false); OpPopClip;
                      OpFill g_path (Solid g_red) (mk_opts SrcOver f1 true)] with
  | Ok st' => negb (nth 7 (d_buf st') 0 =? 0) = true | Err _ => False end.
Proof. vm_compute. reflexivity. Qed.
