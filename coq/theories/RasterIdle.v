(* Rasteriser bookkeeping: curve-edge set-up never divides by zero, every edge is filed under a row between the
   recorded bounds, so Rasterizer::reset leaves the rasteriser idle (C07: no division by zero, no bucket out of
   range; C10: no residue after a call). *)
Require Import RQ.Base RQ.Rect RQ.Raster.
From Coq Require Import ZifyBool.
Ltac Zify.zify_post_hook ::= Z.to_euclidean_division_equations.

Lemma shiftr14 a : dot16_to_dot2 a = a / 16384.
Proof. unfold dot16_to_dot2. rewrite Z.shiftr_div_pow2 by lia. reflexivity. Qed.
Lemma shiftr2 a : dot2_to_int a = a / 4.
Proof. unfold dot2_to_int. rewrite Z.shiftr_div_pow2 by lia. reflexivity. Qed.

(* ---- the forward-differencing loop ---- *)
Lemma curve_next_fields e :
  e_x2 (curve_next e) = e_x2 e /\ e_y2 (curve_next e) = e_y2 e /\ e_shift (curve_next e) = e_shift e /\
  e_err (curve_next e) = e_err e /\ e_count (curve_next e) = e_count e - 1 /\ e_oldy (curve_next e) = e_oldy e /\
  e_wind (curve_next e) = e_wind e.
Proof. repeat split. Qed.

Lemma curve_advance_spec fuel : forall cury e,
  0 <= e_count e -> (Z.to_nat (e_count e) <= fuel)%nat ->
  let e' := curve_advance fuel cury e in
  0 <= e_count e' <= e_count e /\ (e_count e' = 0 \/ cury < dot16_to_dot2 (e_nexty e')) /\
  e_x2 e' = e_x2 e /\ e_y2 e' = e_y2 e /\ e_shift e' = e_shift e /\ e_err e' = e_err e /\ e_oldy e' = e_oldy e /\ e_wind e' = e_wind e.
Proof.
  induction fuel as [|k IH]; intros cury e Hc Hf; cbn [curve_advance].
  - cbv zeta. assert (e_count e = 0) by lia. repeat split; try lia; try reflexivity.
  - destruct ((0 <? e_count e) && (dot16_to_dot2 (e_nexty e) <=? cury)) eqn:E.
    + specialize (IH cury (curve_next e)). cbv zeta in *.
      destruct (curve_next_fields e) as (A & B & C & D & F & G & W).
      destruct IH as (I1 & I2 & I3 & I4 & I5 & I6 & I7 & I8); [lia|lia|].
      repeat split; try lia; try congruence.
    + cbv zeta. repeat split; try lia; try reflexivity.
Qed.

Lemma set_next_to_end_fields e :
  let e' := set_next_to_end e in
  e_x2 e' = e_x2 e /\ e_y2 e' = e_y2 e /\ e_shift e' = e_shift e /\ e_err e' = e_err e /\ e_count e' = e_count e /\
  e_oldy e' = e_oldy e /\ e_wind e' = e_wind e /\
  (e_count e = 0 -> e_nexty e' = e_y2 e * 16384) /\ (e_count e <> 0 -> e_nexty e' = e_nexty e).
Proof.
  unfold set_next_to_end. destruct (e_count e =? 0) eqn:E; cbn; repeat split; try reflexivity; try lia.
Qed.

(* well-formed curve edge: the segment counter is in range *)
Definition cinv (e : aedge) : Prop := 0 <= e_count e <= 63.

(* ActiveEdge::step never divides by zero *)
Lemma step_no_err e cury : cinv e -> e_err e = false -> e_err (step e cury) = false /\ cinv (step e cury) /\
  e_y2 (step e cury) = e_y2 e /\ e_shift (step e cury) = e_shift e /\ e_wind (step e cury) = e_wind e.
Proof.
  intros Hc He. unfold step.
  destruct (e_shift e =? 0) eqn:Es; [cbn; repeat split; try assumption; apply Hc|].
  destruct (dot16_to_dot2 (e_nexty e) <=? cury) eqn:En; [|cbn; repeat split; try assumption; apply Hc].
  set (e0 := mk_aedge (e_x2 e) (e_y2 e) (e_slope e) (e_nextx e) (e_nextx e) (e_nexty e) (e_dx e) (e_ddx e) (e_dy e) (e_ddy e)
                      (e_nextx e) (e_nexty e) (e_shift e) (e_count e) (e_wind e) (e_err e)).
  assert (H0 : 0 <= e_count e0) by apply Hc.
  assert (Hf : (Z.to_nat (e_count e0) <= 64)%nat) by (unfold cinv in Hc; cbn; lia).
  pose proof (curve_advance_spec 64 cury e0 H0 Hf) as Ha. cbv zeta in Ha.
  set (e1 := curve_advance 64 cury e0) in *.
  destruct Ha as (A1 & A2 & A3 & A4 & A5 & A6 & A7 & A8).
  pose proof (set_next_to_end_fields e1) as Hs. cbv zeta in Hs.
  set (e2 := set_next_to_end e1) in *.
  destruct Hs as (S1 & S2 & S3 & S4 & S5 & S6 & S7 & S8 & S9).
  assert (Hold : e_oldy e2 = e_nexty e) by (rewrite S6, A7; reflexivity).
  assert (Hy2 : e_y2 e2 = e_y2 e) by (rewrite S2, A4; reflexivity).
  assert (Hfin : e_err e2 = false /\ 0 <= e_count e2 <= 63 /\ e_shift e2 = e_shift e /\ e_wind e2 = e_wind e).
  { rewrite S4, A6, S5, S3, A5, S7, A8. unfold cinv in Hc. cbn [e0 e_err e_count e_shift e_wind] in *. repeat split; try assumption; lia. }
  destruct Hfin as (F1 & F2 & F3 & F4).
  destruct (cury + 1 <? e_y2 e2) eqn:Ey.
  - unfold div_fixed16_fixed16.
    assert (Hne : e_nexty e2 - e_oldy e2 <> 0).
    { rewrite Hold. rewrite shiftr14 in *. destruct A2 as [Z0|Hgt].
      - rewrite (S8 Z0). lia.
      - destruct (Z.eq_dec (e_count e1) 0) as [Z0|NZ]; [rewrite (S8 Z0); lia|rewrite (S9 NZ); lia]. }
    replace (e_nexty e2 - e_oldy e2 =? 0) with false by lia.
    cbv beta iota zeta. cbn [e_err e_count e_y2 e_shift e_wind]. unfold cinv. cbn [e_count]. repeat split; try assumption; try congruence; lia.
  - unfold with_fullx. cbn [e_err e_count e_y2 e_shift e_wind]. unfold cinv. cbn [e_count]. repeat split; try assumption; try congruence; lia.
Qed.

Lemma with_fullx_fields e f : e_err (with_fullx e f) = e_err e /\ e_count (with_fullx e f) = e_count e /\ e_y2 (with_fullx e f) = e_y2 e /\
  e_nexty (with_fullx e f) = e_nexty e /\ e_shift (with_fullx e f) = e_shift e.
Proof. repeat split. Qed.

Lemma prestep_spec n : forall e cury, cinv e -> e_err e = false -> cury <= 0 -> Z.of_nat n = - cury ->
  e_err (fst (prestep n e cury)) = false /\ snd (prestep n e cury) = 0 /\ e_y2 (fst (prestep n e cury)) = e_y2 e.
Proof.
  induction n as [|k IH]; intros e cury Hc He Hle Hn; cbn [prestep].
  - cbn. repeat split; [exact He|lia].
  - replace (cury <? 0) with true by lia.
    destruct (step_no_err e cury Hc He) as (E1 & C1 & Y1 & _).
    destruct (IH (step e cury) (cury + 1) C1 E1 ltac:(lia) ltac:(lia)) as (A & B & C). repeat split; try assumption. congruence.
Qed.

Lemma prestep_fast_spec fuel : forall e cury, cinv e -> e_err e = false -> cury <= 0 ->
  e_err (fst (prestep_fast fuel e cury)) = false /\ snd (prestep_fast fuel e cury) = 0 /\ e_y2 (fst (prestep_fast fuel e cury)) = e_y2 e.
Proof.
  induction fuel as [|k IH]; intros e cury Hc He Hle; cbn [prestep_fast].
  - apply prestep_spec; try assumption. lia.
  - destruct (cury <? 0) eqn:E; [|cbn; repeat split; [exact He|lia]].
    destruct (dot16_to_dot2 (e_nexty e) <=? cury) eqn:En.
    + destruct (step_no_err e cury Hc He) as (E1 & C1 & Y1 & _).
      destruct (IH (step e cury) (cury + 1) C1 E1 ltac:(lia)) as (A & B & C). repeat split; try assumption. congruence.
    + set (n := Z.min (- cury) (dot16_to_dot2 (e_nexty e) - cury)).
      destruct (IH (with_fullx e (e_fullx e + n * e_slope e)) (cury + n)) as (A & B & C); [exact Hc|exact He|unfold n; lia|].
      repeat split; assumption.
Qed.

(* ---- add_edge ---- *)
Definition initial_bounds (r : rast) : Prop :=
  r_top r = dot2_to_int (r_h4 r) /\ r_bottom r = 0 /\ r_left r = dot2_to_int (r_w4 r) /\ r_right r = 0.
(* every filed edge sits in a bucket between the recorded bounds and inside the surface, carries no error, and
   when no edge was accepted since the last reset the rasteriser is in its initial state *)
Definition rinv (r : rast) : Prop :=
  (forall row e, In (row, e) (r_starts r) ->
     Z.max (r_top r * 4) 0 <= row < Z.min (r_bottom r * 4) (r_h4 r) /\ e_err e = false) /\
  (r_bottom r < r_top r -> r_starts r = [] /\ r_active r = [] /\ initial_bounds r).

Lemma shift_range dx dy :
  let s0 := diff_to_shift dx dy in
  let s := if s0 =? 0 then 1 else if 6 <? s0 then 6 else s0 in 1 <= s <= 6.
Proof.
  cbv zeta. assert (H0 : 0 <= diff_to_shift dx dy).
  { unfold diff_to_shift, leading_zeros32.
    set (dist := Z.shiftr (cheap_distance dx dy + 16) 5).
    rewrite Z.shiftr_div_pow2 by lia. change (2 ^ 1) with 2.
    destruct (dist <=? 0); [lia|]. pose proof (Z.log2_nonneg dist). lia. }
  destruct (diff_to_shift dx dy =? 0) eqn:E1; [lia|]. destruct (6 <? diff_to_shift dx dy) eqn:E2; lia.
Qed.

(* the curve branch of add_edge: the denominator of the first slope is at least 1 *)
Lemma curve_setup_den y1 y2 e0 : y1 < y2 -> e_y2 e0 = y2 -> 0 <= e_count e0 <= 63 ->
  let e := set_next_to_end (curve_advance 64 y1 e0) in
  1 <= dot16_to_dot2 (e_nexty e - dot2_to_dot16 y1) /\ 0 <= e_count e <= 63.
Proof.
  intros Hy Hy2 Hc. cbv zeta.
  pose proof (curve_advance_spec 64 y1 e0 ltac:(lia) ltac:(lia)) as Ha. cbv zeta in Ha.
  set (e1 := curve_advance 64 y1 e0) in *. destruct Ha as (A1 & A2 & A3 & A4 & _).
  pose proof (set_next_to_end_fields e1) as Hs. cbv zeta in Hs. destruct Hs as (_ & S2 & _ & _ & S5 & _ & _ & S8 & S9).
  rewrite S5. split; [|lia]. rewrite shiftr14 in *. unfold dot2_to_dot16.
  destruct (Z.eq_dec (e_count e1) 0) as [Z0|NZ].
  - rewrite (S8 Z0), A4, Hy2. lia.
  - rewrite (S9 NZ). destruct A2 as [Z0|Hgt]; [contradiction|]. lia.
Qed.

Theorem add_edge_rinv r swap sx sy ex ey curve cx cy :
  0 < r_h4 r -> rinv r -> rinv (add_edge r swap sx sy ex ey curve cx cy) /\
  r_h4 (add_edge r swap sx sy ex ey curve cx cy) = r_h4 r /\ r_w4 (add_edge r swap sx sy ex ey curve cx cy) = r_w4 r /\
  r_active (add_edge r swap sx sy ex ey curve cx cy) = r_active r.
Proof.
  intros Hh [Hst Hinit]. unfold add_edge.
  destruct (if swap then (ex, ey, sx, sy, -1) else (sx, sy, ex, ey, 1)) as [[[[x1 y1] x2] y2] w].
  destruct ((y2 <? 0) || (r_h4 r <=? y1)) eqn:Edrop; [split; [exact (conj Hst Hinit)|repeat split]|].
  destruct (y2 <=? y1) eqn:Ehor; [split; [exact (conj Hst Hinit)|repeat split]|].
  (* the edge and the row it is filed under *)
  match goal with |- context [let '(e, cury) := ?P in _] => set (pe := P) end.
  assert (Hpe : e_err (fst pe) = false /\ snd pe = Z.max y1 0 /\ e_y2 (fst pe) = y2).
  { unfold pe. destruct curve.
    - (* curve edge *)
      match goal with |- context [diff_to_shift ?a ?b] => pose proof (shift_range a b) as Hsh; cbv zeta in Hsh;
        set (shift := if diff_to_shift a b =? 0 then 1 else if 6 <? diff_to_shift a b then 6 else diff_to_shift a b) in * end.
      assert (Hcnt : 0 <= Z.shiftl 1 shift - 1 <= 63).
      { rewrite Z.shiftl_mul_pow2 by lia. assert (2 ^ shift <= 2 ^ 6) by (apply Z.pow_le_mono_r; lia).
        assert (0 < 2 ^ shift) by (apply Z.pow_pos_nonneg; lia). change (2 ^ 6) with 64 in *. lia. }
      match goal with |- context [set_next_to_end (curve_advance 64 y1 ?E0)] => set (e0 := E0) end.
      destruct (curve_setup_den y1 y2 e0 ltac:(lia) eq_refl Hcnt) as [Hden Hc2].
      set (e2 := set_next_to_end (curve_advance 64 y1 e0)) in *.
      set (den := dot16_to_dot2 (e_nexty e2 - dot2_to_dot16 y1)) in *.
      set (efin := mk_aedge x2 y2 (Z.quot (e_nextx e2 - dot2_to_dot16 x1) den) (dot2_to_dot16 x1) (e_nextx e2) (e_nexty e2)
                            (e_dx e2) (e_ddx e2) (e_dy e2) (e_ddy e2) 0 0 shift (e_count e2) w (den =? 0)).
      assert (Hef : e_err efin = false) by (unfold efin; cbn [e_err]; apply Z.eqb_neq; clearbody den; lia).
      assert (Hcf : cinv efin) by (unfold cinv, efin; cbn [e_count]; lia).
      destruct (y1 <? 0) eqn:Ey.
      + destruct (prestep_fast_spec 200 efin y1 Hcf Hef ltac:(lia)) as (P1 & P2 & P3).
        repeat split; [exact P1|rewrite P2; lia|rewrite P3; reflexivity].
      + cbn [fst snd]. split; [exact Hef|split; [lia|reflexivity]].
    - (* line edge *)
      destruct (y1 <? 0) eqn:Ey; cbn; repeat split; lia. }
  destruct pe as [e cury]. cbn [fst snd] in Hpe. destruct Hpe as (He & Hcury & Hy2).
  rewrite !shiftr2.
  assert (Hb : Z.min (r_top r) (y1 / 4) * 4 <= Z.max y1 0 /\ (Z.max y1 0 < Z.max (r_bottom r) ((y2 + 3) / 4) * 4 \/ y2 <= Z.max y1 0)) by lia.
  destruct ((y1 <? 0) && (y2 <=? cury) && negb (e_err e)) eqn:Edrop2.
  - (* stepped past its end: bounds widened, nothing filed *)
    split; [|repeat split]. split.
    + cbn [r_starts r_top r_bottom r_h4]. intros rw e' Hin. destruct (Hst rw e' Hin) as [Hr He']. split; [lia|exact He'].
    + cbn [r_top r_bottom]. intros Hlt. exfalso. lia.
  - split; [|repeat split]. split.
    + cbn [r_starts r_top r_bottom r_h4]. intros rw e' [Heq|Hin].
      * inversion Heq; subst rw e'. rewrite He in Edrop2. split; [|exact He]. lia.
      * destruct (Hst rw e' Hin) as [Hr He']. split; [lia|exact He'].
    + cbn [r_top r_bottom]. intros Hlt. exfalso. lia.
Qed.

(* ---- reset ---- *)
Lemma filter_all_false {A} (f : A -> bool) l : (forall x, In x l -> f x = false) -> filter f l = [].
Proof.
  induction l as [|x t IH]; intros H; [reflexivity|]. cbn. rewrite (H x (or_introl eq_refl)). apply IH.
  intros y Hy. apply H. right. exact Hy.
Qed.

Theorem reset_idle r : rinv r -> rast_idle (reset r) = true.
Proof.
  intros [Hst Hinit]. unfold reset.
  destruct (r_bottom r <? r_top r) eqn:E.
  - destruct (Hinit ltac:(lia)) as (S & A & B1 & B2 & B3 & B4). unfold rast_idle. rewrite S, A. lia.
  - unfold rast_idle. cbn [r_starts r_active r_bottom r_right r_top r_left r_h4 r_w4].
    rewrite filter_all_false; [lia|].
    intros [rw e] Hin. destruct (Hst rw e Hin) as [Hr _]. cbn [fst]. lia.
Qed.

(* rasterize changes nothing but the active list *)
Lemma rasterize_fields blit rule r m r' m' : rasterize blit rule r m = Ok (r', m') ->
  r_starts r' = r_starts r /\ r_top r' = r_top r /\ r_bottom r' = r_bottom r /\ r_left r' = r_left r /\ r_right r' = r_right r /\
  r_w4 r' = r_w4 r /\ r_h4 r' = r_h4 r.
Proof.
  unfold rasterize. destruct (existsb _ _); [discriminate|].
  destruct (rows _ _ _ _ _ _ _ _) as [[a mm]|]; [|discriminate]. cbn [bind]. intros E. inversion E. repeat split.
Qed.

(* an idle rasteriser is in the canonical initial state and satisfies the invariant *)
Lemma idle_rinv r : rast_idle r = true -> rinv r.
Proof.
  unfold rast_idle, rinv. destruct (r_starts r) eqn:S; [|discriminate]. destruct (r_active r) eqn:A; [|discriminate].
  intros H. split; [intros rw e []|]. intros _. repeat split; try reflexivity; unfold initial_bounds; lia.
Qed.
Lemma rast_new_idle w h : rast_idle (rast_new w h) = true.
Proof. unfold rast_idle, rast_new. cbn [r_starts r_active r_bottom r_right r_top r_left r_h4 r_w4]. rewrite !shiftr2. lia. Qed.

(* after rasterising (or not) and resetting, the rasteriser is idle again *)
Theorem reset_after_rasterize_idle blit rule r m r' m' : rinv r -> rasterize blit rule r m = Ok (r', m') ->
  rast_idle (reset r') = true.
Proof.
  intros [Hst Hinit] E. destruct (rasterize_fields _ _ _ _ _ _ E) as (S & T & B & L & R & W & H).
  unfold reset. rewrite B, T.
  destruct (r_bottom r <? r_top r) eqn:Ebt.
  - (* nothing was added: no rows were scanned, the state is unchanged *)
    destruct (Hinit ltac:(lia)) as (S0 & A0 & B1 & B2 & B3 & B4).
    unfold rasterize in E. destruct (existsb _ _); [discriminate|].
    replace (Z.to_nat (Z.min (r_bottom r * 4) (r_h4 r) - Z.max (r_top r * 4) 0)) with 0%nat in E.
    + cbn [rows bind] in E. inversion E; subst r'. unfold rast_idle. cbn [r_starts r_active r_bottom r_right r_top r_left r_h4 r_w4].
      rewrite S0, A0. lia.
    + rewrite B2, B1, shiftr2. lia.
  - unfold rast_idle. cbn [r_starts r_active r_bottom r_right r_top r_left r_h4 r_w4].
    rewrite S, H, W. rewrite filter_all_false; [lia|].
    intros [rw e] Hin. destruct (Hst rw e Hin) as [Hr _]. cbn [fst]. lia.
Qed.

(* ---- prestep_fast is prestep: the model's row-jumping shortcut for edges above the surface computes exactly what
   stepping row by row (the crate's loop) computes ---- *)
Lemma step_noswitch e cury : e_shift e = 0 \/ cury < dot16_to_dot2 (e_nexty e) ->
  step e cury = with_fullx e (e_fullx e + e_slope e).
Proof.
  intros H. unfold step. destruct (e_shift e =? 0) eqn:Es; [reflexivity|].
  destruct H as [H|H]; [lia|]. replace (dot16_to_dot2 (e_nexty e) <=? cury) with false by lia. reflexivity.
Qed.

Lemma with_fullx_twice e a b : with_fullx (with_fullx e a) b = with_fullx e b.
Proof. reflexivity. Qed.

Lemma prestep_jump k : forall m e cury,
  e_shift e = 0 \/ cury + Z.of_nat k <= dot16_to_dot2 (e_nexty e) -> cury + Z.of_nat k <= 0 ->
  prestep (k + m) e cury = prestep m (with_fullx e (e_fullx e + Z.of_nat k * e_slope e)) (cury + Z.of_nat k).
Proof.
  induction k as [|k IH]; intros m e cury Hs H0.
  - cbn [Nat.add]. replace (e_fullx e + Z.of_nat 0 * e_slope e) with (e_fullx e) by lia.
    replace (cury + Z.of_nat 0) with cury by lia. destruct e; reflexivity.
  - cbn [Nat.add prestep]. replace (cury <? 0) with true by lia.
    rewrite step_noswitch by (destruct Hs; [left; assumption|right; lia]).
    rewrite (IH m (with_fullx e (e_fullx e + e_slope e)) (cury + 1)).
    + rewrite with_fullx_twice. cbn [with_fullx e_fullx e_slope].
      replace (e_fullx e + e_slope e + Z.of_nat k * e_slope e) with (e_fullx e + Z.of_nat (S k) * e_slope e) by lia.
      replace (cury + 1 + Z.of_nat k) with (cury + Z.of_nat (S k)) by lia. reflexivity.
    + cbn [with_fullx e_shift e_nexty]. destruct Hs; [left; assumption|right; lia].
    + lia.
Qed.

Theorem prestep_fast_is_prestep fuel : forall e cury, cury <= 0 ->
  prestep_fast fuel e cury = prestep (Z.to_nat (- cury)) e cury.
Proof.
  induction fuel as [|k IH]; intros e cury Hle; cbn [prestep_fast]; [reflexivity|].
  destruct (cury <? 0) eqn:E.
  - destruct (dot16_to_dot2 (e_nexty e) <=? cury) eqn:En.
    + rewrite IH by lia. replace (Z.to_nat (- cury)) with (S (Z.to_nat (- (cury + 1)))) by lia.
      cbn [prestep]. rewrite E. reflexivity.
    + set (n := Z.min (- cury) (dot16_to_dot2 (e_nexty e) - cury)).
      rewrite IH by (unfold n; lia).
      replace (Z.to_nat (- cury)) with (Z.to_nat n + Z.to_nat (- (cury + n)))%nat by (unfold n; lia).
      rewrite (prestep_jump (Z.to_nat n) _ e cury); [|right; unfold n; lia|unfold n; lia].
      rewrite Z2Nat.id by (unfold n; lia). reflexivity.
  - replace (Z.to_nat (- cury)) with 0%nat by lia. reflexivity.
Qed.

(* what add_edge does with an edge that starts above the surface (closed form for a straight edge, row jumping for a
   curve edge) is the crate's loop `while cury < 0 { e.step(cury); cury += 1 }` *)
Theorem edge_above_surface_rowwise (curve : bool) e y1 : y1 < 0 -> (curve = false -> e_shift e = 0) ->
  (if curve then prestep_fast 200 e y1 else (with_fullx e (e_fullx e + (- y1) * e_slope e), 0))
  = prestep (Z.to_nat (- y1)) e y1.
Proof.
  intros Hy Hs. destruct curve.
  - apply prestep_fast_is_prestep. lia.
  - replace (Z.to_nat (- y1)) with (Z.to_nat (- y1) + 0)%nat by lia.
    rewrite (prestep_jump (Z.to_nat (- y1)) 0 e y1); [|left; now apply Hs|lia].
    rewrite Z2Nat.id by lia. cbn [prestep]. replace (y1 + - y1) with 0 by lia. reflexivity.
Qed.
