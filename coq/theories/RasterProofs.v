(* RasterProofs: proofs about the scanline rasteriser model Raster.v (property C01). *)
From Coq Require Import ZArith List Lia ZifyBool Bool Sorting.Sorted Sorting.Permutation.
Require Import RQ.Base RQ.Rect RQ.Raster.
Import ListNotations.
Open Scope Z_scope.
Ltac Zify.zify_post_hook ::= Z.to_euclidean_division_equations.

(* ===== Part 1: sorting of the active edge list ===== *)

Definition fx_le (a b : aedge) : Prop := e_fullx a <= e_fullx b.
Definition sorted (l : list aedge) : Prop := StronglySorted fx_le l.

Lemma sorted_nil : sorted [].
Proof. constructor. Qed.

Lemma sorted_cons_inv a l : sorted (a :: l) -> sorted l /\ Forall (fx_le a) l.
Proof. intros H; inversion H; subst; split; assumption. Qed.

Lemma sorted_cons a l : sorted l -> Forall (fx_le a) l -> sorted (a :: l).
Proof. intros; constructor; assumption. Qed.

Lemma sorted_app_inv l1 l2 : sorted (l1 ++ l2) -> sorted l1 /\ sorted l2 /\
  (forall a b, In a l1 -> In b l2 -> e_fullx a <= e_fullx b).
Proof.
  induction l1 as [|x t IH]; cbn [app]; intros H.
  - split; [constructor|]. split; [exact H|]. intros a b [].
  - apply sorted_cons_inv in H. destruct H as [Hs Hall].
    destruct (IH Hs) as (H1 & H2 & H3).
    rewrite Forall_app in Hall. destruct Hall as [Ha1 Ha2].
    split; [apply sorted_cons; assumption|]. split; [exact H2|].
    intros a b [<-|Ha] Hb.
    + rewrite Forall_forall in Ha2. apply Ha2; exact Hb.
    + apply H3; assumption.
Qed.

(* ---- insert_edge ---- *)
Lemma insert_edge_perm e l : Permutation (e :: l) (insert_edge e l).
Proof.
  induction l as [|a t IH]; cbn [insert_edge]; [apply Permutation_refl|].
  destruct (e_fullx e <=? e_fullx a); [apply Permutation_refl|].
  eapply perm_trans; [apply perm_swap|]. apply perm_skip. exact IH.
Qed.

Lemma insert_edge_sorted e l : sorted l -> sorted (insert_edge e l).
Proof.
  induction l as [|a t IH]; cbn [insert_edge]; intros Hs.
  - apply sorted_cons; constructor.
  - apply sorted_cons_inv in Hs. destruct Hs as [Hst Hall].
    destruct (e_fullx e <=? e_fullx a) eqn:E.
    + apply sorted_cons; [apply sorted_cons; assumption|].
      constructor; [unfold fx_le; lia|].
      eapply Forall_impl; [|exact Hall]. unfold fx_le; intros; lia.
    + apply sorted_cons; [apply IH; exact Hst|].
      eapply Permutation_Forall; [apply insert_edge_perm|].
      constructor; [unfold fx_le; lia|exact Hall].
Qed.

Lemma insert_edge_length e l : length (insert_edge e l) = S (length l).
Proof. symmetry. apply (Permutation_length (insert_edge_perm e l)). Qed.

Lemma insert_edge_In e l x : In x (insert_edge e l) <-> x = e \/ In x l.
Proof.
  split; intros H.
  - apply (Permutation_in _ (Permutation_sym (insert_edge_perm e l))) in H.
    destruct H as [<-|H]; auto.
  - apply (Permutation_in _ (insert_edge_perm e l)). destruct H as [->|H]; [left|right]; auto.
Qed.

(* fold of insert_edge *)
Lemma fold_insert_edge_perm new acc :
  Permutation (new ++ acc) (fold_left (fun acc e => insert_edge e acc) new acc).
Proof.
  revert acc; induction new as [|e t IH]; intros acc; cbn [fold_left app]; [apply Permutation_refl|].
  eapply perm_trans; [|apply IH].
  eapply perm_trans; [apply Permutation_middle|].
  apply Permutation_app_head. apply insert_edge_perm.
Qed.

Lemma fold_insert_edge_sorted new acc :
  sorted acc -> sorted (fold_left (fun acc e => insert_edge e acc) new acc).
Proof.
  revert acc; induction new as [|e t IH]; intros acc Hs; cbn [fold_left]; [exact Hs|].
  apply IH. apply insert_edge_sorted. exact Hs.
Qed.

(* ---- insert_starting ---- *)
Theorem insert_starting_perm new active : Permutation (new ++ active) (insert_starting new active).
Proof.
  unfold insert_starting.
  eapply perm_trans; [|apply fold_insert_edge_perm].
  apply Permutation_app_tail.
  eapply perm_trans; [|apply fold_insert_edge_perm]. rewrite app_nil_r. apply Permutation_refl.
Qed.

Theorem insert_starting_sorted new active : sorted active -> sorted (insert_starting new active).
Proof. intros H. unfold insert_starting. apply fold_insert_edge_sorted. exact H. Qed.

Lemma insert_starting_In new active x : In x (insert_starting new active) <-> In x new \/ In x active.
Proof.
  rewrite <- in_app_iff. split; intros H.
  - apply (Permutation_in _ (Permutation_sym (insert_starting_perm new active))). exact H.
  - apply (Permutation_in _ (insert_starting_perm new active)). exact H.
Qed.

Lemma insert_starting_nil active : insert_starting [] active = active.
Proof. reflexivity. Qed.

(* ---- insert_sorted / sort_edges ---- *)
Lemma insert_sorted_perm e l : Permutation (e :: l) (insert_sorted e l).
Proof.
  induction l as [|a t IH]; cbn [insert_sorted]; [apply Permutation_refl|].
  destruct (e_fullx a <=? e_fullx e); [|apply Permutation_refl].
  eapply perm_trans; [apply perm_swap|]. apply perm_skip. exact IH.
Qed.

Lemma insert_sorted_sorted e l : sorted l -> sorted (insert_sorted e l).
Proof.
  induction l as [|a t IH]; cbn [insert_sorted]; intros Hs.
  - apply sorted_cons; constructor.
  - apply sorted_cons_inv in Hs. destruct Hs as [Hst Hall].
    destruct (e_fullx a <=? e_fullx e) eqn:E.
    + apply sorted_cons; [apply IH; exact Hst|].
      eapply Permutation_Forall; [apply insert_sorted_perm|].
      constructor; [unfold fx_le; lia|exact Hall].
    + apply sorted_cons; [apply sorted_cons; assumption|].
      constructor; [unfold fx_le; lia|].
      eapply Forall_impl; [|exact Hall]. unfold fx_le; intros; lia.
Qed.

Lemma fold_insert_sorted_perm l acc :
  Permutation (l ++ acc) (fold_left (fun acc e => insert_sorted e acc) l acc).
Proof.
  revert acc; induction l as [|e t IH]; intros acc; cbn [fold_left app]; [apply Permutation_refl|].
  eapply perm_trans; [|apply IH].
  eapply perm_trans; [apply Permutation_middle|].
  apply Permutation_app_head. apply insert_sorted_perm.
Qed.

Lemma fold_insert_sorted_sorted l acc :
  sorted acc -> sorted (fold_left (fun acc e => insert_sorted e acc) l acc).
Proof.
  revert acc; induction l as [|e t IH]; intros acc Hs; cbn [fold_left]; [exact Hs|].
  apply IH. apply insert_sorted_sorted. exact Hs.
Qed.

Theorem sort_edges_perm l : Permutation l (sort_edges l).
Proof.
  unfold sort_edges. eapply perm_trans; [|apply fold_insert_sorted_perm].
  rewrite app_nil_r. apply Permutation_refl.
Qed.

Theorem sort_edges_sorted l : sorted (sort_edges l).
Proof. unfold sort_edges. apply fold_insert_sorted_sorted. constructor. Qed.

Lemma sort_edges_In l x : In x (sort_edges l) <-> In x l.
Proof.
  split; intros H.
  - apply (Permutation_in _ (Permutation_sym (sort_edges_perm l))). exact H.
  - apply (Permutation_in _ (sort_edges_perm l)). exact H.
Qed.

(* a sorted list is a fixed point of insertion sort when already sorted: not needed; but sorted lists
   with the same elements have the same fullx sequence - not needed either. *)

Print Assumptions insert_starting_sorted.
Print Assumptions sort_edges_sorted.

(* ===== Part 2: scan_edges computes the winding-rule coverage of a sorted row ===== *)

Lemma shiftr14 a : Z.shiftr a 14 = a / 16384.
Proof. rewrite Z.shiftr_div_pow2 by lia. reflexivity. Qed.
Lemma shiftr2 a : Z.shiftr a 2 = a / 4.
Proof. rewrite Z.shiftr_div_pow2 by lia. reflexivity. Qed.
Lemma shiftr8 a : Z.shiftr a 8 = a / 256.
Proof. rewrite Z.shiftr_div_pow2 by lia. reflexivity. Qed.
Lemma land3 a : Z.land a 3 = a mod 4.
Proof. change 3 with (Z.ones 2). rewrite Z.land_ones by lia. reflexivity. Qed.
Lemma land255 a : Z.land a 255 = a mod 256.
Proof. change 255 with (Z.ones 8). rewrite Z.land_ones by lia. reflexivity. Qed.

Arguments rnd : simpl never.
Arguments dot16_to_dot2 : simpl never.

Lemma rnd_eq f : rnd f = (f + 8192) / 16384.
Proof. unfold rnd, dot16_to_dot2. apply shiftr14. Qed.
Lemma rnd_mono a b : a <= b -> rnd a <= rnd b.
Proof. intros; rewrite !rnd_eq. lia. Qed.
Lemma floor_le_rnd a : dot16_to_dot2 a <= rnd a.
Proof. unfold dot16_to_dot2. rewrite rnd_eq, shiftr14. lia. Qed.
Lemma rnd_0 : rnd 0 = 0.
Proof. reflexivity. Qed.
Lemma rnd_neg f : f < 0 -> rnd f <= 0.
Proof. intros; rewrite rnd_eq. lia. Qed.
Lemma rnd_nonneg f : 0 <= f -> 0 <= rnd f.
Proof. intros; rewrite rnd_eq. lia. Qed.

(* winding number seen by cell c: sum of the windings of the edges whose rounded crossing is <= c *)
Fixpoint wsum (l : list aedge) (c : Z) : Z :=
  match l with
  | [] => 0
  | e :: t => (if rnd (e_fullx e) <=? c then e_wind e else 0) + wsum t c
  end.
Fixpoint wtotal (l : list aedge) : Z :=
  match l with [] => 0 | e :: t => e_wind e + wtotal t end.

Lemma wsum_app l1 l2 c : wsum (l1 ++ l2) c = wsum l1 c + wsum l2 c.
Proof. induction l1 as [|e t IH]; cbn [wsum app]; [reflexivity|]. rewrite IH. lia. Qed.
Lemma wtotal_app l1 l2 : wtotal (l1 ++ l2) = wtotal l1 + wtotal l2.
Proof. induction l1 as [|e t IH]; cbn [wtotal app]; [reflexivity|]. rewrite IH. lia. Qed.

Lemma wsum_all_left l c : (forall e, In e l -> rnd (e_fullx e) <= c) -> wsum l c = wtotal l.
Proof.
  induction l as [|e t IH]; intros H; cbn [wsum wtotal]; [reflexivity|].
  rewrite IH by (intros; apply H; right; assumption).
  specialize (H e (or_introl eq_refl)).
  destruct (rnd (e_fullx e) <=? c) eqn:E; lia.
Qed.
Lemma wsum_all_right l c : (forall e, In e l -> c < rnd (e_fullx e)) -> wsum l c = 0.
Proof.
  induction l as [|e t IH]; intros H; cbn [wsum]; [reflexivity|].
  rewrite IH by (intros; apply H; right; assumption).
  specialize (H e (or_introl eq_refl)).
  destruct (rnd (e_fullx e) <=? c) eqn:E; lia.
Qed.

Lemma wsum_perm l1 l2 c : Permutation l1 l2 -> wsum l1 c = wsum l2 c.
Proof. induction 1; cbn [wsum]; lia. Qed.
Lemma wtotal_perm l1 l2 : Permutation l1 l2 -> wtotal l1 = wtotal l2.
Proof. induction 1; cbn [wtotal]; lia. Qed.

Definition in_span (c : Z) (s : Z * Z) : Prop := fst s <= c < snd s.
Definition covered_by (c : Z) (sp : list (Z * Z)) : Prop := exists s, In s sp /\ in_span c s.

(* ---- skip_left ---- *)
Lemma skip_left_spec l : forall w l' w', skip_left l w = (l', w') ->
  exists pre, l = pre ++ l' /\ (forall e, In e pre -> e_fullx e < 0) /\ w' = w + wtotal pre /\
              match l' with [] => True | e :: _ => 0 <= e_fullx e end.
Proof.
  induction l as [|e t IH]; intros w l' w' H; cbn [skip_left] in H.
  - inversion H; subst. exists []. cbn. split; [reflexivity|]. split; [intros e []|]. split; [lia|exact I].
  - destruct (e_fullx e <? 0) eqn:E.
    + destruct (IH _ _ _ H) as (pre & H1 & H2 & H3 & H4).
      exists (e :: pre). cbn [app wtotal]. split; [now rewrite H1|].
      split; [intros x [<-|Hx]; [lia|apply H2; exact Hx]|]. split; [lia|exact H4].
    + inversion H; subst. exists []. cbn [app wtotal]. split; [reflexivity|]. split; [intros x []|]. split; lia.
Qed.

(* ---- the main inductive lemma about scan ---- *)
Lemma scan_spec rule w4 l : forall w prev,
  sorted l -> (forall e, In e l -> prev <= e_fullx e) ->
  forall c, c < w4 ->
   (rnd prev <= c ->
      (covered_by c (scan rule w4 l w prev) <->
        (exists e, In e l /\ c < rnd (e_fullx e)) /\ inside rule (w + wsum l c) = true))
   /\ (c < rnd prev -> ~ covered_by c (scan rule w4 l w prev)).
Proof.
  induction l as [|e t IH]; intros wn prev Hs Hp c Hc.
  - cbn. split; intros H.
    + split; [intros [s [[] _]] | intros [[e [[] _]] _]].
    + intros [s [[] _]].
  - apply sorted_cons_inv in Hs. destruct Hs as [Hst Hall].
    assert (Hpe: prev <= e_fullx e) by (apply Hp; left; reflexivity).
    assert (Hr: rnd prev <= rnd (e_fullx e)) by (apply rnd_mono; exact Hpe).
    assert (Hpt: forall e', In e' t -> e_fullx e <= e_fullx e').
    { intros e' He'. rewrite Forall_forall in Hall. apply Hall; exact He'. }
    specialize (IH (wn + e_wind e) (e_fullx e) Hst Hpt c Hc). destruct IH as [IH1 IH2].
    assert (Hw0: c < rnd (e_fullx e) -> wsum t c = 0).
    { intros Hce. apply wsum_all_right. intros e' He'.
      pose proof (rnd_mono _ _ (Hpt e' He')). lia. }
    cbn [scan wsum].
    destruct (w4 <=? dot16_to_dot2 (e_fullx e)) eqn:Hbrk.
    + apply Z.leb_le in Hbrk. pose proof (floor_le_rnd (e_fullx e)).
      assert (Hce: c < rnd (e_fullx e)) by lia.
      destruct (rnd (e_fullx e) <=? c) eqn:E; [apply Z.leb_le in E; lia|].
      rewrite (Hw0 Hce). replace (wn + (0 + 0)) with wn by lia.
      split; intros Hc2.
      * destruct (inside rule wn) eqn:Hin.
        -- split; intros _.
           ++ split; [exists e; split; [left; reflexivity|exact Hce] | reflexivity].
           ++ exists (rnd prev, rnd (e_fullx e)); split; [left; reflexivity| unfold in_span; cbn; lia].
        -- split; [intros [s [[] _]] | intros [_ H']; discriminate].
      * destruct (inside rule wn); intros [s [Hin Hsp]]; cbn in Hin.
        -- destruct Hin as [<-|[]]. unfold in_span in Hsp; cbn in Hsp; lia.
        -- destruct Hin.
    + split; intros Hc2.
      * destruct (Z_lt_le_dec c (rnd (e_fullx e))) as [Hlt|Hge].
        -- destruct (rnd (e_fullx e) <=? c) eqn:E; [apply Z.leb_le in E; lia|].
           rewrite (Hw0 Hlt). replace (wn + (0 + 0)) with wn by lia.
           specialize (IH2 Hlt).
           destruct (inside rule wn) eqn:Hin.
           ++ split; intros _.
              ** split; [exists e; split; [left; reflexivity|exact Hlt]|reflexivity].
              ** exists (rnd prev, rnd (e_fullx e)); split;
                   [apply in_or_app; left; left; reflexivity|unfold in_span; cbn; lia].
           ++ split; [|intros [_ H']; discriminate].
              intros [s [Hi Hsp]]. cbn in Hi. exfalso; apply IH2; exists s; split; assumption.
        -- destruct (rnd (e_fullx e) <=? c) eqn:E; [|apply Z.leb_gt in E; lia].
           specialize (IH1 Hge).
           replace (wn + (e_wind e + wsum t c)) with (wn + e_wind e + wsum t c) by lia.
           split.
           ++ intros [s [Hi Hsp]]. apply in_app_or in Hi. destruct Hi as [Hi|Hi].
              ** destruct (inside rule wn); cbn in Hi;
                   [destruct Hi as [<-|[]]; unfold in_span in Hsp; cbn in Hsp; lia | destruct Hi].
              ** destruct IH1 as [IH1a _].
                 destruct (IH1a (ex_intro _ s (conj Hi Hsp))) as [[e0 [Hi0 He0]] Hins].
                 split; [exists e0; split; [right; exact Hi0|exact He0]|exact Hins].
           ++ intros [[e0 [Hi0 He0]] Hins]. destruct Hi0 as [<-|Hi0]; [lia|].
              destruct IH1 as [_ IH1b].
              destruct (IH1b (conj (ex_intro _ e0 (conj Hi0 He0)) Hins)) as [s [Hi Hsp]].
              exists s; split; [apply in_or_app; right; exact Hi|exact Hsp].
      * intros [s [Hi Hsp]]. apply in_app_or in Hi. destruct Hi as [Hi|Hi].
        -- destruct (inside rule wn); cbn in Hi;
             [destruct Hi as [<-|[]]; unfold in_span in Hsp; cbn in Hsp; lia|destruct Hi].
        -- apply IH2; [lia|]. exists s; split; assumption.
Qed.

(* ---- scan_edges ---- *)
Theorem scan_edges_spec rule w4 l c :
  sorted l -> 0 <= c < w4 ->
  ((exists s, In s (scan_edges rule w4 l) /\ fst s <= c < snd s) <->
   inside rule (wsum l c) = true /\ (exists e, In e l /\ c < rnd (e_fullx e))).
Proof.
  intros Hs Hc. unfold scan_edges.
  destruct (skip_left l 0) as [l' w'] eqn:Hsk.
  destruct (skip_left_spec _ _ _ _ Hsk) as (pre & Hl & Hpre & Hw & Hhd).
  subst l. destruct (sorted_app_inv _ _ Hs) as (Hs1 & Hs2 & Hs12).
  assert (Hp: forall e, In e l' -> 0 <= e_fullx e).
  { destruct l' as [|e0 t0]; [intros e []|].
    apply sorted_cons_inv in Hs2. destruct Hs2 as [_ Hall]. rewrite Forall_forall in Hall.
    intros e [<-|He]; [exact Hhd|]. specialize (Hall e He). unfold fx_le in Hall. lia. }
  destruct (scan_spec rule w4 l' w' 0 Hs2 Hp c ltac:(lia)) as [H1 _].
  specialize (H1 ltac:(rewrite rnd_0; lia)).
  fold (in_span c) in *. change (exists s, In s (scan rule w4 l' w' 0) /\ fst s <= c < snd s)
    with (covered_by c (scan rule w4 l' w' 0)).
  rewrite H1. rewrite wsum_app.
  rewrite (wsum_all_left pre c) by (intros e He; pose proof (rnd_neg _ (Hpre e He)); lia).
  replace (w' + wsum l' c) with (wtotal pre + wsum l' c) by lia.
  split.
  - intros [[e [He Hce]] Hin]. split; [exact Hin|]. exists e. split; [apply in_or_app; right; exact He|exact Hce].
  - intros [Hin [e [He Hce]]]. split; [|exact Hin]. exists e. split; [|exact Hce].
    apply in_app_or in He. destruct He as [He|He]; [|exact He].
    pose proof (rnd_neg _ (Hpre e He)). lia.
Qed.

(* ---- the spans are ordered and pairwise disjoint ---- *)
Fixpoint spans_sorted (lo : Z) (sp : list (Z * Z)) : Prop :=
  match sp with
  | [] => True
  | s :: t => lo <= fst s /\ fst s <= snd s /\ spans_sorted (snd s) t
  end.

Lemma spans_sorted_weaken lo lo' sp : lo' <= lo -> spans_sorted lo sp -> spans_sorted lo' sp.
Proof. destruct sp as [|s t]; cbn [spans_sorted]; [trivial|]. intros H (H1 & H2 & H3). repeat split; try assumption; lia. Qed.

Lemma scan_sorted rule w4 l : forall w prev,
  sorted l -> (forall e, In e l -> prev <= e_fullx e) ->
  spans_sorted (rnd prev) (scan rule w4 l w prev).
Proof.
  induction l as [|e t IH]; intros w prev Hs Hp; cbn [scan]; [exact I|].
  apply sorted_cons_inv in Hs. destruct Hs as [Hst Hall].
  assert (Hpe: prev <= e_fullx e) by (apply Hp; left; reflexivity).
  pose proof (rnd_mono _ _ Hpe) as Hr.
  assert (Hpt: forall e', In e' t -> e_fullx e <= e_fullx e').
  { intros e' He'. rewrite Forall_forall in Hall. apply Hall; exact He'. }
  specialize (IH (w + e_wind e) (e_fullx e) Hst Hpt).
  destruct (w4 <=? dot16_to_dot2 (e_fullx e)); destruct (inside rule w); cbn [app spans_sorted fst snd].
  - lia.
  - exact I.
  - split; [lia|]. split; [lia|]. exact IH.
  - eapply spans_sorted_weaken; [|exact IH]. exact Hr.
Qed.

Theorem scan_edges_sorted rule w4 l : sorted l -> spans_sorted 0 (scan_edges rule w4 l).
Proof.
  intros Hs. unfold scan_edges.
  destruct (skip_left l 0) as [l' w'] eqn:Hsk.
  destruct (skip_left_spec _ _ _ _ Hsk) as (pre & Hl & Hpre & Hw & Hhd).
  subst l. destruct (sorted_app_inv _ _ Hs) as (Hs1 & Hs2 & Hs12).
  assert (Hp: forall e, In e l' -> 0 <= e_fullx e).
  { destruct l' as [|e0 t0]; [intros e []|].
    apply sorted_cons_inv in Hs2. destruct Hs2 as [_ Hall]. rewrite Forall_forall in Hall.
    intros e [<-|He]; [exact Hhd|]. specialize (Hall e He). unfold fx_le in Hall. lia. }
  apply (scan_sorted rule w4 l' w' 0 Hs2 Hp).
Qed.

(* consequences of spans_sorted in the "pairwise" form *)
Lemma spans_sorted_all_ge lo sp : spans_sorted lo sp -> forall s, In s sp -> lo <= fst s /\ fst s <= snd s.
Proof.
  revert lo; induction sp as [|s0 t IH]; intros lo H s Hin; [destruct Hin|].
  cbn in H. destruct H as (H1 & H2 & H3). destruct Hin as [<-|Hin]; [lia|].
  specialize (IH _ H3 s Hin). lia.
Qed.

Lemma spans_sorted_app lo sp1 sp2 :
  spans_sorted lo (sp1 ++ sp2) -> spans_sorted lo sp1 /\
  (forall s1 s2, In s1 sp1 -> In s2 sp2 -> snd s1 <= fst s2).
Proof.
  revert lo; induction sp1 as [|s t IH]; intros lo H; cbn [app] in *.
  - split; [exact I|]. intros s1 s2 [].
  - cbn in H. destruct H as (H1 & H2 & H3). destruct (IH _ H3) as [H4 H5].
    split; [cbn; auto|].
    intros s1 s2 [<-|Hi1] Hi2.
    + assert (In s2 (t ++ sp2)) by (apply in_or_app; right; exact Hi2).
      pose proof (spans_sorted_all_ge _ _ H3 s2 H). lia.
    + apply H5; assumption.
Qed.

(* an upper bound for the span ends, needed by the blitter: every span starts at or before w4
   (the loop only continues while floor(fullx) < w4) *)
Lemma scan_fst_le rule w4 l : forall w prev, dot16_to_dot2 prev < w4 \/ rnd prev <= w4 ->
  forall s, In s (scan rule w4 l w prev) -> fst s <= w4.
Proof.
  induction l as [|e t IH]; intros w prev Hprev s Hin; cbn [scan] in Hin; [destruct Hin|].
  assert (Hr: rnd prev <= w4).
  { destruct Hprev as [H|H]; [|exact H]. unfold dot16_to_dot2 in H. rewrite rnd_eq. rewrite shiftr14 in H. lia. }
  assert (Hsp: In s (if inside rule w then [(rnd prev, rnd (e_fullx e))] else []) -> fst s <= w4).
  { destruct (inside rule w); cbn; [|tauto]. intros [<-|[]]. cbn. exact Hr. }
  destruct (w4 <=? dot16_to_dot2 (e_fullx e)) eqn:E; [apply Hsp; exact Hin|].
  apply in_app_or in Hin. destruct Hin as [Hin|Hin]; [apply Hsp; exact Hin|].
  eapply IH; [|exact Hin]. left. lia.
Qed.

Lemma scan_edges_fst_le rule w4 l s : 0 <= w4 -> In s (scan_edges rule w4 l) -> fst s <= w4.
Proof.
  intros Hw. unfold scan_edges. destruct (skip_left l 0) as [l' w'].
  apply scan_fst_le. right. rewrite rnd_0. exact Hw.
Qed.

(* ---- closed shapes: total winding 0 makes the "an edge to the right" conjunct redundant ---- *)
Lemma inside_0 rule : inside rule 0 = false.
Proof. destruct rule; reflexivity. Qed.

Corollary scan_edges_spec_closed rule w4 l c :
  sorted l -> 0 <= c < w4 -> wtotal l = 0 ->
  ((exists s, In s (scan_edges rule w4 l) /\ fst s <= c < snd s) <-> inside rule (wsum l c) = true).
Proof.
  intros Hs Hc Ht. rewrite (scan_edges_spec rule w4 l c Hs Hc).
  split; [tauto|]. intros Hin. split; [exact Hin|].
  (* otherwise every edge is at or left of c and the winding is the total = 0 *)
  destruct (existsb (fun e => c <? rnd (e_fullx e)) l) eqn:E.
  - apply existsb_exists in E. destruct E as [e [He Hlt]]. exists e. split; [exact He|lia].
  - exfalso. rewrite wsum_all_left in Hin.
    + rewrite Ht, inside_0 in Hin. discriminate.
    + intros e He. destruct (Z_lt_le_dec c (rnd (e_fullx e))) as [Hlt|Hge]; [|exact Hge].
      assert (existsb (fun e => c <? rnd (e_fullx e)) l = true)
        by (apply existsb_exists; exists e; split; [exact He|lia]).
      congruence.
Qed.

Print Assumptions scan_edges_spec.
Print Assumptions scan_edges_sorted.
Print Assumptions scan_edges_spec_closed.

(* ===== Part 3: line edges: closed form of stepping, pre-stepping, crossing error ===== *)

Lemma with_fullx_id e : with_fullx e (e_fullx e) = e.
Proof. destruct e; reflexivity. Qed.
Lemma with_fullx_twice e a b : with_fullx (with_fullx e a) b = with_fullx e b.
Proof. reflexivity. Qed.
Lemma with_fullx_fullx e a : e_fullx (with_fullx e a) = a.  Proof. reflexivity. Qed.
Lemma with_fullx_slope e a : e_slope (with_fullx e a) = e_slope e.  Proof. reflexivity. Qed.
Lemma with_fullx_shift e a : e_shift (with_fullx e a) = e_shift e.  Proof. reflexivity. Qed.
Lemma with_fullx_y2 e a : e_y2 (with_fullx e a) = e_y2 e.  Proof. reflexivity. Qed.
Lemma with_fullx_wind e a : e_wind (with_fullx e a) = e_wind e.  Proof. reflexivity. Qed.
Lemma with_fullx_err e a : e_err (with_fullx e a) = e_err e.  Proof. reflexivity. Qed.

(* the edge after n steps of a line edge *)
Definition line_at (e : aedge) (n : Z) : aedge := with_fullx e (e_fullx e + n * e_slope e).

Lemma line_at_0 e : line_at e 0 = e.
Proof. unfold line_at. replace (e_fullx e + 0 * e_slope e) with (e_fullx e) by lia. apply with_fullx_id. Qed.
Lemma line_at_line_at e a b : line_at (line_at e a) b = line_at e (a + b).
Proof. unfold line_at. rewrite with_fullx_twice, with_fullx_fullx, with_fullx_slope. f_equal. lia. Qed.
Lemma line_at_fullx e n : e_fullx (line_at e n) = e_fullx e + n * e_slope e.  Proof. reflexivity. Qed.
Lemma line_at_shift e n : e_shift (line_at e n) = e_shift e.  Proof. reflexivity. Qed.
Lemma line_at_slope e n : e_slope (line_at e n) = e_slope e.  Proof. reflexivity. Qed.
Lemma line_at_y2 e n : e_y2 (line_at e n) = e_y2 e.  Proof. reflexivity. Qed.
Lemma line_at_wind e n : e_wind (line_at e n) = e_wind e.  Proof. reflexivity. Qed.
Lemma line_at_err e n : e_err (line_at e n) = e_err e.  Proof. reflexivity. Qed.

Theorem step_line e y : e_shift e = 0 -> step e y = with_fullx e (e_fullx e + e_slope e).
Proof. intros H. unfold step. rewrite H. reflexivity. Qed.

Corollary step_line_at e y : e_shift e = 0 -> step e y = line_at e 1.
Proof. intros H. rewrite (step_line e y H). unfold line_at. f_equal. lia. Qed.

(* n successive steps on rows y, y+1, ... *)
Fixpoint steps (n : nat) (e : aedge) (y : Z) : aedge :=
  match n with O => e | S k => steps k (step e y) (y + 1) end.

Theorem steps_line n : forall e y, e_shift e = 0 -> steps n e y = line_at e (Z.of_nat n).
Proof.
  induction n as [|k IH]; intros e y H; cbn [steps].
  - symmetry. apply line_at_0.
  - rewrite (step_line_at e y H). rewrite IH by (rewrite line_at_shift; exact H).
    rewrite line_at_line_at. f_equal. lia.
Qed.

Corollary steps_line_fullx n e y : e_shift e = 0 ->
  e_fullx (steps n e y) = e_fullx e + Z.of_nat n * e_slope e.
Proof. intros H. rewrite (steps_line n e y H). reflexivity. Qed.

(* pre-stepping of a line edge: min(n, -cury) steps *)
Theorem prestep_line n : forall e cury, e_shift e = 0 ->
  prestep n e cury =
    let k := Z.max 0 (Z.min (Z.of_nat n) (- cury)) in (line_at e k, cury + k).
Proof.
  induction n as [|k IH]; intros e cury H; cbn [prestep].
  - cbv zeta. replace (Z.max 0 (Z.min (Z.of_nat 0) (- cury))) with 0 by lia.
    rewrite line_at_0. f_equal. lia.
  - destruct (cury <? 0) eqn:E.
    + rewrite (step_line_at e cury H). rewrite IH by (rewrite line_at_shift; exact H).
      cbv zeta. rewrite line_at_line_at.
      replace (1 + Z.max 0 (Z.min (Z.of_nat k) (- (cury + 1))))
        with (Z.max 0 (Z.min (Z.of_nat (S k)) (- cury))) by lia.
      f_equal. lia.
    + cbv zeta. replace (Z.max 0 (Z.min (Z.of_nat (S k)) (- cury))) with 0 by lia.
      rewrite line_at_0. f_equal. lia.
Qed.

(* the multiplication used by add_edge for straight edges that start above the surface *)
Corollary prestep_line_full e cury : e_shift e = 0 -> cury < 0 ->
  prestep (Z.to_nat (- cury)) e cury = (with_fullx e (e_fullx e + (- cury) * e_slope e), 0).
Proof.
  intros H Hc. rewrite (prestep_line _ e cury H). cbv zeta.
  replace (Z.max 0 (Z.min (Z.of_nat (Z.to_nat (- cury))) (- cury))) with (- cury) by lia.
  unfold line_at. f_equal. lia.
Qed.

(* the edge record built by add_edge for a straight edge (before pre-stepping) *)
Definition line_edge (x1 y1 x2 y2 w : Z) : aedge :=
  mk_aedge x2 y2 (Z.quot ((x2 - x1) * 16384) (y2 - y1)) (dot2_to_dot16 x1) 0 0 0 0 0 0 0 0 0 0 w false.

Lemma line_edge_shift x1 y1 x2 y2 w : e_shift (line_edge x1 y1 x2 y2 w) = 0.  Proof. reflexivity. Qed.

(* add_edge on a straight edge, in closed form *)
Theorem add_edge_line r swap sx sy ex ey cx cy :
  add_edge r swap sx sy ex ey false cx cy =
    let '(x1, y1, x2, y2, w) := if swap then (ex, ey, sx, sy, -1) else (sx, sy, ex, ey, 1) in
    if (y2 <? 0) || (r_h4 r <=? y1) then r else
    if y2 <=? y1 then r else
    let ys := Z.max y1 0 in
    let e := line_at (line_edge x1 y1 x2 y2 w) (ys - y1) in
    mk_rast (r_w4 r) (r_h4 r)
      (Z.min (r_top r) (dot2_to_int y1)) (Z.max (r_bottom r) (dot2_to_int (y2 + 3)))
      (Z.min (Z.min (r_left r) (dot2_to_int x1)) (dot2_to_int x2))
      (Z.max (Z.max (r_right r) (dot2_to_int (x1 + 3))) (dot2_to_int (x2 + 3)))
      (if y2 <=? ys then r_starts r else (ys, e) :: r_starts r) (r_active r).
Proof.
  unfold add_edge.
  destruct swap.
  - destruct ((sy <? 0) || (r_h4 r <=? ey)) eqn:E1; [reflexivity|].
    destruct (sy <=? ey) eqn:E2; [reflexivity|].
    cbv zeta. destruct (ey <? 0) eqn:E3.
    + replace (Z.max ey 0) with 0 by lia. cbn [e_err negb andb e_fullx e_slope with_fullx].
      rewrite andb_true_r.
      unfold line_at, line_edge. cbn [e_fullx e_slope with_fullx].
      replace (0 - ey) with (- ey) by lia. destruct (sy <=? 0); reflexivity.
    + replace (Z.max ey 0) with ey by lia. cbn [andb].
      rewrite E2.
      replace (ey - ey) with 0 by lia. rewrite line_at_0. reflexivity.
  - destruct ((ey <? 0) || (r_h4 r <=? sy)) eqn:E1; [reflexivity|].
    destruct (ey <=? sy) eqn:E2; [reflexivity|].
    cbv zeta. destruct (sy <? 0) eqn:E3.
    + replace (Z.max sy 0) with 0 by lia. cbn [e_err negb andb e_fullx e_slope with_fullx].
      rewrite andb_true_r.
      unfold line_at, line_edge. cbn [e_fullx e_slope with_fullx].
      replace (0 - sy) with (- sy) by lia. destruct (ey <=? 0); reflexivity.
    + replace (Z.max sy 0) with sy by lia. cbn [andb].
      rewrite E2.
      replace (sy - sy) with 0 by lia. rewrite line_at_0. reflexivity.
Qed.

(* ---- crossing error of the fixed-point slope ---- *)
(* truncated division by a positive number *)
Lemma quot_bounds N D : 0 < D ->
  Z.abs (Z.quot N D * D - N) < D /\
  (0 <= N -> 0 <= Z.quot N D /\ Z.quot N D * D <= N) /\
  (N <= 0 -> Z.quot N D <= 0 /\ N <= Z.quot N D * D).
Proof.
  intros HD. pose proof (Z.quot_rem' N D) as Hqr.
  split; [|split].
  - destruct (Z_le_gt_dec 0 N) as [HN|HN].
    + pose proof (Z.rem_bound_pos N D HN HD). lia.
    + pose proof (Z.rem_bound_pos_neg N D HD ltac:(lia)). lia.
  - intros HN.
    pose proof (Z.rem_bound_pos N D HN HD). pose proof (Z.quot_pos N D HN HD). lia.
  - intros HN.
    destruct (Z.eq_dec N 0) as [H0|H0].
    + rewrite H0 in *. rewrite Z.quot_0_l by lia. lia.
    + pose proof (Z.rem_bound_pos_neg N D HD ltac:(lia)).
      assert (Z.quot N D <= 0).
      { rewrite <- (Z.opp_involutive N). rewrite Z.quot_opp_l by lia.
        pose proof (Z.quot_pos (- N) D ltac:(lia) HD). lia. }
      lia.
Qed.

Section Crossing.
  Variables x1 y1 x2 y2 : Z.
  Hypothesis Hy : y1 < y2.
  Let slope := Z.quot ((x2 - x1) * 16384) (y2 - y1).
  Let F (y : Z) := x1 * 16384 + (y - y1) * slope.

  Lemma slope_bounds :
    Z.abs (slope * (y2 - y1) - (x2 - x1) * 16384) < y2 - y1 /\
    (0 <= (x2 - x1) -> 0 <= slope /\ slope * (y2 - y1) <= (x2 - x1) * 16384) /\
    ((x2 - x1) <= 0 -> slope <= 0 /\ (x2 - x1) * 16384 <= slope * (y2 - y1)).
  Proof.
    subst slope. pose proof (quot_bounds ((x2 - x1) * 16384) (y2 - y1) ltac:(lia)) as (H1 & H2 & H3).
    split; [exact H1|]. split; intros Hx; [apply H2|apply H3]; lia.
  Qed.

  (* |F(y) - exact crossing| * (y2-y1), without division *)
  Theorem crossing_error y : y1 <= y <= y2 ->
    Z.abs (F y * (y2 - y1) - (x1 * 16384 * (y2 - y1) + (y - y1) * (x2 - x1) * 16384))
      <= (y - y1) * (y2 - y1).
  Proof.
    intros Hyy. destruct slope_bounds as [Hb _]. subst F. cbv beta.
    replace ((x1 * 16384 + (y - y1) * slope) * (y2 - y1) -
             (x1 * 16384 * (y2 - y1) + (y - y1) * (x2 - x1) * 16384))
      with ((y - y1) * (slope * (y2 - y1) - (x2 - x1) * 16384)) by ring.
    rewrite Z.abs_mul. rewrite (Z.abs_eq (y - y1)) by lia.
    apply Z.mul_le_mono_nonneg_l; lia.
  Qed.

  (* the stronger strict form: the error is below (y - y1) sixteen-thousandths of a quarter pixel
     for y > y1 (and exactly 0 at y = y1) *)
  Theorem crossing_error_strict y : y1 < y <= y2 ->
    Z.abs (F y * (y2 - y1) - (x1 * 16384 * (y2 - y1) + (y - y1) * (x2 - x1) * 16384))
      < (y - y1) * (y2 - y1).
  Proof.
    intros Hyy. destruct slope_bounds as [Hb _]. subst F. cbv beta.
    replace ((x1 * 16384 + (y - y1) * slope) * (y2 - y1) -
             (x1 * 16384 * (y2 - y1) + (y - y1) * (x2 - x1) * 16384))
      with ((y - y1) * (slope * (y2 - y1) - (x2 - x1) * 16384)) by ring.
    rewrite Z.abs_mul. rewrite (Z.abs_eq (y - y1)) by lia.
    apply Z.mul_lt_mono_pos_l; lia.
  Qed.

  (* F stays between the end points and never overshoots x2 *)
  Theorem crossing_between y : y1 <= y <= y2 ->
    (x1 <= x2 -> x1 * 16384 <= F y <= x2 * 16384) /\
    (x2 <= x1 -> x2 * 16384 <= F y <= x1 * 16384).
  Proof.
    intros Hyy. destruct slope_bounds as (_ & Hpos & Hneg). subst F. cbv beta.
    split; intros Hx.
    - destruct (Hpos ltac:(lia)) as [Hs0 Hs1].
      assert (0 <= (y - y1) * slope) by (apply Z.mul_nonneg_nonneg; lia).
      assert ((y - y1) * slope <= (y2 - y1) * slope) by (apply Z.mul_le_mono_nonneg_r; lia).
      lia.
    - destruct (Hneg ltac:(lia)) as [Hs0 Hs1].
      assert ((y - y1) * slope <= 0) by (apply Z.mul_nonneg_nonpos; lia).
      assert ((y2 - y1) * slope <= (y - y1) * slope) by (apply Z.mul_le_mono_nonpos_r; lia).
      lia.
  Qed.

  (* monotone toward x2 *)
  Theorem crossing_monotone y y' : y <= y' ->
    (x1 <= x2 -> F y <= F y') /\ (x2 <= x1 -> F y' <= F y).
  Proof.
    intros Hyy. destruct slope_bounds as (_ & Hpos & Hneg). subst F. cbv beta.
    split; intros Hx.
    - destruct (Hpos ltac:(lia)) as [Hs0 _].
      assert ((y - y1) * slope <= (y' - y1) * slope) by (apply Z.mul_le_mono_nonneg_r; lia). lia.
    - destruct (Hneg ltac:(lia)) as [Hs0 _].
      assert ((y' - y1) * slope <= (y - y1) * slope) by (apply Z.mul_le_mono_nonpos_r; lia). lia.
  Qed.
End Crossing.

(* the fullx of the edge that add_edge creates, stepped to row y, is F y *)
Lemma line_edge_at_fullx x1 y1 x2 y2 w n :
  e_fullx (line_at (line_edge x1 y1 x2 y2 w) n) =
  x1 * 16384 + n * Z.quot ((x2 - x1) * 16384) (y2 - y1).
Proof. reflexivity. Qed.

Print Assumptions steps_line.
Print Assumptions prestep_line_full.
Print Assumptions add_edge_line.
Print Assumptions crossing_error.
Print Assumptions crossing_between.

(* ===== Part 4: effect of one span on the coverage buffer (blit_super, blit_mask) ===== *)

(* ---- small list facts on zn / splice ---- *)
Lemma zlen_cons {A} (x : A) l : zlen (x :: l) = zlen l + 1.
Proof. unfold zlen. cbn [length]. lia. Qed.
Lemma zlen_app {A} (l1 l2 : list A) : zlen (l1 ++ l2) = zlen l1 + zlen l2.
Proof. unfold zlen. rewrite app_length. lia. Qed.
Lemma zlen_nil {A} : zlen (@nil A) = 0.
Proof. reflexivity. Qed.

Lemma zn_cons x l i : 0 <= i -> zn (x :: l) i = if i =? 0 then x else zn l (i - 1).
Proof.
  intros Hi. unfold zn. destruct (i =? 0) eqn:E.
  - replace i with 0 by lia. reflexivity.
  - replace (Z.to_nat i) with (S (Z.to_nat (i - 1))) by lia. reflexivity.
Qed.

Lemma zn_app l1 l2 i : 0 <= i -> zn (l1 ++ l2) i = if i <? zlen l1 then zn l1 i else zn l2 (i - zlen l1).
Proof.
  intros Hi. unfold zn, zlen. destruct (i <? Z.of_nat (length l1)) eqn:E.
  - apply app_nth1. lia.
  - rewrite app_nth2 by lia. f_equal. lia.
Qed.

Lemma zn_splice l a new i :
  0 <= a -> a + zlen new <= zlen l -> 0 <= i ->
  zn (splice l a new) i = if (a <=? i) && (i <? a + zlen new) then zn new (i - a) else zn l i.
Proof.
  intros Ha Hl Hi. unfold zn, zlen in *. rewrite nth_splice by lia.
  destruct (Nat.leb_spec (Z.to_nat a) (Z.to_nat i)); destruct (Nat.ltb_spec (Z.to_nat i) (Z.to_nat a + length new));
  destruct (Z.leb_spec a i); destruct (Z.ltb_spec i (a + Z.of_nat (length new))); cbn [andb]; try lia; try reflexivity.
  f_equal. lia.
Qed.

Lemma zn_map f l i : 0 <= i < zlen l -> zn (map f l) i = f (zn l i).
Proof.
  intros Hi. unfold zn, zlen in *.
  rewrite (nth_indep (map f l) 0 (f 0)) by (rewrite map_length; lia). apply map_nth.
Qed.

Lemma zn_firstn l n i : 0 <= i < n -> zn (firstn (Z.to_nat n) l) i = zn l i.
Proof. intros Hi. unfold zn. apply nth_firstn'. lia. Qed.

Lemma zn_slice l a b r i : slice l a b = Ok r -> 0 <= i < b - a -> zn r i = zn l (a + i).
Proof.
  intros H Hi. destruct (slice_ok _ _ _ _ H) as (H1 & H2 & H3 & H4).
  unfold zn. rewrite H4 by lia. f_equal. lia.
Qed.

Lemma zlen_slice {A} (l : list A) a b r : slice l a b = Ok r -> zlen r = b - a /\ 0 <= a <= b /\ b <= zlen l.
Proof.
  intros H. destruct (slice_ok _ _ _ _ H) as (H1 & H2 & H3 & H4). unfold zlen in *. lia.
Qed.

(* ---- add_all ---- *)
Lemma add_all_ok l v : (forall x, In x l -> x + v <= 255) -> add_all l v = Ok (map (fun x => x + v) l).
Proof.
  induction l as [|x t IH]; intros H; cbn [add_all map]; [reflexivity|].
  pose proof (H x (or_introl eq_refl)).
  destruct (255 <? x + v) eqn:E; [lia|].
  rewrite IH by (intros; apply H; right; assumption). reflexivity.
Qed.

Lemma add_all_err l v : (exists x, In x l /\ 255 < x + v) -> add_all l v = Err Overflow.
Proof.
  induction l as [|x t IH]; intros [x0 [Hin Hx]]; [destruct Hin|]. cbn [add_all].
  destruct (255 <? x + v) eqn:E; [reflexivity|].
  destruct Hin as [->|Hin]; [lia|].
  rewrite IH by (exists x0; split; assumption). reflexivity.
Qed.

(* ---- saturated_add ---- *)
Lemma saturated_add_small a b : 0 <= a + b <= 256 -> saturated_add a b = Z.min 255 (a + b).
Proof.
  intros H. unfold saturated_add, wrapu8. cbv zeta. rewrite shiftr8, land255. lia.
Qed.
Lemma saturated_add_0 a : 0 <= a <= 255 -> saturated_add a 0 = a.
Proof. intros H. rewrite saturated_add_small by lia. lia. Qed.
Lemma saturated_add_range a b : 0 <= saturated_add a b <= 255.
Proof. unfold saturated_add, wrapu8. cbv zeta. rewrite land255. lia. Qed.
Lemma cpa_small aa : 0 <= aa <= 15 -> coverage_to_partial_alpha aa = 16 * aa.
Proof. intros H. unfold coverage_to_partial_alpha, wrapu8. rewrite land255. lia. Qed.

(* ---- the slice update of blit_super, isolated ---- *)
Definition upd_slice (mx fb fe : Z) (b : list Z) : result (list Z) :=
  let len := zlen b in
  if len =? 0 then Ok b
  else if len =? 1 then
    match b with x :: _ => Ok [saturated_add x (coverage_to_partial_alpha (fe - fb))] | [] => Ok b end
  else
    match b with
    | x :: rest =>
        let mid := firstn (Z.to_nat (len - 2)) rest in
        let last := nth (Z.to_nat (len - 2)) rest 0 in
        do mid' <- add_all mid mx;
        Ok (saturated_add x (coverage_to_partial_alpha (4 - fb)) :: mid' ++ [saturated_add last (coverage_to_partial_alpha fe)])
    | [] => Ok b
    end.

Lemma blit_super_unfold m y x1 x2 :
  blit_super m y x1 x2 =
  let yy := y - m_y m in
  let a := x1 - m_x m in
  let b := Z.min (x2 - m_x m) (m_w m * 4) in
  let start := Z.quot yy 4 * m_w m in
  let lo := start + Z.shiftr a 2 in
  let hi := start + Z.shiftr b 2 + 1 in
  if (start <? 0) || (a <? 0) || (b <? 0) then Err OutOfBounds else
  do sl <- slice (m_buf m) lo hi;
  do sl' <- upd_slice (64 - Z.shiftr (Z.land yy 3 + 1) 2) (Z.land a 3) (Z.land b 3) sl;
  Ok (mk_maskbuf (m_x m) (m_y m) (m_w m) (splice (m_buf m) lo sl')).
Proof. reflexivity. Qed.

Lemma upd_slice_spec mx fb fe sl :
  1 <= zlen sl ->
  (forall k, 1 <= k < zlen sl - 1 -> zn sl k + mx <= 255) ->
  exists sl', upd_slice mx fb fe sl = Ok sl' /\ zlen sl' = zlen sl /\
    forall k, 0 <= k < zlen sl ->
      zn sl' k =
        if zlen sl =? 1 then saturated_add (zn sl k) (coverage_to_partial_alpha (fe - fb))
        else if k =? 0 then saturated_add (zn sl k) (coverage_to_partial_alpha (4 - fb))
        else if k =? zlen sl - 1 then saturated_add (zn sl k) (coverage_to_partial_alpha fe)
        else zn sl k + mx.
Proof.
  intros Hlen Hmid. unfold upd_slice. cbv zeta.
  destruct sl as [|x rest]; [rewrite zlen_nil in Hlen; lia|].
  rewrite zlen_cons in *.
  pose proof (zlen_nonneg rest) as Hr.
  destruct (zlen rest + 1 =? 0) eqn:E0; [lia|].
  destruct (zlen rest + 1 =? 1) eqn:E1.
  - eexists. split; [reflexivity|]. split; [rewrite zlen_cons, zlen_nil; lia|].
    intros k Hk. replace k with 0 by lia. reflexivity.
  - remember (zlen rest) as n eqn:Hn. unfold zlen in Hn.
    replace (n + 1 - 2) with (n - 1) by lia.
    rewrite add_all_ok.
    2:{ intros v Hv. apply In_nth with (d := 0) in Hv. destruct Hv as (j & Hj & <-).
        rewrite firstn_length in Hj.
        rewrite nth_firstn' by lia.
        specialize (Hmid (Z.of_nat j + 1)). rewrite zn_cons in Hmid by lia.
        replace (Z.of_nat j + 1 =? 0) with false in Hmid by lia.
        replace (Z.of_nat j + 1 - 1) with (Z.of_nat j) in Hmid by lia.
        unfold zn in Hmid. rewrite Nat2Z.id in Hmid. apply Hmid. lia. }
    cbn [bind].
    eexists. split; [reflexivity|].
    assert (Hml: zlen (map (fun x0 => x0 + mx) (firstn (Z.to_nat (n - 1)) rest)) = n - 1).
    { unfold zlen. rewrite map_length, firstn_length. lia. }
    split.
    { rewrite zlen_cons, zlen_app, Hml, zlen_cons, zlen_nil. lia. }
    intros k Hk. rewrite !(zn_cons _ _ k) by lia.
    destruct (k =? 0) eqn:Ek0; [reflexivity|].
    rewrite zn_app by lia. rewrite Hml.
    destruct (k =? n + 1 - 1) eqn:Ekl.
    + replace (k - 1 <? n - 1) with false by lia.
      replace (k - 1 - (n - 1)) with 0 by lia. rewrite zn_cons by lia. cbn [Z.eqb].
      replace (k - 1) with (n - 1) by lia. reflexivity.
    + replace (k - 1 <? n - 1) with true by lia.
      rewrite zn_map by (unfold zlen; rewrite firstn_length; lia).
      rewrite zn_firstn by lia. reflexivity.
Qed.

Lemma upd_slice_err mx fb fe sl :
  (exists k, 1 <= k < zlen sl - 1 /\ 255 < zn sl k + mx) -> upd_slice mx fb fe sl = Err Overflow.
Proof.
  intros (k & Hk & Hov). unfold upd_slice. cbv zeta.
  destruct sl as [|x rest]; [rewrite zlen_nil in Hk; lia|].
  rewrite zlen_cons in *.
  destruct (zlen rest + 1 =? 0) eqn:E0; [lia|].
  destruct (zlen rest + 1 =? 1) eqn:E1; [lia|].
  rewrite add_all_err; [reflexivity|].
  exists (zn (x :: rest) k). split; [|exact Hov].
  rewrite zn_cons by lia. replace (k =? 0) with false by lia.
  rewrite <- (zn_firstn rest (zlen rest + 1 - 2) (k - 1)) by lia.
  unfold zn. apply nth_In. rewrite firstn_length. unfold zlen in *. lia.
Qed.

(* ---- the specification functions ---- *)
(* number of quarter cells of [a,b) inside pixel p *)
Definition cells_in (p a b : Z) : Z := Z.max 0 (Z.min b (4 * p + 4) - Z.max a (4 * p)).
(* the full-pixel increment of sub-row yy: 64, or 63 on the fourth sub-row *)
Definition submax (yy : Z) : Z := 64 - Z.shiftr (Z.land yy 3 + 1) 2.
Definition interior (p a b : Z) : bool := (a / 4 <? p) && (p <? b / 4).
Definition cell_update (yy a b p v : Z) : Z :=
  if interior p a b then v + submax yy else saturated_add v (16 * cells_in p a b).

Lemma submax_eq yy : submax yy = if yy mod 4 =? 3 then 63 else 64.
Proof. unfold submax. rewrite shiftr2, land3. destruct (yy mod 4 =? 3) eqn:E; lia. Qed.

Lemma cells_in_range p a b : 0 <= cells_in p a b <= 4.
Proof. unfold cells_in. lia. Qed.
Lemma cells_in_outside p a b : a <= b -> (p < a / 4 \/ b / 4 < p) -> cells_in p a b = 0.
Proof. unfold cells_in. lia. Qed.
Lemma cells_in_interior p a b : a / 4 < p < b / 4 -> cells_in p a b = 4.
Proof. unfold cells_in. lia. Qed.

Definition bytes_ok (buf : list Z) : Prop := forall i, 0 <= i < zlen buf -> 0 <= zn buf i <= 255.

Lemma cell_update_outside yy a b p v :
  a <= b -> (p < a / 4 \/ b / 4 < p) -> 0 <= v <= 255 -> cell_update yy a b p v = v.
Proof.
  intros Hab Hp Hv. unfold cell_update, interior.
  replace ((a / 4 <? p) && (p <? b / 4)) with false by lia.
  rewrite cells_in_outside by assumption. apply saturated_add_0. exact Hv.
Qed.

Lemma cell_update_range yy a b p v : 0 <= v -> v + submax yy <= 255 \/ interior p a b = false ->
  0 <= cell_update yy a b p v <= 255.
Proof.
  intros Hv H. unfold cell_update. destruct (interior p a b).
  - rewrite submax_eq in *. destruct H as [H|H]; [|discriminate]. destruct (yy mod 4 =? 3); lia.
  - apply saturated_add_range.
Qed.

(* ---- MaskSuperBlitter::blit_span ---- *)
(* Exact effect of one span.  yy, a, b are the row and the span relative to the buffer origin
   (b already clamped to the buffer width as in the code), st the index of the first byte of the
   pixel row.  Bytes st + a/4 .. st + b/4 are rewritten by cell_update, everything else is untouched.
   The only way to fail is a u8 overflow of `+= max` on a strictly interior byte. *)
Theorem blit_super_spec m y x1 x2 :
  let yy := y - m_y m in
  let a := x1 - m_x m in
  let b := Z.min (x2 - m_x m) (m_w m * 4) in
  let st := yy / 4 * m_w m in
  0 <= m_w m -> 0 <= yy -> 0 <= a <= b ->
  st + m_w m < zlen (m_buf m) ->
  (forall p, a / 4 < p < b / 4 -> zn (m_buf m) (st + p) + submax yy <= 255) ->
  exists buf',
    blit_super m y x1 x2 = Ok (mk_maskbuf (m_x m) (m_y m) (m_w m) buf') /\
    length buf' = length (m_buf m) /\
    forall i, 0 <= i < zlen (m_buf m) ->
      zn buf' i = if (a / 4 <=? i - st) && (i - st <=? b / 4)
                  then cell_update yy a b (i - st) (zn (m_buf m) i) else zn (m_buf m) i.
Proof.
  intros yy a b st Hw Hyy Hab Hlen Hint.
  rewrite blit_super_unfold. cbv zeta. fold yy a b.
  rewrite Z.quot_div_nonneg by lia. fold st.
  assert (Hst: 0 <= st) by (subst st; apply Z.mul_nonneg_nonneg; lia).
  assert (Hb4: b <= m_w m * 4) by (subst b; lia).
  fold (submax yy). rewrite !shiftr2, !land3.
  replace ((st <? 0) || (a <? 0) || (b <? 0)) with false by lia.
  destruct (slice_in_range (m_buf m) (st + a / 4) (st + b / 4 + 1) ltac:(lia) ltac:(lia)) as [sl Hsl].
  rewrite Hsl. cbn [bind].
  destruct (zlen_slice _ _ _ _ Hsl) as (Hsl1 & Hsl2 & Hsl3).
  destruct (upd_slice_spec (submax yy) (a mod 4) (b mod 4) sl ltac:(lia)) as (sl' & Hu & Hul & Hun).
  { intros k Hk. rewrite (zn_slice _ _ _ _ _ Hsl) by lia.
    replace (st + a / 4 + k) with (st + (a / 4 + k)) by lia. apply Hint. lia. }
  rewrite Hu. cbn [bind]. eexists. split; [reflexivity|].
  split.
  { apply splice_length; [lia|]. unfold zlen in *. lia. }
  intros i Hi.
  rewrite zn_splice by lia. rewrite Hul, Hsl1.
  unfold cell_update, interior.
  destruct ((a / 4 <=? i - st) && (i - st <=? b / 4)) eqn:Ein.
  - replace ((st + a / 4 <=? i) && (i <? st + a / 4 + (st + b / 4 + 1 - (st + a / 4)))) with true by lia.
    rewrite Hun by lia. rewrite Hsl1.
    rewrite (zn_slice _ _ _ _ _ Hsl) by lia.
    replace (st + a / 4 + (i - (st + a / 4))) with i by lia.
    destruct (st + b / 4 + 1 - (st + a / 4) =? 1) eqn:E1.
    + replace ((a / 4 <? i - st) && (i - st <? b / 4)) with false by lia.
      rewrite cpa_small by lia. f_equal. unfold cells_in. lia.
    + destruct (i - (st + a / 4) =? 0) eqn:Ek0.
      * replace ((a / 4 <? i - st) && (i - st <? b / 4)) with false by lia.
        rewrite cpa_small by lia. f_equal. unfold cells_in. lia.
      * destruct (i - (st + a / 4) =? st + b / 4 + 1 - (st + a / 4) - 1) eqn:Ekl.
        -- replace ((a / 4 <? i - st) && (i - st <? b / 4)) with false by lia.
           rewrite cpa_small by lia. f_equal. unfold cells_in. lia.
        -- replace ((a / 4 <? i - st) && (i - st <? b / 4)) with true by lia. reflexivity.
  - replace ((st + a / 4 <=? i) && (i <? st + a / 4 + (st + b / 4 + 1 - (st + a / 4)))) with false by lia.
    reflexivity.
Qed.

(* the only failure: u8 overflow of `+= max` on a strictly interior byte *)
Theorem blit_super_overflow m y x1 x2 :
  let yy := y - m_y m in
  let a := x1 - m_x m in
  let b := Z.min (x2 - m_x m) (m_w m * 4) in
  let st := yy / 4 * m_w m in
  0 <= m_w m -> 0 <= yy -> 0 <= a <= b ->
  st + m_w m < zlen (m_buf m) ->
  (exists p, a / 4 < p < b / 4 /\ 255 < zn (m_buf m) (st + p) + submax yy) ->
  blit_super m y x1 x2 = Err Overflow.
Proof.
  intros yy a b st Hw Hyy Hab Hlen (p & Hp & Hov).
  rewrite blit_super_unfold. cbv zeta. fold yy a b.
  rewrite Z.quot_div_nonneg by lia. fold st.
  assert (Hst: 0 <= st) by (subst st; apply Z.mul_nonneg_nonneg; lia).
  assert (Hb4: b <= m_w m * 4) by (subst b; lia).
  fold (submax yy). rewrite !shiftr2, !land3.
  replace ((st <? 0) || (a <? 0) || (b <? 0)) with false by lia.
  destruct (slice_in_range (m_buf m) (st + a / 4) (st + b / 4 + 1) ltac:(lia) ltac:(lia)) as [sl Hsl].
  rewrite Hsl. cbn [bind].
  destruct (zlen_slice _ _ _ _ Hsl) as (Hsl1 & Hsl2 & Hsl3).
  rewrite upd_slice_err; [reflexivity|].
  exists (p - a / 4). split; [lia|].
  rewrite (zn_slice _ _ _ _ _ Hsl) by lia.
  replace (st + a / 4 + (p - a / 4)) with (st + p) by lia. exact Hov.
Qed.

(* with all bytes in 0..255 the update formula holds for every byte of the buffer *)
Corollary blit_super_cells m y x1 x2 :
  let yy := y - m_y m in
  let a := x1 - m_x m in
  let b := Z.min (x2 - m_x m) (m_w m * 4) in
  let st := yy / 4 * m_w m in
  0 <= m_w m -> 0 <= yy -> 0 <= a <= b ->
  st + m_w m < zlen (m_buf m) ->
  bytes_ok (m_buf m) ->
  (forall p, a / 4 < p < b / 4 -> zn (m_buf m) (st + p) + submax yy <= 255) ->
  exists buf',
    blit_super m y x1 x2 = Ok (mk_maskbuf (m_x m) (m_y m) (m_w m) buf') /\
    length buf' = length (m_buf m) /\ bytes_ok buf' /\
    forall i, 0 <= i < zlen (m_buf m) -> zn buf' i = cell_update yy a b (i - st) (zn (m_buf m) i).
Proof.
  intros yy a b st Hw Hyy Hab Hlen Hbytes Hint.
  destruct (blit_super_spec m y x1 x2 Hw Hyy Hab Hlen Hint) as (buf' & H1 & H2 & H3).
  fold yy a b st in H3.
  assert (H4: forall i, 0 <= i < zlen (m_buf m) -> zn buf' i = cell_update yy a b (i - st) (zn (m_buf m) i)).
  { intros i Hi. rewrite (H3 i Hi).
    destruct ((a / 4 <=? i - st) && (i - st <=? b / 4)) eqn:E; [reflexivity|].
    symmetry. apply cell_update_outside; [lia|lia|apply Hbytes; exact Hi]. }
  exists buf'. split; [exact H1|]. split; [exact H2|]. split; [|exact H4].
  intros i Hi. assert (Hi': 0 <= i < zlen (m_buf m)) by (unfold zlen in *; lia).
  rewrite (H4 i Hi'). apply cell_update_range; [apply Hbytes; exact Hi'|].
  unfold interior. destruct ((a / 4 <? i - st) && (i - st <? b / 4)) eqn:E; [left|right; reflexivity].
  replace i with (st + (i - st)) at 1 by lia. apply Hint. lia.
Qed.

(* ---- MaskBlitter::blit_span ---- *)
Lemma zn_set l i v l' j : set l i v = Ok l' -> 0 <= j ->
  length l' = length l /\ 0 <= i < zlen l /\ zn l' j = if j =? i then v else zn l j.
Proof.
  unfold set. destruct ((0 <=? i) && (i <? zlen l)) eqn:E; [|discriminate].
  intros H Hj. inversion H; subst l'; clear H.
  assert (Hz: zlen [v] = 1) by reflexivity.
  split; [apply splice_length; [lia|unfold zlen in *; cbn [length]; lia]|]. split; [lia|].
  rewrite zn_splice by lia. rewrite Hz.
  destruct (j =? i) eqn:Eji.
  - replace ((i <=? j) && (j <? i + 1)) with true by lia. replace (j - i) with 0 by lia. reflexivity.
  - replace ((i <=? j) && (j <? i + 1)) with false by lia. reflexivity.
Qed.

Lemma set_ff_spec is_ : forall buf,
  (forall i, In i is_ -> 0 <= i < zlen buf) ->
  exists buf', set_ff buf is_ = Ok buf' /\ length buf' = length buf /\
    forall j, 0 <= j -> zn buf' j = if existsb (Z.eqb j) is_ then 255 else zn buf j.
Proof.
  induction is_ as [|i t IH]; intros buf H; cbn [set_ff existsb].
  - exists buf. split; [reflexivity|]. split; [reflexivity|]. reflexivity.
  - destruct (set buf i 255) as [b1|] eqn:Es.
    2:{ unfold set in Es. specialize (H i (or_introl eq_refl)).
        destruct ((0 <=? i) && (i <? zlen buf)) eqn:E; [discriminate|lia]. }
    cbn [bind].
    destruct (zn_set _ _ _ _ 0 Es ltac:(lia)) as (Hl1 & _ & _).
    destruct (IH b1) as (b2 & H1 & H2 & H3).
    { intros k Hk. unfold zlen. rewrite Hl1. apply H. right. exact Hk. }
    exists b2. split; [exact H1|]. split; [congruence|].
    intros j Hj. rewrite (H3 j Hj).
    destruct (zn_set _ _ _ _ j Es Hj) as (_ & _ & Hz). rewrite Hz.
    destruct (j =? i); destruct (existsb (Z.eqb j) t); reflexivity.
Qed.

Lemma set_ff_err is_ : forall buf,
  (exists i, In i is_ /\ ~ (0 <= i < zlen buf)) -> set_ff buf is_ = Err OutOfBounds.
Proof.
  induction is_ as [|i t IH]; intros buf (k & Hk & Hbad); [destruct Hk|]. cbn [set_ff].
  destruct (set buf i 255) as [b1|e] eqn:Es.
  - cbn [bind]. destruct (zn_set _ _ _ _ 0 Es ltac:(lia)) as (Hl1 & Hr & _).
    destruct Hk as [->|Hk]; [lia|].
    apply IH. exists k. split; [exact Hk|]. unfold zlen in *. rewrite Hl1. exact Hbad.
  - unfold set in Es. destruct ((0 <=? i) && (i <? zlen buf)); [discriminate|]. inversion Es. reflexivity.
Qed.

Lemma existsb_eqb_map_zrange j st lo hi :
  existsb (Z.eqb j) (map (fun i => st + i) (zrange lo hi)) = (st + lo <=? j) && (j <? st + hi).
Proof.
  destruct ((st + lo <=? j) && (j <? st + hi)) eqn:E.
  - apply existsb_exists. exists j. split; [|lia].
    apply in_map_iff. exists (j - st). split; [lia|]. apply zrange_In. lia.
  - destruct (existsb (Z.eqb j) (map (fun i => st + i) (zrange lo hi))) eqn:E2; [|reflexivity].
    apply existsb_exists in E2. destruct E2 as (x & Hx & Hjx).
    apply in_map_iff in Hx. destruct Hx as (k & <- & Hk). apply zrange_In in Hk. lia.
Qed.

(* Aliased blitter: on the first sub-row of a pixel row the bytes floor(a/4) <= p < floor(b/4)
   of that row become 255 and nothing else changes; on the other sub-rows nothing happens.
   (a, b relative to the buffer origin, b clamped to the width; indices must be inside the buffer.) *)
Theorem blit_mask_spec m y x1 x2 :
  let yy := y - m_y m in
  let a := x1 - m_x m in
  let b := Z.min (x2 - m_x m) (m_w m * 4) in
  let st := yy / 4 * m_w m in
  0 <= yy ->
  (yy mod 4 <> 0 -> blit_mask m y x1 x2 = Ok m) /\
  (yy mod 4 = 0 ->
     (forall p, a / 4 <= p < b / 4 -> 0 <= st + p < zlen (m_buf m)) ->
     exists buf',
       blit_mask m y x1 x2 = Ok (mk_maskbuf (m_x m) (m_y m) (m_w m) buf') /\
       length buf' = length (m_buf m) /\
       forall i, 0 <= i -> zn buf' i = if (a / 4 <=? i - st) && (i - st <? b / 4) then 255 else zn (m_buf m) i).
Proof.
  intros yy a b st Hyy. unfold blit_mask. cbv zeta. fold yy a.
  assert (Hrem: Z.rem yy 4 = yy mod 4) by (apply Z.rem_mod_nonneg; lia).
  rewrite Hrem. rewrite Z.quot_div_nonneg by lia. fold st.
  split; intros Hm.
  - replace (negb (yy mod 4 =? 0)) with true by lia. reflexivity.
  - intros Hin. replace (negb (yy mod 4 =? 0)) with false by lia.
    fold b. rewrite !shiftr2.
    destruct (set_ff_spec (map (fun i => st + i) (zrange (a / 4) (b / 4))) (m_buf m)) as (buf' & H1 & H2 & H3).
    { intros i Hi. apply in_map_iff in Hi. destruct Hi as (k & <- & Hk). apply zrange_In in Hk.
      apply Hin. exact Hk. }
    rewrite H1. cbn [bind]. exists buf'. split; [reflexivity|]. split; [exact H2|].
    intros i Hi. rewrite (H3 i Hi). rewrite existsb_eqb_map_zrange.
    replace ((st + a / 4 <=? i) && (i <? st + b / 4)) with ((a / 4 <=? i - st) && (i - st <? b / 4)) by lia.
    reflexivity.
Qed.

(* sanity checks of the statements on a concrete buffer (2 x 2 pixels + padding byte) *)
Example blit_super_example :
  blit_super (mk_maskbuf 4 8 2 [0;0;0;0;0]) 13 6 11 = Ok (mk_maskbuf 4 8 2 [0;0;32;48;0]).
Proof. vm_compute. reflexivity. Qed.
Example blit_super_example2 :
  blit_super (mk_maskbuf 0 0 3 [0;0;0;0;0;0;0]) 3 1 12 = Ok (mk_maskbuf 0 0 3 [48;63;63;0;0;0;0]).
Proof. vm_compute. reflexivity. Qed.
Example blit_mask_example :
  blit_mask (mk_maskbuf 0 0 3 [0;0;0;0;0;0;0]) 4 1 11 = Ok (mk_maskbuf 0 0 3 [0;0;0;255;255;0;0]).
Proof. vm_compute. reflexivity. Qed.

Print Assumptions blit_super_spec.
Print Assumptions blit_super_overflow.
Print Assumptions blit_super_cells.
Print Assumptions blit_mask_spec.

(* ===== Part 5: accumulation of the spans of the four sub-rows of one pixel row ===== *)

(* a span relative to the buffer origin, clamped to the buffer width as blit_super does *)
Definition rel (mx w : Z) (s : Z * Z) : Z * Z := (fst s - mx, Z.min (snd s - mx) (w * 4)).

(* what one (relative) span adds to pixel p on sub-row yy *)
Definition contrib (yy p : Z) (s : Z * Z) : Z :=
  if interior p (fst s) (snd s) then submax yy else 16 * cells_in p (fst s) (snd s).
Fixpoint rowc (yy p : Z) (rs : list (Z * Z)) : Z :=
  match rs with [] => 0 | s :: t => contrib yy p s + rowc yy p t end.
Definition hasint (p : Z) (rs : list (Z * Z)) : bool :=
  existsb (fun s => interior p (fst s) (snd s)) rs.
Fixpoint kcells (p : Z) (rs : list (Z * Z)) : Z :=
  match rs with [] => 0 | s :: t => cells_in p (fst s) (snd s) + kcells p t end.

Lemma hasint_cons p s t : hasint p (s :: t) = interior p (fst s) (snd s) || hasint p t.
Proof. reflexivity. Qed.

Lemma submax_range yy : 63 <= submax yy <= 64.
Proof. rewrite submax_eq. destruct (yy mod 4 =? 3); lia. Qed.

Lemma contrib_range yy p s : 0 <= contrib yy p s <= 64.
Proof.
  unfold contrib. pose proof (submax_range yy). pose proof (cells_in_range p (fst s) (snd s)).
  destruct (interior p (fst s) (snd s)); lia.
Qed.
Lemma rowc_nonneg yy p rs : 0 <= rowc yy p rs.
Proof. induction rs as [|s t IH]; cbn [rowc]; [lia|]. pose proof (contrib_range yy p s). lia. Qed.

Lemma cell_update_contrib yy a b p v :
  0 <= v -> v + contrib yy p (a, b) <= 256 ->
  (interior p a b = true -> v + contrib yy p (a, b) <= 255) ->
  cell_update yy a b p v = Z.min 255 (v + contrib yy p (a, b)).
Proof.
  intros Hv H1 H2. unfold cell_update, contrib in *. cbn [fst snd] in *.
  destruct (interior p a b).
  - specialize (H2 eq_refl). lia.
  - pose proof (cells_in_range p a b). apply saturated_add_small. lia.
Qed.

(* ---- all the spans of one sub-row ---- *)
Lemma blit_spans_row mx my w y spans : forall buf,
  let yy := y - my in
  let st := yy / 4 * w in
  let rs := map (rel mx w) spans in
  0 <= w -> 0 <= yy -> st + w < zlen buf -> bytes_ok buf ->
  (forall s, In s rs -> 0 <= fst s <= snd s) ->
  (forall i, 0 <= i < zlen buf ->
      zn buf i + rowc yy (i - st) rs <= 256 /\
      (hasint (i - st) rs = true -> zn buf i + rowc yy (i - st) rs <= 255)) ->
  exists buf',
    blit_spans blit_super (mk_maskbuf mx my w buf) y spans = Ok (mk_maskbuf mx my w buf') /\
    length buf' = length buf /\ bytes_ok buf' /\
    forall i, 0 <= i < zlen buf -> zn buf' i = Z.min 255 (zn buf i + rowc yy (i - st) rs).
Proof.
  induction spans as [|s t IH]; intros buf yy st rs Hw Hyy Hlen Hbytes Hsp Hsum.
  - exists buf. cbn [blit_spans]. split; [reflexivity|]. split; [reflexivity|]. split; [exact Hbytes|].
    intros i Hi. subst rs. cbn [map rowc]. pose proof (Hbytes i Hi). lia.
  - destruct s as [x1 x2]. cbn [blit_spans].
    subst rs. cbn [map] in *. set (rs := map (rel mx w) t) in *.
    set (a := x1 - mx) in *. set (b := Z.min (x2 - mx) (w * 4)).
    assert (Hrel: rel mx w (x1, x2) = (a, b)) by reflexivity. rewrite Hrel in *.
    assert (Hab: 0 <= a <= b) by (apply (Hsp (a, b)); left; reflexivity).
    assert (Hb4: b <= w * 4) by (subst b; lia).
    pose (m := mk_maskbuf mx my w buf).
    destruct (blit_super_cells m y x1 x2) as (buf1 & H1 & H2 & H3 & H4); cbn [m m_x m_y m_w m_buf];
      fold yy; fold st; fold a; fold b; try assumption.
    { intros p Hp. assert (Hi: 0 <= st + p < zlen buf).
      { assert (0 <= st) by (subst st; apply Z.mul_nonneg_nonneg; lia). lia. }
      destruct (Hsum _ Hi) as [_ Hs2]. replace (st + p - st) with p in Hs2 by lia.
      rewrite hasint_cons in Hs2. cbn [rowc fst snd] in Hs2.
      assert (Hint: interior p a b = true) by (unfold interior; lia).
      rewrite Hint in Hs2. cbn [orb] in Hs2. specialize (Hs2 eq_refl).
      unfold contrib in Hs2. cbn [fst snd] in Hs2. rewrite Hint in Hs2.
      pose proof (rowc_nonneg yy p rs). lia. }
    cbn [m m_x m_y m_w m_buf] in H1, H4. fold yy st a b in H4.
    subst m. rewrite H1. cbn [bind].
    assert (Hz: zlen buf1 = zlen buf) by (unfold zlen; rewrite H2; reflexivity).
    (* value of every byte after this span *)
    assert (H5: forall i, 0 <= i < zlen buf -> zn buf1 i = Z.min 255 (zn buf i + contrib yy (i - st) (a, b))).
    { intros i Hi. rewrite (H4 i Hi). destruct (Hsum i Hi) as [Hs1 Hs2].
      rewrite hasint_cons in Hs2. cbn [rowc fst snd] in Hs1, Hs2.
      pose proof (rowc_nonneg yy (i - st) rs). pose proof (Hbytes i Hi).
      apply cell_update_contrib; [lia|lia|].
      intros Hint. rewrite Hint in Hs2. specialize (Hs2 eq_refl). lia. }
    destruct (IH buf1) as (buf' & G1 & G2 & G3 & G4); try assumption.
    { fold yy. fold st. rewrite Hz. exact Hlen. }
    { intros s0 Hs0. apply Hsp. right. exact Hs0. }
    { fold yy. fold st. fold rs. rewrite Hz. intros i Hi. rewrite (H5 i Hi).
      destruct (Hsum i Hi) as [Hs1 Hs2]. rewrite hasint_cons in Hs2. cbn [rowc fst snd] in Hs1, Hs2.
      pose proof (contrib_range yy (i - st) (a, b)).
      split; [lia|]. intros Hh. rewrite Hh, orb_true_r in Hs2. specialize (Hs2 eq_refl). lia. }
    fold yy st rs in G4.
    exists buf'. split; [exact G1|]. split; [rewrite G2; exact H2|]. split; [exact G3|].
    intros i Hi. rewrite G4 by (rewrite Hz; exact Hi). rewrite (H5 i Hi). cbn [rowc].
    pose proof (rowc_nonneg yy (i - st) rs). pose proof (contrib_range yy (i - st) (a, b)). lia.
Qed.

(* ---- geometry of sorted disjoint spans inside one pixel ---- *)
Lemma later_zero yy p lo rs : spans_sorted lo rs -> 4 * p + 4 <= lo ->
  rowc yy p rs = 0 /\ hasint p rs = false /\ kcells p rs = 0.
Proof.
  revert lo; induction rs as [|s t IH]; intros lo Hs Hlo; cbn [rowc hasint existsb kcells]; [auto|].
  cbn [spans_sorted] in Hs. destruct Hs as (H1 & H2 & H3).
  destruct (IH (snd s) H3 ltac:(lia)) as (I1 & I2 & I3). unfold hasint in I2. rewrite I1, I2, I3.
  assert (Hi: interior p (fst s) (snd s) = false) by (unfold interior; lia).
  unfold contrib. rewrite Hi. unfold cells_in. cbn [orb]. repeat split; lia.
Qed.

Lemma hasint_lo p lo rs : spans_sorted lo rs -> hasint p rs = true -> lo < 4 * p.
Proof.
  revert lo; induction rs as [|s t IH]; intros lo Hs Hh; cbn [hasint existsb] in Hh; [discriminate|].
  cbn [spans_sorted] in Hs. destruct Hs as (H1 & H2 & H3).
  apply orb_true_iff in Hh. destruct Hh as [Hh|Hh].
  - unfold interior in Hh. lia.
  - specialize (IH _ H3 Hh). lia.
Qed.

Lemma kcells_bound p lo rs : spans_sorted lo rs -> 0 <= kcells p rs <= Z.max 0 (4 * p + 4 - Z.max lo (4 * p)).
Proof.
  revert lo; induction rs as [|s t IH]; intros lo Hs; cbn [kcells]; [lia|].
  cbn [spans_sorted] in Hs. destruct Hs as (H1 & H2 & H3). specialize (IH _ H3).
  unfold cells_in. lia.
Qed.

Corollary kcells_le4 p lo rs : spans_sorted lo rs -> 0 <= kcells p rs <= 4.
Proof. intros H. pose proof (kcells_bound p lo rs H). lia. Qed.

(* the contribution of a sub-row to a pixel: the full-pixel constant if the pixel is strictly
   interior to one span (then k = 4), else 16 per covered cell *)
Lemma rowc_kcells yy p lo rs : spans_sorted lo rs ->
  rowc yy p rs = (if hasint p rs then submax yy else 16 * kcells p rs) /\
  (hasint p rs = true -> kcells p rs = 4).
Proof.
  revert lo; induction rs as [|s t IH]; intros lo Hs; cbn [rowc hasint existsb kcells].
  - split; [lia|discriminate].
  - cbn [spans_sorted] in Hs. destruct Hs as (H1 & H2 & H3).
    destruct (IH _ H3) as [IH1 IH2]. fold (hasint p t).
    unfold contrib.
    destruct (interior p (fst s) (snd s)) eqn:Hi; cbn [orb].
    + destruct (later_zero yy p (snd s) t H3) as (Z1 & Z2 & Z3); [unfold interior in Hi; lia|].
      rewrite Z1, Z3. split; [lia|]. intros _. unfold interior in Hi. unfold cells_in. lia.
    + destruct (hasint p t) eqn:Hh.
      * pose proof (hasint_lo p _ t H3 Hh) as Hlt.
        assert (Hc: cells_in p (fst s) (snd s) = 0) by (unfold cells_in; lia).
        rewrite Hc, IH1. split; [lia|]. intros _. rewrite (IH2 eq_refl). lia.
      * rewrite IH1. split; [lia|discriminate].
Qed.

Corollary rowc_le64 yy p lo rs : spans_sorted lo rs -> 0 <= rowc yy p rs <= 64.
Proof.
  intros H. destruct (rowc_kcells yy p lo rs H) as [H1 _]. rewrite H1.
  pose proof (submax_range yy). pose proof (kcells_le4 p lo rs H).
  destruct (hasint p rs); lia.
Qed.

(* off the pixel row (p < 0 or p >= w) a span inside [0, 4w] contributes nothing *)
Lemma rowc_offrow yy p w rs :
  (forall s, In s rs -> 0 <= fst s <= snd s /\ snd s <= w * 4) -> (p < 0 \/ w <= p) ->
  rowc yy p rs = 0 /\ hasint p rs = false.
Proof.
  induction rs as [|s t IH]; intros Hs Hp; cbn [rowc hasint existsb]; [auto|].
  destruct IH as [I1 I2]; [intros; apply Hs; right; assumption|exact Hp|].
  unfold hasint in I2. rewrite I1, I2.
  destruct (Hs s (or_introl eq_refl)) as [Ha Hb].
  assert (Hi: interior p (fst s) (snd s) = false) by (unfold interior; lia).
  unfold contrib. rewrite Hi. unfold cells_in. cbn [orb]. split; lia.
Qed.

(* ---- cells covered: kcells counts the covered quarter cells of the pixel ---- *)
Definition covb (rs : list (Z * Z)) (c : Z) : bool :=
  existsb (fun s => (fst s <=? c) && (c <? snd s)) rs.
Definition b2z (b : bool) : Z := if b then 1 else 0.
Definition count4 (f : Z -> bool) (p : Z) : Z :=
  b2z (f (4 * p)) + b2z (f (4 * p + 1)) + b2z (f (4 * p + 2)) + b2z (f (4 * p + 3)).

Lemma cells_in_count4 p a b : cells_in p a b = count4 (fun c => (a <=? c) && (c <? b)) p.
Proof.
  unfold cells_in, count4, b2z.
  destruct ((a <=? 4 * p) && (4 * p <? b)) eqn:E0;
  destruct ((a <=? 4 * p + 1) && (4 * p + 1 <? b)) eqn:E1;
  destruct ((a <=? 4 * p + 2) && (4 * p + 2 <? b)) eqn:E2;
  destruct ((a <=? 4 * p + 3) && (4 * p + 3 <? b)) eqn:E3; lia.
Qed.

Lemma covb_later lo rs c : spans_sorted lo rs -> c < lo -> covb rs c = false.
Proof.
  revert lo; induction rs as [|s t IH]; intros lo Hs Hc; cbn [covb existsb]; [reflexivity|].
  cbn [spans_sorted] in Hs. destruct Hs as (H1 & H2 & H3).
  fold (covb t c). rewrite (IH _ H3) by lia.
  replace ((fst s <=? c) && (c <? snd s)) with false by lia. reflexivity.
Qed.

Lemma covb_cons lo s t c : spans_sorted lo (s :: t) ->
  b2z (covb (s :: t) c) = b2z ((fst s <=? c) && (c <? snd s)) + b2z (covb t c).
Proof.
  intros Hs. cbn [spans_sorted] in Hs. destruct Hs as (H1 & H2 & H3).
  cbn [covb existsb]. fold (covb t c).
  destruct ((fst s <=? c) && (c <? snd s)) eqn:E; cbn [orb]; unfold b2z at 2.
  - rewrite (covb_later _ _ c H3) by lia. reflexivity.
  - lia.
Qed.

Lemma kcells_count4 p lo rs : spans_sorted lo rs -> kcells p rs = count4 (covb rs) p.
Proof.
  revert lo; induction rs as [|s t IH]; intros lo Hs; cbn [kcells].
  - reflexivity.
  - pose proof Hs as Hs'. cbn [spans_sorted] in Hs'. destruct Hs' as (H1 & H2 & H3).
    rewrite (IH _ H3), cells_in_count4. unfold count4.
    rewrite !(covb_cons lo s t _ Hs). lia.
Qed.

Lemma covb_iff rs c : covb rs c = true <-> covered_by c rs.
Proof.
  unfold covb, covered_by, in_span. rewrite existsb_exists.
  split; intros (s & Hs & H); exists s; (split; [exact Hs|lia]).
Qed.

(* relative spans: sortedness and range are inherited from the absolute ones *)
Lemma rel_sorted mx w lo spans :
  spans_sorted lo spans -> (forall s, In s spans -> fst s <= mx + w * 4) ->
  spans_sorted (lo - mx) (map (rel mx w) spans).
Proof.
  revert lo; induction spans as [|s t IH]; intros lo Hs Hr; cbn [map spans_sorted]; [exact I|].
  cbn [spans_sorted] in Hs. destruct Hs as (H1 & H2 & H3).
  pose proof (Hr s (or_introl eq_refl)).
  unfold rel at 1 2 3. cbn [fst snd]. split; [lia|]. split; [lia|].
  apply spans_sorted_weaken with (lo := snd s - mx); [unfold rel; cbn [fst snd]; lia|].
  apply IH; [exact H3|]. intros; apply Hr; right; assumption.
Qed.

Lemma rel_range mx w lo spans :
  spans_sorted lo spans -> mx <= lo -> (forall s, In s spans -> fst s <= mx + w * 4) ->
  forall s, In s (map (rel mx w) spans) -> 0 <= fst s <= snd s /\ snd s <= w * 4.
Proof.
  intros Hs Hlo Hr s Hin. apply in_map_iff in Hin. destruct Hin as (s0 & <- & Hin).
  destruct (spans_sorted_all_ge _ _ Hs s0 Hin). pose proof (Hr s0 Hin).
  unfold rel. cbn [fst snd]. lia.
Qed.

Lemma covb_rel mx w spans c : 0 <= c < w * 4 ->
  covb (map (rel mx w) spans) c = covb spans (c + mx).
Proof.
  intros Hc. unfold covb. induction spans as [|s t IH]; cbn [map existsb]; [reflexivity|].
  rewrite IH. f_equal. unfold rel. cbn [fst snd]. lia.
Qed.

(* ---- the four sub-rows of a pixel row ---- *)
(* spans admissible for a buffer with origin mx (dot2) and width w (pixels) *)
Definition spans_ok (mx w : Z) (spans : list (Z * Z)) : Prop :=
  exists lo, mx <= lo /\ spans_sorted lo spans /\ forall s, In s spans -> fst s <= mx + w * 4.

Lemma spans_ok_rel mx w spans : spans_ok mx w spans ->
  exists lo, 0 <= lo /\ spans_sorted lo (map (rel mx w) spans) /\
    forall s, In s (map (rel mx w) spans) -> 0 <= fst s <= snd s /\ snd s <= w * 4.
Proof.
  intros (lo & H1 & H2 & H3). exists (lo - mx). split; [lia|].
  split; [apply rel_sorted; assumption|]. apply (rel_range mx w lo); assumption.
Qed.

(* one sub-row, from a buffer whose bytes of this pixel row are bounded by `bound` *)
Lemma blit_spans_subrow mx my w y spans buf bound :
  let yy := y - my in
  let st := yy / 4 * w in
  let rs := map (rel mx w) spans in
  0 <= w -> 0 <= yy -> st + w < zlen buf -> bytes_ok buf ->
  spans_ok mx w spans ->
  (forall p, 0 <= p < w -> zn buf (st + p) <= bound) ->
  bound + 64 <= 256 -> (bound + submax yy <= 255) ->
  exists buf',
    blit_spans blit_super (mk_maskbuf mx my w buf) y spans = Ok (mk_maskbuf mx my w buf') /\
    length buf' = length buf /\ bytes_ok buf' /\
    (forall p, 0 <= p < w -> zn buf' (st + p) = Z.min 255 (zn buf (st + p) + rowc yy p rs)) /\
    (forall i, 0 <= i < zlen buf -> (i < st \/ st + w <= i) -> zn buf' i = zn buf i).
Proof.
  intros yy st rs Hw Hyy Hlen Hbytes Hok Hbound Hb1 Hb2.
  destruct (spans_ok_rel _ _ _ Hok) as (lo & Hlo & Hsorted & Hrange). fold rs in Hsorted, Hrange.
  assert (Hst: 0 <= st) by (subst st; apply Z.mul_nonneg_nonneg; lia).
  destruct (blit_spans_row mx my w y spans buf) as (buf' & H1 & H2 & H3 & H4); try assumption.
  { fold rs. intros s Hs. destruct (Hrange s Hs). lia. }
  { fold yy. fold st. fold rs. intros i Hi.
    destruct (Z_lt_le_dec (i - st) 0) as [Hneg|Hpos];
      [|destruct (Z_lt_le_dec (i - st) w) as [Hin|Hout]].
    - destruct (rowc_offrow yy (i - st) w rs Hrange ltac:(lia)) as [R1 R2]. rewrite R1, R2.
      pose proof (Hbytes i Hi). split; [lia|discriminate].
    - pose proof (Hbound (i - st) ltac:(lia)) as Hbd. replace (st + (i - st)) with i in Hbd by lia.
      destruct (rowc_kcells yy (i - st) lo rs Hsorted) as [R1 R2].
      pose proof (rowc_le64 yy (i - st) lo rs Hsorted).
      split; [lia|]. intros Hh. rewrite Hh in R1. lia.
    - destruct (rowc_offrow yy (i - st) w rs Hrange ltac:(lia)) as [R1 R2]. rewrite R1, R2.
      pose proof (Hbytes i Hi). split; [lia|discriminate]. }
  fold yy st rs in H4.
  exists buf'. split; [exact H1|]. split; [exact H2|]. split; [exact H3|]. split.
  - intros p Hp. rewrite H4 by lia. replace (st + p - st) with p by lia. reflexivity.
  - intros i Hi Hoff. rewrite (H4 i Hi).
    destruct (rowc_offrow yy (i - st) w rs Hrange ltac:(lia)) as [R1 _]. rewrite R1.
    pose proof (Hbytes i Hi). lia.
Qed.

(* sub-row j of relative pixel row py, with explicit arithmetic *)
Lemma blit_spans_subrow' mx my w py j spans buf bound :
  let st := py * w in
  let rs := map (rel mx w) spans in
  0 <= w -> 0 <= py -> 0 <= j < 4 -> st + w < zlen buf -> bytes_ok buf ->
  spans_ok mx w spans ->
  (forall p, 0 <= p < w -> zn buf (st + p) <= bound) ->
  bound <= 64 * j ->
  exists buf',
    blit_spans blit_super (mk_maskbuf mx my w buf) (my + (4 * py + j)) spans = Ok (mk_maskbuf mx my w buf') /\
    length buf' = length buf /\ bytes_ok buf' /\
    (forall p, 0 <= p < w -> zn buf' (st + p) = Z.min 255 (zn buf (st + p) + rowc (4 * py + j) p rs)) /\
    (forall i, 0 <= i < zlen buf -> (i < st \/ st + w <= i) -> zn buf' i = zn buf i).
Proof.
  intros st rs Hw Hpy Hj Hlen Hbytes Hok Hbound Hb.
  pose proof (blit_spans_subrow mx my w (my + (4 * py + j)) spans buf bound) as H. cbv zeta in H.
  replace (my + (4 * py + j) - my) with (4 * py + j) in H by lia.
  replace ((4 * py + j) / 4) with py in H by lia. fold st rs in H.
  apply H; try assumption; try lia.
  rewrite submax_eq. destruct ((4 * py + j) mod 4 =? 3) eqn:E; lia.
Qed.

(* the four sample rows of pixel row py (relative to the buffer), blitted in order *)
Definition blit_rows4 (blit : maskbuf -> Z -> Z -> Z -> result maskbuf)
    (m : maskbuf) (y0 : Z) (sp0 sp1 sp2 sp3 : list (Z * Z)) : result maskbuf :=
  do m1 <- blit_spans blit m y0 sp0;
  do m2 <- blit_spans blit m1 (y0 + 1) sp1;
  do m3 <- blit_spans blit m2 (y0 + 2) sp2;
  blit_spans blit m3 (y0 + 3) sp3.
Definition blit_pixel_row := blit_rows4 blit_super.

Theorem blit_pixel_row_spec mx my w py buf sp0 sp1 sp2 sp3 :
  let st := py * w in
  let r0 := map (rel mx w) sp0 in let r1 := map (rel mx w) sp1 in
  let r2 := map (rel mx w) sp2 in let r3 := map (rel mx w) sp3 in
  0 <= w -> 0 <= py -> st + w < zlen buf -> bytes_ok buf ->
  (forall p, 0 <= p < w -> zn buf (st + p) = 0) ->
  spans_ok mx w sp0 -> spans_ok mx w sp1 -> spans_ok mx w sp2 -> spans_ok mx w sp3 ->
  exists buf',
    blit_pixel_row (mk_maskbuf mx my w buf) (my + 4 * py) sp0 sp1 sp2 sp3 = Ok (mk_maskbuf mx my w buf') /\
    length buf' = length buf /\ bytes_ok buf' /\
    (forall p, 0 <= p < w ->
       zn buf' (st + p) =
         Z.min 255 (rowc (4 * py) p r0 + rowc (4 * py + 1) p r1 + rowc (4 * py + 2) p r2 + rowc (4 * py + 3) p r3)) /\
    (forall i, 0 <= i < zlen buf -> (i < st \/ st + w <= i) -> zn buf' i = zn buf i).
Proof.
  intros st r0 r1 r2 r3 Hw Hpy Hlen Hbytes Hzero Hk0 Hk1 Hk2 Hk3.
  unfold blit_pixel_row, blit_rows4.
  destruct (spans_ok_rel _ _ _ Hk0) as (l0 & _ & Hs0 & _). fold r0 in Hs0.
  destruct (spans_ok_rel _ _ _ Hk1) as (l1 & _ & Hs1 & _). fold r1 in Hs1.
  destruct (spans_ok_rel _ _ _ Hk2) as (l2 & _ & Hs2 & _). fold r2 in Hs2.
  destruct (spans_ok_rel _ _ _ Hk3) as (l3 & _ & Hs3 & _). fold r3 in Hs3.
  (* sub-row 0 *)
  assert (Hb0: forall p, 0 <= p < w -> zn buf (st + p) <= 0).
  { intros p Hp. rewrite (Hzero p Hp). lia. }
  destruct (blit_spans_subrow' mx my w py 0 sp0 buf 0 Hw Hpy ltac:(clear; lia) Hlen Hbytes Hk0 Hb0 ltac:(clear; lia))
    as (b1 & A1 & A2 & A3 & A4 & A5).
  fold st r0 in A4, A5. replace (my + (4 * py + 0)) with (my + 4 * py) in A1 by lia.
  replace (4 * py + 0) with (4 * py) in A4 by lia.
  rewrite A1. cbn [bind].
  assert (Z1: zlen b1 = zlen buf) by (unfold zlen; rewrite A2; reflexivity).
  assert (V1: forall p, 0 <= p < w -> zn b1 (st + p) = rowc (4 * py) p r0).
  { intros p Hp. rewrite (A4 p Hp), (Hzero p Hp). pose proof (rowc_le64 (4 * py) p _ _ Hs0). lia. }
  (* sub-row 1 *)
  assert (Hb1: forall p, 0 <= p < w -> zn b1 (st + p) <= 64).
  { intros p Hp. rewrite (V1 p Hp). pose proof (rowc_le64 (4 * py) p _ _ Hs0). lia. }
  assert (L1: st + w < zlen b1) by (rewrite Z1; exact Hlen).
  destruct (blit_spans_subrow' mx my w py 1 sp1 b1 64 Hw Hpy ltac:(clear; lia) L1 A3 Hk1 Hb1 ltac:(clear; lia))
    as (b2 & B1 & B2 & B3 & B4 & B5).
  fold st r1 in B4, B5. replace (my + (4 * py + 1)) with (my + 4 * py + 1) in B1 by lia.
  rewrite B1. cbn [bind].
  assert (Z2: zlen b2 = zlen buf) by (unfold zlen; rewrite B2, A2; reflexivity).
  assert (V2: forall p, 0 <= p < w -> zn b2 (st + p) = rowc (4 * py) p r0 + rowc (4 * py + 1) p r1).
  { intros p Hp. rewrite (B4 p Hp), (V1 p Hp).
    pose proof (rowc_le64 (4 * py) p _ _ Hs0). pose proof (rowc_le64 (4 * py + 1) p _ _ Hs1). lia. }
  (* sub-row 2 *)
  assert (Hb2: forall p, 0 <= p < w -> zn b2 (st + p) <= 128).
  { intros p Hp. rewrite (V2 p Hp).
    pose proof (rowc_le64 (4 * py) p _ _ Hs0). pose proof (rowc_le64 (4 * py + 1) p _ _ Hs1). lia. }
  assert (L2: st + w < zlen b2) by (rewrite Z2; exact Hlen).
  destruct (blit_spans_subrow' mx my w py 2 sp2 b2 128 Hw Hpy ltac:(clear; lia) L2 B3 Hk2 Hb2 ltac:(clear; lia))
    as (b3 & C1 & C2 & C3 & C4 & C5).
  fold st r2 in C4, C5. replace (my + (4 * py + 2)) with (my + 4 * py + 2) in C1 by lia.
  rewrite C1. cbn [bind].
  assert (Z3: zlen b3 = zlen buf) by (unfold zlen; rewrite C2, B2, A2; reflexivity).
  assert (V3: forall p, 0 <= p < w ->
            zn b3 (st + p) = rowc (4 * py) p r0 + rowc (4 * py + 1) p r1 + rowc (4 * py + 2) p r2).
  { intros p Hp. rewrite (C4 p Hp), (V2 p Hp).
    pose proof (rowc_le64 (4 * py) p _ _ Hs0). pose proof (rowc_le64 (4 * py + 1) p _ _ Hs1).
    pose proof (rowc_le64 (4 * py + 2) p _ _ Hs2). lia. }
  (* sub-row 3 *)
  assert (Hb3: forall p, 0 <= p < w -> zn b3 (st + p) <= 192).
  { intros p Hp. rewrite (V3 p Hp).
    pose proof (rowc_le64 (4 * py) p _ _ Hs0). pose proof (rowc_le64 (4 * py + 1) p _ _ Hs1).
    pose proof (rowc_le64 (4 * py + 2) p _ _ Hs2). lia. }
  assert (L3: st + w < zlen b3) by (rewrite Z3; exact Hlen).
  destruct (blit_spans_subrow' mx my w py 3 sp3 b3 192 Hw Hpy ltac:(clear; lia) L3 C3 Hk3 Hb3 ltac:(clear; lia))
    as (b4 & D1 & D2 & D3 & D4 & D5).
  fold st r3 in D4, D5. replace (my + (4 * py + 3)) with (my + 4 * py + 3) in D1 by lia.
  rewrite D1.
  exists b4. split; [reflexivity|]. split; [rewrite D2, C2, B2, A2; reflexivity|]. split; [exact D3|]. split.
  - intros p Hp. rewrite (D4 p Hp), (V3 p Hp). reflexivity.
  - intros i Hi Hoff.
    assert (Hi1: 0 <= i < zlen b1) by (rewrite Z1; exact Hi).
    assert (Hi2: 0 <= i < zlen b2) by (rewrite Z2; exact Hi).
    assert (Hi3: 0 <= i < zlen b3) by (rewrite Z3; exact Hi).
    rewrite (D5 i Hi3 Hoff), (C5 i Hi2 Hoff), (B5 i Hi1 Hoff), (A5 i Hi Hoff). reflexivity.
Qed.

(* ---- the value of a pixel in terms of covered cells ---- *)
(* number of covered quarter cells of pixel p (relative to the buffer) on one sub-row *)
Definition kcov (mx : Z) (spans : list (Z * Z)) (p : Z) : Z := count4 (fun c => covb spans (c + mx)) p.

Lemma kcells_kcov mx w spans p : spans_ok mx w spans -> 0 <= p < w ->
  kcells p (map (rel mx w) spans) = kcov mx spans p.
Proof.
  intros Hok Hp. destruct (spans_ok_rel _ _ _ Hok) as (lo & _ & Hs & _).
  rewrite (kcells_count4 p lo _ Hs). unfold kcov, count4.
  rewrite !covb_rel by lia. reflexivity.
Qed.

Lemma kcov_range mx spans p : 0 <= kcov mx spans p <= 4.
Proof.
  unfold kcov, count4, b2z.
  destruct (covb spans (4 * p + mx)), (covb spans (4 * p + 1 + mx)), (covb spans (4 * p + 2 + mx)),
    (covb spans (4 * p + 3 + mx)); lia.
Qed.

(* contribution of sub-row 4*py + j to pixel p *)
Lemma rowc_kcov mx w spans py j p : spans_ok mx w spans -> 0 <= p < w -> 0 <= j < 4 ->
  let rs := map (rel mx w) spans in
  rowc (4 * py + j) p rs = 16 * kcov mx spans p - (if hasint p rs && (j =? 3) then 1 else 0) /\
  (hasint p rs = true -> kcov mx spans p = 4).
Proof.
  intros Hok Hp Hj rs. destruct (spans_ok_rel _ _ _ Hok) as (lo & _ & Hs & _). fold rs in Hs.
  destruct (rowc_kcells (4 * py + j) p lo rs Hs) as [R1 R2].
  rewrite <- (kcells_kcov mx w spans p Hok Hp). fold rs. split; [|exact R2].
  rewrite R1. rewrite submax_eq.
  destruct (hasint p rs) eqn:Hh; cbn [andb].
  - rewrite (R2 eq_refl). destruct (j =? 3) eqn:Ej.
    + replace ((4 * py + j) mod 4 =? 3) with true by lia. lia.
    + replace ((4 * py + j) mod 4 =? 3) with false by lia. lia.
  - lia.
Qed.

(* C01 for one pixel row, in terms of the spans: after the four sub-rows pixel p holds
   16*K - 1 when it lies strictly inside a span of the fourth sub-row, and min(255, 16*K) otherwise,
   K = number of covered quarter cells of the pixel over its four sample rows *)
Theorem pixel_row_coverage mx my w py buf sp0 sp1 sp2 sp3 :
  let st := py * w in
  0 <= w -> 0 <= py -> st + w < zlen buf -> bytes_ok buf ->
  (forall p, 0 <= p < w -> zn buf (st + p) = 0) ->
  spans_ok mx w sp0 -> spans_ok mx w sp1 -> spans_ok mx w sp2 -> spans_ok mx w sp3 ->
  exists buf',
    blit_pixel_row (mk_maskbuf mx my w buf) (my + 4 * py) sp0 sp1 sp2 sp3 = Ok (mk_maskbuf mx my w buf') /\
    length buf' = length buf /\ bytes_ok buf' /\
    (forall p, 0 <= p < w ->
       let K := kcov mx sp0 p + kcov mx sp1 p + kcov mx sp2 p + kcov mx sp3 p in
       0 <= K <= 16 /\
       zn buf' (st + p) = (if hasint p (map (rel mx w) sp3) then 16 * K - 1 else Z.min 255 (16 * K)) /\
       (zn buf' (st + p) = Z.min 255 (16 * K) \/ zn buf' (st + p) = 16 * K - 1)) /\
    (forall i, 0 <= i < zlen buf -> (i < st \/ st + w <= i) -> zn buf' i = zn buf i).
Proof.
  intros st Hw Hpy Hlen Hbytes Hzero Hk0 Hk1 Hk2 Hk3.
  destruct (blit_pixel_row_spec mx my w py buf sp0 sp1 sp2 sp3) as (buf' & H1 & H2 & H3 & H4 & H5); try assumption.
  fold st in H4, H5.
  exists buf'. split; [exact H1|]. split; [exact H2|]. split; [exact H3|]. split; [|exact H5].
  intros p Hp K.
  pose proof (kcov_range mx sp0 p). pose proof (kcov_range mx sp1 p).
  pose proof (kcov_range mx sp2 p). pose proof (kcov_range mx sp3 p).
  split; [subst K; lia|].
  assert (Hv: zn buf' (st + p) = (if hasint p (map (rel mx w) sp3) then 16 * K - 1 else Z.min 255 (16 * K))).
  { rewrite (H4 p Hp).
    destruct (rowc_kcov mx w sp0 py 0 p Hk0 Hp ltac:(lia)) as [E0 _].
    destruct (rowc_kcov mx w sp1 py 1 p Hk1 Hp ltac:(lia)) as [E1 _].
    destruct (rowc_kcov mx w sp2 py 2 p Hk2 Hp ltac:(lia)) as [E2 _].
    destruct (rowc_kcov mx w sp3 py 3 p Hk3 Hp ltac:(lia)) as [E3 F3].
    replace (4 * py + 0) with (4 * py) in E0 by lia.
    rewrite E0, E1, E2, E3. rewrite !andb_false_r. cbn [Z.eqb Pos.eqb]. rewrite andb_true_r.
    destruct (hasint p (map (rel mx w) sp3)); subst K; lia. }
  split; [exact Hv|]. rewrite Hv. destruct (hasint p (map (rel mx w) sp3)); [right|left]; reflexivity.
Qed.

Print Assumptions blit_spans_row.
Print Assumptions blit_pixel_row_spec.
Print Assumptions pixel_row_coverage.

(* ===== Part 6: the row loop `rows` on line edges: the active list invariant ===== *)

Lemma Permutation_filter {A} (f : A -> bool) l1 l2 :
  Permutation l1 l2 -> Permutation (filter f l1) (filter f l2).
Proof.
  induction 1; cbn [filter].
  - constructor.
  - destruct (f x); [apply perm_skip|]; assumption.
  - destruct (f x), (f y); try apply perm_swap; try apply perm_skip; apply Permutation_refl.
  - eapply perm_trans; eassumption.
Qed.

Lemma filter_map_comm {A B} (f : B -> bool) (g : A -> B) l :
  filter f (map g l) = map g (filter (fun x => f (g x)) l).
Proof.
  induction l as [|x t IH]; cbn [map filter]; [reflexivity|].
  destruct (f (g x)); cbn [map]; rewrite IH; reflexivity.
Qed.

Lemma filter_filter {A} (f g : A -> bool) l :
  filter f (filter g l) = filter (fun x => g x && f x) l.
Proof.
  induction l as [|x t IH]; cbn [filter]; [reflexivity|].
  destruct (g x); cbn [filter andb]; [destruct (f x)|]; rewrite IH; reflexivity.
Qed.

(* every entry of edge_starts is a straight, error-free edge that starts above its end row *)
Definition starts_ok (starts : list (Z * aedge)) : Prop :=
  forall p, In p starts -> e_shift (snd p) = 0 /\ e_err (snd p) = false /\ fst p < e_y2 (snd p).

(* the edge (s, e) of edge_starts as it is at sample row y: stepped y - s times *)
Definition edge_at (y : Z) (p : Z * aedge) : aedge := line_at (snd p) (y - fst p).

Section Rows.
  Variable y0 : Z.                       (* first row processed by `rows` *)
  Variable starts : list (Z * aedge).

  (* the edges crossing sample row y, each at its closed-form position (canonical order = order of starts) *)
  Definition live (y : Z) : list aedge :=
    map (edge_at y) (filter (fun p => (y0 <=? fst p) && (fst p <=? y) && (y <? e_y2 (snd p))) starts).
  (* the same without the edges that start on row y: the active list before insert_starting *)
  Definition live_pre (y : Z) : list aedge :=
    map (edge_at y) (filter (fun p => (y0 <=? fst p) && (fst p <? y) && (y <? e_y2 (snd p))) starts).
  Definition new_edges (y : Z) : list aedge := map snd (filter (fun p => fst p =? y) starts).
End Rows.

Lemma live_split y0 starts y : y0 <= y -> starts_ok starts ->
  Permutation (new_edges starts y ++ live_pre y0 starts y) (live y0 starts y).
Proof.
  intros Hy Hok. unfold new_edges, live_pre, live.
  induction starts as [|p t IH]; cbn [filter map app]; [constructor|].
  assert (Hok': starts_ok t) by (intros q Hq; apply Hok; right; exact Hq).
  specialize (IH Hok').
  destruct (Hok p (or_introl eq_refl)) as (Hsh & Her & Hlt).
  destruct (fst p =? y) eqn:E1.
  - replace ((y0 <=? fst p) && (fst p <? y) && (y <? e_y2 (snd p))) with false by lia.
    replace ((y0 <=? fst p) && (fst p <=? y) && (y <? e_y2 (snd p))) with true by lia.
    cbn [map app]. change (edge_at y p) with (line_at (snd p) (y - fst p)). replace (y - fst p) with 0 by lia. rewrite line_at_0.
    apply perm_skip. exact IH.
  - destruct ((y0 <=? fst p) && (fst p <? y) && (y <? e_y2 (snd p))) eqn:E2.
    + replace ((y0 <=? fst p) && (fst p <=? y) && (y <? e_y2 (snd p))) with true by lia.
      cbn [map]. eapply perm_trans; [apply Permutation_sym, Permutation_middle|].
      apply perm_skip. exact IH.
    + replace ((y0 <=? fst p) && (fst p <=? y) && (y <? e_y2 (snd p))) with false by lia.
      exact IH.
Qed.

Lemma live_In y0 starts y e : In e (live y0 starts y) ->
  exists p, In p starts /\ e = edge_at y p /\ y0 <= fst p <= y /\ y < e_y2 (snd p).
Proof.
  unfold live. intros H. apply in_map_iff in H. destruct H as (p & <- & Hp).
  apply filter_In in Hp. destruct Hp as [Hp Hc]. exists p. split; [exact Hp|]. split; [reflexivity|]. lia.
Qed.

Lemma live_props y0 starts y e : starts_ok starts -> In e (live y0 starts y) ->
  e_shift e = 0 /\ e_err e = false.
Proof.
  intros Hok H. destruct (live_In _ _ _ _ H) as (p & Hp & -> & _).
  destruct (Hok p Hp) as (H1 & H2 & _). unfold edge_at. rewrite line_at_shift, line_at_err. auto.
Qed.

(* stepping and retiring the edges of row y gives the pre-insertion list of row y + 1 *)
Lemma live_step y0 starts y : starts_ok starts ->
  filter (fun e => negb (e_y2 e <=? y + 1)) (map (fun e => step e y) (live y0 starts y))
  = live_pre y0 starts (y + 1).
Proof.
  intros Hok. unfold live, live_pre.
  rewrite map_map. rewrite filter_map_comm. rewrite filter_filter.
  assert (Hext: forall (l : list (Z * aedge)), (forall p, In p l -> e_shift (snd p) = 0) ->
     map (fun x => step (edge_at y x) y)
         (filter (fun x => (y0 <=? fst x) && (fst x <=? y) && (y <? e_y2 (snd x)) &&
                           negb (e_y2 (step (edge_at y x) y) <=? y + 1)) l)
     = map (edge_at (y + 1))
         (filter (fun p => (y0 <=? fst p) && (fst p <? y + 1) && (y + 1 <? e_y2 (snd p))) l)).
  { induction l as [|p t IH]; intros Hsh; cbn [filter map]; [reflexivity|].
    assert (Hp: e_shift (snd p) = 0) by (apply Hsh; left; reflexivity).
    assert (Hst: step (edge_at y p) y = edge_at (y + 1) p).
    { unfold edge_at. rewrite step_line_at by (rewrite line_at_shift; exact Hp).
      rewrite line_at_line_at. f_equal. lia. }
    assert (Hy2: e_y2 (edge_at (y + 1) p) = e_y2 (snd p)) by reflexivity.
    rewrite Hst, Hy2.
    replace ((y0 <=? fst p) && (fst p <=? y) && (y <? e_y2 (snd p)) && negb (e_y2 (snd p) <=? y + 1))
      with ((y0 <=? fst p) && (fst p <? y + 1) && (y + 1 <? e_y2 (snd p))) by lia.
    specialize (IH (fun q Hq => Hsh q (or_intror Hq))).
    destruct ((y0 <=? fst p) && (fst p <? y + 1) && (y + 1 <? e_y2 (snd p))); cbn [map];
      rewrite IH, ?Hst; reflexivity. }
  apply Hext. intros p Hp. apply (Hok p Hp).
Qed.

Section RowsLoop.
  Variable blit : maskbuf -> Z -> Z -> Z -> result maskbuf.
  Variable rule : winding_rule.
  Variable w4 : Z.
  Variable y0 : Z.
  Variable starts : list (Z * aedge).
  Hypothesis Hok : starts_ok starts.

  (* the invariant at the top of the loop body for row y *)
  Definition rows_inv (y : Z) (active : list aedge) : Prop :=
    sorted active /\ Permutation active (live_pre y0 starts y).

  (* the list that is scanned on row y, and the list handed to the next row *)
  Definition scanned (y : Z) (active : list aedge) : list aedge := insert_starting (new_edges starts y) active.
  Definition next_active (y : Z) (active : list aedge) : list aedge :=
    sort_edges (step_edges (scanned y active) y).

  Lemma scanned_inv y active : y0 <= y -> rows_inv y active ->
    sorted (scanned y active) /\ Permutation (scanned y active) (live y0 starts y).
  Proof.
    intros Hy [Hs Hp]. unfold scanned. split; [apply insert_starting_sorted; exact Hs|].
    eapply perm_trans; [apply Permutation_sym, insert_starting_perm|].
    eapply perm_trans; [apply Permutation_app_head; exact Hp|].
    apply live_split; assumption.
  Qed.

  Lemma next_active_inv y active : y0 <= y -> rows_inv y active -> rows_inv (y + 1) (next_active y active).
  Proof.
    intros Hy Hinv. destruct (scanned_inv y active Hy Hinv) as [Hs Hp].
    unfold rows_inv, next_active. split; [apply sort_edges_sorted|].
    eapply perm_trans; [apply Permutation_sym, sort_edges_perm|].
    unfold step_edges. rewrite <- live_step by exact Hok.
    apply Permutation_filter. apply Permutation_map. exact Hp.
  Qed.

  Lemma step_edges_no_err y active : y0 <= y -> rows_inv y active ->
    existsb e_err (step_edges (scanned y active) y) = false.
  Proof.
    intros Hy Hinv. destruct (scanned_inv y active Hy Hinv) as [Hs Hp].
    destruct (existsb e_err (step_edges (scanned y active) y)) eqn:E; [|reflexivity].
    apply existsb_exists in E. destruct E as (e & He & Herr).
    unfold step_edges in He. apply filter_In in He. destruct He as [He _].
    apply in_map_iff in He. destruct He as (e0 & <- & He0).
    apply (Permutation_in _ Hp) in He0.
    destruct (live_props _ _ _ _ Hok He0) as [Hsh Her].
    rewrite (step_line e0 y Hsh) in Herr. rewrite with_fullx_err in Herr. congruence.
  Qed.

  (* one iteration of the loop *)
  Theorem rows_step n y active m : y0 <= y -> rows_inv y active ->
    rows blit rule (S n) w4 starts y active m =
      do m' <- blit_spans blit m y (scan_edges rule w4 (scanned y active));
      rows blit rule n w4 starts (y + 1) (next_active y active) m'.
  Proof.
    intros Hy Hinv. cbn [rows]. fold (new_edges starts y). fold (scanned y active).
    destruct (blit_spans blit m y (scan_edges rule w4 (scanned y active))) as [m'|e]; cbn [bind]; [|reflexivity].
    rewrite (step_edges_no_err y active Hy Hinv). reflexivity.
  Qed.

  (* the invariant is maintained over any number of rows; whatever the blitter does *)
  Theorem rows_invariant n : forall y active m r, y0 <= y -> rows_inv y active ->
    rows blit rule n w4 starts y active m = Ok r ->
    rows_inv (y + Z.of_nat n) (fst r).
  Proof.
    induction n as [|k IH]; intros y active m r Hy Hinv H.
    - cbn [rows] in H. inversion H; subst. cbn [fst]. replace (y + Z.of_nat 0) with y by lia. exact Hinv.
    - rewrite (rows_step k y active m Hy Hinv) in H.
      destruct (blit_spans blit m y (scan_edges rule w4 (scanned y active))) as [m'|e]; cbn [bind] in H; [|discriminate].
      replace (y + Z.of_nat (S k)) with (y + 1 + Z.of_nat k) by lia.
      apply (IH (y + 1) (next_active y active) m' r); [lia| |exact H].
      apply next_active_inv; assumption.
  Qed.

  (* rows never fails with DivZero / anything else unless the blitter fails *)
  Theorem rows_ok_if_blit_total n :
    (forall m y a b, exists m', blit m y a b = Ok m') ->
    forall y active m, y0 <= y -> rows_inv y active -> exists r, rows blit rule n w4 starts y active m = Ok r.
  Proof.
    intros Htot. assert (Hsp: forall sp m y, exists m', blit_spans blit m y sp = Ok m').
    { induction sp as [|[a b] t IHs]; intros m y; cbn [blit_spans]; [eexists; reflexivity|].
      destruct (Htot m y a b) as [m1 ->]. cbn [bind]. apply IHs. }
    induction n as [|k IH]; intros y active m Hy Hinv.
    - eexists. reflexivity.
    - rewrite (rows_step k y active m Hy Hinv).
      destruct (Hsp (scan_edges rule w4 (scanned y active)) m y) as [m' ->]. cbn [bind].
      apply IH; [lia|apply next_active_inv; assumption].
  Qed.

End RowsLoop.

(* at the first row the invariant holds for the empty active list *)
Lemma rows_inv_init y0 starts : rows_inv y0 starts y0 [].
Proof.
  split; [constructor|]. unfold live_pre.
  replace (filter (fun p => (y0 <=? fst p) && (fst p <? y0) && (y0 <? e_y2 (snd p))) starts) with (@nil (Z * aedge)).
  - constructor.
  - symmetry. induction starts as [|p t IH]; cbn [filter]; [reflexivity|].
    replace ((y0 <=? fst p) && (fst p <? y0) && (y0 <? e_y2 (snd p))) with false by lia. exact IH.
Qed.

(* ---- coverage of a sample row from the canonical edge list ---- *)
(* cell c of sample row y is covered *)
Definition cov (rule : winding_rule) (l : list aedge) (c : Z) : bool :=
  inside rule (wsum l c) && existsb (fun e => c <? rnd (e_fullx e)) l.

Lemma existsb_perm {A} (f : A -> bool) l1 l2 : Permutation l1 l2 -> existsb f l1 = existsb f l2.
Proof.
  induction 1; cbn [existsb]; try congruence.
  - destruct (f x), (f y); reflexivity.
Qed.

Lemma cov_perm rule l1 l2 c : Permutation l1 l2 -> cov rule l1 c = cov rule l2 c.
Proof. intros H. unfold cov. rewrite (wsum_perm _ _ c H), (existsb_perm _ _ _ H). reflexivity. Qed.

(* the spans produced for a sorted list cover exactly the cells with cov = true *)
Lemma covb_scan_edges rule w4 l c : sorted l -> 0 <= c < w4 ->
  covb (scan_edges rule w4 l) c = cov rule l c.
Proof.
  intros Hs Hc. apply eq_true_iff_eq. rewrite covb_iff. unfold covered_by, in_span.
  rewrite (scan_edges_spec rule w4 l c Hs Hc). unfold cov. rewrite andb_true_iff, existsb_exists.
  split; intros [H1 (e & He & Hlt)]; (split; [exact H1|]); exists e; (split; [exact He|lia]).
Qed.

Print Assumptions rows_step.
Print Assumptions rows_invariant.
Print Assumptions rows_ok_if_blit_total.

(* ===== Part 7: C01 for the whole row loop with the antialiasing blitter ===== *)

(* ---- where the spans of scan_edges start ---- *)
Lemma scan_fst_src rule w4 l : forall w prev s, In s (scan rule w4 l w prev) ->
  (fst s = rnd prev /\ inside rule w = true) \/ exists e, In e l /\ fst s = rnd (e_fullx e).
Proof.
  induction l as [|e t IH]; intros w prev s Hin; cbn [scan] in Hin; [destruct Hin|].
  assert (Hsp: In s (if inside rule w then [(rnd prev, rnd (e_fullx e))] else []) ->
               fst s = rnd prev /\ inside rule w = true).
  { destruct (inside rule w); cbn [In]; [|tauto]. intros [<-|[]]. auto. }
  destruct (w4 <=? dot16_to_dot2 (e_fullx e)); [left; apply Hsp; exact Hin|].
  apply in_app_or in Hin. destruct Hin as [Hin|Hin]; [left; apply Hsp; exact Hin|].
  right. destruct (IH _ _ _ Hin) as [[H1 _]|(e' & He' & H1)].
  - exists e. split; [left; reflexivity|exact H1].
  - exists e'. split; [right; exact He'|exact H1].
Qed.

Lemma scan_edges_fst_src rule w4 l s : sorted l -> In s (scan_edges rule w4 l) ->
  (fst s = 0 /\ exists e, In e l /\ e_fullx e < 0) \/
  exists e, In e l /\ 0 <= e_fullx e /\ fst s = rnd (e_fullx e).
Proof.
  intros Hs. unfold scan_edges. destruct (skip_left l 0) as [l' w'] eqn:Hsk.
  destruct (skip_left_spec _ _ _ _ Hsk) as (pre & Hl & Hpre & Hw & Hhd).
  subst l. destruct (sorted_app_inv _ _ Hs) as (Hs1 & Hs2 & Hs12).
  assert (Hp: forall e, In e l' -> 0 <= e_fullx e).
  { destruct l' as [|e0 t0]; [intros e []|].
    apply sorted_cons_inv in Hs2. destruct Hs2 as [_ Hall]. rewrite Forall_forall in Hall.
    intros e [<-|He]; [exact Hhd|]. specialize (Hall e He). unfold fx_le in Hall. lia. }
  intros Hin. destruct (scan_fst_src _ _ _ _ _ _ Hin) as [[H1 H2]|(e & He & H1)].
  - left. split; [rewrite H1; apply rnd_0|].
    destruct pre as [|e0 pre'].
    + cbn [wtotal] in Hw. replace w' with 0 in H2 by lia. rewrite inside_0 in H2. discriminate.
    + exists e0. split; [left; reflexivity|apply Hpre; left; reflexivity].
  - right. exists e. split; [apply in_or_app; right; exact He|]. split; [apply Hp; exact He|exact H1].
Qed.

Lemma spans_sorted_raise lo lo' sp : spans_sorted lo sp -> (forall s, In s sp -> lo' <= fst s) ->
  spans_sorted lo' sp.
Proof.
  destruct sp as [|s t]; cbn [spans_sorted]; [trivial|]. intros (H1 & H2 & H3) H.
  split; [apply H; left; reflexivity|]. split; assumption.
Qed.

(* Edges whose rounded crossings lie in [lo, hi] give admissible spans for a buffer that covers
   [max lo 0, min hi w4] (in quarter pixels): edges left of the surface are skipped by skip_left
   (the span then starts at 0) and no span starts beyond w4. *)
Lemma spans_ok_scan rule w4 mx w lo hi A L :
  sorted A -> Permutation A L -> 0 <= mx -> 0 <= w -> 0 <= w4 ->
  mx <= Z.max lo 0 -> Z.min hi w4 <= mx + w * 4 ->
  (forall e, In e L -> lo <= rnd (e_fullx e) <= hi) ->
  spans_ok mx w (scan_edges rule w4 A).
Proof.
  intros Hs Hp Hmx Hw Hw4 Hlo Hhi Hr.
  assert (Hr': forall e, In e A -> lo <= rnd (e_fullx e) <= hi).
  { intros e He. apply Hr. apply (Permutation_in _ Hp). exact He. }
  assert (Hf: forall s, In s (scan_edges rule w4 A) -> mx <= fst s <= mx + w * 4).
  { intros s Hin. pose proof (scan_edges_fst_le rule w4 A s Hw4 Hin) as Hle.
    destruct (scan_edges_fst_src _ _ _ _ Hs Hin) as [[H0 (e & He & Hneg)]|(e & He & Hpos & H1)].
    - pose proof (Hr' e He). pose proof (rnd_neg _ Hneg). lia.
    - pose proof (Hr' e He). pose proof (rnd_nonneg _ Hpos). lia. }
  exists mx. split; [lia|]. split.
  - apply spans_sorted_raise with (lo := 0); [apply scan_edges_sorted; exact Hs|].
    intros s Hin. apply Hf. exact Hin.
  - intros s Hin. apply Hf. exact Hin.
Qed.

(* the covered-cell count of a pixel on one sample row, from the canonical edge list *)
Lemma kcov_scan rule w4 mx w A L p :
  sorted A -> Permutation A L -> 0 <= mx -> mx + w * 4 <= w4 -> 0 <= p < w ->
  kcov mx (scan_edges rule w4 A) p = count4 (fun c => cov rule L (c + mx)) p.
Proof.
  intros Hs Hp Hmx Hw4 Hpw. unfold kcov, count4.
  rewrite !(covb_scan_edges rule w4 A) by (try exact Hs; lia).
  rewrite !(cov_perm rule A L) by exact Hp. reflexivity.
Qed.

Lemma blit_pixel_row_ok m y s0 s1 s2 s3 m4 :
  blit_pixel_row m y s0 s1 s2 s3 = Ok m4 ->
  exists m1 m2 m3, blit_spans blit_super m y s0 = Ok m1 /\ blit_spans blit_super m1 (y + 1) s1 = Ok m2 /\
                   blit_spans blit_super m2 (y + 2) s2 = Ok m3 /\ blit_spans blit_super m3 (y + 3) s3 = Ok m4.
Proof.
  unfold blit_pixel_row, blit_rows4. intros H.
  destruct (blit_spans blit_super m y s0) as [m1|] eqn:E1; cbn [bind] in H; [|discriminate].
  destruct (blit_spans blit_super m1 (y + 1) s1) as [m2|] eqn:E2; cbn [bind] in H; [|discriminate].
  destruct (blit_spans blit_super m2 (y + 2) s2) as [m3|] eqn:E3; cbn [bind] in H; [|discriminate].
  exists m1, m2, m3. auto.
Qed.

(* four iterations of the loop = one pixel row (any blitter) *)
Section Rows4.
  Variable blit : maskbuf -> Z -> Z -> Z -> result maskbuf.
  Variable rule : winding_rule.
  Variable w4 y0 : Z.
  Variable starts : list (Z * aedge).
  Hypothesis Hok : starts_ok starts.

  Lemma rows_4 n y a0 m :
    y0 <= y -> rows_inv y0 starts y a0 ->
    let a1 := next_active starts y a0 in
    let a2 := next_active starts (y + 1) a1 in
    let a3 := next_active starts (y + 2) a2 in
    let a4 := next_active starts (y + 3) a3 in
    rows_inv y0 starts (y + 4) a4 /\
    rows blit rule (S (S (S (S n)))) w4 starts y a0 m =
      do m4 <- blit_rows4 blit m y (scan_edges rule w4 (scanned starts y a0))
                                  (scan_edges rule w4 (scanned starts (y + 1) a1))
                                  (scan_edges rule w4 (scanned starts (y + 2) a2))
                                  (scan_edges rule w4 (scanned starts (y + 3) a3));
      rows blit rule n w4 starts (y + 4) a4 m4.
  Proof.
    intros Hy I0 a1 a2 a3 a4.
    assert (I1: rows_inv y0 starts (y + 1) a1) by (apply next_active_inv; assumption).
    assert (I2: rows_inv y0 starts (y + 2) a2).
    { replace (y + 2) with (y + 1 + 1) by lia. apply next_active_inv; [assumption|lia|assumption]. }
    assert (I3: rows_inv y0 starts (y + 3) a3).
    { replace (y + 3) with (y + 2 + 1) by lia. apply next_active_inv; [assumption|lia|assumption]. }
    assert (I4: rows_inv y0 starts (y + 4) a4).
    { replace (y + 4) with (y + 3 + 1) by lia. apply next_active_inv; [assumption|lia|assumption]. }
    split; [exact I4|].
    unfold blit_rows4.
    rewrite (rows_step blit rule w4 y0 starts Hok _ y a0 m Hy I0).
    destruct (blit_spans blit m y (scan_edges rule w4 (scanned starts y a0))) as [m1|]; cbn [bind]; [|reflexivity].
    rewrite (rows_step blit rule w4 y0 starts Hok _ (y + 1) a1 m1 ltac:(lia) I1). fold a2.
    destruct (blit_spans blit m1 (y + 1) (scan_edges rule w4 (scanned starts (y + 1) a1))) as [m2|]; cbn [bind]; [|reflexivity].
    replace (y + 1 + 1) with (y + 2) by lia.
    rewrite (rows_step blit rule w4 y0 starts Hok _ (y + 2) a2 m2 ltac:(lia) I2). fold a3.
    destruct (blit_spans blit m2 (y + 2) (scan_edges rule w4 (scanned starts (y + 2) a2))) as [m3|]; cbn [bind]; [|reflexivity].
    replace (y + 2 + 1) with (y + 3) by lia.
    rewrite (rows_step blit rule w4 y0 starts Hok _ (y + 3) a3 m3 ltac:(lia) I3). fold a4.
    replace (y + 3 + 1) with (y + 4) by lia. reflexivity.
  Qed.
End Rows4.

Section C01.
  Variable rule : winding_rule.
  Variable w4 : Z.                       (* surface width in quarter pixels *)
  Variable y0 : Z.                       (* first sample row of the loop *)
  Variable starts : list (Z * aedge).
  Variables mx my w : Z.                 (* buffer origin (dot2) and width (pixels) *)
  Hypothesis Hok : starts_ok starts.
  Hypothesis Hw : 0 <= w.
  Variables lo hi : Z.                   (* x-range (dot2) of all edge crossings *)
  Hypothesis Hmx : 0 <= mx.
  Hypothesis Hw4 : mx + w * 4 <= w4.
  Hypothesis Hlo : mx <= Z.max lo 0.
  Hypothesis Hhi : Z.min hi w4 <= mx + w * 4.

  (* number of covered quarter cells (over the four sample rows) of pixel p of relative pixel row q *)
  Definition Kpix (q p : Z) : Z :=
    count4 (fun c => cov rule (live y0 starts (my + 4 * q)) (c + mx)) p +
    count4 (fun c => cov rule (live y0 starts (my + 4 * q + 1)) (c + mx)) p +
    count4 (fun c => cov rule (live y0 starts (my + 4 * q + 2)) (c + mx)) p +
    count4 (fun c => cov rule (live y0 starts (my + 4 * q + 3)) (c + mx)) p.

  (* all edges crossing the sample rows [ya, yb) have their rounded crossing in [lo, hi] *)
  Definition edges_in_range (ya yb : Z) : Prop :=
    forall y e, ya <= y < yb -> In e (live y0 starts y) -> lo <= rnd (e_fullx e) <= hi.

  (* C01 over k pixel rows starting at relative pixel row py *)
  Theorem rows_coverage k : forall py active buf,
    0 <= py -> y0 <= my + 4 * py ->
    rows_inv y0 starts (my + 4 * py) active ->
    (py + Z.of_nat k) * w < zlen buf -> bytes_ok buf ->
    (forall q p, py <= q < py + Z.of_nat k -> 0 <= p < w -> zn buf (q * w + p) = 0) ->
    edges_in_range (my + 4 * py) (my + 4 * (py + Z.of_nat k)) ->
    exists active' buf',
      rows blit_super rule (4 * k) w4 starts (my + 4 * py) active (mk_maskbuf mx my w buf)
        = Ok (active', mk_maskbuf mx my w buf') /\
      rows_inv y0 starts (my + 4 * (py + Z.of_nat k)) active' /\
      length buf' = length buf /\ bytes_ok buf' /\
      (forall q p, py <= q < py + Z.of_nat k -> 0 <= p < w ->
         0 <= Kpix q p <= 16 /\
         (zn buf' (q * w + p) = Z.min 255 (16 * Kpix q p) \/ zn buf' (q * w + p) = 16 * Kpix q p - 1)) /\
      (forall i, 0 <= i < zlen buf -> i < py * w \/ (py + Z.of_nat k) * w <= i -> zn buf' i = zn buf i).
  Proof.
    induction k as [|k IH]; intros py active buf Hpy Hy Hinv Hlen Hbytes Hzero Hrange.
    - exists active, buf. cbn [Nat.mul rows]. replace (py + Z.of_nat 0) with py by lia.
      split; [reflexivity|]. split; [exact Hinv|]. split; [reflexivity|]. split; [exact Hbytes|].
      split; [intros q p Hq; lia|]. intros; reflexivity.
    - replace (4 * S k)%nat with (S (S (S (S (4 * k)))))%nat by lia.
      set (y := my + 4 * py) in *.
      destruct (rows_4 blit_super rule w4 y0 starts Hok (4 * k) y active (mk_maskbuf mx my w buf) Hy Hinv) as [I4 Hrows].
      cbv zeta in I4, Hrows.
      set (a1 := next_active starts y active) in *.
      set (a2 := next_active starts (y + 1) a1) in *.
      set (a3 := next_active starts (y + 2) a2) in *.
      set (a4 := next_active starts (y + 3) a3) in *.
      assert (I1: rows_inv y0 starts (y + 1) a1) by (apply next_active_inv; assumption).
      assert (I2: rows_inv y0 starts (y + 2) a2).
      { replace (y + 2) with (y + 1 + 1) by lia. apply next_active_inv; [assumption|lia|assumption]. }
      assert (I3: rows_inv y0 starts (y + 3) a3).
      { replace (y + 3) with (y + 2 + 1) by lia. apply next_active_inv; [assumption|lia|assumption]. }
      destruct (scanned_inv y0 starts Hok y active Hy Hinv) as [S0 P0].
      destruct (scanned_inv y0 starts Hok (y + 1) a1 ltac:(lia) I1) as [S1 P1].
      destruct (scanned_inv y0 starts Hok (y + 2) a2 ltac:(lia) I2) as [S2 P2].
      destruct (scanned_inv y0 starts Hok (y + 3) a3 ltac:(lia) I3) as [S3 P3].
      assert (Hkpos: 0 <= Z.of_nat k) by lia.
      assert (Hw4pos: 0 <= w4) by (clear - Hmx Hw Hw4; lia).
      assert (R0: forall e, In e (live y0 starts y) -> lo <= rnd (e_fullx e) <= hi)
        by (intros e He; apply (Hrange y e); [subst y; lia|exact He]).
      assert (R1: forall e, In e (live y0 starts (y + 1)) -> lo <= rnd (e_fullx e) <= hi)
        by (intros e He; apply (Hrange (y + 1) e); [subst y; lia|exact He]).
      assert (R2: forall e, In e (live y0 starts (y + 2)) -> lo <= rnd (e_fullx e) <= hi)
        by (intros e He; apply (Hrange (y + 2) e); [subst y; lia|exact He]).
      assert (R3: forall e, In e (live y0 starts (y + 3)) -> lo <= rnd (e_fullx e) <= hi)
        by (intros e He; apply (Hrange (y + 3) e); [subst y; lia|exact He]).
      pose proof (spans_ok_scan rule w4 mx w lo hi _ _ S0 P0 Hmx Hw Hw4pos Hlo Hhi R0) as K0.
      pose proof (spans_ok_scan rule w4 mx w lo hi _ _ S1 P1 Hmx Hw Hw4pos Hlo Hhi R1) as K1.
      pose proof (spans_ok_scan rule w4 mx w lo hi _ _ S2 P2 Hmx Hw Hw4pos Hlo Hhi R2) as K2.
      pose proof (spans_ok_scan rule w4 mx w lo hi _ _ S3 P3 Hmx Hw Hw4pos Hlo Hhi R3) as K3.
      (* the first pixel row *)
      assert (Hlen0: py * w + w < zlen buf).
      { clear - Hlen Hw Hkpos. nia. }
      assert (Hzero0: forall p, 0 <= p < w -> zn buf (py * w + p) = 0).
      { intros p Hp. apply Hzero; [lia|exact Hp]. }
      destruct (pixel_row_coverage mx my w py buf _ _ _ _ Hw Hpy Hlen0 Hbytes Hzero0 K0 K1 K2 K3)
        as (buf1 & E1 & E2 & E3 & E4 & E5).
      fold y in E1. unfold blit_pixel_row in E1.
      rewrite Hrows, E1. cbn [bind].
      assert (Z1: zlen buf1 = zlen buf) by (unfold zlen; rewrite E2; reflexivity).
      (* the remaining pixel rows *)
      assert (Hy': y0 <= my + 4 * (py + 1)) by (subst y; lia).
      assert (Hinv': rows_inv y0 starts (my + 4 * (py + 1)) a4).
      { replace (my + 4 * (py + 1)) with (y + 4) by (subst y; lia). exact I4. }
      assert (Hlen': (py + 1 + Z.of_nat k) * w < zlen buf1).
      { rewrite Z1. replace (py + 1 + Z.of_nat k) with (py + Z.of_nat (S k)) by lia. exact Hlen. }
      assert (Hzero': forall q p, py + 1 <= q < py + 1 + Z.of_nat k -> 0 <= p < w -> zn buf1 (q * w + p) = 0).
      { intros q p Hq Hp.
        assert (Hge: (py + 1) * w <= q * w) by (apply Z.mul_le_mono_nonneg_r; lia).
        assert (Hlt: (q + 1) * w <= (py + Z.of_nat (S k)) * w) by (apply Z.mul_le_mono_nonneg_r; lia).
        rewrite E5.
        - apply Hzero; [lia|exact Hp].
        - clear - Hge Hlt Hp Hlen Hpy Hw. nia.
        - right. clear - Hge Hp. lia. }
      assert (Hrange': edges_in_range (my + 4 * (py + 1)) (my + 4 * (py + 1 + Z.of_nat k))).
      { intros y' e Hy'' He. apply (Hrange y' e); [subst y; lia|exact He]. }
      destruct (IH (py + 1) a4 buf1 ltac:(lia) Hy' Hinv' Hlen' E3 Hzero' Hrange')
        as (active' & buf' & F1 & F2 & F3 & F4 & F5 & F6).
      replace (y + 4) with (my + 4 * (py + 1)) by (subst y; lia).
      exists active', buf'. split; [exact F1|].
      split; [replace (my + 4 * (py + Z.of_nat (S k))) with (my + 4 * (py + 1 + Z.of_nat k)) by lia; exact F2|].
      split; [rewrite F3; exact E2|]. split; [exact F4|]. split.
      + intros q p Hq Hp.
        destruct (Z.eq_dec q py) as [->|Hne].
        * (* this pixel row: set by the four sub-rows, untouched afterwards *)
          destruct (E4 p Hp) as (G1 & _ & G3). cbv zeta in G1, G3.
          assert (HK: kcov mx (scan_edges rule w4 (scanned starts y active)) p +
                      kcov mx (scan_edges rule w4 (scanned starts (y + 1) a1)) p +
                      kcov mx (scan_edges rule w4 (scanned starts (y + 2) a2)) p +
                      kcov mx (scan_edges rule w4 (scanned starts (y + 3) a3)) p = Kpix py p).
          { unfold Kpix. fold y.
            rewrite (kcov_scan rule w4 mx w _ _ p S0 P0 Hmx Hw4 Hp).
            rewrite (kcov_scan rule w4 mx w _ _ p S1 P1 Hmx Hw4 Hp).
            rewrite (kcov_scan rule w4 mx w _ _ p S2 P2 Hmx Hw4 Hp).
            rewrite (kcov_scan rule w4 mx w _ _ p S3 P3 Hmx Hw4 Hp). reflexivity. }
          rewrite HK in G1, G3.
          assert (Hi: 0 <= py * w + p < zlen buf1).
          { rewrite Z1. clear - Hlen0 Hp Hpy Hw. nia. }
          rewrite (F6 _ Hi) by (left; clear - Hp; lia).
          split; [exact G1|exact G3].
        * apply F5; [lia|exact Hp].
      + intros i Hi Hoff.
        assert (Hi1: 0 <= i < zlen buf1) by (rewrite Z1; exact Hi).
        rewrite (F6 i Hi1).
        * apply E5; [exact Hi|]. destruct Hoff as [Hoff|Hoff]; [left; exact Hoff|right].
          assert ((py + 1) * w <= (py + Z.of_nat (S k)) * w) by (apply Z.mul_le_mono_nonneg_r; lia).
          clear - H Hoff. lia.
        * destruct Hoff as [Hoff|Hoff]; [left|right].
          -- clear - Hoff Hw. lia.
          -- replace (py + 1 + Z.of_nat k) with (py + Z.of_nat (S k)) by lia. exact Hoff.
  Qed.
End C01.

Print Assumptions rows_coverage.

(* ===== Part 8: the row loop with the aliased blitter (antialiasing off) ===== *)

(* pixel p is painted by one of the (relative) spans: floor(a/4) <= p < floor(b/4) *)
Definition painted (p : Z) (rs : list (Z * Z)) : bool :=
  existsb (fun s => (fst s / 4 <=? p) && (p <? snd s / 4)) rs.

(* ... which is the same as: the last quarter cell of the pixel is covered *)
Lemma painted_covb p rs : painted p rs = covb rs (4 * p + 3).
Proof.
  unfold painted, covb. induction rs as [|s t IH]; cbn [existsb]; [reflexivity|].
  rewrite IH. f_equal. lia.
Qed.

(* sample rows that are not the first of their pixel row are ignored *)
Lemma blit_mask_spans_skip spans : forall m y, 0 <= y - m_y m -> (y - m_y m) mod 4 <> 0 ->
  blit_spans blit_mask m y spans = Ok m.
Proof.
  induction spans as [|[a b] t IH]; intros m y Hy Hm; cbn [blit_spans]; [reflexivity|].
  destruct (blit_mask_spec m y a b Hy) as [H1 _]. rewrite (H1 Hm). cbn [bind]. apply IH; assumption.
Qed.

(* the first sample row of a pixel row *)
Lemma blit_mask_spans_row mx my w y spans : forall buf,
  let yy := y - my in
  let st := yy / 4 * w in
  let rs := map (rel mx w) spans in
  0 <= w -> 0 <= yy -> yy mod 4 = 0 -> st + w <= zlen buf ->
  (forall s, In s rs -> 0 <= fst s) ->
  exists buf',
    blit_spans blit_mask (mk_maskbuf mx my w buf) y spans = Ok (mk_maskbuf mx my w buf') /\
    length buf' = length buf /\
    forall i, 0 <= i -> zn buf' i = if painted (i - st) rs then 255 else zn buf i.
Proof.
  induction spans as [|[x1 x2] t IH]; intros buf yy st rs Hw Hyy Hmod Hlen Hpos.
  - exists buf. cbn [blit_spans]. split; [reflexivity|]. split; [reflexivity|]. intros; reflexivity.
  - cbn [blit_spans]. subst rs. cbn [map] in *. set (rs := map (rel mx w) t) in *.
    set (a := x1 - mx) in *. set (b := Z.min (x2 - mx) (w * 4)).
    assert (Hrel: rel mx w (x1, x2) = (a, b)) by reflexivity. rewrite Hrel in *.
    assert (Ha: 0 <= a) by (apply (Hpos (a, b)); left; reflexivity).
    assert (Hst: 0 <= st) by (subst st; apply Z.mul_nonneg_nonneg; lia).
    destruct (blit_mask_spec (mk_maskbuf mx my w buf) y x1 x2) as [_ H2]; [exact Hyy|].
    cbn [m_x m_y m_w m_buf] in H2. fold yy st a b in H2.
    destruct (H2 Hmod) as (buf1 & E1 & E2 & E3).
    { intros p Hp. assert (b <= w * 4) by (subst b; lia). lia. }
    rewrite E1. cbn [bind].
    destruct (IH buf1) as (buf' & F1 & F2 & F3); try assumption.
    { fold yy. fold st. unfold zlen in *. rewrite E2. exact Hlen. }
    { intros s Hs. apply Hpos. right. exact Hs. }
    fold yy st rs in F3.
    exists buf'. split; [exact F1|]. split; [rewrite F2; exact E2|].
    intros i Hi. rewrite (F3 i Hi), (E3 i Hi). unfold painted. cbn [existsb fst snd].
    fold (painted (i - st) rs).
    destruct (painted (i - st) rs); [rewrite orb_true_r; reflexivity|]. rewrite orb_false_r. reflexivity.
Qed.

(* one pixel row = four sample rows, only the first one paints *)
Lemma blit_mask_pixel_row mx my w py buf sp0 sp1 sp2 sp3 :
  let st := py * w in
  let rs := map (rel mx w) sp0 in
  0 <= w -> 0 <= py -> st + w <= zlen buf ->
  (forall s, In s rs -> 0 <= fst s) ->
  exists buf',
    blit_rows4 blit_mask (mk_maskbuf mx my w buf) (my + 4 * py) sp0 sp1 sp2 sp3 = Ok (mk_maskbuf mx my w buf') /\
    length buf' = length buf /\
    forall i, 0 <= i -> zn buf' i = if painted (i - st) rs then 255 else zn buf i.
Proof.
  intros st rs Hw Hpy Hlen Hpos.
  pose proof (blit_mask_spans_row mx my w (my + 4 * py) sp0 buf) as H. cbv zeta in H.
  replace (my + 4 * py - my) with (4 * py) in H by lia.
  replace (4 * py / 4) with py in H by lia. fold st rs in H.
  destruct H as (buf' & E1 & E2 & E3); try assumption; try lia.
  exists buf'. unfold blit_rows4. rewrite E1. cbn [bind].
  rewrite blit_mask_spans_skip by (cbn [m_y]; lia). cbn [bind].
  rewrite blit_mask_spans_skip by (cbn [m_y]; lia). cbn [bind].
  rewrite blit_mask_spans_skip by (cbn [m_y]; lia).
  split; [reflexivity|]. split; [exact E2|exact E3].
Qed.

Section C01_aliased.
  Variable rule : winding_rule.
  Variable w4 : Z.
  Variable y0 : Z.
  Variable starts : list (Z * aedge).
  Variables mx my w : Z.
  Hypothesis Hok : starts_ok starts.
  Hypothesis Hw : 0 <= w.
  Variables lo hi : Z.
  Hypothesis Hmx : 0 <= mx.
  Hypothesis Hw4 : mx + w * 4 <= w4.
  Hypothesis Hlo : mx <= Z.max lo 0.
  Hypothesis Hhi : Z.min hi w4 <= mx + w * 4.

  (* With antialiasing off, pixel p of relative pixel row q becomes 255 exactly when the last quarter
     cell (4p+3) of its FIRST sample row is covered; the other three sample rows are ignored. *)
  Theorem rows_coverage_aliased k : forall py active buf,
    0 <= py -> y0 <= my + 4 * py ->
    rows_inv y0 starts (my + 4 * py) active ->
    (py + Z.of_nat k) * w <= zlen buf ->
    edges_in_range y0 starts lo hi (my + 4 * py) (my + 4 * (py + Z.of_nat k)) ->
    exists active' buf',
      rows blit_mask rule (4 * k) w4 starts (my + 4 * py) active (mk_maskbuf mx my w buf)
        = Ok (active', mk_maskbuf mx my w buf') /\
      rows_inv y0 starts (my + 4 * (py + Z.of_nat k)) active' /\
      length buf' = length buf /\
      (forall q p, py <= q < py + Z.of_nat k -> 0 <= p < w ->
         zn buf' (q * w + p) =
           if cov rule (live y0 starts (my + 4 * q)) (4 * p + 3 + mx) then 255 else zn buf (q * w + p)) /\
      (forall i, 0 <= i -> i < py * w \/ (py + Z.of_nat k) * w <= i -> zn buf' i = zn buf i).
  Proof.
    induction k as [|k IH]; intros py active buf Hpy Hy Hinv Hlen Hrange.
    - exists active, buf. cbn [Nat.mul rows]. replace (py + Z.of_nat 0) with py by lia.
      split; [reflexivity|]. split; [exact Hinv|]. split; [reflexivity|].
      split; [intros q p Hq; lia|]. intros; reflexivity.
    - replace (4 * S k)%nat with (S (S (S (S (4 * k)))))%nat by lia.
      set (y := my + 4 * py) in *.
      destruct (rows_4 blit_mask rule w4 y0 starts Hok (4 * k) y active (mk_maskbuf mx my w buf) Hy Hinv) as [I4 Hrows].
      cbv zeta in I4, Hrows.
      set (a1 := next_active starts y active) in *.
      set (a2 := next_active starts (y + 1) a1) in *.
      set (a3 := next_active starts (y + 2) a2) in *.
      set (a4 := next_active starts (y + 3) a3) in *.
      destruct (scanned_inv y0 starts Hok y active Hy Hinv) as [S0 P0].
      assert (Hkpos: 0 <= Z.of_nat k) by lia.
      assert (Hw4pos: 0 <= w4) by (clear - Hmx Hw Hw4; lia).
      assert (R0: forall e, In e (live y0 starts y) -> lo <= rnd (e_fullx e) <= hi)
        by (intros e He; apply (Hrange y e); [subst y; lia|exact He]).
      pose proof (spans_ok_scan rule w4 mx w lo hi _ _ S0 P0 Hmx Hw Hw4pos Hlo Hhi R0) as K0.
      destruct (spans_ok_rel _ _ _ K0) as (lo0 & Hlo0 & Hsorted & Hrel).
      assert (Hlen0: py * w + w <= zlen buf).
      { clear - Hlen Hw Hkpos. nia. }
      destruct (blit_mask_pixel_row mx my w py buf
                  (scan_edges rule w4 (scanned starts y active))
                  (scan_edges rule w4 (scanned starts (y + 1) a1))
                  (scan_edges rule w4 (scanned starts (y + 2) a2))
                  (scan_edges rule w4 (scanned starts (y + 3) a3)) Hw Hpy Hlen0)
        as (buf1 & E1 & E2 & E3).
      { intros s Hs. destruct (Hrel s Hs). lia. }
      fold y in E1. rewrite Hrows, E1. cbn [bind].
      assert (Z1: zlen buf1 = zlen buf) by (unfold zlen; rewrite E2; reflexivity).
      (* painted <-> cov for the pixels of this row, nothing painted outside it *)
      assert (Hpaint: forall p, 0 <= p < w ->
                painted p (map (rel mx w) (scan_edges rule w4 (scanned starts y active)))
                = cov rule (live y0 starts y) (4 * p + 3 + mx)).
      { intros p Hp. rewrite painted_covb, covb_rel by lia.
        rewrite (covb_scan_edges rule w4 _ _ S0) by lia. apply cov_perm. exact P0. }
      assert (Hnopaint: forall p, p < 0 \/ w <= p ->
                painted p (map (rel mx w) (scan_edges rule w4 (scanned starts y active))) = false).
      { intros p Hp. unfold painted.
        destruct (existsb _ _) eqn:E; [|reflexivity].
        apply existsb_exists in E. destruct E as (s & Hs & Hc). destruct (Hrel s Hs). lia. }
      assert (Hy': y0 <= my + 4 * (py + 1)) by (subst y; lia).
      assert (Hinv': rows_inv y0 starts (my + 4 * (py + 1)) a4).
      { replace (my + 4 * (py + 1)) with (y + 4) by (subst y; lia). exact I4. }
      assert (Hlen': (py + 1 + Z.of_nat k) * w <= zlen buf1).
      { rewrite Z1. replace (py + 1 + Z.of_nat k) with (py + Z.of_nat (S k)) by lia. exact Hlen. }
      assert (Hrange': edges_in_range y0 starts lo hi (my + 4 * (py + 1)) (my + 4 * (py + 1 + Z.of_nat k))).
      { intros y' e Hy'' He. apply (Hrange y' e); [subst y; lia|exact He]. }
      destruct (IH (py + 1) a4 buf1 ltac:(lia) Hy' Hinv' Hlen' Hrange')
        as (active' & buf' & F1 & F2 & F3 & F5 & F6).
      replace (y + 4) with (my + 4 * (py + 1)) by (subst y; lia).
      exists active', buf'. split; [exact F1|].
      split; [replace (my + 4 * (py + Z.of_nat (S k))) with (my + 4 * (py + 1 + Z.of_nat k)) by lia; exact F2|].
      split; [rewrite F3; exact E2|]. split.
      + intros q p Hq Hp.
        destruct (Z.eq_dec q py) as [->|Hne].
        * assert (Hi: 0 <= py * w + p) by (clear - Hp Hpy Hw; nia).
          rewrite (F6 _ Hi) by (left; clear - Hp; lia).
          rewrite (E3 _ Hi). replace (py * w + p - py * w) with p by lia.
          rewrite (Hpaint p Hp). reflexivity.
        * rewrite (F5 q p ltac:(lia) Hp).
          assert (Hge: (py + 1) * w <= q * w) by (apply Z.mul_le_mono_nonneg_r; lia).
          assert (Hi: 0 <= q * w + p) by (clear - Hge Hp Hpy Hw; nia).
          rewrite (E3 _ Hi). rewrite Hnopaint by (right; clear - Hge Hp; lia). reflexivity.
      + intros i Hi Hoff.
        rewrite (F6 i Hi).
        * rewrite (E3 i Hi). rewrite Hnopaint; [reflexivity|].
          destruct Hoff as [Hoff|Hoff]; [left; clear - Hoff; lia|right].
          assert ((py + 1) * w <= (py + Z.of_nat (S k)) * w) by (apply Z.mul_le_mono_nonneg_r; lia).
          clear - H Hoff. lia.
        * destruct Hoff as [Hoff|Hoff]; [left|right].
          -- clear - Hoff Hw. lia.
          -- replace (py + 1 + Z.of_nat k) with (py + Z.of_nat (S k)) by lia. exact Hoff.
  Qed.
End C01_aliased.

Print Assumptions rows_coverage_aliased.

(* ===== Part 9: C01 for Rasterizer::rasterize on a rasteriser filled with straight edges ===== *)

(* a straight segment as handed to add_edge (converted coordinates, dot2) *)
Record seg := mk_seg { g_swap : bool; g_sx : Z; g_sy : Z; g_ex : Z; g_ey : Z }.
Definition add_seg (r : rast) (g : seg) : rast :=
  add_edge r (g_swap g) (g_sx g) (g_sy g) (g_ex g) (g_ey g) false 0 0.
Definition add_segs (r : rast) (gs : list seg) : rast := fold_left add_seg gs r.

(* what we know about an entry of edge_starts of a rasteriser that only received straight edges *)
Definition line_entry (r : rast) (p : Z * aedge) : Prop :=
  exists x1 y1 x2 y2 wd,
    y1 < y2 /\ fst p = Z.max y1 0 /\ fst p < y2 /\
    snd p = line_at (line_edge x1 y1 x2 y2 wd) (fst p - y1) /\
    4 * r_left r <= x1 <= 4 * r_right r /\ 4 * r_left r <= x2 <= 4 * r_right r.

Definition lines_inv (r : rast) : Prop :=
  r_active r = [] /\ forall p, In p (r_starts r) -> line_entry r p.

Lemma lines_inv_new w h : lines_inv (rast_new w h).
Proof. split; [reflexivity|]. intros p []. Qed.

Lemma dot2_to_int_eq v : dot2_to_int v = v / 4.
Proof. unfold dot2_to_int. apply shiftr2. Qed.

Lemma add_seg_inv r g : lines_inv r -> lines_inv (add_seg r g) /\
  r_w4 (add_seg r g) = r_w4 r /\ r_h4 (add_seg r g) = r_h4 r.
Proof.
  intros [Hact Hst]. unfold add_seg. rewrite add_edge_line.
  destruct (if g_swap g then (g_ex g, g_ey g, g_sx g, g_sy g, -1) else (g_sx g, g_sy g, g_ex g, g_ey g, 1))
    as [[[[x1 y1] x2] y2] wd].
  destruct ((y2 <? 0) || (r_h4 r <=? y1)) eqn:E1; [split; [split; assumption|split; reflexivity]|].
  destruct (y2 <=? y1) eqn:E2; [split; [split; assumption|split; reflexivity]|].
  cbv zeta. split; [|split; reflexivity].
  split; [exact Hact|]. cbn [r_starts r_left r_right].
  rewrite !dot2_to_int_eq.
  assert (Hold: forall p, In p (r_starts r) ->
     line_entry (mk_rast (r_w4 r) (r_h4 r) (Z.min (r_top r) (dot2_to_int y1))
        (Z.max (r_bottom r) (dot2_to_int (y2 + 3)))
        (Z.min (Z.min (r_left r) (x1 / 4)) (x2 / 4))
        (Z.max (Z.max (r_right r) ((x1 + 3) / 4)) ((x2 + 3) / 4))
        (if y2 <=? Z.max y1 0 then r_starts r
         else (Z.max y1 0, line_at (line_edge x1 y1 x2 y2 wd) (Z.max y1 0 - y1)) :: r_starts r)
        (r_active r)) p).
  { intros p Hp. destruct (Hst p Hp) as (a1 & b1 & a2 & b2 & wd' & H1 & H2 & H3 & H4 & H5 & H6).
    exists a1, b1, a2, b2, wd'. cbn [r_left r_right]. repeat split; try assumption; lia. }
  rewrite !dot2_to_int_eq in Hold.
  destruct (y2 <=? Z.max y1 0) eqn:E3.
  - exact Hold.
  - intros p [<-|Hp]; [|apply Hold; exact Hp].
    exists x1, y1, x2, y2, wd. cbn [fst snd r_left r_right]. repeat split; try reflexivity; lia.
Qed.

Lemma add_segs_inv gs : forall r, lines_inv r -> lines_inv (add_segs r gs) /\
  r_w4 (add_segs r gs) = r_w4 r /\ r_h4 (add_segs r gs) = r_h4 r.
Proof.
  induction gs as [|g t IH]; intros r Hr; cbn [add_segs fold_left]; [auto|].
  destruct (add_seg_inv r g Hr) as (H1 & H2 & H3).
  destruct (IH _ H1) as (I1 & I2 & I3). fold (add_segs (add_seg r g) t).
  split; [exact I1|]. split; congruence.
Qed.

Lemma rnd_dot16 x : rnd (x * 16384) = x.
Proof. rewrite rnd_eq. lia. Qed.

(* consequences of the invariant *)
Lemma lines_starts_ok r : lines_inv r -> starts_ok (r_starts r).
Proof.
  intros [_ Hst] p Hp. destruct (Hst p Hp) as (x1 & y1 & x2 & y2 & wd & H1 & H2 & H3 & H4 & _).
  rewrite H4. rewrite line_at_shift, line_at_err, line_at_y2. cbn [line_edge e_shift e_err e_y2]. auto.
Qed.

Lemma lines_no_err r : lines_inv r -> existsb (fun p => e_err (snd p)) (r_starts r) = false.
Proof.
  intros Hr. destruct (existsb (fun p => e_err (snd p)) (r_starts r)) eqn:E; [|reflexivity].
  apply existsb_exists in E. destruct E as (p & Hp & He).
  destruct (lines_starts_ok r Hr p Hp) as (_ & H & _). congruence.
Qed.

Lemma lines_in_range r y0 ya yb : lines_inv r ->
  edges_in_range y0 (r_starts r) (4 * r_left r) (4 * r_right r) ya yb.
Proof.
  intros [_ Hst] y e _ He.
  destruct (live_In _ _ _ _ He) as (p & Hp & -> & Hy & Hy2).
  destruct (Hst p Hp) as (x1 & y1 & x2 & y2 & wd & H1 & H2 & H3 & H4 & H5 & H6).
  unfold edge_at. rewrite H4. rewrite line_at_line_at.
  rewrite H4 in Hy2. rewrite line_at_y2 in Hy2. cbn [line_edge e_y2] in Hy2.
  replace (fst p - y1 + (y - fst p)) with (y - y1) by lia.
  rewrite line_edge_at_fullx.
  destruct (crossing_between x1 y1 x2 y2 H1 y ltac:(lia)) as [Hinc Hdec].
  destruct (Z_le_gt_dec x1 x2) as [Hle|Hgt].
  - destruct (Hinc Hle) as [Ha Hb].
    pose proof (rnd_mono _ _ Ha). pose proof (rnd_mono _ _ Hb). rewrite !rnd_dot16 in *. lia.
  - destruct (Hdec ltac:(lia)) as [Ha Hb].
    pose proof (rnd_mono _ _ Ha). pose proof (rnd_mono _ _ Hb). rewrite !rnd_dot16 in *. lia.
Qed.

Lemma zn_repeat0 n i : zn (repeat 0 n) i = 0.
Proof.
  unfold zn. destruct (Nat.lt_ge_cases (Z.to_nat i) n) as [Hlt|Hge].
  - apply nth_repeat.
  - apply nth_overflow. rewrite repeat_length. exact Hge.
Qed.

Lemma bytes_ok_repeat0 n : bytes_ok (repeat 0 n).
Proof. intros i _. rewrite zn_repeat0. lia. Qed.

Section Rasterize.
  Variable rule : winding_rule.
  Variables W H : Z.
  Variable gs : list seg.
  Hypothesis HW : 0 <= W.
  Hypothesis HH : 0 <= H.

  Let r := add_segs (rast_new W H) gs.
  Let b := get_bounds r.
  Let mx := x0 b * 4.
  Let my := y0 b * 4.
  Let bw := r_w b.
  Let bh := r_h b.

  Lemma rasterize_setup :
    lines_inv r /\ r_w4 r = W * 4 /\ r_h4 r = H * 4 /\
    mx = Z.max (4 * r_left r) 0 /\ my = Z.max (r_top r * 4) 0 /\
    mx + bw * 4 = Z.min (4 * r_right r) (W * 4) /\
    my + bh * 4 = Z.min (r_bottom r * 4) (H * 4).
  Proof.
    destruct (add_segs_inv gs (rast_new W H) (lines_inv_new W H)) as (H1 & H2 & H3). fold r in H1, H2, H3.
    cbn [rast_new r_w4 r_h4] in H2, H3.
    split; [exact H1|]. split; [exact H2|]. split; [exact H3|].
    subst mx my bw bh b. unfold get_bounds, r_w, r_h. cbn [x0 y0 x1 y1].
    rewrite H2, H3, !dot2_to_int_eq. repeat split; lia.
  Qed.

  (* C01, antialiased: every pixel of the coverage mask is min(255, 16 K) or 16 K - 1,
     K = number of covered quarter cells of the pixel (4 sample rows x 4 cells) *)
  Theorem rasterize_lines_coverage :
    0 <= bw -> 0 <= bh ->
    exists r' buf',
      rasterize blit_super rule r (maskbuf_new (x0 b) (y0 b) bw bh) = Ok (r', mk_maskbuf mx my bw buf') /\
      length buf' = Z.to_nat (bw * bh + 1) /\ bytes_ok buf' /\
      forall q p, 0 <= q < bh -> 0 <= p < bw ->
        let K := Kpix rule my (r_starts r) mx my q p in
        0 <= K <= 16 /\
        (zn buf' (q * bw + p) = Z.min 255 (16 * K) \/ zn buf' (q * bw + p) = 16 * K - 1).
  Proof.
    intros Hbw Hbh.
    destruct rasterize_setup as (Hinv & Hw4 & Hh4 & Emx & Emy & Eright & Ebottom).
    unfold rasterize, maskbuf_new. fold mx my.
    rewrite (lines_no_err r Hinv).
    replace (Z.max (r_top r * 4) 0) with my by lia.
    replace (Z.min (r_bottom r * 4) (r_h4 r) - my) with (4 * bh) by (rewrite Hh4; lia).
    replace (Z.to_nat (4 * bh)) with (4 * Z.to_nat bh)%nat by lia.
    destruct Hinv as [Hact Hst]. rewrite Hact.
    assert (Hinv: lines_inv r) by (split; assumption).
    assert (Hlenb: 0 <= bw * bh) by (apply Z.mul_nonneg_nonneg; assumption).
    pose proof (rows_coverage rule (r_w4 r) my (r_starts r) mx my bw (lines_starts_ok r Hinv) Hbw
                  (4 * r_left r) (4 * r_right r)
                  ltac:(lia) ltac:(rewrite Hw4; lia) ltac:(lia) ltac:(rewrite Hw4; lia)
                  (Z.to_nat bh) 0 [] (repeat 0 (Z.to_nat (bw * bh + 1)))) as Hc.
    replace (my + 4 * 0) with my in Hc by lia.
    rewrite Z2Nat.id in Hc by exact Hbh.
    destruct Hc as (active' & buf' & C1 & C2 & C3 & C4 & C5 & C6).
    - lia.
    - lia.
    - apply rows_inv_init.
    - unfold zlen. rewrite repeat_length. replace (0 + bh) with bh by lia.
      rewrite Z.mul_comm. lia.
    - apply bytes_ok_repeat0.
    - intros. apply zn_repeat0.
    - apply lines_in_range. exact Hinv.
    - rewrite C1. cbn [bind].
      eexists. exists buf'. split; [reflexivity|].
      split; [rewrite C3; apply repeat_length|]. split; [exact C4|].
      intros q p Hq Hp. apply C5; lia.
  Qed.

  (* C01, aliased: a pixel is 255 exactly when the last quarter cell of its first sample row is covered *)
  Theorem rasterize_lines_coverage_aliased :
    0 <= bw -> 0 <= bh ->
    exists r' buf',
      rasterize blit_mask rule r (maskbuf_new (x0 b) (y0 b) bw bh) = Ok (r', mk_maskbuf mx my bw buf') /\
      length buf' = Z.to_nat (bw * bh + 1) /\
      forall q p, 0 <= q < bh -> 0 <= p < bw ->
        zn buf' (q * bw + p) =
          if cov rule (live my (r_starts r) (my + 4 * q)) (4 * p + 3 + mx) then 255 else 0.
  Proof.
    intros Hbw Hbh.
    destruct rasterize_setup as (Hinv & Hw4 & Hh4 & Emx & Emy & Eright & Ebottom).
    unfold rasterize, maskbuf_new. fold mx my.
    rewrite (lines_no_err r Hinv).
    replace (Z.max (r_top r * 4) 0) with my by lia.
    replace (Z.min (r_bottom r * 4) (r_h4 r) - my) with (4 * bh) by (rewrite Hh4; lia).
    replace (Z.to_nat (4 * bh)) with (4 * Z.to_nat bh)%nat by lia.
    destruct Hinv as [Hact Hst]. rewrite Hact.
    assert (Hinv: lines_inv r) by (split; assumption).
    assert (Hlenb: 0 <= bw * bh) by (apply Z.mul_nonneg_nonneg; assumption).
    pose proof (rows_coverage_aliased rule (r_w4 r) my (r_starts r) mx my bw (lines_starts_ok r Hinv) Hbw
                  (4 * r_left r) (4 * r_right r)
                  ltac:(lia) ltac:(rewrite Hw4; lia) ltac:(lia) ltac:(rewrite Hw4; lia)
                  (Z.to_nat bh) 0 [] (repeat 0 (Z.to_nat (bw * bh + 1)))) as Hc.
    replace (my + 4 * 0) with my in Hc by lia.
    rewrite Z2Nat.id in Hc by exact Hbh.
    destruct Hc as (active' & buf' & C1 & C2 & C3 & C5 & C6).
    - lia.
    - lia.
    - apply rows_inv_init.
    - unfold zlen. rewrite repeat_length. replace (0 + bh) with bh by lia.
      rewrite Z.mul_comm. lia.
    - apply lines_in_range. exact Hinv.
    - rewrite C1. cbn [bind].
      eexists. exists buf'. split; [reflexivity|].
      split; [rewrite C3; apply repeat_length|].
      intros q p Hq Hp. rewrite (C5 q p ltac:(lia) Hp). rewrite zn_repeat0. reflexivity.
  Qed.
End Rasterize.

(* every edge that `live` lists for sample row y is a segment at its closed-form crossing
   F y = x1*16384 + (y - y1) * quot((x2-x1)*16384, y2-y1)  (see crossing_error / crossing_between) *)
Lemma lines_live_closed_form r y0 y e : lines_inv r -> In e (live y0 (r_starts r) y) ->
  exists x1 y1 x2 y2 wd,
    y1 < y2 /\ Z.max y1 0 <= y < y2 /\ e_wind e = wd /\
    e_fullx e = x1 * 16384 + (y - y1) * Z.quot ((x2 - x1) * 16384) (y2 - y1).
Proof.
  intros [_ Hst] He.
  destruct (live_In _ _ _ _ He) as (p & Hp & -> & Hy & Hy2).
  destruct (Hst p Hp) as (x1 & y1 & x2 & y2 & wd & H1 & H2 & H3 & H4 & H5 & H6).
  exists x1, y1, x2, y2, wd.
  rewrite H4 in Hy2. rewrite line_at_y2 in Hy2. cbn [line_edge e_y2] in Hy2.
  split; [exact H1|]. split; [lia|].
  unfold edge_at. rewrite H4. rewrite line_at_line_at.
  replace (fst p - y1 + (y - fst p)) with (y - y1) by lia.
  split; [reflexivity|]. apply line_edge_at_fullx.
Qed.

(* non-vacuity check: the triangle (0.25,0.5) (3.5,1.25) (1.0,3.75) on a 4x4 surface; the same mask
   was produced by the Rust crate during the design phase *)
Definition example_tri : list seg := [mk_seg false 1 2 14 5; mk_seg false 14 5 4 15; mk_seg true 4 15 1 2].
Example example_tri_mask :
  let r := add_segs (rast_new 4 4) example_tri in
  get_bounds r = mkrect 0 0 4 4 /\
  (match rasterize blit_super NonZero r (maskbuf_new 0 0 4 4) with Ok (_, m) => m_buf m | Err _ => [] end)
    = [48; 16; 0; 0;  144; 255; 223; 48;  80; 255; 96; 0;  16; 96; 0; 0;  0] /\
  map (fun q => map (fun p => Kpix NonZero 0 (r_starts r) 0 0 q p) [0; 1; 2; 3]) [0; 1; 2; 3]
    = [[3; 1; 0; 0]; [9; 16; 14; 3]; [5; 16; 6; 0]; [1; 6; 0; 0]] /\
  (match rasterize blit_mask NonZero r (maskbuf_new 0 0 4 4) with Ok (_, m) => m_buf m | Err _ => [] end)
    = [0; 0; 0; 0;  255; 255; 0; 0;  255; 255; 0; 0;  255; 0; 0; 0;  0].
Proof. vm_compute. repeat split; reflexivity. Qed.

Print Assumptions rasterize_lines_coverage.
Print Assumptions rasterize_lines_coverage_aliased.
