(* RasterTotal: the rasteriser on ARBITRARY edges (straight and quadratic curve edges), for the model of the crate
   after the two repairs of ActiveEdge::step (partial first row of a new segment; slope_x = quotient / 4 toward zero).

   Parts A-F  rasterize never fails PROVIDED every span handed to the blitter starts inside the mask buffer
              (`raster_guard`, a computable function of the edge lists): rasterize_total_partial,
              rasterize_total_aliased_partial, rasterize_total_full_width.  Independent of how `step` moves an edge.
   Part G     after any add_edge calls (+ rasterize) reset leaves the rasteriser idle: adds_rasterize_reset_idle,
              adds_reset_idle (0 < height needed: height0_not_idle).
   Part H     closed form of the forward differencing (curve_points_closed_form), distance from the exact Bezier
              point (curve_point_error), hull bound (fd_point_hull).
   Part I     every filed edge (any kind) is scanned on the rows [start, y2) exactly once: scanned_rows, rows_active,
              and "all crossings in range => span guard" (rows_guard_of_range).
   Part J     per-edge reduction: straight edges always stay between their end points; a curve edge needs
              curve_in_hull; rasterize_total_edges.
   Part K     the step of the crate before the repair is refuted (rasterize_legacy_refuted).
   Parts L-M  the repaired step keeps every curve crossing inside the hull of the control points if the slope
              divisions do not wrap i32 (curve_in_hull_of_no_wrap); rasterize_total, rasterize_total_aliased.
   Part N     the hypothesis is computable (no_slope_wrapb, rasterize_total_checked) and needed for unbounded integers
              (no_slope_wrap_needed).
   Part O     y-monotone curve edges: fd_point_y_mono, curve_edge_rows. *)
From Coq Require Import ZArith List Lia ZifyBool Bool Sorting.Sorted Sorting.Permutation.
Require Import RQ.Base RQ.Rect RQ.Raster RQ.RasterProofs RQ.RasterIdle.
Import ListNotations.
Open Scope Z_scope.
Ltac Zify.zify_post_hook ::= Z.to_euclidean_division_equations.

(* ===== the argument tuples of add_edge ===== *)
Definition edge_args := (bool * Z * Z * Z * Z * bool * Z * Z)%type.
Definition add_any (r : rast) (a : edge_args) : rast :=
  let '(swap, sx, sy, ex, ey, curve, cx, cy) := a in add_edge r swap sx sy ex ey curve cx cy.

(* ===== Part A: every filed edge is well formed (no error flag, segment counter in range) ===== *)
Definition egood (e : aedge) : Prop := e_err e = false /\ cinv e.

Lemma step_good e y : egood e -> egood (step e y).
Proof. intros [He Hc]. destruct (step_no_err e y Hc He) as (A & B & _). split; assumption. Qed.

Lemma with_fullx_good e f : egood e -> egood (with_fullx e f).
Proof. intros H. exact H. Qed.

Lemma prestep_good n : forall e cury, egood e -> egood (fst (prestep n e cury)).
Proof.
  induction n as [|k IH]; intros e cury H; cbn [prestep]; [exact H|].
  destruct (cury <? 0); [|exact H]. apply IH. apply step_good. exact H.
Qed.

Lemma prestep_fast_good fuel : forall e cury, egood e -> egood (fst (prestep_fast fuel e cury)).
Proof.
  induction fuel as [|k IH]; intros e cury H; cbn [prestep_fast]; [apply prestep_good; exact H|].
  destruct (cury <? 0); [|exact H].
  destruct (dot16_to_dot2 (e_nexty e) <=? cury).
  - apply IH. apply step_good. exact H.
  - apply IH. apply with_fullx_good. exact H.
Qed.

Definition starts_good (starts : list (Z * aedge)) : Prop := forall p, In p starts -> egood (snd p).

Theorem add_edge_good r swap sx sy ex ey curve cx cy :
  starts_good (r_starts r) -> starts_good (r_starts (add_edge r swap sx sy ex ey curve cx cy)).
Proof.
  intros Hst. unfold add_edge.
  destruct (if swap then (ex, ey, sx, sy, -1) else (sx, sy, ex, ey, 1)) as [[[[x1 y1] x2] y2] w].
  destruct ((y2 <? 0) || (r_h4 r <=? y1)) eqn:Edrop; [exact Hst|].
  destruct (y2 <=? y1) eqn:Ehor; [exact Hst|].
  match goal with |- context [let '(e, cury) := ?P in _] => set (pe := P) end.
  assert (Hpe : egood (fst pe)).
  { unfold pe. destruct curve.
    - match goal with |- context [diff_to_shift ?a ?b] => pose proof (shift_range a b) as Hsh; cbv zeta in Hsh;
        set (shift := if diff_to_shift a b =? 0 then 1 else if 6 <? diff_to_shift a b then 6 else diff_to_shift a b) in * end.
      assert (Hcnt : 0 <= Z.shiftl 1 shift - 1 <= 63).
      { rewrite Z.shiftl_mul_pow2 by lia. assert (2 ^ shift <= 2 ^ 6) by (apply Z.pow_le_mono_r; lia).
        assert (0 < 2 ^ shift) by (apply Z.pow_pos_nonneg; lia). change (2 ^ 6) with 64 in *. lia. }
      match goal with |- context [set_next_to_end (curve_advance 64 y1 ?E0)] => set (e0 := E0) end.
      destruct (curve_setup_den y1 y2 e0 ltac:(lia) eq_refl Hcnt) as [Hden Hc2].
      set (e2 := set_next_to_end (curve_advance 64 y1 e0)) in *.
      set (den := dot16_to_dot2 (e_nexty e2 - dot2_to_dot16 y1)) in *.
      set (efin := mk_aedge x2 y2 (Z.quot (e_nextx e2 - dot2_to_dot16 x1) den) (dot2_to_dot16 x1) (e_nextx e2) (e_nexty e2)
                            (e_dx e2) (e_ddx e2) (e_dy e2) (e_ddy e2) 0 0 shift (e_count e2) w (den =? 0)).
      assert (Hgf : egood efin).
      { split; [unfold efin; cbn [e_err]; apply Z.eqb_neq; clearbody den; lia|unfold cinv, efin; cbn [e_count]; lia]. }
      destruct (y1 <? 0); [apply prestep_fast_good; exact Hgf|exact Hgf].
    - destruct (y1 <? 0); (split; [reflexivity|unfold cinv; cbn; lia]). }
  destruct pe as [e cury]. cbn [fst] in Hpe.
  destruct ((y1 <? 0) && (y2 <=? cury) && negb (e_err e)); cbn [r_starts]; [exact Hst|].
  intros p [<-|Hp]; [exact Hpe|apply Hst; exact Hp].
Qed.

Lemma add_edge_shape r swap sx sy ex ey curve cx cy :
  exists t b l rt st, add_edge r swap sx sy ex ey curve cx cy = mk_rast (r_w4 r) (r_h4 r) t b l rt st (r_active r).
Proof.
  assert (Hr : exists t b l rt st, r = mk_rast (r_w4 r) (r_h4 r) t b l rt st (r_active r)).
  { destruct r. do 5 eexists. reflexivity. }
  unfold add_edge.
  destruct (if swap then (ex, ey, sx, sy, -1) else (sx, sy, ex, ey, 1)) as [[[[x1 y1] x2] y2] w].
  destruct ((y2 <? 0) || (r_h4 r <=? y1)); [exact Hr|].
  destruct (y2 <=? y1); [exact Hr|].
  match goal with |- context [let '(e, cury) := ?P in _] => destruct P as [e cury] end.
  destruct ((y1 <? 0) && (y2 <=? cury) && negb (e_err e)); do 5 eexists; reflexivity.
Qed.

Lemma add_edge_fields r swap sx sy ex ey curve cx cy :
  r_h4 (add_edge r swap sx sy ex ey curve cx cy) = r_h4 r /\ r_w4 (add_edge r swap sx sy ex ey curve cx cy) = r_w4 r /\
  r_active (add_edge r swap sx sy ex ey curve cx cy) = r_active r.
Proof.
  destruct (add_edge_shape r swap sx sy ex ey curve cx cy) as (t & b & l & rt & st & ->). repeat split.
Qed.

Lemma add_any_fold_good es : forall r, starts_good (r_starts r) ->
  let r' := fold_left add_any es r in
  starts_good (r_starts r') /\ r_h4 r' = r_h4 r /\ r_w4 r' = r_w4 r /\ r_active r' = r_active r.
Proof.
  induction es as [|a t IH]; intros r H; cbn [fold_left]; [split; [exact H|repeat split]|].
  destruct a as [[[[[[[swap sx] sy] ex] ey] curve] cx] cy]. cbv zeta. cbn [add_any].
  destruct (add_edge_fields r swap sx sy ex ey curve cx cy) as (F1 & F2 & F3).
  destruct (IH _ (add_edge_good r swap sx sy ex ey curve cx cy H)) as (I1 & I2 & I3 & I4).
  split; [exact I1|]. repeat split; congruence.
Qed.

(* ===== Part B: the row loop on arbitrary well-formed edges ===== *)
Section GenRows.
  Variable blit : maskbuf -> Z -> Z -> Z -> result maskbuf.
  Variable rule : winding_rule.
  Variable w4 : Z.
  Variable starts : list (Z * aedge).
  Hypothesis Hgood : starts_good starts.

  (* loop invariant that does not depend on the closed form of the edges *)
  Definition ainv (a : list aedge) : Prop := sorted a /\ forall e, In e a -> egood e.

  Lemma ainv_nil : ainv [].
  Proof. split; [constructor|intros e []]. Qed.

  Lemma scanned_ainv y a : ainv a -> ainv (scanned starts y a).
  Proof.
    intros [Hs Hg]. unfold scanned. split; [apply insert_starting_sorted; exact Hs|].
    intros e He. apply insert_starting_In in He. destruct He as [He|He]; [|apply Hg; exact He].
    unfold new_edges in He. apply in_map_iff in He. destruct He as (p & <- & Hp).
    apply filter_In in Hp. apply Hgood. apply Hp.
  Qed.

  Lemma step_edges_good y a : ainv a -> forall e, In e (step_edges (scanned starts y a) y) -> egood e.
  Proof.
    intros Ha e He. destruct (scanned_ainv y a Ha) as [_ Hg].
    unfold step_edges in He. apply filter_In in He. destruct He as [He _].
    apply in_map_iff in He. destruct He as (e0 & <- & He0). apply step_good. apply Hg. exact He0.
  Qed.

  Lemma next_ainv y a : ainv a -> ainv (next_active starts y a).
  Proof.
    intros Ha. unfold next_active. split; [apply sort_edges_sorted|].
    intros e He. apply (proj1 (sort_edges_In _ _)) in He. apply (step_edges_good y a Ha e He).
  Qed.

  Lemma step_edges_no_err_gen y a : ainv a -> existsb e_err (step_edges (scanned starts y a) y) = false.
  Proof.
    intros Ha. destruct (existsb e_err (step_edges (scanned starts y a) y)) eqn:E; [|reflexivity].
    apply existsb_exists in E. destruct E as (e & He & Herr).
    destruct (step_edges_good y a Ha e He) as [H _]. congruence.
  Qed.

  Theorem rows_step_gen n y a m : ainv a ->
    rows blit rule (S n) w4 starts y a m =
      do m' <- blit_spans blit m y (scan_edges rule w4 (scanned starts y a));
      rows blit rule n w4 starts (y + 1) (next_active starts y a) m'.
  Proof.
    intros Ha. cbn [rows]. fold (new_edges starts y). fold (scanned starts y a).
    destruct (blit_spans blit m y (scan_edges rule w4 (scanned starts y a))) as [m'|e]; cbn [bind]; [|reflexivity].
    rewrite (step_edges_no_err_gen y a Ha). reflexivity.
  Qed.

  (* four iterations = one pixel row *)
  Lemma rows_4_gen n y a0 m : ainv a0 ->
    let a1 := next_active starts y a0 in
    let a2 := next_active starts (y + 1) a1 in
    let a3 := next_active starts (y + 2) a2 in
    let a4 := next_active starts (y + 3) a3 in
    ainv a4 /\
    rows blit rule (S (S (S (S n)))) w4 starts y a0 m =
      do m4 <- blit_rows4 blit m y (scan_edges rule w4 (scanned starts y a0))
                                  (scan_edges rule w4 (scanned starts (y + 1) a1))
                                  (scan_edges rule w4 (scanned starts (y + 2) a2))
                                  (scan_edges rule w4 (scanned starts (y + 3) a3));
      rows blit rule n w4 starts (y + 4) a4 m4.
  Proof.
    intros I0 a1 a2 a3 a4.
    assert (I1: ainv a1) by (apply next_ainv; assumption).
    assert (I2: ainv a2) by (apply next_ainv; assumption).
    assert (I3: ainv a3) by (apply next_ainv; assumption).
    assert (I4: ainv a4) by (apply next_ainv; assumption).
    split; [exact I4|].
    unfold blit_rows4.
    rewrite (rows_step_gen _ y a0 m I0).
    destruct (blit_spans blit m y (scan_edges rule w4 (scanned starts y a0))) as [m1|]; cbn [bind]; [|reflexivity].
    rewrite (rows_step_gen _ (y + 1) a1 m1 I1). fold a2.
    destruct (blit_spans blit m1 (y + 1) (scan_edges rule w4 (scanned starts (y + 1) a1))) as [m2|]; cbn [bind]; [|reflexivity].
    replace (y + 1 + 1) with (y + 2) by lia.
    rewrite (rows_step_gen _ (y + 2) a2 m2 I2). fold a3.
    destruct (blit_spans blit m2 (y + 2) (scan_edges rule w4 (scanned starts (y + 2) a2))) as [m3|]; cbn [bind]; [|reflexivity].
    replace (y + 2 + 1) with (y + 3) by lia.
    rewrite (rows_step_gen _ (y + 3) a3 m3 I3). fold a4.
    replace (y + 3 + 1) with (y + 4) by lia. reflexivity.
  Qed.
End GenRows.

(* ===== Part C: the guard: every span starts inside the buffer ===== *)
(* the spans (a, b) of one sample row all start in [mx, mx + 4 w] (dot2), the x-range of the mask buffer *)
Definition spans_inb (mx w : Z) (spans : list (Z * Z)) : bool :=
  forallb (fun s => (mx <=? fst s) && (fst s <=? mx + w * 4)) spans.

(* the guard over n rows starting at row y with active list a; only rows selected by `sel` are checked.
   It is a boolean function of the edge lists only (no blitting): it can be evaluated. *)
Fixpoint rows_guard (sel : Z -> bool) (rule : winding_rule) (w4 : Z) (starts : list (Z * aedge)) (mx w : Z)
    (n : nat) (y : Z) (a : list aedge) : bool :=
  match n with
  | O => true
  | S k => (if sel y then spans_inb mx w (scan_edges rule w4 (scanned starts y a)) else true) &&
           rows_guard sel rule w4 starts mx w k (y + 1) (next_active starts y a)
  end.

Lemma spans_inb_ok rule w4 mx w A : sorted A -> spans_inb mx w (scan_edges rule w4 A) = true ->
  spans_ok mx w (scan_edges rule w4 A).
Proof.
  intros Hs Hin. unfold spans_inb in Hin. rewrite forallb_forall in Hin.
  exists mx. split; [lia|]. split.
  - apply spans_sorted_raise with (lo := 0); [apply scan_edges_sorted; exact Hs|].
    intros s Hs'. specialize (Hin s Hs'). lia.
  - intros s Hs'. specialize (Hin s Hs'). lia.
Qed.

(* sufficient for the guard: the rounded crossing of every scanned edge, clamped to the surface, is inside the buffer.
   (generalises RasterProofs.spans_ok_scan) *)
Lemma spans_inb_of_edges rule w4 mx w A : sorted A -> 0 <= w4 -> 0 <= mx + w * 4 ->
  (forall e, In e A -> mx <= Z.max (rnd (e_fullx e)) 0 /\ Z.min (rnd (e_fullx e)) w4 <= mx + w * 4) ->
  spans_inb mx w (scan_edges rule w4 A) = true.
Proof.
  intros Hs Hw4 Hmw Hr. unfold spans_inb. apply forallb_forall. intros s Hin.
  pose proof (scan_edges_fst_le rule w4 A s Hw4 Hin) as Hle.
  destruct (scan_edges_fst_src _ _ _ _ Hs Hin) as [[H0 (e & He & Hneg)]|(e & He & Hpos & H1)].
  - destruct (Hr e He). pose proof (rnd_neg _ Hneg). lia.
  - destruct (Hr e He). pose proof (rnd_nonneg _ Hpos). lia.
Qed.

(* when the buffer spans the whole surface width, every span is admissible *)
Lemma spans_inb_full_width rule w4 w A : sorted A -> 0 <= w4 -> w4 = w * 4 ->
  spans_inb 0 w (scan_edges rule w4 A) = true.
Proof.
  intros Hs Hw4 Heq. apply spans_inb_of_edges; [exact Hs|exact Hw4|lia|]. intros e _. lia.
Qed.

(* ===== Part D: the antialiasing blitter over k pixel rows ===== *)
Section TotalSuper.
  Variable rule : winding_rule.
  Variable w4 : Z.
  Variable starts : list (Z * aedge).
  Variables mx my w : Z.
  Hypothesis Hgood : starts_good starts.
  Hypothesis Hw : 0 <= w.

  Theorem rows_total_super k : forall py a buf,
    0 <= py -> ainv a ->
    (py + Z.of_nat k) * w < zlen buf -> bytes_ok buf ->
    (forall q p, py <= q < py + Z.of_nat k -> 0 <= p < w -> zn buf (q * w + p) = 0) ->
    rows_guard (fun _ => true) rule w4 starts mx w (4 * k) (my + 4 * py) a = true ->
    exists a' buf',
      rows blit_super rule (4 * k) w4 starts (my + 4 * py) a (mk_maskbuf mx my w buf) = Ok (a', mk_maskbuf mx my w buf') /\
      ainv a' /\ length buf' = length buf /\ bytes_ok buf'.
  Proof.
    induction k as [|k IH]; intros py a buf Hpy Ha Hlen Hbytes Hzero Hg.
    - exists a, buf. cbn [Nat.mul rows]. split; [reflexivity|]. split; [exact Ha|]. split; [reflexivity|exact Hbytes].
    - replace (4 * S k)%nat with (S (S (S (S (4 * k)))))%nat in * by lia.
      set (y := my + 4 * py) in *.
      destruct (rows_4_gen blit_super rule w4 starts Hgood (4 * k) y a (mk_maskbuf mx my w buf) Ha) as [I4 Hrows].
      cbv zeta in I4, Hrows.
      set (a1 := next_active starts y a) in *.
      set (a2 := next_active starts (y + 1) a1) in *.
      set (a3 := next_active starts (y + 2) a2) in *.
      set (a4 := next_active starts (y + 3) a3) in *.
      assert (I1: ainv a1) by (apply next_ainv; assumption).
      assert (I2: ainv a2) by (apply next_ainv; assumption).
      assert (I3: ainv a3) by (apply next_ainv; assumption).
      cbn [rows_guard] in Hg. fold a1 in Hg.
      replace (y + 1 + 1) with (y + 2) in Hg by lia. fold a2 in Hg.
      replace (y + 2 + 1) with (y + 3) in Hg by lia. fold a3 in Hg.
      replace (y + 3 + 1) with (y + 4) in Hg by lia. fold a4 in Hg.
      apply andb_true_iff in Hg. destruct Hg as [G0 Hg].
      apply andb_true_iff in Hg. destruct Hg as [G1 Hg].
      apply andb_true_iff in Hg. destruct Hg as [G2 Hg].
      apply andb_true_iff in Hg. destruct Hg as [G3 Hg].
      pose proof (spans_inb_ok rule w4 mx w _ (proj1 (scanned_ainv starts Hgood y a Ha)) G0) as K0.
      pose proof (spans_inb_ok rule w4 mx w _ (proj1 (scanned_ainv starts Hgood (y + 1) a1 I1)) G1) as K1.
      pose proof (spans_inb_ok rule w4 mx w _ (proj1 (scanned_ainv starts Hgood (y + 2) a2 I2)) G2) as K2.
      pose proof (spans_inb_ok rule w4 mx w _ (proj1 (scanned_ainv starts Hgood (y + 3) a3 I3)) G3) as K3.
      assert (Hkpos: 0 <= Z.of_nat k) by lia.
      assert (Hlen0: py * w + w < zlen buf).
      { clear - Hlen Hw Hkpos. nia. }
      assert (Hzero0: forall p, 0 <= p < w -> zn buf (py * w + p) = 0).
      { intros p Hp. apply Hzero; [lia|exact Hp]. }
      destruct (blit_pixel_row_spec mx my w py buf _ _ _ _ Hw Hpy Hlen0 Hbytes Hzero0 K0 K1 K2 K3)
        as (buf1 & E1 & E2 & E3 & _ & E5).
      fold y in E1. unfold blit_pixel_row in E1.
      rewrite Hrows, E1. cbn [bind].
      assert (Z1: zlen buf1 = zlen buf) by (unfold zlen; rewrite E2; reflexivity).
      assert (Hlen': (py + 1 + Z.of_nat k) * w < zlen buf1).
      { rewrite Z1. replace (py + 1 + Z.of_nat k) with (py + Z.of_nat (S k)) by lia. exact Hlen. }
      assert (Hzero': forall q p, py + 1 <= q < py + 1 + Z.of_nat k -> 0 <= p < w -> zn buf1 (q * w + p) = 0).
      { intros q p Hq Hp.
        assert (Hge: (py + 1) * w <= q * w) by (apply Z.mul_le_mono_nonneg_r; lia).
        assert (Hlt: (q + 1) * w <= (py + Z.of_nat (S k)) * w) by (apply Z.mul_le_mono_nonneg_r; lia).
        rewrite E5.
        - apply Hzero; [lia|exact Hp].
        - clear - Hge Hlt Hp Hlen Hpy Hw. nia.
        - right. clear - Hge Hp. lia. }
      replace (y + 4) with (my + 4 * (py + 1)) in * by (subst y; lia).
      destruct (IH (py + 1) a4 buf1 ltac:(lia) I4 Hlen' E3 Hzero' Hg) as (a' & buf' & F1 & F2 & F3 & F4).
      exists a', buf'. split; [exact F1|]. split; [exact F2|]. split; [rewrite F3; exact E2|exact F4].
  Qed.
End TotalSuper.

(* ===== Part E: the aliased blitter over k pixel rows (only the first sample row of a pixel row paints) ===== *)
Section TotalMask.
  Variable rule : winding_rule.
  Variable w4 : Z.
  Variable starts : list (Z * aedge).
  Variables mx my w : Z.
  Hypothesis Hgood : starts_good starts.
  Hypothesis Hw : 0 <= w.
  Hypothesis Hmy : my mod 4 = 0.

  Theorem rows_total_mask k : forall py a buf,
    0 <= py -> ainv a ->
    (py + Z.of_nat k) * w <= zlen buf -> bytes_ok buf ->
    rows_guard (fun y => y mod 4 =? 0) rule w4 starts mx w (4 * k) (my + 4 * py) a = true ->
    exists a' buf',
      rows blit_mask rule (4 * k) w4 starts (my + 4 * py) a (mk_maskbuf mx my w buf) = Ok (a', mk_maskbuf mx my w buf') /\
      ainv a' /\ length buf' = length buf /\ bytes_ok buf'.
  Proof.
    induction k as [|k IH]; intros py a buf Hpy Ha Hlen Hbytes Hg.
    - exists a, buf. cbn [Nat.mul rows]. split; [reflexivity|]. split; [exact Ha|]. split; [reflexivity|exact Hbytes].
    - replace (4 * S k)%nat with (S (S (S (S (4 * k)))))%nat in * by lia.
      set (y := my + 4 * py) in *.
      destruct (rows_4_gen blit_mask rule w4 starts Hgood (4 * k) y a (mk_maskbuf mx my w buf) Ha) as [I4 Hrows].
      cbv zeta in I4, Hrows.
      set (a1 := next_active starts y a) in *.
      set (a2 := next_active starts (y + 1) a1) in *.
      set (a3 := next_active starts (y + 2) a2) in *.
      set (a4 := next_active starts (y + 3) a3) in *.
      cbn [rows_guard] in Hg. fold a1 in Hg.
      replace (y + 1 + 1) with (y + 2) in Hg by lia. fold a2 in Hg.
      replace (y + 2 + 1) with (y + 3) in Hg by lia. fold a3 in Hg.
      replace (y + 3 + 1) with (y + 4) in Hg by lia. fold a4 in Hg.
      apply andb_true_iff in Hg. destruct Hg as [G0 Hg].
      apply andb_true_iff in Hg. destruct Hg as [_ Hg].
      apply andb_true_iff in Hg. destruct Hg as [_ Hg].
      apply andb_true_iff in Hg. destruct Hg as [_ Hg].
      replace (y mod 4 =? 0) with true in G0 by (subst y; lia).
      pose proof (spans_inb_ok rule w4 mx w _ (proj1 (scanned_ainv starts Hgood y a Ha)) G0) as K0.
      destruct (spans_ok_rel _ _ _ K0) as (lo0 & Hlo0 & Hsorted & Hrel).
      assert (Hkpos: 0 <= Z.of_nat k) by lia.
      assert (Hlen0: py * w + w <= zlen buf).
      { clear - Hlen Hw Hkpos. nia. }
      destruct (blit_mask_pixel_row mx my w py buf
                  (scan_edges rule w4 (scanned starts y a))
                  (scan_edges rule w4 (scanned starts (y + 1) a1))
                  (scan_edges rule w4 (scanned starts (y + 2) a2))
                  (scan_edges rule w4 (scanned starts (y + 3) a3)) Hw Hpy Hlen0)
        as (buf1 & E1 & E2 & E3).
      { intros s Hs. destruct (Hrel s Hs). lia. }
      fold y in E1. rewrite Hrows, E1. cbn [bind].
      assert (Z1: zlen buf1 = zlen buf) by (unfold zlen; rewrite E2; reflexivity).
      assert (B1: bytes_ok buf1).
      { intros i Hi. rewrite (E3 i ltac:(lia)).
        destruct (painted _ _); [lia|]. apply Hbytes. rewrite <- Z1. exact Hi. }
      assert (Hlen': (py + 1 + Z.of_nat k) * w <= zlen buf1).
      { rewrite Z1. replace (py + 1 + Z.of_nat k) with (py + Z.of_nat (S k)) by lia. exact Hlen. }
      replace (y + 4) with (my + 4 * (py + 1)) in * by (subst y; lia).
      destruct (IH (py + 1) a4 buf1 ltac:(lia) I4 Hlen' B1 Hg) as (a' & buf' & F1 & F2 & F3 & F4).
      exists a', buf'. split; [exact F1|]. split; [exact F2|]. split; [rewrite F3; exact E2|exact F4].
  Qed.
End TotalMask.

(* ===== Part F: Rasterizer::rasterize ===== *)
(* The guard for a whole rasterize call on the buffer that DrawTarget::fill allocates for get_bounds:
   on every (selected) sample row every span starts inside [4*x0, 4*x1] of the bounds. *)
Definition raster_guard (sel : Z -> bool) (rule : winding_rule) (r : rast) : bool :=
  let b := get_bounds r in
  let start := Z.max (r_top r * 4) 0 in
  let end_ := Z.min (r_bottom r * 4) (r_h4 r) in
  rows_guard sel rule (r_w4 r) (r_starts r) (x0 b * 4) (r_w b) (Z.to_nat (end_ - start)) start (r_active r).

Lemma starts_good_no_err starts : starts_good starts -> existsb (fun p => e_err (snd p)) starts = false.
Proof.
  intros Hg. destruct (existsb (fun p => e_err (snd p)) starts) eqn:E; [|reflexivity].
  apply existsb_exists in E. destruct E as (p & Hp & He). destruct (Hg p Hp) as [H _]. congruence.
Qed.

Section RasterizeGen.
  Variable rule : winding_rule.
  Variable r : rast.
  Variable H : Z.
  Hypothesis Hst : starts_good (r_starts r).
  Hypothesis Hact : r_active r = [].
  Hypothesis Hh4 : r_h4 r = H * 4.

  Let b := get_bounds r.
  Let mx := x0 b * 4.
  Let my := y0 b * 4.
  Let bw := r_w b.
  Let bh := r_h b.

  Lemma rasterize_gen_setup : 0 <= bh ->
    my = Z.max (r_top r * 4) 0 /\ Z.to_nat (Z.min (r_bottom r * 4) (r_h4 r) - Z.max (r_top r * 4) 0) = (4 * Z.to_nat bh)%nat /\
    my mod 4 = 0.
  Proof.
    intros Hbh. subst my bh b. unfold get_bounds, r_h in *. cbn [y0 y1] in *.
    rewrite Hh4 in *. rewrite !dot2_to_int_eq in *. repeat split; lia.
  Qed.

  Theorem rasterize_total_gen :
    0 <= bw -> 0 <= bh -> raster_guard (fun _ => true) rule r = true ->
    exists r' m', rasterize blit_super rule r (maskbuf_new (x0 b) (y0 b) bw bh) = Ok (r', m') /\
      length (m_buf m') = Z.to_nat (bw * bh + 1) /\ bytes_ok (m_buf m').
  Proof.
    intros Hbw Hbh Hg. destruct (rasterize_gen_setup Hbh) as (Emy & En & _).
    unfold raster_guard in Hg. cbv zeta in Hg. fold b mx bw in Hg. rewrite En, <- Emy, Hact in Hg.
    unfold rasterize, maskbuf_new. fold mx my. rewrite (starts_good_no_err _ Hst).
    rewrite En, <- Emy, Hact.
    assert (Hlenb: 0 <= bw * bh) by (apply Z.mul_nonneg_nonneg; assumption).
    pose proof (rows_total_super rule (r_w4 r) (r_starts r) mx my bw Hst Hbw (Z.to_nat bh) 0 []
                (repeat 0 (Z.to_nat (bw * bh + 1)))) as Hc.
    replace (my + 4 * 0) with my in Hc by lia.
    destruct Hc as (a' & buf' & C1 & C2 & C3 & C4).
    - lia.
    - apply ainv_nil.
    - unfold zlen. rewrite repeat_length. rewrite Z2Nat.id by exact Hbh. replace (0 + bh) with bh by lia.
      rewrite Z.mul_comm. lia.
    - apply bytes_ok_repeat0.
    - intros. apply zn_repeat0.
    - exact Hg.
    - rewrite C1. cbn [bind]. eexists. eexists. split; [reflexivity|]. cbn [m_buf].
      split; [rewrite C3; apply repeat_length|exact C4].
  Qed.

  Theorem rasterize_total_aliased_gen :
    0 <= bw -> 0 <= bh -> raster_guard (fun y => y mod 4 =? 0) rule r = true ->
    exists r' m', rasterize blit_mask rule r (maskbuf_new (x0 b) (y0 b) bw bh) = Ok (r', m') /\
      length (m_buf m') = Z.to_nat (bw * bh + 1) /\ bytes_ok (m_buf m').
  Proof.
    intros Hbw Hbh Hg. destruct (rasterize_gen_setup Hbh) as (Emy & En & Hmod).
    unfold raster_guard in Hg. cbv zeta in Hg. fold b mx bw in Hg. rewrite En, <- Emy, Hact in Hg.
    unfold rasterize, maskbuf_new. fold mx my. rewrite (starts_good_no_err _ Hst).
    rewrite En, <- Emy, Hact.
    assert (Hlenb: 0 <= bw * bh) by (apply Z.mul_nonneg_nonneg; assumption).
    pose proof (rows_total_mask rule (r_w4 r) (r_starts r) mx my bw Hst Hbw Hmod (Z.to_nat bh) 0 []
                (repeat 0 (Z.to_nat (bw * bh + 1)))) as Hc.
    replace (my + 4 * 0) with my in Hc by lia.
    destruct Hc as (a' & buf' & C1 & C2 & C3 & C4).
    - lia.
    - apply ainv_nil.
    - unfold zlen. rewrite repeat_length. rewrite Z2Nat.id by exact Hbh. replace (0 + bh) with bh by lia.
      rewrite Z.mul_comm. lia.
    - apply bytes_ok_repeat0.
    - exact Hg.
    - rewrite C1. cbn [bind]. eexists. eexists. split; [reflexivity|]. cbn [m_buf].
      split; [rewrite C3; apply repeat_length|exact C4].
  Qed.
End RasterizeGen.

(* what add_edge calls on a fresh rasteriser establish *)
Lemma fold_add_any_new W H es :
  let r := fold_left add_any es (rast_new W H) in
  starts_good (r_starts r) /\ r_h4 r = H * 4 /\ r_w4 r = W * 4 /\ r_active r = [].
Proof.
  apply (add_any_fold_good es (rast_new W H)). intros p [].
Qed.

(* TOTALITY (partial: under the guard).  For any edges whatsoever - straight or curve, any integer coordinates -
   rasterising into the buffer allocated for get_bounds succeeds, returns a buffer of the allocated size whose
   entries are bytes, PROVIDED every span of every sample row starts inside the horizontal bounds.
   The guard cannot be dropped: curve_overshoot_witness. *)
Theorem rasterize_total_partial rule W H es :
  0 <= W -> 0 <= H ->
  let r := fold_left add_any es (rast_new W H) in
  let b := get_bounds r in
  0 <= r_w b -> 0 <= r_h b ->
  raster_guard (fun _ => true) rule r = true ->
  exists r' m', rasterize blit_super rule r (maskbuf_new (x0 b) (y0 b) (r_w b) (r_h b)) = Ok (r', m') /\
    length (m_buf m') = Z.to_nat (r_w b * r_h b + 1) /\ bytes_ok (m_buf m').
Proof.
  intros HW HH r b Hbw Hbh Hg. destruct (fold_add_any_new W H es) as (S & Hh & _ & A). fold r in S, Hh, A.
  exact (rasterize_total_gen rule r H S A Hh Hbw Hbh Hg).
Qed.

(* the same with antialiasing off; only the first sample row of each pixel row matters *)
Theorem rasterize_total_aliased_partial rule W H es :
  0 <= W -> 0 <= H ->
  let r := fold_left add_any es (rast_new W H) in
  let b := get_bounds r in
  0 <= r_w b -> 0 <= r_h b ->
  raster_guard (fun y => y mod 4 =? 0) rule r = true ->
  exists r' m', rasterize blit_mask rule r (maskbuf_new (x0 b) (y0 b) (r_w b) (r_h b)) = Ok (r', m') /\
    length (m_buf m') = Z.to_nat (r_w b * r_h b + 1) /\ bytes_ok (m_buf m').
Proof.
  intros HW HH r b Hbw Hbh Hg. destruct (fold_add_any_new W H es) as (S & Hh & _ & A). fold r in S, Hh, A.
  exact (rasterize_total_aliased_gen rule r H S A Hh Hbw Hbh Hg).
Qed.

Print Assumptions rasterize_total_partial.
Print Assumptions rasterize_total_aliased_partial.

(* when the recorded bounds cover the whole surface width the guard holds whatever the edges do *)
Lemma rows_guard_full_width sel rule w4 starts w n : starts_good starts -> 0 <= w4 -> w4 = w * 4 ->
  forall y a, ainv a -> rows_guard sel rule w4 starts 0 w n y a = true.
Proof.
  intros Hg Hw4 Heq. induction n as [|k IH]; intros y a Ha; cbn [rows_guard]; [reflexivity|].
  apply andb_true_iff. split; [|apply IH; apply next_ainv; assumption].
  destruct (sel y); [|reflexivity].
  apply spans_inb_full_width; [apply (scanned_ainv starts Hg y a Ha)|exact Hw4|exact Heq].
Qed.

Theorem rasterize_total_full_width rule W H es :
  0 <= W -> 0 <= H ->
  let r := fold_left add_any es (rast_new W H) in
  let b := get_bounds r in
  r_left r <= 0 -> W <= r_right r -> 0 <= r_h b ->
  (exists r' m', rasterize blit_super rule r (maskbuf_new (x0 b) (y0 b) (r_w b) (r_h b)) = Ok (r', m') /\
    length (m_buf m') = Z.to_nat (r_w b * r_h b + 1) /\ bytes_ok (m_buf m')) /\
  (exists r' m', rasterize blit_mask rule r (maskbuf_new (x0 b) (y0 b) (r_w b) (r_h b)) = Ok (r', m') /\
    length (m_buf m') = Z.to_nat (r_w b * r_h b + 1) /\ bytes_ok (m_buf m')).
Proof.
  intros HW HH r b Hl Hr Hbh. destruct (fold_add_any_new W H es) as (S & Hh & Hw & A). fold r in S, Hh, Hw, A.
  assert (E0 : x0 b * 4 = 0) by (subst b; unfold get_bounds; cbn [x0]; lia).
  assert (Ew : r_w b = W).
  { subst b. unfold get_bounds, r_w. cbn [x0 x1]. rewrite Hw, dot2_to_int_eq. lia. }
  assert (G : forall sel, raster_guard sel rule r = true).
  { intros sel. unfold raster_guard. cbv zeta. fold b. rewrite E0, Ew, A.
    apply rows_guard_full_width; [exact S|lia|lia|apply ainv_nil]. }
  split.
  - apply (rasterize_total_gen rule r H S A Hh); [fold b; lia|exact Hbh|apply G].
  - apply (rasterize_total_aliased_gen rule r H S A Hh); [fold b; lia|exact Hbh|apply G].
Qed.
Print Assumptions rasterize_total_full_width.

(* ===== Part G: after any adds (+ rasterize) reset leaves the rasteriser idle ===== *)
Lemma fold_add_any_rinv es : forall r0, 0 < r_h4 r0 -> rinv r0 ->
  rinv (fold_left add_any es r0) /\ r_h4 (fold_left add_any es r0) = r_h4 r0.
Proof.
  induction es as [|a t IH]; intros r0 Hh Hr; cbn [fold_left]; [split; [exact Hr|reflexivity]|].
  destruct a as [[[[[[[swap sx] sy] ex] ey] curve] cx] cy]. cbn [add_any].
  destruct (add_edge_rinv r0 swap sx sy ex ey curve cx cy Hh Hr) as (R1 & R2 & _).
  destruct (IH _ ltac:(rewrite R2; exact Hh) R1) as (I1 & I2). split; [exact I1|congruence].
Qed.

Theorem adds_rasterize_reset_idle blit rule r0 es m r' m' :
  0 < r_h4 r0 -> rast_idle r0 = true ->
  rasterize blit rule (fold_left add_any es r0) m = Ok (r', m') ->
  rast_idle (reset r') = true.
Proof.
  intros Hh Hi E. destruct (fold_add_any_rinv es r0 Hh (idle_rinv r0 Hi)) as [R _].
  exact (reset_after_rasterize_idle blit rule _ m r' m' R E).
Qed.

Theorem adds_reset_idle r0 es :
  0 < r_h4 r0 -> rast_idle r0 = true -> rast_idle (reset (fold_left add_any es r0)) = true.
Proof.
  intros Hh Hi. destruct (fold_add_any_rinv es r0 Hh (idle_rinv r0 Hi)) as [R _]. apply reset_idle. exact R.
Qed.

(* for a fresh rasteriser of positive height *)
Corollary new_adds_reset_idle W H es : 0 < H -> rast_idle (reset (fold_left add_any es (rast_new W H))) = true.
Proof. intros HH. apply adds_reset_idle; [cbn; lia|apply rast_new_idle]. Qed.

(* 0 < r_h4 is needed: on a surface of height 0 an edge that starts above it is filed under row 0, which reset
   never clears (DrawTarget::apply_path returns early when height = 0, so the crate never gets there) *)
Example height0_not_idle :
  let r := fold_left add_any [(false, 0, -4, 0, 5, false, 0, 0)] (rast_new 4 0) in
  rast_idle (reset r) = false /\
  exists r' m', rasterize blit_super NonZero r (maskbuf_new 0 0 0 0) = Ok (r', m') /\ rast_idle (reset r') = false.
Proof. vm_compute. split; [reflexivity|]. eexists. eexists. split; reflexivity. Qed.

Print Assumptions adds_rasterize_reset_idle.
Print Assumptions adds_reset_idle.

(* ===== Part H: curve edges: closed form of the forward differencing and distance from the Bezier curve ===== *)
(* sum_{i<k} ((d + i*dd) >> s) *)
Fixpoint fd_sum (k : nat) (d dd s : Z) : Z :=
  match k with O => 0 | S j => fd_sum j d dd s + Z.shiftr (d + Z.of_nat j * dd) s end.

Lemma fd_sum_head j : forall d dd s, fd_sum (S j) d dd s = Z.shiftr d s + fd_sum j (d + dd) dd s.
Proof.
  induction j as [|j IH]; intros d dd s.
  - cbn [fd_sum]. replace (d + Z.of_nat 0 * dd) with d by lia. lia.
  - change (fd_sum (S (S j)) d dd s) with (fd_sum (S j) d dd s + Z.shiftr (d + Z.of_nat (S j) * dd) s).
    rewrite IH. cbn [fd_sum]. replace (d + dd + Z.of_nat j * dd) with (d + Z.of_nat (S j) * dd) by lia. lia.
Qed.

(* j forward-difference steps *)
Lemma iter_curve_next j : forall e,
  let e' := Nat.iter j curve_next e in
  e_nextx e' = e_nextx e + fd_sum j (e_dx e) (e_ddx e) (e_shift e) /\
  e_nexty e' = e_nexty e + fd_sum j (e_dy e) (e_ddy e) (e_shift e) /\
  e_dx e' = e_dx e + Z.of_nat j * e_ddx e /\ e_dy e' = e_dy e + Z.of_nat j * e_ddy e /\
  e_ddx e' = e_ddx e /\ e_ddy e' = e_ddy e /\ e_shift e' = e_shift e /\ e_count e' = e_count e - Z.of_nat j /\
  e_x2 e' = e_x2 e /\ e_y2 e' = e_y2 e /\ e_slope e' = e_slope e /\ e_fullx e' = e_fullx e /\
  e_oldx e' = e_oldx e /\ e_oldy e' = e_oldy e /\ e_wind e' = e_wind e /\ e_err e' = e_err e.
Proof.
  induction j as [|j IH]; intros e; cbv zeta.
  - change (Nat.iter 0 curve_next e) with e. cbn [fd_sum]. change (Z.of_nat 0) with 0. repeat split; try reflexivity; lia.
  - specialize (IH e). cbv zeta in IH.
    destruct IH as (I1 & I2 & I3 & I4 & I5 & I6 & I7 & I8 & I9 & I10 & I11 & I12 & I13 & I14 & I15 & I16).
    change (Nat.iter (S j) curve_next e) with (curve_next (Nat.iter j curve_next e)). set (ej := Nat.iter j curve_next e) in *.
    unfold curve_next at 1 2 3 4 5 6 7 8 9 10 11 12 13 14 15 16.
    cbn [e_nextx e_nexty e_dx e_dy e_ddx e_ddy e_shift e_count e_x2 e_y2 e_slope e_fullx e_oldx e_oldy e_wind e_err fd_sum].
    rewrite I1, I2, I3, I4, I5, I6, I7, I8. repeat split; try assumption; lia.
Qed.

Lemma iter_succ_r' {A} (f : A -> A) n x : Nat.iter (S n) f x = Nat.iter n f (f x).
Proof.
  induction n as [|n IH]; [reflexivity|].
  change (Nat.iter (S (S n)) f x) with (f (Nat.iter (S n) f x)). rewrite IH. reflexivity.
Qed.

(* curve_advance is a number of forward-difference steps, at most the number of remaining segments *)
Lemma curve_advance_iter fuel : forall cury e, 0 <= e_count e ->
  exists j, (j <= fuel)%nat /\ Z.of_nat j <= e_count e /\ curve_advance fuel cury e = Nat.iter j curve_next e.
Proof.
  induction fuel as [|k IH]; intros cury e Hc; cbn [curve_advance].
  - exists 0%nat. repeat split; [lia|lia].
  - destruct ((0 <? e_count e) && (dot16_to_dot2 (e_nexty e) <=? cury)) eqn:E.
    + destruct (IH cury (curve_next e)) as (j & J1 & J2 & J3); [cbn [curve_next e_count]; lia|].
      exists (S j). cbn [curve_next e_count] in J2. split; [lia|]. split; [lia|].
      rewrite J3. symmetry. apply iter_succ_r'.
    + exists 0%nat. repeat split; [lia|lia].
Qed.

(* the quantities add_edge computes for a curve edge *)
Definition curve_shift (x1 y1 x2 y2 cx cy : Z) : Z :=
  let s0 := diff_to_shift ((cx * 2 - x1 - x2) * 16) ((cy * 2 - y1 - y2) * 16) in
  if s0 =? 0 then 1 else if 6 <? s0 then 6 else s0.
Definition fd_d0 (p1 p2 c s : Z) : Z := 2 * Z.shiftr ((p1 - c - c + p2) * 8192) s + 2 * (c - p1) * 16384.
Definition fd_dd (p1 p2 c s : Z) : Z := 2 * Z.shiftr ((p1 - c - c + p2) * 8192) (s - 1).
(* the k-th point of the polyline (k = 0 .. 2^s), one coordinate, in dot16 = 2^-14 dot2 = 2^-16 pixel *)
Definition fd_point (p1 p2 c s : Z) (k : nat) : Z := p1 * 16384 + fd_sum k (fd_d0 p1 p2 c s) (fd_dd p1 p2 c s) s.

(* the edge record add_edge builds for a curve before it looks for the first segment that crosses row y1 + 1:
   one segment has been taken *)
Definition curve_edge0 (x1 y1 x2 y2 cx cy w : Z) : aedge :=
  let s := curve_shift x1 y1 x2 y2 cx cy in
  let dx := fd_d0 x1 x2 cx s in let ddx := fd_dd x1 x2 cx s in
  let dy := fd_d0 y1 y2 cy s in let ddy := fd_dd y1 y2 cy s in
  mk_aedge x2 y2 0 (dot2_to_dot16 x1) (dot2_to_dot16 x1 + Z.shiftr dx s) (y1 * 16384 + Z.shiftr dy s)
    (dx + ddx) ddx (dy + ddy) ddy 0 0 s (Z.shiftl 1 s - 1) w false.
(* ... and the edge it files (before pre-stepping the rows above the surface) *)
Definition curve_edge_init (x1 y1 x2 y2 cx cy w : Z) : aedge :=
  let e := set_next_to_end (curve_advance 64 y1 (curve_edge0 x1 y1 x2 y2 cx cy w)) in
  let den := dot16_to_dot2 (e_nexty e - dot2_to_dot16 y1) in
  mk_aedge x2 y2 (Z.quot (e_nextx e - dot2_to_dot16 x1) den) (dot2_to_dot16 x1) (e_nextx e) (e_nexty e)
    (e_dx e) (e_ddx e) (e_dy e) (e_ddy e) 0 0 (curve_shift x1 y1 x2 y2 cx cy) (e_count e) w (den =? 0).

(* add_edge on a curve edge in terms of these *)
Theorem add_edge_curve r swap sx sy ex ey cx cy :
  add_edge r swap sx sy ex ey true cx cy =
    let '(x1, y1, x2, y2, w) := if swap then (ex, ey, sx, sy, -1) else (sx, sy, ex, ey, 1) in
    if (y2 <? 0) || (r_h4 r <=? y1) then r else
    if y2 <=? y1 then r else
    let e0 := curve_edge_init x1 y1 x2 y2 cx cy w in
    let '(e, cury) := if y1 <? 0 then prestep_fast 200 e0 y1 else (e0, y1) in
    let r' := mk_rast (r_w4 r) (r_h4 r)
      (Z.min (r_top r) (dot2_to_int y1)) (Z.max (r_bottom r) (dot2_to_int (y2 + 3)))
      (Z.min (Z.min (Z.min (r_left r) (dot2_to_int x1)) (dot2_to_int x2)) (dot2_to_int cx))
      (Z.max (Z.max (Z.max (r_right r) (dot2_to_int (x1 + 3))) (dot2_to_int (x2 + 3))) (dot2_to_int (cx + 3))) in
    if (y1 <? 0) && (y2 <=? cury) && negb (e_err e) then r' (r_starts r) (r_active r)
    else r' ((cury, e) :: r_starts r) (r_active r).
Proof. unfold add_edge. destruct swap; reflexivity. Qed.

Lemma curve_shift_range x1 y1 x2 y2 cx cy : 1 <= curve_shift x1 y1 x2 y2 cx cy <= 6.
Proof. apply shift_range. Qed.

(* CLOSED FORM: after j further forward-difference steps the edge built by add_edge stands at point j + 1 of the
   polyline  P_k = (x1, y1) * 2^14 + sum_{i<k} ((d0 + i*dd) >> s)  and has 2^s - 1 - j segments left. *)
Theorem curve_points_closed_form x1 y1 x2 y2 cx cy w j :
  let s := curve_shift x1 y1 x2 y2 cx cy in
  let e := Nat.iter j curve_next (curve_edge0 x1 y1 x2 y2 cx cy w) in
  e_nextx e = fd_point x1 x2 cx s (S j) /\ e_nexty e = fd_point y1 y2 cy s (S j) /\
  e_count e = 2 ^ s - 1 - Z.of_nat j /\ e_shift e = s /\
  e_dx e = fd_d0 x1 x2 cx s + Z.of_nat (S j) * fd_dd x1 x2 cx s /\ e_ddx e = fd_dd x1 x2 cx s /\
  e_dy e = fd_d0 y1 y2 cy s + Z.of_nat (S j) * fd_dd y1 y2 cy s /\ e_ddy e = fd_dd y1 y2 cy s /\
  e_x2 e = x2 /\ e_y2 e = y2.
Proof.
  intros s e. pose proof (curve_shift_range x1 y1 x2 y2 cx cy) as Hs. fold s in Hs.
  pose proof (iter_curve_next j (curve_edge0 x1 y1 x2 y2 cx cy w)) as H. cbv zeta in H. fold e in H.
  destruct H as (I1 & I2 & I3 & I4 & I5 & I6 & I7 & I8 & I9 & I10 & _).
  unfold curve_edge0 in I1, I2, I3, I4, I5, I6, I7, I8, I9, I10. fold s in I1, I2, I3, I4, I5, I6, I7, I8, I9, I10.
  cbn [e_nextx e_nexty e_dx e_dy e_ddx e_ddy e_shift e_count e_x2 e_y2] in I1, I2, I3, I4, I5, I6, I7, I8, I9, I10.
  unfold fd_point. rewrite !fd_sum_head. unfold dot2_to_dot16 in *.
  rewrite Z.shiftl_mul_pow2 in I8 by lia.
  repeat split; try assumption; try lia.
Qed.

(* the last segment ends exactly at the end point *)
Lemma set_next_to_end_exact e : e_count e = 0 ->
  e_nextx (set_next_to_end e) = e_x2 e * 16384 /\ e_nexty (set_next_to_end e) = e_y2 e * 16384.
Proof. intros H. unfold set_next_to_end. rewrite H. cbn. split; reflexivity. Qed.

Lemma set_next_to_end_id e : e_count e <> 0 -> set_next_to_end e = e.
Proof. intros H. unfold set_next_to_end. destruct (e_count e =? 0) eqn:E; [lia|reflexivity]. Qed.

(* ---- distance from the exact Bezier point ---- *)
Lemma fd_term_arith n h A a1 a2 Bq i m : 0 < h -> n = 2 * h ->
  n * a1 <= A < n * a1 + n -> h * a2 <= A < h * a2 + h -> 0 <= i ->
  n * m <= 2 * a1 + 2 * Bq * 16384 + i * (2 * a2) < n * m + n ->
  0 <= (2 * Bq * n * 16384 + 2 * A + 4 * A * i) - n * n * m <= 2 * n + 2 * n * i + n * n.
Proof.
  intros Hh Hn H1 H2 Hi Hm.
  set (E := 2 * a1 + 2 * Bq * 16384 + i * (2 * a2)) in *.
  assert (HnE : n * E = 2 * (n * a1) + 2 * Bq * n * 16384 + 4 * (i * (h * a2))) by (subst E n; ring).
  assert (U1 : i * (h * a2) <= i * A) by (apply Z.mul_le_mono_nonneg_l; lia).
  assert (L1 : i * (A - h) <= i * (h * a2)) by (apply Z.mul_le_mono_nonneg_l; lia).
  assert (Q1 : n * (n * m) <= n * E) by (apply Z.mul_le_mono_nonneg_l; lia).
  assert (Q2 : n * E <= n * (n * m + n - 1)) by (apply Z.mul_le_mono_nonneg_l; lia).
  replace (n * n * m) with (n * (n * m)) by ring.
  replace (n * (n * m + n - 1)) with (n * (n * m) + n * n - n) in Q2 by ring.
  replace (i * (A - h)) with (i * A - i * h) in L1 by ring.
  replace (4 * A * i) with (4 * (i * A)) by ring.
  replace (2 * n * i) with (4 * (i * h)) by (subst n; ring).
  lia.
Qed.

Lemma div_pow2_bounds a s : 0 <= s -> 2 ^ s * Z.shiftr a s <= a < 2 ^ s * Z.shiftr a s + 2 ^ s.
Proof.
  intros Hs. rewrite Z.shiftr_div_pow2 by exact Hs. assert (0 < 2 ^ s) by (apply Z.pow_pos_nonneg; lia).
  pose proof (Z.mul_div_le a (2 ^ s) H). pose proof (Z.mul_succ_div_gt a (2 ^ s) H). lia.
Qed.

Lemma fd_term_bound A Bq s i : 1 <= s -> 0 <= i ->
  let n := 2 ^ s in
  let d0 := 2 * Z.shiftr A s + 2 * Bq * 16384 in
  let dd := 2 * Z.shiftr A (s - 1) in
  let m := Z.shiftr (d0 + i * dd) s in
  0 <= (2 * Bq * n * 16384 + 2 * A + 4 * A * i) - n * n * m <= 2 * n + 2 * n * i + n * n.
Proof.
  intros Hs Hi n d0 dd m.
  assert (Hn : n = 2 * 2 ^ (s - 1)).
  { subst n. replace s with (Z.succ (s - 1)) at 1 by lia. rewrite Z.pow_succ_r by lia. reflexivity. }
  assert (Hh : 0 < 2 ^ (s - 1)) by (apply Z.pow_pos_nonneg; lia).
  apply (fd_term_arith n (2 ^ (s - 1)) A (Z.shiftr A s) (Z.shiftr A (s - 1)) Bq i m Hh Hn).
  - apply div_pow2_bounds. lia.
  - apply div_pow2_bounds. lia.
  - exact Hi.
  - subst m d0 dd. apply div_pow2_bounds. lia.
Qed.

Lemma fd_sum_bound A Bq s k : 1 <= s ->
  let n := 2 ^ s in
  let d0 := 2 * Z.shiftr A s + 2 * Bq * 16384 in
  let dd := 2 * Z.shiftr A (s - 1) in
  let K := Z.of_nat k in
  0 <= K * (2 * A + 2 * Bq * n * 16384) + 2 * A * K * (K - 1) - n * n * fd_sum k d0 dd s <= n * n * K + n * K * (K + 1).
Proof.
  intros Hs n d0 dd. induction k as [|j IH]; cbv zeta.
  - cbn [fd_sum]. change (Z.of_nat 0) with 0. lia.
  - cbv zeta in IH. cbn [fd_sum]. set (J := Z.of_nat j) in *. replace (Z.of_nat (S j)) with (J + 1) by lia.
    pose proof (fd_term_bound A Bq s J Hs ltac:(lia)) as T. cbv zeta in T. fold n d0 dd in T.
    set (m := Z.shiftr (d0 + J * dd) s) in *. set (S0 := fd_sum j d0 dd s) in *.
    replace ((J + 1) * (2 * A + 2 * Bq * n * 16384) + 2 * A * (J + 1) * (J + 1 - 1) - n * n * (S0 + m))
      with ((J * (2 * A + 2 * Bq * n * 16384) + 2 * A * J * (J - 1) - n * n * S0) +
            (2 * Bq * n * 16384 + 2 * A + 4 * A * J - n * n * m)) by ring.
    replace (n * n * (J + 1) + n * (J + 1) * (J + 1 + 1))
      with ((n * n * J + n * J * (J + 1)) + (2 * n + 2 * n * J + n * n)) by ring.
    lia.
Qed.

(* n^2 * B(k/n) for the quadratic Bezier with control values p1, c, p2 *)
Definition bez_num (p1 c p2 n k : Z) : Z := (n - k) * (n - k) * p1 + 2 * k * (n - k) * c + k * k * p2.

(* ERROR BOUND.  Units: dot16 = 2^-14 dot2 = 2^-16 pixel.  With n = 2^s segments, the k-th forward-difference point
   P_k never lies above the exact Bezier point B(k/n) and at most k + k(k+1)/n <= 2k + 1 <= 129 units below it:
       n^2 P_k <= 2^14 n^2 B(k/n) <= n^2 P_k + n^2 k + n k (k+1). *)
Theorem curve_point_error p1 p2 c s k : 1 <= s ->
  let n := 2 ^ s in let K := Z.of_nat k in
  0 <= 16384 * bez_num p1 c p2 n K - n * n * fd_point p1 p2 c s k <= n * n * K + n * K * (K + 1).
Proof.
  intros Hs n K. unfold fd_point, fd_d0, fd_dd.
  pose proof (fd_sum_bound ((p1 - c - c + p2) * 8192) (c - p1) s k Hs) as H. cbv zeta in H. fold n K in H.
  set (S0 := fd_sum k _ _ s) in *.
  replace (16384 * bez_num p1 c p2 n K - n * n * (p1 * 16384 + S0))
    with (K * (2 * ((p1 - c - c + p2) * 8192) + 2 * (c - p1) * n * 16384) +
          2 * ((p1 - c - c + p2) * 8192) * K * (K - 1) - n * n * S0) by (unfold bez_num; ring).
  exact H.
Qed.

(* the Bezier point is a convex combination of the control values *)
Lemma bez_num_hull p1 c p2 n k lo hi : 0 <= k <= n -> lo <= p1 <= hi -> lo <= c <= hi -> lo <= p2 <= hi ->
  n * n * lo <= bez_num p1 c p2 n k <= n * n * hi.
Proof.
  intros Hk H1 Hc H2. unfold bez_num.
  assert (W1 : 0 <= (n - k) * (n - k)) by (apply Z.mul_nonneg_nonneg; lia).
  assert (W2 : 0 <= 2 * k * (n - k)) by (apply Z.mul_nonneg_nonneg; lia).
  assert (W3 : 0 <= k * k) by (apply Z.mul_nonneg_nonneg; lia).
  assert (Hsum : n * n = (n - k) * (n - k) + 2 * k * (n - k) + k * k) by ring.
  set (w1 := (n - k) * (n - k)) in *. set (w2 := 2 * k * (n - k)) in *. set (w3 := k * k) in *.
  rewrite Hsum. rewrite !Z.mul_add_distr_r.
  assert (w1 * lo <= w1 * p1 <= w1 * hi) by (split; apply Z.mul_le_mono_nonneg_l; lia).
  assert (w2 * lo <= w2 * c <= w2 * hi) by (split; apply Z.mul_le_mono_nonneg_l; lia).
  assert (w3 * lo <= w3 * p2 <= w3 * hi) by (split; apply Z.mul_le_mono_nonneg_l; lia).
  lia.
Qed.

(* HULL BOUND: every forward-difference point is inside the hull of the control values, up to 2k+1 units below *)
Theorem fd_point_hull p1 p2 c s k lo hi : 1 <= s -> Z.of_nat k <= 2 ^ s ->
  lo <= p1 <= hi -> lo <= c <= hi -> lo <= p2 <= hi ->
  lo * 16384 - (2 * Z.of_nat k + 1) <= fd_point p1 p2 c s k <= hi * 16384.
Proof.
  intros Hs Hk H1 Hc H2.
  pose proof (curve_point_error p1 p2 c s k Hs) as E. cbv zeta in E.
  set (n := 2 ^ s) in *. set (K := Z.of_nat k) in *. set (P := fd_point p1 p2 c s k) in *.
  assert (Hn : 0 < n) by (apply Z.pow_pos_nonneg; lia).
  assert (HK : 0 <= K) by (subst K; lia).
  pose proof (bez_num_hull p1 c p2 n K lo hi ltac:(lia) H1 Hc H2) as Hh.
  assert (Hnn : 0 < n * n) by (apply Z.mul_pos_pos; lia).
  assert (Hx : n * K * (K + 1) <= n * n * (K + 1)).
  { replace (n * K * (K + 1)) with (K * (n * (K + 1))) by ring. replace (n * n * (K + 1)) with (n * (n * (K + 1))) by ring.
    apply Z.mul_le_mono_nonneg_r; [apply Z.mul_nonneg_nonneg; lia|lia]. }
  split.
  - apply (Zmult_le_reg_r _ _ (n * n)); [lia|].
    replace ((lo * 16384 - (2 * K + 1)) * (n * n)) with (16384 * (n * n * lo) - n * n * K - n * n * (K + 1)) by ring.
    replace (P * (n * n)) with (n * n * P) by ring. lia.
  - apply (Zmult_le_reg_r _ _ (n * n)); [lia|].
    replace (hi * 16384 * (n * n)) with (16384 * (n * n * hi)) by ring.
    replace (P * (n * n)) with (n * n * P) by ring. lia.
Qed.
Print Assumptions curve_points_closed_form.
Print Assumptions curve_point_error.
Print Assumptions fd_point_hull.

(* ===== Part I: every filed edge is scanned on the rows [start, y2) exactly once (any edge kind) ===== *)
Definition entry_wf (p : Z * aedge) : Prop := egood (snd p) /\ fst p < e_y2 (snd p).
Definition starts_wf (starts : list (Z * aedge)) : Prop := forall p, In p starts -> entry_wf p.

Lemma starts_wf_good starts : starts_wf starts -> starts_good starts.
Proof. intros H p Hp. apply (H p Hp). Qed.

Lemma steps_good n : forall e y, egood e -> egood (steps n e y) /\ e_y2 (steps n e y) = e_y2 e.
Proof.
  induction n as [|k IH]; intros e y H; cbn [steps]; [split; [exact H|reflexivity]|].
  destruct H as [He Hc]. destruct (step_no_err e y Hc He) as (A & B & C & _).
  destruct (IH (step e y) (y + 1) (conj A B)) as [G1 G2]. split; [exact G1|congruence].
Qed.

Lemma steps_succ_r n : forall e y, steps (S n) e y = step (steps n e y) (y + Z.of_nat n).
Proof.
  induction n as [|k IH]; intros e y.
  - cbn [steps]. f_equal. lia.
  - change (steps (S (S k)) e y) with (steps (S k) (step e y) (y + 1)). rewrite IH. cbn [steps]. f_equal. lia.
Qed.

(* the filed edge (s, e) as it is when sample row y is scanned: stepped on rows s, s+1, ..., y-1 *)
Definition edge_at_gen (y : Z) (p : Z * aedge) : aedge := steps (Z.to_nat (y - fst p)) (snd p) (fst p).

Lemma edge_at_gen_start p : edge_at_gen (fst p) p = snd p.
Proof. unfold edge_at_gen. replace (fst p - fst p) with 0 by lia. reflexivity. Qed.

Lemma edge_at_gen_step y p : fst p <= y -> step (edge_at_gen y p) y = edge_at_gen (y + 1) p.
Proof.
  intros H. unfold edge_at_gen. replace (Z.to_nat (y + 1 - fst p)) with (S (Z.to_nat (y - fst p))) by lia.
  rewrite steps_succ_r. f_equal. lia.
Qed.

Lemma edge_at_gen_good y p : egood (snd p) -> egood (edge_at_gen y p) /\ e_y2 (edge_at_gen y p) = e_y2 (snd p).
Proof. intros H. apply steps_good. exact H. Qed.

Section LiveGen.
  Variable y0 : Z.
  Variable starts : list (Z * aedge).
  Hypothesis Hwf : starts_wf starts.

  (* the edges that cross sample row y (filed at or after the first row y0 of the loop), in the order of `starts` *)
  Definition live_gen (y : Z) : list aedge :=
    map (edge_at_gen y) (filter (fun p => (y0 <=? fst p) && (fst p <=? y) && (y <? e_y2 (snd p))) starts).
  Definition live_pre_gen (y : Z) : list aedge :=
    map (edge_at_gen y) (filter (fun p => (y0 <=? fst p) && (fst p <? y) && (y <? e_y2 (snd p))) starts).

  Lemma live_gen_In y e : In e (live_gen y) ->
    exists p, In p starts /\ e = edge_at_gen y p /\ y0 <= fst p <= y /\ y < e_y2 (snd p).
  Proof.
    unfold live_gen. intros H. apply in_map_iff in H. destruct H as (p & <- & Hp).
    apply filter_In in Hp. destruct Hp as [Hp Hc]. exists p. split; [exact Hp|]. split; [reflexivity|]. lia.
  Qed.

  Lemma live_split_gen y : y0 <= y -> Permutation (new_edges starts y ++ live_pre_gen y) (live_gen y).
  Proof.
    intros Hy. unfold new_edges, live_pre_gen, live_gen. revert Hwf.
    induction starts as [|p t IH]; intros Hw; cbn [filter map app]; [constructor|].
    assert (Hw': starts_wf t) by (intros q Hq; apply Hw; right; exact Hq).
    specialize (IH Hw').
    destruct (Hw p (or_introl eq_refl)) as (_ & Hlt).
    destruct (fst p =? y) eqn:E1.
    - replace ((y0 <=? fst p) && (fst p <? y) && (y <? e_y2 (snd p))) with false by lia.
      replace ((y0 <=? fst p) && (fst p <=? y) && (y <? e_y2 (snd p))) with true by lia.
      cbn [map app]. replace (edge_at_gen y p) with (snd p).
      + apply perm_skip. exact IH.
      + assert (y = fst p) by lia. subst y. symmetry. apply edge_at_gen_start.
    - destruct ((y0 <=? fst p) && (fst p <? y) && (y <? e_y2 (snd p))) eqn:E2.
      + replace ((y0 <=? fst p) && (fst p <=? y) && (y <? e_y2 (snd p))) with true by lia.
        cbn [map]. eapply perm_trans; [apply Permutation_sym, Permutation_middle|].
        apply perm_skip. exact IH.
      + replace ((y0 <=? fst p) && (fst p <=? y) && (y <? e_y2 (snd p))) with false by lia.
        exact IH.
  Qed.

  Lemma live_step_gen y :
    filter (fun e => negb (e_y2 e <=? y + 1)) (map (fun e => step e y) (live_gen y)) = live_pre_gen (y + 1).
  Proof.
    unfold live_gen, live_pre_gen. rewrite map_map. rewrite filter_map_comm. rewrite filter_filter.
    revert Hwf. induction starts as [|p t IH]; intros Hw; cbn [filter map]; [reflexivity|].
    assert (Hw': starts_wf t) by (intros q Hq; apply Hw; right; exact Hq).
    specialize (IH Hw').
    destruct (Hw p (or_introl eq_refl)) as (Hg & _).
    destruct ((y0 <=? fst p) && (fst p <=? y) && (y <? e_y2 (snd p))) eqn:E1.
    - assert (Hst: step (edge_at_gen y p) y = edge_at_gen (y + 1) p) by (apply edge_at_gen_step; lia).
      destruct (edge_at_gen_good (y + 1) p Hg) as [_ Hy2].
      rewrite Hst, Hy2. cbn [andb].
      destruct (negb (e_y2 (snd p) <=? y + 1)) eqn:E2.
      + replace ((y0 <=? fst p) && (fst p <? y + 1) && (y + 1 <? e_y2 (snd p))) with true by lia.
        cbn [map]. rewrite IH, Hst. reflexivity.
      + replace ((y0 <=? fst p) && (fst p <? y + 1) && (y + 1 <? e_y2 (snd p))) with false by lia.
        exact IH.
    - cbn [andb]. replace ((y0 <=? fst p) && (fst p <? y + 1) && (y + 1 <? e_y2 (snd p))) with false by lia.
      exact IH.
  Qed.

  (* loop invariant: the active list is sorted and consists of the edges filed on earlier rows that still cross row y *)
  Definition rows_inv_gen (y : Z) (a : list aedge) : Prop := sorted a /\ Permutation a (live_pre_gen y).

  Lemma rows_inv_gen_ainv y a : rows_inv_gen y a -> ainv a.
  Proof.
    intros [Hs Hp]. split; [exact Hs|]. intros e He. apply (Permutation_in _ Hp) in He.
    unfold live_pre_gen in He. apply in_map_iff in He. destruct He as (p & <- & Hp').
    apply filter_In in Hp'. apply edge_at_gen_good. apply (Hwf p). apply Hp'.
  Qed.

  Lemma scanned_inv_gen y a : y0 <= y -> rows_inv_gen y a ->
    sorted (scanned starts y a) /\ Permutation (scanned starts y a) (live_gen y).
  Proof.
    intros Hy [Hs Hp]. unfold scanned. split; [apply insert_starting_sorted; exact Hs|].
    eapply perm_trans; [apply Permutation_sym, insert_starting_perm|].
    eapply perm_trans; [apply Permutation_app_head; exact Hp|].
    apply live_split_gen; assumption.
  Qed.

  Lemma next_active_inv_gen y a : y0 <= y -> rows_inv_gen y a -> rows_inv_gen (y + 1) (next_active starts y a).
  Proof.
    intros Hy Hinv. destruct (scanned_inv_gen y a Hy Hinv) as [Hs Hp].
    unfold rows_inv_gen, next_active. split; [apply sort_edges_sorted|].
    eapply perm_trans; [apply Permutation_sym, sort_edges_perm|].
    unfold step_edges. rewrite <- live_step_gen.
    apply Permutation_filter. apply Permutation_map. exact Hp.
  Qed.

  Lemma rows_inv_gen_init : rows_inv_gen y0 [].
  Proof.
    split; [constructor|]. unfold live_pre_gen.
    replace (filter (fun p => (y0 <=? fst p) && (fst p <? y0) && (y0 <? e_y2 (snd p))) starts) with (@nil (Z * aedge)).
    - constructor.
    - symmetry. clear Hwf. induction starts as [|p t IH]; cbn [filter]; [reflexivity|].
      replace ((y0 <=? fst p) && (fst p <? y0) && (y0 <? e_y2 (snd p))) with false by lia. exact IH.
  Qed.

  (* the active list after n rows, as a function of the edge lists only *)
  Fixpoint act_list (n : nat) (y : Z) (a : list aedge) : list aedge :=
    match n with O => a | S k => act_list k (y + 1) (next_active starts y a) end.

  (* ROW COVERAGE (item 4, generic part): at every row y0 + n of the loop the scanned list is, up to order, exactly
     the list of filed edges (s, e) with s <= y < y2, each one stepped y - s times: every edge is scanned on each
     sample row of [s, y2) exactly once, and on no other row. *)
  Theorem scanned_rows n : forall y a, y0 <= y -> rows_inv_gen y a ->
    rows_inv_gen (y + Z.of_nat n) (act_list n y a) /\
    Permutation (scanned starts (y + Z.of_nat n) (act_list n y a)) (live_gen (y + Z.of_nat n)).
  Proof.
    induction n as [|k IH]; intros y a Hy Hinv; cbn [act_list].
    - replace (y + Z.of_nat 0) with y by lia. split; [exact Hinv|apply scanned_inv_gen; assumption].
    - replace (y + Z.of_nat (S k)) with (y + 1 + Z.of_nat k) by lia.
      apply IH; [lia|apply next_active_inv_gen; assumption].
  Qed.

  (* ... and `rows` returns that active list *)
  Theorem rows_active blit rule w4 n : forall y a m a' m', ainv a ->
    rows blit rule n w4 starts y a m = Ok (a', m') -> a' = act_list n y a.
  Proof.
    induction n as [|k IH]; intros y a m a' m' Ha E.
    - cbn [rows] in E. inversion E. reflexivity.
    - rewrite (rows_step_gen blit rule w4 starts (starts_wf_good _ Hwf) k y a m Ha) in E.
      destruct (blit_spans blit m y (scan_edges rule w4 (scanned starts y a))) as [m1|]; cbn [bind] in E; [|discriminate].
      cbn [act_list]. apply (IH _ _ _ _ _ (next_ainv starts (starts_wf_good _ Hwf) y a Ha) E).
  Qed.

  (* every crossing in [lo, hi] => the span guard *)
  Definition entry_in_range (lo hi : Z) (p : Z * aedge) : Prop :=
    forall y, fst p <= y < e_y2 (snd p) -> lo <= rnd (e_fullx (edge_at_gen y p)) <= hi.

  Theorem rows_guard_of_range sel rule w4 mx w lo hi n :
    (forall p, In p starts -> y0 <= fst p -> entry_in_range lo hi p) ->
    0 <= w4 -> 0 <= mx + w * 4 -> mx <= Z.max lo 0 -> Z.min hi w4 <= mx + w * 4 ->
    forall y a, y0 <= y -> rows_inv_gen y a -> rows_guard sel rule w4 starts mx w n y a = true.
  Proof.
    intros Hr Hw4 Hmw Hlo Hhi. induction n as [|k IH]; intros y a Hy Hinv; cbn [rows_guard]; [reflexivity|].
    apply andb_true_iff. split; [|apply IH; [lia|apply next_active_inv_gen; assumption]].
    destruct (sel y); [|reflexivity].
    destruct (scanned_inv_gen y a Hy Hinv) as [Hs Hp].
    apply spans_inb_of_edges; [exact Hs|exact Hw4|exact Hmw|].
    intros e He. apply (Permutation_in _ Hp) in He.
    destruct (live_gen_In y e He) as (p & Hp' & -> & Hfy & Hy2).
    pose proof (Hr p Hp' ltac:(lia) y ltac:(lia)). lia.
  Qed.
End LiveGen.

(* ===== Part J: from per-edge crossing ranges to totality of rasterize ===== *)
Lemma entry_in_range_weaken lo hi lo' hi' p : lo' <= lo -> hi <= hi' -> entry_in_range lo hi p -> entry_in_range lo' hi' p.
Proof. intros H1 H2 H y Hy. specialize (H y Hy). lia. Qed.

(* ---- straight edges: always between their end points ---- *)
Definition line_entry_of (x1 y1 x2 y2 w : Z) : Z * aedge :=
  (Z.max y1 0, line_at (line_edge x1 y1 x2 y2 w) (Z.max y1 0 - y1)).

Lemma line_entry_wf x1 y1 x2 y2 w : Z.max y1 0 < y2 -> entry_wf (line_entry_of x1 y1 x2 y2 w).
Proof. intros H. split; [split; [reflexivity|unfold cinv; cbn; lia]|exact H]. Qed.

Lemma line_entry_in_range x1 y1 x2 y2 w lo hi : y1 < y2 -> lo <= x1 <= hi -> lo <= x2 <= hi ->
  entry_in_range lo hi (line_entry_of x1 y1 x2 y2 w).
Proof.
  intros Hy H1 H2 y Hyy. unfold line_entry_of in *. cbn [fst snd] in *.
  rewrite line_at_y2 in Hyy. cbn [line_edge e_y2] in Hyy.
  unfold edge_at_gen. cbn [fst snd]. rewrite steps_line by (rewrite line_at_shift; reflexivity).
  rewrite line_at_line_at. rewrite Z2Nat.id by lia.
  replace (Z.max y1 0 - y1 + (y - Z.max y1 0)) with (y - y1) by lia.
  rewrite line_edge_at_fullx.
  destruct (crossing_between x1 y1 x2 y2 Hy y ltac:(lia)) as [Hinc Hdec].
  destruct (Z_le_gt_dec x1 x2) as [Hle|Hgt].
  - destruct (Hinc Hle) as [Ha Hb].
    pose proof (rnd_mono _ _ Ha). pose proof (rnd_mono _ _ Hb). rewrite !rnd_dot16 in *. lia.
  - destruct (Hdec ltac:(lia)) as [Ha Hb].
    pose proof (rnd_mono _ _ Ha). pose proof (rnd_mono _ _ Hb). rewrite !rnd_dot16 in *. lia.
Qed.

(* ---- curve edges: what add_edge files ---- *)
Definition curve_entry (x1 y1 x2 y2 cx cy w : Z) : Z * aedge :=
  let e0 := curve_edge_init x1 y1 x2 y2 cx cy w in
  let '(e, cury) := if y1 <? 0 then prestep_fast 200 e0 y1 else (e0, y1) in (cury, e).

Lemma curve_edge0_count x1 y1 x2 y2 cx cy w : 0 <= e_count (curve_edge0 x1 y1 x2 y2 cx cy w) <= 63.
Proof.
  unfold curve_edge0. cbv zeta. cbn [e_count]. pose proof (curve_shift_range x1 y1 x2 y2 cx cy) as Hs.
  set (s := curve_shift x1 y1 x2 y2 cx cy) in *. rewrite Z.shiftl_mul_pow2 by lia.
  assert (2 ^ s <= 2 ^ 6) by (apply Z.pow_le_mono_r; lia).
  assert (0 < 2 ^ s) by (apply Z.pow_pos_nonneg; lia). change (2 ^ 6) with 64 in *. lia.
Qed.

Lemma curve_edge_init_props x1 y1 x2 y2 cx cy w : y1 < y2 ->
  egood (curve_edge_init x1 y1 x2 y2 cx cy w) /\ e_y2 (curve_edge_init x1 y1 x2 y2 cx cy w) = y2.
Proof.
  intros Hy. unfold curve_edge_init. cbv zeta.
  destruct (curve_setup_den y1 y2 (curve_edge0 x1 y1 x2 y2 cx cy w) Hy eq_refl (curve_edge0_count x1 y1 x2 y2 cx cy w)) as [Hden Hc].
  set (e := set_next_to_end (curve_advance 64 y1 (curve_edge0 x1 y1 x2 y2 cx cy w))) in *.
  set (den := dot16_to_dot2 (e_nexty e - dot2_to_dot16 y1)) in *.
  split; [|reflexivity]. split; [cbn [e_err]; apply Z.eqb_neq; clearbody den; lia|unfold cinv; cbn [e_count]; lia].
Qed.

Lemma curve_entry_props x1 y1 x2 y2 cx cy w : y1 < y2 ->
  let p := curve_entry x1 y1 x2 y2 cx cy w in
  egood (snd p) /\ e_y2 (snd p) = y2 /\ fst p = Z.max y1 0.
Proof.
  intros Hy. destruct (curve_edge_init_props x1 y1 x2 y2 cx cy w Hy) as [[He Hc] Hy2].
  unfold curve_entry. cbv zeta. set (e0 := curve_edge_init x1 y1 x2 y2 cx cy w) in *.
  destruct (y1 <? 0) eqn:E.
  - destruct (prestep_fast_spec 200 e0 y1 Hc He ltac:(lia)) as (P1 & P2 & P3).
    pose proof (prestep_fast_good 200 e0 y1 (conj He Hc)) as G.
    destruct (prestep_fast 200 e0 y1) as [e cury]. cbn [fst snd] in *.
    split; [exact G|]. split; [congruence|lia].
  - cbn [fst snd]. split; [split; assumption|]. split; [exact Hy2|lia].
Qed.

(* ---- one add_edge call ---- *)
Definition the_entry (curve : bool) (x1 y1 x2 y2 cx cy w : Z) : Z * aedge :=
  if curve then curve_entry x1 y1 x2 y2 cx cy w else line_entry_of x1 y1 x2 y2 w.
Definition hull_lo (curve : bool) (x1 x2 cx : Z) : Z := if curve then Z.min (Z.min x1 x2) cx else Z.min x1 x2.
Definition hull_hi (curve : bool) (x1 x2 cx : Z) : Z := if curve then Z.max (Z.max x1 x2) cx else Z.max x1 x2.

Lemma add_edge_cases r swap sx sy ex ey curve cx cy :
  let r' := add_edge r swap sx sy ex ey curve cx cy in
  let '(x1, y1, x2, y2, w) := if swap then (ex, ey, sx, sy, -1) else (sx, sy, ex, ey, 1) in
  r' = r \/
  (y1 < y2 /\ r_left r' <= r_left r /\ r_right r <= r_right r' /\
   4 * r_left r' <= 4 * (hull_lo curve x1 x2 cx / 4) /\ 4 * ((hull_hi curve x1 x2 cx + 3) / 4) <= 4 * r_right r' /\
   (r_starts r' = r_starts r \/
    (r_starts r' = the_entry curve x1 y1 x2 y2 cx cy w :: r_starts r /\ Z.max y1 0 < y2))).
Proof.
  cbv zeta. destruct curve.
  - rewrite add_edge_curve.
    destruct (if swap then (ex, ey, sx, sy, -1) else (sx, sy, ex, ey, 1)) as [[[[x1 y1] x2] y2] w].
    destruct ((y2 <? 0) || (r_h4 r <=? y1)) eqn:E1; [left; reflexivity|].
    destruct (y2 <=? y1) eqn:E2; [left; reflexivity|]. right.
    cbv zeta. unfold the_entry, hull_lo, hull_hi.
    pose proof (curve_entry_props x1 y1 x2 y2 cx cy w ltac:(lia)) as P. cbv zeta in P.
    unfold curve_entry in *. cbv zeta in *.
    destruct (if y1 <? 0 then prestep_fast 200 (curve_edge_init x1 y1 x2 y2 cx cy w) y1
              else (curve_edge_init x1 y1 x2 y2 cx cy w, y1)) as [e cury].
    cbn [fst snd] in P. destruct P as ([Pe _] & _ & Pc).
    rewrite !dot2_to_int_eq.
    destruct ((y1 <? 0) && (y2 <=? cury) && negb (e_err e)) eqn:E3; cbn [r_left r_right r_starts].
    + split; [lia|]. split; [lia|]. split; [lia|]. split; [lia|]. split; [lia|]. left. reflexivity.
    + split; [lia|]. split; [lia|]. split; [lia|]. split; [lia|]. split; [lia|]. right. split; [reflexivity|].
      rewrite Pe in E3. lia.
  - rewrite add_edge_line.
    destruct (if swap then (ex, ey, sx, sy, -1) else (sx, sy, ex, ey, 1)) as [[[[x1 y1] x2] y2] w].
    destruct ((y2 <? 0) || (r_h4 r <=? y1)) eqn:E1; [left; reflexivity|].
    destruct (y2 <=? y1) eqn:E2; [left; reflexivity|]. right.
    cbv zeta. unfold the_entry, hull_lo, hull_hi, line_entry_of.
    rewrite !dot2_to_int_eq. cbn [r_left r_right r_starts].
    split; [lia|]. split; [lia|]. split; [lia|]. split; [lia|]. split; [lia|].
    destruct (y2 <=? Z.max y1 0) eqn:E3; [left; reflexivity|right; split; [reflexivity|lia]].
Qed.

(* the static hypothesis on a curve edge: stepped alone from the row it is filed under, its rounded crossing stays
   inside the (pixel-aligned) hull of its three control points on every sample row before y2 *)
Definition curve_in_hull (x1 y1 x2 y2 cx cy w : Z) : Prop :=
  entry_in_range (4 * (Z.min (Z.min x1 x2) cx / 4)) (4 * ((Z.max (Z.max x1 x2) cx + 3) / 4))
    (curve_entry x1 y1 x2 y2 cx cy w).
Definition arg_ok (a : edge_args) : Prop :=
  let '(swap, sx, sy, ex, ey, curve, cx, cy) := a in
  curve = true ->
  let '(x1, y1, x2, y2, w) := if swap then (ex, ey, sx, sy, -1) else (sx, sy, ex, ey, 1) in
  y1 < y2 -> curve_in_hull x1 y1 x2 y2 cx cy w.

(* rasteriser invariant: every filed edge is well formed and keeps its crossings inside the recorded bounds *)
Definition rast_ok (r : rast) : Prop :=
  forall p, In p (r_starts r) -> entry_wf p /\ entry_in_range (4 * r_left r) (4 * r_right r) p.

Lemma add_any_rast_ok r a : rast_ok r -> arg_ok a -> rast_ok (add_any r a).
Proof.
  intros Hr Ha. destruct a as [[[[[[[swap sx] sy] ex] ey] curve] cx] cy]. cbn [add_any]. unfold arg_ok in Ha.
  pose proof (add_edge_cases r swap sx sy ex ey curve cx cy) as C. cbv zeta in C.
  destruct (if swap then (ex, ey, sx, sy, -1) else (sx, sy, ex, ey, 1)) as [[[[x1 y1] x2] y2] w].
  set (r' := add_edge r swap sx sy ex ey curve cx cy) in *.
  destruct C as [->|(Hy & Hl & Hrr & Hlo & Hhi & Hs)]; [exact Hr|].
  assert (Hold : forall p, In p (r_starts r) -> entry_wf p /\ entry_in_range (4 * r_left r') (4 * r_right r') p).
  { intros p Hp. destruct (Hr p Hp) as [W R]. split; [exact W|]. eapply entry_in_range_weaken; [| |exact R]; lia. }
  destruct Hs as [Hs|[Hs Hlt]]; intros p Hp; rewrite Hs in Hp; [apply Hold; exact Hp|].
  destruct Hp as [<-|Hp]; [|apply Hold; exact Hp].
  unfold the_entry, hull_lo, hull_hi in *. destruct curve.
  - pose proof (curve_entry_props x1 y1 x2 y2 cx cy w Hy) as P. cbv zeta in P. destruct P as (P1 & P2 & P3).
    split; [split; [exact P1|lia]|].
    eapply entry_in_range_weaken; [exact Hlo|exact Hhi|]. apply (Ha eq_refl Hy).
  - split; [apply line_entry_wf; exact Hlt|]. apply line_entry_in_range; [exact Hy|lia|lia].
Qed.

Lemma fold_add_any_rast_ok es : forall r, rast_ok r -> (forall a, In a es -> arg_ok a) -> rast_ok (fold_left add_any es r).
Proof.
  induction es as [|a t IH]; intros r Hr Ha; cbn [fold_left]; [exact Hr|].
  apply IH; [apply add_any_rast_ok; [exact Hr|apply Ha; left; reflexivity]|intros b Hb; apply Ha; right; exact Hb].
Qed.

(* the invariant implies the span guard *)
Lemma rast_ok_guard sel rule r W : rast_ok r -> r_active r = [] -> r_w4 r = W * 4 -> 0 <= W ->
  0 <= r_w (get_bounds r) -> raster_guard sel rule r = true.
Proof.
  intros Hr Ha Hw Hw4 Hbw. unfold raster_guard. cbv zeta. rewrite Ha.
  set (y0 := Z.max (r_top r * 4) 0).
  assert (Hwf : starts_wf (r_starts r)) by (intros p Hp; apply (Hr p Hp)).
  apply (rows_guard_of_range y0 (r_starts r) Hwf sel rule (r_w4 r) _ _ (4 * r_left r) (4 * r_right r)).
  - intros p Hp _. apply (Hr p Hp).
  - lia.
  - unfold get_bounds, r_w in *. cbn [x0 x1] in *. rewrite dot2_to_int_eq in *. lia.
  - unfold get_bounds. cbn [x0]. lia.
  - unfold get_bounds, r_w. cbn [x0 x1]. rewrite dot2_to_int_eq, Hw. lia.
  - lia.
  - apply rows_inv_gen_init.
Qed.

(* TOTALITY.  For any list of add_edge calls - straight edges with arbitrary integer coordinates, and curve edges that
   satisfy curve_in_hull - rasterize with either blitter succeeds on the buffer allocated for get_bounds. *)
Theorem rasterize_total_edges rule W H es :
  0 <= W -> 0 <= H -> (forall a, In a es -> arg_ok a) ->
  let r := fold_left add_any es (rast_new W H) in
  let b := get_bounds r in
  0 <= r_w b -> 0 <= r_h b ->
  (exists r' m', rasterize blit_super rule r (maskbuf_new (x0 b) (y0 b) (r_w b) (r_h b)) = Ok (r', m') /\
     length (m_buf m') = Z.to_nat (r_w b * r_h b + 1) /\ bytes_ok (m_buf m')) /\
  (exists r' m', rasterize blit_mask rule r (maskbuf_new (x0 b) (y0 b) (r_w b) (r_h b)) = Ok (r', m') /\
     length (m_buf m') = Z.to_nat (r_w b * r_h b + 1) /\ bytes_ok (m_buf m')).
Proof.
  intros HW HH Ha r b Hbw Hbh. destruct (fold_add_any_new W H es) as (S & Hh & Hw & A). fold r in S, Hh, Hw, A.
  assert (Hok : rast_ok r) by (apply fold_add_any_rast_ok; [intros p []|exact Ha]).
  assert (G : forall sel, raster_guard sel rule r = true).
  { intros sel. apply (rast_ok_guard sel rule r W Hok A Hw HW Hbw). }
  split.
  - apply (rasterize_total_gen rule r H S A Hh Hbw Hbh). apply G.
  - apply (rasterize_total_aliased_gen rule r H S A Hh Hbw Hbh). apply G.
Qed.
Print Assumptions rasterize_total_edges.

(* ===== Part K: the step of the crate BEFORE the repair (commit 3346b5e) is refuted ===== *)
(* ActiveEdge::step as it was: on entering a new segment fullx = old_x + slope_x (a whole row's worth of slope although
   the segment starts part of the way through the row) *)
Definition step_legacy (e : aedge) (cury : Z) : aedge :=
  if e_shift e =? 0 then with_fullx e (e_fullx e + e_slope e) else
  let e :=
    if dot16_to_dot2 (e_nexty e) <=? cury then
      let e := mk_aedge (e_x2 e) (e_y2 e) (e_slope e) (e_nextx e) (e_nextx e) (e_nexty e)
                 (e_dx e) (e_ddx e) (e_dy e) (e_ddy e) (e_nextx e) (e_nexty e)
                 (e_shift e) (e_count e) (e_wind e) (e_err e) in
      let e := set_next_to_end (curve_advance 64 cury e) in
      if cury + 1 <? e_y2 e then
        match div_fixed16_fixed16 (e_nextx e - e_oldx e) (e_nexty e - e_oldy e) with
        | Some q =>
            mk_aedge (e_x2 e) (e_y2 e) (Z.shiftr q 2) (e_fullx e) (e_nextx e) (e_nexty e)
              (e_dx e) (e_ddx e) (e_dy e) (e_ddy e) (e_oldx e) (e_oldy e) (e_shift e) (e_count e) (e_wind e) (e_err e)
        | None =>
            mk_aedge (e_x2 e) (e_y2 e) (e_slope e) (e_fullx e) (e_nextx e) (e_nexty e)
              (e_dx e) (e_ddx e) (e_dy e) (e_ddy e) (e_oldx e) (e_oldy e) (e_shift e) (e_count e) (e_wind e) true
        end
      else e
    else e in
  with_fullx e (e_fullx e + e_slope e).

Section RasterizeLegacy.
  Variable blit : maskbuf -> Z -> Z -> Z -> result maskbuf.
  Variable rule : winding_rule.
  Definition step_edges_legacy (active : list aedge) (cury : Z) : list aedge :=
    filter (fun e => negb (e_y2 e <=? cury + 1)) (map (fun e => step_legacy e cury) active).
  Fixpoint rows_legacy (n : nat) (w4 : Z) (starts : list (Z * aedge)) (y : Z) (active : list aedge) (m : maskbuf)
    : result (list aedge * maskbuf) :=
    match n with
    | O => Ok (active, m)
    | S k =>
        let new_edges := map snd (filter (fun p => fst p =? y) starts) in
        let active := insert_starting new_edges active in
        do m' <- blit_spans blit m y (scan_edges rule w4 active);
        let active := step_edges_legacy active y in
        if existsb e_err active then Err DivZero else
        let active := sort_edges active in
        rows_legacy k w4 starts (y + 1) active m'
    end.
  Definition rasterize_legacy (r : rast) (m : maskbuf) : result (rast * maskbuf) :=
    let start := Z.max (r_top r * 4) 0 in
    let end_ := Z.min (r_bottom r * 4) (r_h4 r) in
    if existsb (fun p => e_err (snd p)) (r_starts r) then Err DivZero else
    do am <- rows_legacy (Z.to_nat (end_ - start)) (r_w4 r) (r_starts r) start (r_active r) m;
    let '(active, m') := am in
    Ok (mk_rast (r_w4 r) (r_h4 r) (r_top r) (r_bottom r) (r_left r) (r_right r) (r_starts r) active, m').
End RasterizeLegacy.

(* A y-monotone quadratic edge (6.75,0) -(1,0.5)- (1,0.75) [pixels] plus the vertical line x = 8 on an 8x4 surface
   (no edge starts above the surface, so add_edge does not step and the rasteriser state is the same for both steps):
   with the legacy step, on sample row 2 fullx = old_x + slope_x = 3.477 (dot2), left of the curve's hull [4, 27]; the
   span starts at x = 3 < 4*bounds_left = 4 and MaskSuperBlitter::blit_span indexes the buffer at -1.  The crate
   panicked on the corresponding DrawTarget::fill (blitter.rs:67) before the repair.  The repaired step is fine. *)
Definition witness_aa : list edge_args :=
  [(false, 27, 0, 4, 3, true, 4, 2); (false, 32, 0, 32, 3, false, 0, 0)].
Example rasterize_legacy_refuted :
  let r := fold_left add_any witness_aa (rast_new 8 4) in
  let b := get_bounds r in
  b = mkrect 1 0 8 1 /\
  rasterize_legacy blit_super NonZero r (maskbuf_new (x0 b) (y0 b) (r_w b) (r_h b)) = Err OutOfBounds /\
  is_ok (rasterize blit_super NonZero r (maskbuf_new (x0 b) (y0 b) (r_w b) (r_h b))) = true.
Proof. vm_compute. repeat split; reflexivity. Qed.

(* ===== Part L: curve edges of the repaired step stay inside the hull of their control points ===== *)
(* all the points the forward differencing can still reach (and the end point) have their x in [lo, hi] (dot16) *)
Definition fut (lo hi : Z) (e : aedge) : Prop :=
  lo <= e_x2 e * 16384 <= hi /\
  forall j, Z.of_nat j <= e_count e -> lo <= e_nextx e + fd_sum j (e_dx e) (e_ddx e) (e_shift e) <= hi.

Lemma fut_nextx lo hi e : 0 <= e_count e -> fut lo hi e -> lo <= e_nextx e <= hi.
Proof. intros Hc [_ H]. specialize (H 0%nat ltac:(lia)). cbn [fd_sum] in H. lia. Qed.

Lemma fut_next lo hi e : 1 <= e_count e -> fut lo hi e -> fut lo hi (curve_next e).
Proof.
  intros Hc [H2 H]. split; [exact H2|]. intros j Hj. cbn [curve_next e_count e_nextx e_dx e_ddx e_shift] in *.
  specialize (H (S j) ltac:(lia)). rewrite fd_sum_head in H. lia.
Qed.

Lemma fut_advance lo hi fuel : forall cury e, fut lo hi e -> fut lo hi (curve_advance fuel cury e).
Proof.
  induction fuel as [|k IH]; intros cury e H; cbn [curve_advance]; [exact H|].
  destruct ((0 <? e_count e) && (dot16_to_dot2 (e_nexty e) <=? cury)) eqn:E; [|exact H].
  apply IH. apply fut_next; [lia|exact H].
Qed.

Lemma fut_end lo hi e : fut lo hi e -> fut lo hi (set_next_to_end e).
Proof.
  intros [H2 H]. unfold set_next_to_end. destruct (e_count e =? 0) eqn:E; [|split; assumption].
  split; [exact H2|]. cbn [e_count e_nextx e_dx e_ddx e_shift e_x2]. intros j Hj.
  assert (j = 0%nat) by lia. subst j. cbn [fd_sum]. unfold dot2_to_dot16. lia.
Qed.

(* changing the fields that the forward differencing does not read keeps fut *)
Lemma fut_ext lo hi e e' : e_x2 e' = e_x2 e -> e_nextx e' = e_nextx e -> e_dx e' = e_dx e -> e_ddx e' = e_ddx e ->
  e_shift e' = e_shift e -> e_count e' = e_count e -> fut lo hi e -> fut lo hi e'.
Proof. intros A B C D E F [H2 H]. unfold fut. rewrite A, B, C, D, E, F. split; assumption. Qed.

Lemma fut_edge0 x1 y1 x2 y2 cx cy w :
  let lo := Z.min (Z.min x1 x2) cx in let hi := Z.max (Z.max x1 x2) cx in
  fut (lo * 16384 - 129) (hi * 16384) (curve_edge0 x1 y1 x2 y2 cx cy w).
Proof.
  intros lo hi. pose proof (curve_shift_range x1 y1 x2 y2 cx cy) as Hs.
  unfold curve_edge0. cbv zeta. set (s := curve_shift x1 y1 x2 y2 cx cy) in *.
  split; [cbn [e_x2]; lia|]. cbn [e_count e_nextx e_dx e_ddx e_shift]. intros j Hj.
  rewrite Z.shiftl_mul_pow2 in Hj by lia.
  assert (H64 : 2 ^ s <= 64) by (change 64 with (2 ^ 6); apply Z.pow_le_mono_r; lia).
  pose proof (fd_point_hull x1 x2 cx s (S j) lo hi ltac:(lia) ltac:(lia) ltac:(lia) ltac:(lia) ltac:(lia)) as Hh.
  unfold fd_point in Hh. rewrite fd_sum_head in Hh. unfold dot2_to_dot16. lia.
Qed.

(* ---- the arithmetic of entering a new segment (repaired step: slope toward zero, partial first row) ---- *)
Lemma quot4_bounds Q : (0 <= Q -> 0 <= Z.quot Q 4 /\ 4 * Z.quot Q 4 <= Q) /\ (Q <= 0 -> Z.quot Q 4 <= 0 /\ Q <= 4 * Z.quot Q 4).
Proof. destruct (quot_bounds Q 4 ltac:(lia)) as (_ & H1 & H2). split; intros H; [specialize (H1 H)|specialize (H2 H)]; lia. Qed.

Lemma switch_arith dx D rest remr : 0 < D -> 0 < rest -> 0 <= remr -> rest + 16384 * remr <= D ->
  let slope := Z.quot (Z.quot (dx * 65536) D) 4 in
  let f := Z.shiftr (slope * rest) 14 in
  (0 <= dx -> 0 <= slope /\ 0 <= f /\ f + remr * slope <= dx) /\
  (dx <= 0 -> slope <= 0 /\ f <= 0 /\ dx <= f + remr * slope).
Proof.
  intros HD Hrest Hrem Hle slope f.
  destruct (quot_bounds (dx * 65536) D HD) as (_ & Qp & Qn).
  destruct (quot4_bounds (Z.quot (dx * 65536) D)) as [Sp Sn]. fold slope in Sp, Sn.
  set (Q := Z.quot (dx * 65536) D) in *.
  assert (Hf : 16384 * f <= slope * rest < 16384 * f + 16384).
  { subst f. rewrite Z.shiftr_div_pow2 by lia. change (2 ^ 14) with 16384.
    pose proof (Z.mul_div_le (slope * rest) 16384 ltac:(lia)). pose proof (Z.mul_succ_div_gt (slope * rest) 16384 ltac:(lia)). lia. }
  split; intros Hdx.
  - destruct (Qp ltac:(lia)) as [Q0 Q1]. destruct (Sp Q0) as [S0 S1].
    assert (HsD : slope * D <= dx * 16384).
    { assert (4 * slope * D <= Q * D) by (apply Z.mul_le_mono_nonneg_r; lia). lia. }
    assert (H0 : 0 <= slope * rest) by (apply Z.mul_nonneg_nonneg; lia).
    assert (H1 : slope * (rest + 16384 * remr) <= slope * D) by (apply Z.mul_le_mono_nonneg_l; lia).
    split; [exact S0|]. split; [lia|].
    replace (slope * (rest + 16384 * remr)) with (slope * rest + 16384 * (remr * slope)) in H1 by ring. lia.
  - destruct (Qn ltac:(lia)) as [Q0 Q1]. destruct (Sn Q0) as [S0 S1].
    assert (HsD : dx * 16384 <= slope * D).
    { assert (Q * D <= 4 * slope * D) by (apply Z.mul_le_mono_nonneg_r; lia). lia. }
    assert (H0 : slope * rest <= 0) by (apply Z.mul_nonpos_nonneg; lia).
    assert (H1 : slope * D <= slope * (rest + 16384 * remr)) by (apply Z.mul_le_mono_nonpos_l; lia).
    split; [exact S0|]. split; [lia|].
    replace (slope * (rest + 16384 * remr)) with (slope * rest + 16384 * (remr * slope)) in H1 by ring. lia.
Qed.

Lemma wrap32_id v : -2147483648 <= v < 2147483648 -> wrap32 v = v.
Proof.
  intros H. unfold wrap32, wrapu32. change 4294967295 with (Z.ones 32). rewrite Z.land_ones by lia.
  change (2 ^ 32) with 4294967296. destruct (v mod 4294967296 <? 2147483648) eqn:E; lia.
Qed.

Lemma set_next_to_end_more e :
  let e' := set_next_to_end e in
  e_fullx e' = e_fullx e /\ e_oldx e' = e_oldx e /\ e_slope e' = e_slope e /\ e_dx e' = e_dx e /\ e_ddx e' = e_ddx e /\
  (e_count e <> 0 -> e_nextx e' = e_nextx e) /\ (e_count e = 0 -> e_nextx e' = e_x2 e * 16384).
Proof. unfold set_next_to_end. destruct (e_count e =? 0) eqn:E; cbn; repeat split; try reflexivity; try lia. Qed.

(* the state a curve edge is in after it has looked for the next segment on row cury (before the new slope is computed) *)
Definition seg_switch (e : aedge) (cury : Z) : aedge :=
  set_next_to_end (curve_advance 64 cury
    (mk_aedge (e_x2 e) (e_y2 e) (e_slope e) (e_nextx e) (e_nextx e) (e_nexty e)
              (e_dx e) (e_ddx e) (e_dy e) (e_ddy e) (e_nextx e) (e_nexty e) (e_shift e) (e_count e) (e_wind e) (e_err e))).
(* the 64-bit quotient div_fixed16_fixed16 computes when the edge enters a new segment on row cury *)
Definition switch_quot (e : aedge) (cury : Z) : Z :=
  let e2 := seg_switch e cury in Z.quot ((e_nextx e2 - e_oldx e2) * 65536) (e_nexty e2 - e_oldy e2).
(* ... fits i32 (whenever step actually computes it) *)
Definition no_wrap_at (e : aedge) (cury : Z) : Prop :=
  e_shift e <> 0 -> dot16_to_dot2 (e_nexty e) <= cury -> cury + 1 < e_y2 e -> wrap32 (switch_quot e cury) = switch_quot e cury.

Lemma seg_switch_props lo hi e y : cinv e -> fut lo hi e ->
  let e2 := seg_switch e y in
  e_fullx e2 = e_nextx e /\ e_oldx e2 = e_nextx e /\ e_oldy e2 = e_nexty e /\ e_y2 e2 = e_y2 e /\ e_x2 e2 = e_x2 e /\
  e_shift e2 = e_shift e /\ e_wind e2 = e_wind e /\ e_err e2 = e_err e /\
  fut lo hi e2 /\ 0 <= e_count e2 <= 63 /\ (e_count e2 = 0 -> e_nexty e2 = e_y2 e * 16384) /\
  (e_count e2 = 0 \/ y < dot16_to_dot2 (e_nexty e2)).
Proof.
  intros Hc Hf. unfold seg_switch.
  set (e0 := mk_aedge (e_x2 e) (e_y2 e) (e_slope e) (e_nextx e) (e_nextx e) (e_nexty e) (e_dx e) (e_ddx e) (e_dy e) (e_ddy e)
                      (e_nextx e) (e_nexty e) (e_shift e) (e_count e) (e_wind e) (e_err e)).
  assert (H0 : 0 <= e_count e0) by apply Hc.
  assert (Hfu : (Z.to_nat (e_count e0) <= 64)%nat) by (unfold cinv in Hc; cbn; lia).
  pose proof (curve_advance_spec 64 y e0 H0 Hfu) as Ha. cbv zeta in Ha.
  destruct (curve_advance_iter 64 y e0 H0) as (j & _ & _ & Hj).
  pose proof (iter_curve_next j e0) as Hi. cbv zeta in Hi. rewrite <- Hj in Hi.
  assert (Hf0 : fut lo hi e0) by (apply (fut_ext lo hi e e0); try reflexivity; exact Hf).
  pose proof (fut_advance lo hi 64 y e0 Hf0) as Hf1.
  set (e1 := curve_advance 64 y e0) in *.
  destruct Ha as (A1 & A2 & A3 & A4 & A5 & A6 & A7 & A8).
  destruct Hi as (_ & _ & _ & _ & _ & _ & _ & _ & _ & _ & _ & I12 & I13 & I14 & _).
  pose proof (set_next_to_end_fields e1) as Hs. cbv zeta in Hs.
  destruct Hs as (S1 & S2 & S3 & S4 & S5 & S6 & S7 & S8 & S9).
  pose proof (set_next_to_end_more e1) as Hm. cbv zeta in Hm. destruct Hm as (M1 & M2 & _).
  pose proof (fut_end lo hi e1 Hf1) as Hf2.
  set (e2 := set_next_to_end e1) in *. cbv zeta.
  unfold cinv in Hc. cbn [e0 e_count e_fullx e_oldx e_oldy e_y2 e_x2 e_shift e_wind e_err] in *.
  do 8 (split; [congruence|]).
  split; [exact Hf2|]. split; [lia|]. split.
  - intros Z0. rewrite S5 in Z0. rewrite (S8 Z0). congruence.
  - destruct A2 as [Z0|Hgt]; [left; lia|].
    destruct (Z.eq_dec (e_count e1) 0) as [Z0|NZ]; [left; lia|right; rewrite (S9 NZ); exact Hgt].
Qed.

(* step when a new segment is entered and the row below still belongs to the edge *)
Lemma step_switch_eq e y : e_shift e <> 0 -> dot16_to_dot2 (e_nexty e) <= y ->
  let e2 := seg_switch e y in
  y + 1 < e_y2 e2 -> e_nexty e2 - e_oldy e2 <> 0 ->
  let slope := Z.quot (wrap32 (switch_quot e y)) 4 in
  step e y = mk_aedge (e_x2 e2) (e_y2 e2) slope
               (e_fullx e2 + Z.shiftr (slope * (dot2_to_dot16 (y + 1) - e_oldy e2)) 14) (e_nextx e2) (e_nexty e2)
               (e_dx e2) (e_ddx e2) (e_dy e2) (e_ddy e2) (e_oldx e2) (e_oldy e2) (e_shift e2) (e_count e2) (e_wind e2) (e_err e2).
Proof.
  intros Hs Hn e2 Hy Hd slope. unfold step.
  replace (e_shift e =? 0) with false by lia. replace (dot16_to_dot2 (e_nexty e) <=? y) with true by lia.
  fold (seg_switch e y). fold e2. replace (y + 1 <? e_y2 e2) with true by lia.
  unfold div_fixed16_fixed16. replace (e_nexty e2 - e_oldy e2 =? 0) with false by lia. reflexivity.
Qed.

(* the row invariant of a curve edge: [lo, hi] (dot16) contains everything the edge can still reach, the current
   segment ends at or below the current row, and both the current crossing and the crossing extrapolated to the last
   row of the segment lie between two reachable points *)
Definition cpos (lo hi : Z) (e : aedge) (y : Z) : Prop :=
  egood e /\ e_shift e <> 0 /\ fut lo hi e /\
  (e_count e = 0 -> e_nexty e = e_y2 e * 16384) /\
  y <= dot16_to_dot2 (e_nexty e) /\
  exists A B, lo <= A /\ B <= hi /\ A <= e_fullx e <= B /\
    A <= e_fullx e + (dot16_to_dot2 (e_nexty e) - y) * e_slope e <= B.

Lemma cpos_fullx lo hi e y : cpos lo hi e y -> lo <= e_fullx e <= hi.
Proof. intros (_ & _ & _ & _ & _ & A & B & H1 & H2 & H3 & _). lia. Qed.

Lemma cpos_step lo hi e y : cpos lo hi e y -> y + 1 < e_y2 e -> no_wrap_at e y -> cpos lo hi (step e y) (y + 1).
Proof.
  intros (Hg & Hs & Hf & Hend & Hy & A & B & HA & HB & Hfx & Hex) Hy2 Hnw.
  pose proof (step_good e y Hg) as Hg'. destruct Hg as [He Hc].
  destruct (Z_lt_le_dec y (dot16_to_dot2 (e_nexty e))) as [Hplain|Hswitch].
  - (* no segment change: one more slope_x *)
    rewrite step_noswitch in * by (right; exact Hplain).
    split; [exact Hg'|]. split; [exact Hs|]. split; [exact Hf|]. split; [exact Hend|].
    cbn [with_fullx e_nexty e_fullx e_slope]. split; [lia|].
    exists A, B. split; [exact HA|]. split; [exact HB|].
    set (rem := dot16_to_dot2 (e_nexty e) - y) in *.
    replace (dot16_to_dot2 (e_nexty e) - (y + 1)) with (rem - 1) by lia.
    assert (Hr : 1 <= rem) by lia.
    replace (e_fullx e + e_slope e + (rem - 1) * e_slope e) with (e_fullx e + rem * e_slope e) by ring.
    split; [|exact Hex].
    destruct (Z_le_gt_dec 0 (e_slope e)) as [Hp|Hn].
    + assert (e_slope e <= rem * e_slope e) by (replace (e_slope e) with (1 * e_slope e) at 1 by ring; apply Z.mul_le_mono_nonneg_r; lia). lia.
    + assert (rem * e_slope e <= e_slope e) by (replace (e_slope e) with (1 * e_slope e) at 2 by ring; apply Z.mul_le_mono_nonpos_r; lia). lia.
  - (* a new segment *)
    pose proof (seg_switch_props lo hi e y Hc Hf) as P. cbv zeta in P.
    destruct P as (P1 & P2 & P3 & P4 & P5 & P6 & P7 & P8 & P9 & P10 & P11 & P12).
    assert (Hfl : y + 1 <= dot16_to_dot2 (e_nexty (seg_switch e y))).
    { destruct P12 as [Z0|Hgt]; [|lia]. rewrite (P11 Z0). rewrite RasterIdle.shiftr14. lia. }
    assert (Hfe : dot16_to_dot2 (e_nexty e) = y) by lia.
    assert (HD : 0 < e_nexty (seg_switch e y) - e_nexty e).
    { rewrite RasterIdle.shiftr14 in Hfl, Hfe. lia. }
    specialize (Hnw Hs Hswitch Hy2).
    pose proof (step_switch_eq e y Hs Hswitch) as Heq. cbv zeta in Heq.
    rewrite P4, P3 in Heq. specialize (Heq Hy2 ltac:(lia)). rewrite Hnw in Heq.
    assert (Hq : switch_quot e y = Z.quot ((e_nextx (seg_switch e y) - e_nextx e) * 65536) (e_nexty (seg_switch e y) - e_nexty e)).
    { unfold switch_quot. cbv zeta. rewrite P2, P3. reflexivity. }
    rewrite Hq in Heq.
    set (e2 := seg_switch e y) in *.
    set (dx := e_nextx e2 - e_nextx e) in *. set (D := e_nexty e2 - e_nexty e) in *.
    set (rest := dot2_to_dot16 (y + 1) - e_nexty e) in *.
    set (remr := dot16_to_dot2 (e_nexty e2) - (y + 1)).
    assert (Hrest : 0 < rest) by (subst rest; unfold dot2_to_dot16; rewrite RasterIdle.shiftr14 in Hfe; lia).
    assert (Hrem : 0 <= remr) by (subst remr; lia).
    assert (Hle : rest + 16384 * remr <= D).
    { subst rest remr D. unfold dot2_to_dot16. rewrite RasterIdle.shiftr14. lia. }
    pose proof (switch_arith dx D rest remr HD Hrest Hrem Hle) as [Sp Sn]. cbv zeta in Sp, Sn.
    set (slope := Z.quot (Z.quot (dx * 65536) D) 4) in *.
    set (f := Z.shiftr (slope * rest) 14) in *.
    pose proof (fut_nextx lo hi e ltac:(apply Hc) Hf) as Ho.
    pose proof (fut_nextx lo hi e2 ltac:(lia) P9) as Hn.
    rewrite Heq in *. clear Heq.
    split; [exact Hg'|]. cbn [e_shift e_count e_nexty e_y2 e_fullx e_slope].
    split; [congruence|]. split.
    { apply (fut_ext lo hi e2); try reflexivity. exact P9. }
    split; [exact P11|]. split; [exact Hfl|].
    fold remr. rewrite P1. fold f.
    exists (Z.min (e_nextx e) (e_nextx e2)), (Z.max (e_nextx e) (e_nextx e2)).
    split; [lia|]. split; [lia|].
    destruct (Z_le_gt_dec 0 dx) as [Hp|Hng].
    + destruct (Sp Hp) as (S0 & F0 & F1).
      assert (0 <= remr * slope) by (apply Z.mul_nonneg_nonneg; lia). subst dx. lia.
    + destruct (Sn ltac:(lia)) as (S0 & F0 & F1).
      assert (remr * slope <= 0) by (apply Z.mul_nonneg_nonpos; lia). subst dx. lia.
Qed.

(* ---- the edge built by add_edge satisfies the invariant on its first row ---- *)
Lemma cpos_init x1 y1 x2 y2 cx cy w : y1 < y2 ->
  let lo := Z.min (Z.min x1 x2) cx in let hi := Z.max (Z.max x1 x2) cx in
  cpos (lo * 16384 - 129) (hi * 16384) (curve_edge_init x1 y1 x2 y2 cx cy w) y1.
Proof.
  intros Hy lo hi.
  destruct (curve_edge_init_props x1 y1 x2 y2 cx cy w Hy) as [Hg Hy2].
  pose proof (curve_shift_range x1 y1 x2 y2 cx cy) as Hsr.
  pose proof (curve_edge0_count x1 y1 x2 y2 cx cy w) as Hc0.
  pose proof (fut_edge0 x1 y1 x2 y2 cx cy w) as Hf0. cbv zeta in Hf0. fold lo hi in Hf0.
  destruct (curve_setup_den y1 y2 (curve_edge0 x1 y1 x2 y2 cx cy w) Hy eq_refl Hc0) as [Hden Hc2].
  pose proof (curve_advance_spec 64 y1 (curve_edge0 x1 y1 x2 y2 cx cy w) ltac:(lia) ltac:(lia)) as Ha. cbv zeta in Ha.
  pose proof (fut_advance _ _ 64 y1 _ Hf0) as Hf1.
  unfold curve_edge_init in *. cbv zeta in *.
  set (e1 := curve_advance 64 y1 (curve_edge0 x1 y1 x2 y2 cx cy w)) in *.
  destruct Ha as (A1 & A2 & A3 & A4 & A5 & _).
  pose proof (set_next_to_end_fields e1) as Hs. cbv zeta in Hs. destruct Hs as (S1 & S2 & S3 & _ & S5 & _ & _ & S8 & _).
  pose proof (fut_end _ _ e1 Hf1) as Hf2.
  set (e2 := set_next_to_end e1) in *.
  set (den := dot16_to_dot2 (e_nexty e2 - dot2_to_dot16 y1)) in *.
  assert (Hsh : e_shift e2 = curve_shift x1 y1 x2 y2 cx cy) by (rewrite S3, A5; reflexivity).
  assert (Hrem : dot16_to_dot2 (e_nexty e2) - y1 = den).
  { subst den. unfold dot2_to_dot16. rewrite !RasterIdle.shiftr14. lia. }
  pose proof (fut_nextx _ _ e2 ltac:(lia) Hf2) as Hn.
  split; [exact Hg|]. cbn [e_shift e_count e_nexty e_y2 e_fullx e_slope].
  split; [lia|]. split.
  { apply (fut_ext _ _ e2); try reflexivity; [cbn [e_x2]; rewrite S1, A3; reflexivity|cbn [e_shift]; symmetry; exact Hsh|exact Hf2]. }
  split; [intros Z0; rewrite S5 in Z0; rewrite (S8 Z0), A4; reflexivity|].
  split; [lia|]. rewrite Hrem.
  exists (Z.min (dot2_to_dot16 x1) (e_nextx e2)), (Z.max (dot2_to_dot16 x1) (e_nextx e2)).
  unfold dot2_to_dot16 in *.
  split; [lia|]. split; [lia|]. split; [lia|].
  destruct (quot_bounds (e_nextx e2 - x1 * 16384) den ltac:(lia)) as (_ & Qp & Qn).
  destruct (Z_le_gt_dec 0 (e_nextx e2 - x1 * 16384)) as [Hp|Hng].
  - destruct (Qp Hp). lia.
  - destruct (Qn ltac:(lia)). lia.
Qed.

(* every division performed by step on this curve edge (on the rows where the crate performs it) fits i32 *)
Definition curve_no_slope_wrap (x1 y1 x2 y2 cx cy w : Z) : Prop :=
  forall k, y1 + Z.of_nat k + 1 < y2 ->
    no_wrap_at (steps k (curve_edge_init x1 y1 x2 y2 cx cy w) y1) (y1 + Z.of_nat k).

Lemma cpos_steps x1 y1 x2 y2 cx cy w : y1 < y2 -> curve_no_slope_wrap x1 y1 x2 y2 cx cy w ->
  let lo := Z.min (Z.min x1 x2) cx in let hi := Z.max (Z.max x1 x2) cx in
  forall k, y1 + Z.of_nat k < y2 ->
    cpos (lo * 16384 - 129) (hi * 16384) (steps k (curve_edge_init x1 y1 x2 y2 cx cy w) y1) (y1 + Z.of_nat k).
Proof.
  intros Hy Hnw lo hi. induction k as [|k IH]; intros Hk.
  - cbn [steps]. replace (y1 + Z.of_nat 0) with y1 by lia. apply cpos_init. exact Hy.
  - rewrite steps_succ_r. replace (y1 + Z.of_nat (S k)) with (y1 + Z.of_nat k + 1) by lia.
    specialize (IH ltac:(lia)).
    assert (Hy2 : e_y2 (steps k (curve_edge_init x1 y1 x2 y2 cx cy w) y1) = y2).
    { destruct (curve_edge_init_props x1 y1 x2 y2 cx cy w Hy) as [Hg Hy2].
      destruct (steps_good k _ y1 Hg) as [_ E]. congruence. }
    apply cpos_step; [exact IH|rewrite Hy2; lia|apply Hnw; lia].
Qed.

(* ---- the filed entry is the initial edge stepped row by row ---- *)
Lemma prestep_steps n : forall e cury, cury + Z.of_nat n <= 0 -> prestep n e cury = (steps n e cury, cury + Z.of_nat n).
Proof.
  induction n as [|k IH]; intros e cury H; cbn [prestep steps]; [f_equal; lia|].
  replace (cury <? 0) with true by lia. rewrite IH by lia. f_equal. lia.
Qed.

Lemma steps_add a : forall b e y, steps (a + b) e y = steps b (steps a e y) (y + Z.of_nat a).
Proof.
  induction a as [|a IH]; intros b e y; cbn [Nat.add steps]; [f_equal; lia|].
  rewrite IH. f_equal. lia.
Qed.

Lemma curve_entry_steps x1 y1 x2 y2 cx cy w :
  curve_entry x1 y1 x2 y2 cx cy w =
    (Z.max y1 0, steps (Z.to_nat (Z.max y1 0 - y1)) (curve_edge_init x1 y1 x2 y2 cx cy w) y1).
Proof.
  unfold curve_entry. cbv zeta. destruct (y1 <? 0) eqn:E.
  - rewrite prestep_fast_is_prestep by lia. rewrite prestep_steps by lia.
    replace (Z.max y1 0) with 0 by lia. replace (0 - y1) with (- y1) by lia. f_equal. lia.
  - replace (Z.max y1 0 - y1) with 0 by lia. cbn [Z.to_nat steps]. f_equal. lia.
Qed.

(* THE HULL PROPERTY of the repaired step: a curve edge whose slope divisions do not wrap keeps its rounded crossing
   inside the pixel-aligned hull of its control points on every sample row *)
Theorem curve_in_hull_of_no_wrap x1 y1 x2 y2 cx cy w : y1 < y2 ->
  curve_no_slope_wrap x1 y1 x2 y2 cx cy w -> curve_in_hull x1 y1 x2 y2 cx cy w.
Proof.
  intros Hy Hnw y Hyy. unfold curve_in_hull in *. rewrite curve_entry_steps in *. cbn [fst snd] in *.
  destruct (curve_edge_init_props x1 y1 x2 y2 cx cy w Hy) as [Hg Hy2].
  destruct (steps_good (Z.to_nat (Z.max y1 0 - y1)) _ y1 Hg) as [_ E]. rewrite E, Hy2 in Hyy.
  unfold edge_at_gen. cbn [fst snd].
  assert (Heq : steps (Z.to_nat (y - Z.max y1 0)) (steps (Z.to_nat (Z.max y1 0 - y1)) (curve_edge_init x1 y1 x2 y2 cx cy w) y1) (Z.max y1 0)
                = steps (Z.to_nat (Z.max y1 0 - y1) + Z.to_nat (y - Z.max y1 0)) (curve_edge_init x1 y1 x2 y2 cx cy w) y1).
  { rewrite steps_add. f_equal. lia. }
  rewrite Heq. clear Heq.
  pose proof (cpos_steps x1 y1 x2 y2 cx cy w Hy Hnw) as Hc. cbv zeta in Hc.
  specialize (Hc (Z.to_nat (Z.max y1 0 - y1) + Z.to_nat (y - Z.max y1 0))%nat ltac:(lia)).
  apply cpos_fullx in Hc. set (fx := e_fullx _) in *.
  rewrite rnd_eq. set (lo := Z.min (Z.min x1 x2) cx) in *. set (hi := Z.max (Z.max x1 x2) cx) in *. lia.
Qed.
Print Assumptions curve_in_hull_of_no_wrap.

(* ===== Part M: rasterize_total ===== *)
(* hypothesis on the add_edge calls: the slope divisions of every curve edge fit i32 *)
Definition no_slope_wrap (a : edge_args) : Prop :=
  let '(swap, sx, sy, ex, ey, curve, cx, cy) := a in
  curve = true ->
  let '(x1, y1, x2, y2, w) := if swap then (ex, ey, sx, sy, -1) else (sx, sy, ex, ey, 1) in
  y1 < y2 -> curve_no_slope_wrap x1 y1 x2 y2 cx cy w.

Lemma no_slope_wrap_arg_ok a : no_slope_wrap a -> arg_ok a.
Proof.
  destruct a as [[[[[[[swap sx] sy] ex] ey] curve] cx] cy]. unfold no_slope_wrap, arg_ok. intros H Hc.
  specialize (H Hc). destruct (if swap then (ex, ey, sx, sy, -1) else (sx, sy, ex, ey, 1)) as [[[[x1 y1] x2] y2] w].
  intros Hy. apply curve_in_hull_of_no_wrap; [exact Hy|apply H; exact Hy].
Qed.

(* TOTALITY of Rasterizer::rasterize (repaired step).  For ANY list of add_edge calls on a fresh rasteriser - straight
   and curve edges, arbitrary integer coordinates, monotone or not - such that the i64 quotient of every
   div_fixed16_fixed16 performed by ActiveEdge::step fits i32, rasterising into the buffer allocated for get_bounds
   never fails (no DivZero, OutOfBounds, Overflow), and returns a buffer of the allocated size holding bytes. *)
Theorem rasterize_total rule W H es :
  0 <= W -> 0 <= H -> (forall a, In a es -> no_slope_wrap a) ->
  let r := fold_left add_any es (rast_new W H) in
  let b := get_bounds r in
  0 <= r_w b -> 0 <= r_h b ->
  exists r' m', rasterize blit_super rule r (maskbuf_new (x0 b) (y0 b) (r_w b) (r_h b)) = Ok (r', m') /\
     length (m_buf m') = Z.to_nat (r_w b * r_h b + 1) /\ bytes_ok (m_buf m').
Proof.
  intros HW HH Ha r b Hbw Hbh.
  apply (rasterize_total_edges rule W H es HW HH (fun a Hi => no_slope_wrap_arg_ok a (Ha a Hi)) Hbw Hbh).
Qed.

Theorem rasterize_total_aliased rule W H es :
  0 <= W -> 0 <= H -> (forall a, In a es -> no_slope_wrap a) ->
  let r := fold_left add_any es (rast_new W H) in
  let b := get_bounds r in
  0 <= r_w b -> 0 <= r_h b ->
  exists r' m', rasterize blit_mask rule r (maskbuf_new (x0 b) (y0 b) (r_w b) (r_h b)) = Ok (r', m') /\
     length (m_buf m') = Z.to_nat (r_w b * r_h b + 1) /\ bytes_ok (m_buf m').
Proof.
  intros HW HH Ha r b Hbw Hbh.
  apply (rasterize_total_edges rule W H es HW HH (fun a Hi => no_slope_wrap_arg_ok a (Ha a Hi)) Hbw Hbh).
Qed.
Print Assumptions rasterize_total.
Print Assumptions rasterize_total_aliased.

(* ===== Part N: the hypothesis no_slope_wrap can be evaluated ===== *)
Definition no_wrap_atb (e : aedge) (cury : Z) : bool :=
  if negb (e_shift e =? 0) && (dot16_to_dot2 (e_nexty e) <=? cury) && (cury + 1 <? e_y2 e)
  then wrap32 (switch_quot e cury) =? switch_quot e cury else true.
Lemma no_wrap_atb_ok e y : no_wrap_atb e y = true -> no_wrap_at e y.
Proof.
  unfold no_wrap_atb, no_wrap_at. intros H H1 H2 H3.
  replace (negb (e_shift e =? 0) && (dot16_to_dot2 (e_nexty e) <=? y) && (y + 1 <? e_y2 e)) with true in H by lia. lia.
Qed.
Fixpoint no_wrap_check (n : nat) (e : aedge) (y : Z) : bool :=
  match n with O => true | S k => no_wrap_atb e y && no_wrap_check k (step e y) (y + 1) end.
Lemma no_wrap_check_ok n : forall e y, no_wrap_check n e y = true ->
  forall k, (k < n)%nat -> no_wrap_at (steps k e y) (y + Z.of_nat k).
Proof.
  induction n as [|n IH]; intros e y H k Hk; [lia|].
  cbn [no_wrap_check] in H. apply andb_true_iff in H. destruct H as [H1 H2].
  destruct k as [|k]; cbn [steps].
  - replace (y + Z.of_nat 0) with y by lia. apply no_wrap_atb_ok. exact H1.
  - replace (y + Z.of_nat (S k)) with (y + 1 + Z.of_nat k) by lia. apply IH; [exact H2|lia].
Qed.
Definition curve_no_wrap_check (x1 y1 x2 y2 cx cy w : Z) : bool :=
  no_wrap_check (Z.to_nat (y2 - y1)) (curve_edge_init x1 y1 x2 y2 cx cy w) y1.
Lemma curve_no_wrap_check_ok x1 y1 x2 y2 cx cy w :
  curve_no_wrap_check x1 y1 x2 y2 cx cy w = true -> curve_no_slope_wrap x1 y1 x2 y2 cx cy w.
Proof. intros H k Hk. apply (no_wrap_check_ok _ _ _ H). lia. Qed.
Definition no_slope_wrapb (a : edge_args) : bool :=
  let '(swap, sx, sy, ex, ey, curve, cx, cy) := a in
  if curve then
    let '(x1, y1, x2, y2, w) := if swap then (ex, ey, sx, sy, -1) else (sx, sy, ex, ey, 1) in
    if y1 <? y2 then curve_no_wrap_check x1 y1 x2 y2 cx cy w else true
  else true.
Lemma no_slope_wrapb_ok a : no_slope_wrapb a = true -> no_slope_wrap a.
Proof.
  destruct a as [[[[[[[swap sx] sy] ex] ey] curve] cx] cy]. unfold no_slope_wrapb, no_slope_wrap. intros H Hc. subst curve.
  destruct (if swap then (ex, ey, sx, sy, -1) else (sx, sy, ex, ey, 1)) as [[[[x1 y1] x2] y2] w].
  intros Hy. replace (y1 <? y2) with true in H by lia. apply curve_no_wrap_check_ok. exact H.
Qed.
Corollary rasterize_total_checked rule W H es :
  0 <= W -> 0 <= H -> forallb no_slope_wrapb es = true ->
  let r := fold_left add_any es (rast_new W H) in
  let b := get_bounds r in
  0 <= r_w b -> 0 <= r_h b ->
  is_ok (rasterize blit_super rule r (maskbuf_new (x0 b) (y0 b) (r_w b) (r_h b))) = true /\
  is_ok (rasterize blit_mask rule r (maskbuf_new (x0 b) (y0 b) (r_w b) (r_h b))) = true.
Proof.
  intros HW HH Hc r b Hbw Hbh. rewrite forallb_forall in Hc.
  assert (Ha : forall a, In a es -> no_slope_wrap a) by (intros a Hi; apply no_slope_wrapb_ok; apply Hc; exact Hi).
  destruct (rasterize_total rule W H es HW HH Ha Hbw Hbh) as (r1 & m1 & E1 & _).
  destruct (rasterize_total_aliased rule W H es HW HH Ha Hbw Hbh) as (r2 & m2 & E2 & _).
  fold r b in E1, E2. rewrite E1, E2. split; reflexivity.
Qed.
(* non-vacuity: the path that made the crate panic before the repair satisfies the hypothesis *)
Example witness_aa_no_wrap : forallb no_slope_wrapb witness_aa = true.
Proof. vm_compute. reflexivity. Qed.

(* The hypothesis cannot be dropped in the model (unbounded integers): a curve 35786 px wide and 0.75 px high, whose
   dot16 coordinates would not even fit i32 in the crate.  The quotient wraps, the slope gets the wrong sign, the
   crossing leaves the hull on the left and blit_span is handed a span that starts left of the buffer. *)
Definition witness_wrap : list edge_args :=
  [(false, 5598, 3, 143144, 6, true, 34553, 5); (false, 143148, 3, 143148, 6, false, 0, 0)].
Example no_slope_wrap_needed :
  let r := fold_left add_any witness_wrap (rast_new 35789 2) in
  let b := get_bounds r in
  b = mkrect 1399 0 35787 2 /\
  rasterize blit_super NonZero r (maskbuf_new (x0 b) (y0 b) (r_w b) (r_h b)) = Err OutOfBounds /\
  map no_slope_wrapb witness_wrap = [false; true].
Proof. vm_compute. repeat split; reflexivity. Qed.

(* ===== Part O: y-monotone curve edges (what DrawTarget::add_quad produces: y1 <= cy <= y2) ===== *)
Lemma dy_arith n h A' B i a1 a2 : 0 < h -> n = 2 * h -> n <= 64 -> A' < 0 -> - B <= A' -> 0 <= i <= n - 1 ->
  A' * 8192 - n < n * a1 -> A' * 8192 - h < h * a2 ->
  0 < n * (2 * a1 + 2 * B * 16384 + i * (2 * a2)).
Proof.
  intros Hh Hn H64 HA HB Hi H1 H2.
  assert (E : n * (2 * a1 + 2 * B * 16384 + i * (2 * a2)) = 2 * (n * a1) + 32768 * (B * n) + 4 * (i * (h * a2))) by (subst n; ring).
  rewrite E. clear E.
  assert (P1 : i * (A' * 8192 - h + 1) <= i * (h * a2)) by (apply Z.mul_le_mono_nonneg_l; lia).
  replace (i * (A' * 8192 - h + 1)) with (8192 * (i * A') - i * h + i) in P1 by ring.
  assert (P2 : (n - 1) * A' <= i * A') by (assert (0 <= (n - 1 - i) * (- A')) by (apply Z.mul_nonneg_nonneg; lia); lia).
  assert (P3 : i * h <= (n - 1) * h) by (apply Z.mul_le_mono_nonneg_r; lia).
  assert (P4 : 0 <= (A' + B) * (2 * n - 1)) by (apply Z.mul_nonneg_nonneg; lia).
  assert (P5 : n * n <= 64 * 64) by (apply Z.mul_le_mono_nonneg; lia).
  replace ((n - 1) * A') with (n * A' - A') in P2 by ring.
  replace ((n - 1) * h) with (h * n - h) in P3 by ring.
  replace ((A' + B) * (2 * n - 1)) with (2 * (n * A') - A' + 2 * (B * n) - B) in P4 by ring.
  assert (P6 : 2 * (h * n) = n * n) by (subst n; ring).
  lia.
Qed.

(* every forward-difference increment of the y coordinate is >= 0 *)
Lemma fd_dy_nonneg p1 p2 c s i : 1 <= s <= 6 -> p1 <= c <= p2 -> 0 <= i < 2 ^ s ->
  0 <= fd_d0 p1 p2 c s + i * fd_dd p1 p2 c s.
Proof.
  intros Hs Hm Hi. unfold fd_d0, fd_dd. set (A' := p1 - c - c + p2).
  destruct (Z_le_gt_dec 0 A') as [Hp|Hn].
  - assert (0 <= Z.shiftr (A' * 8192) s) by (apply Z.shiftr_nonneg; lia).
    assert (0 <= Z.shiftr (A' * 8192) (s - 1)) by (apply Z.shiftr_nonneg; lia).
    assert (0 <= i * (2 * Z.shiftr (A' * 8192) (s - 1))) by (apply Z.mul_nonneg_nonneg; lia).
    lia.
  - assert (Hn2 : 2 ^ s = 2 * 2 ^ (s - 1)).
    { replace s with (Z.succ (s - 1)) at 1 by lia. rewrite Z.pow_succ_r by lia. reflexivity. }
    assert (Hh : 0 < 2 ^ (s - 1)) by (apply Z.pow_pos_nonneg; lia).
    assert (H64 : 2 ^ s <= 64) by (change 64 with (2 ^ 6); apply Z.pow_le_mono_r; lia).
    pose proof (div_pow2_bounds (A' * 8192) s ltac:(lia)) as B1.
    pose proof (div_pow2_bounds (A' * 8192) (s - 1) ltac:(lia)) as B2.
    pose proof (dy_arith (2 ^ s) (2 ^ (s - 1)) A' (c - p1) i (Z.shiftr (A' * 8192) s) (Z.shiftr (A' * 8192) (s - 1))
                  Hh Hn2 H64 ltac:(lia) ltac:(subst A'; lia) ltac:(lia) ltac:(lia) ltac:(lia)) as Hpos.
    assert (0 < 2 ^ s) by lia.
    destruct (Z_le_gt_dec 0 (2 * Z.shiftr (A' * 8192) s + 2 * (c - p1) * 16384 + i * (2 * Z.shiftr (A' * 8192) (s - 1)))) as [Hge|Hlt]; [exact Hge|].
    exfalso. assert (2 ^ s * (2 * Z.shiftr (A' * 8192) s + 2 * (c - p1) * 16384 + i * (2 * Z.shiftr (A' * 8192) (s - 1))) <= 0)
      by (apply Z.mul_nonneg_nonpos; lia). lia.
Qed.

(* the y coordinates of the polyline never decrease *)
Theorem fd_point_y_mono y1 y2 cy s k : 1 <= s <= 6 -> y1 <= cy <= y2 -> Z.of_nat k < 2 ^ s ->
  fd_point y1 y2 cy s k <= fd_point y1 y2 cy s (S k).
Proof.
  intros Hs Hm Hk. unfold fd_point. cbn [fd_sum].
  pose proof (fd_dy_nonneg y1 y2 cy s (Z.of_nat k) Hs Hm ltac:(lia)) as H.
  assert (0 <= Z.shiftr (fd_d0 y1 y2 cy s + Z.of_nat k * fd_dd y1 y2 cy s) s) by (apply Z.shiftr_nonneg; exact H). lia.
Qed.

(* ROW COVERAGE of a (y-monotone) curve edge.  For the entry p that add_edge files for the curve:
   (a) the polyline's y coordinates are non-decreasing (needs y1 <= cy <= y2);
   (b) p is filed under row max y1 0 and ends at y2;
   (c) in the row loop started at row y0 <= max y1 0 with an empty active list, on row y0 + n the scanned list is, up to
       order, the image of the filed entries that pass the filter `y0 <= start <= y < y2`, and p passes it exactly
       when max y1 0 <= y < y2: the edge is scanned exactly once on each of those rows and on no other;
   (d) if the slope divisions do not wrap, then on each such row the current segment reaches the row
       (y <= floor(next_y)) and the rounded crossing is inside the pixel-aligned hull of the control points. *)
Theorem curve_edge_rows x1 y1 x2 y2 cx cy w : y1 < y2 ->
  let s := curve_shift x1 y1 x2 y2 cx cy in
  let p := curve_entry x1 y1 x2 y2 cx cy w in
  (y1 <= cy <= y2 -> forall k, Z.of_nat k < 2 ^ s -> fd_point y1 y2 cy s k <= fd_point y1 y2 cy s (S k)) /\
  (fst p = Z.max y1 0 /\ e_y2 (snd p) = y2 /\ egood (snd p)) /\
  (forall y0 starts n, starts_wf starts -> y0 <= Z.max y1 0 ->
     let y := y0 + Z.of_nat n in
     let f := fun q : Z * aedge => (y0 <=? fst q) && (fst q <=? y) && (y <? e_y2 (snd q)) in
     Permutation (scanned starts y (act_list starts n y0 [])) (map (edge_at_gen y) (filter f starts)) /\
     f p = (Z.max y1 0 <=? y) && (y <? y2)) /\
  (curve_no_slope_wrap x1 y1 x2 y2 cx cy w -> forall y, Z.max y1 0 <= y < y2 ->
     y <= dot16_to_dot2 (e_nexty (edge_at_gen y p)) /\
     4 * (Z.min (Z.min x1 x2) cx / 4) <= rnd (e_fullx (edge_at_gen y p)) <= 4 * ((Z.max (Z.max x1 x2) cx + 3) / 4)).
Proof.
  intros Hy s p. pose proof (curve_entry_props x1 y1 x2 y2 cx cy w Hy) as P. cbv zeta in P. fold p in P.
  destruct P as (P1 & P2 & P3).
  split; [intros Hm k Hk; apply fd_point_y_mono; [apply curve_shift_range|exact Hm|exact Hk]|].
  split; [repeat split; try assumption; apply P1|]. split.
  - intros y0 starts n Hwf Hy0 y f. split.
    + destruct (scanned_rows y0 starts Hwf n y0 [] ltac:(lia) (rows_inv_gen_init y0 starts)) as [_ Hp]. exact Hp.
    + unfold f. rewrite P2, P3. lia.
  - intros Hnw y Hyy. split.
    + subst p. rewrite curve_entry_steps. unfold edge_at_gen. cbn [fst snd].
      assert (Heq : steps (Z.to_nat (y - Z.max y1 0)) (steps (Z.to_nat (Z.max y1 0 - y1)) (curve_edge_init x1 y1 x2 y2 cx cy w) y1) (Z.max y1 0)
                = steps (Z.to_nat (Z.max y1 0 - y1) + Z.to_nat (y - Z.max y1 0)) (curve_edge_init x1 y1 x2 y2 cx cy w) y1).
      { rewrite steps_add. f_equal. lia. }
      rewrite Heq. pose proof (cpos_steps x1 y1 x2 y2 cx cy w Hy Hnw) as Hc. cbv zeta in Hc.
      specialize (Hc (Z.to_nat (Z.max y1 0 - y1) + Z.to_nat (y - Z.max y1 0))%nat ltac:(lia)).
      destruct Hc as (_ & _ & _ & _ & Hrow & _). lia.
    + apply (curve_in_hull_of_no_wrap x1 y1 x2 y2 cx cy w Hy Hnw y). fold p. rewrite P2, P3. exact Hyy.
Qed.
Print Assumptions rasterize_total_checked.
Print Assumptions curve_edge_rows.
