(* euclid::Box2D<i32> as used by raqote (IntRect): min and max corners. *)
Require Import RQ.Base.

Record rect := mkrect { x0 : Z; y0 : Z; x1 : Z; y1 : Z }.

(* Box2D::intersection_unchecked *)
Definition r_inter (a b : rect) : rect :=
  mkrect (Z.max (x0 a) (x0 b)) (Z.max (y0 a) (y0 b)) (Z.min (x1 a) (x1 b)) (Z.min (y1 a) (y1 b)).
(* Box2D::is_empty: !(max.x > min.x && max.y > min.y) *)
Definition r_empty (r : rect) : bool := negb ((x0 r <? x1 r) && (y0 r <? y1 r)).
Definition r_w (r : rect) : Z := x1 r - x0 r.
Definition r_h (r : rect) : Z := y1 r - y0 r.
Definition r_in (r : rect) (x y : Z) : bool := (x0 r <=? x) && (x <? x1 r) && (y0 r <=? y) && (y <? y1 r).
(* Box2D::translate with i32 overflow checks *)
Definition r_translate (r : rect) (dx dy : Z) : result rect :=
  do a <- chk32 (x0 r + dx); do b <- chk32 (y0 r + dy);
  do c <- chk32 (x1 r + dx); do d <- chk32 (y1 r + dy);
  Ok (mkrect a b c d).
Definition r_eqb (a b : rect) : bool :=
  (x0 a =? x0 b) && (y0 a =? y0 b) && (x1 a =? x1 b) && (y1 a =? y1 b).
