(* Sources and shaders: choose_shader of blitter.rs and the sw-composite code behind it
   (image fetch, bilinear filter, gradient look-up table, linear/radial/two-circle/sweep eval).
   A shader is modelled by the colour it produces for one device pixel (x, y). *)
Require Import RQ.Base RQ.F32 RQ.Rect RQ.Pixel RQ.PathF.

Inductive extend_mode := ExtPad | ExtRepeat.
Inductive filter_mode := Bilinear | Nearest.
Inductive spread := SpreadPad | SpreadReflect | SpreadRepeat.
Record image := mk_image { i_w : Z; i_h : Z; i_data : list Z }.
Record gstop := mk_gstop { gs_pos : f32; gs_color : Z }.   (* Color: unpremultiplied ARGB *)

Inductive source :=
  | Solid (c : Z)
  | Image (im : image) (e : extend_mode) (f : filter_mode) (t : xform)
  | LinearGradient (stops : list gstop) (s : spread) (t : xform)
  | RadialGradient (stops : list gstop) (s : spread) (t : xform)
  | TwoCircleRadialGradient (stops : list gstop) (s : spread) (c1 : pt) (r1 : f32) (c2 : pt) (r2 : f32) (t : xform)
  | SweepGradient (stops : list gstop) (s : spread) (start_angle end_angle : f32) (t : xform).

(* ---- fixed point ---- *)
Definition float_to_fixed (x : f32) : Z := to_i32 (fadd (fmul x f65536) fhalf).
Record fixmat := mk_fixmat { xx : Z; xy : Z; yx : Z; yy : Z; fx0 : Z; fy0 : Z }.
Definition transform_to_fixed (t : xform) : fixmat :=
  mk_fixmat (float_to_fixed (m11 t)) (float_to_fixed (m21 t)) (float_to_fixed (m12 t)) (float_to_fixed (m22 t))
            (float_to_fixed (m31 t)) (float_to_fixed (m32 t)).
(* MatrixFixedPoint::transform(x as u16, y as u16), wrapping i32 arithmetic *)
Definition fix_transform (m : fixmat) (x y : Z) : Z * Z :=
  let x := wrapu16 x in let y := wrapu16 y in
  (wrap32 (wrap32 (wrap32 (x * xx m) + wrap32 (xy m * y)) + fx0 m),
   wrap32 (wrap32 (wrap32 (y * yy m) + wrap32 (yx m * x)) + fy0 m)).

(* ---- image fetch ---- *)
Definition img_at (im : image) (x y : Z) : Z := zn (i_data im) (y * i_w im + x).
Definition clampi (v lo hi : Z) : Z := if v <? lo then lo else if hi <? v then hi else v.
Definition pad_fetch (im : image) (x y : Z) : Z :=
  let x := if x <? 0 then 0 else x in
  let x := if i_w im <=? x then i_w im - 1 else x in
  let y := if y <? 0 then 0 else y in
  let y := if i_h im <=? y then i_h im - 1 else y in
  img_at im x y.
Definition repeat_fetch (im : image) (x y : Z) : Z :=
  let x := Z.rem x (i_w im) in let x := if x <? 0 then x + i_w im else x in
  let y := Z.rem y (i_h im) in let y := if y <? 0 then y + i_h im else y in
  img_at im x y.
Definition fetch (e : extend_mode) := match e with ExtPad => pad_fetch | ExtRepeat => repeat_fetch end.

Definition bilinear_weight (x : Z) : Z := Z.land (Z.shiftr x 12) 15.
Definition fixed_to_int (x : Z) : Z := Z.shiftr x 16.
(* bilinear_interpolation(_alpha): alpha = None for the non-alpha variant *)
Definition bilinear_interpolation (tl tr bl br distx disty : Z) (alpha : option Z) : Z :=
  let distxy := distx * disty in
  let distxiy := Z.shiftl distx 4 - distxy in
  let distixy := Z.shiftl disty 4 - distxy in
  let distixiy := wrapu32 (256 - Z.shiftl disty 4 - Z.shiftl distx 4 + distxy) in
  let lo := Z.land tl MASK * distixiy + Z.land tr MASK * distxiy + Z.land bl MASK * distixy + Z.land br MASK * distxy in
  let hi := Z.land (Z.shiftr tl 8) MASK * distixiy + Z.land (Z.shiftr tr 8) MASK * distxiy
            + Z.land (Z.shiftr bl 8) MASK * distixy + Z.land (Z.shiftr br 8) MASK * distxy in
  match alpha with
  | None => Z.lor (Z.land (Z.shiftr lo 8) MASK) (Z.land hi NMASK)
  | Some a =>
      let lo := Z.land (Z.shiftr lo 8) MASK * a in
      let hi := Z.land (Z.shiftr hi 8) MASK * a in
      Z.lor (Z.land (Z.shiftr lo 8) MASK) (Z.land hi NMASK)
  end.
Definition fetch_bilinear (e : extend_mode) (im : image) (x y : Z) (alpha : option Z) : Z :=
  let x1 := fixed_to_int x in let y1 := fixed_to_int y in
  bilinear_interpolation (fetch e im x1 y1) (fetch e im (x1 + 1) y1) (fetch e im x1 (y1 + 1)) (fetch e im (x1 + 1) (y1 + 1))
    (bilinear_weight x) (bilinear_weight y) alpha.
Definition fetch_nearest (e : extend_mode) (im : image) (x y : Z) (alpha : option Z) : Z :=
  let p := fetch e im (fixed_to_int (x + 32768)) (fixed_to_int (y + 32768)) in
  match alpha with None => p | Some a => alpha_mul p a end.

(* ---- gradients ---- *)
Definition apply_spread (x : Z) (s : spread) : Z :=
  match s with
  | SpreadPad => if 255 <? x then 255 else if x <? 0 then 0 else x
  | SpreadRepeat => Z.land x 255
  | SpreadReflect => let sign := if Z.testbit x 8 then -1 else 0 in Z.land (Z.lxor x sign) 255
  end.

Definition stop_pos (s : gstop) : Z := to_u32 (fmul f255 (gs_pos s)).

(* Gradient::build_lut; state of the outer loop: i, stop_idx, last_color, next_color, next_pos *)
Section BuildLut.
  Variable stops : list gstop.
  Variable alpha : Z.     (* Alpha256 *)
  Definition nstops := zlen stops.
  Definition stop_at (i : Z) : gstop := nth (Z.to_nat i) stops (mk_gstop f0 0).
  Definition last_stop : gstop := stop_at (nstops - 1).

  (* while next_pos <= i { ... } *)
  Fixpoint advance_stops (fuel : nat) (i idx last next npos : Z) : Z * Z * Z * Z :=
    match fuel with
    | O => (idx, last, next, npos)
    | S k =>
        if npos <=? i then
          let idx := idx + 1 in
          let last := next in
          if nstops <=? idx then (idx, last, alpha_mul (gs_color last_stop) alpha, 255)
          else let s := stop_at idx in advance_stops k i idx last (alpha_mul (gs_color s) alpha) (stop_pos s)
        else (idx, last, next, npos)
    end.
  (* while i <= next_pos && i < 255 { lut[i] = ...; t += inverse; i += 1 } : returns entries in order *)
  Fixpoint fill_run (fuel : nat) (i npos last next inverse t : Z) : list Z * Z :=
    match fuel with
    | O => ([], i)
    | S k =>
        if (i <=? npos) && (i <? 255) then
          let v := premultiply_t (lerp last next (Z.shiftr (t + 128) 8)) in
          let '(rest, i') := fill_run k (i + 1) npos last next inverse (t + inverse) in
          (v :: rest, i')
        else ([], i)
    end.
  Fixpoint lut_loop (fuel : nat) (i idx last next npos : Z) : list Z :=
    match fuel with
    | O => []
    | S k =>
        if i <? 255 then
          let '(idx, last, next, npos) := advance_stops (Z.to_nat nstops + 2) i idx last next npos in
          let inverse := Z.quot 65536 (npos - i) in
          let '(run, i') := fill_run 256 i npos last next inverse 0 in
          run ++ lut_loop k i' idx last next npos
        else []
    end.
  Definition build_lut : list Z :=
    let s0 := stop_at 0 in
    let c0 := alpha_mul (gs_color s0) alpha in
    lut_loop 256 0 0 c0 c0 (stop_pos s0) ++ [premultiply_t (alpha_mul (gs_color last_stop) alpha)].
End BuildLut.

(* ---- shaders ---- *)
Inductive shader :=
  | ShSolid (c : Z)
  | ShImageOffset (im : image) (e : extend_mode) (ox oy : Z) (alpha256 : Z)
  | ShImageXf (im : image) (e : extend_mode) (f : filter_mode) (m : fixmat) (alpha : option Z)
  | ShLinear (lut : list Z) (s : spread) (m : fixmat)
  | ShRadial (lut : list Z) (s : spread) (m : fixmat)
  | ShTwoCircle (lut : list Z) (s : spread) (m : fixmat) (c1 : pt) (r1 : f32) (c2 : pt) (r2 : f32)
  | ShSweep (lut : list Z) (s : spread) (m : fixmat) (t_bias t_scale : f32).

Definition is_integer_transform (t : xform) : option (Z * Z) :=
  if feq (m11 t) f1 && feq (m12 t) f0 && feq (m21 t) f0 && feq (m22 t) f1 then
    let x := to_i32 (m31 t) in let y := to_i32 (m32 t) in
    if feq (of_int x) (m31 t) && feq (of_int y) (m32 t) then Some (x, y) else None
  else None.

Definition f360 : f32 := of_int 360.
Definition f2 : f32 := of_int 2.

Definition choose_shader (ti : xform) (src : source) (alpha : f32) : shader :=
  let alpha := Z.min (unit_to_u32 alpha) 255 in
  match src with
  | Solid c => ShSolid (alpha_mul c (alpha_to_alpha256 alpha))
  | Image im e f t =>
      let m := xf_then ti t in
      match is_integer_transform m with
      | Some (ox, oy) => ShImageOffset im e ox oy (alpha_to_alpha256 alpha)
      | None =>
          let fm := transform_to_fixed (xf_then_translate (xf_pre_translate m fhalf fhalf) (fneg fhalf) (fneg fhalf)) in
          ShImageXf im e f fm (if alpha =? 255 then None else Some (alpha_to_alpha256 alpha))
      end
  | LinearGradient stops s t =>
      ShLinear (build_lut stops (alpha_to_alpha256 alpha)) s (transform_to_fixed (xf_pre_translate (xf_then ti t) fhalf fhalf))
  | RadialGradient stops s t =>
      ShRadial (build_lut stops (alpha_to_alpha256 alpha)) s (transform_to_fixed (xf_pre_translate (xf_then ti t) fhalf fhalf))
  | TwoCircleRadialGradient stops s c1 r1 c2 r2 t =>
      ShTwoCircle (build_lut stops (alpha_to_alpha256 alpha)) s
        (transform_to_fixed (xf_pre_translate (xf_then ti t) fhalf fhalf)) c1 r1 c2 r2
  | SweepGradient stops s a0 a1 t =>
      let t0 := fdiv a0 f360 in let t1 := fdiv a1 f360 in
      ShSweep (build_lut stops (alpha_to_alpha256 alpha)) s
        (transform_to_fixed (xf_pre_translate (xf_then ti t) fhalf fhalf)) (fneg t0) (fdiv f1 (fsub t1 t0))
  end.

Definition lut_at (lut : list Z) (i : Z) : Z := zn lut i.

(* sweep gradient polynomial coefficients (f32 bit patterns of the literals in sw-composite) *)
Definition sw_c0 : f32 := of_bits 1042477225.   (* 0.15912117063999176 *)
Definition sw_c1 : f32 := of_bits 3176424660.   (* -5.185396969318389892578125e-2 *)
Definition sw_c2 : f32 := of_bits 1019926431.   (* 2.476101927459239959716796875e-2 *)
Definition sw_c3 : f32 := of_bits 3152489327.   (* -7.0547382347285747528076171875e-3 *)
Definition fquarter : f32 := of_bits 1048576000.  (* 0.25 *)

Definition shade (sh : shader) (x y : Z) : Z :=
  match sh with
  | ShSolid c => c
  | ShImageOffset im ExtPad ox oy a =>
      alpha_mul (img_at im (clampi (x + ox) 0 (i_w im - 1)) (clampi (y + oy) 0 (i_h im - 1))) a
  | ShImageOffset im ExtRepeat ox oy a =>
      alpha_mul (img_at im (Z.modulo (x + ox) (i_w im)) (Z.modulo (y + oy) (i_h im))) a
  | ShImageXf im e Bilinear m alpha => let '(px, py) := fix_transform m x y in fetch_bilinear e im px py alpha
  | ShImageXf im e Nearest m alpha => let '(px, py) := fix_transform m x y in fetch_nearest e im px py alpha
  | ShLinear lut s m => let '(px, _) := fix_transform m x y in lut_at lut (apply_spread (Z.shiftr px 8) s)
  | ShRadial lut s m =>
      let '(px, py) := fix_transform m x y in
      let fx := of_int px in let fy := of_int py in
      let d := to_i32 (fsqrt (fadd (fmul fx fx) (fmul fy fy))) in
      lut_at lut (apply_spread (Z.shiftr d 8) s)
  | ShTwoCircle lut s m c1 r1 c2 r2 =>
      let '(ix, iy) := fix_transform m x y in
      let px_ := fdiv (of_int ix) f65536 in let py_ := fdiv (of_int iy) f65536 in
      let cdx := fsub (px c2) (px c1) in let cdy := fsub (py c2) (py c1) in
      let pdx := fsub px_ (px c1) in let pdy := fsub py_ (py c1) in
      let dr := fsub r2 r1 in
      let a := fsub (fadd (fmul cdx cdx) (fmul cdy cdy)) (fmul dr dr) in
      let b := fadd (fadd (fmul pdx cdx) (fmul pdy cdy)) (fmul r1 dr) in
      let c := fsub (fadd (fmul pdx pdx) (fmul pdy pdy)) (fmul r1 r1) in
      let discr := fsub (fmul b b) (fmul a c) in
      let res :=
        if feq a f0 then
          let t := fmul fhalf (fdiv c b) in
          if flt (fadd (fmul r1 (fsub f1 t)) (fmul t r2)) f0 then None else Some t
        else if flt discr f0 then None
        else let t1 := fdiv (fadd b (fsqrt discr)) a in
             let t2 := fdiv (fsub b (fsqrt discr)) a in
             Some (if fgt t1 t2 then t1 else t2) in
      match res with
      | None => 0
      | Some t => lut_at lut (apply_spread (to_i32 (fmul t f255)) s)
      end
  | ShSweep lut s m t_bias t_scale =>
      let '(ix, iy) := fix_transform m x y in
      let px_ := fdiv (of_int ix) f65536 in let py_ := fdiv (of_int iy) f65536 in
      let xabs := fabs px_ in let yabs := fabs py_ in
      let slope := fdiv (fmin xabs yabs) (fmax xabs yabs) in
      let s2 := fmul slope slope in
      let phi := fmul slope (fadd sw_c0 (fmul s2 (fadd sw_c1 (fmul s2 (fadd sw_c2 (fmul s2 sw_c3)))))) in
      let phi := if flt xabs yabs then fsub fquarter phi else phi in
      let phi := if flt px_ f0 then fsub fhalf phi else phi in
      let phi := if flt py_ f0 then fsub f1 phi else phi in
      let phi := if fis_nan phi then f0 else phi in
      let t := fsub (fmul phi t_scale) t_bias in
      lut_at lut (apply_spread (to_i32 (fmul t f255)) s)
  end.

(* ---- Source constructors (draw_target.rs:248-299), with euclid's Vector2D::length/normalize ---- *)
Definition new_linear_gradient (stops : list gstop) (start end_ : pt) (s : spread) : source :=
  let vx := fsub (px end_) (px start) in let vy := fsub (py end_) (py start) in
  let length := fsqrt (fadd (fmul vx vx) (fmul vy vy)) in
  if fne length f0 then
    let nx := fdiv vx length in let ny := fdiv vy length in
    let mat := mk_xform nx (fneg ny) ny nx f0 f0 in
    let mat := xf_pre_translate mat (fneg (px start)) (fneg (py start)) in
    let mat := xf_then_scale mat (fdiv f1 length) (fdiv f1 length) in
    LinearGradient stops s mat
  else LinearGradient stops s (xf_scale f0 f0).
(* None: the constructor panics (unwrap of a singular matrix, radius 0) *)
Definition new_radial_gradient (stops : list gstop) (center : pt) (radius : f32) (s : spread) : option source :=
  match xf_inverse (xf_then (xf_scale radius radius) (xf_translation (px center) (py center))) with
  | Some t => Some (RadialGradient stops s t)
  | None => None
  end.
Definition new_two_circle_radial_gradient (stops : list gstop) (c1 : pt) (r1 : f32) (c2 : pt) (r2 : f32) (s : spread) : source :=
  TwoCircleRadialGradient stops s c1 r1 c2 r2 xf_identity.
Definition new_sweep_gradient (stops : list gstop) (center : pt) (a0 a1 : f32) (s : spread) : source :=
  SweepGradient stops s a0 a1 (xf_translation (fneg (px center)) (fneg (py center))).
