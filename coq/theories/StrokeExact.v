(* C04 on the Manhattan sub-domain M: strokes of integer axis-aligned polylines.

     M : integer vertices within +-2048, every segment horizontal, vertical or of length 0 (those are skipped, as
         the stroker does), width 2*h with 1 <= h <= 1024, caps butt or square, joins bevel or miter (any miter
         limit: the two tests the code can make on M are the booleans k_m1 / k_m2 below).

   1. every binary32 operation of stroke_to_path is exact on M: stroke_to_path = the f32 image, op for op, of the
      integer outline zstroke_open / zstroke_closed (lists of integer contours);
   2. every contour is an explicit integer rectangle / right triangle / square;
   3. all contours have the same orientation: the shoelace sum area2 is < 0 for every piece, cap and join at a
      turn (= 0 for the degenerate joins at a straight continuation or a reversal);
   4. winding numbers (Contains.winding_number) of the contours;
   5. examples. *)
From Coq Require Import ZArith Reals Lra Lia List Bool ZifyBool.
From Flocq Require Import Core IEEE754.BinarySingleNaN IEEE754.Binary IEEE754.Bits.
Import Flocq.IEEE754.Binary.
Require Import RQ.Base RQ.F32 RQ.Raster RQ.PathF RQ.PathOps RQ.StrokeProofs RQ.StrokeShape.
Require Import RQ.Contains RQ.GridProofs RQ.ContainsF32 RQ.DashZ RQ.DashPos RQ.DashExact RQ.StrokeHypot.
Import ListNotations.
Open Scope Z_scope.

(* ================================================================================================================== *)
(* 1. EXACTNESS                                                                                                        *)
(* ================================================================================================================== *)

(* ---- 1.1 integer vectors and the floats that hold them ---- *)
Definition zneg (z : zpt) : zpt := (- fst z, - snd z).
Definition zdot (a b : zpt) : Z := fst a * fst b + snd a * snd b.
Definition zcross (a b : zpt) : Z := fst a * snd b - snd a * fst b.
Definition zpt_eqb (a b : zpt) : bool := (fst a =? fst b) && (snd a =? snd b).
Lemma zpt_eqb_eq a b : zpt_eqb a b = true <-> a = b.
Proof.
  destruct a as [a1 a2], b as [b1 b2]. unfold zpt_eqb. cbn [fst snd]. split.
  - intros H. apply andb_prop in H. destruct H as [H1 H2]. apply Z.eqb_eq in H1, H2. subst. reflexivity.
  - intros H. injection H as -> ->. rewrite !Z.eqb_refl. reflexivity.
Qed.

(* v holds the integer vector z (the sign of a zero component is not fixed: the normals of the stroker are
   (-0, 1), (-0, -1), (-1, +0), (1, +0) and their flips) *)
Definition vint (v : pt) (z : zpt) : Prop := fint (px v) (fst z) /\ fint (py v) (snd z).
(* points the stroker computes with: within +-8192 *)
Definition big (p : zpt) : Prop := Z.abs (fst p) <= 8192 /\ Z.abs (snd p) <= 8192.

Lemma pt_ok_big p : pt_ok p -> big p.
Proof. unfold pt_ok, big, cbound. lia. Qed.
Lemma vint_ept z : big z -> vint (ept z) z.
Proof. intros [B1 B2]. split; apply of_int_fint; unfold i24; lia. Qed.
Lemma vflip_val v z : vint v z -> vint (vflip v) (zneg z).
Proof. intros [H1 H2]. split; apply fneg_val; assumption. Qed.
Lemma vswap_val v z : vint v z -> vint (vswap v) (snd z, - fst z).
Proof. intros [H1 H2]. split; [exact H2|apply fneg_val; exact H1]. Qed.
Lemma vperp_val v z : vint v z -> vint (vperp v) (- snd z, fst z).
Proof. intros [H1 H2]. split; [apply fneg_val; exact H2|exact H1]. Qed.

Lemma udir_abs z : udir z -> Z.abs (fst z) <= 1 /\ Z.abs (snd z) <= 1.
Proof. intros [U|[U|[U|U]]]; subst z; cbn [fst snd]; lia. Qed.
Lemma udir_neg z : udir z -> udir (zneg z).
Proof. unfold udir, zneg. intros [U|[U|[U|U]]]; subst z; cbn [fst snd Z.opp]; auto. Qed.

(* side conditions: split the unit directions into their four cases, then linear arithmetic *)
Ltac ub :=
  unfold big, pt_ok, zdot, zcross, zneg, zadd, zsub, zscale in *; unfold i24, cbound in *;
  repeat match goal with U : udir ?w |- _ => destruct U as [U|[U|[U|U]]]; subst w end;
  cbn [fst snd] in *; lia.

Lemma vdot_val a b za zb : vint a za -> vint b zb ->
  Z.abs (fst za * fst zb) <= 8388608 -> Z.abs (snd za * snd zb) <= 8388608 -> fint (vdot a b) (zdot za zb).
Proof.
  intros [A1 A2] [B1 B2] H1 H2. unfold vdot, zdot.
  apply fadd_val; [apply fmul_int_val; [assumption|assumption|unfold i24; lia]
                  |apply fmul_int_val; [assumption|assumption|unfold i24; lia]|unfold i24; lia].
Qed.

(* p + n*h and p - n*h for a unit direction n: the obvious integer point, canonical *)
Lemma fadd_mul_val x n h k : fint n k -> Z.abs k <= 1 -> Z.abs x <= 8192 -> 0 <= h <= 1024 ->
  fadd (of_int x) (fmul n (of_int h)) = of_int (x + k * h).
Proof.
  intros Hn Hk Hx Hh. assert (B : Z.abs (k * h) <= 1024) by nia.
  apply fadd_int_val; unfold i24; [lia|lia|].
  apply fmul_int_val; [exact Hn|apply of_int_fint; unfold i24; lia|unfold i24; lia].
Qed.
Lemma fsub_mul_val x n h k : fint n k -> Z.abs k <= 1 -> Z.abs x <= 8192 -> 0 <= h <= 1024 ->
  fsub (of_int x) (fmul n (of_int h)) = of_int (x - k * h).
Proof.
  intros Hn Hk Hx Hh. assert (B : Z.abs (k * h) <= 1024) by nia.
  apply fsub_int_val; unfold i24; [lia|lia|].
  apply fmul_int_val; [exact Hn|apply of_int_fint; unfold i24; lia|unfold i24; lia].
Qed.

Lemma poff_int p n z h : vint n z -> udir z -> big p -> 0 <= h <= 1024 ->
  poff (ept p) n (of_int h) = ept (zadd p (zscale z h)).
Proof.
  intros [N1 N2] U [B1 B2] Hh. destruct (udir_abs z U) as [K1 K2].
  unfold poff, ept, zadd, zscale, px, py in *. cbn [fst snd].
  rewrite (fadd_mul_val _ _ _ _ N1 K1 B1 Hh), (fadd_mul_val _ _ _ _ N2 K2 B2 Hh). reflexivity.
Qed.
Lemma pofm_int p n z h : vint n z -> udir z -> big p -> 0 <= h <= 1024 ->
  pofm (ept p) n (of_int h) = ept (zsub p (zscale z h)).
Proof.
  intros [N1 N2] U [B1 B2] Hh. destruct (udir_abs z U) as [K1 K2].
  unfold pofm, ept, zsub, zscale, px, py in *. cbn [fst snd].
  rewrite (fsub_mul_val _ _ _ _ N1 K1 B1 Hh), (fsub_mul_val _ _ _ _ N2 K2 B2 Hh). reflexivity.
Qed.
Lemma poff_flip_int p n z h : vint n z -> udir z -> big p -> 0 <= h <= 1024 ->
  poff (ept p) (vflip n) (of_int h) = ept (zsub p (zscale z h)).
Proof.
  intros N U B Hh. rewrite (poff_int p (vflip n) (zneg z) h (vflip_val _ _ N) (udir_neg _ U) B Hh).
  unfold zadd, zsub, zscale, zneg. cbn [fst snd]. f_equal. f_equal; lia.
Qed.
Lemma big_off p z h : pt_ok p -> udir z -> 0 <= h <= 1024 -> big (zadd p (zscale z h)).
Proof. intros P U Hh. ub. Qed.

(* ---- 1.2 the width ---- *)
Lemma half_width_int st h : s_width st = of_int (2 * h) -> 1 <= h <= 1024 ->
  half_width st = of_int h /\ fle (s_width st) f0 = false.
Proof.
  intros W Hh. unfold half_width. rewrite W. split.
  - apply fdiv_int; unfold i24; lia.
  - rewrite (fle_rep _ _ (2 * h) 0 0); [lia|apply fint_frep, of_int_fint; unfold i24; lia|apply frep_f0].
Qed.

(* ---- 1.3 the normal of an axis-aligned segment: exactly (0,+-1) / (+-1,0) ---- *)
Definition znormal (a b : zpt) : zpt := let u := zdir (zsub b a) in (- snd u, fst u).

Lemma znormal_udir a b : axis (zsub b a) -> a <> b -> udir (znormal a b).
Proof.
  intros A Ne. assert (L : 0 < zlen1 (zsub b a)).
  { destruct a as [ax ay], b as [bx by_]. unfold zlen1, zsub. cbn [fst snd].
    destruct (Z.eq_dec bx ax) as [E1|N1]; [|lia]. destruct (Z.eq_dec by_ ay) as [E2|N2]; [|lia].
    exfalso. apply Ne. subst. reflexivity. }
  pose proof (zdir_udir _ A L) as U. unfold znormal. cbv zeta.
  destruct U as [U|[U|[U|U]]]; rewrite U; cbn [fst snd Z.opp]; unfold udir; auto.
Qed.

Lemma compute_normal_int a b : pt_ok a -> pt_ok b -> axis (zsub b a) -> a <> b ->
  exists n, compute_normal (ept a) (ept b) = Some n /\ vint n (znormal a b).
Proof.
  intros [A1 A2] [B1 B2] Ax Ne. destruct a as [ax ay], b as [bx by_].
  unfold compute_normal, znormal, zdir, zsub, axis, ept, px, py, vint, cbound in *. cbn [fst snd] in *. cbv zeta.
  rewrite !fsub_int by (unfold i24; lia).
  assert (Nz : ~ (bx - ax = 0 /\ by_ - ay = 0)) by (intros [E1 E2]; apply Ne; f_equal; lia).
  assert (Hx : Z.abs (bx - ax) <= 4096) by lia. assert (Hy : Z.abs (by_ - ay) <= 4096) by lia.
  revert Ax Nz Hx Hy. generalize (bx - ax) as dx, (by_ - ay) as dy. intros dx dy Ax Nz Hx Hy.
  change f0 with (of_int 0).
  destruct Ax as [E|E]; subst.
  - destruct (fhypot_axis dy Hy) as [_ Hh]. rewrite Hh, feq_int by (unfold i24; lia).
    replace (Z.abs dy =? 0) with false by lia. eexists. split; [reflexivity|]. cbn [fst snd Z.sgn].
    pose proof (Z.sgn_abs dy) as S. split.
    + apply (fdiv_val _ _ (- dy) (Z.abs dy)); [apply fneg_val, of_int_fint|apply of_int_fint|lia|lia|unfold i24; lia]; unfold i24; lia.
    + apply (fdiv_val _ _ 0 (Z.abs dy)); [apply of_int_fint|apply of_int_fint|lia|lia|unfold i24; lia]; unfold i24; lia.
  - destruct (fhypot_axis dx Hx) as [Hh _]. rewrite Hh, feq_int by (unfold i24; lia).
    replace (Z.abs dx =? 0) with false by lia. eexists. split; [reflexivity|]. cbn [fst snd Z.sgn].
    pose proof (Z.sgn_abs dx) as S. split.
    + apply (fdiv_val _ _ (- 0) (Z.abs dx)); [apply fneg_val, of_int_fint|apply of_int_fint|lia|lia|unfold i24; lia]; unfold i24; lia.
    + apply (fdiv_val _ _ dx (Z.abs dx)); [apply of_int_fint|apply of_int_fint|lia|lia|unfold i24; lia]; unfold i24; lia.
Qed.

Lemma compute_normal_same a : pt_ok a -> compute_normal (ept a) (ept a) = None.
Proof.
  intros [A1 A2]. unfold cbound in *.
  apply compute_normal_refl; unfold ffinite, ept, px, py; cbn [fst snd]; apply of_int_fint; unfold i24; lia.
Qed.

(* ---- 1.4 the integer outline ---- *)
(* the style on M: half width, cap, join, and the outcome of the two miter-limit tests the code can make on M:
   k_m1 at a right-angle turn, k_m2 at a straight continuation (see mlimit below) *)
Record zstyle := mk_zstyle { k_h : Z; k_cap : line_cap; k_join : line_join; k_m1 : bool; k_m2 : bool }.

Definition zseg : Type := (zpt * zpt * zpt)%type.
Definition zg_a (s : zseg) : zpt := fst (fst s).
Definition zg_b (s : zseg) : zpt := snd (fst s).
Definition zg_n (s : zseg) : zpt := snd s.

(* the segments of the polyline c, p1, p2, ... : zero-length ones are skipped *)
Fixpoint zsegs (c : zpt) (pts : list zpt) : list zseg :=
  match pts with
  | [] => []
  | p :: t => if zpt_eqb c p then zsegs p t else (c, p, znormal c p) :: zsegs p t
  end.
Fixpoint zend (c : zpt) (pts : list zpt) : zpt := match pts with [] => c | p :: t => zend p t end.
Definition zcyc_segs (p0 : zpt) (pts : list zpt) : list zseg :=
  match zsegs p0 pts with
  | [] => []
  | s :: t => (s :: t) ++ zsegs (zend p0 pts) [zg_a s]
  end.

(* the contours (vertex lists, in output order) *)
(* segment a -> b, normal n: the rectangle a+nh, b+nh, b-nh, a-nh walked through b and a *)
Definition zpiece (h : Z) (s : zseg) : list zpt :=
  let a := zg_a s in let b := zg_b s in let nh := zscale (zg_n s) h in
  [zadd a nh; zadd b nh; b; zsub b nh; zsub a nh; a].
(* bevel: the triangle p+t1 h, p+t2 h, p;  miter: the square p+t1 h, p+t1 h+t2 h, p+t2 h, p *)
Definition ztri (h : Z) (p t1 t2 : zpt) : list zpt := [zadd p (zscale t1 h); zadd p (zscale t2 h); p].
Definition zquad (h : Z) (p t1 t2 : zpt) : list zpt :=
  [zadd p (zscale t1 h); zadd (zadd p (zscale t1 h)) (zscale t2 h); zadd p (zscale t2 h); p].
(* the join is drawn on the outer side: on the inner side of the turn (cross > 0) or when the normals are equal,
   both normals are flipped and swapped *)
Definition z_interior (a b : zpt) : bool := (0 <? zcross a b) || zpt_eqb a b.
Definition zjoin_normals (s1 s2 : zpt) : zpt * zpt := if z_interior s1 s2 then (zneg s2, zneg s1) else (s1, s2).
Definition zjoin (k : zstyle) (p s1 s2 : zpt) : list (list zpt) :=
  let '(t1, t2) := zjoin_normals s1 s2 in
  match k_join k with
  | JoinBevel => [ztri (k_h k) p t1 t2]
  | JoinMiter =>
      if zdot t1 t2 =? 0 then (if k_m1 k then [zquad (k_h k) p t1 t2] else [ztri (k_h k) p t1 t2])   (* a turn *)
      else if zdot t1 t2 =? 1 then (if k_m2 k then [] else [ztri (k_h k) p t1 t2])                   (* straight on *)
      else [ztri (k_h k) p t1 t2]                                                                    (* reversal *)
  | JoinRound => []
  end.
(* square cap at p, n the normal handed to cap_line: p pushed by h along (ny, -nx) *)
Definition zcap (k : zstyle) (p n : zpt) : list (list zpt) :=
  match k_cap k with
  | CapSquare =>
      let h := k_h k in let e := zadd p (zscale (snd n, - fst n) h) in let nh := zscale n h in
      [[zadd p nh; zadd e nh; zsub e nh; zsub p nh; p]]
  | _ => []
  end.

Fixpoint zjoined (k : zstyle) (ln : zpt) (l : list zseg) : list (list zpt) :=
  match l with
  | [] => []
  | s :: t => zjoin k (zg_a s) ln (zg_n s) ++ [zpiece (k_h k) s] ++ zjoined k (zg_n s) t
  end.
Fixpoint zfinal (ln : zpt) (l : list zseg) : zpt := match l with [] => ln | s :: t => zfinal (zg_n s) t end.
Definition zopen_shapes (k : zstyle) (l : list zseg) (e : zpt) : list (list zpt) :=
  match l with
  | [] => []
  | s :: t => [zpiece (k_h k) s] ++ zjoined k (zg_n s) t
              ++ zcap k e (zfinal (zg_n s) t) ++ zcap k (zg_a s) (zneg (zg_n s))
  end.
Definition zclosed_shapes (k : zstyle) (l : list zseg) : list (list zpt) :=
  match l with
  | [] => []
  | s :: t => [zpiece (k_h k) s] ++ zjoined k (zg_n s) t ++ zjoin k (zg_a s) (zfinal (zg_n s) t) (zg_n s)
  end.

(* THE INTEGER OUTLINE of MoveTo p0, LineTo pts [, Close] *)
Definition zstroke_open (k : zstyle) (p0 : zpt) (pts : list zpt) : list (list zpt) :=
  zopen_shapes k (zsegs p0 pts) (zend p0 pts).
Definition zstroke_closed (k : zstyle) (p0 : zpt) (pts : list zpt) : list (list zpt) :=
  zclosed_shapes k (zcyc_segs p0 pts).

(* contours as ops *)
Definition zcontour_ops (c : list zpt) : list zop :=
  match c with [] => [] | p :: t => ZMove p :: map ZLine t ++ [ZClose] end.
Definition zoutline_ops (cs : list (list zpt)) : list zop := flat_map zcontour_ops cs.

Lemma polygon_ept c : polygon (map ept c) = map eop (zcontour_ops c).
Proof.
  destruct c as [|p t]; [reflexivity|]. cbn [map polygon zcontour_ops]. f_equal.
  rewrite map_app, map_eop_ZLine. reflexivity.
Qed.
Lemma zoutline_ops_app a b : zoutline_ops (a ++ b) = zoutline_ops a ++ zoutline_ops b.
Proof. unfold zoutline_ops. apply flat_map_app. Qed.
Lemma eout_app a b : map eop (zoutline_ops (a ++ b)) = map eop (zoutline_ops a) ++ map eop (zoutline_ops b).
Proof. rewrite zoutline_ops_app. apply map_app. Qed.
Lemma eout_one c : map eop (zoutline_ops [c]) = polygon (map ept c).
Proof. unfold zoutline_ops. cbn [flat_map]. rewrite app_nil_r. symmetry. apply polygon_ept. Qed.

(* ---- 1.5 the style ---- *)
(* the miter-limit test of the code, `2 <= limit*limit*(1 - in_dot_out)`, with 1 - in_dot_out = k *)
Definition mlimit (m : f32) (k : Z) : bool := fle (of_int 2) (fmul (fmul m m) (of_int k)).

Definition style_ok (st : stroke_style) (k : zstyle) : Prop :=
  s_width st = of_int (2 * k_h k) /\ 1 <= k_h k <= 1024 /\
  s_cap st = k_cap k /\ k_cap k <> CapRound /\ s_join st = k_join k /\ k_join k <> JoinRound /\
  k_m1 k = mlimit (s_miter st) 1 /\ k_m2 k = mlimit (s_miter st) 2.
Definition zstyle_of (st : stroke_style) (h : Z) : zstyle :=
  mk_zstyle h (s_cap st) (s_join st) (mlimit (s_miter st) 1) (mlimit (s_miter st) 2).
Lemma zstyle_of_ok st h : s_width st = of_int (2 * h) -> 1 <= h <= 1024 -> s_cap st <> CapRound -> s_join st <> JoinRound ->
  style_ok st (zstyle_of st h).
Proof. intros. unfold style_ok, zstyle_of. cbn. tauto. Qed.

(* limit*limit*0 is zero or NaN, never >= 2: at a reversal the miter join always falls back to the bevel *)
Lemma mlimit_0 m : mlimit m 0 = false.
Proof.
  unfold mlimit. change (of_int 0) with f0. rewrite f0_zero.
  destruct (fmul m m) as [s|s|s pl e|s mm e Hb]; try (destruct s; reflexivity).
Qed.
(* for an integer limit M: the test at a turn is 2 <= M*M, on a straight continuation 2 <= 2*M*M *)
Lemma mlimit_int M k : 0 <= M <= 2048 -> 0 <= k <= 2 -> mlimit (of_int M) k = (2 <=? M * M * k).
Proof.
  intros HM Hk. unfold mlimit. assert (B : M * M <= 4194304) by nia.
  apply (fle_rep _ _ _ _ 0); [apply fint_frep, of_int_fint; unfold i24; lia|].
  apply fint_frep. apply fmul_int_val; [|apply of_int_fint; unfold i24; lia|unfold i24; nia].
  apply fmul_int_val; [apply of_int_fint; unfold i24; lia|apply of_int_fint; unfold i24; lia|unfold i24; lia].
Qed.

(* ---- 1.6 the shapes, one by one ---- *)
Definition seg_rel (s : seg) (z : zseg) : Prop :=
  seg_a s = ept (zg_a z) /\ seg_b s = ept (zg_b z) /\ vint (seg_n s) (zg_n z).
Definition zseg_ok (z : zseg) : Prop :=
  pt_ok (zg_a z) /\ pt_ok (zg_b z) /\ axis (zsub (zg_b z) (zg_a z)) /\ zg_a z <> zg_b z /\
  zg_n z = znormal (zg_a z) (zg_b z).
Lemma zseg_ok_udir z : zseg_ok z -> udir (zg_n z).
Proof. intros (_ & _ & A & Ne & E). rewrite E. apply znormal_udir; assumption. Qed.

(* the piece of a segment *)
Lemma piece_int h s z : 0 <= h <= 1024 -> seg_rel s z -> zseg_ok z ->
  piece_ops (of_int h) s = map eop (zoutline_ops [zpiece h z]).
Proof.
  intros Hh (Ea & Eb & Hn) Ok. pose proof (zseg_ok_udir z Ok) as U. destruct Ok as (Pa & Pb & _).
  rewrite eout_one. unfold piece_ops, piece. rewrite segment_piece_points, app_nil_r, rev_involutive, Ea, Eb.
  rewrite !(poff_int _ _ _ _ Hn U), (poff_flip_int _ _ _ _ Hn U), (pofm_int _ _ _ _ Hn U)
    by (first [assumption|apply pt_ok_big; assumption]).
  reflexivity.
Qed.

(* which side of the turn *)
Lemma is_interior_int s1 s2 z1 z2 : vint s1 z1 -> vint s2 z2 -> udir z1 -> udir z2 ->
  is_interior_angle s1 s2 = z_interior z1 z2.
Proof.
  intros V1 V2 U1 U2. unfold is_interior_angle, pt_eqb, z_interior, zpt_eqb.
  assert (D : fint (vdot (vperp s1) s2) (zdot (- snd z1, fst z1) z2)).
  { apply vdot_val; [apply vperp_val, V1|exact V2|cbn [fst snd]; ub|cbn [fst snd]; ub]. }
  rewrite (fgt0_val _ _ D). destruct V1 as [A1 A2], V2 as [B1 B2].
  rewrite (feq_val _ _ _ _ A1 B1), (feq_val _ _ _ _ A2 B2).
  f_equal. unfold zdot, zcross. cbn [fst snd]. f_equal. lia.
Qed.
Lemma join_normals_int s1 s2 z1 z2 : vint s1 z1 -> vint s2 z2 -> udir z1 -> udir z2 ->
  vint (fst (join_normals s1 s2)) (fst (zjoin_normals z1 z2)) /\
  vint (snd (join_normals s1 s2)) (snd (zjoin_normals z1 z2)) /\
  udir (fst (zjoin_normals z1 z2)) /\ udir (snd (zjoin_normals z1 z2)).
Proof.
  intros V1 V2 U1 U2. unfold join_normals, zjoin_normals. rewrite (is_interior_int _ _ _ _ V1 V2 U1 U2).
  destruct (z_interior z1 z2); cbn [fst snd].
  - split; [apply vflip_val, V2|]. split; [apply vflip_val, V1|]. split; apply udir_neg; assumption.
  - tauto.
Qed.

(* the miter-limit test *)
Lemma within_miter_limit_int st t1 t2 w1 w2 : vint t1 w1 -> vint t2 w2 -> udir w1 -> udir w2 ->
  within_miter_limit st t1 t2 = mlimit (s_miter st) (1 + zdot w1 w2).
Proof.
  intros V1 V2 U1 U2. unfold within_miter_limit, mlimit.
  assert (D : fint (fadd (fmul (fneg (px t1)) (px t2)) (fmul (fneg (py t1)) (py t2))) (zdot (zneg w1) w2)).
  { apply (vdot_val (vflip t1) t2); [apply vflip_val, V1|exact V2|ub|ub]. }
  assert (B1 : Z.abs 1 <= i24) by (unfold i24; lia).
  assert (B2 : Z.abs (1 - zdot (zneg w1) w2) <= i24) by ub.
  change f1 with (of_int 1). rewrite (fsub_int_val 1 _ _ B1 B2 D).
  do 3 f_equal. unfold zdot, zneg. cbn [fst snd]. lia.
Qed.

(* the meeting point of the two offset lines at a turn *)
Lemma psub_big p c : big p -> big c -> psub (ept p) (ept c) = ept (zsub p c).
Proof.
  intros [P1 P2] [C1 C2]. unfold psub, ept, zsub, px, py. cbn [fst snd].
  rewrite !fsub_int; unfold i24; try lia. reflexivity.
Qed.

Lemma line_intersection_turn p h t1 t2 w1 w2 : vint t1 w1 -> vint t2 w2 -> udir w1 -> udir w2 -> zdot w1 w2 = 0 ->
  pt_ok p -> 0 <= h <= 1024 ->
  line_intersection (ept (zadd p (zscale w1 h))) t1 (ept (zadd p (zscale w2 h))) t2 =
  Some (ept (zadd (zadd p (zscale w1 h)) (zscale w2 h))).
Proof.
  intros V1 V2 U1 U2 D0 P Hh. unfold line_intersection. cbv zeta.
  rewrite psub_big by (apply big_off; assumption).
  set (A := zadd p (zscale w1 h)). set (B := zadd p (zscale w2 h)).
  set (ap := (snd w1, - fst w1)). pose proof (vswap_val _ _ V1) as Vp. fold ap in Vp.
  assert (Hd : fint (vdot t2 (vswap t1)) (zdot w2 ap)) by (apply vdot_val; [exact V2|exact Vp|subst ap; ub|subst ap; ub]).
  assert (Hn : fint (vdot t2 (ept (zsub B A))) (zdot w2 (zsub B A))).
  { apply vdot_val; [exact V2|apply vint_ept; subst A B; ub|subst A B; ub|subst A B; ub]. }
  rewrite (feq0_val _ _ Hd). replace (zdot w2 ap =? 0) with false by (subst ap; ub).
  assert (Ht : fint (fdiv (vdot t2 (ept (zsub B A))) (vdot t2 (vswap t1))) (zdot w2 (zsub B A) * zdot w2 ap)).
  { apply (fdiv_val _ _ _ _ _ Hn Hd); subst A B ap; ub. }
  pose proof Vp as [Vp1 Vp2].
  change (px (ept A)) with (of_int (fst A)). change (py (ept A)) with (of_int (snd A)).
  set (q := zdot w2 (zsub B A) * zdot w2 ap) in *.
  assert (Q : q = h * zdot w2 ap) by (subst q A B ap; ub).
  assert (M1 : fint (fmul (fdiv (vdot t2 (ept (zsub B A))) (vdot t2 (vswap t1))) (px (vswap t1))) (q * fst ap)).
  { apply (fmul_int_val _ _ _ _ Ht Vp1). rewrite Q. subst A B ap. ub. }
  assert (M2 : fint (fmul (fdiv (vdot t2 (ept (zsub B A))) (vdot t2 (vswap t1))) (py (vswap t1))) (q * snd ap)).
  { apply (fmul_int_val _ _ _ _ Ht Vp2). rewrite Q. subst A B ap. ub. }
  assert (A1 : Z.abs (fst A) <= i24) by (subst A; ub). assert (A2 : Z.abs (snd A) <= i24) by (subst A; ub).
  assert (S1 : Z.abs (fst A + q * fst ap) <= i24) by (rewrite Q; subst A ap; ub).
  assert (S2 : Z.abs (snd A + q * snd ap) <= i24) by (rewrite Q; subst A ap; ub).
  rewrite (fadd_int_val (fst A) _ _ A1 S1 M1), (fadd_int_val (snd A) _ _ A2 S2 M2). rewrite Q.
  unfold ept. apply f_equal. apply f_equal2; apply f_equal; subst q A B ap; ub.
Qed.

(* on a straight continuation the offset lines are parallel: no meeting point *)
Lemma line_intersection_straight a b t1 t2 w1 w2 : vint t1 w1 -> vint t2 w2 -> udir w1 -> udir w2 -> zdot w1 w2 = 1 ->
  line_intersection a t1 b t2 = None.
Proof.
  intros V1 V2 U1 U2 D1. unfold line_intersection. cbv zeta.
  pose proof (vswap_val _ _ V1) as Vp.
  assert (Hd : fint (vdot t2 (vswap t1)) (zdot w2 (snd w1, - fst w1))) by (apply vdot_val; [exact V2|exact Vp|ub|ub]).
  rewrite (feq0_val _ _ Hd). replace (zdot w2 (snd w1, - fst w1) =? 0) with true by ub. reflexivity.
Qed.

(* the join at p between the normals s1 (incoming) and s2 (outgoing) *)
Lemma join_int st k p s1 s2 z1 z2 : style_ok st k -> pt_ok p -> vint s1 z1 -> vint s2 z2 -> udir z1 -> udir z2 ->
  join_ops st (ept p) s1 s2 = map eop (zoutline_ops (zjoin k p z1 z2)).
Proof.
  intros (W & Hh & _ & _ & J & JR & M1 & M2) P V1 V2 U1 U2.
  destruct (half_width_int st _ W Hh) as [HW _]. unfold half_width in HW.
  assert (Hh' : 0 <= k_h k <= 1024) by lia.
  destruct (join_normals_int _ _ _ _ V1 V2 U1 U2) as (T1 & T2 & X1 & X2).
  unfold join_ops, zjoin. rewrite join_line_oriented.
  destruct (join_normals s1 s2) as [t1 t2], (zjoin_normals z1 z2) as [w1 w2]. cbn [fst snd] in *. cbv zeta.
  rewrite HW, J.
  assert (Tri : rev (rev (polygon [poff (ept p) t1 (of_int (k_h k)); poff (ept p) t2 (of_int (k_h k)); ept p]) ++ []) =
                map eop (zoutline_ops [ztri (k_h k) p w1 w2])).
  { rewrite app_nil_r, rev_involutive, eout_one. unfold ztri.
    rewrite (poff_int _ _ _ _ T1 X1), (poff_int _ _ _ _ T2 X2) by (first [assumption|apply pt_ok_big; assumption]). reflexivity. }
  destruct (k_join k); [contradiction| |exact Tri].
  fold (within_miter_limit st t1 t2). rewrite (within_miter_limit_int st _ _ _ _ T1 T2 X1 X2).
  rewrite !(poff_int _ _ _ _ T1 X1), !(poff_int _ _ _ _ T2 X2) in * by (first [assumption|apply pt_ok_big; assumption]).
  assert (Dv : zdot w1 w2 = 0 \/ zdot w1 w2 = 1 \/ zdot w1 w2 = -1) by ub.
  destruct Dv as [D|[D|D]]; rewrite D; cbn [Z.eqb Pos.eqb].
  - change (1 + 0) with 1. rewrite <- M1. destruct (k_m1 k); [|exact Tri].
    rewrite (line_intersection_turn p _ t1 t2 w1 w2 T1 T2 X1 X2 D P Hh').
    rewrite app_nil_r, rev_involutive, eout_one. reflexivity.
  - change (1 + 1) with 2. rewrite <- M2. destruct (k_m2 k); [|exact Tri].
    rewrite (line_intersection_straight _ _ t1 t2 w1 w2 T1 T2 X1 X2 D). reflexivity.
  - change (1 + -1) with 0. rewrite mlimit_0. exact Tri.
Qed.

(* the cap at p, n the normal handed to cap_line *)
Lemma cap_int st k p n z : style_ok st k -> pt_ok p -> vint n z -> udir z ->
  cap_ops st (ept p) n = map eop (zoutline_ops (zcap k p z)).
Proof.
  intros (W & Hh & C & CR & _) P V U.
  destruct (half_width_int st _ W Hh) as [HW _]. unfold half_width in HW.
  assert (Hh' : 0 <= k_h k <= 1024) by lia.
  unfold cap_ops, zcap. destruct (k_cap k) eqn:E; [contradiction| |].
  - rewrite (square_cap_points [] st _ _ C). cbv zeta. rewrite HW, app_nil_r, rev_involutive, eout_one.
    change (padd (ept p) (vscale (vswap n) (of_int (k_h k)))) with (poff (ept p) (vswap n) (of_int (k_h k))).
    assert (Us : udir (snd z, - fst z)) by (unfold udir in *; destruct U as [U|[U|[U|U]]]; subst z; cbn [fst snd Z.opp]; auto).
    rewrite (poff_int _ _ _ _ (vswap_val _ _ V) Us (pt_ok_big _ P) Hh').
    pose proof (big_off p _ _ P Us Hh') as Be.
    rewrite !(poff_int _ _ _ _ V U), (poff_flip_int _ _ _ _ V U), (pofm_int _ _ _ _ V U)
      by (first [assumption|apply pt_ok_big; assumption]).
    reflexivity.
  - rewrite (butt_cap_points [] st _ _ C). reflexivity.
Qed.

(* ---- 1.7 segments, chains, outlines ---- *)
Lemma zsegs_start c pts s t : zsegs c pts = s :: t -> zg_a s = c.
Proof.
  revert c. induction pts as [|p r IH]; intros c H; [discriminate|]. cbn [zsegs] in H.
  destruct (zpt_eqb c p) eqn:E.
  - apply zpt_eqb_eq in E. subst p. apply IH, H.
  - injection H as <- _. reflexivity.
Qed.

Lemma segs_int pts : forall c, pt_ok c -> Forall pt_ok pts -> poly_axis c pts ->
  Forall2 seg_rel (segs (ept c) (map ept pts)) (zsegs c pts) /\ Forall zseg_ok (zsegs c pts).
Proof.
  induction pts as [|p t IH]; intros c Pc Pp Ax; [split; constructor|].
  inversion Pp as [|? ? P1 P2]; subst. destruct Ax as [A1 A2]. destruct (IH p P1 P2 A2) as [R O].
  cbn [map segs zsegs]. destruct (zpt_eqb c p) eqn:E.
  - apply zpt_eqb_eq in E. subst p. rewrite (compute_normal_same c Pc). split; assumption.
  - assert (Ne : c <> p) by (intros X; apply zpt_eqb_eq in X; congruence).
    destruct (compute_normal_int c p Pc P1 A1 Ne) as (n & En & Vn). rewrite En. split.
    + constructor; [|exact R]. repeat split; try reflexivity; apply Vn.
    + constructor; [|exact O]. unfold zseg_ok, zg_a, zg_b, zg_n. cbn [fst snd]. tauto.
Qed.
Lemma end_pt_int pts : forall c, end_pt (ept c) (map ept pts) = ept (zend c pts).
Proof. induction pts as [|p t IH]; intros c; [reflexivity|apply IH]. Qed.
Lemma zend_ok pts : forall c, pt_ok c -> Forall pt_ok pts -> pt_ok (zend c pts).
Proof. induction pts as [|p t IH]; intros c Pc Pp; [exact Pc|]. inversion Pp; subst. apply IH; assumption. Qed.
Lemma poly_axis_app pts q : forall c, poly_axis c (pts ++ [q]) <-> poly_axis c pts /\ axis (zsub q (zend c pts)).
Proof.
  induction pts as [|p t IH]; intros c; cbn [app poly_axis zend]; [tauto|]. rewrite IH. tauto.
Qed.

Lemma joined_int st k l : forall zl ln zln, style_ok st k -> Forall2 seg_rel l zl -> Forall zseg_ok zl ->
  vint ln zln -> udir zln ->
  joined_ops st (of_int (k_h k)) ln l = map eop (zoutline_ops (zjoined k zln zl)) /\
  vint (final_normal ln l) (zfinal zln zl) /\ udir (zfinal zln zl).
Proof.
  induction l as [|s t IH]; intros zl ln zln S R O V U; inversion R as [|? z ? zt Rs Rt]; subst.
  - cbn [joined_ops zjoined final_normal zfinal]. split; [reflexivity|split; assumption].
  - inversion O as [|? ? Oz Ot]; subst. pose proof (zseg_ok_udir _ Oz) as Un.
    pose proof Rs as (Ea & Eb & Vn). pose proof Oz as (Pa & _).
    destruct (IH zt (seg_n s) (zg_n z) S Rt Ot Vn Un) as (E & F1 & F2).
    cbn [joined_ops zjoined final_normal zfinal]. split; [|split; assumption].
    rewrite !eout_app, <- E, Ea, (join_int st k _ _ _ _ _ S Pa V Vn U Un).
    rewrite (piece_int (k_h k) s z ltac:(destruct S as (_ & ? & _); lia) Rs Oz). reflexivity.
Qed.

Lemma open_shapes_int st k l zl e : style_ok st k -> Forall2 seg_rel l zl -> Forall zseg_ok zl -> pt_ok e ->
  open_shapes st (of_int (k_h k)) l (ept e) = map eop (zoutline_ops (zopen_shapes k zl e)).
Proof.
  intros S R O Pe. inversion R as [|s z t zt Rs Rt]; subst; [reflexivity|].
  inversion O as [|? ? Oz Ot]; subst. pose proof (zseg_ok_udir _ Oz) as Un.
  pose proof Rs as (Ea & Eb & Vn). pose proof Oz as (Pa & _).
  destruct (joined_int st k t zt (seg_n s) (zg_n z) S Rt Ot Vn Un) as (E & F1 & F2).
  unfold open_shapes, zopen_shapes. rewrite !eout_app, <- E, Ea.
  rewrite (piece_int (k_h k) s z ltac:(destruct S as (_ & ? & _); lia) Rs Oz).
  rewrite (cap_int st k e _ _ S Pe F1 F2).
  rewrite (cap_int st k _ _ _ S Pa (vflip_val _ _ Vn) (udir_neg _ Un)). reflexivity.
Qed.
Lemma closed_shapes_int st k l zl : style_ok st k -> Forall2 seg_rel l zl -> Forall zseg_ok zl ->
  closed_shapes st (of_int (k_h k)) l = map eop (zoutline_ops (zclosed_shapes k zl)).
Proof.
  intros S R O. inversion R as [|s z t zt Rs Rt]; subst; [reflexivity|].
  inversion O as [|? ? Oz Ot]; subst. pose proof (zseg_ok_udir _ Oz) as Un.
  pose proof Rs as (Ea & Eb & Vn). pose proof Oz as (Pa & _).
  destruct (joined_int st k t zt (seg_n s) (zg_n z) S Rt Ot Vn Un) as (E & F1 & F2).
  unfold closed_shapes, zclosed_shapes. rewrite !eout_app, <- E, Ea.
  rewrite (piece_int (k_h k) s z ltac:(destruct S as (_ & ? & _); lia) Rs Oz).
  rewrite (join_int st k _ _ _ _ _ S Pa F1 Vn F2 Un). reflexivity.
Qed.

(* ---- 1.8 MAIN THEOREMS: on M the stroker is the integer outline, op for op ---- *)
Theorem stroke_exact_open st k p0 pts w :
  style_ok st k -> pt_ok p0 -> Forall pt_ok pts -> poly_axis p0 pts ->
  stroke_to_path (mk_path (MoveTo (ept p0) :: map LineTo (map ept pts)) w) st =
  Ok (mk_path (map eop (zoutline_ops (zstroke_open k p0 pts))) NonZero).
Proof.
  intros S P0 Pp Ax. pose proof S as (W & Hh & _).
  destruct (half_width_int st _ W Hh) as [HW Hw].
  rewrite (stroke_open_polyline_gen _ _ _ _ Hw), open_outline_forward, HW, end_pt_int.
  destruct (segs_int pts p0 P0 Pp Ax) as [R O].
  rewrite (open_shapes_int st k _ _ _ S R O (zend_ok _ _ P0 Pp)). reflexivity.
Qed.
Print Assumptions stroke_exact_open.

Theorem stroke_exact_closed st k p0 pts w :
  style_ok st k -> pt_ok p0 -> Forall pt_ok pts -> poly_axis p0 (pts ++ [p0]) ->
  stroke_to_path (mk_path (MoveTo (ept p0) :: map LineTo (map ept pts) ++ [Close]) w) st =
  Ok (mk_path (map eop (zoutline_ops (zstroke_closed k p0 pts))) NonZero).
Proof.
  intros S P0 Pp Ax. pose proof S as (W & Hh & _). apply poly_axis_app in Ax. destruct Ax as [Ax Ac].
  destruct (half_width_int st _ W Hh) as [HW Hw].
  rewrite (stroke_closed_polyline_gen _ _ _ _ Hw), closed_outline_forward, HW.
  destruct (segs_int pts p0 P0 Pp Ax) as [R O].
  assert (RC : Forall2 seg_rel (cyc_segs (ept p0) (map ept pts)) (zcyc_segs p0 pts) /\ Forall zseg_ok (zcyc_segs p0 pts)).
  { unfold cyc_segs, zcyc_segs. rewrite end_pt_int.
    destruct (zsegs p0 pts) as [|z zt] eqn:Ez; inversion R as [|s ? t ? Rs Rt]; subst; [split; constructor|].
    pose proof (zsegs_start _ _ _ _ Ez) as Ea. destruct Rs as (Es & Rs'). rewrite Es, Ea.
    destruct (segs_int [p0] (zend p0 pts) (zend_ok _ _ P0 Pp) (Forall_cons _ P0 (Forall_nil _))) as [R2 O2].
    { split; [exact Ac|exact I]. }
    split; [apply Forall2_app; [|exact R2]|apply Forall_app; split; assumption].
    constructor; [|exact Rt]. split; [exact Es|exact Rs']. }
  destruct RC as [RC OC]. rewrite (closed_shapes_int st k _ _ S RC OC). reflexivity.
Qed.
Print Assumptions stroke_exact_closed.

(* ================================================================================================================== *)
(* 2. SHAPES: every contour of the integer outline is an explicit rectangle, right triangle or square                  *)
(* ================================================================================================================== *)

(* the square cap as a vertex list *)
Definition zcap_rect (h : Z) (p n : zpt) : list zpt :=
  let e := zadd p (zscale (snd n, - fst n) h) in let nh := zscale n h in
  [zadd p nh; zadd e nh; zsub e nh; zsub p nh; p].

(* the four kinds of contour *)
Inductive zshape (h : Z) : list zpt -> Prop :=
  | sh_piece z : zseg_ok z -> zshape h (zpiece h z)
      (* the rectangle of half-width h around the segment, 6 vertices *)
  | sh_cap p n : pt_ok p -> udir n -> zshape h (zcap_rect h p n)
      (* the h x 2h rectangle beyond the end point, 5 vertices *)
  | sh_tri p t1 t2 : pt_ok p -> udir t1 -> udir t2 -> zcross t1 t2 <= 0 -> zshape h (ztri h p t1 t2)
      (* bevel: right triangle with legs h (zcross = -1); degenerate when t1 = t2 or t1 = -t2 (zcross = 0) *)
  | sh_quad p t1 t2 : pt_ok p -> udir t1 -> udir t2 -> zcross t1 t2 < 0 -> zshape h (zquad h p t1 t2).
      (* miter at a right angle: the h x h square *)

Lemma zjoin_normals_cross z1 z2 : udir z1 -> udir z2 ->
  udir (fst (zjoin_normals z1 z2)) /\ udir (snd (zjoin_normals z1 z2)) /\
  zcross (fst (zjoin_normals z1 z2)) (snd (zjoin_normals z1 z2)) <= 0.
Proof.
  intros U1 U2. unfold zjoin_normals, z_interior, zpt_eqb.
  destruct U1 as [U|[U|[U|U]]]; subst z1; destruct U2 as [U|[U|[U|U]]]; subst z2;
    cbn; unfold udir, zcross; cbn; (split; [auto 6|split; [auto 6|lia]]).
Qed.

Lemma zjoin_shapes k p z1 z2 : pt_ok p -> udir z1 -> udir z2 -> Forall (zshape (k_h k)) (zjoin k p z1 z2).
Proof.
  intros P U1 U2. destruct (zjoin_normals_cross z1 z2 U1 U2) as (X1 & X2 & C). unfold zjoin.
  destruct (zjoin_normals z1 z2) as [t1 t2]. cbn [fst snd] in *.
  assert (T : Forall (zshape (k_h k)) [ztri (k_h k) p t1 t2]) by (constructor; [apply sh_tri; assumption|constructor]).
  destruct (k_join k); [constructor| |exact T].
  destruct (zdot t1 t2 =? 0) eqn:D0.
  - destruct (k_m1 k); [|exact T]. constructor; [|constructor]. apply sh_quad; try assumption.
    assert (zcross t1 t2 <> 0); [|lia]. clear T C. apply Z.eqb_eq in D0. ub.
  - destruct (zdot t1 t2 =? 1); [destruct (k_m2 k); [constructor|exact T]|exact T].
Qed.
Lemma zcap_shapes k p n : pt_ok p -> udir n -> Forall (zshape (k_h k)) (zcap k p n).
Proof.
  intros P U. unfold zcap. destruct (k_cap k); [constructor| |constructor].
  constructor; [apply (sh_cap (k_h k) p n P U)|constructor].
Qed.
Lemma zjoined_shapes k zl : forall zln, Forall zseg_ok zl -> udir zln ->
  Forall (zshape (k_h k)) (zjoined k zln zl) /\ udir (zfinal zln zl).
Proof.
  induction zl as [|z t IH]; intros zln O U; [split; [constructor|exact U]|].
  inversion O as [|? ? Oz Ot]; subst. pose proof (zseg_ok_udir _ Oz) as Un. pose proof Oz as (Pa & _).
  destruct (IH (zg_n z) Ot Un) as [F X]. cbn [zjoined zfinal]. split; [|exact X].
  apply Forall_app. split; [apply zjoin_shapes; assumption|]. constructor; [apply sh_piece; exact Oz|exact F].
Qed.

Lemma zsegs_ok pts : forall c, pt_ok c -> Forall pt_ok pts -> poly_axis c pts -> Forall zseg_ok (zsegs c pts).
Proof.
  induction pts as [|p t IH]; intros c Pc Pp Ax; [constructor|].
  inversion Pp as [|? ? P1 P2]; subst. destruct Ax as [A1 A2]. specialize (IH p P1 P2 A2).
  cbn [zsegs]. destruct (zpt_eqb c p) eqn:E; [exact IH|].
  assert (Ne : c <> p) by (intros X; apply zpt_eqb_eq in X; congruence).
  constructor; [|exact IH]. unfold zseg_ok, zg_a, zg_b, zg_n. cbn [fst snd]. tauto.
Qed.

Lemma zcyc_segs_ok p0 pts : pt_ok p0 -> Forall pt_ok pts -> poly_axis p0 (pts ++ [p0]) -> Forall zseg_ok (zcyc_segs p0 pts).
Proof.
  intros P0 Pp Ax. apply poly_axis_app in Ax. destruct Ax as [Ax Ac].
  pose proof (zsegs_ok pts p0 P0 Pp Ax) as O. unfold zcyc_segs.
  destruct (zsegs p0 pts) as [|z zt] eqn:Ez; [constructor|].
  rewrite (zsegs_start _ _ _ _ Ez). apply Forall_app. split; [exact O|].
  apply (zsegs_ok [p0] (zend p0 pts) (zend_ok _ _ P0 Pp) (Forall_cons _ P0 (Forall_nil _))). split; [exact Ac|exact I].
Qed.

Theorem zstroke_open_shapes k p0 pts : pt_ok p0 -> Forall pt_ok pts -> poly_axis p0 pts ->
  Forall (zshape (k_h k)) (zstroke_open k p0 pts).
Proof.
  intros P0 Pp Ax. pose proof (zsegs_ok pts p0 P0 Pp Ax) as O. unfold zstroke_open, zopen_shapes.
  destruct (zsegs p0 pts) as [|z zt]; [constructor|].
  inversion O as [|? ? Oz Ot]; subst. pose proof (zseg_ok_udir _ Oz) as Un. pose proof Oz as (Pa & _).
  destruct (zjoined_shapes k zt (zg_n z) Ot Un) as [F X].
  apply Forall_app. split; [constructor; [apply sh_piece; exact Oz|constructor]|]. apply Forall_app. split; [exact F|].
  apply Forall_app. split; apply zcap_shapes; try assumption; [apply zend_ok; assumption|apply udir_neg, Un].
Qed.
Theorem zstroke_closed_shapes k p0 pts : pt_ok p0 -> Forall pt_ok pts -> poly_axis p0 (pts ++ [p0]) ->
  Forall (zshape (k_h k)) (zstroke_closed k p0 pts).
Proof.
  intros P0 Pp Ax. pose proof (zcyc_segs_ok p0 pts P0 Pp Ax) as O. unfold zstroke_closed, zclosed_shapes.
  destruct (zcyc_segs p0 pts) as [|z zt]; [constructor|].
  inversion O as [|? ? Oz Ot]; subst. pose proof (zseg_ok_udir _ Oz) as Un. pose proof Oz as (Pa & _).
  destruct (zjoined_shapes k zt (zg_n z) Ot Un) as [F X].
  apply Forall_app. split; [constructor; [apply sh_piece; exact Oz|constructor]|]. apply Forall_app. split; [exact F|].
  apply zjoin_shapes; assumption.
Qed.
Print Assumptions zstroke_open_shapes.
Print Assumptions zstroke_closed_shapes.

(* ---- the vertex lists in coordinates ---- *)
(* a piece: the rectangle [x0, x1] x [y-h, y+h] (horizontal segment) or [x-h, x+h] x [y0, y1] (vertical), six vertices:
   the four corners and the two end points of the segment; the start corner depends on the direction *)
Lemma zpiece_east h x0 x1 y : x0 < x1 ->
  zpiece h ((x0, y), (x1, y), znormal (x0, y) (x1, y)) =
  [(x0, y + h); (x1, y + h); (x1, y); (x1, y - h); (x0, y - h); (x0, y)].
Proof.
  intros L. unfold zpiece, znormal, zdir, zsub, zadd, zscale, zg_a, zg_b, zg_n. cbn [fst snd].
  replace (y - y) with 0 by lia. rewrite (Z.sgn_pos (x1 - x0)) by lia. cbn [Z.sgn Z.opp].
  repeat (f_equal; try lia).
Qed.
Lemma zpiece_west h x0 x1 y : x0 < x1 ->
  zpiece h ((x1, y), (x0, y), znormal (x1, y) (x0, y)) =
  [(x1, y - h); (x0, y - h); (x0, y); (x0, y + h); (x1, y + h); (x1, y)].
Proof.
  intros L. unfold zpiece, znormal, zdir, zsub, zadd, zscale, zg_a, zg_b, zg_n. cbn [fst snd].
  replace (y - y) with 0 by lia. rewrite (Z.sgn_neg (x0 - x1)) by lia. cbn [Z.sgn Z.opp].
  repeat (f_equal; try lia).
Qed.
Lemma zpiece_south h x y0 y1 : y0 < y1 ->
  zpiece h ((x, y0), (x, y1), znormal (x, y0) (x, y1)) =
  [(x - h, y0); (x - h, y1); (x, y1); (x + h, y1); (x + h, y0); (x, y0)].
Proof.
  intros L. unfold zpiece, znormal, zdir, zsub, zadd, zscale, zg_a, zg_b, zg_n. cbn [fst snd].
  replace (x - x) with 0 by lia. rewrite (Z.sgn_pos (y1 - y0)) by lia. cbn [Z.sgn Z.opp].
  repeat (f_equal; try lia).
Qed.
Lemma zpiece_north h x y0 y1 : y0 < y1 ->
  zpiece h ((x, y1), (x, y0), znormal (x, y1) (x, y0)) =
  [(x + h, y1); (x + h, y0); (x, y0); (x - h, y0); (x - h, y1); (x, y1)].
Proof.
  intros L. unfold zpiece, znormal, zdir, zsub, zadd, zscale, zg_a, zg_b, zg_n. cbn [fst snd].
  replace (x - x) with 0 by lia. rewrite (Z.sgn_neg (y0 - y1)) by lia. cbn [Z.sgn Z.opp].
  repeat (f_equal; try lia).
Qed.
(* every segment of M is one of the four *)
Lemma zseg_ok_cases z : zseg_ok z ->
  (exists x0 x1 y, x0 < x1 /\ z = ((x0, y), (x1, y), znormal (x0, y) (x1, y))) \/
  (exists x0 x1 y, x0 < x1 /\ z = ((x1, y), (x0, y), znormal (x1, y) (x0, y))) \/
  (exists x y0 y1, y0 < y1 /\ z = ((x, y0), (x, y1), znormal (x, y0) (x, y1))) \/
  (exists x y0 y1, y0 < y1 /\ z = ((x, y1), (x, y0), znormal (x, y1) (x, y0))).
Proof.
  destruct z as [[[ax ay] [bx by_]] n]. unfold zseg_ok, zg_a, zg_b, zg_n, axis, zsub. cbn [fst snd].
  intros (_ & _ & A & Ne & ->).
  destruct A as [A|A].
  - assert (bx = ax) by lia. subst bx. destruct (Z.lt_total ay by_) as [L|[E|L]].
    + right. right. left. exists ax, ay, by_. split; [exact L|reflexivity].
    + exfalso. apply Ne. subst. reflexivity.
    + right. right. right. exists ax, by_, ay. split; [exact L|reflexivity].
  - assert (by_ = ay) by lia. subst by_. destruct (Z.lt_total ax bx) as [L|[E|L]].
    + left. exists ax, bx, ay. split; [exact L|reflexivity].
    + exfalso. apply Ne. subst. reflexivity.
    + right. left. exists bx, ax, ay. split; [exact L|reflexivity].
Qed.

(* a square cap: the rectangle of depth h and width 2h beyond p, five vertices (the corners and p); n is the normal
   handed to cap_line: the last normal at the end, the flipped first normal at the start *)
Lemma zcap_rect_coords h x y :
  zcap_rect h (x, y) (0, 1)  = [(x, y + h); (x + h, y + h); (x + h, y - h); (x, y - h); (x, y)] /\   (* end of an eastward segment *)
  zcap_rect h (x, y) (0, -1) = [(x, y - h); (x - h, y - h); (x - h, y + h); (x, y + h); (x, y)] /\   (* westward *)
  zcap_rect h (x, y) (-1, 0) = [(x - h, y); (x - h, y + h); (x + h, y + h); (x + h, y); (x, y)] /\   (* southward (+y) *)
  zcap_rect h (x, y) (1, 0)  = [(x + h, y); (x + h, y - h); (x - h, y - h); (x - h, y); (x, y)].     (* northward (-y) *)
Proof.
  unfold zcap_rect, zadd, zsub, zscale. cbn [fst snd Z.opp].
  repeat split; repeat (f_equal; try lia).
Qed.
Lemma zcap_is_rect k p n : k_cap k = CapSquare -> zcap k p n = [zcap_rect (k_h k) p n].
Proof. intros E. unfold zcap. rewrite E. reflexivity. Qed.

(* the joins at a turn, in coordinates relative to the vertex: t1, t2 perpendicular unit vectors *)
Lemma ztri_coords h x y a1 b1 a2 b2 :
  ztri h (x, y) (a1, b1) (a2, b2) = [(x + a1 * h, y + b1 * h); (x + a2 * h, y + b2 * h); (x, y)].
Proof. reflexivity. Qed.
Lemma zquad_coords h x y a1 b1 a2 b2 :
  zquad h (x, y) (a1, b1) (a2, b2) =
  [(x + a1 * h, y + b1 * h); (x + a1 * h + a2 * h, y + b1 * h + b2 * h); (x + a2 * h, y + b2 * h); (x, y)].
Proof. reflexivity. Qed.

(* ================================================================================================================== *)
(* 3. ORIENTATION: the shoelace sum of every contour is <= 0, and < 0 unless the contour is a degenerate join         *)
(* ================================================================================================================== *)

(* twice the signed area: sum of x_i * y_(i+1) - x_(i+1) * y_i around the closed polygon *)
Fixpoint area2_from (first : zpt) (l : list zpt) : Z :=
  match l with
  | [] => 0
  | p :: t => match t with [] => zcross p first | q :: _ => zcross p q + area2_from first t end
  end.
Definition area2 (c : list zpt) : Z := match c with [] => 0 | p :: _ => area2_from p c end.

(* the values *)
Lemma area2_piece h z : zseg_ok z -> area2 (zpiece h z) = - 4 * h * zlen1 (zsub (zg_b z) (zg_a z)).
Proof.
  intros O. destruct (zseg_ok_cases z O) as [(x0 & x1 & y & L & ->)|[(x0 & x1 & y & L & ->)|[(x & y0 & y1 & L & ->)|(x & y0 & y1 & L & ->)]]].
  - rewrite zpiece_east by exact L. unfold area2, area2_from, zcross, zlen1, zsub, zg_a, zg_b. cbn [fst snd]. lia.
  - rewrite zpiece_west by exact L. unfold area2, area2_from, zcross, zlen1, zsub, zg_a, zg_b. cbn [fst snd]. lia.
  - rewrite zpiece_south by exact L. unfold area2, area2_from, zcross, zlen1, zsub, zg_a, zg_b. cbn [fst snd]. lia.
  - rewrite zpiece_north by exact L. unfold area2, area2_from, zcross, zlen1, zsub, zg_a, zg_b. cbn [fst snd]. lia.
Qed.
Lemma area2_cap h p n : udir n -> area2 (zcap_rect h p n) = - 4 * h * h.
Proof.
  intros U. destruct p as [x y]. destruct (zcap_rect_coords h x y) as (E1 & E2 & E3 & E4).
  destruct U as [U|[U|[U|U]]]; subst n; rewrite ?E1, ?E2, ?E3, ?E4;
    unfold area2, area2_from, zcross; cbn [fst snd]; lia.
Qed.
Lemma area2_tri h p t1 t2 : area2 (ztri h p t1 t2) = h * h * zcross t1 t2.
Proof. destruct p, t1, t2. unfold area2, area2_from, ztri, zcross, zadd, zscale. cbn [fst snd]. lia. Qed.
Lemma area2_quad h p t1 t2 : area2 (zquad h p t1 t2) = 2 * h * h * zcross t1 t2.
Proof. destruct p, t1, t2. unfold area2, area2_from, zquad, zcross, zadd, zscale. cbn [fst snd]. lia. Qed.

(* a contour is degenerate when it is the "triangle" of a join between parallel normals: p + t h, p +- t h, p *)
Definition degenerate_join (h : Z) (c : list zpt) : Prop :=
  exists p t, udir t /\ (c = ztri h p t t \/ c = ztri h p t (zneg t)).

Theorem zshape_orientation h c : 1 <= h -> zshape h c -> area2 c < 0 \/ (area2 c = 0 /\ degenerate_join h c).
Proof.
  intros Hh S. destruct S as [z O|p n P U|p t1 t2 P U1 U2 C|p t1 t2 P U1 U2 C].
  - left. rewrite (area2_piece h z O). destruct O as (_ & _ & _ & Ne & _).
    assert (0 < zlen1 (zsub (zg_b z) (zg_a z))); [|nia].
    destruct (zg_a z) as [ax ay], (zg_b z) as [bx by_]. unfold zlen1, zsub. cbn [fst snd].
    destruct (Z.eq_dec bx ax) as [E1|N1]; [|lia]. destruct (Z.eq_dec by_ ay) as [E2|N2]; [|lia].
    exfalso. apply Ne. subst. reflexivity.
  - left. rewrite (area2_cap h p n U). nia.
  - rewrite area2_tri. destruct (Z.eq_dec (zcross t1 t2) 0) as [E|N].
    + right. split; [rewrite E; lia|]. exists p, t1. split; [exact U1|].
      destruct U1 as [U|[U|[U|U]]]; subst t1; destruct U2 as [U|[U|[U|U]]]; subst t2;
        unfold zcross, zneg in *; cbn [fst snd Z.opp] in *; try discriminate E; auto.
    + left. assert (zcross t1 t2 < 0) by lia. nia.
  - left. rewrite area2_quad. nia.
Qed.

Corollary zshape_area_nonpos h c : 1 <= h -> zshape h c -> area2 c <= 0.
Proof. intros Hh S. destruct (zshape_orientation h c Hh S) as [H|[H _]]; lia. Qed.

(* ALL CONTOURS OF ONE STROKE HAVE THE SAME ORIENTATION, whatever the directions of the segments and of the turns *)
Theorem zstroke_open_orientation k p0 pts : 1 <= k_h k -> pt_ok p0 -> Forall pt_ok pts -> poly_axis p0 pts ->
  Forall (fun c => area2 c < 0 \/ (area2 c = 0 /\ degenerate_join (k_h k) c)) (zstroke_open k p0 pts).
Proof.
  intros Hh P0 Pp Ax. eapply Forall_impl; [|apply zstroke_open_shapes; assumption].
  intros c S. apply zshape_orientation; assumption.
Qed.
Theorem zstroke_closed_orientation k p0 pts : 1 <= k_h k -> pt_ok p0 -> Forall pt_ok pts -> poly_axis p0 (pts ++ [p0]) ->
  Forall (fun c => area2 c < 0 \/ (area2 c = 0 /\ degenerate_join (k_h k) c)) (zstroke_closed k p0 pts).
Proof.
  intros Hh P0 Pp Ax. eapply Forall_impl; [|apply zstroke_closed_shapes; assumption].
  intros c S. apply zshape_orientation; assumption.
Qed.
Print Assumptions zstroke_open_orientation.
Print Assumptions zstroke_closed_orientation.

(* when the polyline has no straight continuation and no reversal (every two consecutive normals are perpendicular),
   no contour is degenerate: all areas are strictly negative.  Stated on the joins: *)
Lemma zjoin_turn_negative k p z1 z2 : 1 <= k_h k -> pt_ok p -> udir z1 -> udir z2 -> zdot z1 z2 = 0 ->
  Forall (fun c => area2 c < 0) (zjoin k p z1 z2).
Proof.
  intros Hh P U1 U2 D. destruct (zjoin_normals_cross z1 z2 U1 U2) as (X1 & X2 & C).
  assert (C' : zcross (fst (zjoin_normals z1 z2)) (snd (zjoin_normals z1 z2)) = -1 /\
               zdot (fst (zjoin_normals z1 z2)) (snd (zjoin_normals z1 z2)) = 0).
  { clear C X1 X2. unfold zjoin_normals, z_interior, zpt_eqb.
    destruct U1 as [U|[U|[U|U]]]; subst z1; destruct U2 as [U|[U|[U|U]]]; subst z2;
      unfold zdot in D; cbn [fst snd] in D; try discriminate D; cbn; split; reflexivity. }
  unfold zjoin. destruct (zjoin_normals z1 z2) as [t1 t2]. cbn [fst snd] in *. destruct C' as [C1 C2].
  assert (T : area2 (ztri (k_h k) p t1 t2) < 0) by (rewrite area2_tri, C1; nia).
  assert (Q : area2 (zquad (k_h k) p t1 t2) < 0) by (rewrite area2_quad, C1; nia).
  rewrite C2. cbn [Z.eqb]. destruct (k_join k); [constructor| |repeat constructor; exact T].
  destruct (k_m1 k); repeat constructor; assumption.
Qed.

(* ================================================================================================================== *)
(* 4. WINDING NUMBERS (Contains.winding_number / path_edges)                                                           *)
(* ================================================================================================================== *)

(* the winding number of one contour at (X, Y) *)
Definition cwn (c : list zpt) (X Y : Z) : Z := winding_number (path_edges (zcontour_ops c) None None) X Y.

(* ---- 4.1 the winding number of the outline is the sum over its contours ---- *)
Fixpoint line_edges (c0 : zpt) (t : list zpt) : list edge :=
  match t with [] => [] | q :: r => (c0, q) :: line_edges q r end.
Lemma path_edges_lines t : forall p c0 rest,
  path_edges (map ZLine t ++ ZClose :: rest) (Some p) (Some c0) =
  line_edges c0 t ++ [(zend c0 t, p)] ++ path_edges rest (Some p) (Some p).
Proof.
  induction t as [|q r IH]; intros p c0 rest; [reflexivity|].
  cbn [map app path_edges line_edges zend]. rewrite IH. reflexivity.
Qed.
Lemma crossing_point p x y : crossing (p, p) x y = 0.
Proof.
  destruct p as [x1 y1]. unfold crossing. replace ((y1 <=? y) && (y <? y1)) with false by lia. reflexivity.
Qed.
Lemma wn_cons e es x y : winding_number (e :: es) x y = crossing e x y + winding_number es x y.
Proof. reflexivity. Qed.
Lemma wn_nil x y : winding_number [] x y = 0.
Proof. reflexivity. Qed.
Lemma wn_contour_then p t rest st x y : (st = None \/ exists f, st = Some f) ->
  winding_number (path_edges (zcontour_ops (p :: t) ++ rest) st st) x y =
  cwn (p :: t) x y + winding_number (path_edges rest (Some p) (Some p)) x y.
Proof.
  intros Hst. unfold cwn. cbn [zcontour_ops app path_edges].
  replace ((map ZLine t ++ [ZClose]) ++ rest) with (map ZLine t ++ ZClose :: rest) by (rewrite <- app_assoc; reflexivity).
  rewrite !path_edges_lines. cbn [path_edges app].
  destruct Hst as [->|[f ->]]; cbn [app]; rewrite ?wn_app, ?wn_cons, ?wn_app, ?wn_cons, ?wn_nil, ?crossing_point; lia.
Qed.

Definition sum_cwn (cs : list (list zpt)) (x y : Z) : Z := fold_right (fun c acc => cwn c x y + acc) 0 cs.

Lemma outline_winding_from cs x y : forall st, (st = None \/ exists f, st = Some f) ->
  winding_number (path_edges (zoutline_ops cs) st st) x y = sum_cwn cs x y.
Proof.
  induction cs as [|c r IH]; intros st Hst.
  - unfold zoutline_ops. cbn [flat_map path_edges sum_cwn fold_right].
    destruct Hst as [->|[f ->]]; rewrite ?wn_cons, ?wn_nil, ?crossing_point; reflexivity.
  - unfold zoutline_ops. cbn [flat_map sum_cwn fold_right]. fold (zoutline_ops r). fold (sum_cwn r x y).
    destruct c as [|p t].
    + cbn [zcontour_ops app]. rewrite (IH st Hst). reflexivity.
    + rewrite (wn_contour_then p t (zoutline_ops r) st x y Hst).
      rewrite (IH (Some p)) by (right; eexists; reflexivity). reflexivity.
Qed.

(* THE WINDING NUMBER OF THE WHOLE OUTLINE IS THE SUM OF THE WINDING NUMBERS OF ITS CONTOURS *)
Theorem outline_winding cs x y :
  winding_number (path_edges (zoutline_ops cs) None None) x y = sum_cwn cs x y.
Proof. apply outline_winding_from. left. reflexivity. Qed.
Print Assumptions outline_winding.

(* when every contour has winding number -1 or 0 (section 4.2: all the contours of a stroke), the NonZero rule fills
   exactly the union: the outline's winding number is minus the number of contours around the point *)
Lemma sum_cwn_union cs x y : Forall (fun c => cwn c x y = -1 \/ cwn c x y = 0) cs ->
  sum_cwn cs x y = - Z.of_nat (length (filter (fun c => cwn c x y =? -1) cs)) /\
  (inside NonZero (sum_cwn cs x y) = true <-> exists c, In c cs /\ cwn c x y = -1).
Proof.
  intros F. assert (E : sum_cwn cs x y = - Z.of_nat (length (filter (fun c => cwn c x y =? -1) cs))).
  { induction F as [|c r Hc Hr IH]; [reflexivity|]. cbn [sum_cwn fold_right filter]. fold (sum_cwn r x y). rewrite IH.
    destruct Hc as [Hc|Hc]; rewrite Hc; cbn [Z.eqb Pos.eqb length]; lia. }
  split; [exact E|]. unfold inside. rewrite E. split.
  - intros H. destruct (filter (fun c => cwn c x y =? -1) cs) as [|c r] eqn:Ef; [discriminate H|].
    assert (I : In c (filter (fun c => cwn c x y =? -1) cs)) by (rewrite Ef; left; reflexivity).
    apply filter_In in I. destruct I as [I1 I2]. exists c. split; [exact I1|lia].
  - intros (c & I & Hc). assert (I' : In c (filter (fun c => cwn c x y =? -1) cs)) by (apply filter_In; split; [exact I|lia]).
    destruct (filter (fun c => cwn c x y =? -1) cs); [contradiction|]. cbn [length]. lia.
Qed.

(* ---- 4.2 rectangles ---- *)
Lemma crossing_horizontal x1 x2 y1 x y : crossing ((x1, y1), (x2, y1)) x y = 0.
Proof. unfold crossing. replace ((y1 <=? y) && (y <? y1)) with false by lia. reflexivity. Qed.
Lemma crossing_vertical x1 y1 y2 x y :
  crossing ((x1, y1), (x1, y2)) x y =
  if x1 <? x then (if (y1 <=? y) && (y <? y2) then -1 else if (y2 <=? y) && (y <? y1) then 1 else 0) else 0.
Proof.
  unfold crossing, cross. set (c := (x1 - x1) * (y - y1) - (y2 - y1) * (x - x1)).
  destruct ((y1 <=? y) && (y <? y2)) eqn:E1; destruct ((y2 <=? y) && (y <? y1)) eqn:E2; destruct (x1 <? x) eqn:E3;
    cbn [andb]; try lia; try reflexivity;
    first [ replace (c <? 0) with true by (subst c; nia); reflexivity
          | replace (c <? 0) with false by (subst c; nia); reflexivity
          | replace (0 <? c) with true by (subst c; nia); reflexivity
          | replace (0 <? c) with false by (subst c; nia); reflexivity ].
Qed.

(* the winding number of a rectangle [x0, x1] x [y0, y1] walked in the orientation of the stroker: -1 on the
   half-open box x0 < X <= x1, y0 <= Y < y1 (the rule of Contains.crossing: the ray goes to -infinity, an edge owns
   its upper end), 0 elsewhere.  In particular -1 strictly inside and 0 strictly outside. *)
Definition rwn (x0 y0 x1 y1 X Y : Z) : Z :=
  if (x0 <? X) && (X <=? x1) && (y0 <=? Y) && (Y <? y1) then -1 else 0.

Ltac rect_wn :=
  unfold cwn, zcontour_ops; cbn [map app path_edges winding_number fold_right];
  rewrite ?crossing_horizontal, ?crossing_vertical; unfold rwn;
  repeat match goal with
         | |- context [?a <? ?b] => destruct (Z.ltb_spec a b); try (exfalso; lia)
         | |- context [?a <=? ?b] => destruct (Z.leb_spec a b); try (exfalso; lia)
         end; cbn [andb]; lia.

Lemma cwn_piece_east h x0 x1 y X Y : 0 < h -> x0 < x1 ->
  cwn [(x0, y + h); (x1, y + h); (x1, y); (x1, y - h); (x0, y - h); (x0, y)] X Y = rwn x0 (y - h) x1 (y + h) X Y.
Proof. intros Hh L. rect_wn. Qed.
Lemma cwn_piece_west h x0 x1 y X Y : 0 < h -> x0 < x1 ->
  cwn [(x1, y - h); (x0, y - h); (x0, y); (x0, y + h); (x1, y + h); (x1, y)] X Y = rwn x0 (y - h) x1 (y + h) X Y.
Proof. intros Hh L. rect_wn. Qed.
Lemma cwn_piece_south h x y0 y1 X Y : 0 < h -> y0 < y1 ->
  cwn [(x - h, y0); (x - h, y1); (x, y1); (x + h, y1); (x + h, y0); (x, y0)] X Y = rwn (x - h) y0 (x + h) y1 X Y.
Proof. intros Hh L. rect_wn. Qed.
Lemma cwn_piece_north h x y0 y1 X Y : 0 < h -> y0 < y1 ->
  cwn [(x + h, y1); (x + h, y0); (x, y0); (x - h, y0); (x - h, y1); (x, y1)] X Y = rwn (x - h) y0 (x + h) y1 X Y.
Proof. intros Hh L. rect_wn. Qed.

Lemma rwn_range x0 y0 x1 y1 X Y : rwn x0 y0 x1 y1 X Y = -1 \/ rwn x0 y0 x1 y1 X Y = 0.
Proof. unfold rwn. destruct ((x0 <? X) && (X <=? x1) && (y0 <=? Y) && (Y <? y1)); auto. Qed.
Lemma rwn_inside x0 y0 x1 y1 X Y : x0 < X < x1 -> y0 < Y < y1 -> rwn x0 y0 x1 y1 X Y = -1.
Proof. intros. unfold rwn. replace ((x0 <? X) && (X <=? x1) && (y0 <=? Y) && (Y <? y1)) with true by lia. reflexivity. Qed.
Lemma rwn_outside x0 y0 x1 y1 X Y : X < x0 \/ x1 < X \/ Y < y0 \/ y1 < Y -> rwn x0 y0 x1 y1 X Y = 0.
Proof. intros. unfold rwn. replace ((x0 <? X) && (X <=? x1) && (y0 <=? Y) && (Y <? y1)) with false by lia. reflexivity. Qed.

(* the piece of any segment of M: the rectangle around it *)
Definition piece_box (h : Z) (z : zseg) : Z * Z * Z * Z :=
  let a := zg_a z in let b := zg_b z in let n := zg_n z in
  (Z.min (fst a) (fst b) - h * Z.abs (fst n), Z.min (snd a) (snd b) - h * Z.abs (snd n),
   Z.max (fst a) (fst b) + h * Z.abs (fst n), Z.max (snd a) (snd b) + h * Z.abs (snd n)).
Theorem cwn_piece h z X Y : 0 < h -> zseg_ok z ->
  cwn (zpiece h z) X Y = let '(x0, y0, x1, y1) := piece_box h z in rwn x0 y0 x1 y1 X Y.
Proof.
  intros Hh O.
  destruct (zseg_ok_cases z O) as [(x0 & x1 & y & L & ->)|[(x0 & x1 & y & L & ->)|[(x & y0 & y1 & L & ->)|(x & y0 & y1 & L & ->)]]].
  - rewrite zpiece_east, (cwn_piece_east h) by assumption. unfold piece_box, znormal, zdir, zsub, zg_a, zg_b, zg_n.
    cbn [fst snd]. replace (y - y) with 0 by lia. rewrite (Z.sgn_pos (x1 - x0)) by lia. cbn [Z.sgn Z.opp Z.abs].
    f_equal; lia.
  - rewrite zpiece_west, (cwn_piece_west h) by assumption. unfold piece_box, znormal, zdir, zsub, zg_a, zg_b, zg_n.
    cbn [fst snd]. replace (y - y) with 0 by lia. rewrite (Z.sgn_neg (x0 - x1)) by lia. cbn [Z.sgn Z.opp Z.abs].
    f_equal; lia.
  - rewrite zpiece_south, (cwn_piece_south h) by assumption. unfold piece_box, znormal, zdir, zsub, zg_a, zg_b, zg_n.
    cbn [fst snd]. replace (x - x) with 0 by lia. rewrite (Z.sgn_pos (y1 - y0)) by lia. cbn [Z.sgn Z.opp Z.abs].
    f_equal; lia.
  - rewrite zpiece_north, (cwn_piece_north h) by assumption. unfold piece_box, znormal, zdir, zsub, zg_a, zg_b, zg_n.
    cbn [fst snd]. replace (x - x) with 0 by lia. rewrite (Z.sgn_neg (y0 - y1)) by lia. cbn [Z.sgn Z.opp Z.abs].
    f_equal; lia.
Qed.
Print Assumptions cwn_piece.

(* ---- 4.3 edges whose two coordinate differences are multiples s*h, t*h of h > 0 (s, t in {-1,0,1} on M): the side
   test of Contains.crossing is the sign of the linear form s*(Y-y1) - t*(X-x1) ---- *)
Lemma crossing_scaled h s t x1 y1 x2 y2 X Y : 0 < h -> x2 - x1 = s * h -> y2 - y1 = t * h ->
  crossing ((x1, y1), (x2, y2)) X Y =
  if (y1 <=? Y) && (Y <? y2) && (s * (Y - y1) - t * (X - x1) <? 0) then -1
  else if (y2 <=? Y) && (Y <? y1) && (0 <? s * (Y - y1) - t * (X - x1)) then 1 else 0.
Proof.
  intros Hh E1 E2. unfold crossing, cross. rewrite E1, E2.
  replace (s * h * (Y - y1) - t * h * (X - x1)) with (h * (s * (Y - y1) - t * (X - x1))) by ring.
  set (k := s * (Y - y1) - t * (X - x1)).
  replace (h * k <? 0) with (k <? 0) by (destruct (Z.ltb_spec k 0), (Z.ltb_spec (h * k) 0); try reflexivity; nia).
  replace (0 <? h * k) with (0 <? k) by (destruct (Z.ltb_spec 0 k), (Z.ltb_spec 0 (h * k)); try reflexivity; nia).
  reflexivity.
Qed.

Ltac scale_edges h :=
  repeat match goal with
  | |- context [crossing ((?x1, ?y1), (?x2, ?y2)) ?X ?Y] =>
      first [ rewrite (crossing_scaled h 0 0 x1 y1) by lia
            | rewrite (crossing_scaled h 0 1 x1 y1) by lia
            | rewrite (crossing_scaled h 0 (-1) x1 y1) by lia
            | rewrite (crossing_scaled h 1 0 x1 y1) by lia
            | rewrite (crossing_scaled h (-1) 0 x1 y1) by lia
            | rewrite (crossing_scaled h 1 1 x1 y1) by lia
            | rewrite (crossing_scaled h 1 (-1) x1 y1) by lia
            | rewrite (crossing_scaled h (-1) 1 x1 y1) by lia
            | rewrite (crossing_scaled h (-1) (-1) x1 y1) by lia
            | rewrite (crossing_scaled h 0 2 x1 y1) by lia
            | rewrite (crossing_scaled h 0 (-2) x1 y1) by lia
            | rewrite (crossing_scaled h 2 0 x1 y1) by lia
            | rewrite (crossing_scaled h (-2) 0 x1 y1) by lia ]
  end.
Ltac split_cmp :=
  repeat match goal with
         | |- context [?a <? ?b] => destruct (Z.ltb_spec a b); try (exfalso; lia)
         | |- context [?a <=? ?b] => destruct (Z.leb_spec a b); try (exfalso; lia)
         end; cbn [andb].
Ltac shape_wn h :=
  unfold cwn, zcontour_ops; cbn [map app path_edges]; rewrite ?wn_cons, ?wn_nil; scale_edges h; unfold rwn; split_cmp; lia.

(* the square cap: the rectangle between p and p pushed by h, of half-width h *)
Definition cap_box (h : Z) (p n : zpt) : Z * Z * Z * Z :=
  let vx := snd n in let vy := - fst n in
  (fst p + Z.min 0 (vx * h) - h * Z.abs (fst n), snd p + Z.min 0 (vy * h) - h * Z.abs (snd n),
   fst p + Z.max 0 (vx * h) + h * Z.abs (fst n), snd p + Z.max 0 (vy * h) + h * Z.abs (snd n)).
Theorem cwn_cap h p n X Y : 0 < h -> udir n ->
  cwn (zcap_rect h p n) X Y = let '(x0, y0, x1, y1) := cap_box h p n in rwn x0 y0 x1 y1 X Y.
Proof.
  intros Hh U. destruct p as [x y]. unfold cap_box, zcap_rect, zadd, zsub, zscale.
  destruct U as [U|[U|[U|U]]]; subst n; cbn [fst snd Z.opp Z.abs]; shape_wn h.
Qed.

(* the miter square at a turn: the box between p and p + t1 h + t2 h *)
Definition quad_box (h : Z) (p t1 t2 : zpt) : Z * Z * Z * Z :=
  let dx := (fst t1 + fst t2) * h in let dy := (snd t1 + snd t2) * h in
  (fst p + Z.min 0 dx, snd p + Z.min 0 dy, fst p + Z.max 0 dx, snd p + Z.max 0 dy).
Theorem cwn_quad h p t1 t2 X Y : 0 < h -> udir t1 -> udir t2 -> zcross t1 t2 < 0 ->
  cwn (zquad h p t1 t2) X Y = let '(x0, y0, x1, y1) := quad_box h p t1 t2 in rwn x0 y0 x1 y1 X Y.
Proof.
  intros Hh U1 U2 C. destruct p as [x y]. unfold quad_box, zquad, zadd, zscale.
  destruct U1 as [U|[U|[U|U]]]; subst t1; destruct U2 as [U|[U|[U|U]]]; subst t2;
    unfold zcross in C; cbn [fst snd] in C; try (exfalso; lia); cbn [fst snd Z.opp Z.abs]; shape_wn h.
Qed.

(* the bevel triangle p + t1 h, p + t2 h, p (and its degenerate forms): with u, v the coordinates of (X,Y) - p along
   t1, t2: -1 strictly inside (u, v > 0, u + v < h), 0 strictly outside, and never anything else *)
Theorem cwn_tri_range h p t1 t2 X Y : 0 < h -> udir t1 -> udir t2 -> zcross t1 t2 <= 0 ->
  cwn (ztri h p t1 t2) X Y = -1 \/ cwn (ztri h p t1 t2) X Y = 0.
Proof.
  intros Hh U1 U2 C. destruct p as [x y]. unfold ztri, zadd, zscale.
  destruct U1 as [U|[U|[U|U]]]; subst t1; destruct U2 as [U|[U|[U|U]]]; subst t2;
    unfold zcross in C; cbn [fst snd] in C; try (exfalso; lia); cbn [fst snd Z.opp Z.abs]; shape_wn h.
Qed.
Theorem cwn_tri_inside h p t1 t2 X Y : 0 < h -> udir t1 -> udir t2 -> zcross t1 t2 < 0 ->
  let u := zdot (zsub (X, Y) p) t1 in let v := zdot (zsub (X, Y) p) t2 in
  0 < u -> 0 < v -> u + v < h -> cwn (ztri h p t1 t2) X Y = -1.
Proof.
  intros Hh U1 U2 C. destruct p as [x y]. unfold ztri, zadd, zscale, zdot, zsub.
  destruct U1 as [U|[U|[U|U]]]; subst t1; destruct U2 as [U|[U|[U|U]]]; subst t2;
    unfold zcross in C; cbn [fst snd] in C; try (exfalso; lia); cbn [fst snd Z.opp Z.abs]; intros Pu Pv Puv; shape_wn h.
Qed.
Theorem cwn_tri_outside h p t1 t2 X Y : 0 < h -> udir t1 -> udir t2 -> zcross t1 t2 <= 0 ->
  let u := zdot (zsub (X, Y) p) t1 in let v := zdot (zsub (X, Y) p) t2 in
  u < 0 \/ v < 0 \/ h < u + v -> cwn (ztri h p t1 t2) X Y = 0.
Proof.
  intros Hh U1 U2 C. destruct p as [x y]. unfold ztri, zadd, zscale, zdot, zsub.
  destruct U1 as [U|[U|[U|U]]]; subst t1; destruct U2 as [U|[U|[U|U]]]; subst t2;
    unfold zcross in C; cbn [fst snd] in C; try (exfalso; lia); cbn [fst snd Z.opp Z.abs]; intros Po; shape_wn h.
Qed.
Print Assumptions cwn_tri_range.

(* ---- 4.4 the whole stroke ---- *)
Lemma zshape_cwn_range h c X Y : 0 < h -> zshape h c -> cwn c X Y = -1 \/ cwn c X Y = 0.
Proof.
  intros Hh S. destruct S as [z O|p n P U|p t1 t2 P U1 U2 C|p t1 t2 P U1 U2 C].
  - rewrite (cwn_piece h z X Y Hh O). destruct (piece_box h z) as [[[x0 y0] x1] y1]. apply rwn_range.
  - rewrite (cwn_cap h p n X Y Hh U). destruct (cap_box h p n) as [[[x0 y0] x1] y1]. apply rwn_range.
  - apply cwn_tri_range; assumption.
  - rewrite (cwn_quad h p t1 t2 X Y Hh U1 U2 C). destruct (quad_box h p t1 t2) as [[[x0 y0] x1] y1]. apply rwn_range.
Qed.

(* NONZERO FILL OF THE OUTLINE = UNION OF ITS CONTOURS: at every integer point the winding number of the whole outline
   is minus the number of contours whose own winding number there is -1; it is non-zero exactly when some contour
   (rectangle, triangle, square) has the point inside (in the half-open sense of Contains.crossing) *)
Theorem zstroke_open_union k p0 pts X Y : 1 <= k_h k -> pt_ok p0 -> Forall pt_ok pts -> poly_axis p0 pts ->
  let cs := zstroke_open k p0 pts in
  let w := winding_number (path_edges (zoutline_ops cs) None None) X Y in
  w = - Z.of_nat (length (filter (fun c => cwn c X Y =? -1) cs)) /\
  (inside NonZero w = true <-> exists c, In c cs /\ cwn c X Y = -1).
Proof.
  intros Hh P0 Pp Ax cs w. subst w. rewrite outline_winding. apply sum_cwn_union.
  eapply Forall_impl; [|apply zstroke_open_shapes; assumption].
  intros c S. apply (zshape_cwn_range (k_h k)); [lia|exact S].
Qed.
Theorem zstroke_closed_union k p0 pts X Y : 1 <= k_h k -> pt_ok p0 -> Forall pt_ok pts -> poly_axis p0 (pts ++ [p0]) ->
  let cs := zstroke_closed k p0 pts in
  let w := winding_number (path_edges (zoutline_ops cs) None None) X Y in
  w = - Z.of_nat (length (filter (fun c => cwn c X Y =? -1) cs)) /\
  (inside NonZero w = true <-> exists c, In c cs /\ cwn c X Y = -1).
Proof.
  intros Hh P0 Pp Ax cs w. subst w. rewrite outline_winding. apply sum_cwn_union.
  eapply Forall_impl; [|apply zstroke_closed_shapes; assumption].
  intros c S. apply (zshape_cwn_range (k_h k)); [lia|exact S].
Qed.
Print Assumptions zstroke_open_union.
Print Assumptions zstroke_closed_union.

(* with Contains.contains_spec: a point is in the NonZero fill of the outline iff it is inside a contour or on an edge *)
Corollary zstroke_open_contains k p0 pts X Y : 1 <= k_h k -> pt_ok p0 -> Forall pt_ok pts -> poly_axis p0 pts ->
  let cs := zstroke_open k p0 pts in
  contains_spec NonZero (zoutline_ops cs) X Y = true <->
  (exists c, In c cs /\ cwn c X Y = -1) \/ on_path (path_edges (zoutline_ops cs) None None) X Y = true.
Proof.
  intros Hh P0 Pp Ax cs. unfold contains_spec.
  destruct (zstroke_open_union k p0 pts X Y Hh P0 Pp Ax) as [_ U]. cbv zeta in U. fold cs in U.
  rewrite orb_true_iff, U. tauto.
Qed.

(* ================================================================================================================== *)
(* 5. EXAMPLES                                                                                                         *)
(* ================================================================================================================== *)
(* width 4 (h = 2), miter limit m *)
Definition ex_st (c : line_cap) (j : line_join) (m : Z) : stroke_style := mk_style (of_int 4) c j (of_int m).
Definition ex_k (c : line_cap) (j : line_join) (m : Z) : zstyle := zstyle_of (ex_st c j m) 2.

(* the two miter tests for the limits 10 (raqote's default), 1 and 0: 2 <= m*m at a turn, 2 <= 2*m*m straight on *)
Example ex_limits : map (fun m => (k_m1 (ex_k CapButt JoinMiter m), k_m2 (ex_k CapButt JoinMiter m))) [10; 1; 0] =
  [(true, true); (false, true); (false, false)].
Proof. vm_compute. reflexivity. Qed.

(* the model evaluated on the f32 image of the path against the f32 image of the integer outline, bit for bit *)
Definition ex_open_agrees (st : stroke_style) (k : zstyle) (p0 : zpt) (pts : list zpt) : Prop :=
  result_bits (stroke_to_path (mk_path (MoveTo (ept p0) :: map LineTo (map ept pts)) NonZero) st) =
  Some (map op_bits (map eop (zoutline_ops (zstroke_open k p0 pts)))).
Definition ex_closed_agrees (st : stroke_style) (k : zstyle) (p0 : zpt) (pts : list zpt) : Prop :=
  result_bits (stroke_to_path (mk_path (MoveTo (ept p0) :: map LineTo (map ept pts) ++ [Close]) NonZero) st) =
  Some (map op_bits (map eop (zoutline_ops (zstroke_closed k p0 pts)))).

(* an L: (0,0) -> (10,0) -> (10,10), every cap / join combination of M (and the miter limit 1 that falls back to bevel) *)
Definition exL : list zpt := [(10, 0); (10, 10)].
Example ex_L_butt_bevel : ex_open_agrees (ex_st CapButt JoinBevel 10) (ex_k CapButt JoinBevel 10) (0, 0) exL.
Proof. vm_compute. reflexivity. Qed.
Example ex_L_butt_miter : ex_open_agrees (ex_st CapButt JoinMiter 10) (ex_k CapButt JoinMiter 10) (0, 0) exL.
Proof. vm_compute. reflexivity. Qed.
Example ex_L_square_bevel : ex_open_agrees (ex_st CapSquare JoinBevel 10) (ex_k CapSquare JoinBevel 10) (0, 0) exL.
Proof. vm_compute. reflexivity. Qed.
Example ex_L_square_miter : ex_open_agrees (ex_st CapSquare JoinMiter 10) (ex_k CapSquare JoinMiter 10) (0, 0) exL.
Proof. vm_compute. reflexivity. Qed.
Example ex_L_square_miter_limit1 : ex_open_agrees (ex_st CapSquare JoinMiter 1) (ex_k CapSquare JoinMiter 1) (0, 0) exL.
Proof. vm_compute. reflexivity. Qed.
(* the same from the theorem: its hypotheses hold *)
Example ex_L_by_theorem c j m : c <> CapRound -> j <> JoinRound ->
  stroke_to_path (mk_path (MoveTo (ept (0, 0)) :: map LineTo (map ept exL)) NonZero) (ex_st c j m) =
  Ok (mk_path (map eop (zoutline_ops (zstroke_open (ex_k c j m) (0, 0) exL))) NonZero).
Proof.
  intros Hc Hj. apply stroke_exact_open.
  - apply zstyle_of_ok; [reflexivity|lia|exact Hc|exact Hj].
  - unfold pt_ok, cbound. cbn [fst snd]. lia.
  - repeat constructor; unfold cbound; cbn [fst snd]; lia.
  - unfold exL, poly_axis, axis, zsub. cbn [fst snd]. lia.
Qed.

(* the integer outlines themselves *)
Example ex_L_square_bevel_outline : zstroke_open (ex_k CapSquare JoinBevel 10) (0, 0) exL =
  [[(0, 2); (10, 2); (10, 0); (10, -2); (0, -2); (0, 0)];        (* piece of (0,0)-(10,0): [0,10] x [-2,2] *)
   [(12, 0); (10, -2); (10, 0)];                                  (* bevel at (10,0), on the outer side *)
   [(8, 0); (8, 10); (10, 10); (12, 10); (12, 0); (10, 0)];       (* piece of (10,0)-(10,10): [8,12] x [0,10] *)
   [(8, 10); (8, 12); (12, 12); (12, 10); (10, 10)];              (* cap at the end: [8,12] x [10,12] *)
   [(0, -2); (-2, -2); (-2, 2); (0, 2); (0, 0)]].                 (* cap at the start: [-2,0] x [-2,2] *)
Proof. vm_compute. reflexivity. Qed.
Example ex_L_butt_miter_outline : zstroke_open (ex_k CapButt JoinMiter 10) (0, 0) exL =
  [[(0, 2); (10, 2); (10, 0); (10, -2); (0, -2); (0, 0)];
   [(12, 0); (12, -2); (10, -2); (10, 0)];                        (* miter: the square [10,12] x [-2,0] *)
   [(8, 0); (8, 10); (10, 10); (12, 10); (12, 0); (10, 0)]].
Proof. vm_compute. reflexivity. Qed.
(* the other turn direction: (0,0) -> (10,0) -> (10,-10) *)
Example ex_L_other_turn : zstroke_open (ex_k CapButt JoinMiter 10) (0, 0) [(10, 0); (10, -10)] =
  [[(0, 2); (10, 2); (10, 0); (10, -2); (0, -2); (0, 0)];
   [(10, 2); (12, 2); (12, 0); (10, 0)];
   [(12, 0); (12, -10); (10, -10); (8, -10); (8, 0); (10, 0)]].
Proof. vm_compute. reflexivity. Qed.
Example ex_L_areas : map area2 (zstroke_open (ex_k CapSquare JoinBevel 10) (0, 0) exL) = [-80; -4; -80; -16; -16].
Proof. vm_compute. reflexivity. Qed.

(* a closed square (0,0) (10,0) (10,10) (0,10): four pieces, four joins, no caps; both walking directions *)
Definition exSq : list zpt := [(10, 0); (10, 10); (0, 10)].
Example ex_square_miter : ex_closed_agrees (ex_st CapSquare JoinMiter 10) (ex_k CapSquare JoinMiter 10) (0, 0) exSq.
Proof. vm_compute. reflexivity. Qed.
Example ex_square_bevel : ex_closed_agrees (ex_st CapButt JoinBevel 10) (ex_k CapButt JoinBevel 10) (0, 0) exSq.
Proof. vm_compute. reflexivity. Qed.
Example ex_square_reversed : ex_closed_agrees (ex_st CapButt JoinBevel 10) (ex_k CapButt JoinBevel 10) (0, 0) [(0, 10); (10, 10); (10, 0)].
Proof. vm_compute. reflexivity. Qed.
Example ex_square_outline : zstroke_closed (ex_k CapSquare JoinMiter 10) (0, 0) exSq =
  [[(0, 2); (10, 2); (10, 0); (10, -2); (0, -2); (0, 0)];
   [(12, 0); (12, -2); (10, -2); (10, 0)];
   [(8, 0); (8, 10); (10, 10); (12, 10); (12, 0); (10, 0)];
   [(10, 12); (12, 12); (12, 10); (10, 10)];
   [(10, 8); (0, 8); (0, 10); (0, 12); (10, 12); (10, 10)];
   [(-2, 10); (-2, 12); (0, 12); (0, 10)];
   [(2, 10); (2, 0); (0, 0); (-2, 0); (-2, 10); (0, 10)];
   [(0, -2); (-2, -2); (-2, 0); (0, 0)]].
Proof. vm_compute. reflexivity. Qed.
(* both directions: every contour negative *)
Example ex_square_areas :
  (map area2 (zstroke_closed (ex_k CapButt JoinBevel 10) (0, 0) exSq),
   map area2 (zstroke_closed (ex_k CapButt JoinBevel 10) (0, 0) [(0, 10); (10, 10); (10, 0)])) =
  ([-80; -4; -80; -4; -80; -4; -80; -4], [-80; -4; -80; -4; -80; -4; -80; -4]).
Proof. vm_compute. reflexivity. Qed.
Example ex_square_by_theorem c j m : c <> CapRound -> j <> JoinRound ->
  stroke_to_path (mk_path (MoveTo (ept (0, 0)) :: map LineTo (map ept exSq) ++ [Close]) NonZero) (ex_st c j m) =
  Ok (mk_path (map eop (zoutline_ops (zstroke_closed (ex_k c j m) (0, 0) exSq))) NonZero).
Proof.
  intros Hc Hj. apply stroke_exact_closed.
  - apply zstyle_of_ok; [reflexivity|lia|exact Hc|exact Hj].
  - unfold pt_ok, cbound. cbn [fst snd]. lia.
  - repeat constructor; unfold cbound; cbn [fst snd]; lia.
  - unfold exSq, poly_axis, axis, zsub. cbn [app fst snd]. lia.
Qed.

(* a U-turn (0,0) -> (10,0) -> (0,0): the join at the reversal is the degenerate "triangle" (10,2) (10,-2) (10,0) for
   bevel AND for miter (the limit test is 2 <= m*m*0); the stroke ends flat at x = 10; with square caps the two caps
   coincide at (0,0) *)
Example ex_uturn : ex_open_agrees (ex_st CapSquare JoinMiter 10) (ex_k CapSquare JoinMiter 10) (0, 0) [(10, 0); (0, 0)].
Proof. vm_compute. reflexivity. Qed.
Example ex_uturn_outline : zstroke_open (ex_k CapSquare JoinMiter 10) (0, 0) [(10, 0); (0, 0)] =
  [[(0, 2); (10, 2); (10, 0); (10, -2); (0, -2); (0, 0)];
   [(10, 2); (10, -2); (10, 0)];
   [(10, -2); (0, -2); (0, 0); (0, 2); (10, 2); (10, 0)];
   [(0, -2); (-2, -2); (-2, 2); (0, 2); (0, 0)];
   [(0, -2); (-2, -2); (-2, 2); (0, 2); (0, 0)]].
Proof. vm_compute. reflexivity. Qed.
Example ex_uturn_areas : map area2 (zstroke_open (ex_k CapSquare JoinMiter 10) (0, 0) [(10, 0); (0, 0)]) = [-80; 0; -80; -16; -16].
Proof. vm_compute. reflexivity. Qed.
(* straight on (0,0) -> (5,0) -> (10,0): miter within the limit gives no join at all (parallel offset lines), bevel
   (or a miter limit below 1) the degenerate triangle (5,-2) (5,-2) (5,0); a repeated point changes nothing *)
Example ex_straight : ex_open_agrees (ex_st CapButt JoinMiter 10) (ex_k CapButt JoinMiter 10) (0, 0) [(5, 0); (10, 0)] /\
                      ex_open_agrees (ex_st CapButt JoinBevel 10) (ex_k CapButt JoinBevel 10) (0, 0) [(5, 0); (5, 0); (10, 0)].
Proof. split; vm_compute; reflexivity. Qed.
Example ex_straight_outline :
  zstroke_open (ex_k CapButt JoinMiter 10) (0, 0) [(5, 0); (10, 0)] =
  [[(0, 2); (5, 2); (5, 0); (5, -2); (0, -2); (0, 0)]; [(5, 2); (10, 2); (10, 0); (10, -2); (5, -2); (5, 0)]] /\
  zstroke_open (ex_k CapButt JoinBevel 10) (0, 0) [(5, 0); (5, 0); (10, 0)] =
  [[(0, 2); (5, 2); (5, 0); (5, -2); (0, -2); (0, 0)]; [(5, -2); (5, -2); (5, 0)];
   [(5, 2); (10, 2); (10, 0); (10, -2); (5, -2); (5, 0)]].
Proof. split; vm_compute; reflexivity. Qed.

(* winding numbers of the L with width 8 (h = 4): inside the first piece only, in the overlap of the two pieces,
   inside the bevel triangle, inside the end cap, outside *)
Definition ex_k8 : zstyle := zstyle_of (mk_style (of_int 8) CapSquare JoinBevel (of_int 10)) 4.
Example ex_L_winding :
  map (fun q => winding_number (path_edges (zoutline_ops (zstroke_open ex_k8 (0, 0) exL)) None None) (fst q) (snd q))
      [(3, 1); (8, 2); (11, -1); (10, 12); (13, -3); (20, 20)] = [-1; -2; -1; -1; 0; 0].
Proof. vm_compute. reflexivity. Qed.
