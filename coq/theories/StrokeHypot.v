(* C04 on integer axis-aligned polylines, part 0: value-level exactness lemmas for binary32 floats holding integers
   (any sign of zero), and f32::hypot on (d,0) / (0,d).  Used by StrokeExact.v. *)
From Coq Require Import ZArith Reals Lra Lia List Bool ZifyBool.
From Flocq Require Import Core IEEE754.BinarySingleNaN IEEE754.Binary IEEE754.Bits.
Import Flocq.IEEE754.Binary.
Require Import RQ.Base RQ.F32 RQ.Raster RQ.PathF RQ.PathOps RQ.StrokeProofs RQ.StrokeShape.
Require Import RQ.Contains RQ.GridProofs RQ.ContainsF32 RQ.DashZ RQ.DashPos RQ.DashExact.
Import ListNotations.
Open Scope Z_scope.

(* ---- 1.1 value-level lemmas: floats whose value is an integer, whatever the sign of a zero ---- *)

Lemma fint_eq x a b : fint x a -> a = b -> fint x b.
Proof. intros H <-. exact H. Qed.

Lemma fneg_val x a : fint x a -> fint (fneg x) (- a).
Proof.
  intros [F V]. unfold fneg, b32_opp. split.
  - rewrite is_finite_Bopp. exact F.
  - rewrite B2R_Bopp, V, opp_IZR. reflexivity.
Qed.

Lemma fadd_val x y a b : fint x a -> fint y b -> Z.abs (a + b) <= i24 -> fint (fadd x y) (a + b).
Proof.
  intros [Fa Va] [Fb Vb] Hk.
  pose proof (Bplus_correct 24 128 eq_refl eq_refl binop_nan_pl32 mode_NE x y Fa Fb) as H.
  assert (E : (B2R 24 128 x + B2R 24 128 y)%R = F2R (Float radix2 (a + b) 0)).
  { rewrite Va, Vb, F2R_int, plus_IZR. reflexivity. }
  rewrite E in H. assert (E1 : -149 <= 0) by lia. assert (E2 : 0 <= 0) by lia.
  rewrite (round_generic radix2 _ (round_mode mode_NE) _ (small_format _ 0 Hk E1)) in H.
  rewrite (Rlt_bool_true _ _ (small_lt_emax _ 0 (Z.le_trans _ _ _ Hk p24_26) E2)) in H.
  destruct H as (H1 & H2 & _). rewrite F2R_int in H1. split; [exact H2|exact H1].
Qed.

Lemma fsub_val x y a b : fint x a -> fint y b -> Z.abs (a - b) <= i24 -> fint (fsub x y) (a - b).
Proof.
  intros Hx Hy Hk. apply fint_frep. apply frep_sub; [apply fint_frep, Hx|apply fint_frep, Hy|exact Hk|lia].
Qed.

Lemma fdiv_val x y a b q : fint x a -> fint y b -> b <> 0 -> a = q * b -> Z.abs q <= i24 -> fint (fdiv x y) q.
Proof.
  intros [Fa Va] [Fb Vb] Hb Eq Hq.
  assert (NZ : B2R 24 128 y <> 0%R) by (rewrite Vb; apply not_0_IZR; exact Hb).
  pose proof (Bdiv_correct 24 128 eq_refl eq_refl binop_nan_pl32 mode_NE x y NZ) as H.
  assert (E : (B2R 24 128 x / B2R 24 128 y)%R = F2R (Float radix2 q 0)).
  { rewrite Va, Vb, F2R_int, Eq, mult_IZR. field. apply not_0_IZR; exact Hb. }
  rewrite E in H. assert (E1 : -149 <= 0) by lia. assert (E2 : 0 <= 0) by lia.
  rewrite (round_generic radix2 _ (round_mode mode_NE) _ (small_format _ 0 Hq E1)) in H.
  rewrite (Rlt_bool_true _ _ (small_lt_emax _ 0 (Z.le_trans _ _ _ Hq p24_26) E2)) in H.
  destruct H as (H1 & H2 & _). rewrite F2R_int in H1. rewrite Fa in H2. split; [exact H2|exact H1].
Qed.

Lemma fint_f0 : fint f0 0.
Proof. apply (of_int_fint 0). unfold i24. lia. Qed.

Lemma fgt0_val x a : fint x a -> fgt x f0 = (0 <? a).
Proof. intros H. apply (fgt_rep _ _ _ _ 0); [apply fint_frep, H|apply frep_f0]. Qed.
Lemma feq0_val x a : fint x a -> feq x f0 = (a =? 0).
Proof. intros H. apply (feq_rep _ _ _ _ 0); [apply fint_frep, H|apply frep_f0]. Qed.
Lemma fge0_val x a : fint x a -> fge x f0 = (0 <=? a).
Proof. intros H. apply (fge_rep _ _ _ _ 0); [apply fint_frep, H|apply frep_f0]. Qed.
Lemma feq_val x y a b : fint x a -> fint y b -> feq x y = (a =? b).
Proof. intros Hx Hy. apply (feq_rep _ _ _ _ 0); apply fint_frep; assumption. Qed.

(* ---- 1.2 fhypot on (d, 0) and (0, d): the binary64 detour returns |d| exactly.  Finite domain |d| <= 4096 (the
   differences of coordinates within +-2048): checked by evaluation of the model on every such d ---- *)
Definition zrange (lo : Z) (n : nat) : list Z := map (fun k => lo + Z.of_nat k) (seq 0 n).
Lemma zrange_In lo n d : lo <= d < lo + Z.of_nat n -> In d (zrange lo n).
Proof.
  intros H. unfold zrange. apply in_map_iff. exists (Z.to_nat (d - lo)). split; [lia|]. apply in_seq. lia.
Qed.

Definition hyp_ok (d : Z) : bool :=
  (to_bits (fhypot (of_int d) (of_int 0)) =? to_bits (of_int (Z.abs d))) &&
  (to_bits (fhypot (of_int 0) (of_int d)) =? to_bits (of_int (Z.abs d))).
Lemma hyp_table : forallb hyp_ok (zrange (-4096) (Z.to_nat 8193)) = true.
Proof. vm_compute. reflexivity. Qed.

Lemma to_bits_inj x y : to_bits x = to_bits y -> x = y.
Proof.
  intros H. unfold to_bits, bits_of_b32 in H.
  rewrite <- (binary_float_of_bits_of_binary_float 23 8 eq_refl eq_refl eq_refl x).
  rewrite <- (binary_float_of_bits_of_binary_float 23 8 eq_refl eq_refl eq_refl y).
  rewrite H. reflexivity.
Qed.

Lemma fhypot_axis d : Z.abs d <= 4096 ->
  fhypot (of_int d) (of_int 0) = of_int (Z.abs d) /\ fhypot (of_int 0) (of_int d) = of_int (Z.abs d).
Proof.
  intros H. pose proof hyp_table as T. rewrite forallb_forall in T.
  assert (I : In d (zrange (-4096) (Z.to_nat 8193))) by (apply zrange_In; lia).
  specialize (T d I). unfold hyp_ok in T. apply andb_prop in T. destruct T as [T1 T2].
  split; apply to_bits_inj, Z.eqb_eq; assumption.
Qed.
