(* stroke_to_path strokes every subpath on its own: the outline of a path is the outlines of its subpaths one after the
   other (C04: caps and joins are decided inside a subpath; nothing leaks from one subpath into the next). *)
Require Import RQ.Base RQ.F32 RQ.Raster RQ.PathF RQ.PathOps.

(* every builder only adds to the front of the (reversed) output *)
Lemma arc_segment_ext out base xc yc r a b : arc_segment (out ++ base) xc yc r a b = arc_segment out xc yc r a b ++ base.
Proof. reflexivity. Qed.
Lemma arc_ext out base xc yc r a b : arc (out ++ base) xc yc r a b = arc out xc yc r a b ++ base.
Proof. unfold arc. rewrite !arc_segment_ext. reflexivity. Qed.
Lemma cap_line_ext out base st p n : cap_line (out ++ base) st p n = cap_line out st p n ++ base.
Proof.
  unfold cap_line. destruct (s_cap st); [|reflexivity|reflexivity].
  rewrite app_comm_cons, arc_ext. reflexivity.
Qed.
Lemma bevel_ext out base st p s1 s2 : bevel (out ++ base) st p s1 s2 = bevel out st p s1 s2 ++ base.
Proof. reflexivity. Qed.
Lemma join_line_ext out base st p s1 s2 : join_line (out ++ base) st p s1 s2 = join_line out st p s1 s2 ++ base.
Proof.
  unfold join_line. destruct (if is_interior_angle s1 s2 then _ else _) as [t1 t2].
  destruct (s_join st).
  - rewrite app_comm_cons, arc_ext. reflexivity.
  - destruct (fle _ _); [|apply bevel_ext]. destruct (line_intersection _ _ _ _); reflexivity.
  - apply bevel_ext.
Qed.
Lemma segment_piece_ext out base a b n hw : segment_piece (out ++ base) a b n hw = segment_piece out a b n hw ++ base.
Proof. reflexivity. Qed.
Lemma caps_ext out base st cur last start : caps (out ++ base) st cur last start = caps out st cur last start ++ base.
Proof.
  unfold caps. destruct cur as [c|]; [|reflexivity]. destruct start as [[p n]|]; [|reflexivity].
  rewrite !cap_line_ext. reflexivity.
Qed.

(* two accumulators that the rest of the run cannot tell apart: same cursor, same subpath start, same first point; the
   output of the second is the output of the first on top of `base`; and the last normal agrees as soon as the subpath
   has a first segment (before that it is never read) *)
Definition ssim (base : list pathop) (a b : stroke_acc) : Prop :=
  sa_cur b = sa_cur a /\ sa_start b = sa_start a /\ sa_first b = sa_first a /\ sa_out b = sa_out a ++ base /\
  (sa_start a <> None -> sa_last b = sa_last a).

Lemma stroke_op_sim st hw base a b o : ssim base a b ->
  match stroke_op st hw a o, stroke_op st hw b o with
  | Ok a', Ok b' => ssim base a' b'
  | Err e, Err e' => e = e'
  | _, _ => False
  end.
Proof.
  intros (Hc & Hs & Hf & Ho & Hl). destruct o as [p|p|c p|c1 c2 p q|]; cbn [stroke_op].
  - (* MoveTo: the caps of the previous subpath read the last normal only when it has a first segment *)
    unfold ssim. cbn [sa_cur sa_start sa_first sa_out sa_last]. repeat split; try discriminate || reflexivity.
    + rewrite Hc, Hs, Ho. unfold caps at 1 2. destruct (sa_cur a) as [cu|]; [|reflexivity].
      destruct (sa_start a) as [[sp sn]|] eqn:Es; [|reflexivity].
      rewrite Hl by discriminate. rewrite !cap_line_ext. reflexivity.
    + intros H. exfalso. apply H. reflexivity.
  - rewrite Hc. destruct (sa_cur a) as [cur|].
    + destruct (compute_normal cur p) as [normal|].
      * rewrite Hs. destruct (sa_start a) as [s|] eqn:Es.
        -- unfold ssim. cbn [sa_cur sa_start sa_first sa_out sa_last]. rewrite Hf, Ho, (Hl ltac:(discriminate)).
           repeat split; try reflexivity. rewrite join_line_ext, segment_piece_ext. reflexivity.
        -- unfold ssim. cbn [sa_cur sa_start sa_first sa_out sa_last]. rewrite Hf, Ho.
           repeat split; try reflexivity.
      * unfold ssim. cbn [sa_cur sa_start sa_first sa_out sa_last]. rewrite Hs, Hf, Ho. repeat split; try reflexivity. exact Hl.
    + unfold ssim. cbn [sa_cur sa_start sa_first sa_out sa_last]. rewrite Ho. repeat split; try reflexivity.
      intros H. exfalso. apply H. reflexivity.
  - reflexivity.
  - reflexivity.
  - (* Close *)
    unfold ssim. cbn [sa_cur sa_start sa_first sa_out sa_last]. rewrite Hf. repeat split; try reflexivity.
    + rewrite Hc, Hs, Ho. destruct (sa_cur a) as [cur|]; [|reflexivity].
      destruct (sa_start a) as [[endp sn]|] eqn:Es; [|reflexivity].
      rewrite (Hl ltac:(discriminate)).
      destruct (compute_normal cur endp) as [normal|].
      * rewrite !join_line_ext, segment_piece_ext. rewrite join_line_ext. reflexivity.
      * rewrite join_line_ext. reflexivity.
    + intros H. exfalso. apply H. reflexivity.
Qed.

Lemma stroke_ops_sim st hw base ops : forall a b, ssim base a b ->
  match stroke_ops st hw a ops, stroke_ops st hw b ops with
  | Ok a', Ok b' => ssim base a' b'
  | Err e, Err e' => e = e'
  | _, _ => False
  end.
Proof.
  induction ops as [|o t IH]; intros a b H; cbn [stroke_ops]; [exact H|].
  pose proof (stroke_op_sim st hw base a b o H) as S.
  destruct (stroke_op st hw a o) as [a'|e], (stroke_op st hw b o) as [b'|e']; cbn [bind]; try contradiction.
  - apply IH. exact S.
  - exact S.
Qed.

Lemma stroke_ops_app st hw ops1 ops2 : forall a,
  stroke_ops st hw a (ops1 ++ ops2) = do a1 <- stroke_ops st hw a ops1; stroke_ops st hw a1 ops2.
Proof.
  induction ops1 as [|o t IH]; intros a; cbn [app stroke_ops bind]; [reflexivity|].
  destruct (stroke_op st hw a o); cbn [bind]; [apply IH|reflexivity].
Qed.

(* EVERY SUBPATH IS STROKED ON ITS OWN *)
Theorem stroke_to_path_concat ops1 p ops2 w w1 w2 st :
  stroke_to_path (mk_path (ops1 ++ MoveTo p :: ops2) w) st =
  do r1 <- stroke_to_path (mk_path ops1 w1) st;
  do r2 <- stroke_to_path (mk_path (MoveTo p :: ops2) w2) st;
  Ok (mk_path (p_ops r1 ++ p_ops r2) NonZero).
Proof.
  unfold stroke_to_path. cbn [p_ops]. destruct (fle (s_width st) f0); [reflexivity|].
  set (hw := fdiv (s_width st) (of_int 2)). set (a0 := mk_sa None pzero None None []).
  rewrite stroke_ops_app.
  destruct (stroke_ops st hw a0 ops1) as [a1|e]; cbn [bind]; [|reflexivity].
  cbn [stroke_ops stroke_op bind]. unfold a0. cbn [sa_cur sa_last sa_start sa_out].
  change (caps [] st None pzero None) with (@nil pathop).
  set (B := caps (sa_out a1) st (sa_cur a1) (sa_last a1) (sa_start a1)).
  assert (S : ssim B (mk_sa (Some p) pzero None (Some p) []) (mk_sa (Some p) (sa_last a1) None (Some p) B)).
  { unfold ssim. cbn [sa_cur sa_start sa_first sa_out sa_last]. repeat split; try reflexivity. intros H. exfalso. apply H. reflexivity. }
  pose proof (stroke_ops_sim st hw B ops2 _ _ S) as R.
  destruct (stroke_ops st hw (mk_sa (Some p) pzero None (Some p) []) ops2) as [a2|e2],
           (stroke_ops st hw (mk_sa (Some p) (sa_last a1) None (Some p) B) ops2) as [b2|e2']; cbn [bind]; try contradiction.
  - destruct R as (Hc & Hs & Hf & Ho & Hl). cbn [p_ops]. f_equal. f_equal.
    rewrite Hc, Hs, Ho.
    assert (E : caps (sa_out a2 ++ B) st (sa_cur a2) (sa_last b2) (sa_start a2)
                = caps (sa_out a2) st (sa_cur a2) (sa_last a2) (sa_start a2) ++ B).
    { destruct (sa_start a2) as [s|] eqn:Es.
      - rewrite (Hl ltac:(discriminate)). apply caps_ext.
      - unfold caps. destruct (sa_cur a2); reflexivity. }
    rewrite E. apply rev_app_distr.
  - congruence.
Qed.
Print Assumptions stroke_to_path_concat.

(* ONE SEGMENT, BUTT CAPS: the outline is the rectangle a +- n*hw, b +- n*hw (walked through a and b), n the unit normal of
   the segment and hw half the width - the offset region of the segment, in the very f32 operations the code performs *)
Theorem stroke_single_segment_butt a b n w st :
  fle (s_width st) f0 = false -> s_cap st = CapButt -> compute_normal a b = Some n ->
  let hw := fdiv (s_width st) (of_int 2) in
  stroke_to_path (mk_path [MoveTo a; LineTo b] w) st =
  Ok (mk_path [MoveTo (fadd (px a) (fmul (px n) hw), fadd (py a) (fmul (py n) hw));
               LineTo (fadd (px b) (fmul (px n) hw), fadd (py b) (fmul (py n) hw));
               LineTo b;
               LineTo (fadd (px b) (fmul (fneg (px n)) hw), fadd (py b) (fmul (fneg (py n)) hw));
               LineTo (fsub (px a) (fmul (px n) hw), fsub (py a) (fmul (py n) hw));
               LineTo a; Close] NonZero).
Proof.
  intros Hw Hcap Hn hw. unfold stroke_to_path. rewrite Hw. cbn [p_ops stroke_ops stroke_op bind sa_cur sa_start sa_out sa_last sa_first].
  change (caps [] st None pzero None) with (@nil pathop). rewrite Hn. cbn [bind sa_cur sa_start sa_out sa_last sa_first].
  unfold caps, cap_line. rewrite Hcap. reflexivity.
Qed.

(* a width that is zero or negative gives no outline at all *)
Theorem stroke_nonpositive_width p st : fle (s_width st) f0 = true -> stroke_to_path p st = Ok (mk_path [] NonZero).
Proof. intros H. unfold stroke_to_path. rewrite H. reflexivity. Qed.
