(* C04 - the outline stroke_to_path produces for a whole polyline, in closed form:

     one piece (the rectangle of the stroke width) per segment that has a normal,
     one join at every vertex between two such segments (for a closed subpath also at the closing vertex),
     the two caps of every open subpath; nothing for segments of zero length (the cursor moves, nothing else).

   Everything is stated with the very builders of the model (segment_piece, join_line, cap_line of PathOps.v), so the
   equations are exact over the f32 operations; no real-number reasoning is involved.

   Layout
     1. the shapes (segment_piece_points, bevel_points, miter_points, square_cap_points, ...)
     2. the closed form:  segs / chain / pieces / open_outline / closed_outline
     3. the run of stroke_ops over `map LineTo pts` (lines_started, lines_unstarted)
     4. main theorems: stroke_open_polyline(_gen), stroke_closed_polyline(_gen), stroke_polylines
     5. the forward reading (output order) : open_shapes / closed_shapes
     6. zero-length segments
     7. examples *)
Require Import RQ.Base RQ.F32 RQ.Raster RQ.PathF RQ.PathOps RQ.StrokeProofs.
From Coq Require Import List.
Import ListNotations.

(* ------------------------------------------------------------------------------------------------------------------ *)
(* 1. THE SHAPES                                                                                                       *)
(* ------------------------------------------------------------------------------------------------------------------ *)

(* p + v*s and p - v*s, in the operations of the code *)
Definition poff (p v : pt) (s : f32) : pt := (fadd (px p) (fmul (px v) s), fadd (py p) (fmul (py v) s)).
Definition pofm (p v : pt) (s : f32) : pt := (fsub (px p) (fmul (px v) s), fsub (py p) (fmul (py v) s)).

(* a closed polygon as an op list in output order: MoveTo the first point, LineTo the others, Close *)
Definition polygon (l : list pt) : list pathop :=
  match l with [] => [] | p :: t => MoveTo p :: map LineTo t ++ [Close] end.

(* the piece of a segment a -> b with unit normal n: the rectangle a+n*hw, b+n*hw, b-n*hw, a-n*hw, walked through
   b and a (so it has six vertices); b-n*hw is computed as b + (-n)*hw, a-n*hw with a subtraction, as in stroke.rs *)
Lemma segment_piece_points out a b n hw :
  segment_piece out a b n hw =
  rev (polygon [poff a n hw; poff b n hw; b; poff b (vflip n) hw; pofm a n hw; a]) ++ out.
Proof. reflexivity. Qed.

(* the two normals a join is drawn between: on the inner side of the turn (or when the normals are equal) both are
   flipped and swapped, so that the join always lies on the outer side and keeps the orientation of the pieces *)
Definition join_normals (s1 s2 : pt) : pt * pt := if is_interior_angle s1 s2 then (vflip s2, vflip s1) else (s1, s2).

Lemma join_line_oriented out st p s1 s2 :
  join_line out st p s1 s2 =
  let '(t1, t2) := join_normals s1 s2 in
  let offset := fdiv (s_width st) (of_int 2) in
  match s_join st with
  | JoinRound => Close :: LineTo p :: arc (MoveTo (poff p t1 offset) :: out) (px p) (py p) offset t1 t2
  | JoinMiter =>
      if fle (of_int 2) (fmul (fmul (s_miter st) (s_miter st))
                              (fsub f1 (fadd (fmul (fneg (px t1)) (px t2)) (fmul (fneg (py t1)) (py t2))))) then
        match line_intersection (poff p t1 offset) t1 (poff p t2 offset) t2 with
        | Some i => rev (polygon [poff p t1 offset; i; poff p t2 offset; p]) ++ out
        | None => out
        end
      else rev (polygon [poff p t1 offset; poff p t2 offset; p]) ++ out
  | JoinBevel => rev (polygon [poff p t1 offset; poff p t2 offset; p]) ++ out
  end.
Proof.
  unfold join_line, join_normals. destruct (is_interior_angle s1 s2); destruct (s_join st); reflexivity.
Qed.

(* bevel: the triangle p+t1*hw, p+t2*hw, p *)
Lemma bevel_points out st p s1 s2 : s_join st = JoinBevel ->
  join_line out st p s1 s2 =
  let '(t1, t2) := join_normals s1 s2 in let hw := fdiv (s_width st) (of_int 2) in
  rev (polygon [poff p t1 hw; poff p t2 hw; p]) ++ out.
Proof. intros H. rewrite join_line_oriented. destruct (join_normals s1 s2). cbv zeta. rewrite H. reflexivity. Qed.

(* the test of the miter limit *)
Definition within_miter_limit (st : stroke_style) (t1 t2 : pt) : bool :=
  fle (of_int 2) (fmul (fmul (s_miter st) (s_miter st))
                       (fsub f1 (fadd (fmul (fneg (px t1)) (px t2)) (fmul (fneg (py t1)) (py t2))))).

(* miter within the limit, the two offset lines meet in i: the quadrilateral p+t1*hw, i, p+t2*hw, p *)
Lemma miter_points out st p s1 s2 t1 t2 i : s_join st = JoinMiter -> join_normals s1 s2 = (t1, t2) ->
  let hw := fdiv (s_width st) (of_int 2) in
  within_miter_limit st t1 t2 = true ->
  line_intersection (poff p t1 hw) t1 (poff p t2 hw) t2 = Some i ->
  join_line out st p s1 s2 = rev (polygon [poff p t1 hw; i; poff p t2 hw; p]) ++ out.
Proof.
  intros H E hw L I. rewrite join_line_oriented, E. cbv zeta. rewrite H.
  unfold within_miter_limit in L. rewrite L. fold hw. rewrite I. reflexivity.
Qed.
(* miter beyond the limit: the bevel *)
Lemma miter_beyond_limit_points out st p s1 s2 t1 t2 : s_join st = JoinMiter -> join_normals s1 s2 = (t1, t2) ->
  let hw := fdiv (s_width st) (of_int 2) in
  within_miter_limit st t1 t2 = false ->
  join_line out st p s1 s2 = rev (polygon [poff p t1 hw; poff p t2 hw; p]) ++ out.
Proof.
  intros H E hw L. rewrite join_line_oriented, E. cbv zeta. rewrite H.
  unfold within_miter_limit in L. rewrite L. reflexivity.
Qed.
(* miter within the limit but the offset lines are parallel (e.g. a straight continuation): no join at all *)
Lemma miter_parallel_points out st p s1 s2 t1 t2 : s_join st = JoinMiter -> join_normals s1 s2 = (t1, t2) ->
  let hw := fdiv (s_width st) (of_int 2) in
  within_miter_limit st t1 t2 = true ->
  line_intersection (poff p t1 hw) t1 (poff p t2 hw) t2 = None ->
  join_line out st p s1 s2 = out.
Proof.
  intros H E hw L I. rewrite join_line_oriented, E. cbv zeta. rewrite H.
  unfold within_miter_limit in L. rewrite L. fold hw. rewrite I. reflexivity.
Qed.
(* round: the sector p+t1*hw, arc (two cubics) to p+t2*hw, p *)
Lemma round_join_points out st p s1 s2 : s_join st = JoinRound ->
  join_line out st p s1 s2 =
  let '(t1, t2) := join_normals s1 s2 in let hw := fdiv (s_width st) (of_int 2) in
  Close :: LineTo p :: arc [MoveTo (poff p t1 hw)] (px p) (py p) hw t1 t2 ++ out.
Proof.
  intros H. rewrite join_line_oriented. destruct (join_normals s1 s2) as [t1 t2]. cbv zeta. rewrite H.
  change (MoveTo (poff p t1 (fdiv (s_width st) (of_int 2))) :: out)
    with ([MoveTo (poff p t1 (fdiv (s_width st) (of_int 2)))] ++ out).
  rewrite arc_ext. reflexivity.
Qed.

(* square cap at p, n the normal of the segment that ends in p: with e = p + hw * (ny, -nx) (p pushed along the
   segment direction), the rectangle p+n*hw, e+n*hw, e-n*hw, p-n*hw, walked through p *)
Lemma square_cap_points out st p n : s_cap st = CapSquare ->
  let hw := fdiv (s_width st) (of_int 2) in
  let e := padd p (vscale (vswap n) hw) in
  cap_line out st p n = rev (polygon [poff p n hw; poff e n hw; poff e (vflip n) hw; pofm p n hw; p]) ++ out.
Proof. intros H. unfold cap_line. rewrite H. reflexivity. Qed.
Lemma butt_cap_points out st p n : s_cap st = CapButt -> cap_line out st p n = out.
Proof. intros H. unfold cap_line. rewrite H. reflexivity. Qed.
(* round cap: the half disc p+n*hw, arc (two cubics) to p-n*hw, p *)
Lemma round_cap_points out st p n : s_cap st = CapRound ->
  let hw := fdiv (s_width st) (of_int 2) in
  cap_line out st p n = Close :: LineTo p :: arc [MoveTo (poff p n hw)] (px p) (py p) hw n (vflip n) ++ out.
Proof.
  intros H hw. unfold cap_line. rewrite H. fold hw.
  change (MoveTo (fadd (px p) (fmul (px n) hw), fadd (py p) (fmul (py n) hw)) :: out) with ([MoveTo (poff p n hw)] ++ out).
  rewrite arc_ext. reflexivity.
Qed.
(* an arc is two cubics on top of what was there *)
Lemma arc_points out xc yc r a b : exists c1 c2 e1 d1 d2 e2,
  arc out xc yc r a b = CubicTo d1 d2 e2 [] :: CubicTo c1 c2 e1 [] :: out /\
  e2 = (fadd xc (fmul r (px b)), fadd yc (fmul r (py b))).
Proof. unfold arc, arc_segment. do 6 eexists. split; reflexivity. Qed.

(* ------------------------------------------------------------------------------------------------------------------ *)
(* 2. THE CLOSED FORM                                                                                                  *)
(* ------------------------------------------------------------------------------------------------------------------ *)

(* a segment with its normal: (a, b, n) *)
Definition seg : Type := (pt * pt * pt)%type.
Definition seg_a (s : seg) : pt := fst (fst s).
Definition seg_b (s : seg) : pt := snd (fst s).
Definition seg_n (s : seg) : pt := snd s.

(* the piece of one segment *)
Definition piece (out : list pathop) (hw : f32) (s : seg) : list pathop := segment_piece out (seg_a s) (seg_b s) (seg_n s) hw.

(* the segments that follow a segment of normal `ln`: before each one the join with its predecessor (at the point where
   it starts), then its piece.  Like the builders it conses onto the reversed output `out`. *)
Fixpoint chain (st : stroke_style) (hw : f32) (out : list pathop) (ln : pt) (l : list seg) : list pathop :=
  match l with
  | [] => out
  | s :: t => chain st hw (piece (join_line out st (seg_a s) ln (seg_n s)) hw s) (seg_n s) t
  end.
(* the normal of the last segment of l (ln when there is none) *)
Fixpoint final_normal (ln : pt) (l : list seg) : pt := match l with [] => ln | s :: t => final_normal (seg_n s) t end.

(* piece of the first segment, then join + piece for every further one *)
Definition pieces (st : stroke_style) (hw : f32) (l : list seg) : list pathop :=
  match l with [] => [] | s :: t => chain st hw (piece [] hw s) (seg_n s) t end.

(* open polyline with segments l that ends in e: pieces and joins, the cap at e (normal of the last segment), the cap at the
   start (flipped normal of the first segment).  Reversed output, as sa_out. *)
Definition open_outline (st : stroke_style) (hw : f32) (l : list seg) (e : pt) : list pathop :=
  match l with
  | [] => []
  | s :: t => cap_line (cap_line (pieces st hw l) st e (final_normal (seg_n s) t)) st (seg_a s) (vflip (seg_n s))
  end.
(* closed polyline, l includes the closing segment (when that has a normal): pieces and joins, and the join at the start
   point between the last and the first segment; no caps *)
Definition closed_outline (st : stroke_style) (hw : f32) (l : list seg) : list pathop :=
  match l with
  | [] => []
  | s :: t => join_line (pieces st hw l) st (seg_a s) (final_normal (seg_n s) t) (seg_n s)
  end.

(* the segments of the polyline c, p1, p2, ... that have a normal; a segment without one is dropped, but the next segment
   starts where the dropped one ended *)
Fixpoint segs (c : pt) (pts : list pt) : list seg :=
  match pts with
  | [] => []
  | p :: t => match compute_normal c p with Some n => (c, p, n) :: segs p t | None => segs p t end
  end.
(* where the polyline c, p1, p2, ... ends *)
Fixpoint end_pt (c : pt) (pts : list pt) : pt := match pts with [] => c | p :: t => end_pt p t end.
Lemma last_cons {A} (t : list A) : forall p c, last (p :: t) c = last t p.
Proof.
  induction t as [|q t IH]; intros p c; [reflexivity|].
  change (last (p :: q :: t) c) with (last (q :: t) c). rewrite !IH. reflexivity.
Qed.
Lemma end_pt_last c pts : end_pt c pts = last pts c.
Proof.
  revert c. induction pts as [|p t IH]; intros c; [reflexivity|]. cbn [end_pt]. rewrite IH, last_cons. reflexivity.
Qed.
(* the segments of the closed polyline: those of the open one and the closing segment, which runs from the end to the
   point where the first segment with a normal started (that is p0 unless the polyline begins with zero-length segments) *)
Definition cyc_segs (p0 : pt) (pts : list pt) : list seg :=
  match segs p0 pts with
  | [] => []
  | s :: t => (s :: t) ++ segs (end_pt p0 pts) [seg_a s]
  end.

Lemma chain_app st hw l1 : forall out ln l2,
  chain st hw out ln (l1 ++ l2) = chain st hw (chain st hw out ln l1) (final_normal ln l1) l2.
Proof. induction l1 as [|s t IH]; intros out ln l2; cbn [app chain final_normal]; [reflexivity|apply IH]. Qed.
Lemma final_normal_app l1 : forall ln l2, final_normal ln (l1 ++ l2) = final_normal (final_normal ln l1) l2.
Proof. induction l1 as [|s t IH]; intros ln l2; cbn [app final_normal]; [reflexivity|apply IH]. Qed.
Lemma chain_ext st hw l : forall out base ln, chain st hw (out ++ base) ln l = chain st hw out ln l ++ base.
Proof.
  induction l as [|s t IH]; intros out base ln; cbn [chain]; [reflexivity|].
  unfold piece. rewrite join_line_ext, segment_piece_ext. apply IH.
Qed.

Lemma segs_app c l1 l2 : segs c (l1 ++ l2) = segs c l1 ++ segs (end_pt c l1) l2.
Proof. revert c. induction l1 as [|p t IH]; intros c; cbn [app segs end_pt]; [reflexivity|].
  destruct (compute_normal c p); rewrite IH; reflexivity. Qed.
Lemma end_pt_app c l1 l2 : end_pt c (l1 ++ l2) = end_pt (end_pt c l1) l2.
Proof. revert c. induction l1 as [|p t IH]; intros c; cbn [app end_pt]; [reflexivity|apply IH]. Qed.
(* when the first segment has a normal, the segments of the closed polyline p0, p1, ..., pn are those of the open
   polyline p0, p1, ..., pn, p0 *)
Lemma cyc_segs_return p0 p1 n1 pts : compute_normal p0 p1 = Some n1 -> cyc_segs p0 (p1 :: pts) = segs p0 ((p1 :: pts) ++ [p0]).
Proof. intros H. unfold cyc_segs. rewrite segs_app. cbn [segs]. rewrite H. reflexivity. Qed.

(* ------------------------------------------------------------------------------------------------------------------ *)
(* 3. THE RUN OVER THE LineTo's OF A SUBPATH                                                                           *)
(* ------------------------------------------------------------------------------------------------------------------ *)

(* the subpath already has a first segment (sa_start is set) *)
Lemma lines_started st hw pts : forall c ln s fst0 out,
  stroke_ops st hw (mk_sa (Some c) ln (Some s) fst0 out) (map LineTo pts) =
  Ok (mk_sa (Some (end_pt c pts)) (final_normal ln (segs c pts)) (Some s) fst0 (chain st hw out ln (segs c pts))).
Proof.
  induction pts as [|p t IH]; intros c ln s fst0 out; [reflexivity|].
  cbn [map stroke_ops stroke_op sa_cur sa_last sa_start sa_first sa_out segs end_pt].
  destruct (compute_normal c p) as [n|]; cbn [bind]; rewrite IH; reflexivity.
Qed.

(* the subpath has no segment with a normal yet *)
Lemma lines_unstarted st hw pts : forall c ln fst0 out,
  stroke_ops st hw (mk_sa (Some c) ln None fst0 out) (map LineTo pts) =
  Ok (match segs c pts with
      | [] => mk_sa (Some (end_pt c pts)) ln None fst0 out
      | s :: t => mk_sa (Some (end_pt c pts)) (final_normal (seg_n s) t) (Some (seg_a s, seg_n s)) fst0
                        (chain st hw (piece out hw s) (seg_n s) t)
      end).
Proof.
  induction pts as [|p t IH]; intros c ln fst0 out; [reflexivity|].
  cbn [map stroke_ops stroke_op sa_cur sa_last sa_start sa_first sa_out segs end_pt].
  destruct (compute_normal c p) as [n|]; cbn [bind].
  - rewrite lines_started. reflexivity.
  - apply IH.
Qed.

(* ------------------------------------------------------------------------------------------------------------------ *)
(* 4. MAIN THEOREMS                                                                                                    *)
(* ------------------------------------------------------------------------------------------------------------------ *)

Definition half_width (st : stroke_style) : f32 := fdiv (s_width st) (of_int 2).

(* OPEN POLYLINE, any points: the outline of  MoveTo p0, LineTo p1, ..., LineTo pn  is the open outline of its segments
   with a normal, capped at pn and at the start of the first such segment; no such segment, no outline.
   The only requirement on the width is the one of the code: not (width <= 0). *)
Theorem stroke_open_polyline_gen p0 pts w st : fle (s_width st) f0 = false ->
  stroke_to_path (mk_path (MoveTo p0 :: map LineTo pts) w) st =
  Ok (mk_path (rev (open_outline st (half_width st) (segs p0 pts) (end_pt p0 pts))) NonZero).
Proof.
  intros Hw. unfold stroke_to_path. rewrite Hw. fold (half_width st).
  cbn [p_ops stroke_ops stroke_op bind sa_cur sa_last sa_start sa_first sa_out].
  change (caps [] st None pzero None) with (@nil pathop).
  rewrite lines_unstarted. cbn [bind].
  destruct (segs p0 pts) as [|s t]; reflexivity.
Qed.
Print Assumptions stroke_open_polyline_gen.

(* CLOSED POLYLINE, any points *)
Theorem stroke_closed_polyline_gen p0 pts w st : fle (s_width st) f0 = false ->
  stroke_to_path (mk_path (MoveTo p0 :: map LineTo pts ++ [Close]) w) st =
  Ok (mk_path (rev (closed_outline st (half_width st) (cyc_segs p0 pts))) NonZero).
Proof.
  intros Hw. unfold stroke_to_path. rewrite Hw. fold (half_width st).
  cbn [p_ops stroke_ops stroke_op bind sa_cur sa_last sa_start sa_first sa_out].
  change (caps [] st None pzero None) with (@nil pathop).
  rewrite stroke_ops_app, lines_unstarted. cbn [bind]. unfold cyc_segs.
  destruct (segs p0 pts) as [|s t].
  - reflexivity.
  - cbn [stroke_ops stroke_op bind sa_cur sa_last sa_start sa_first sa_out caps].
    do 3 f_equal. cbn [segs]. unfold closed_outline, pieces.
    destruct (compute_normal (end_pt p0 pts) (seg_a s)) as [n|].
    + change ((s :: t) ++ [(end_pt p0 pts, seg_a s, n)]) with (s :: t ++ [(end_pt p0 pts, seg_a s, n)]).
      cbv iota. rewrite chain_app, final_normal_app. reflexivity.
    + rewrite app_nil_r. reflexivity.
Qed.
Print Assumptions stroke_closed_polyline_gen.

(* ---- the case the property talks about: every segment has a normal ---- *)

(* l is the list of segments of a polyline that starts in p: consecutive, and each with its computed normal *)
Fixpoint connected (p : pt) (l : list seg) : Prop :=
  match l with
  | [] => True
  | s :: t => seg_a s = p /\ compute_normal (seg_a s) (seg_b s) = Some (seg_n s) /\ connected (seg_b s) t
  end.
(* the ops of the polyline: MoveTo p0, LineTo the end of every segment *)
Definition polyline_ops (p0 : pt) (l : list seg) : list pathop := MoveTo p0 :: map LineTo (map seg_b l).
(* its last point *)
Definition poly_end (p0 : pt) (l : list seg) : pt := end_pt p0 (map seg_b l).
Lemma poly_end_last p0 l d : l <> [] -> poly_end p0 l = seg_b (last l d).
Proof.
  intros H. unfold poly_end. rewrite end_pt_last. destruct l as [|s t]; [contradiction|].
  clear H. revert s. induction t as [|s' t IH]; intros s; [reflexivity|].
  change (last (s :: s' :: t) d) with (last (s' :: t) d). rewrite <- IH. reflexivity.
Qed.

Lemma segs_connected l : forall p, connected p l -> segs p (map seg_b l) = l.
Proof.
  induction l as [|s t IH]; intros p H; [reflexivity|]. destruct H as (Ha & Hn & Ht).
  cbn [map segs]. rewrite <- Ha, Hn, (IH _ Ht). destruct s as [[a b] n]. reflexivity.
Qed.

(* 1. OPEN POLYLINE  MoveTo p0, LineTo p1, ..., LineTo pn  with l = [(p0,p1,n1); (p1,p2,n2); ...; (p_{n-1},pn,nn)], every
   n_i the computed normal: the result is Ok, NonZero, and its ops are (output order = rev of)
       piece p0 p1 n1;  join at p1 between n1 and n2, piece p1 p2 n2;  ...;  cap at pn with normal nn;  cap at p0 with -n1 *)
Theorem stroke_open_polyline p0 l w st : fle (s_width st) f0 = false -> connected p0 l ->
  stroke_to_path (mk_path (polyline_ops p0 l) w) st =
  Ok (mk_path (rev (open_outline st (half_width st) l (poly_end p0 l))) NonZero).
Proof.
  intros Hw Hc. unfold polyline_ops. rewrite stroke_open_polyline_gen by exact Hw.
  rewrite (segs_connected l p0 Hc). reflexivity.
Qed.
Print Assumptions stroke_open_polyline.

(* 2. CLOSED POLYLINE  MoveTo p0, LineTo p1, ..., LineTo pn, Close  (n >= 1).
   (a) the closing segment pn -> p0 has the normal nc: pieces and joins of p0, ..., pn, p0 and the join at p0 between nc
       and n1; no caps *)
Theorem stroke_closed_polyline p0 l nc w st : fle (s_width st) f0 = false -> connected p0 l -> l <> [] ->
  compute_normal (poly_end p0 l) p0 = Some nc ->
  stroke_to_path (mk_path (polyline_ops p0 l ++ [Close]) w) st =
  Ok (mk_path (rev (closed_outline st (half_width st) (l ++ [(poly_end p0 l, p0, nc)]))) NonZero).
Proof.
  intros Hw Hc Hne Hn. unfold polyline_ops. cbn [app]. rewrite stroke_closed_polyline_gen by exact Hw.
  unfold cyc_segs. rewrite (segs_connected l p0 Hc). fold (poly_end p0 l).
  destruct l as [|s t]; [contradiction|]. destruct Hc as (Ha & _). rewrite Ha. cbn [segs]. rewrite Hn. reflexivity.
Qed.
Print Assumptions stroke_closed_polyline.
(* (b) the closing segment has no normal (pn = p0 for finite points, see compute_normal_refl): pieces and joins of
       p0, ..., pn and the join at p0 between nn and n1; no caps *)
Theorem stroke_closed_polyline_coincident p0 l w st : fle (s_width st) f0 = false -> connected p0 l ->
  compute_normal (poly_end p0 l) p0 = None ->
  stroke_to_path (mk_path (polyline_ops p0 l ++ [Close]) w) st =
  Ok (mk_path (rev (closed_outline st (half_width st) l)) NonZero).
Proof.
  intros Hw Hc Hn. unfold polyline_ops. cbn [app]. rewrite stroke_closed_polyline_gen by exact Hw.
  unfold cyc_segs. rewrite (segs_connected l p0 Hc). fold (poly_end p0 l).
  destruct l as [|s t]; [reflexivity|]. destruct Hc as (Ha & _). rewrite Ha. cbn [segs]. rewrite Hn, app_nil_r. reflexivity.
Qed.
Print Assumptions stroke_closed_polyline_coincident.

(* ---- several subpaths ---- *)
Record subpath := mk_subpath { sp_start : pt; sp_pts : list pt; sp_closed : bool }.
Definition subpath_ops (sp : subpath) : list pathop :=
  MoveTo (sp_start sp) :: map LineTo (sp_pts sp) ++ (if sp_closed sp then [Close] else []).
Definition subpath_outline (st : stroke_style) (hw : f32) (sp : subpath) : list pathop :=
  if sp_closed sp then closed_outline st hw (cyc_segs (sp_start sp) (sp_pts sp))
  else open_outline st hw (segs (sp_start sp) (sp_pts sp)) (end_pt (sp_start sp) (sp_pts sp)).

Lemma stroke_subpath sp w st : fle (s_width st) f0 = false ->
  stroke_to_path (mk_path (subpath_ops sp) w) st = Ok (mk_path (rev (subpath_outline st (half_width st) sp)) NonZero).
Proof.
  intros Hw. unfold subpath_ops, subpath_outline. destruct (sp_closed sp).
  - apply stroke_closed_polyline_gen, Hw.
  - rewrite app_nil_r. apply stroke_open_polyline_gen, Hw.
Qed.

(* A PATH OF POLYLINES (each subpath: MoveTo, LineTo's, possibly Close): its outline is the outlines of the subpaths one
   after the other *)
Theorem stroke_polylines sps w st : fle (s_width st) f0 = false ->
  stroke_to_path (mk_path (flat_map subpath_ops sps) w) st =
  Ok (mk_path (flat_map (fun sp => rev (subpath_outline st (half_width st) sp)) sps) NonZero).
Proof.
  intros Hw. induction sps as [|sp sps IH] using rev_ind.
  - unfold stroke_to_path. rewrite Hw. reflexivity.
  - rewrite !flat_map_app. cbn [flat_map]. rewrite !app_nil_r.
    unfold subpath_ops at 2. rewrite (stroke_to_path_concat _ _ _ w w w), IH. cbn [bind].
    fold (subpath_ops sp). rewrite stroke_subpath by exact Hw. reflexivity.
Qed.
Print Assumptions stroke_polylines.

(* ------------------------------------------------------------------------------------------------------------------ *)
(* 5. THE FORWARD READING: the ops in output order are the shapes one after the other                                 *)
(* ------------------------------------------------------------------------------------------------------------------ *)

Definition piece_ops (hw : f32) (s : seg) : list pathop := rev (piece [] hw s).
Definition join_ops (st : stroke_style) (p s1 s2 : pt) : list pathop := rev (join_line [] st p s1 s2).
Definition cap_ops (st : stroke_style) (p n : pt) : list pathop := rev (cap_line [] st p n).

(* join + piece for every segment after one of normal ln *)
Fixpoint joined_ops (st : stroke_style) (hw : f32) (ln : pt) (l : list seg) : list pathop :=
  match l with
  | [] => []
  | s :: t => join_ops st (seg_a s) ln (seg_n s) ++ piece_ops hw s ++ joined_ops st hw (seg_n s) t
  end.
Definition open_shapes (st : stroke_style) (hw : f32) (l : list seg) (e : pt) : list pathop :=
  match l with
  | [] => []
  | s :: t => piece_ops hw s ++ joined_ops st hw (seg_n s) t
              ++ cap_ops st e (final_normal (seg_n s) t) ++ cap_ops st (seg_a s) (vflip (seg_n s))
  end.
Definition closed_shapes (st : stroke_style) (hw : f32) (l : list seg) : list pathop :=
  match l with
  | [] => []
  | s :: t => piece_ops hw s ++ joined_ops st hw (seg_n s) t ++ join_ops st (seg_a s) (final_normal (seg_n s) t) (seg_n s)
  end.

Lemma piece_rev out hw s : rev (piece out hw s) = rev out ++ piece_ops hw s.
Proof.
  unfold piece_ops, piece. change out with ([] ++ out) at 1. rewrite segment_piece_ext. apply rev_app_distr.
Qed.
Lemma join_rev out st p s1 s2 : rev (join_line out st p s1 s2) = rev out ++ join_ops st p s1 s2.
Proof. unfold join_ops. change out with ([] ++ out) at 1. rewrite join_line_ext. apply rev_app_distr. Qed.
Lemma cap_rev out st p n : rev (cap_line out st p n) = rev out ++ cap_ops st p n.
Proof. unfold cap_ops. change out with ([] ++ out) at 1. rewrite cap_line_ext. apply rev_app_distr. Qed.
Lemma chain_rev st hw l : forall out ln, rev (chain st hw out ln l) = rev out ++ joined_ops st hw ln l.
Proof.
  induction l as [|s t IH]; intros out ln; cbn [chain joined_ops]; [symmetry; apply app_nil_r|].
  rewrite IH, piece_rev, join_rev, <- !app_assoc. reflexivity.
Qed.

Theorem open_outline_forward st hw l e : rev (open_outline st hw l e) = open_shapes st hw l e.
Proof.
  destruct l as [|s t]; [reflexivity|]. unfold open_outline, open_shapes, pieces.
  rewrite !cap_rev, chain_rev, piece_rev, <- !app_assoc. reflexivity.
Qed.
Theorem closed_outline_forward st hw l : rev (closed_outline st hw l) = closed_shapes st hw l.
Proof.
  destruct l as [|s t]; [reflexivity|]. unfold closed_outline, closed_shapes, pieces.
  rewrite join_rev, chain_rev, piece_rev, <- !app_assoc. reflexivity.
Qed.

(* the theorems of section 4 in output order *)
Corollary stroke_open_polyline_forward p0 l w st : fle (s_width st) f0 = false -> connected p0 l ->
  stroke_to_path (mk_path (polyline_ops p0 l) w) st = Ok (mk_path (open_shapes st (half_width st) l (poly_end p0 l)) NonZero).
Proof. intros Hw Hc. rewrite stroke_open_polyline, open_outline_forward by assumption. reflexivity. Qed.
Corollary stroke_closed_polyline_forward p0 l nc w st : fle (s_width st) f0 = false -> connected p0 l -> l <> [] ->
  compute_normal (poly_end p0 l) p0 = Some nc ->
  stroke_to_path (mk_path (polyline_ops p0 l ++ [Close]) w) st =
  Ok (mk_path (closed_shapes st (half_width st) (l ++ [(poly_end p0 l, p0, nc)])) NonZero).
Proof. intros Hw Hc Hne Hn. rewrite (stroke_closed_polyline p0 l nc), closed_outline_forward by assumption. reflexivity. Qed.
Print Assumptions stroke_open_polyline_forward.
Print Assumptions stroke_closed_polyline_forward.

(* every shape is empty or one closed contour: MoveTo, then LineTo's / CubicTo's, then Close *)
Definition is_draw (o : pathop) : bool := match o with LineTo _ | CubicTo _ _ _ _ => true | _ => false end.
Inductive contour : list pathop -> Prop :=
  | contour_nil : contour []
  | contour_closed p body : forallb is_draw body = true -> contour (MoveTo p :: body ++ [Close]).

Lemma piece_ops_contour hw s : contour (piece_ops hw s).
Proof. unfold piece_ops, piece, segment_piece. cbn [rev app]. apply (contour_closed _ [_; _; _; _; _]). reflexivity. Qed.
Lemma join_ops_contour st p s1 s2 : contour (join_ops st p s1 s2).
Proof.
  unfold join_ops. rewrite join_line_oriented. destruct (join_normals s1 s2) as [t1 t2]. cbv zeta.
  destruct (s_join st).
  - unfold arc, arc_segment. cbn [rev app]. apply (contour_closed _ [_; _; _]). reflexivity.
  - destruct (fle _ _).
    + destruct (line_intersection _ _ _ _).
      * rewrite app_nil_r, rev_involutive. apply (contour_closed _ [_; _; _]). reflexivity.
      * constructor.
    + rewrite app_nil_r, rev_involutive. apply (contour_closed _ [_; _]). reflexivity.
  - rewrite app_nil_r, rev_involutive. apply (contour_closed _ [_; _]). reflexivity.
Qed.
Lemma cap_ops_contour st p n : contour (cap_ops st p n).
Proof.
  unfold cap_ops, cap_line. destruct (s_cap st).
  - unfold arc, arc_segment. cbn [rev app]. apply (contour_closed _ [_; _; _]). reflexivity.
  - cbn [rev app]. apply (contour_closed _ [_; _; _; _]). reflexivity.
  - constructor.
Qed.

(* so the whole outline is a sequence of closed contours: every piece, join and cap is a subpath of its own *)
Inductive contours : list pathop -> Prop :=
  | contours_nil : contours []
  | contours_app c r : contour c -> contours r -> contours (c ++ r).
Lemma contours_one c : contour c -> contours c.
Proof. intros H. rewrite <- (app_nil_r c). apply contours_app; [exact H|constructor]. Qed.
Lemma contours_concat a b : contours a -> contours b -> contours (a ++ b).
Proof. intros Ha Hb. induction Ha as [|c r Hc Hr IH]; [exact Hb|]. rewrite <- app_assoc. apply contours_app; assumption. Qed.
Lemma joined_ops_contours st hw l : forall ln, contours (joined_ops st hw ln l).
Proof.
  induction l as [|s t IH]; intros ln; cbn [joined_ops]; [constructor|].
  apply contours_app; [apply join_ops_contour|]. apply contours_app; [apply piece_ops_contour|apply IH].
Qed.
Theorem open_shapes_contours st hw l e : contours (open_shapes st hw l e).
Proof.
  destruct l as [|s t]; [constructor|]. unfold open_shapes.
  apply contours_app; [apply piece_ops_contour|]. apply contours_concat; [apply joined_ops_contours|].
  apply contours_app; [apply cap_ops_contour|]. apply contours_one, cap_ops_contour.
Qed.
Theorem closed_shapes_contours st hw l : contours (closed_shapes st hw l).
Proof.
  destruct l as [|s t]; [constructor|]. unfold closed_shapes.
  apply contours_app; [apply piece_ops_contour|]. apply contours_concat; [apply joined_ops_contours|].
  apply contours_one, join_ops_contour.
Qed.

(* ------------------------------------------------------------------------------------------------------------------ *)
(* 6. SEGMENTS WITHOUT A NORMAL                                                                                        *)
(* ------------------------------------------------------------------------------------------------------------------ *)

(* a LineTo whose segment has no normal moves the cursor and does nothing else: no piece, no join, the last normal and
   the start of the subpath are kept (so the next join is taken between the normals of the two neighbours) *)
Lemma stroke_op_zero_length st hw a c p : sa_cur a = Some c -> compute_normal c p = None ->
  stroke_op st hw a (LineTo p) = Ok (mk_sa (Some p) (sa_last a) (sa_start a) (sa_first a) (sa_out a)).
Proof. intros Hc Hn. cbn [stroke_op]. rewrite Hc, Hn. reflexivity. Qed.

(* in the closed form: the segment is dropped, the next one starts at its end point *)
Lemma segs_zero_length c p pts : compute_normal c p = None -> segs c (p :: pts) = segs p pts.
Proof. intros H. cbn [segs]. rewrite H. reflexivity. Qed.

(* when every segment has a normal, segs gives the connected list of section 4 *)
Lemma segs_length_le pts : forall c, (length (segs c pts) <= length pts)%nat.
Proof.
  induction pts as [|p t IH]; intros c; cbn [segs length]; [apply le_n|].
  destruct (compute_normal c p); cbn [length]; [apply le_n_S, IH|apply le_S, IH].
Qed.
Lemma segs_all_normals pts : forall p0, length (segs p0 pts) = length pts ->
  connected p0 (segs p0 pts) /\ map seg_b (segs p0 pts) = pts.
Proof.
  induction pts as [|p t IH]; intros p0 H; [split; [exact I|reflexivity]|].
  cbn [segs] in *. destruct (compute_normal p0 p) as [n|] eqn:E.
  - cbn [length] in H. injection H as H. destruct (IH p H) as (Hc & Hm).
    cbn [connected map seg_a seg_b seg_n fst snd]. rewrite Hm. repeat split; assumption.
  - exfalso. pose proof (segs_length_le t p) as L. cbn [length] in H. rewrite H in L.
    exact (PeanoNat.Nat.nle_succ_diag_l _ L).
Qed.

(* a point that is repeated (p, p with compute_normal p p = None: every finite p, see compute_normal_refl) can be
   written once: same segments, same end point, hence the same outline, open or closed *)
Lemma segs_repeated c l1 p l2 : compute_normal p p = None -> segs c (l1 ++ p :: p :: l2) = segs c (l1 ++ p :: l2).
Proof.
  intros H. rewrite !segs_app. f_equal. cbn [segs]. rewrite H. reflexivity.
Qed.
Lemma end_pt_repeated c l1 p l2 : end_pt c (l1 ++ p :: p :: l2) = end_pt c (l1 ++ p :: l2).
Proof. rewrite !end_pt_app. reflexivity. Qed.
Theorem stroke_open_repeated_point p0 l1 p l2 w w' st : compute_normal p p = None ->
  stroke_to_path (mk_path (MoveTo p0 :: map LineTo (l1 ++ p :: p :: l2)) w) st =
  stroke_to_path (mk_path (MoveTo p0 :: map LineTo (l1 ++ p :: l2)) w') st.
Proof.
  intros H. destruct (fle (s_width st) f0) eqn:Hw.
  - unfold stroke_to_path. rewrite Hw. reflexivity.
  - rewrite !stroke_open_polyline_gen by exact Hw. rewrite segs_repeated, end_pt_repeated by exact H. reflexivity.
Qed.
Theorem stroke_closed_repeated_point p0 l1 p l2 w w' st : compute_normal p p = None ->
  stroke_to_path (mk_path (MoveTo p0 :: map LineTo (l1 ++ p :: p :: l2) ++ [Close]) w) st =
  stroke_to_path (mk_path (MoveTo p0 :: map LineTo (l1 ++ p :: l2) ++ [Close]) w') st.
Proof.
  intros H. destruct (fle (s_width st) f0) eqn:Hw.
  - unfold stroke_to_path. rewrite Hw. reflexivity.
  - rewrite !stroke_closed_polyline_gen by exact Hw. unfold cyc_segs.
    rewrite segs_repeated, end_pt_repeated by exact H. reflexivity.
Qed.
(* the same at the very start: MoveTo p0, LineTo p0, ... *)
Theorem stroke_open_repeated_start p0 pts w w' st : compute_normal p0 p0 = None ->
  stroke_to_path (mk_path (MoveTo p0 :: map LineTo (p0 :: pts)) w) st =
  stroke_to_path (mk_path (MoveTo p0 :: map LineTo pts) w') st.
Proof.
  intros H. destruct (fle (s_width st) f0) eqn:Hw.
  - unfold stroke_to_path. rewrite Hw. reflexivity.
  - rewrite !stroke_open_polyline_gen by exact Hw. rewrite segs_zero_length by exact H. reflexivity.
Qed.
(* closing a polygon by hand and then with Close is the same as closing it with Close alone:
   MoveTo p0, ..., LineTo pn, LineTo p0, Close  =  MoveTo p0, ..., LineTo pn, Close   (first segment p0 -> p1 has a normal) *)
Theorem stroke_closed_explicit_return p0 p1 n1 pts w w' st : compute_normal p0 p0 = None -> compute_normal p0 p1 = Some n1 ->
  stroke_to_path (mk_path (MoveTo p0 :: map LineTo ((p1 :: pts) ++ [p0]) ++ [Close]) w) st =
  stroke_to_path (mk_path (MoveTo p0 :: map LineTo (p1 :: pts) ++ [Close]) w') st.
Proof.
  intros H0 H1. destruct (fle (s_width st) f0) eqn:Hw.
  - unfold stroke_to_path. rewrite Hw. reflexivity.
  - rewrite !stroke_closed_polyline_gen by exact Hw. do 3 f_equal. unfold cyc_segs.
    rewrite segs_app, end_pt_app. cbn [end_pt]. cbn [segs]. rewrite H1. cbn [app seg_a fst]. rewrite H0, app_nil_r.
    reflexivity.
Qed.
Print Assumptions stroke_closed_explicit_return.

(* nothing with a normal: no outline *)
Lemma stroke_open_all_zero_length p0 pts w st : fle (s_width st) f0 = false -> segs p0 pts = [] ->
  stroke_to_path (mk_path (MoveTo p0 :: map LineTo pts) w) st = Ok (mk_path [] NonZero).
Proof. intros Hw H. rewrite stroke_open_polyline_gen, H by exact Hw. reflexivity. Qed.
Lemma stroke_closed_all_zero_length p0 pts w st : fle (s_width st) f0 = false -> segs p0 pts = [] ->
  stroke_to_path (mk_path (MoveTo p0 :: map LineTo pts ++ [Close]) w) st = Ok (mk_path [] NonZero).
Proof. intros Hw H. rewrite stroke_closed_polyline_gen by exact Hw. unfold cyc_segs. rewrite H. reflexivity. Qed.

(* two remarks on paths that are not in the MoveTo/LineTo*/Close? form:
   a path that begins with LineTo p0 strokes like the one that begins with MoveTo p0 ... *)
Lemma stroke_leading_line_to p0 ops w w' st :
  stroke_to_path (mk_path (LineTo p0 :: ops) w) st = stroke_to_path (mk_path (MoveTo p0 :: ops) w') st.
Proof. reflexivity. Qed.
(* ... and after Close the cursor is back at the first point p0 of the subpath with no segment pending: what follows
   is stroked as a new subpath that starts in p0 (Close; MoveTo p0 leaves the same state as Close) *)
Lemma stroke_close_then_move_to st hw a p0 : sa_first a = Some p0 ->
  (do a' <- stroke_op st hw a Close; stroke_op st hw a' (MoveTo p0)) = stroke_op st hw a Close.
Proof.
  intros H. cbn [stroke_op bind sa_cur sa_last sa_start sa_first sa_out]. rewrite H.
  unfold caps at 1. reflexivity.
Qed.

(* ------------------------------------------------------------------------------------------------------------------ *)
(* 7. EXAMPLES (non-vacuity): the model run on concrete polylines against the closed form, compared bit for bit         *)
(* ------------------------------------------------------------------------------------------------------------------ *)
From Coq Require Import ZArith.

(* ops as integers: tag and the IEEE bits of the coordinates (floats carry proofs that vm_compute should not normalise) *)
Definition op_bits (o : pathop) : list Z :=
  match o with
  | MoveTo p => [0; to_bits (px p); to_bits (py p)]
  | LineTo p => [1; to_bits (px p); to_bits (py p)]
  | QuadTo c p => [2; to_bits (px c); to_bits (py c); to_bits (px p); to_bits (py p)]
  | CubicTo c1 c2 p _ => [3; to_bits (px c1); to_bits (py c1); to_bits (px c2); to_bits (py c2); to_bits (px p); to_bits (py p)]
  | Close => [4]
  end%Z.
Definition result_bits (r : result path) : option (list (list Z)) :=
  match r with Ok p => Some (map op_bits (p_ops p)) | Err _ => None end.

Definition ipt (x y : Z) : pt := (of_int x, of_int y).
Definition exA := ipt 0 0.  Definition exB := ipt 10 0.  Definition exC := ipt 10 10.
Definition ex_style (j : line_join) (c : line_cap) : stroke_style := mk_style (of_int 2) c j (of_int 10).
(* the three segments of the triangle with their computed normals *)
Definition ex_open : list seg := segs exA [exB; exC].
Definition ex_closed : list seg := segs exA [exB; exC; exA].

Definition has_normal (a b : pt) : bool := match compute_normal a b with Some _ => true | None => false end.
Lemma has_normal_some a b : has_normal a b = true -> exists n, compute_normal a b = Some n.
Proof. unfold has_normal. destruct (compute_normal a b) as [n|]; [exists n; reflexivity|discriminate]. Qed.

(* the hypotheses of stroke_open_polyline hold: ex_open is the connected list of the two segments A->B, B->C *)
Example ex_open_connected :
  connected exA ex_open /\ polyline_ops exA ex_open = [MoveTo exA; LineTo exB; LineTo exC] /\ poly_end exA ex_open = exC /\
  length ex_open = 2%nat.
Proof.
  assert (L : length (segs exA [exB; exC]) = length [exB; exC]) by (vm_compute; reflexivity).
  destruct (segs_all_normals _ _ L) as (Hc & Hm). unfold ex_open, polyline_ops, poly_end. rewrite Hm.
  split; [exact Hc|]. split; [reflexivity|]. split; [reflexivity|exact L].
Qed.
(* ... and those of stroke_closed_polyline: the closing segment C->A has a normal, ex_closed is ex_open and that segment *)
Example ex_closed_connected : exists nc,
  compute_normal (poly_end exA ex_open) exA = Some nc /\ ex_closed = ex_open ++ [(poly_end exA ex_open, exA, nc)].
Proof.
  destruct ex_open_connected as (_ & _ & He & _). rewrite He.
  destruct (has_normal_some exC exA) as [nc Hn]; [vm_compute; reflexivity|]. exists nc. split; [exact Hn|].
  unfold ex_closed, ex_open. change [exB; exC; exA] with ([exB; exC] ++ [exA]). rewrite segs_app.
  cbn [end_pt segs]. rewrite Hn. reflexivity.
Qed.

(* so the theorems apply: for every join and cap kind *)
Example ex_open_by_theorem j c :
  stroke_to_path (mk_path [MoveTo exA; LineTo exB; LineTo exC] NonZero) (ex_style j c) =
  Ok (mk_path (open_shapes (ex_style j c) (half_width (ex_style j c)) ex_open exC) NonZero).
Proof.
  destruct ex_open_connected as (Hc & Ho & He & _). rewrite <- Ho, <- He.
  apply stroke_open_polyline_forward; [vm_compute; reflexivity|exact Hc].
Qed.
Example ex_closed_by_theorem j c :
  stroke_to_path (mk_path [MoveTo exA; LineTo exB; LineTo exC; Close] NonZero) (ex_style j c) =
  Ok (mk_path (closed_shapes (ex_style j c) (half_width (ex_style j c)) ex_closed) NonZero).
Proof.
  destruct ex_open_connected as (Hc & Ho & _ & L). destruct ex_closed_connected as (nc & Hn & E).
  rewrite E. change [MoveTo exA; LineTo exB; LineTo exC; Close] with ([MoveTo exA; LineTo exB; LineTo exC] ++ [Close]).
  rewrite <- Ho. apply stroke_closed_polyline_forward; [vm_compute; reflexivity|exact Hc| |exact Hn].
  intros H. rewrite H in L. discriminate L.
Qed.

(* independently of the theorems: the model and the closed form evaluated side by side *)
Definition ex_open_agrees (j : line_join) (c : line_cap) : Prop :=
  result_bits (stroke_to_path (mk_path [MoveTo exA; LineTo exB; LineTo exC] NonZero) (ex_style j c)) =
  Some (map op_bits (rev (open_outline (ex_style j c) (half_width (ex_style j c)) ex_open exC))).
Definition ex_closed_agrees (j : line_join) (c : line_cap) : Prop :=
  result_bits (stroke_to_path (mk_path [MoveTo exA; LineTo exB; LineTo exC; Close] NonZero) (ex_style j c)) =
  Some (map op_bits (rev (closed_outline (ex_style j c) (half_width (ex_style j c)) ex_closed))).
Example ex_open_bevel : ex_open_agrees JoinBevel CapSquare.  Proof. vm_compute. reflexivity. Qed.
Example ex_open_miter : ex_open_agrees JoinMiter CapButt.    Proof. vm_compute. reflexivity. Qed.
Example ex_open_round : ex_open_agrees JoinRound CapRound.   Proof. vm_compute. reflexivity. Qed.
Example ex_closed_bevel : ex_closed_agrees JoinBevel CapSquare.  Proof. vm_compute. reflexivity. Qed.
Example ex_closed_miter : ex_closed_agrees JoinMiter CapButt.    Proof. vm_compute. reflexivity. Qed.
Example ex_closed_round : ex_closed_agrees JoinRound CapRound.   Proof. vm_compute. reflexivity. Qed.

(* the numbers, bevel join and square caps, width 2 (1065353216 = 1.0, 3212836864 = -1.0, 1091567616 = 9.0,
   1092616192 = 10.0, 1093664768 = 11.0):
     piece of A->B   (0,1) (10,1) (10,0) (10,-1) (0,-1) (0,0)
     bevel at B      (11,0) (10,-1) (10,0)                       on the outer side of the turn
     piece of B->C   (9,0) (9,10) (10,10) (11,10) (11,0) (10,0)
     cap at C        (9,10) (9,11) (11,11) (11,10) (10,10)
     cap at A        (0,-1) (-1,-1) (-1,1) (0,1) (0,0) *)
Example ex_open_bevel_bits :
  result_bits (stroke_to_path (mk_path [MoveTo exA; LineTo exB; LineTo exC] NonZero) (ex_style JoinBevel CapSquare)) =
  Some [[0; 0; 1065353216]; [1; 1092616192; 1065353216]; [1; 1092616192; 0]; [1; 1092616192; 3212836864];
        [1; 0; 3212836864]; [1; 0; 0]; [4];
        [0; 1093664768; 0]; [1; 1092616192; 3212836864]; [1; 1092616192; 0]; [4];
        [0; 1091567616; 0]; [1; 1091567616; 1092616192]; [1; 1092616192; 1092616192]; [1; 1093664768; 1092616192];
        [1; 1093664768; 0]; [1; 1092616192; 0]; [4];
        [0; 1091567616; 1092616192]; [1; 1091567616; 1093664768]; [1; 1093664768; 1093664768];
        [1; 1093664768; 1092616192]; [1; 1092616192; 1092616192]; [4];
        [0; 0; 3212836864]; [1; 3212836864; 3212836864]; [1; 3212836864; 1065353216]; [1; 0; 1065353216];
        [1; 0; 0]; [4]]%Z.
Proof. vm_compute. reflexivity. Qed.
(* number of ops of the closed triangle: 3 pieces of 7 ops and 3 joins of 4 (bevel), 5 (miter), 5 (round: MoveTo, two cubics, LineTo, Close) ops *)
Example ex_closed_sizes :
  map (fun j => option_map (@length _) (result_bits (stroke_to_path (mk_path [MoveTo exA; LineTo exB; LineTo exC; Close] NonZero)
                                                                      (ex_style j CapButt))))
      [JoinBevel; JoinMiter; JoinRound] = [Some 33; Some 36; Some 36]%nat.
Proof. vm_compute. reflexivity. Qed.
(* zero-length segments: a doubled vertex and a doubled start change nothing *)
Example ex_zero_length :
  result_bits (stroke_to_path (mk_path [MoveTo exA; LineTo exA; LineTo exB; LineTo exB; LineTo exC] NonZero) (ex_style JoinMiter CapSquare)) =
  result_bits (stroke_to_path (mk_path [MoveTo exA; LineTo exB; LineTo exC] NonZero) (ex_style JoinMiter CapSquare)).
Proof. vm_compute. reflexivity. Qed.

(* ------------------------------------------------------------------------------------------------------------------ *)
(* 8. A SEGMENT FROM A FINITE POINT TO ITSELF HAS NO NORMAL                                                            *)
(* ------------------------------------------------------------------------------------------------------------------ *)
From Flocq Require Import Core.Raux Core.Defs Core.Generic_fmt Core.FLT IEEE754.Binary IEEE754.Bits.
From Coq Require Import Reals.

Definition ffinite (x : f32) : bool := is_finite 24 128 x.

Lemma fsub_self x : ffinite x = true -> exists s, fsub x x = B754_zero 24 128 s.
Proof.
  intros Fx. unfold ffinite in Fx. unfold fsub, b32_minus.
  match goal with |- context [Bminus ?p ?e ?H1 ?H2 ?nan ?m x x] =>
    pose proof (Bminus_correct p e H1 H2 nan m x x Fx Fx) as H; set (r := Bminus p e H1 H2 nan m x x) in * end.
  rewrite Rminus_diag_eq in H by reflexivity. rewrite round_0 in H by typeclasses eauto.
  rewrite Rabs_R0, Rlt_bool_true in H by (apply bpow_gt_0).
  destruct H as (HR & HF & _). exists (Bsign 24 128 r).
  apply B2R_Bsign_inj; [exact HF|reflexivity|rewrite HR; reflexivity|reflexivity].
Qed.

Theorem compute_normal_refl p : ffinite (px p) = true -> ffinite (py p) = true -> compute_normal p p = None.
Proof.
  intros Hx Hy. unfold compute_normal.
  destruct (fsub_self _ Hx) as [sx Ex], (fsub_self _ Hy) as [sy Ey]. rewrite Ex, Ey. cbv zeta.
  assert (Z : feq (fhypot (B754_zero 24 128 sx) (B754_zero 24 128 sy)) f0 = true)
    by (destruct sx, sy; vm_compute; reflexivity).
  rewrite Z. reflexivity.
Qed.
Print Assumptions compute_normal_refl.
