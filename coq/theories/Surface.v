(* DrawTarget::composite_surface and its three public wrappers
   (copy_surface, blend_surface, blend_surface_with_alpha), draw_target.rs.
   Pixels are Z in [0, 2^32); surfaces are flat row-major lists. *)
Require Import RQ.Base RQ.Rect RQ.Pixel.

Section CompositeSurface.
  (* the row function: every wrapper applies a per-pixel function g src dst
     over the zip of the two row slices *)
  Variable g : Z -> Z -> result Z.

  (* all of this is i64 arithmetic on values that come from i32s: nothing can overflow, and the two row starts are
     non-negative by the clipping, so the casts to usize are exact *)
  Definition cs_row (dw sw : Z) (sbuf : list Z) (ox oy xa w : Z) (buf : list Z) (y : Z) : result (list Z) :=
    let ds := xa + ox + (y + oy) * dw in
    let ss := xa + y * sw in
    do srow <- slice sbuf ss (ss + w);
    do drow <- slice buf ds (ds + w);
    do row <- map2r g srow drow;
    Ok (splice buf ds row).

  Fixpoint cs_rows (dw sw : Z) (sbuf : list Z) (ox oy xa w : Z) (ys : list Z) (buf : list Z) : result (list Z) :=
    match ys with
    | [] => Ok buf
    | y :: t => do buf' <- cs_row dw sw sbuf ox oy xa w buf y; cs_rows dw sw sbuf ox oy xa w t buf'
    end.

  Definition composite_surface (dw dh : Z) (dbuf : list Z) (sw sh : Z) (sbuf : list Z)
             (sr : rect) (dx dy : Z) : result (list Z) :=
    let ox := dx - x0 sr in
    let oy := dy - y0 sr in
    let xa := Z.max (Z.max (x0 sr) 0) (- ox) in
    let ya := Z.max (Z.max (y0 sr) 0) (- oy) in
    let xb := Z.min (Z.min (x1 sr) sw) (dw - ox) in
    let yb := Z.min (Z.min (y1 sr) sh) (dh - oy) in
    if (xb <=? xa) || (yb <=? ya) then Ok dbuf else
    cs_rows dw sw sbuf ox oy xa (xb - xa) (zrange ya yb) dbuf.
End CompositeSurface.

(* what the property asks for, as a decidable predicate on one destination pixel *)
Definition cs_src_pos (sr : rect) (dx dy X Y : Z) : Z * Z := (X - dx + x0 sr, Y - dy + y0 sr).
Definition cs_written (sw sh : Z) (sr : rect) (dx dy X Y : Z) : bool :=
  let '(SX, SY) := cs_src_pos sr dx dy X Y in
  r_in sr SX SY && r_in (mkrect 0 0 sw sh) SX SY.

(* the three public entry points *)
Inductive cs_kind := CsCopy | CsBlend (m : mode) | CsAlpha (alpha : Z) (* (alpha * 255. + 0.5) as u8 *).
Definition cs_fn (k : cs_kind) : Z -> Z -> result Z :=
  match k with
  | CsCopy => fun s _ => Ok s
  | CsBlend m => blend m
  | CsAlpha a => fun s d => Ok (over_in s d a)
  end.
Definition surface_op (k : cs_kind) := composite_surface (cs_fn k).

(* the block-transfer statement of C15 as a decidable check of an observed result *)
Definition surface_spec_ok (k : cs_kind) (dw dh : Z) (dbuf : list Z) (sw sh : Z) (sbuf : list Z)
           (sr : rect) (dx dy : Z) (out : list Z) : bool :=
  (zlen out =? zlen dbuf) &&
  forallb (fun Y => forallb (fun X =>
    let i := Y * dw + X in
    if cs_written sw sh sr dx dy X Y then
      let '(SX, SY) := cs_src_pos sr dx dy X Y in
      match cs_fn k (zn sbuf (SY * sw + SX)) (zn dbuf i) with Ok v => zn out i =? v | Err _ => false end
    else zn out i =? zn dbuf i) (zrange 0 dw)) (zrange 0 dh).
