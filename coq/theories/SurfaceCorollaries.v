(* C15, consequences of the block-transfer theorem at the level of whole buffers:
   a full-frame copy reproduces the source, copying is idempotent, an empty or
   outlying src_rect changes nothing, and what a transfer leaves behind depends on
   the destination only through the pixels it does not write. *)
Require Import RQ.Base RQ.Rect RQ.Pixel RQ.Surface RQ.SurfaceProofs.
From Coq Require Import ZifyBool.

(* two buffers of one length that agree at every index are the same list *)
Lemma zn_ext (a b : list Z) :
  zlen a = zlen b -> (forall i, 0 <= i < zlen a -> zn a i = zn b i) -> a = b.
Proof.
  unfold zlen, zn. intros Hl H. apply (nth_ext a b 0 0); [lia|].
  intros n Hn. specialize (H (Z.of_nat n)). rewrite Nat2Z.id in H. apply H. lia.
Qed.

(* every index of a w*h row-major buffer is Y*w + X for one in-range (X,Y) *)
Lemma index_rowcol w h i : 0 <= w -> 0 <= i < w * h -> exists X Y, 0 <= X < w /\ 0 <= Y < h /\ i = Y * w + X.
Proof.
  intros Hw Hi. assert (0 < w) as Hpos.
  { destruct (Z.eq_dec w 0) as [->|Hne]; [rewrite Z.mul_0_l in Hi; lia|lia]. }
  exists (i mod w), (i / w).
  pose proof (Z.mod_pos_bound i w ltac:(lia)). pose proof (Z.div_mod i w ltac:(lia)).
  split; [lia|]. split; [|lia].
  split; [apply Z.div_pos; lia|]. apply Z.div_lt_upper_bound; lia.
Qed.

(* buffers of one w*h shape that agree at every (X,Y) are the same list *)
Lemma buf_ext w h (a b : list Z) :
  0 <= w -> zlen a = w * h -> zlen b = w * h ->
  (forall X Y, 0 <= X < w -> 0 <= Y < h -> zn a (Y * w + X) = zn b (Y * w + X)) -> a = b.
Proof.
  intros Hw La Lb H. apply zn_ext; [lia|]. intros i Hi.
  destruct (index_rowcol w h i Hw ltac:(lia)) as (X & Y & HX & HY & ->). apply H; assumption.
Qed.

Section Corollaries.
  Variable gr : Z -> Z -> result Z.
  Variable g : Z -> Z -> Z.
  Hypothesis gr_total : forall s d, gr s d = Ok (g s d).

  (* a transfer none of whose source positions exist leaves the destination as it was - the whole buffer *)
  Lemma nothing_written_is_identity dw dh dbuf sw sh sbuf sr dx dy :
    dom_ok dw dh sw sh sr dx dy -> zlen dbuf = dw * dh -> zlen sbuf = sw * sh ->
    (forall X Y, 0 <= X < dw -> 0 <= Y < dh -> cs_written sw sh sr dx dy X Y = false) ->
    composite_surface gr dw dh dbuf sw sh sbuf sr dx dy = Ok dbuf.
  Proof.
    intros Hd Lb Ls Hn.
    destruct (composite_surface_block_transfer gr g gr_total dw dh dbuf sw sh sbuf sr dx dy Hd Lb Ls)
      as (buf' & E & L & P).
    rewrite E. f_equal. destruct Hd as (Hdw & _).
    apply (buf_ext dw dh); [exact Hdw|lia|exact Lb|].
    intros X Y HX HY. rewrite (P X Y HX HY), (Hn X Y HX HY). reflexivity.
  Qed.

  (* an empty or inverted src_rect selects no pixel *)
  Lemma empty_rect_not_written sw sh sr dx dy X Y :
    x1 sr <= x0 sr \/ y1 sr <= y0 sr -> cs_written sw sh sr dx dy X Y = false.
  Proof.
    intros H. unfold cs_written, cs_src_pos, r_in. destruct sr as [a0 b0 a1 b1]. cbn [x0 y0 x1 y1] in *.
    destruct ((a0 <=? X - dx + a0) && (X - dx + a0 <? a1) && (b0 <=? Y - dy + b0) && (Y - dy + b0 <? b1) &&
              ((0 <=? X - dx + a0) && (X - dx + a0 <? sw) && (0 <=? Y - dy + b0) && (Y - dy + b0 <? sh))) eqn:E;
      [exfalso; lia|reflexivity].
  Qed.

  (* a src_rect that misses the source altogether selects no pixel *)
  Lemma outlying_rect_not_written sw sh sr dx dy X Y :
    x1 sr <= 0 \/ y1 sr <= 0 \/ sw <= x0 sr \/ sh <= y0 sr -> cs_written sw sh sr dx dy X Y = false.
  Proof.
    intros H. unfold cs_written, cs_src_pos, r_in. destruct sr as [a0 b0 a1 b1]. cbn [x0 y0 x1 y1] in *.
    destruct ((a0 <=? X - dx + a0) && (X - dx + a0 <? a1) && (b0 <=? Y - dy + b0) && (Y - dy + b0 <? b1) &&
              ((0 <=? X - dx + a0) && (X - dx + a0 <? sw) && (0 <=? Y - dy + b0) && (Y - dy + b0 <? sh))) eqn:E;
      [exfalso; lia|reflexivity].
  Qed.

  (* a destination point that puts the block wholly outside the destination selects no destination pixel *)
  Lemma outlying_dst_not_written dw dh sw sh sr dx dy X Y :
    0 <= X < dw -> 0 <= Y < dh ->
    dw <= dx \/ dh <= dy \/ dx + (x1 sr - x0 sr) <= 0 \/ dy + (y1 sr - y0 sr) <= 0 ->
    cs_written sw sh sr dx dy X Y = false.
  Proof.
    intros HX HY H. unfold cs_written, cs_src_pos, r_in. destruct sr as [a0 b0 a1 b1]. cbn [x0 y0 x1 y1] in *.
    destruct ((a0 <=? X - dx + a0) && (X - dx + a0 <? a1) && (b0 <=? Y - dy + b0) && (Y - dy + b0 <? b1) &&
              ((0 <=? X - dx + a0) && (X - dx + a0 <? sw) && (0 <=? Y - dy + b0) && (Y - dy + b0 <? sh))) eqn:E;
      [exfalso; lia|reflexivity].
  Qed.

  (* the result depends on the old destination only where g does and where nothing is written: two destinations
     that agree off the block and a g that ignores its second argument give one result *)
  Lemma transfer_twice_is_once dw dh dbuf sw sh sbuf sr dx dy buf1 :
    (forall s d d', g s d = g s d') ->
    dom_ok dw dh sw sh sr dx dy -> zlen dbuf = dw * dh -> zlen sbuf = sw * sh ->
    composite_surface gr dw dh dbuf sw sh sbuf sr dx dy = Ok buf1 ->
    composite_surface gr dw dh buf1 sw sh sbuf sr dx dy = Ok buf1.
  Proof.
    intros Hg Hd Lb Ls E1.
    destruct (composite_surface_block_transfer gr g gr_total dw dh dbuf sw sh sbuf sr dx dy Hd Lb Ls)
      as (b1 & E & L & P).
    rewrite E in E1. injection E1 as ->.
    destruct (composite_surface_block_transfer gr g gr_total dw dh buf1 sw sh sbuf sr dx dy Hd ltac:(lia) Ls)
      as (b2 & E2 & L2 & P2).
    rewrite E2. f_equal. destruct Hd as (Hdw & _).
    apply (buf_ext dw dh); [exact Hdw|lia|lia|].
    intros X Y HX HY. rewrite (P2 X Y HX HY), (P X Y HX HY).
    destruct (cs_written sw sh sr dx dy X Y); [|reflexivity].
    destruct (cs_src_pos sr dx dy X Y) as [SX SY]. apply Hg.
  Qed.
End Corollaries.

(* copy_surface of the whole source onto a destination of the same size at (0,0) makes the destination a copy *)
Theorem full_frame_copy_is_the_source w h dbuf sbuf :
  0 <= w -> 0 <= h -> zlen dbuf = w * h -> zlen sbuf = w * h ->
  surface_op CsCopy w h dbuf w h sbuf (mkrect 0 0 w h) 0 0 = Ok sbuf.
Proof.
  intros Hw Hh Lb Ls. unfold surface_op.
  destruct (composite_surface_block_transfer (cs_fn CsCopy) (fun s _ => s) (fun s d => eq_refl)
              w h dbuf w h sbuf (mkrect 0 0 w h) 0 0 ltac:(unfold dom_ok; lia) Lb Ls) as (buf' & E & L & P).
  rewrite E. f_equal.
  apply (buf_ext w h); [exact Hw|lia|exact Ls|].
  intros X Y HX HY. rewrite (P X Y HX HY).
  unfold cs_written, cs_src_pos, r_in. cbn [x0 y0 x1 y1].
  replace (X - 0 + 0) with X by lia. replace (Y - 0 + 0) with Y by lia.
  destruct ((0 <=? X) && (X <? w) && (0 <=? Y) && (Y <? h) && ((0 <=? X) && (X <? w) && (0 <=? Y) && (Y <? h))) eqn:E';
    [reflexivity|exfalso; lia].
Qed.

(* copying a block out of a surface and back to where it came from restores nothing less than the block: the
   round trip through a scratch surface of the block's size is the identity on the first surface *)
Theorem copy_out_and_back_is_identity w h buf bw bh tmp sx sy tmp' :
  0 <= w -> 0 <= h -> 0 <= bw -> 0 <= bh -> zlen buf = w * h -> zlen tmp = bw * bh ->
  surface_op CsCopy bw bh tmp w h buf (mkrect sx sy (sx + bw) (sy + bh)) 0 0 = Ok tmp' ->
  0 <= sx -> 0 <= sy -> sx + bw <= w -> sy + bh <= h ->
  surface_op CsCopy w h buf bw bh tmp' (mkrect 0 0 bw bh) sx sy = Ok buf.
Proof.
  intros Hw Hh Hbw Hbh Lb Lt E1 Hsx Hsy Hxw Hyh. unfold surface_op in *.
  destruct (composite_surface_block_transfer (cs_fn CsCopy) (fun s _ => s) (fun s d => eq_refl)
              bw bh tmp w h buf (mkrect sx sy (sx + bw) (sy + bh)) 0 0 ltac:(unfold dom_ok; lia) Lt Lb)
    as (t1 & Et & L1 & P1).
  rewrite Et in E1. injection E1 as ->.
  destruct (composite_surface_block_transfer (cs_fn CsCopy) (fun s _ => s) (fun s d => eq_refl)
              w h buf bw bh tmp' (mkrect 0 0 bw bh) sx sy ltac:(unfold dom_ok; lia) Lb ltac:(lia))
    as (b2 & E2 & L2 & P2).
  rewrite E2. f_equal.
  apply (buf_ext w h); [exact Hw|lia|exact Lb|].
  intros X Y HX HY. rewrite (P2 X Y HX HY).
  unfold cs_written, cs_src_pos, r_in. cbn [x0 y0 x1 y1].
  replace (X - sx + 0) with (X - sx) by lia. replace (Y - sy + 0) with (Y - sy) by lia.
  destruct ((0 <=? X - sx) && (X - sx <? bw) && (0 <=? Y - sy) && (Y - sy <? bh) &&
            ((0 <=? X - sx) && (X - sx <? bw) && (0 <=? Y - sy) && (Y - sy <? bh))) eqn:Ew; [|reflexivity].
  rewrite (P1 (X - sx) (Y - sy) ltac:(lia) ltac:(lia)).
  unfold cs_written, cs_src_pos, r_in. cbn [x0 y0 x1 y1].
  replace (X - sx - 0 + sx) with X by lia. replace (Y - sy - 0 + sy) with Y by lia.
  destruct ((sx <=? X) && (X <? sx + bw) && (sy <=? Y) && (Y <? sy + bh) &&
            ((0 <=? X) && (X <? w) && (0 <=? Y) && (Y <? h))) eqn:Ew2; [reflexivity|exfalso; lia].
Qed.
