(* C15: composite_surface transfers exactly the requested block. *)
Require Import RQ.Base RQ.Rect RQ.Pixel RQ.Surface.
From Coq Require Import ZifyBool.

Lemma chk32_ok v : i32_min <= v <= i32_max -> chk32 v = Ok v.
Proof. intros H. unfold chk32, in_i32. destruct ((i32_min <=? v) && (v <=? i32_max)) eqn:E; [reflexivity|lia]. Qed.

Lemma row_bounds a n m : 0 <= a < n -> 0 <= m -> 0 <= a * m /\ a * m + m <= n * m.
Proof. intros. nia. Qed.

Lemma rowcol_unique w Y X Y' X' : 0 <= X < w -> 0 <= X' < w -> Y * w + X = Y' * w + X' -> Y = Y' /\ X = X'.
Proof.
  intros HX HX' E.
  assert (Y = Y') as ->.
  { destruct (Z.lt_trichotomy Y Y') as [L|[L|L]]; [|exact L|].
    - assert (w <= (Y' - Y) * w) by nia. lia.
    - assert (w <= (Y - Y') * w) by nia. lia. }
  split; [reflexivity|lia].
Qed.


Section Proofs.
  (* the row function of the call and the total per-pixel function it computes *)
  Variable gr : Z -> Z -> result Z.
  Variable g : Z -> Z -> Z.
  Hypothesis gr_total : forall s d, gr s d = Ok (g s d).

  Lemma cs_row_spec dw dh sw sh sbuf ox oy xa w buf y :
    0 <= dw -> 0 <= dh -> 0 <= sw -> 0 <= sh ->
    zlen buf = dw * dh -> zlen sbuf = sw * sh ->
    0 <= w -> 0 <= xa -> xa + w <= sw -> 0 <= y < sh ->
    0 <= xa + ox -> xa + ox + w <= dw -> 0 <= y + oy < dh ->
    exists buf', cs_row gr dw sw sbuf ox oy xa w buf y = Ok buf' /\ zlen buf' = zlen buf /\
      forall i, 0 <= i < dw * dh ->
        zn buf' i = if ((y + oy) * dw + (xa + ox) <=? i) && (i <? (y + oy) * dw + (xa + ox) + w)
                    then g (zn sbuf (y * sw + xa + (i - ((y + oy) * dw + (xa + ox))))) (zn buf i)
                    else zn buf i.
  Proof.
    intros Hdw Hdh Hsw Hsh Hlb Hls Hw Hxa Hxw Hy Hdx Hdxw Hdy.
    pose proof (row_bounds (y + oy) dh dw Hdy Hdw) as [Hr1 Hr2].
    pose proof (row_bounds y sh sw Hy Hsw) as [Hs1 Hs2].
    assert (Hdw1 : dw <= dw * dh) by nia.
    assert (Hsw1 : sw <= sw * sh) by nia.
    unfold cs_row. cbv zeta.
    destruct (slice_in_range sbuf (xa + y * sw) (xa + y * sw + w)) as [srow Hsrow]; [lia|lia|].
    destruct (slice_in_range buf (xa + ox + (y + oy) * dw) (xa + ox + (y + oy) * dw + w)) as [drow Hdrow]; [lia|lia|].
    rewrite Hsrow, Hdrow. cbn [bind]. rewrite (map2r_total gr g) by exact gr_total. cbn [bind].
    apply slice_ok in Hsrow. destruct Hsrow as (_ & _ & Hsl & Hsn).
    apply slice_ok in Hdrow. destruct Hdrow as (_ & _ & Hdl & Hdn).
    replace (xa + y * sw + w - (xa + y * sw)) with w in * by lia.
    replace (xa + ox + (y + oy) * dw + w - (xa + ox + (y + oy) * dw)) with w in * by lia.
    assert (Hml : length (map2 g srow drow) = Z.to_nat w) by (rewrite map2_length; lia).
    eexists; split; [reflexivity|]. split.
    - unfold zlen. rewrite splice_length; [reflexivity|lia|]. unfold zlen in Hlb. lia.
    - intros i Hi. unfold zn.
      rewrite nth_splice; [|lia|unfold zlen in Hlb; lia]. rewrite Hml.
      destruct (((y + oy) * dw + (xa + ox) <=? i) && (i <? (y + oy) * dw + (xa + ox) + w)) eqn:Ein.
      + replace (Nat.leb (Z.to_nat (xa + ox + (y + oy) * dw)) (Z.to_nat i)) with true by (symmetry; apply Nat.leb_le; lia).
        replace (Nat.ltb (Z.to_nat i) (Z.to_nat (xa + ox + (y + oy) * dw) + Z.to_nat w)) with true by (symmetry; apply Nat.ltb_lt; lia).
        cbn [andb].
        rewrite (nth_map2 g srow drow _ 0 0 0) by lia.
        rewrite Hsn, Hdn by lia. f_equal; f_equal; lia.
      + destruct (Nat.leb_spec (Z.to_nat (xa + ox + (y + oy) * dw)) (Z.to_nat i));
        destruct (Nat.ltb_spec (Z.to_nat i) (Z.to_nat (xa + ox + (y + oy) * dw) + Z.to_nat w)); cbn [andb]; try reflexivity.
        lia.
  Qed.

  Lemma row_cond_iff dw y oy xa ox w X Y :
    0 <= X < dw -> 0 <= xa + ox -> xa + ox + w <= dw ->
    ((y + oy) * dw + (xa + ox) <= Y * dw + X < (y + oy) * dw + (xa + ox) + w) <->
    (Y = y + oy /\ xa + ox <= X < xa + ox + w).
  Proof.
    intros HX H0 H1. split.
    - intros H.
      destruct (rowcol_unique dw Y X (y + oy) (Y * dw + X - (y + oy) * dw)) as [E1 E2]; [lia|lia|lia|].
      split; [exact E1|]. subst Y. lia.
    - intros [-> H]. lia.
  Qed.

  Lemma cs_rows_spec dw dh sw sh sbuf ox oy xa w ys : forall buf,
    0 <= dw -> 0 <= dh -> 0 <= sw -> 0 <= sh ->
    zlen buf = dw * dh -> zlen sbuf = sw * sh ->
    0 <= w -> 0 <= xa -> xa + w <= sw -> 0 <= xa + ox -> xa + ox + w <= dw ->
    NoDup ys -> (forall y, In y ys -> 0 <= y < sh /\ 0 <= y + oy < dh) ->
    exists buf', cs_rows gr dw sw sbuf ox oy xa w ys buf = Ok buf' /\ zlen buf' = zlen buf /\
      forall X Y, 0 <= X < dw -> 0 <= Y < dh ->
        (In (Y - oy) ys /\ xa + ox <= X < xa + ox + w ->
           zn buf' (Y * dw + X) = g (zn sbuf ((Y - oy) * sw + (X - ox))) (zn buf (Y * dw + X))) /\
        (~ (In (Y - oy) ys /\ xa + ox <= X < xa + ox + w) -> zn buf' (Y * dw + X) = zn buf (Y * dw + X)).
  Proof.
    induction ys as [|y t IH]; intros buf Hdw Hdh Hsw Hsh Hlb Hls Hw Hxa Hxw Hdx Hdxw Hnd Hys.
    - cbn [cs_rows]. eexists; split; [reflexivity|]. split; [reflexivity|].
      intros X Y HX HY. split; [intros [[] _]|reflexivity].
    - cbn [cs_rows].
      destruct (Hys y (or_introl eq_refl)) as [Hy Hyd].
      destruct (cs_row_spec dw dh sw sh sbuf ox oy xa w buf y) as (buf1 & E1 & L1 & P1); try assumption.
      rewrite E1. cbn [bind].
      inversion Hnd as [|? ? Hnin Hnd']; subst.
      destruct (IH buf1) as (buf' & E2 & L2 & P2); try assumption; try lia.
      { intros y' Hy'. apply Hys. right; exact Hy'. }
      exists buf'. split; [exact E2|]. split; [lia|].
      intros X Y HX HY.
      pose proof (row_bounds Y dh dw HY Hdw) as [Hb1 Hb2].
      assert (Hidx : 0 <= Y * dw + X < dw * dh) by lia.
      specialize (P1 (Y * dw + X) Hidx). destruct (P2 X Y HX HY) as [P2a P2b].
      pose proof (row_cond_iff dw y oy xa ox w X Y HX Hdx Hdxw) as Hrc.
      destruct (Z.eq_dec (Y - oy) y) as [Ey|Ney].
      + (* this row is the head row: later rows do not touch it *)
        assert (Hnt : ~ In (Y - oy) t) by (rewrite Ey; exact Hnin).
        rewrite P2b by tauto. rewrite P1.
        destruct (((y + oy) * dw + (xa + ox) <=? Y * dw + X) && (Y * dw + X <? (y + oy) * dw + (xa + ox) + w)) eqn:Ec.
        * split; [intros _|intros Hn; exfalso; apply Hn; split; [left; lia|lia]].
          f_equal. f_equal. subst y. assert (Y = Y - oy + oy) by lia. nia.
        * split; [intros [_ Hr]; exfalso; lia|reflexivity].
      + (* another row: the head row step leaves it alone *)
        assert (Hb : zn buf1 (Y * dw + X) = zn buf (Y * dw + X)).
        { rewrite P1.
          destruct (((y + oy) * dw + (xa + ox) <=? Y * dw + X) && (Y * dw + X <? (y + oy) * dw + (xa + ox) + w)) eqn:Ec; [|reflexivity].
          exfalso. assert (Y = y + oy) by (apply Hrc; lia). lia. }
        split.
        * intros [[Hh|Ht] Hr]; [lia|]. rewrite P2a by tauto. rewrite Hb. reflexivity.
        * intros Hn. rewrite P2b; [exact Hb|]. intros [Ht Hr]. apply Hn. split; [right; exact Ht|exact Hr].
  Qed.

  (* the only requirement: the sizes are non-negative and the buffers have them.  Rectangle, offset and sizes are
     otherwise arbitrary integers (the code clips in i64, where nothing derived from i32 values can overflow). *)
  Definition dom_ok (dw dh sw sh : Z) (sr : rect) (dx dy : Z) : Prop := 0 <= dw /\ 0 <= dh /\ 0 <= sw /\ 0 <= sh.

  (* C15: for every size, rectangle and offset the call returns normally, the destination keeps its size, and a
     destination pixel (X,Y) changes iff its source position src_rect.min + ((X,Y) - dst) lies in src_rect and in the
     source; it then becomes g (source pixel) (old value). *)
  Theorem composite_surface_block_transfer dw dh dbuf sw sh sbuf sr dx dy :
    dom_ok dw dh sw sh sr dx dy -> zlen dbuf = dw * dh -> zlen sbuf = sw * sh ->
    exists buf', composite_surface gr dw dh dbuf sw sh sbuf sr dx dy = Ok buf' /\ zlen buf' = zlen dbuf /\
      forall X Y, 0 <= X < dw -> 0 <= Y < dh ->
        zn buf' (Y * dw + X) =
          if cs_written sw sh sr dx dy X Y
          then let '(SX, SY) := cs_src_pos sr dx dy X Y in g (zn sbuf (SY * sw + SX)) (zn dbuf (Y * dw + X))
          else zn dbuf (Y * dw + X).
  Proof.
    intros (Hdw & Hdh & Hsw & Hsh) Hlb Hls.
    destruct sr as [a0 b0 a1 b1]. cbn [x0 y0 x1 y1] in *.
    unfold composite_surface. cbn [x0 y0 x1 y1]. cbv zeta.
    remember (dx - a0) as ox eqn:Eox. remember (dy - b0) as oy eqn:Eoy.
    remember (Z.max (Z.max a0 0) (- ox)) as X0 eqn:EX0.
    remember (Z.max (Z.max b0 0) (- oy)) as Y0 eqn:EY0.
    remember (Z.min (Z.min a1 sw) (dw - ox)) as X1 eqn:EX1.
    remember (Z.min (Z.min b1 sh) (dh - oy)) as Y1 eqn:EY1.
    destruct ((X1 <=? X0) || (Y1 <=? Y0)) eqn:Ene.
    - exists dbuf. split; [reflexivity|]. split; [reflexivity|].
      intros X Y HX HY.
      unfold cs_written, cs_src_pos, r_in. cbn [x0 y0 x1 y1].
      destruct ((a0 <=? X - dx + a0) && (X - dx + a0 <? a1) && (b0 <=? Y - dy + b0) && (Y - dy + b0 <? b1) &&
                ((0 <=? X - dx + a0) && (X - dx + a0 <? sw) && (0 <=? Y - dy + b0) && (Y - dy + b0 <? sh))) eqn:Ew; [|reflexivity].
      exfalso. lia.
    - destruct (cs_rows_spec dw dh sw sh sbuf ox oy X0 (X1 - X0) (zrange Y0 Y1) dbuf) as (buf' & E & L & P); try lia.
      { apply zrange_from_NoDup. }
      { intros y Hy. apply zrange_In in Hy. lia. }
      exists buf'. split; [exact E|]. split; [exact L|].
      intros X Y HX HY. destruct (P X Y HX HY) as [Pa Pb].
      unfold cs_written, cs_src_pos, r_in. cbn [x0 y0 x1 y1].
      destruct ((a0 <=? X - dx + a0) && (X - dx + a0 <? a1) && (b0 <=? Y - dy + b0) && (Y - dy + b0 <? b1) &&
                ((0 <=? X - dx + a0) && (X - dx + a0 <? sw) && (0 <=? Y - dy + b0) && (Y - dy + b0 <? sh))) eqn:Ew.
      + rewrite Pa.
        * f_equal. f_equal. f_equal; [f_equal|]; lia.
        * rewrite zrange_In. lia.
      + apply Pb. rewrite zrange_In. lia.
  Qed.
End Proofs.

Lemma blend_porter_duff_total m :
  In m [Dst; Src; Clear; SrcOver; DstOver; SrcIn; DstIn; SrcOut; DstOut] ->
  exists g, forall s d, cs_fn (CsBlend m) s d = Ok (g s d).
Proof.
  intros H. cbn in H.
  repeat (destruct H as [<-|H]; [eexists; intros s d; cbn [cs_fn blend]; reflexivity|]).
  destruct H.
Qed.

(* the unrepaired composite_surface (clipping with src_rect + dst instead of
   src_rect + (dst - src_rect.min), destination rows from the clamped dst) as it stood before
   the fix; kept only for the refutation witness below *)
Definition composite_surface_legacy (dw dh : Z) (dbuf : list Z) (sw sh : Z) (sbuf : list Z)
           (sr : rect) (dx dy : Z) : result (list Z) :=
  let sr1 := r_inter sr (mkrect 0 0 sw sh) in
  do t <- r_translate sr1 dx dy;
  let c := r_inter (mkrect 0 0 dw dh) t in
  do sr2 <- r_translate c (- dx) (- dy);
  let cdx := Z.min (Z.max dx 0) dw in let cdy := Z.min (Z.max dy 0) dh in
  if r_empty sr2 then Ok dbuf else
  fold_left (fun acc y => do buf <- acc;
     let ds := cdx + (cdy + y - y0 sr2) * dw in let ss := x0 sr2 + y * sw in let w := x1 sr2 - x0 sr2 in
     do srow <- slice sbuf ss (ss + w); do drow <- slice buf ds (ds + w);
     Ok (splice buf ds srow)) (zrange (y0 sr2) (y1 sr2)) (Ok dbuf).

(* the legacy function does not satisfy the block-transfer statement: copying the 1x1 block at
   (1,0) of a 2x1 source to (0,0) of a 1x1 destination copies nothing *)
Lemma composite_surface_legacy_refuted :
  exists dw dh dbuf sw sh sbuf sr dx dy X Y,
    dom_ok dw dh sw sh sr dx dy /\ zlen dbuf = dw * dh /\ zlen sbuf = sw * sh /\ 0 <= X < dw /\ 0 <= Y < dh /\
    cs_written sw sh sr dx dy X Y = true /\
    match composite_surface_legacy dw dh dbuf sw sh sbuf sr dx dy with
    | Ok buf' => zn buf' (Y * dw + X) <> (let '(SX, SY) := cs_src_pos sr dx dy X Y in zn sbuf (SY * sw + SX))
    | Err _ => True
    end.
Proof.
  exists 1, 1, [7], 2, 1, [1; 2], (mkrect 1 0 2 1), 0, 0, 0, 0.
  unfold dom_ok. vm_compute. repeat split; try discriminate; try (intros H; discriminate H).
Qed.
