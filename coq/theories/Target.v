(* The DrawTarget state machine of draw_target.rs (after the repairs recorded in
   KNOWN_FINDINGS.json): clip stack, layer stack, transform, path cursor + rasteriser, and every
   public drawing call, down to the five span blitters of blitter.rs. *)
Require Import RQ.Base RQ.F32 RQ.Rect RQ.Pixel RQ.Raster RQ.PathF RQ.PathOps RQ.Shader RQ.Surface.

Record clip := mk_clip { c_rect : rect; c_mask : option (list Z) }.
Record layer := mk_layer { l_buf : list Z; l_opacity : f32; l_rect : rect; l_blend : mode }.
Record dt := mk_dt {
  d_w : Z; d_h : Z; d_buf : list Z;
  d_clips : list clip;      (* top of the stack first *)
  d_layers : list layer;    (* innermost first *)
  d_ctm : xform;
  d_cur : cursor;
  (* model-only instrumentation used by the oracles, always 0 in the model of the code:
     -1 = region probe (a touched pixel becomes 1), 1..255 = force every coverage byte to it *)
  d_probe : Z
}.

Definition dt_new (w h : Z) (buf : list Z) : dt :=
  mk_dt w h buf [] [] xf_identity (mk_cursor None None (rast_new w h)) 0.

Definition surface_rect (st : dt) : rect := mkrect 0 0 (d_w st) (d_h st).
Definition clip_bounds (st : dt) : rect :=
  match d_clips st with c :: _ => c_rect c | [] => surface_rect st end.
Definition top_clip_mask (st : dt) : option (list Z) :=
  match d_clips st with c :: _ => c_mask c | [] => None end.

Definition with_buf (st : dt) (b : list Z) : dt := mk_dt (d_w st) (d_h st) b (d_clips st) (d_layers st) (d_ctm st) (d_cur st) (d_probe st).
Definition with_clips (st : dt) (c : list clip) : dt := mk_dt (d_w st) (d_h st) (d_buf st) c (d_layers st) (d_ctm st) (d_cur st) (d_probe st).
Definition with_layers (st : dt) (l : list layer) : dt := mk_dt (d_w st) (d_h st) (d_buf st) (d_clips st) l (d_ctm st) (d_cur st) (d_probe st).
Definition with_ctm (st : dt) (t : xform) : dt := mk_dt (d_w st) (d_h st) (d_buf st) (d_clips st) (d_layers st) t (d_cur st) (d_probe st).
Definition with_probe (st : dt) (p : Z) : dt := mk_dt (d_w st) (d_h st) (d_buf st) (d_clips st) (d_layers st) (d_ctm st) (d_cur st) p.
Definition with_cur (st : dt) (c : cursor) : dt := mk_dt (d_w st) (d_h st) (d_buf st) (d_clips st) (d_layers st) (d_ctm st) c (d_probe st).

(* destination of drawing calls: innermost layer or the surface *)
Definition dest_of (st : dt) : list Z * rect :=
  match d_layers st with l :: _ => (l_buf l, l_rect l) | [] => (d_buf st, surface_rect st) end.
Definition set_dest (st : dt) (b : list Z) : dt :=
  match d_layers st with
  | l :: t => with_layers st (mk_layer b (l_opacity l) (l_rect l) (l_blend l) :: t)
  | [] => with_buf st b
  end.

(* ---- the five span blitters: one span of one row ---- *)
Inductive blitter_kind :=
  | BMask                      (* ShaderMaskBlitter: SrcOver, coverage mask *)
  | BClipMask (clip : list Z)  (* ShaderClipMaskBlitter *)
  | BBlendMask (m : mode)      (* ShaderBlendMaskBlitter *)
  | BClipBlendMask (m : mode) (clip : list Z)
  | BBlend (m : mode).         (* ShaderBlendBlitter: no coverage mask *)

Definition choose_blitter (has_mask : bool) (clipmask : option (list Z)) (blend : mode) : blitter_kind :=
  match has_mask, clipmask with
  | true, Some c => if mode_eqb blend SrcOver then BClipMask c else BClipBlendMask blend c
  | true, None => if mode_eqb blend SrcOver then BMask else BBlendMask blend
  | false, _ => BBlend blend
  end.

(* pixel i of the span: src colour, old dst, mask byte, clip byte -> new dst *)
Definition blit_px (k : blitter_kind) (src dst mask clip : Z) : result Z :=
  match k with
  | BMask => Ok (if mask =? 0 then dst else over_in src dst mask)
  | BClipMask _ => Ok (if (mask =? 0) || (clip =? 0) then dst else over_in_in src dst mask clip)
  | BBlendMask m => blend_mask_px m src dst mask
  | BClipBlendMask m _ => blend_mask_clip_px m src dst mask clip
  | BBlend m => blend_px m src dst
  end.

Definition kind_has_mask (k : blitter_kind) : bool := match k with BBlend _ => false | _ => true end.
Definition kind_has_clip (k : blitter_kind) : bool := match k with BClipMask _ | BClipBlendMask _ _ => true | _ => false end.
(* region probe: 1 where the blitter may write (coverage and clip coverage both non-zero) *)
Definition probe_px (k : blitter_kind) (dst mask clip : Z) : Z :=
  if (kind_has_mask k && (mask =? 0)) || (kind_has_clip k && (clip =? 0)) then dst else 1.

Fixpoint span_px (probe : Z) (k : blitter_kind) (sh : shader) (y : Z) (x : Z) (dsts masks clips : list Z) : result (list Z) :=
  match dsts with
  | [] => Ok []
  | d :: dt' =>
      let m := match masks with m :: _ => m | [] => 0 end in
      let c := match clips with c :: _ => c | [] => 0 end in
      do v <- (if probe =? -1 then Ok (probe_px k d m c) else blit_px k (shade sh x y) d m c);
      do rest <- span_px probe k sh y (x + 1) dt' (tl masks) (tl clips);
      Ok (v :: rest)
  end.

(* Blitter::blit_span(y, x1, x2, mask) on destination `dest` with origin (bx, by) and stride *)
Definition blit_span (probe : Z) (k : blitter_kind) (sh : shader) (surf_w : Z) (dest : list Z) (db : rect)
           (y x1 x2 : Z) (mask : list Z) : result (list Z) :=
  let stride := r_w db in
  let dest_row := (y - y0 db) * stride in
  let count := x2 - x1 in
  (* shade_span writes count pixels into tmp, which is one surface width long *)
  if surf_w <? count then Err OutOfBounds else
  let start := dest_row + x1 - x0 db in
  do drow <- slice dest start (start + count);
  do crow <- match k with
             | BClipMask c | BClipBlendMask _ c => slice c (y * surf_w + x1) (y * surf_w + x1 + count)
             | _ => Ok []
             end;
  do mrow <- match k with
             | BBlend _ => Ok []
             | _ => if zlen mask <? count then Err OutOfBounds else Ok mask
             end;
  do new <- span_px probe k sh y x1 drow (if 0 <? probe then map (fun _ => probe) mrow else mrow) crow;
  Ok (splice dest start new).

(* DrawTarget::composite *)
Fixpoint composite_rows (probe : Z) (k : blitter_kind) (sh : shader) (surf_w : Z) (db : rect) (mask : option (list Z))
         (mask_rect r : rect) (ys : list Z) (dest : list Z) : result (list Z) :=
  match ys with
  | [] => Ok dest
  | y :: t =>
      do mrow <- match mask with
                 | Some m =>
                     let mask_row := (y - y0 mask_rect) * r_w mask_rect in
                     slice m (mask_row + x0 r - x0 mask_rect) (mask_row + x1 r - x0 mask_rect)
                 | None => Ok []
                 end;
      do dest' <- blit_span probe k sh surf_w dest db y (x0 r) (x1 r) mrow;
      composite_rows probe k sh surf_w db mask mask_rect r t dest'
  end.

Definition composite (st : dt) (src : source) (mask : option (list Z)) (mask_rect rect0 : rect)
           (blend : mode) (alpha : f32) : result dt :=
  match xf_inverse (d_ctm st) with
  | None => Ok st
  | Some ti =>
      let '(dest, db) := dest_of st in
      let r := r_inter (r_inter (r_inter rect0 (clip_bounds st)) db) mask_rect in
      if r_empty r then Ok st else
      let sh := choose_shader ti src alpha in
      let k := choose_blitter (match mask with Some _ => true | None => false end) (top_clip_mask st) blend in
      do dest' <- composite_rows (d_probe st) k sh (d_w st) db mask mask_rect r (zrange (y0 r) (y1 r)) dest;
      Ok (set_dest st dest')
  end.

(* ---- clip stack ---- *)
Definition push_clip_rect (st : dt) (r : rect) : dt :=
  let c := match d_clips st with
           | c :: _ => mk_clip (r_inter (c_rect c) r) (c_mask c)
           | [] => mk_clip (r_inter (clip_bounds st) r) None
           end in
  with_clips st (c :: d_clips st).
Definition pop_clip (st : dt) : dt := with_clips st (tl (d_clips st)).

Definition reset_raster (st : dt) : dt :=
  with_cur st (mk_cursor (cur (d_cur st)) (first (d_cur st)) (reset (rz (d_cur st)))).

Definition push_clip (st : dt) (p : path) : result dt :=
  let c := apply_path (d_h st) (d_ctm st) (d_cur st) p in
  let m0 := maskbuf_new 0 0 (d_w st) (d_h st) in
  do rm <- rasterize blit_super (p_winding p) (rz c) m0;
  let '(rz', m) := rm in
  let buf := m_buf m in
  let buf := match top_clip_mask st with
             | Some last =>
                 let n := Z.to_nat (d_w st * d_h st) in
                 map2 (fun a b => wrapu8 (muldiv255 a b)) (firstn n buf) (firstn n last) ++ skipn n buf
             | None => buf
             end in
  let st := with_cur st (mk_cursor (cur c) (first c) rz') in
  let st := with_clips st (mk_clip (clip_bounds st) (Some buf) :: d_clips st) in
  Ok (reset_raster st).

(* ---- layers ---- *)
Definition push_layer (st : dt) (opacity : f32) (blend : mode) : dt :=
  let r := clip_bounds st in
  let n := Z.max (r_w r) 0 * Z.max (r_h r) 0 in
  with_layers st (mk_layer (repeat 0 (Z.to_nat n)) opacity r blend :: d_layers st).

Definition pop_layer (st : dt) : result dt :=
  match d_layers st with
  | [] => Err Unwrap
  | l :: rest =>
      let st1 := with_layers st rest in
      let opacity := unit_to_u8 (l_opacity l) in
      let mask := repeat opacity (Z.to_nat (d_w st * d_h st)) in
      let ctm := d_ctm st in
      let st1 := with_ctm st1 xf_identity in
      let src := Image (mk_image (r_w (l_rect l)) (r_h (l_rect l)) (l_buf l)) ExtPad Nearest
                   (xf_translation (of_int (- x0 (l_rect l))) (of_int (- y0 (l_rect l)))) in
      do st2 <- composite st1 src (Some mask) (surface_rect st) (l_rect l) (l_blend l) f1;
      Ok (with_ctm st2 ctm)
  end.

(* ---- drawing calls ---- *)
Record draw_options := mk_opts { o_blend : mode; o_alpha : f32; o_aa : bool }.

Definition fill (st : dt) (p : path) (src : source) (o : draw_options) : result dt :=
  let c := apply_path (d_h st) (d_ctm st) (d_cur st) p in
  let st := with_cur st c in
  let b := get_bounds (rz c) in
  do st <-
    (if (0 <? r_w b) && (0 <? r_h b) then
       let m0 := maskbuf_new (x0 b) (y0 b) (r_w b) (r_h b) in
       do rm <- rasterize (if o_aa o then blit_super else blit_mask) (p_winding p) (rz c) m0;
       let '(rz', m) := rm in
       let st := with_cur st (mk_cursor (cur c) (first c) rz') in
       composite st src (Some (m_buf m)) b b (o_blend o) (o_alpha o)
     else Ok st);
  Ok (reset_raster st).

Definition rect_path (x y w h : f32) : path :=
  mk_path [MoveTo (x, y); LineTo (fadd x w, y); LineTo (fadd x w, fadd y h); LineTo (x, fadd y h); Close] NonZero.

Definition fill_rect (st : dt) (x y w h : f32) (src : source) (o : draw_options) : result dt :=
  let ix := to_i32 x in let iy := to_i32 y in let iw := to_i32 w in let ih := to_i32 h in
  let integer_rect := feq (of_int ix) x && feq (of_int iy) y && feq (of_int iw) w && feq (of_int ih) h in
  if xf_is_identity (d_ctm st) && integer_rect && (match d_clips st with [] => true | _ => false end) then
    let xr := sat32 (ix + iw) in
    let yb := sat32 (iy + ih) in
    let irect := r_inter (mkrect (Z.min ix xr) (Z.min iy yb) (Z.max ix xr) (Z.max iy yb)) (surface_rect st) in
    if r_empty irect then Ok st else composite st src None irect irect (o_blend o) (o_alpha o)
  else fill st (rect_path x y w h) src o.

Definition clear (st : dt) (c : Z) : result dt :=
  match d_clips st with
  | [] => let '(dest, _) := dest_of st in Ok (set_dest st (map (fun _ => if d_probe st =? -1 then 1 else c) dest))
  | _ =>
      let ctm := d_ctm st in
      do st' <- fill (with_ctm st xf_identity) (rect_path f0 f0 (of_int (d_w st)) (of_int (d_h st))) (Solid c)
                  (mk_opts Src f1 true);
      Ok (with_ctm st' ctm)
  end.

Definition mask_op (st : dt) (src : source) (x y : Z) (mw mh : Z) (data : list Z) : result dt :=
  let xr := sat32 (x + mw) in
  let yb := sat32 (y + mh) in
  let mr := mkrect x y xr yb in
  composite st src (Some data) mr mr SrcOver f1.

Definition draw_image_with_size_at (st : dt) (w h x y : f32) (im : image) (o : draw_options) : result dt :=
  let src := Image im ExtPad Bilinear
               (xf_then_scale (xf_translation (fneg x) (fneg y)) (fdiv (of_int (i_w im)) w) (fdiv (of_int (i_h im)) h)) in
  fill_rect st x y w h src o.
Definition draw_image_at (st : dt) (x y : f32) (im : image) (o : draw_options) : result dt :=
  draw_image_with_size_at st (of_int (i_w im)) (of_int (i_h im)) x y im o.

(* ---- operations as data ---- *)
Inductive op :=
  | OpSetTransform (t : xform)
  | OpPushClipRect (r : rect)
  | OpPushClip (p : path)
  | OpPopClip
  | OpPushLayer (opacity : f32) (m : mode)
  | OpPopLayer
  | OpFill (p : path) (s : source) (o : draw_options)
  (* stroke: `stroked` is stroke_to_path(dash_path(flatten(path))) as computed by the crate *)
  | OpStroke (stroked : path) (s : source) (o : draw_options)
  | OpFillRect (x y w h : f32) (s : source) (o : draw_options)
  | OpClear (c : Z)
  | OpMask (s : source) (x y mw mh : Z) (data : list Z)
  | OpDrawImageAt (x y : f32) (im : image) (o : draw_options)
  | OpDrawImageSize (w h x y : f32) (im : image) (o : draw_options)
  (* test-only composite op: fill(path.transform(ctm)) under the identity, ctm restored (C11) *)
  | OpFillPre (p : path) (s : source) (o : draw_options)
  | OpSurface (k : cs_kind) (sw sh : Z) (sbuf : list Z) (sr : rect) (dx dy : Z).

Definition step_op (st : dt) (o : op) : result dt :=
  match o with
  | OpSetTransform t => Ok (with_ctm st t)
  | OpPushClipRect r => Ok (push_clip_rect st r)
  | OpPushClip p => push_clip st p
  | OpPopClip => Ok (pop_clip st)
  | OpPushLayer op m => Ok (push_layer st op m)
  | OpPopLayer => pop_layer st
  | OpFill p s o => fill st p s o
  | OpStroke p s o => fill st p s o
  | OpFillRect x y w h s o => fill_rect st x y w h s o
  | OpClear c => clear st c
  | OpMask s x y mw mh data => mask_op st s x y mw mh data
  | OpDrawImageAt x y im o => draw_image_at st x y im o
  | OpDrawImageSize w h x y im o => draw_image_with_size_at st w h x y im o
  | OpFillPre p s o =>
      let ctm := d_ctm st in
      do st' <- fill (with_ctm st xf_identity) (path_transform ctm p) s o;
      Ok (with_ctm st' ctm)
  | OpSurface k sw sh sbuf sr dx dy =>
      do b <- surface_op k (d_w st) (d_h st) (d_buf st) sw sh sbuf sr dx dy; Ok (with_buf st b)
  end.

(* ---- oracles' instrumentation ---- *)
Definition zero_bufs (st : dt) : dt :=
  with_layers (with_buf st (map (fun _ => 0) (d_buf st)))
    (map (fun l => mk_layer (map (fun _ => 0) (l_buf l)) (l_opacity l) (l_rect l) (l_blend l)) (d_layers st)).
(* the set of destination pixels a drawing call may change: 1 where the shape's coverage and every
   clip's coverage are non-zero inside the clip rectangles and the destination, else 0 *)
Definition probe_region (st : dt) (o : op) : result (list Z) :=
  do st' <- step_op (with_probe (zero_bufs st) (-1)) o; Ok (fst (dest_of st')).
(* the same call with every coverage byte of the shape forced to v (1..255) *)
Definition step_forced (st : dt) (o : op) (v : Z) : result dt :=
  do st' <- step_op (with_probe st v) o; Ok (with_probe st' 0).
