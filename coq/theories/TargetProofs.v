(* Frame and formula theorems for DrawTarget::composite and the span blitters (C02, C03),
   in partial-correctness form: whenever the call returns (Ok), every destination pixel is either
   untouched or the blitter's per-pixel function of its own inputs. *)
Require Import RQ.Base RQ.F32 RQ.Rect RQ.Pixel RQ.Raster RQ.PathF RQ.Shader RQ.Surface RQ.Target RQ.SurfaceProofs.
From Coq Require Import ZifyBool.

(* ---- span_px ---- *)
Lemma span_px_spec k sh y : forall dsts x masks clips out,
  span_px 0 k sh y x dsts masks clips = Ok out ->
  length out = length dsts /\
  forall j, (j < length dsts)%nat ->
    blit_px k (shade sh (x + Z.of_nat j) y) (nth j dsts 0) (nth j masks 0) (nth j clips 0) = Ok (nth j out 0).
Proof.
  induction dsts as [|d t IH]; intros x masks clips out H.
  - cbn in H. inversion H; subst. split; [reflexivity|]. intros j Hj; cbn in Hj; lia.
  - cbn [span_px] in H. replace (0 =? -1) with false in H by reflexivity.
    destruct (blit_px k (shade sh x y) d match masks with m :: _ => m | [] => 0 end
                      match clips with c :: _ => c | [] => 0 end) as [v|e] eqn:Ev; [|discriminate].
    cbn [bind] in H.
    destruct (span_px 0 k sh y (x + 1) t (tl masks) (tl clips)) as [rest|e] eqn:Er; [|discriminate].
    cbn [bind] in H. inversion H; subst out; clear H.
    destruct (IH _ _ _ _ Er) as [IHl IHn].
    split; [cbn; now rewrite IHl|].
    intros [|j] Hj.
    + cbn [nth]. replace (x + Z.of_nat 0) with x by lia.
      destruct masks, clips; exact Ev.
    + cbn [nth]. replace (x + Z.of_nat (S j)) with (x + 1 + Z.of_nat j) by lia.
      cbn [length] in Hj. specialize (IHn j ltac:(lia)).
      destruct masks as [|m mt], clips as [|c ct]; cbn [tl] in IHn; cbn [nth];
        try (destruct j; exact IHn); exact IHn.
Qed.

(* ---- one span ---- *)
Definition clip_of_kind (k : blitter_kind) : option (list Z) :=
  match k with BClipMask c | BClipBlendMask _ c => Some c | _ => None end.
Definition clip_byte (k : blitter_kind) (surf_w x y : Z) : Z :=
  match clip_of_kind k with Some c => zn c (y * surf_w + x) | None => 0 end.

Lemma blit_span_spec k sh surf_w dest db y x1 x2 mask dest' :
  blit_span 0 k sh surf_w dest db y x1 x2 mask = Ok dest' ->
  let start := (y - y0 db) * r_w db + x1 - x0 db in
  zlen dest' = zlen dest /\ 0 <= start /\ x1 <= x2 /\ start + (x2 - x1) <= zlen dest /\
  forall i, 0 <= i < zlen dest ->
    if (start <=? i) && (i <? start + (x2 - x1))
    then blit_px k (shade sh (x1 + (i - start)) y) (zn dest i) (zn mask (i - start)) (clip_byte k surf_w (x1 + (i - start)) y)
         = Ok (zn dest' i)
    else zn dest' i = zn dest i.
Proof.
  unfold blit_span. intros H. cbv zeta.
  set (start := (y - y0 db) * r_w db + x1 - x0 db) in *.
  destruct (surf_w <? x2 - x1) eqn:Ew; [discriminate|].
  destruct (slice dest start (start + (x2 - x1))) as [drow|e] eqn:Ed; [|discriminate]. cbn [bind] in H.
  apply slice_ok in Ed. destruct Ed as (Hs1 & Hs2 & Hdl & Hdn).
  replace (start + (x2 - x1) - start) with (x2 - x1) in * by lia.
  set (crow_r := match k with
                 | BClipMask c | BClipBlendMask _ c => slice c (y * surf_w + x1) (y * surf_w + x1 + (x2 - x1))
                 | _ => Ok [] end) in *.
  destruct crow_r as [crow|e] eqn:Ec; [|discriminate]. cbn [bind] in H.
  set (mrow_r := match k with BBlend _ => Ok [] | _ => if zlen mask <? x2 - x1 then Err OutOfBounds else Ok mask end) in *.
  destruct mrow_r as [mrow|e] eqn:Em; [|discriminate]. cbn [bind] in H.
  replace (0 <? 0) with false in H by reflexivity.
  destruct (span_px 0 k sh y x1 drow mrow crow) as [new|e] eqn:Esp; [|discriminate]. cbn [bind] in H.
  inversion H; subst dest'; clear H.
  apply span_px_spec in Esp. destruct Esp as [Hnl Hnn].
  assert (Hlen : (Z.to_nat start + length new <= length dest)%nat) by (unfold zlen in *; lia).
  split; [unfold zlen; rewrite splice_length; [reflexivity|lia|exact Hlen]|].
  split; [lia|]. split; [lia|]. split; [lia|].
  intros i Hi.
  assert (Hsp : zn (splice dest start new) i =
                if (Nat.leb (Z.to_nat start) (Z.to_nat i) && Nat.ltb (Z.to_nat i) (Z.to_nat start + Z.to_nat (x2 - x1)))%bool
                then nth (Z.to_nat i - Z.to_nat start) new 0 else zn dest i).
  { unfold zn. rewrite nth_splice by (lia || exact Hlen). rewrite Hnl, Hdl. reflexivity. }
  rewrite Hsp. clear Hsp.
  destruct ((start <=? i) && (i <? start + (x2 - x1))) eqn:Ein.
  - replace (Nat.leb (Z.to_nat start) (Z.to_nat i)) with true by (symmetry; apply Nat.leb_le; lia).
    replace (Nat.ltb (Z.to_nat i) (Z.to_nat start + Z.to_nat (x2 - x1))) with true by (symmetry; apply Nat.ltb_lt; lia).
    cbn [andb].
    specialize (Hnn (Z.to_nat i - Z.to_nat start)%nat ltac:(lia)).
    rewrite <- Hnn. clear Hnn.
    replace (Z.of_nat (Z.to_nat i - Z.to_nat start)) with (i - start) by lia.
    assert (Hd : nth (Z.to_nat i - Z.to_nat start) drow 0 = zn dest i).
    { rewrite Hdn by lia. unfold zn. f_equal. lia. }
    rewrite Hd.
    destruct k as [|c|m|m c|m]; unfold mrow_r in Em; unfold crow_r in Ec; unfold clip_byte, clip_of_kind.
    + (* BMask *) destruct (zlen mask <? x2 - x1); inversion Em; subst mrow. inversion Ec; subst crow.
      cbn [blit_px]. unfold zn. replace (Z.to_nat (i - start)) with (Z.to_nat i - Z.to_nat start)%nat by lia. reflexivity.
    + (* BClipMask *) destruct (zlen mask <? x2 - x1); inversion Em; subst mrow.
      apply slice_ok in Ec. destruct Ec as (Hc0 & _ & _ & Hcn).
      replace (y * surf_w + x1 + (x2 - x1) - (y * surf_w + x1)) with (x2 - x1) in Hcn by lia.
      rewrite Hcn by lia. unfold zn.
      replace (Z.to_nat (i - start)) with (Z.to_nat i - Z.to_nat start)%nat by lia.
      replace (Z.to_nat (y * surf_w + x1) + (Z.to_nat i - Z.to_nat start))%nat with (Z.to_nat (y * surf_w + (x1 + (i - start)))) by lia.
      reflexivity.
    + (* BBlendMask *) destruct (zlen mask <? x2 - x1); inversion Em; subst mrow. inversion Ec; subst crow.
      cbn [blit_px]. unfold zn. replace (Z.to_nat (i - start)) with (Z.to_nat i - Z.to_nat start)%nat by lia. reflexivity.
    + (* BClipBlendMask *) destruct (zlen mask <? x2 - x1); inversion Em; subst mrow.
      apply slice_ok in Ec. destruct Ec as (Hc0 & _ & _ & Hcn).
      replace (y * surf_w + x1 + (x2 - x1) - (y * surf_w + x1)) with (x2 - x1) in Hcn by lia.
      rewrite Hcn by lia. unfold zn.
      replace (Z.to_nat (i - start)) with (Z.to_nat i - Z.to_nat start)%nat by lia.
      replace (Z.to_nat (y * surf_w + x1) + (Z.to_nat i - Z.to_nat start))%nat with (Z.to_nat (y * surf_w + (x1 + (i - start)))) by lia.
      reflexivity.
    + (* BBlend: mask and clip are not read *) cbn [blit_px]. reflexivity.
  - destruct (Nat.leb_spec (Z.to_nat start) (Z.to_nat i)); destruct (Nat.ltb_spec (Z.to_nat i) (Z.to_nat start + Z.to_nat (x2 - x1)));
      cbn [andb]; try reflexivity. lia.
Qed.

(* ---- all rows of a composite ---- *)
Definition didx (db : rect) (X Y : Z) : Z := (Y - y0 db) * r_w db + (X - x0 db).
Definition mask_at (mask : option (list Z)) (mr : rect) (X Y : Z) : Z :=
  match mask with Some m => zn m ((Y - y0 mr) * r_w mr + X - x0 mr) | None => 0 end.

Lemma span_index_iff stride y yb xa xr cnt X Y :
  0 <= X - xa < stride -> 0 <= xr - xa -> xr - xa + cnt <= stride ->
  ((y - yb) * stride + xr - xa <= (Y - yb) * stride + (X - xa) < (y - yb) * stride + xr - xa + cnt) <->
  (Y = y /\ xr <= X < xr + cnt).
Proof.
  intros HX H0 H1. split.
  - intros H.
    destruct (rowcol_unique stride (Y - yb) (X - xa) (y - yb) ((Y - yb) * stride + (X - xa) - (y - yb) * stride)) as [E1 E2]; [lia|lia|lia|].
    assert (Y = y) by lia. subst Y. split; [reflexivity|lia].
  - intros [-> H]. lia.
Qed.

Lemma composite_rows_spec k sh surf_w db mask mr r ys : forall dest dest',
  composite_rows 0 k sh surf_w db mask mr r ys dest = Ok dest' ->
  NoDup ys -> x0 db <= x0 r -> x0 r <= x1 r -> x1 r <= x1 db ->
  zlen dest' = zlen dest /\
  forall X Y, x0 db <= X < x1 db -> 0 <= didx db X Y < zlen dest ->
    (In Y ys /\ x0 r <= X < x1 r ->
       blit_px k (shade sh X Y) (zn dest (didx db X Y)) (mask_at mask mr X Y) (clip_byte k surf_w X Y) = Ok (zn dest' (didx db X Y))) /\
    (~ (In Y ys /\ x0 r <= X < x1 r) -> zn dest' (didx db X Y) = zn dest (didx db X Y)).
Proof.
  induction ys as [|y t IH]; intros dest dest' H Hnd Hxa Hxr Hxb.
  - cbn in H. inversion H; subst. split; [reflexivity|]. intros X Y HX Hi. split; [intros [[] _]|reflexivity].
  - cbn [composite_rows] in H.
    set (mrow_r := match mask with
                   | Some m => slice m ((y - y0 mr) * r_w mr + x0 r - x0 mr) ((y - y0 mr) * r_w mr + x1 r - x0 mr)
                   | None => Ok [] end) in *.
    destruct mrow_r as [mrow|e] eqn:Em; [|discriminate]. cbn [bind] in H.
    destruct (blit_span 0 k sh surf_w dest db y (x0 r) (x1 r) mrow) as [d1|e] eqn:Eb; [|discriminate]. cbn [bind] in H.
    inversion Hnd as [|? ? Hnin Hnd']; subst.
    destruct (IH d1 dest' H Hnd' Hxa Hxr Hxb) as [L2 P2].
    pose proof (blit_span_spec _ _ _ _ _ _ _ _ _ _ Eb) as Hs. cbv zeta in Hs.
    destruct Hs as (L1 & Hs0 & _ & Hse & P1).
    split; [lia|].
    intros X Y HX Hi.
    assert (Hstride : 0 <= X - x0 db < r_w db) by (unfold r_w; lia).
    pose proof (span_index_iff (r_w db) y (y0 db) (x0 db) (x0 r) (x1 r - x0 r) X Y Hstride ltac:(lia) ltac:(unfold r_w; lia)) as Hiff.
    unfold didx in *. specialize (P1 _ Hi).
    destruct (P2 X Y HX ltac:(unfold didx; lia)) as [P2a P2b]. unfold didx in P2a, P2b.
    destruct (Z.eq_dec Y y) as [->|Ney].
    + (* the row of this step; later rows leave it alone *)
      assert (Hd1 : zn dest' ((y - y0 db) * r_w db + (X - x0 db)) = zn d1 ((y - y0 db) * r_w db + (X - x0 db))) by (apply P2b; tauto).
      rewrite Hd1.
      destruct (((y - y0 db) * r_w db + x0 r - x0 db <=? (y - y0 db) * r_w db + (X - x0 db)) &&
                ((y - y0 db) * r_w db + (X - x0 db) <? (y - y0 db) * r_w db + x0 r - x0 db + (x1 r - x0 r))) eqn:Ec.
      * split; [intros _|intros Hn; exfalso; apply Hn; split; [left; reflexivity|lia]].
        rewrite <- P1. f_equal.
        -- f_equal. lia.
        -- (* mask byte *)
           unfold mask_at. unfold mrow_r in Em. destruct mask as [m|].
           ++ apply slice_ok in Em. destruct Em as (Hm0 & _ & _ & Hmn).
              unfold zn. rewrite Hmn by lia. f_equal. lia.
           ++ inversion Em; subst mrow. unfold zn. destruct (Z.to_nat _); reflexivity.
        -- f_equal. lia.
      * split; [intros [_ Hr]; exfalso; lia|intros _; exact P1].
    + (* another row *)
      assert (Hb : zn d1 ((Y - y0 db) * r_w db + (X - x0 db)) = zn dest ((Y - y0 db) * r_w db + (X - x0 db))).
      { destruct (((y - y0 db) * r_w db + x0 r - x0 db <=? (Y - y0 db) * r_w db + (X - x0 db)) &&
                  ((Y - y0 db) * r_w db + (X - x0 db) <? (y - y0 db) * r_w db + x0 r - x0 db + (x1 r - x0 r))) eqn:Ec; [|exact P1].
        exfalso. assert (Y = y) by (apply Hiff; lia). contradiction. }
      split.
      * intros [[Hh|Ht] Hr]; [congruence|]. rewrite <- P2a by tauto. rewrite Hb. reflexivity.
      * intros Hn. rewrite P2b; [exact Hb|]. intros [Ht Hr]. apply Hn. split; [right; exact Ht|exact Hr].
Qed.

(* ---- DrawTarget::composite ---- *)
Definition has_mask (m : option (list Z)) : bool := match m with Some _ => true | None => false end.

Lemma set_dest_other st b :
  d_w (set_dest st b) = d_w st /\ d_h (set_dest st b) = d_h st /\ d_clips (set_dest st b) = d_clips st /\
  d_ctm (set_dest st b) = d_ctm st /\ d_cur (set_dest st b) = d_cur st /\ d_probe (set_dest st b) = d_probe st /\
  tl (d_layers (set_dest st b)) = tl (d_layers st) /\
  (d_layers st <> [] -> d_buf (set_dest st b) = d_buf st) /\
  (d_layers st = [] -> d_layers (set_dest st b) = []) /\
  fst (dest_of (set_dest st b)) = b /\ snd (dest_of (set_dest st b)) = snd (dest_of st).
Proof.
  unfold set_dest, dest_of. destruct (d_layers st) as [|l t] eqn:El; cbn; rewrite ?El; cbn; repeat split; try reflexivity; try congruence.
Qed.

(* C03: what composite does to every pixel of the current destination.  Whenever the call
   returns: with a singular transform or an empty effective rectangle nothing changes; otherwise only
   the destination buffer changes, it keeps its size, and a pixel (X,Y) of it is untouched outside
   r = rect /\ clip bounds /\ destination /\ mask rect and inside r becomes the chosen blitter's
   function of its own inputs only: the shader's colour at (X,Y), its previous value, the mask byte
   at (X,Y) - mask origin, and the clip mask byte at (X,Y). *)
Theorem composite_spec st src mask mr rect0 blend alpha st' :
  d_probe st = 0 -> composite st src mask mr rect0 blend alpha = Ok st' ->
  match xf_inverse (d_ctm st) with
  | None => st' = st
  | Some ti =>
      let dest := fst (dest_of st) in let db := snd (dest_of st) in
      let r := r_inter (r_inter (r_inter rect0 (clip_bounds st)) db) mr in
      if r_empty r then st' = st else
      let k := choose_blitter (has_mask mask) (top_clip_mask st) blend in
      let sh := choose_shader ti src alpha in
      exists dest', st' = set_dest st dest' /\ zlen dest' = zlen dest /\
        forall X Y, x0 db <= X < x1 db -> 0 <= didx db X Y < zlen dest ->
          if r_in r X Y
          then blit_px k (shade sh X Y) (zn dest (didx db X Y)) (mask_at mask mr X Y) (clip_byte k (d_w st) X Y)
               = Ok (zn dest' (didx db X Y))
          else zn dest' (didx db X Y) = zn dest (didx db X Y)
  end.
Proof.
  intros Hp H. unfold composite in H.
  destruct (xf_inverse (d_ctm st)) as [ti|]; [|inversion H; reflexivity].
  destruct (dest_of st) as [dest db] eqn:Ed. cbn [fst snd].
  set (r := r_inter (r_inter (r_inter rect0 (clip_bounds st)) db) mr) in *.
  destruct (r_empty r) eqn:Ee; [inversion H; reflexivity|].
  replace (match mask with Some _ => true | None => false end) with (has_mask mask) in H by reflexivity.
  rewrite Hp in H.
  destruct (composite_rows 0 (choose_blitter (has_mask mask) (top_clip_mask st) blend) (choose_shader ti src alpha)
              (d_w st) db mask mr r (zrange (y0 r) (y1 r)) dest) as [dest'|e] eqn:Er; [|discriminate].
  cbn [bind] in H. inversion H; subst st'; clear H.
  assert (Hne : x0 r < x1 r /\ y0 r < y1 r) by (unfold r_empty in Ee; lia).
  assert (Hsub : x0 db <= x0 r /\ x1 r <= x1 db /\ y0 db <= y0 r /\ y1 r <= y1 db).
  { unfold r, r_inter; cbn [x0 y0 x1 y1]. lia. }
  apply composite_rows_spec in Er; [|apply zrange_from_NoDup|lia|lia|lia].
  destruct Er as [L P].
  exists dest'. split; [reflexivity|]. split; [exact L|].
  intros X Y HX Hi. destruct (P X Y HX Hi) as [Pa Pb].
  destruct (r_in r X Y) eqn:Ein.
  - apply Pa. rewrite zrange_In. unfold r_in in Ein. lia.
  - apply Pb. rewrite zrange_In. unfold r_in in Ein. lia.
Qed.

(* the pixel functions, spelled out (C03's formula) *)
Theorem blitter_formula has_m clipmask blend src dst m c :
  blit_px (choose_blitter has_m clipmask blend) src dst m c =
  match has_m, clipmask with
  | false, _ => blend_px blend src dst
  | true, None => if mode_eqb blend SrcOver then Ok (if m =? 0 then dst else over_in src dst m) else blend_mask_px blend src dst m
  | true, Some _ => if mode_eqb blend SrcOver then Ok (if (m =? 0) || (c =? 0) then dst else over_in_in src dst m c)
                    else blend_mask_clip_px blend src dst m c
  end.
Proof.
  unfold choose_blitter. destruct has_m, clipmask; try reflexivity; destruct (mode_eqb blend SrcOver); reflexivity.
Qed.

Lemma muldiv255_0_l c : muldiv255 0 c = 0.
Proof. unfold muldiv255. rewrite Z.mul_0_l. reflexivity. Qed.
Lemma muldiv255_0_r m : muldiv255 m 0 = 0.
Proof. unfold muldiv255. rewrite Z.mul_0_r. reflexivity. Qed.

(* C02 at the pixel level: zero shape coverage, or zero clip coverage, leaves the pixel bit-identical
   whatever the blend mode and the source *)
Theorem blit_px_zero_coverage k src dst m c :
  (kind_has_mask k = true /\ m = 0) \/ (kind_has_clip k = true /\ c = 0) -> blit_px k src dst m c = Ok dst.
Proof.
  intros [[Hk ->]|[Hk ->]]; destruct k; try discriminate; unfold blit_px, blend_mask_px, blend_mask_clip_px;
    rewrite ?muldiv255_0_l, ?muldiv255_0_r; cbn [Z.eqb orb]; rewrite ?orb_true_r; reflexivity.
Qed.

(* C02 for composite: a destination pixel outside the effective rectangle, or whose mask byte is 0,
   or (when a clip path is in force) whose clip byte is 0, keeps its value; nothing but the current
   destination buffer changes *)
Theorem composite_frame st src mask mr rect0 blend alpha st' :
  d_probe st = 0 -> composite st src mask mr rect0 blend alpha = Ok st' ->
  d_w st' = d_w st /\ d_h st' = d_h st /\ d_clips st' = d_clips st /\ d_ctm st' = d_ctm st /\ d_cur st' = d_cur st /\
  tl (d_layers st') = tl (d_layers st) /\ (d_layers st <> [] -> d_buf st' = d_buf st) /\
  snd (dest_of st') = snd (dest_of st) /\ zlen (fst (dest_of st')) = zlen (fst (dest_of st)) /\
  let dest := fst (dest_of st) in let db := snd (dest_of st) in
  let r := r_inter (r_inter (r_inter rect0 (clip_bounds st)) db) mr in
  forall X Y, x0 db <= X < x1 db -> 0 <= didx db X Y < zlen dest ->
    r_in r X Y = false \/ (has_mask mask = true /\ mask_at mask mr X Y = 0) \/
    (has_mask mask = true /\ (exists c, top_clip_mask st = Some c /\ zn c (Y * d_w st + X) = 0)) ->
    zn (fst (dest_of st')) (didx db X Y) = zn dest (didx db X Y).
Proof.
  intros Hp H. pose proof (composite_spec _ _ _ _ _ _ _ _ Hp H) as S.
  destruct (xf_inverse (d_ctm st)) as [ti|].
  2:{ subst st'. repeat split; try reflexivity; intros; reflexivity. }
  cbv zeta in S.
  destruct (r_empty (r_inter (r_inter (r_inter rect0 (clip_bounds st)) (snd (dest_of st))) mr)) eqn:Ee.
  { subst st'. repeat split; try reflexivity; intros; reflexivity. }
  destruct S as (dest' & -> & L & P).
  destruct (set_dest_other st dest') as (A1 & A2 & A3 & A4 & A5 & A6 & A7 & A8 & A9 & A10 & A11).
  repeat split; try assumption; try (rewrite A10; exact L).
  cbv zeta. intros X Y HX Hi Hcase. rewrite A10. specialize (P X Y HX Hi).
  destruct (r_in _ X Y) eqn:Ein.
  - destruct Hcase as [Hc|Hcase]; [discriminate|].
    rewrite blit_px_zero_coverage in P; [inversion P; congruence|].
    destruct Hcase as [[Hm Hz]|[Hm (c & Hc & Hz)]].
    + left. split; [|exact Hz]. unfold choose_blitter. rewrite Hm.
      destruct (top_clip_mask st); destruct (mode_eqb blend SrcOver); reflexivity.
    + right. unfold choose_blitter, clip_byte. rewrite Hm, Hc.
      destruct (mode_eqb blend SrcOver); cbn [kind_has_clip clip_of_kind]; (split; [reflexivity|exact Hz]).
  - exact P.
Qed.
