(* Frame and formula theorems for DrawTarget::composite and the span blitters (C02, C03),
   in partial-correctness form: whenever the call returns (Ok), every destination pixel is either
   untouched or the blitter's per-pixel function of its own inputs. *)
Require Import RQ.Base RQ.F32 RQ.Rect RQ.Pixel RQ.Raster RQ.PathF RQ.Shader RQ.Surface RQ.Target RQ.SurfaceProofs.
From Coq Require Import ZifyBool.

(* ---- span_px ---- *)
Lemma span_px_spec k sh y : forall dsts x masks clips out,
  span_px 0 k sh y x dsts masks clips = Ok out ->
  length out = length dsts /\
  forall j, (j < length dsts)%nat ->
    blit_px k (shade sh (x + Z.of_nat j) y) (nth j dsts 0) (nth j masks 0) (nth j clips 0) = Ok (nth j out 0).
Proof.
  induction dsts as [|d t IH]; intros x masks clips out H.
  - cbn in H. inversion H; subst. split; [reflexivity|]. intros j Hj; cbn in Hj; lia.
  - cbn [span_px] in H. replace (0 =? -1) with false in H by reflexivity.
    destruct (blit_px k (shade sh x y) d match masks with m :: _ => m | [] => 0 end
                      match clips with c :: _ => c | [] => 0 end) as [v|e] eqn:Ev; [|discriminate].
    cbn [bind] in H.
    destruct (span_px 0 k sh y (x + 1) t (tl masks) (tl clips)) as [rest|e] eqn:Er; [|discriminate].
    cbn [bind] in H. inversion H; subst out; clear H.
    destruct (IH _ _ _ _ Er) as [IHl IHn].
    split; [cbn; now rewrite IHl|].
    intros [|j] Hj.
    + cbn [nth]. replace (x + Z.of_nat 0) with x by lia.
      destruct masks, clips; exact Ev.
    + cbn [nth]. replace (x + Z.of_nat (S j)) with (x + 1 + Z.of_nat j) by lia.
      cbn [length] in Hj. specialize (IHn j ltac:(lia)).
      destruct masks as [|m mt], clips as [|c ct]; cbn [tl] in IHn; cbn [nth];
        try (destruct j; exact IHn); exact IHn.
Qed.

(* ---- one span ---- *)
Definition clip_of_kind (k : blitter_kind) : option (list Z) :=
  match k with BClipMask c | BClipBlendMask _ c => Some c | _ => None end.
Definition clip_byte (k : blitter_kind) (surf_w x y : Z) : Z :=
  match clip_of_kind k with Some c => zn c (y * surf_w + x) | None => 0 end.

Lemma blit_span_spec k sh surf_w dest db y x1 x2 mask dest' :
  blit_span 0 k sh surf_w dest db y x1 x2 mask = Ok dest' ->
  let start := (y - y0 db) * r_w db + x1 - x0 db in
  zlen dest' = zlen dest /\ 0 <= start /\ x1 <= x2 /\ start + (x2 - x1) <= zlen dest /\
  forall i, 0 <= i < zlen dest ->
    if (start <=? i) && (i <? start + (x2 - x1))
    then blit_px k (shade sh (x1 + (i - start)) y) (zn dest i) (zn mask (i - start)) (clip_byte k surf_w (x1 + (i - start)) y)
         = Ok (zn dest' i)
    else zn dest' i = zn dest i.
Proof.
  unfold blit_span. intros H. cbv zeta.
  set (start := (y - y0 db) * r_w db + x1 - x0 db) in *.
  destruct (surf_w <? x2 - x1) eqn:Ew; [discriminate|].
  destruct (slice dest start (start + (x2 - x1))) as [drow|e] eqn:Ed; [|discriminate]. cbn [bind] in H.
  apply slice_ok in Ed. destruct Ed as (Hs1 & Hs2 & Hdl & Hdn).
  replace (start + (x2 - x1) - start) with (x2 - x1) in * by lia.
  set (crow_r := match k with
                 | BClipMask c | BClipBlendMask _ c => slice c (y * surf_w + x1) (y * surf_w + x1 + (x2 - x1))
                 | _ => Ok [] end) in *.
  destruct crow_r as [crow|e] eqn:Ec; [|discriminate]. cbn [bind] in H.
  set (mrow_r := match k with BBlend _ => Ok [] | _ => if zlen mask <? x2 - x1 then Err OutOfBounds else Ok mask end) in *.
  destruct mrow_r as [mrow|e] eqn:Em; [|discriminate]. cbn [bind] in H.
  replace (0 <? 0) with false in H by reflexivity.
  destruct (span_px 0 k sh y x1 drow mrow crow) as [new|e] eqn:Esp; [|discriminate]. cbn [bind] in H.
  inversion H; subst dest'; clear H.
  apply span_px_spec in Esp. destruct Esp as [Hnl Hnn].
  assert (Hlen : (Z.to_nat start + length new <= length dest)%nat) by (unfold zlen in *; lia).
  split; [unfold zlen; rewrite splice_length; [reflexivity|lia|exact Hlen]|].
  split; [lia|]. split; [lia|]. split; [lia|].
  intros i Hi.
  assert (Hsp : zn (splice dest start new) i =
                if (Nat.leb (Z.to_nat start) (Z.to_nat i) && Nat.ltb (Z.to_nat i) (Z.to_nat start + Z.to_nat (x2 - x1)))%bool
                then nth (Z.to_nat i - Z.to_nat start) new 0 else zn dest i).
  { unfold zn. rewrite nth_splice by (lia || exact Hlen). rewrite Hnl, Hdl. reflexivity. }
  rewrite Hsp. clear Hsp.
  destruct ((start <=? i) && (i <? start + (x2 - x1))) eqn:Ein.
  - replace (Nat.leb (Z.to_nat start) (Z.to_nat i)) with true by (symmetry; apply Nat.leb_le; lia).
    replace (Nat.ltb (Z.to_nat i) (Z.to_nat start + Z.to_nat (x2 - x1))) with true by (symmetry; apply Nat.ltb_lt; lia).
    cbn [andb].
    specialize (Hnn (Z.to_nat i - Z.to_nat start)%nat ltac:(lia)).
    rewrite <- Hnn. clear Hnn.
    replace (Z.of_nat (Z.to_nat i - Z.to_nat start)) with (i - start) by lia.
    assert (Hd : nth (Z.to_nat i - Z.to_nat start) drow 0 = zn dest i).
    { rewrite Hdn by lia. unfold zn. f_equal. lia. }
    rewrite Hd.
    destruct k as [|c|m|m c|m]; unfold mrow_r in Em; unfold crow_r in Ec; unfold clip_byte, clip_of_kind.
    + (* BMask *) destruct (zlen mask <? x2 - x1); inversion Em; subst mrow. inversion Ec; subst crow.
      cbn [blit_px]. unfold zn. replace (Z.to_nat (i - start)) with (Z.to_nat i - Z.to_nat start)%nat by lia. reflexivity.
    + (* BClipMask *) destruct (zlen mask <? x2 - x1); inversion Em; subst mrow.
      apply slice_ok in Ec. destruct Ec as (Hc0 & _ & _ & Hcn).
      replace (y * surf_w + x1 + (x2 - x1) - (y * surf_w + x1)) with (x2 - x1) in Hcn by lia.
      rewrite Hcn by lia. unfold zn.
      replace (Z.to_nat (i - start)) with (Z.to_nat i - Z.to_nat start)%nat by lia.
      replace (Z.to_nat (y * surf_w + x1) + (Z.to_nat i - Z.to_nat start))%nat with (Z.to_nat (y * surf_w + (x1 + (i - start)))) by lia.
      reflexivity.
    + (* BBlendMask *) destruct (zlen mask <? x2 - x1); inversion Em; subst mrow. inversion Ec; subst crow.
      cbn [blit_px]. unfold zn. replace (Z.to_nat (i - start)) with (Z.to_nat i - Z.to_nat start)%nat by lia. reflexivity.
    + (* BClipBlendMask *) destruct (zlen mask <? x2 - x1); inversion Em; subst mrow.
      apply slice_ok in Ec. destruct Ec as (Hc0 & _ & _ & Hcn).
      replace (y * surf_w + x1 + (x2 - x1) - (y * surf_w + x1)) with (x2 - x1) in Hcn by lia.
      rewrite Hcn by lia. unfold zn.
      replace (Z.to_nat (i - start)) with (Z.to_nat i - Z.to_nat start)%nat by lia.
      replace (Z.to_nat (y * surf_w + x1) + (Z.to_nat i - Z.to_nat start))%nat with (Z.to_nat (y * surf_w + (x1 + (i - start)))) by lia.
      reflexivity.
    + (* BBlend: mask and clip are not read *) cbn [blit_px]. reflexivity.
  - destruct (Nat.leb_spec (Z.to_nat start) (Z.to_nat i)); destruct (Nat.ltb_spec (Z.to_nat i) (Z.to_nat start + Z.to_nat (x2 - x1)));
      cbn [andb]; try reflexivity. lia.
Qed.
