(* TotalProofs (C07): TOTALITY of the DrawTarget model on well-formed targets.
   The existing theorems have the form "op = Ok st' -> ...".  This file proves the converse direction: on a
   well-formed target (dt_wf) and inside the documented preconditions of each call (op_in_range) the model
   never returns Err, i.e. the Rust code reaches no slice-index panic, no i32 overflow check, no unwrap of None,
   no debug assertion - except for the two known dependency errors of the four non-separable blend modes
   (Err PixelOverflow / Err DebugAssert), and, for the calls that run the path rasteriser, under the
   assumption that the rasteriser itself returns Ok (op_raster_ok). *)
Require Import RQ.Base RQ.F32 RQ.Rect RQ.Pixel RQ.PixelProofs RQ.Raster RQ.PathF RQ.PathOps RQ.Shader RQ.Surface RQ.Target
               RQ.SurfaceProofs RQ.TargetProofs RQ.OpsProofs RQ.ClipProofs RQ.PremulDraw.
Require RQ.MiscProofs.
From Coq Require Import ZArith List Lia Bool ZifyBool.
Import ListNotations.
Open Scope Z_scope.

(* ================================================================== *)
(** * 0. Results that are Ok up to an allowed class of errors          *)
(* ================================================================== *)

(* r is Ok a with P a, or Err e with E e *)
Definition tot {A} (E : err -> Prop) (P : A -> Prop) (r : result A) : Prop :=
  match r with Ok a => P a | Err e => E e end.

Lemma tot_bind {A B} (E : err -> Prop) (P : A -> Prop) (Q : B -> Prop) (r : result A) (f : A -> result B) :
  tot E P r -> (forall a, P a -> tot E Q (f a)) -> tot E Q (bind r f).
Proof. destruct r as [a|e]; cbn [tot bind]; auto. Qed.

Lemma tot_weaken {A} (E E' : err -> Prop) (P P' : A -> Prop) (r : result A) :
  (forall e, E e -> E' e) -> (forall a, P a -> P' a) -> tot E P r -> tot E' P' r.
Proof. destruct r; cbn [tot]; auto. Qed.

Lemma tot_ok {A} (E : err -> Prop) (P : A -> Prop) (r : result A) :
  (forall e, ~ E e) -> tot E P r -> exists a, r = Ok a /\ P a.
Proof. destruct r as [a|e]; cbn [tot]; intros HE H; [exists a; auto|destruct (HE e H)]. Qed.

Lemma tot_cases {A} (E : err -> Prop) (P : A -> Prop) (r : result A) :
  tot E P r -> (exists a, r = Ok a /\ P a) \/ (exists e, r = Err e /\ E e).
Proof. destruct r as [a|e]; cbn [tot]; intros H; [left; exists a; auto|right; exists e; auto]. Qed.

(* the two errors of the dependency (sw-composite): u32 overflow in blend::lum, debug_assert in pack_argb32 *)
Definition dep_err (e : err) : Prop := e = PixelOverflow \/ e = DebugAssert.
(* the errors a blend mode may produce on premultiplied input: none for the 24 separable / Porter-Duff modes *)
Definition mode_err (m : mode) (e : err) : Prop := ~ In m separable_modes /\ dep_err e.

Lemma mode_err_sep m e : In m separable_modes -> ~ mode_err m e.
Proof. intros H [Hn _]. exact (Hn H). Qed.

(* ================================================================== *)
(** * 1. The only errors `blend` can return are the dependency errors  *)
(* ================================================================== *)

Lemma bind_err {A B} (r : result A) (f : A -> result B) e :
  bind r f = Err e -> r = Err e \/ exists a, r = Ok a /\ f a = Err e.
Proof. destruct r as [a|e']; cbn [bind]; intros H; [right; exists a; auto|left; inversion H; reflexivity]. Qed.

Lemma pack_argb32_err a r g b e : pack_argb32 a r g b = Err e -> dep_err e.
Proof. unfold pack_argb32. destruct (_ && _); intros H; inversion H. right; reflexivity. Qed.

Lemma lum_err r g b e : lum r g b = Err e -> dep_err e.
Proof.
  unfold lum. cbv zeta. destruct (_ <? _); [intros H; inversion H; left; reflexivity|].
  destruct (_ <? _); intros H; inversion H. left; reflexivity.
Qed.

Lemma clip_color_err rgb a e : clip_color rgb a = Err e -> dep_err e.
Proof.
  destruct rgb as [[r g] b]. unfold clip_color. intros H. apply bind_err in H.
  destruct H as [H|(L & _ & H)]; [exact (lum_err _ _ _ _ H)|].
  cbv zeta in H. destruct (if _ : bool then _ else _) as [[r' g'] b']. destruct (_ && _); discriminate.
Qed.

Lemma set_lum_err rgb a l e : set_lum rgb a l = Err e -> dep_err e.
Proof.
  destruct rgb as [[r g] b]. unfold set_lum. intros H. apply bind_err in H.
  destruct H as [H|(l0 & _ & H)]; [exact (lum_err _ _ _ _ H)|]. exact (clip_color_err _ _ _ H).
Qed.

Lemma lum_set_lum_err r g b rgb a f e : (do l <- lum r g b; set_lum rgb a (f l)) = Err e -> dep_err e.
Proof.
  intros H. apply bind_err in H. destruct H as [H|(l & _ & H)]; [exact (lum_err _ _ _ _ H)|exact (set_lum_err _ _ _ _ H)].
Qed.

Lemma nonsep_err k src dst e :
  (forall s d sa da e, k s d sa da = Err e -> dep_err e) -> nonsep k src dst = Err e -> dep_err e.
Proof.
  intros Hk. unfold nonsep. cbv zeta. intros H. apply bind_err in H.
  destruct H as [H|([[R G] B] & _ & H)].
  - destruct (_ && _); [exact (Hk _ _ _ _ _ H)|discriminate].
  - exact (pack_argb32_err _ _ _ _ _ H).
Qed.

Theorem blend_err_class m s d e : blend m s d = Err e -> dep_err e.
Proof.
  destruct m; cbn [blend]; unfold sep; cbv zeta; try discriminate; try apply pack_argb32_err;
    apply nonsep_err; intros [[sr sg] sb] [[dr dg] db] sa da e'; apply lum_set_lum_err with (f := fun l => l * _).
Qed.

(* ================================================================== *)
(** * 2. The per-pixel blitter functions                               *)
(* ================================================================== *)

Definition kind_err (k : blitter_kind) (e : err) : Prop :=
  match k with BBlendMask md | BClipBlendMask md _ | BBlend md => mode_err md e | _ => False end.

Lemma blend_tot m s d : px_ok s -> px_ok d -> tot (mode_err m) px_ok (blend m s d).
Proof.
  intros [Ws Ps] [Wd Pd]. destruct (all_modes_split m) as [Hm|Hm].
  - destruct (premul_blend_separable m s d Hm Ws Wd Ps Pd) as (v & -> & W & P). cbn [tot]. split; assumption.
  - destruct (blend m s d) as [v|e] eqn:E; cbn [tot].
    + destruct (blend_ok_premul_all m s d v Ws Wd Ps Pd E). split; assumption.
    + split; [|exact (blend_err_class _ _ _ _ E)].
      intros Hs. cbn [In] in Hm. unfold separable_modes in Hs. cbn [In] in Hs.
      repeat (destruct Hm as [<-|Hm]; [repeat (destruct Hs as [Hs|Hs]; [discriminate|]); exact Hs|]). exact Hm.
Qed.

Theorem blit_px_tot k s d m c : px_ok s -> px_ok d -> byte m -> byte c ->
  tot (kind_err k) px_ok (blit_px k s d m c).
Proof.
  intros Hs Hd Hm Hc.
  destruct (blit_px k s d m c) as [v|e] eqn:E; cbn [tot].
  - exact (blit_px_ok k s d m c v Hs Hd Hm Hc E).
  - destruct k as [|cl|md|md cl|md]; cbn [blit_px kind_err] in *; try discriminate.
    + unfold blend_mask_px in E. destruct (m =? 0); [discriminate|].
      pose proof (blend_tot md s d Hs Hd) as T. destruct (blend md s d); cbn [bind tot] in *; [discriminate|].
      inversion E; subst; exact T.
    + unfold blend_mask_clip_px in E. cbv zeta in E. destruct (_ =? 0); [discriminate|].
      pose proof (blend_tot md s d Hs Hd) as T. destruct (blend md s d); cbn [bind tot] in *; [discriminate|].
      inversion E; subst; exact T.
    + unfold blend_px in E. pose proof (blend_tot md s d Hs Hd) as T. rewrite E in T. exact T.
Qed.

(* ================================================================== *)
(** * 3. One span, all rows                                            *)
(* ================================================================== *)

Lemma span_px_tot k sh y : shader_ok sh -> forall dsts x masks clips,
  Forall px_ok dsts -> Forall byte masks -> Forall byte clips ->
  tot (kind_err k) (fun out => Forall px_ok out /\ length out = length dsts) (span_px 0 k sh y x dsts masks clips).
Proof.
  intros Hsh. induction dsts as [|d t IH]; intros x masks clips Hd Hm Hc.
  - cbn. split; [constructor|reflexivity].
  - cbn [span_px]. replace (0 =? -1) with false by reflexivity.
    inversion Hd as [|? ? Hd1 Hd2]; subst.
    eapply tot_bind.
    + apply blit_px_tot; [apply shade_ok; exact Hsh|exact Hd1|apply hd_byte; exact Hm|apply hd_byte; exact Hc].
    + intros v Hv. eapply tot_bind.
      * apply IH; [exact Hd2|apply tl_Forall; exact Hm|apply tl_Forall; exact Hc].
      * intros rest [Hr Hl]. cbn [tot]. split; [constructor; assumption|cbn [length]; now rewrite Hl].
Qed.

Lemma slice_ok_ex {A} (P : A -> Prop) (l : list A) a b : Forall P l -> 0 <= a <= b -> b <= zlen l ->
  exists r, slice l a b = Ok r /\ Forall P r /\ zlen r = b - a.
Proof.
  intros Hl H1 H2. destruct (slice_in_range l a b H1 H2) as [r Hr]. exists r. split; [exact Hr|].
  split; [exact (slice_Forall _ _ _ _ _ Hl Hr)|].
  apply slice_ok in Hr. unfold zlen. lia.
Qed.

Lemma blit_span_tot k sh W dest db y xa xb mrow :
  shader_ok sh -> kind_ok k -> Forall px_ok dest -> Forall byte mrow ->
  xa <= xb -> xb - xa <= W ->
  0 <= (y - y0 db) * r_w db + xa - x0 db -> (y - y0 db) * r_w db + xa - x0 db + (xb - xa) <= zlen dest ->
  (kind_has_mask k = true -> xb - xa <= zlen mrow) ->
  match clip_of_kind k with Some c => 0 <= y * W + xa /\ y * W + xa + (xb - xa) <= zlen c | None => True end ->
  tot (kind_err k) (fun d' => Forall px_ok d' /\ zlen d' = zlen dest) (blit_span 0 k sh W dest db y xa xb mrow).
Proof.
  intros Hsh Hk Hd Hm Hx HW Hs0 Hs1 Hml Hcl. unfold blit_span. cbv zeta.
  replace (W <? xb - xa) with false by lia.
  set (start := (y - y0 db) * r_w db + xa - x0 db) in *.
  destruct (slice_ok_ex px_ok dest start (start + (xb - xa)) Hd ltac:(lia) ltac:(lia)) as (drow & -> & Hdr & Ldr).
  cbn [bind].
  assert (Hc : exists crow, match k with
                 | BClipMask c | BClipBlendMask _ c => slice c (y * W + xa) (y * W + xa + (xb - xa))
                 | _ => Ok [] end = Ok crow /\ Forall byte crow).
  { destruct k as [|c|md|md c|md]; cbn [kind_ok clip_of_kind] in *; try (exists []; split; [reflexivity|constructor]);
      destruct (slice_ok_ex byte c (y * W + xa) (y * W + xa + (xb - xa)) Hk ltac:(lia) ltac:(lia)) as (crow & E & F & _);
      exists crow; split; assumption. }
  destruct Hc as (crow & -> & Hcr). cbn [bind].
  assert (Hmr : exists mrow', match k with BBlend _ => Ok [] | _ => if zlen mrow <? xb - xa then Err OutOfBounds else Ok mrow end
                              = Ok mrow' /\ Forall byte mrow').
  { destruct k as [|c|md|md c|md]; cbn [kind_has_mask] in Hml;
      try (exists mrow; split; [replace (zlen mrow <? xb - xa) with false by lia; reflexivity|exact Hm]).
    exists []. split; [reflexivity|constructor]. }
  destruct Hmr as (mrow' & -> & Hmr). cbn [bind].
  replace (0 <? 0) with false by reflexivity.
  eapply tot_bind; [exact (span_px_tot k sh y Hsh drow xa mrow' crow Hdr Hmr Hcr)|].
  intros new [Hn Ln]. cbn [tot]. split; [apply splice_Forall; assumption|].
  unfold zlen in *. rewrite splice_length; [reflexivity|lia|lia].
Qed.

Definition has_mask_kind (mask : option (list Z)) (k : blitter_kind) : Prop :=
  match mask with None => kind_has_mask k = false | Some _ => True end.

Lemma composite_rows_tot k sh W H db mask mr r ys :
  shader_ok sh -> kind_ok k -> has_mask_kind mask k ->
  x0 db <= x0 r -> x0 r <= x1 r -> x1 r <= x1 db -> x1 r - x0 r <= W ->
  (forall y, In y ys -> y0 db <= y < y1 db) ->
  match mask with
  | Some m => Forall byte m /\ x0 mr <= x0 r /\ x1 r <= x1 mr /\ (forall y, In y ys -> y0 mr <= y < y1 mr) /\ r_w mr * r_h mr <= zlen m
  | None => True
  end ->
  match clip_of_kind k with
  | Some c => 0 <= x0 r /\ x1 r <= W /\ (forall y, In y ys -> 0 <= y < H) /\ W * H <= zlen c
  | None => True
  end ->
  forall dest, Forall px_ok dest -> zlen dest = r_w db * r_h db ->
  tot (kind_err k) (fun d' => Forall px_ok d' /\ zlen d' = zlen dest) (composite_rows 0 k sh W db mask mr r ys dest).
Proof.
  intros Hsh Hk Hmk Gx0 Gx Gx1 GW. induction ys as [|y t IH]; intros Gy Gm Gc dest Hd Ld.
  - cbn. split; [exact Hd|reflexivity].
  - cbn [composite_rows].
    assert (Gyt : forall y', In y' t -> y0 db <= y' < y1 db) by (intros; apply Gy; right; assumption).
    assert (Gy0 : y0 db <= y < y1 db) by (apply Gy; left; reflexivity).
    assert (Hmrow : exists mrow,
              match mask with
              | Some m => slice m ((y - y0 mr) * r_w mr + x0 r - x0 mr) ((y - y0 mr) * r_w mr + x1 r - x0 mr)
              | None => Ok [] end = Ok mrow /\ Forall byte mrow /\ (kind_has_mask k = true -> x1 r - x0 r <= zlen mrow)).
    { destruct mask as [m|].
      - destruct Gm as (Bm & M0 & M1 & My & Lm). specialize (My y (or_introl eq_refl)).
        pose proof (row_bounds (y - y0 mr) (r_h mr) (r_w mr) ltac:(unfold r_h; lia) ltac:(unfold r_w; lia)) as [R0 R1].
        assert (r_w mr * r_h mr = r_h mr * r_w mr) by ring.
        destruct (slice_ok_ex byte m ((y - y0 mr) * r_w mr + x0 r - x0 mr) ((y - y0 mr) * r_w mr + x1 r - x0 mr) Bm
                    ltac:(unfold r_w in *; lia) ltac:(unfold r_w in *; lia)) as (mrow & E & F & L).
        exists mrow. split; [exact E|]. split; [exact F|]. intros _. lia.
      - exists []. split; [reflexivity|]. split; [constructor|]. cbn [has_mask_kind] in Hmk. congruence. }
    destruct Hmrow as (mrow & -> & Bmr & Lmr). cbn [bind].
    pose proof (row_bounds (y - y0 db) (r_h db) (r_w db) ltac:(unfold r_h; lia) ltac:(unfold r_w; lia)) as [R0 R1].
    assert (r_w db * r_h db = r_h db * r_w db) by ring.
    eapply tot_bind.
    + apply (blit_span_tot k sh W dest db y (x0 r) (x1 r) mrow Hsh Hk Hd Bmr Gx GW);
        [unfold r_w in *; lia|unfold r_w in *; lia|exact Lmr|].
      destruct (clip_of_kind k) as [c|]; [|exact I].
      destruct Gc as (C0 & C1 & Cy & Lc). specialize (Cy y (or_introl eq_refl)).
      pose proof (row_bounds y H W ltac:(lia) ltac:(lia)) as [Q0 Q1].
      assert (W * H = H * W) by ring. lia.
    + intros d1 [Hd1 Ld1]. cbn beta.
      eapply tot_weaken; [intros e He; exact He| |apply IH].
      * intros d2 [Hd2 Ld2]. split; [exact Hd2|lia].
      * exact Gyt.
      * destruct mask as [m|]; [|exact I]. destruct Gm as (Bm & M0 & M1 & My & Lm).
        split; [exact Bm|]. split; [exact M0|]. split; [exact M1|]. split; [|exact Lm].
        intros y' Hy'. apply My. right. exact Hy'.
      * destruct (clip_of_kind k) as [c|]; [|exact I]. destruct Gc as (C0 & C1 & Cy & Lc).
        split; [exact C0|]. split; [exact C1|]. split; [|exact Lc]. intros y' Hy'. apply Cy. right. exact Hy'.
      * exact Hd1.
      * lia.
Qed.

(* ================================================================== *)
(** * 4. The well-formedness invariant of a DrawTarget                 *)
(* ================================================================== *)

(* r lies inside the w x h surface (r itself may be empty or inverted) *)
Definition rect_in (w h : Z) (r : rect) : Prop := 0 <= x0 r /\ 0 <= y0 r /\ x1 r <= w /\ y1 r <= h.

(* a layer's rectangle lies inside the surface and its buffer is exactly that rectangle
   (an inverted rectangle - pushed under an empty clip - has an empty buffer) *)
Definition layer_wf (w h : Z) (l : layer) : Prop :=
  rect_in w h (l_rect l) /\ zlen (l_buf l) = Z.max (r_w (l_rect l)) 0 * Z.max (r_h (l_rect l)) 0.
(* a clip's rectangle lies inside the surface and its mask (if any) covers the whole surface *)
Definition clip_wf (w h : Z) (c : clip) : Prop :=
  rect_in w h (c_rect c) /\ match c_mask c with Some m => w * h <= zlen m | None => True end.

Definition dt_wf (st : dt) : Prop :=
  0 <= d_w st <= i32_max /\ 0 <= d_h st <= i32_max /\ d_w st * d_h st <= i32_max /\
  zlen (d_buf st) = d_w st * d_h st /\
  Forall (layer_wf (d_w st) (d_h st)) (d_layers st) /\
  Forall (clip_wf (d_w st) (d_h st)) (d_clips st) /\
  all_premul st.

Theorem dt_new_wf w h buf :
  0 <= w <= i32_max -> 0 <= h <= i32_max -> w * h <= i32_max -> zlen buf = w * h -> Forall px_ok buf ->
  dt_wf (dt_new w h buf).
Proof.
  intros Hw Hh Hwh Hl Hb. unfold dt_wf, dt_new. cbn [d_w d_h d_buf d_layers d_clips].
  split; [lia|]. split; [lia|]. split; [lia|]. split; [exact Hl|]. split; [constructor|]. split; [constructor|].
  exact (dt_new_premul w h buf Hb).
Qed.

Lemma dt_wf_premul st : dt_wf st -> all_premul st.
Proof. intros (_ & _ & _ & _ & _ & _ & H). exact H. Qed.

Lemma dest_wf st : dt_wf st ->
  rect_in (d_w st) (d_h st) (snd (dest_of st)) /\
  zlen (fst (dest_of st)) = Z.max (r_w (snd (dest_of st))) 0 * Z.max (r_h (snd (dest_of st))) 0 /\
  Forall px_ok (fst (dest_of st)).
Proof.
  intros W. pose proof (dest_ok st (dt_wf_premul st W)) as Hp.
  destruct W as (Hw & Hh & Hwh & Hb & Hl & Hc & _).
  unfold dest_of in *. destruct (d_layers st) as [|l t]; cbn [fst snd] in *.
  - unfold rect_in, surface_rect, r_w, r_h. cbn [x0 y0 x1 y1]. repeat split; try lia; try assumption.
  - inversion Hl as [|? ? [Hr Hlen] _]; subst. repeat split; try assumption; apply Hr.
Qed.

Lemma clip_bounds_wf st : dt_wf st -> rect_in (d_w st) (d_h st) (clip_bounds st).
Proof.
  intros (Hw & Hh & _ & _ & _ & Hc & _). unfold clip_bounds. destruct (d_clips st) as [|c t].
  - unfold rect_in, surface_rect. cbn [x0 y0 x1 y1]. lia.
  - inversion Hc as [|? ? [Hr _] _]; subst. exact Hr.
Qed.

Lemma top_clip_wf st : dt_wf st ->
  match top_clip_mask st with Some c => Forall byte c /\ d_w st * d_h st <= zlen c | None => True end.
Proof.
  intros W. pose proof (top_clip_ok st (dt_wf_premul st W)) as Hb.
  destruct W as (_ & _ & _ & _ & _ & Hc & _). unfold top_clip_mask in *. destruct (d_clips st) as [|c t]; [exact I|].
  inversion Hc as [|? ? [_ Hm] _]; subst. destruct (c_mask c); [split; assumption|exact I].
Qed.

Lemma set_dest_wf st b : dt_wf st -> Forall px_ok b -> zlen b = zlen (fst (dest_of st)) -> dt_wf (set_dest st b).
Proof.
  intros W Hb Lb. pose proof (set_dest_ok st b (dt_wf_premul st W) Hb) as Hp.
  destruct W as (Hw & Hh & Hwh & Hl0 & Hl & Hc & _).
  unfold set_dest, dest_of, dt_wf in *. destruct (d_layers st) as [|l t] eqn:El; cbn [fst] in Lb;
    cbn [with_buf with_layers d_w d_h d_buf d_layers d_clips]; rewrite ?El.
  - repeat split; try lia; try assumption; try constructor; try apply Hp.
  - repeat split; try lia; try assumption; try apply Hp.
    inversion Hl as [|? ? [Hr Hlen] Ht]; subst. constructor; [|exact Ht].
    split; cbn [l_rect l_buf]; [exact Hr|lia].
Qed.

Lemma dt_wf_same st st' : d_w st' = d_w st -> d_h st' = d_h st -> d_buf st' = d_buf st ->
  d_layers st' = d_layers st -> d_clips st' = d_clips st -> all_premul st' -> dt_wf st -> dt_wf st'.
Proof. intros A B C D E P W. unfold dt_wf. rewrite A, B, C, D, E. destruct W as (W1 & W2 & W3 & W4 & W5 & W6 & _). tauto. Qed.

Lemma dt_wf_with_ctm st t : dt_wf st -> dt_wf (with_ctm st t).
Proof. intros W. apply (dt_wf_same st); try reflexivity; [apply all_premul_with_ctm, dt_wf_premul, W|exact W]. Qed.
Lemma dt_wf_with_cur st c : dt_wf st -> dt_wf (with_cur st c).
Proof. intros W. apply (dt_wf_same st); try reflexivity; [apply all_premul_with_cur, dt_wf_premul, W|exact W]. Qed.
Lemma dt_wf_reset st : dt_wf st -> dt_wf (reset_raster st).
Proof. intros W. apply (dt_wf_same st); try reflexivity; [apply all_premul_reset, dt_wf_premul, W|exact W]. Qed.

(* ================================================================== *)
(** * 5. DrawTarget::composite is total                                *)
(* ================================================================== *)

(* the coverage mask handed to composite covers its rectangle, row-major - needed only when that rectangle is not
   empty and reaches into the quadrant x > 0, y > 0 (otherwise it cannot meet the surface and no row is read) *)
Definition mask_fits (mask : option (list Z)) (mr : rect) : Prop :=
  match mask with
  | Some m => 0 < r_w mr -> 0 < r_h mr -> 0 < x1 mr -> 0 < y1 mr -> r_w mr * r_h mr <= zlen m
  | None => True
  end.

Lemma choose_blitter_kind mask cm blend :
  has_mask_kind mask (choose_blitter (match mask with Some _ => true | None => false end) cm blend).
Proof. destruct mask; cbn [has_mask_kind]; [exact I|reflexivity]. Qed.

Lemma choose_blitter_clip hm cm blend :
  match clip_of_kind (choose_blitter hm cm blend) with Some c => cm = Some c | None => True end.
Proof. unfold choose_blitter. destruct hm, cm; try destruct (mode_eqb blend SrcOver); cbn [clip_of_kind]; auto. Qed.

Lemma choose_blitter_err hm cm blend e : kind_err (choose_blitter hm cm blend) e -> mode_err blend e.
Proof.
  unfold choose_blitter. destruct hm, cm; try destruct (mode_eqb blend SrcOver); cbn [kind_err]; auto; contradiction.
Qed.

Lemma r_inter4_sub a b c d : r_empty (r_inter (r_inter (r_inter a b) c) d) = false ->
  let r := r_inter (r_inter (r_inter a b) c) d in
  (x0 r < x1 r /\ y0 r < y1 r) /\
  (x0 c <= x0 r /\ x1 r <= x1 c /\ y0 c <= y0 r /\ y1 r <= y1 c /\
   x0 d <= x0 r /\ x1 r <= x1 d /\ y0 d <= y0 r /\ y1 r <= y1 d /\
   x0 b <= x0 r /\ x1 r <= x1 b /\ y0 b <= y0 r /\ y1 r <= y1 b).
Proof. unfold r_empty, r_inter; cbn [x0 y0 x1 y1]. intros H. cbv zeta. repeat split; lia. Qed.

(* Hypotheses: a well-formed target; a premultiplied source (source_ok: solid colour / image pixels premultiplied;
   nothing for gradients); a mask of bytes that covers its own rectangle mr.  NO hypothesis on rect0, the transform,
   the blend mode or alpha is needed: composite clips rect0 to the clip bounds, the destination and mr itself. *)
Theorem composite_total st src mask mr rect0 blend alpha :
  dt_wf st -> source_ok src -> mask_ok mask -> mask_fits mask mr ->
  tot (mode_err blend) dt_wf (composite st src mask mr rect0 blend alpha).
Proof.
  intros W Hsrc Hmb Hmf. pose proof W as W0. unfold composite.
  destruct (xf_inverse (d_ctm st)) as [ti|]; [|exact W].
  destruct (dest_wf st W) as (Dr & Dl & Dp). pose proof (clip_bounds_wf st W) as Cb. pose proof (top_clip_wf st W) as Tc.
  destruct (dest_of st) as [dest db] eqn:Ed. cbn [fst snd] in *.
  set (r := r_inter (r_inter (r_inter rect0 (clip_bounds st)) db) mr).
  destruct (r_empty r) eqn:Ee; [exact W|].
  destruct (r_inter4_sub rect0 (clip_bounds st) db mr Ee) as (Hne & Hsub). fold r in Hne, Hsub.
  destruct W as (Hw & Hh & Hwh & Hb & Hl & Hc & Hp). destruct Hp as (Hprobe & Hp).
  rewrite Hprobe.
  unfold rect_in in *.
  eapply tot_bind.
  - eapply (tot_weaken (kind_err (choose_blitter (match mask with Some _ => true | None => false end) (top_clip_mask st) blend)));
      [intros e He; eapply choose_blitter_err; exact He|intros a Ha; exact Ha|].
    apply (composite_rows_tot _ _ (d_w st) (d_h st) db mask mr r).
    + apply choose_shader_ok. exact Hsrc.
    + apply choose_blitter_ok. destruct (top_clip_mask st); [apply Tc|exact I].
    + apply choose_blitter_kind.
    + lia.
    + lia.
    + lia.
    + lia.
    + intros y Hy. apply zrange_In in Hy. lia.
    + destruct mask as [m|]; [|exact I]. cbn [mask_ok mask_fits] in *.
      split; [exact Hmb|]. split; [lia|]. split; [lia|]. split; [intros y Hy; apply zrange_In in Hy; lia|].
      apply Hmf; unfold r_w, r_h; lia.
    + pose proof (choose_blitter_clip (match mask with Some _ => true | None => false end) (top_clip_mask st) blend) as Hk.
      destruct (clip_of_kind _) as [c|]; [|exact I]. rewrite Hk in Tc. destruct Tc as [_ Lc].
      split; [lia|]. split; [lia|]. split; [intros y Hy; apply zrange_In in Hy; lia|exact Lc].
    + exact Dp.
    + rewrite Dl. unfold r_w, r_h. f_equal; lia.
  - intros dest' [Hd' Ld']. cbn [tot]. apply set_dest_wf.
    + exact W0.
    + exact Hd'.
    + rewrite Ed. cbn [fst]. exact Ld'.
Qed.
Print Assumptions composite_total.

(* the two readings asked for *)
Corollary composite_total_separable st src mask mr rect0 blend alpha :
  dt_wf st -> source_ok src -> mask_ok mask -> mask_fits mask mr -> In blend separable_modes ->
  exists st', composite st src mask mr rect0 blend alpha = Ok st' /\ dt_wf st'.
Proof.
  intros W Hs Hm Hf Hb. apply (tot_ok (mode_err blend)); [intros e; apply mode_err_sep; exact Hb|].
  apply composite_total; assumption.
Qed.

Corollary composite_total_any_mode st src mask mr rect0 blend alpha :
  dt_wf st -> source_ok src -> mask_ok mask -> mask_fits mask mr ->
  (exists st', composite st src mask mr rect0 blend alpha = Ok st' /\ dt_wf st') \/
  composite st src mask mr rect0 blend alpha = Err PixelOverflow \/
  composite st src mask mr rect0 blend alpha = Err DebugAssert.
Proof.
  intros W Hs Hm Hf. destruct (tot_cases _ _ _ (composite_total st src mask mr rect0 blend alpha W Hs Hm Hf)) as [H|(e & E & _ & [->| ->])]; auto.
Qed.
Print Assumptions composite_total_separable.

(* ================================================================== *)
(** * 6. The rasteriser keeps the size of its coverage buffer          *)
(* ================================================================== *)

Lemma add_all_length l v : forall l', add_all l v = Ok l' -> length l' = length l.
Proof.
  induction l as [|x t IH]; intros l' H; cbn [add_all] in H.
  - inversion H; reflexivity.
  - destruct (255 <? x + v); [discriminate|]. destruct (add_all t v) as [t'|]; [|discriminate]. cbn [bind] in H.
    inversion H; subst. cbn [length]. now rewrite (IH t' eq_refl).
Qed.

Lemma blit_super_length m y x1 x2 m' : blit_super m y x1 x2 = Ok m' -> length (m_buf m') = length (m_buf m).
Proof.
  intros H. unfold blit_super in H. cbv zeta in H.
  destruct (_ || _ || _); [discriminate|].
  destruct (slice (m_buf m) _ _) as [b|e] eqn:Eb; [|discriminate]. cbn [bind] in H.
  apply slice_ok in Eb. destruct Eb as (S1 & S2 & S3 & _).
  match type of H with (do b' <- ?X; _) = _ => destruct X as [b'|e] eqn:Eb' end; [|discriminate].
  cbn [bind] in H. inversion H; subst m'. cbn [m_buf].
  assert (L : length b' = length b).
  { destruct (zlen b =? 0) eqn:E0; [inversion Eb'; reflexivity|].
    destruct (zlen b =? 1) eqn:E1.
    - destruct b as [|x rest]; inversion Eb'; subst; [reflexivity|]. unfold zlen in E1. cbn [length] in *. lia.
    - destruct b as [|x rest]; [inversion Eb'; reflexivity|].
      destruct (add_all _ _) as [mid'|e] eqn:Ea; [|discriminate]. cbn [bind] in Eb'. inversion Eb'; subst b'.
      apply add_all_length in Ea. rewrite firstn_length in Ea.
      unfold zlen in *. cbn [length] in *. rewrite app_length. cbn [length]. lia. }
  apply splice_length; [lia|]. unfold zlen in *. lia.
Qed.

Lemma set_length {A} (l : list A) i v l' : set l i v = Ok l' -> length l' = length l.
Proof.
  unfold set. destruct (_ && _) eqn:E; [|discriminate]. intros H; inversion H; subst.
  apply splice_length; [lia|]. unfold zlen in *. cbn [length]. lia.
Qed.

Lemma set_ff_length is_ : forall buf buf', set_ff buf is_ = Ok buf' -> length buf' = length buf.
Proof.
  induction is_ as [|i t IH]; intros buf buf' H; cbn [set_ff] in H.
  - inversion H; reflexivity.
  - destruct (set buf i 255) as [b1|] eqn:E; [|discriminate]. cbn [bind] in H.
    rewrite (IH _ _ H). exact (set_length _ _ _ _ E).
Qed.

Lemma blit_mask_length m y x1 x2 m' : blit_mask m y x1 x2 = Ok m' -> length (m_buf m') = length (m_buf m).
Proof.
  intros H. unfold blit_mask in H. cbv zeta in H.
  destruct (negb _); [inversion H; reflexivity|].
  destruct (set_ff _ _) as [buf|] eqn:E; [|discriminate]. cbn [bind] in H. inversion H; subst m'. cbn [m_buf].
  exact (set_ff_length _ _ _ E).
Qed.

Section RasterLength.
  Variable blit : maskbuf -> Z -> Z -> Z -> result maskbuf.
  Variable rule : winding_rule.
  Hypothesis blit_length : forall m y a b m', blit m y a b = Ok m' -> length (m_buf m') = length (m_buf m).

  Lemma blit_spans_length y spans : forall m m', blit_spans blit m y spans = Ok m' -> length (m_buf m') = length (m_buf m).
  Proof.
    induction spans as [|[a b] t IH]; intros m m' H; cbn [blit_spans] in H.
    - inversion H; reflexivity.
    - destruct (blit m y a b) as [m1|] eqn:E; [|discriminate]. cbn [bind] in H.
      rewrite (IH _ _ H). exact (blit_length _ _ _ _ _ E).
  Qed.

  Lemma rows_length n : forall w4 starts y active m active' m',
    rows blit rule n w4 starts y active m = Ok (active', m') -> length (m_buf m') = length (m_buf m).
  Proof.
    induction n as [|k IH]; intros w4 starts y active m active' m' H; cbn [rows] in H.
    - inversion H; reflexivity.
    - cbv zeta in H.
      destruct (blit_spans blit m y _) as [m1|] eqn:E; [|discriminate]. cbn [bind] in H.
      destruct (existsb e_err _); [discriminate|].
      rewrite (IH _ _ _ _ _ _ _ H). exact (blit_spans_length _ _ _ _ E).
  Qed.

  Lemma rasterize_length r m r' m' : rasterize blit rule r m = Ok (r', m') -> length (m_buf m') = length (m_buf m).
  Proof.
    intros H. unfold rasterize in H. cbv zeta in H.
    destruct (existsb _ _); [discriminate|].
    destruct (rows blit rule _ _ _ _ _ m) as [[active m1]|] eqn:E; [|discriminate]. cbn [bind] in H.
    inversion H; subst. exact (rows_length _ _ _ _ _ _ _ _ E).
  Qed.
End RasterLength.

Lemma rasterize_any_length (aa : bool) rule r x y w h r' m' :
  rasterize (if aa then blit_super else blit_mask) rule r (maskbuf_new x y w h) = Ok (r', m') ->
  zlen (m_buf m') = Z.max (w * h + 1) 0.
Proof.
  intros H. apply rasterize_length in H.
  - unfold zlen. rewrite H. unfold maskbuf_new. cbn [m_buf]. rewrite repeat_length. lia.
  - destruct aa; [apply blit_super_length|apply blit_mask_length].
Qed.

(* ================================================================== *)
(** * 7. Clip stack and layer stack                                    *)
(* ================================================================== *)

Lemma rect_in_inter_l w h a b : rect_in w h a -> rect_in w h (r_inter a b).
Proof. unfold rect_in, r_inter. cbn [x0 y0 x1 y1]. lia. Qed.

Theorem push_clip_rect_wf st r : dt_wf st -> dt_wf (push_clip_rect st r).
Proof.
  intros W. pose proof (push_clip_rect_premul st r (dt_wf_premul st W)) as P.
  pose proof (clip_bounds_wf st W) as Cb.
  destruct W as (W1 & W2 & W3 & W4 & W5 & W6 & _).
  unfold dt_wf. unfold push_clip_rect in *. cbn [with_clips d_w d_h d_buf d_layers d_clips].
  repeat (split; [assumption|]). split; [|exact P].
  constructor; [|exact W6].
  destruct (d_clips st) as [|c t]; unfold clip_wf; cbn [c_rect c_mask].
  - split; [apply rect_in_inter_l; exact Cb|exact I].
  - inversion W6 as [|? ? [Hr Hm] _]; subst. split; [apply rect_in_inter_l; exact Hr|exact Hm].
Qed.

Theorem pop_clip_wf st : dt_wf st -> dt_wf (pop_clip st).
Proof.
  intros W. pose proof (pop_clip_premul st (dt_wf_premul st W)) as P.
  destruct W as (W1 & W2 & W3 & W4 & W5 & W6 & _).
  unfold dt_wf, pop_clip in *. cbn [with_clips d_w d_h d_buf d_layers d_clips].
  repeat (split; [assumption|]). split; [|exact P]. apply tl_Forall. exact W6.
Qed.

Theorem push_layer_wf st opacity blend : dt_wf st -> dt_wf (push_layer st opacity blend).
Proof.
  intros W. pose proof (push_layer_premul st opacity blend (dt_wf_premul st W)) as P.
  pose proof (clip_bounds_wf st W) as Cb.
  destruct W as (W1 & W2 & W3 & W4 & W5 & W6 & _).
  unfold dt_wf, push_layer in *. cbn [with_layers d_w d_h d_buf d_layers d_clips].
  repeat (split; [assumption|]). split; [|split; [exact W6|exact P]].
  constructor; [|exact W5]. split; cbn [l_rect l_buf]; [exact Cb|].
  unfold zlen. rewrite repeat_length.
  assert (0 <= Z.max (r_w (clip_bounds st)) 0 * Z.max (r_h (clip_bounds st)) 0) by (apply Z.mul_nonneg_nonneg; lia). lia.
Qed.

(* push_clip: once the rasteriser has produced the path's coverage, nothing else can fail *)
Definition push_clip_raster (st : dt) (p : path) : result (rast * maskbuf) :=
  rasterize blit_super (p_winding p) (rz (apply_path (d_h st) (d_ctm st) (d_cur st) p)) (maskbuf_new 0 0 (d_w st) (d_h st)).

Lemma map2_length' {A B C} (f : A -> B -> C) l1 l2 : length (map2 f l1 l2) = Nat.min (length l1) (length l2).
Proof. apply map2_length. Qed.

Theorem push_clip_total st p rm : dt_wf st -> push_clip_raster st p = Ok rm ->
  exists st', push_clip st p = Ok st' /\ dt_wf st'.
Proof.
  intros W Hr. unfold push_clip_raster in Hr. destruct rm as [rz' m].
  destruct (push_clip st p) as [st'|e] eqn:E.
  2:{ unfold push_clip in E. cbv zeta in E. rewrite Hr in E. cbn [bind] in E. discriminate. }
  exists st'. split; [reflexivity|].
  pose proof (push_clip_premul st p st' (dt_wf_premul st W) E) as P.
  pose proof (rasterize_any_length true _ _ _ _ _ _ _ _ Hr) as Lm.
  pose proof (clip_bounds_wf st W) as Cb. pose proof (top_clip_wf st W) as Tc.
  unfold push_clip in E. cbv zeta in E. rewrite Hr in E. cbn [bind] in E. inversion E; subst st'; clear E.
  destruct W as (W1 & W2 & W3 & W4 & W5 & W6 & _).
  unfold dt_wf. unfold dt_wf in P. cbn [reset_raster with_cur with_clips d_w d_h d_buf d_layers d_clips] in *.
  repeat (split; [assumption|]). split; [|exact P].
  constructor; [|exact W6]. unfold clip_wf. cbn [c_rect c_mask]. split; [exact Cb|].
  assert (Hn : 0 <= d_w st * d_h st) by (apply Z.mul_nonneg_nonneg; lia).
  destruct (top_clip_mask st) as [last|].
  - destruct Tc as [_ Ll]. unfold zlen in *.
    rewrite app_length, map2_length, !firstn_length, skipn_length. lia.
  - lia.
Qed.

(* pop_layer: one composite of the layer through a constant mask of the surface's size *)
Definition top_layer_blend (st : dt) : mode := match d_layers st with l :: _ => l_blend l | [] => SrcOver end.

Theorem pop_layer_total st : dt_wf st -> d_layers st <> [] ->
  tot (mode_err (top_layer_blend st)) dt_wf (pop_layer st).
Proof.
  intros W Hne. unfold pop_layer, top_layer_blend. destruct (d_layers st) as [|l rest] eqn:El; [congruence|]. cbv zeta.
  assert (W1 : dt_wf (with_ctm (with_layers st rest) xf_identity)).
  { apply dt_wf_with_ctm. pose proof W as (A & B & C & D & E & F & (G1 & G2 & G3 & G4)).
    unfold dt_wf, all_premul. cbn [with_layers d_w d_h d_buf d_layers d_clips d_probe]. rewrite El in *.
    inversion E; subst. inversion G3; subst. tauto. }
  assert (Hl : layer_ok l).
  { destruct W as (_ & _ & _ & _ & _ & _ & (_ & _ & G3 & _)). rewrite El in G3. inversion G3; assumption. }
  eapply tot_bind.
  - apply composite_total.
    + exact W1.
    + cbn [source_ok]. exact Hl.
    + cbn [mask_ok]. apply repeat_Forall. unfold unit_to_u8. apply to_u8_byte.
    + cbn [mask_fits]. intros _ _ _ _. unfold zlen. rewrite repeat_length.
      destruct W as (A & B & _). unfold surface_rect, r_w, r_h. cbn [x0 y0 x1 y1].
      assert (0 <= d_w st * d_h st) by (apply Z.mul_nonneg_nonneg; lia). lia.
  - intros st2 W2. cbn [tot]. apply dt_wf_with_ctm. exact W2.
Qed.
Print Assumptions pop_layer_total.

(* ================================================================== *)
(** * 8. The drawing calls                                             *)
(* ================================================================== *)

(* the rasteriser run inside fill(st, p, _, aa): only made when the path's bounds are not empty *)
Definition fill_raster (st : dt) (p : path) (aa : bool) : result (rast * maskbuf) :=
  let c := apply_path (d_h st) (d_ctm st) (d_cur st) p in
  let b := get_bounds (rz c) in
  rasterize (if aa then blit_super else blit_mask) (p_winding p) (rz c) (maskbuf_new (x0 b) (y0 b) (r_w b) (r_h b)).
Definition fill_bounds (st : dt) (p : path) : rect := get_bounds (rz (apply_path (d_h st) (d_ctm st) (d_cur st) p)).
(* "the rasteriser part of fill returns Ok" *)
Definition fill_raster_ok (st : dt) (p : path) (aa : bool) : Prop :=
  (0 <? r_w (fill_bounds st p)) && (0 <? r_h (fill_bounds st p)) = true -> exists rm, fill_raster st p aa = Ok rm.

Theorem fill_total st p src o : dt_wf st -> source_ok src -> fill_raster_ok st p (o_aa o) ->
  tot (mode_err (o_blend o)) dt_wf (fill st p src o).
Proof.
  intros W Hsrc Hr. unfold fill_raster_ok, fill_raster, fill_bounds in Hr. unfold fill.
  set (c := apply_path (d_h st) (d_ctm st) (d_cur st) p) in *.
  set (b := get_bounds (rz c)) in *. cbv zeta in *.
  eapply tot_bind with (P := dt_wf).
  - destruct ((0 <? r_w b) && (0 <? r_h b)) eqn:Eb.
    + destruct (Hr eq_refl) as ([rz' m] & Er). rewrite Er. cbn [bind].
      apply composite_total.
      * apply dt_wf_with_cur. apply dt_wf_with_cur. exact W.
      * exact Hsrc.
      * cbn [mask_ok]. exact (rasterize_any_byte _ _ _ _ _ _ _ _ _ Er).
      * cbn [mask_fits]. intros _ _ _ _. rewrite (rasterize_any_length _ _ _ _ _ _ _ _ _ Er). lia.
    + cbn [tot]. apply dt_wf_with_cur. exact W.
  - intros st1 W1. cbn [tot]. apply dt_wf_reset. exact W1.
Qed.
Print Assumptions fill_total.

(* fill_rect *)
Definition integer_rect (x y w h : f32) : bool :=
  feq (of_int (to_i32 x)) x && feq (of_int (to_i32 y)) y && feq (of_int (to_i32 w)) w && feq (of_int (to_i32 h)) h.
(* the integer fast path is taken: identity transform, integer rectangle, no clip *)
Definition fast_route (st : dt) (x y w h : f32) : bool :=
  xf_is_identity (d_ctm st) && integer_rect x y w h && (match d_clips st with [] => true | _ => false end).
Lemma fill_rect_unfold st x y w h src o :
  fill_rect st x y w h src o =
  if fast_route st x y w h then
    let xr := sat32 (to_i32 x + to_i32 w) in
    let yb := sat32 (to_i32 y + to_i32 h) in
    let irect := r_inter (mkrect (Z.min (to_i32 x) xr) (Z.min (to_i32 y) yb) (Z.max (to_i32 x) xr) (Z.max (to_i32 y) yb)) (surface_rect st) in
    if r_empty irect then Ok st else composite st src None irect irect (o_blend o) (o_alpha o)
  else fill st (rect_path x y w h) src o.
Proof. reflexivity. Qed.

(* any four floats: the far corner is computed with saturating_add, nothing on the fast path can fail *)
Theorem fill_rect_total st x y w h src o : dt_wf st -> source_ok src ->
  (fast_route st x y w h = false -> fill_raster_ok st (rect_path x y w h) (o_aa o)) ->
  tot (mode_err (o_blend o)) dt_wf (fill_rect st x y w h src o).
Proof.
  intros W Hsrc Hr. rewrite fill_rect_unfold. destruct (fast_route st x y w h).
  - cbv zeta. destruct (r_empty _); [exact W|].
    apply composite_total; [exact W|exact Hsrc|exact I|exact I].
  - apply fill_total; [exact W|exact Hsrc|exact (Hr eq_refl)].
Qed.
Print Assumptions fill_rect_total.

(* clear *)
Definition clear_path (st : dt) : path := rect_path f0 f0 (of_int (d_w st)) (of_int (d_h st)).

Theorem clear_total st c : dt_wf st -> px_ok c ->
  (d_clips st <> [] -> fill_raster_ok (with_ctm st xf_identity) (clear_path st) true) ->
  exists st', clear st c = Ok st' /\ dt_wf st'.
Proof.
  intros W Hc Hr. unfold clear. destruct (d_clips st) as [|cl ct] eqn:Ecl.
  - destruct (dest_of st) as [dest db] eqn:Ed. eexists. split; [reflexivity|].
    apply set_dest_wf; [exact W| |rewrite Ed; cbn [fst]; unfold zlen; now rewrite map_length].
    destruct (dt_wf_premul st W) as (Hp & _). rewrite Hp. replace (0 =? -1) with false by reflexivity.
    apply map_const_Forall. exact Hc.
  - pose proof (fill_total (with_ctm st xf_identity) (clear_path st) (Solid c) (mk_opts Src f1 true)
                  (dt_wf_with_ctm st xf_identity W) Hc (Hr ltac:(discriminate))) as T.
    apply (tot_ok (mode_err Src)).
    + intros e. apply mode_err_sep. unfold separable_modes. cbn [In]. tauto.
    + eapply tot_bind; [exact T|]. intros st1 W1. cbn [tot]. apply dt_wf_with_ctm. exact W1.
Qed.
Print Assumptions clear_total.

(* mask: any position and any size (the far corner saturates).  The mask rectangle handed to composite is
   (x, y, sat32 (x+mw), sat32 (y+mh)); when it reaches x > 0 its width is at most mw (saturation only shrinks it), so
   every mask row that composite slices, with the stride r_w mr, lies inside data. *)
Lemma sat32_le v : 0 < sat32 v -> sat32 v <= v.
Proof. unfold sat32, i32_min, i32_max. lia. Qed.

Theorem mask_op_total st src x y mw mh data : dt_wf st -> source_ok src -> Forall byte data ->
  (0 < mw -> 0 < mh -> mw * mh <= zlen data) ->
  exists st', mask_op st src x y mw mh data = Ok st' /\ dt_wf st'.
Proof.
  intros W Hsrc Hd Hl. unfold mask_op. cbv zeta.
  apply (tot_ok (mode_err SrcOver)).
  - intros e. apply mode_err_sep. unfold separable_modes. cbn [In]. tauto.
  - apply composite_total; [exact W|exact Hsrc|exact Hd|].
    cbn [mask_fits]. unfold r_w, r_h. cbn [x0 y0 x1 y1]. intros Hw Hh Hx Hy.
    pose proof (sat32_le _ Hx) as Lx. pose proof (sat32_le _ Hy) as Ly.
    set (a := sat32 (x + mw) - x) in *. set (b := sat32 (y + mh) - y) in *.
    assert (a * b <= mw * mh) by (apply Z.mul_le_mono_nonneg; lia). specialize (Hl ltac:(lia) ltac:(lia)). lia.
Qed.
Print Assumptions mask_op_total.

(* The stride composite uses for the mask rows is r_w mr = sat32 (x + mw) - x.  It is the mask's own width mw unless
   the far corner saturated, and saturation can only meet the surface (x < d_w) on a target and mask that together
   are wider than 2^31 pixels; there the rows after the first are read with the shorter stride (in range - see
   mask_op_total - but not the caller's rows).  Everywhere else mask() reads exactly data[(Y-y)*mw + (X-x)]. *)
Lemma mask_stride_exact x mw : in_i32 (x + mw) = true -> sat32 (x + mw) - x = mw.
Proof. unfold in_i32, sat32, i32_min, i32_max. lia. Qed.
Lemma mask_stride_differs_only_far_right st x mw : dt_wf st -> in_i32 x = true -> 0 <= mw ->
  sat32 (x + mw) - x <> mw -> x < d_w st -> i32_max < d_w st + mw.
Proof. intros (Hw & _) Hx Hm Hd Hlt. unfold in_i32, sat32, i32_min, i32_max in *. lia. Qed.

(* draw_image_at / draw_image_with_size_at are fill_rect with an image source *)
Definition image_src (w h x y : f32) (im : image) : source :=
  Image im ExtPad Bilinear (xf_then_scale (xf_translation (fneg x) (fneg y)) (fdiv (of_int (i_w im)) w) (fdiv (of_int (i_h im)) h)).

Theorem draw_image_with_size_at_total st w h x y im o : dt_wf st -> image_ok im ->
  (fast_route st x y w h = false -> fill_raster_ok st (rect_path x y w h) (o_aa o)) ->
  tot (mode_err (o_blend o)) dt_wf (draw_image_with_size_at st w h x y im o).
Proof. intros W Him Hr. unfold draw_image_with_size_at. apply fill_rect_total; assumption. Qed.

Theorem draw_image_at_total st x y im o : dt_wf st -> image_ok im ->
  (fast_route st x y (of_int (i_w im)) (of_int (i_h im)) = false ->
   fill_raster_ok st (rect_path x y (of_int (i_w im)) (of_int (i_h im))) (o_aa o)) ->
  tot (mode_err (o_blend o)) dt_wf (draw_image_at st x y im o).
Proof. intros W Him Hr. unfold draw_image_at. apply draw_image_with_size_at_total; assumption. Qed.

(* ================================================================== *)
(** * 9. copy_surface / blend_surface / blend_surface_with_alpha       *)
(* ================================================================== *)

Section SurfaceTotal.
  Variable g : Z -> Z -> result Z.
  Variable E : err -> Prop.
  Hypothesis g_tot : forall s d, px_ok s -> px_ok d -> tot E px_ok (g s d).

  Lemma map2r_tot : forall srcs dsts, Forall px_ok srcs -> Forall px_ok dsts ->
    tot E (fun out => Forall px_ok out /\ length out = Nat.min (length srcs) (length dsts)) (map2r g srcs dsts).
  Proof.
    induction srcs as [|s st IH]; intros [|d dt] Hs Hd; cbn [map2r]; try (cbn; split; [constructor|reflexivity]).
    inversion Hs; subst. inversion Hd; subst.
    eapply tot_bind; [apply g_tot; assumption|]. intros v Hv.
    eapply tot_bind; [apply IH; assumption|]. intros t [Ht Lt]. cbn [tot]. split; [constructor; assumption|].
    cbn [length]. rewrite Lt. reflexivity.
  Qed.

  Lemma cs_row_tot dw dh sw sh sbuf ox oy xa w buf y :
    Forall px_ok sbuf -> Forall px_ok buf -> zlen buf = dw * dh -> zlen sbuf = sw * sh ->
    0 <= dw -> 0 <= sw ->
    0 <= w -> 0 <= xa -> xa + w <= sw -> 0 <= y < sh ->
    0 <= xa + ox -> xa + ox + w <= dw -> 0 <= y + oy < dh ->
    tot E (fun b' => Forall px_ok b' /\ zlen b' = zlen buf) (cs_row g dw sw sbuf ox oy xa w buf y).
  Proof.
    intros Hs Hb Lb Ls Hdw Hsw Hw Hxa Hxw Hy Hxo Hxow Hyo. unfold cs_row. cbv zeta.
    pose proof (row_bounds (y + oy) dh dw Hyo Hdw) as [D0 D1].
    pose proof (row_bounds y sh sw Hy Hsw) as [S0 S1].
    assert (dw * dh = dh * dw) by ring. assert (sw * sh = sh * sw) by ring.
    destruct (slice_ok_ex px_ok sbuf (xa + y * sw) (xa + y * sw + w) Hs ltac:(lia) ltac:(lia)) as (srow & -> & Fs & Lsr).
    cbn [bind].
    destruct (slice_ok_ex px_ok buf (xa + ox + (y + oy) * dw) (xa + ox + (y + oy) * dw + w) Hb ltac:(lia) ltac:(lia))
      as (drow & -> & Fd & Ldr).
    cbn [bind].
    eapply tot_bind; [apply map2r_tot; assumption|]. intros row [Fr Lr]. cbn [tot].
    split; [apply splice_Forall; assumption|].
    unfold zlen in *. rewrite splice_length; [reflexivity|lia|lia].
  Qed.

  Lemma cs_rows_tot dw dh sw sh sbuf ox oy xa w ys :
    Forall px_ok sbuf -> zlen sbuf = sw * sh ->
    0 <= dw -> 0 <= sw ->
    0 <= w -> 0 <= xa -> xa + w <= sw -> 0 <= xa + ox -> xa + ox + w <= dw ->
    (forall y, In y ys -> 0 <= y < sh /\ 0 <= y + oy < dh) ->
    forall buf, Forall px_ok buf -> zlen buf = dw * dh ->
    tot E (fun b' => Forall px_ok b' /\ zlen b' = zlen buf) (cs_rows g dw sw sbuf ox oy xa w ys buf).
  Proof.
    intros Hs Ls Hdw Hsw Hw Hxa Hxw Hxo Hxow. induction ys as [|y t IH]; intros Hy buf Hb Lb; cbn [cs_rows].
    - cbn. split; [exact Hb|reflexivity].
    - destruct (Hy y (or_introl eq_refl)) as [Y1 Y2].
      eapply tot_bind; [apply (cs_row_tot dw dh sw sh); assumption|].
      intros b1 [F1 L1]. cbn beta.
      eapply tot_weaken; [intros e He; exact He| |apply IH].
      + intros b2 [F2 L2]. split; [exact F2|lia].
      + intros y' Hy'. apply Hy. right. exact Hy'.
      + exact F1.
      + lia.
  Qed.

  (* any source rectangle and any destination point: the clipping is exact integer arithmetic (i64 in the crate) *)
  Lemma composite_surface_tot dw dh dbuf sw sh sbuf sr dx dy :
    Forall px_ok sbuf -> Forall px_ok dbuf -> zlen dbuf = dw * dh -> zlen sbuf = sw * sh ->
    tot E (fun b' => Forall px_ok b' /\ zlen b' = zlen dbuf) (composite_surface g dw dh dbuf sw sh sbuf sr dx dy).
  Proof.
    intros Hs Hb Lb Ls. unfold composite_surface. cbv zeta.
    set (ox := dx - x0 sr). set (oy := dy - y0 sr).
    set (xa := Z.max (Z.max (x0 sr) 0) (- ox)). set (ya := Z.max (Z.max (y0 sr) 0) (- oy)).
    set (xb := Z.min (Z.min (x1 sr) sw) (dw - ox)). set (yb := Z.min (Z.min (y1 sr) sh) (dh - oy)).
    assert (Bxa : 0 <= xa /\ 0 <= xa + ox) by (unfold xa; lia).
    assert (Bya : 0 <= ya /\ 0 <= ya + oy) by (unfold ya; lia).
    assert (Bxb : xb <= sw /\ xb + ox <= dw) by (unfold xb; lia).
    assert (Byb : yb <= sh /\ yb + oy <= dh) by (unfold yb; lia).
    clearbody xa ya xb yb ox oy.
    destruct ((xb <=? xa) || (yb <=? ya)) eqn:Ee; [cbn; split; [exact Hb|reflexivity]|].
    apply (cs_rows_tot dw dh sw sh); try assumption; try lia.
    intros y Hy. apply zrange_In in Hy. lia.
  Qed.
End SurfaceTotal.

Definition cs_mode (k : cs_kind) : option mode := match k with CsBlend m => Some m | _ => None end.
Definition opt_mode_err (m : option mode) (e : err) : Prop := match m with Some m => mode_err m e | None => False end.

Lemma cs_fn_tot k s d : cs_kind_ok k -> px_ok s -> px_ok d -> tot (opt_mode_err (cs_mode k)) px_ok (cs_fn k s d).
Proof.
  intros Hk Hs Hd. destruct k as [|m|a]; cbn [cs_fn cs_mode opt_mode_err tot].
  - exact Hs.
  - apply blend_tot; assumption.
  - destruct Hs, Hd. apply premul_over_in; assumption.
Qed.

Theorem surface_op_total k dw dh dbuf sw sh sbuf sr dx dy :
  cs_kind_ok k -> Forall px_ok sbuf -> Forall px_ok dbuf -> zlen dbuf = dw * dh -> zlen sbuf = sw * sh ->
  tot (opt_mode_err (cs_mode k)) (fun b' => Forall px_ok b' /\ zlen b' = zlen dbuf) (surface_op k dw dh dbuf sw sh sbuf sr dx dy).
Proof.
  intros Hk. unfold surface_op. apply composite_surface_tot. intros s d. apply cs_fn_tot. exact Hk.
Qed.
Print Assumptions surface_op_total.

(* ================================================================== *)
(** * 10. Every operation                                              *)
(* ================================================================== *)

(* the blend mode an operation runs on pixels (None: SrcOver / Src / copy only, which cannot fail) *)
Definition op_mode (st : dt) (o : op) : option mode :=
  match o with
  | OpFill _ _ d | OpStroke _ _ d | OpFillRect _ _ _ _ _ d | OpDrawImageAt _ _ _ d | OpDrawImageSize _ _ _ _ _ d
  | OpFillPre _ _ d => Some (o_blend d)
  | OpPopLayer => Some (top_layer_blend st)
  | OpSurface k _ _ _ _ _ _ => cs_mode k
  | _ => None
  end.

(* the documented preconditions of each call and nothing else: premultiplied pixels (sources, source surface),
   coverage bytes, data lengths matching sizes, pop_layer only after push_layer.
   Positions, sizes, rectangles, points, opacity, alpha, transforms, paths, gradient stops: ANY value. *)
Definition mask_range (s : source) (mw mh : Z) (data : list Z) : Prop :=
  source_ok s /\ Forall byte data /\ (0 < mw -> 0 < mh -> mw * mh <= zlen data).
Definition surface_range (k : cs_kind) (sw sh : Z) (sbuf : list Z) : Prop :=
  cs_kind_ok k /\ Forall px_ok sbuf /\ zlen sbuf = sw * sh.

Definition op_in_range (st : dt) (o : op) : Prop :=
  match o with
  | OpFill _ s _ | OpStroke _ s _ | OpFillPre _ s _ | OpFillRect _ _ _ _ s _ => source_ok s
  | OpClear c => px_ok c
  | OpMask s _ _ mw mh data => mask_range s mw mh data
  | OpDrawImageAt _ _ im _ | OpDrawImageSize _ _ _ _ im _ => image_ok im
  | OpSurface k sw sh sbuf _ _ _ => surface_range k sw sh sbuf
  | OpPopLayer => d_layers st <> []
  | OpSetTransform _ | OpPushClipRect _ | OpPushClip _ | OpPopClip | OpPushLayer _ _ => True
  end.

(* "the rasteriser part of the operation returns Ok" (True for the operations that do not rasterise) *)
Definition op_raster_ok (st : dt) (o : op) : Prop :=
  match o with
  | OpPushClip p => exists rm, push_clip_raster st p = Ok rm
  | OpFill p _ d | OpStroke p _ d => fill_raster_ok st p (o_aa d)
  | OpFillPre p _ d => fill_raster_ok (with_ctm st xf_identity) (path_transform (d_ctm st) p) (o_aa d)
  | OpFillRect x y w h _ d => fast_route st x y w h = false -> fill_raster_ok st (rect_path x y w h) (o_aa d)
  | OpDrawImageAt x y im d =>
      fast_route st x y (of_int (i_w im)) (of_int (i_h im)) = false ->
      fill_raster_ok st (rect_path x y (of_int (i_w im)) (of_int (i_h im))) (o_aa d)
  | OpDrawImageSize w h x y _ d => fast_route st x y w h = false -> fill_raster_ok st (rect_path x y w h) (o_aa d)
  | OpClear _ => d_clips st <> [] -> fill_raster_ok (with_ctm st xf_identity) (clear_path st) true
  | _ => True
  end.

(* the operations (and routes) that never reach the path rasteriser *)
Definition op_no_raster (st : dt) (o : op) : bool :=
  match o with
  | OpPushClip _ | OpFill _ _ _ | OpStroke _ _ _ | OpFillPre _ _ _ => false
  | OpFillRect x y w h _ _ | OpDrawImageSize w h x y _ _ => fast_route st x y w h
  | OpDrawImageAt x y im _ => fast_route st x y (of_int (i_w im)) (of_int (i_h im))
  | OpClear _ => match d_clips st with [] => true | _ => false end
  | _ => true
  end.

Lemma op_no_raster_ok st o : op_no_raster st o = true -> op_raster_ok st o.
Proof.
  destruct o; cbn [op_no_raster op_raster_ok]; intros H; try exact I; try discriminate; try (intros H'; congruence).
  intros Hc. destruct (d_clips st); [congruence|discriminate].
Qed.

Lemma tot_none_some {A} (P : A -> Prop) m (r : result A) : tot (opt_mode_err None) P r -> tot (opt_mode_err m) P r.
Proof. apply tot_weaken; [intros e []|auto]. Qed.

Lemma ok_tot {A} (E : err -> Prop) (P : A -> Prop) r : (exists a, r = Ok a /\ P a) -> tot E P r.
Proof. intros (a & -> & H). exact H. Qed.

Theorem step_op_total_partial st o : dt_wf st -> op_in_range st o -> op_raster_ok st o ->
  tot (opt_mode_err (op_mode st o)) dt_wf (step_op st o).
Proof.
  intros W Hr Hz. destruct o; cbn [step_op op_in_range op_raster_ok op_mode opt_mode_err] in *.
  - (* set_transform *) apply dt_wf_with_ctm. exact W.
  - (* push_clip_rect *) apply push_clip_rect_wf. exact W.
  - (* push_clip *) destruct Hz as (rm & Hz). apply ok_tot. exact (push_clip_total st p rm W Hz).
  - (* pop_clip *) apply pop_clip_wf. exact W.
  - (* push_layer *) apply push_layer_wf. exact W.
  - (* pop_layer *) apply pop_layer_total; assumption.
  - (* fill *) apply fill_total; assumption.
  - (* stroke *) apply fill_total; assumption.
  - (* fill_rect *) apply fill_rect_total; assumption.
  - (* clear *) apply ok_tot. apply clear_total; assumption.
  - (* mask *) destruct Hr as (Hs & Hd & Hl). apply ok_tot. apply mask_op_total; assumption.
  - (* draw_image_at *) apply draw_image_at_total; assumption.
  - (* draw_image_with_size_at *) apply draw_image_with_size_at_total; assumption.
  - (* fill of the pre-transformed path *)
    cbv zeta. eapply tot_bind.
    + apply fill_total; [apply dt_wf_with_ctm; exact W|exact Hr|exact Hz].
    + intros st1 W1. cbn [tot]. apply dt_wf_with_ctm. exact W1.
  - (* surface ops *)
    destruct Hr as (Hk & Hs & Ls).
    pose proof W as (Hw & Hh & Hwh & Lb & Hl & Hc & (Hp & Hb & Hlo & Hco)).
    eapply tot_bind.
    + apply surface_op_total; assumption.
    + intros b [Fb Lb']. cbn [tot].
      unfold dt_wf, all_premul. cbn [with_buf d_w d_h d_buf d_layers d_clips d_probe].
      repeat (split; [assumption|]). split; [lia|]. tauto.
Qed.
Print Assumptions step_op_total_partial.

(* the readings asked for.  1: an operation that does not rasterise, inside its preconditions, with a separable mode *)
Definition op_separable (st : dt) (o : op) : Prop :=
  match op_mode st o with Some m => In m separable_modes | None => True end.

Lemma opt_mode_err_sep st o e : op_separable st o -> ~ opt_mode_err (op_mode st o) e.
Proof.
  unfold op_separable. destruct (op_mode st o) as [m|]; cbn [opt_mode_err]; [apply mode_err_sep|tauto].
Qed.

Corollary step_op_total_no_raster st o : dt_wf st -> op_in_range st o -> op_no_raster st o = true -> op_separable st o ->
  exists st', step_op st o = Ok st' /\ dt_wf st'.
Proof.
  intros W Hr Hn Hs. apply (tot_ok (opt_mode_err (op_mode st o))); [intros e; apply opt_mode_err_sep; exact Hs|].
  apply step_op_total_partial; [exact W|exact Hr|apply op_no_raster_ok; exact Hn].
Qed.

(* 2: any blend mode: the only possible errors are the two dependency errors *)
Corollary step_op_total_any_mode st o : dt_wf st -> op_in_range st o -> op_raster_ok st o ->
  (exists st', step_op st o = Ok st' /\ dt_wf st') \/ step_op st o = Err PixelOverflow \/ step_op st o = Err DebugAssert.
Proof.
  intros W Hr Hz. destruct (tot_cases _ _ _ (step_op_total_partial st o W Hr Hz)) as [H|(e & E & He)]; [left; exact H|].
  destruct (op_mode st o); cbn [opt_mode_err] in He; [|contradiction]. destruct He as (_ & [->| ->]); auto.
Qed.

(* 3: an operation that rasterises, assuming its rasteriser run returns Ok, with a separable mode *)
Corollary step_op_total_given_raster st o : dt_wf st -> op_in_range st o -> op_raster_ok st o -> op_separable st o ->
  exists st', step_op st o = Ok st' /\ dt_wf st'.
Proof.
  intros W Hr Hz Hs. apply (tot_ok (opt_mode_err (op_mode st o))); [intros e; apply opt_mode_err_sep; exact Hs|].
  apply step_op_total_partial; assumption.
Qed.
Print Assumptions step_op_total_no_raster.

(* ================================================================== *)
(** * 11. Sequences of operations                                      *)
(* ================================================================== *)

(* every operation of the sequence is inside its preconditions in the state it is applied to (and, when it
   rasterises, its rasteriser run returns); strict: every blend mode used is one of the 24 separable ones *)
Fixpoint run_ok (strict : bool) (st : dt) (ops : list op) : Prop :=
  match ops with
  | [] => True
  | o :: t => op_in_range st o /\ op_raster_ok st o /\ (strict = true -> op_separable st o) /\
              forall st', step_op st o = Ok st' -> run_ok strict st' t
  end.

Definition run_err (strict : bool) (e : err) : Prop := strict = false /\ dep_err e.

Theorem run_ops_total_partial strict ops : forall st g, dt_wf st -> clip_inv st g -> run_ok strict st ops ->
  tot (run_err strict) (fun st' => dt_wf st' /\ exists g', clip_inv st' g') (run_ops st ops).
Proof.
  induction ops as [|o t IH]; intros st g W Hg Hok; cbn [run_ops].
  - cbn. split; [exact W|exists g; exact Hg].
  - destruct Hok as (Hr & Hz & Hs & Hnext).
    pose proof (step_op_total_partial st o W Hr Hz) as T.
    destruct (step_op st o) as [st1|e] eqn:E1; cbn [tot bind] in *.
    + destruct (dt_wf_premul st W) as (Hp & _).
      destruct (clip_inv_step st o st1 g Hp Hg E1) as (g1 & _ & Hg1).
      exact (IH st1 g1 T Hg1 (Hnext st1 eq_refl)).
    + unfold run_err. destruct strict.
      * exfalso. exact (opt_mode_err_sep st o e (Hs eq_refl) T).
      * split; [reflexivity|]. destruct (op_mode st o); cbn [opt_mode_err] in T; [apply T|contradiction].
Qed.
Print Assumptions run_ops_total_partial.

(* C07 for whole programs, from a fresh target *)
Theorem run_ops_total_fresh strict w h buf ops :
  0 <= w <= i32_max -> 0 <= h <= i32_max -> w * h <= i32_max -> zlen buf = w * h -> Forall px_ok buf ->
  run_ok strict (dt_new w h buf) ops ->
  match run_ops (dt_new w h buf) ops with
  | Ok st' => dt_wf st' /\ all_premul st' /\ exists g, clip_inv st' g
  | Err e => strict = false /\ (e = PixelOverflow \/ e = DebugAssert)
  end.
Proof.
  intros Hw Hh Hwh Hl Hb Hok.
  pose proof (run_ops_total_partial strict ops (dt_new w h buf) [] (dt_new_wf w h buf Hw Hh Hwh Hl Hb) (clip_inv_fresh w h buf) Hok) as T.
  destruct (run_ops (dt_new w h buf) ops) as [st'|e]; cbn [tot] in T.
  - destruct T as [W G]. split; [exact W|]. split; [apply dt_wf_premul; exact W|exact G].
  - exact T.
Qed.
Print Assumptions run_ops_total_fresh.

(* ================================================================== *)
(** * 12. A state-independent criterion for programs that never rasterise *)
(* ================================================================== *)

(* Programs built from set_transform, push_clip_rect, pop_clip, push_layer, pop_layer, clear (outside any clip),
   mask, the three surface calls, and fill_rect / draw_image on the integer fast path.  The check follows the stack
   of open layers' blend modes, the clip depth and the current transform; pop_layer on an empty layer stack is
   excluded. *)
Fixpoint static_ok (strict : bool) (lm : list mode) (nc : nat) (t : xform) (ops : list op) : Prop :=
  match ops with
  | [] => True
  | o :: rest =>
      match o with
      | OpSetTransform t' => static_ok strict lm nc t' rest
      | OpPushClipRect _ => static_ok strict lm (S nc) t rest
      | OpPopClip => static_ok strict lm (pred nc) t rest
      | OpPushLayer _ m => static_ok strict (m :: lm) nc t rest
      | OpPopLayer =>
          match lm with
          | [] => False
          | m :: lm' => (strict = true -> In m separable_modes) /\ static_ok strict lm' nc t rest
          end
      | OpClear c => px_ok c /\ nc = O /\ static_ok strict lm nc t rest
      | OpMask s x y mw mh data => mask_range s mw mh data /\ static_ok strict lm nc t rest
      | OpSurface k sw sh sbuf sr dx dy =>
          surface_range k sw sh sbuf /\
          (strict = true -> match cs_mode k with Some m => In m separable_modes | None => True end) /\
          static_ok strict lm nc t rest
      | OpFillRect x y w h s d =>
          source_ok s /\ nc = O /\ xf_is_identity t && integer_rect x y w h = true /\
          (strict = true -> In (o_blend d) separable_modes) /\ static_ok strict lm nc t rest
      | OpDrawImageSize w h x y im d =>
          image_ok im /\ nc = O /\ xf_is_identity t && integer_rect x y w h = true /\
          (strict = true -> In (o_blend d) separable_modes) /\ static_ok strict lm nc t rest
      | OpDrawImageAt x y im d =>
          image_ok im /\ nc = O /\
          xf_is_identity t && integer_rect x y (of_int (i_w im)) (of_int (i_h im)) = true /\
          (strict = true -> In (o_blend d) separable_modes) /\ static_ok strict lm nc t rest
      | _ => False
      end
  end.

Lemma set_dest_blends st b : map l_blend (d_layers (set_dest st b)) = map l_blend (d_layers st).
Proof. unfold set_dest. destruct (d_layers st) as [|l t] eqn:E; cbn; rewrite ?E; reflexivity. Qed.

Lemma effect_abs st st' : d_probe st = 0 -> effect st st' ->
  d_ctm st' = d_ctm st /\ d_clips st' = d_clips st /\ map l_blend (d_layers st') = map l_blend (d_layers st).
Proof.
  intros Hp [V|c Hc E|st1 st2 t1 src mask mr rect0 blend alpha V1 C V2].
  - destruct V as (_ & _ & _ & A & B & C & _). rewrite A, B, C. auto.
  - subst st'. destruct (set_dest_other st (map (fun _ => c) (fst (dest_of st)))) as (_ & _ & A & B & _).
    rewrite A, B, set_dest_blends. auto.
  - destruct V1 as (_ & _ & _ & A1 & B1 & _ & P1). cbn [with_ctm d_clips d_layers d_probe] in *.
    assert (Hp1 : d_probe st1 = 0) by congruence.
    destruct (composite_is_set_dest _ _ _ _ _ _ _ _ Hp1 C) as (d & -> & _).
    destruct V2 as (_ & _ & _ & A2 & B2 & C2 & _). cbn [with_ctm d_clips d_layers d_ctm] in *.
    destruct (set_dest_other st1 d) as (_ & _ & A & _).
    rewrite C2, A2, B2, A, set_dest_blends, A1, B1. auto.
Qed.

Lemma pop_layer_abs st st' : d_probe st = 0 -> pop_layer st = Ok st' ->
  d_ctm st' = d_ctm st /\ d_clips st' = d_clips st /\ map l_blend (d_layers st') = tl (map l_blend (d_layers st)).
Proof.
  intros Hp E. destruct (pop_layer_is_one_composite _ _ E) as (l & rest & st2 & Hl & Hc & ->).
  destruct (composite_is_set_dest (with_ctm (with_layers st rest) xf_identity) _ _ _ _ _ _ _ Hp Hc) as (d & -> & _).
  destruct (set_dest_other (with_ctm (with_layers st rest) xf_identity) d) as (_ & _ & A & _).
  cbn [with_ctm d_ctm d_clips d_layers]. rewrite A, set_dest_blends, Hl. cbn. auto.
Qed.

Lemma fast_route_static st x y w h :
  xf_is_identity (d_ctm st) && integer_rect x y w h = true -> length (d_clips st) = O -> fast_route st x y w h = true.
Proof. intros H1 H2. unfold fast_route. rewrite H1. destruct (d_clips st); [reflexivity|discriminate]. Qed.

Theorem static_run_ok strict ops : forall st, d_probe st = 0 ->
  static_ok strict (map l_blend (d_layers st)) (length (d_clips st)) (d_ctm st) ops -> run_ok strict st ops.
Proof.
  induction ops as [|o rest IH]; intros st Hp Hs; [exact I|].
  assert (Next : forall st', step_op st (o) = Ok st' -> d_probe st' = 0) by (intros st' E; exact (step_probe st o st' Hp E)).
  assert (Draw : drawing_op o = true -> forall st', step_op st o = Ok st' ->
                 static_ok strict (map l_blend (d_layers st)) (length (d_clips st)) (d_ctm st) rest -> run_ok strict st' rest).
  { intros Hd st' E Hrest. destruct (effect_abs st st' Hp (drawing_op_effect st o st' Hd E)) as (A & B & C).
    apply IH; [exact (Next st' E)|]. rewrite A, B, C. exact Hrest. }
  destruct o; cbn [static_ok] in Hs; try contradiction; cbn [run_ok op_in_range op_raster_ok].
  - (* set_transform *) repeat (split; [exact I|]). split; [intros _; exact I|].
    intros st' E. cbn [step_op] in E. inversion E; subst. apply IH; [exact Hp|exact Hs].
  - (* push_clip_rect *) repeat (split; [exact I|]). split; [intros _; exact I|].
    intros st' E. cbn [step_op] in E. inversion E; subst. apply IH; [exact Hp|exact Hs].
  - (* pop_clip *) repeat (split; [exact I|]). split; [intros _; exact I|].
    intros st' E. cbn [step_op] in E. inversion E; subst. apply IH; [exact Hp|].
    unfold pop_clip. cbn [with_clips d_layers d_clips d_ctm]. destruct (d_clips st); exact Hs.
  - (* push_layer *) repeat (split; [exact I|]). split; [intros _; exact I|].
    intros st' E. cbn [step_op] in E. inversion E; subst. apply IH; [exact Hp|exact Hs].
  - (* pop_layer *) destruct (map l_blend (d_layers st)) as [|m lm'] eqn:El; [contradiction|]. destruct Hs as [Hm Hs].
    split; [intros H0; rewrite H0 in El; discriminate|]. split; [exact I|]. split.
    + intros Hst. specialize (Hm Hst). unfold op_separable, op_mode, top_layer_blend.
      destruct (d_layers st) as [|l t]; [discriminate|]. cbn [map] in El. inversion El; subst m. exact Hm.
    + intros st' E. cbn [step_op] in E. destruct (pop_layer_abs st st' Hp E) as (A & B & C).
      apply IH; [exact (Next st' E)|]. rewrite A, B, C, El. exact Hs.
  - (* fill_rect, fast path *) destruct Hs as (H1 & H2 & H3 & H5 & H6).
    pose proof (fast_route_static st x y w h H3 H2) as Hf.
    split; [exact H1|]. split; [intros H0; congruence|]. split; [exact H5|].
    intros st' E. exact (Draw eq_refl st' E H6).
  - (* clear, no clip *) destruct Hs as (H1 & H2 & H3).
    split; [exact H1|]. split; [intros H0; destruct (d_clips st); [congruence|discriminate]|]. split; [intros _; exact I|].
    intros st' E. exact (Draw eq_refl st' E H3).
  - (* mask *) destruct Hs as (H1 & H2).
    split; [exact H1|]. split; [exact I|]. split; [intros _; exact I|].
    intros st' E. exact (Draw eq_refl st' E H2).
  - (* draw_image_at, fast path *) destruct Hs as (H1 & H2 & H3 & H5 & H6).
    pose proof (fast_route_static st x y _ _ H3 H2) as Hf.
    split; [exact H1|]. split; [intros H0; congruence|]. split; [exact H5|].
    intros st' E. exact (Draw eq_refl st' E H6).
  - (* draw_image_with_size_at, fast path *) destruct Hs as (H1 & H2 & H3 & H5 & H6).
    pose proof (fast_route_static st x y w h H3 H2) as Hf.
    split; [exact H1|]. split; [intros H0; congruence|]. split; [exact H5|].
    intros st' E. exact (Draw eq_refl st' E H6).
  - (* surface ops *) destruct Hs as (H1 & H2 & H3).
    split; [exact H1|]. split; [exact I|]. split; [exact H2|].
    intros st' E. cbn [step_op] in E. destruct (surface_op _ _ _ _ _ _ _ _ _ _) as [b|]; [|discriminate]. cbn [bind] in E.
    inversion E; subst. apply IH; [exact Hp|exact H3].
Qed.

(* C07 for programs that never reach the rasteriser, from a fresh target: with separable modes only (strict = true)
   the run returns Ok and the result is well formed; otherwise the only possible errors are the dependency's *)
Theorem run_ops_total_static strict w h buf ops :
  0 <= w <= i32_max -> 0 <= h <= i32_max -> w * h <= i32_max -> zlen buf = w * h -> Forall px_ok buf ->
  static_ok strict [] O xf_identity ops ->
  match run_ops (dt_new w h buf) ops with
  | Ok st' => dt_wf st' /\ all_premul st' /\ exists g, clip_inv st' g
  | Err e => strict = false /\ (e = PixelOverflow \/ e = DebugAssert)
  end.
Proof.
  intros Hw Hh Hwh Hl Hb Hs. apply run_ops_total_fresh; try assumption.
  apply static_run_ok; [reflexivity|exact Hs].
Qed.
Print Assumptions run_ops_total_static.

(* ================================================================== *)
(** * 13. Image reads stay inside the image's data                     *)
(* ================================================================== *)

(* `shade` is a total function in the model (a read outside `i_data` yields 0 where the crate's slice index would
   panic), so composite_total needs no size hypothesis on an image source.  The documented precondition
   (non-empty image, data.len() = width * height) is what keeps the crate's reads in range: under it every
   pixel fetch of the model is an in-range read, so the silent default is never used. *)
Definition image_wf (im : image) : Prop := 0 < i_w im /\ 0 < i_h im /\ zlen (i_data im) = i_w im * i_h im.
Definition in_img (im : image) (x y : Z) : Prop :=
  0 <= x < i_w im /\ 0 <= y < i_h im /\ 0 <= y * i_w im + x < zlen (i_data im).

Lemma in_img_intro im x y : image_wf im -> 0 <= x < i_w im -> 0 <= y < i_h im -> in_img im x y.
Proof.
  intros (Hw & Hh & Hl) Hx Hy. split; [exact Hx|]. split; [exact Hy|]. rewrite Hl.
  pose proof (row_bounds y (i_h im) (i_w im) Hy ltac:(lia)) as [A B].
  assert (i_w im * i_h im = i_h im * i_w im) by ring. lia.
Qed.

Theorem pad_fetch_in_range im x y : image_wf im -> exists x' y', pad_fetch im x y = img_at im x' y' /\ in_img im x' y'.
Proof.
  intros W. pose proof W as (Hw & Hh & _). rewrite (MiscProofs.pad_fetch_clamps im x y Hw Hh).
  eexists. eexists. split; [reflexivity|]. apply in_img_intro; [exact W|lia|lia].
Qed.

Theorem repeat_fetch_in_range im x y : image_wf im -> exists x' y', repeat_fetch im x y = img_at im x' y' /\ in_img im x' y'.
Proof.
  intros W. pose proof W as (Hw & Hh & _). rewrite (MiscProofs.repeat_fetch_wraps im x y Hw Hh).
  eexists. eexists. split; [reflexivity|].
  apply in_img_intro; [exact W|apply Z.mod_pos_bound; lia|apply Z.mod_pos_bound; lia].
Qed.

Theorem image_offset_shade_in_range im e ox oy a x y : image_wf im ->
  exists x' y', shade (ShImageOffset im e ox oy a) x y = alpha_mul (img_at im x' y') a /\ in_img im x' y'.
Proof.
  intros W. pose proof W as (Hw & Hh & _). destruct e; cbn [shade]; eexists; eexists; (split; [reflexivity|]).
  - apply in_img_intro; [exact W| |]; unfold clampi.
    + destruct (x + ox <? 0) eqn:E1; [lia|]. destruct (i_w im - 1 <? x + ox) eqn:E2; lia.
    + destruct (y + oy <? 0) eqn:E1; [lia|]. destruct (i_h im - 1 <? y + oy) eqn:E2; lia.
  - apply in_img_intro; [exact W|apply Z.mod_pos_bound; lia|apply Z.mod_pos_bound; lia].
Qed.

(* ================================================================== *)
(** * 14. The former overflow witnesses now return Ok                  *)
(* ================================================================== *)

(* In the previous model (unchecked i32 additions in fill_rect, mask and composite_surface) these five calls returned
   Err Overflow, and the crate panicked / painted wrong pixels (see NOTES.md).  After the repairs (saturating_add for
   the far corner, i64 clipping in composite_surface) they return Ok and draw nothing, as they should: every one of
   them addresses pixels far outside the 4 x 4 target. *)
Definition w_st : dt := dt_new 4 4 (repeat 0 16%nat).
Definition w_red : Z := 4294901760.
Definition w_opts : draw_options := mk_opts SrcOver f1 true.

Example w_st_wf : dt_wf w_st.
Proof.
  apply dt_new_wf; try (unfold i32_max; lia); [reflexivity|]. apply repeat_Forall. apply px_ok_0.
Qed.

(* fill_rect(2e9, 0, 2e9, 1): returns, and the buffer is unchanged (the release build used to paint row 0) *)
Example fixed_fill_rect_far_right :
  match step_op w_st (OpFillRect (of_int 2000000000) f0 (of_int 2000000000) f1 (Solid w_red) w_opts) with
  | Ok st' => d_buf st' = d_buf w_st
  | Err _ => False
  end.
Proof. vm_compute. reflexivity. Qed.
(* draw_image_at(2147483520.0, 0, 1000 x 1 image) *)
Example fixed_draw_image_far_right :
  match step_op w_st (OpDrawImageAt (of_int 2147483520) f0 (mk_image 1000 1 (repeat w_red 1000%nat)) w_opts) with
  | Ok st' => d_buf st' = d_buf w_st
  | Err _ => False
  end.
Proof. vm_compute. reflexivity. Qed.
(* mask(src, i32::MAX, 0, 1 x 1 mask) *)
Example fixed_mask_at_i32_max :
  match step_op w_st (OpMask (Solid w_red) 2147483647 0 1 1 [255]) with
  | Ok st' => d_buf st' = d_buf w_st
  | Err _ => False
  end.
Proof. vm_compute. reflexivity. Qed.
(* copy_surface(1 x 1 source, src_rect (-1,0)-(1,1), dst (i32::MAX, 0)) *)
Example fixed_copy_surface_far_right :
  match step_op w_st (OpSurface CsCopy 1 1 [w_red] (mkrect (-1) 0 1 1) 2147483647 0) with
  | Ok st' => d_buf st' = d_buf w_st
  | Err _ => False
  end.
Proof. vm_compute. reflexivity. Qed.
(* copy_surface(10 x 1 source, src_rect (-1073741823,0)-(10,1), dst (1073741823, 0)) *)
Example fixed_copy_surface_big_offset :
  match step_op w_st (OpSurface CsCopy 10 1 (repeat w_red 10%nat) (mkrect (-1073741823) 0 10 1) 1073741823 0) with
  | Ok st' => d_buf st' = d_buf w_st
  | Err _ => False
  end.
Proof. vm_compute. reflexivity. Qed.
(* the remaining data-length hypothesis of mask is necessary: a 2 x 2 mask with 3 bytes of data is an index panic *)
Example witness_mask_short_data : step_op w_st (OpMask (Solid w_red) 0 0 2 2 [255; 255; 255]) = Err OutOfBounds.
Proof. vm_compute. reflexivity. Qed.
(* so is the data length of a source surface: 2 x 2 with 3 pixels *)
Example witness_surface_short_data :
  step_op w_st (OpSurface CsCopy 2 2 [w_red; w_red; w_red] (mkrect 0 0 2 2) 0 0) = Err OutOfBounds.
Proof. vm_compute. reflexivity. Qed.
(* documented exclusions behave as documented: pop_layer without push_layer is the crate's unwrap of None;
   pop_clip on an empty stack is harmless (Vec::pop) *)
Example pop_layer_empty : step_op w_st OpPopLayer = Err Unwrap.
Proof. vm_compute. reflexivity. Qed.
Example pop_clip_empty : is_ok (step_op w_st OpPopClip) = true.
Proof. vm_compute. reflexivity. Qed.

(* non-vacuity of the static criterion: a small program with a layer, a clip rectangle, a fast-path fill_rect,
   a mask and a blend_surface satisfies it, hence runs to a well-formed target *)
Definition w_prog : list op :=
  [OpPushLayer fhalf Multiply;
   OpFillRect f1 f1 (of_int 2) (of_int 2) (Solid w_red) (mk_opts Xor fhalf false);
   OpMask (Solid w_red) 1 1 2 1 [255; 7];
   OpPushClipRect (mkrect 1 0 3 9);
   OpSetTransform (xf_translation f1 f1);
   OpPopLayer;
   OpPopClip;
   OpSurface (CsBlend Screen) 2 2 [w_red; 0; 0; w_red] (mkrect (-1) (-1) 5 5) 3 3;
   OpClear w_red].

Lemma w_red_ok : px_ok w_red.
Proof. split; [unfold wf_px, w_red; lia|reflexivity]. Qed.

Example w_prog_static : static_ok true [] O xf_identity w_prog.
Proof.
  unfold w_prog. cbn [static_ok]. pose proof w_red_ok as R.
  split; [exact R|]. split; [reflexivity|]. split; [vm_compute; reflexivity|].
  split; [intros _; unfold separable_modes; cbn [In o_blend]; tauto|].
  split.
  { unfold mask_range. split; [exact R|]. split; [constructor; [unfold byte; lia|]; constructor; [unfold byte; lia|constructor]|].
    intros _ _. unfold zlen. cbn [length]. lia. }
  split; [intros _; unfold separable_modes; cbn [In]; tauto|].
  split.
  { unfold surface_range. cbn [cs_kind_ok].
    split; [exact I|].
    split; [constructor; [exact R|]; constructor; [apply px_ok_0|]; constructor; [apply px_ok_0|]; constructor; [exact R|constructor]|].
    reflexivity. }
  split; [intros _; cbn [cs_mode]; unfold separable_modes; cbn [In]; tauto|].
  split; [exact R|]. split; reflexivity.
Qed.

Example w_prog_runs : exists st', run_ops w_st w_prog = Ok st' /\ dt_wf st'.
Proof.
  pose proof (run_ops_total_static true 4 4 (repeat 0 16%nat) w_prog) as T.
  specialize (T ltac:(unfold i32_max; lia) ltac:(unfold i32_max; lia) ltac:(unfold i32_max; lia) eq_refl
                (repeat_Forall px_ok 0 16 px_ok_0) w_prog_static).
  fold w_st in T. destruct (run_ops w_st w_prog) as [st'|e]; [exists st'; split; [reflexivity|apply T]|].
  destruct T as [T _]. discriminate.
Qed.

Print Assumptions dt_new_wf.
Print Assumptions blend_err_class.
Print Assumptions push_clip_total.
Print Assumptions step_op_total_any_mode.
Print Assumptions static_run_ok.
Print Assumptions image_offset_shade_in_range.
Print Assumptions fixed_fill_rect_far_right.
Print Assumptions w_prog_runs.
