(* UserSpace: C11 "one user space" and C14 corollaries.
   Part A: the identity transform is transparent for the rasteriser (it can only turn -0 into +0, which no consumer
           sees); apply_path of a pre-transformed path under the identity feeds the rasteriser the same edges.
   Part B: states composite cannot tell apart; fill under T = fill of the transformed path under the identity (solid
           source, invertible T): C11.
   Part C: rectangles of either orientation (negative width / height) have full coverage; fill_rect's two routes.
   Part D: the float side (Flocq) and the C14 corollaries: negative sizes, covering clip rectangle, clear. *)
From Flocq Require Import Core IEEE754.BinarySingleNaN IEEE754.Binary IEEE754.Bits.
Import Flocq.IEEE754.Binary.
Require Import RQ.Base RQ.F32 RQ.Rect RQ.Pixel RQ.PixelProofs RQ.Surface RQ.Raster RQ.RasterProofs RQ.PathF RQ.PathOps
  RQ.Shader RQ.Target RQ.SurfaceProofs RQ.TargetProofs RQ.PixelCorollaries RQ.OpsProofs RQ.PremulDraw RQ.FillProofs
  RQ.RasterTotal RQ.TotalProofs RQ.IdleProofs RQ.RasterGlue.
From Coq Require Import Reals Lia ZifyBool.
Ltac Zify.zify_post_hook ::= Z.to_euclidean_division_equations.

(* ===== Part A: the identity transform and the sign of zero ===== *)


Definition fzero (s : bool) : f32 := B754_zero 24 128 s.
(* equal, or two zeros (of any signs) *)
Definition zsim (a b : f32) : Prop := a = b \/ exists s s', a = fzero s /\ b = fzero s'.

Lemma zsim_refl a : zsim a a.  Proof. left; reflexivity. Qed.
Lemma zsim_sym a b : zsim a b -> zsim b a.
Proof. intros [->|(s & s' & -> & ->)]; [left; reflexivity|right; eauto]. Qed.
Lemma zsim_trans a b c : zsim a b -> zsim b c -> zsim a c.
Proof.
  intros [E1|(s & s' & E1 & E2)] [E3|(t & t' & E3 & E4)].
  - left; congruence.
  - right. exists t, t'. split; congruence.
  - right. exists s, s'. split; congruence.
  - right. exists s, t'. split; congruence.
Qed.

Ltac zfin := first [ left; reflexivity | right; do 2 eexists; split; reflexivity ].

Lemma fneg_z a a' : zsim a a' -> zsim (fneg a) (fneg a').
Proof. intros [->|(s & s' & -> & ->)]; [left; reflexivity|]. right. exists (negb s), (negb s'). split; reflexivity. Qed.
Lemma fabs_z a a' : zsim a a' -> zsim (fabs a) (fabs a').
Proof. intros [->|(s & s' & -> & ->)]; [left; reflexivity|]. right. exists false, false. split; reflexivity. Qed.

Lemma fadd_z a a' b b' : zsim a a' -> zsim b b' -> zsim (fadd a b) (fadd a' b').
Proof.
  intros [->|(s & s' & -> & ->)] [->|(t & t' & -> & ->)].
  - left; reflexivity.
  - destruct a' as [sa|sa|sa pl e|sa m e H]; try zfin. destruct sa, t, t'; zfin.
  - destruct b' as [sa|sa|sa pl e|sa m e H]; try zfin. destruct sa, s, s'; zfin.
  - destruct s, s', t, t'; zfin.
Qed.

Lemma fsub_z a a' b b' : zsim a a' -> zsim b b' -> zsim (fsub a b) (fsub a' b').
Proof.
  intros [->|(s & s' & -> & ->)] [->|(t & t' & -> & ->)].
  - left; reflexivity.
  - destruct a' as [sa|sa|sa pl e|sa m e H]; try zfin. destruct sa, t, t'; zfin.
  - destruct b' as [sa|sa|sa pl e|sa m e H]; try zfin. destruct sa, s, s'; zfin.
  - destruct s, s', t, t'; zfin.
Qed.

Lemma fmul_z a a' b b' : zsim a a' -> zsim b b' -> zsim (fmul a b) (fmul a' b').
Proof.
  intros [->|(s & s' & -> & ->)] [->|(t & t' & -> & ->)].
  - left; reflexivity.
  - destruct a' as [sa|sa|sa pl e|sa m e H]; try zfin; destruct sa, t, t'; zfin.
  - destruct b' as [sa|sa|sa pl e|sa m e H]; try zfin; destruct sa, s, s'; zfin.
  - destruct s, s', t, t'; zfin.
Qed.

(* division: same divisor (a zero dividend divided by anything does not depend on its sign, up to zsim) *)
Lemma fdiv_z a a' b : zsim a a' -> zsim (fdiv a b) (fdiv a' b).
Proof.
  intros [->|(s & s' & -> & ->)]; [left; reflexivity|].
  destruct b as [sa|sa|sa pl e|sa m e H]; zfin.
Qed.

Lemma fcmp_z a a' b b' : zsim a a' -> zsim b b' -> fcmp a b = fcmp a' b'.
Proof.
  intros [->|(s & s' & -> & ->)] [->|(t & t' & -> & ->)].
  - reflexivity.
  - destruct a' as [sa|sa|sa pl e|sa m e H]; try reflexivity; destruct sa, t, t'; reflexivity.
  - destruct b' as [sa|sa|sa pl e|sa m e H]; try reflexivity; destruct sa, s, s'; reflexivity.
  - destruct s, s', t, t'; reflexivity.
Qed.
Lemma flt_z a a' b b' : zsim a a' -> zsim b b' -> flt a b = flt a' b'.
Proof. intros H1 H2. unfold flt. rewrite (fcmp_z _ _ _ _ H1 H2). reflexivity. Qed.
Lemma feq_z a a' b b' : zsim a a' -> zsim b b' -> feq a b = feq a' b'.
Proof. intros H1 H2. unfold feq. rewrite (fcmp_z _ _ _ _ H1 H2). reflexivity. Qed.
Lemma fge_z a a' b b' : zsim a a' -> zsim b b' -> fge a b = fge a' b'.
Proof. intros H1 H2. unfold fge. rewrite (fcmp_z _ _ _ _ H1 H2). reflexivity. Qed.
Lemma fis_nan_z a a' : zsim a a' -> fis_nan a = fis_nan a'.
Proof. intros [->|(s & s' & -> & ->)]; reflexivity. Qed.

Lemma to_i32_z a a' : zsim a a' -> to_i32 a = to_i32 a'.
Proof. intros [->|(s & s' & -> & ->)]; reflexivity. Qed.
Lemma f32_to_dot2_z a a' : zsim a a' -> f32_to_dot2 a = f32_to_dot2 a'.
Proof. intros H. unfold f32_to_dot2. apply to_i32_z. apply fmul_z; [exact H|apply zsim_refl]. Qed.

(* feq x f0 = true exactly identifies the zeros among... : a zero compares equal to f0 *)
Lemma feq_zero_f0 s : feq (fzero s) f0 = true.
Proof. destruct s; reflexivity. Qed.

(* ---- the identity transform on a finite point ---- *)
Lemma f0_is_zero : f0 = fzero false.
Proof. vm_compute. reflexivity. Qed.
Lemma f1_props : is_finite 24 128 f1 = true /\ B2R 24 128 f1 = 1%R /\ Bsign 24 128 f1 = false.
Proof.
  split; [vm_compute; reflexivity|]. split; [|vm_compute; reflexivity].
  unfold f1, of_int.
  pose proof (binary_normalize_correct 24 128 prec32 emax32 mode_NE 1 0 false) as H.
  assert (E : F2R (Float radix2 1 0) = 1%R) by (unfold F2R; cbn [Fnum Fexp bpow]; ring).
  rewrite E in H.
  assert (G : generic_format radix2 (SpecFloat.fexp 24 128) 1).
  { change (SpecFloat.fexp 24 128) with (FLT_exp (-149) 24). apply generic_format_FLT.
    apply (FLT_spec radix2 (-149) 24 1%R (Float radix2 1 0)); [exact (eq_sym E)|cbn; lia|cbn; lia]. }
  rewrite (round_generic radix2 _ (round_mode mode_NE) 1 G) in H.
  rewrite Rlt_bool_true in H.
  - exact (proj1 H).
  - rewrite Rabs_R1. change 1%R with (bpow radix2 0). apply bpow_lt. lia.
Qed.

Lemma fmul_one x : is_finite 24 128 x = true -> fmul x f1 = x.
Proof.
  intros Fx. destruct f1_props as (F1 & V1 & S1).
  pose proof (Bmult_correct 24 128 eq_refl eq_refl binop_nan_pl32 mode_NE x f1) as H.
  rewrite V1, Rmult_1_r in H.
  rewrite (round_generic radix2 _ (round_mode mode_NE) _ (generic_format_B2R 24 128 x)) in H.
  rewrite (Rlt_bool_true _ _ (abs_B2R_lt_emax 24 128 x)) in H.
  destruct H as (H1 & H2 & H3). rewrite Fx, F1 in H2. cbn [andb] in H2.
  unfold fmul, b32_mult. cbv zeta.
  apply B2R_Bsign_inj; [exact H2|exact Fx|exact H1|].
  rewrite H3; [rewrite S1; apply xorb_false_r|].
  destruct (Bmult 24 128 _ _ binop_nan_pl32 mode_NE x f1); try reflexivity; discriminate H2.
Qed.

Lemma fmul_zero x : is_finite 24 128 x = true -> exists s, fmul x f0 = fzero s.
Proof.
  intros Fx. rewrite f0_is_zero. destruct x as [sa|sa|sa pl e|sa m e H]; try discriminate Fx; eexists; reflexivity.
Qed.

Lemma fadd_zero_r x s : is_finite 24 128 x = true -> zsim (fadd x (fzero s)) x.
Proof. intros Fx. destruct x as [sa|sa|sa pl e|sa m e H]; try discriminate Fx; [destruct sa, s; zfin|zfin]. Qed.
Lemma fadd_zero_l x s : is_finite 24 128 x = true -> zsim (fadd (fzero s) x) x.
Proof. intros Fx. destruct x as [sa|sa|sa pl e|sa m e H]; try discriminate Fx; [destruct sa, s; zfin|zfin]. Qed.

Definition pt_finite (q : pt) : Prop := is_finite 24 128 (px q) = true /\ is_finite 24 128 (py q) = true.
Definition pz (p q : pt) : Prop := zsim (px p) (px q) /\ zsim (py p) (py q).
Lemma pz_refl p : pz p p.  Proof. split; apply zsim_refl. Qed.

(* the identity transform returns the point itself, except that a -0 coordinate may become +0 *)
Theorem xf_identity_transparent q : pt_finite q -> pz (xf_point xf_identity q) q.
Proof.
  intros [Fx Fy]. unfold xf_point, xf_identity. cbn [m11 m12 m21 m22 m31 m32 px py fst snd].
  destruct (fmul_zero (py q) Fy) as [s Es]. destruct (fmul_zero (px q) Fx) as [s' Es'].
  rewrite (fmul_one _ Fx), (fmul_one _ Fy), Es, Es'. rewrite f0_is_zero.
  split.
  - eapply zsim_trans; [apply fadd_z; [apply (fadd_zero_r _ _ Fx)|apply zsim_refl]|apply (fadd_zero_r _ _ Fx)].
  - eapply zsim_trans; [apply fadd_z; [apply (fadd_zero_l _ _ Fy)|apply zsim_refl]|apply (fadd_zero_r _ _ Fy)].
Qed.

Theorem xf_identity_dot2 q : pt_finite q ->
  f32_to_dot2 (px (xf_point xf_identity q)) = f32_to_dot2 (px q) /\
  f32_to_dot2 (py (xf_point xf_identity q)) = f32_to_dot2 (py q).
Proof. intros H. destruct (xf_identity_transparent q H) as [Hx Hy]. split; apply f32_to_dot2_z; assumption. Qed.

(* ---- geom.rs helpers under zsim ---- *)
Lemma is_not_monotonic_z a a' b b' c c' : zsim a a' -> zsim b b' -> zsim c c' ->
  is_not_monotonic a b c = is_not_monotonic a' b' c'.
Proof.
  intros Ha Hb Hc. unfold is_not_monotonic. cbv zeta.
  pose proof (fsub_z _ _ _ _ Ha Hb) as Hab. pose proof (fsub_z _ _ _ _ Hb Hc) as Hbc.
  rewrite (flt_z _ _ _ _ Hab (zsim_refl f0)), (feq_z _ _ _ _ Hab (zsim_refl f0)).
  f_equal. apply flt_z; [|apply zsim_refl].
  destruct (flt (fsub a' b') f0); [apply fneg_z|]; exact Hbc.
Qed.

Definition ozsim (a b : option f32) : Prop :=
  match a, b with Some x, Some y => zsim x y | None, None => True | _, _ => False end.

Lemma zsim_nonzero a a' : zsim a a' -> feq a f0 = false -> a = a'.
Proof. intros [E|(s & s' & -> & ->)] H; [exact E|]. rewrite feq_zero_f0 in H. discriminate H. Qed.

Lemma valid_unit_divide_z n n' d d' : zsim n n' -> zsim d d' ->
  ozsim (valid_unit_divide n d) (valid_unit_divide n' d').
Proof.
  intros Hn Hd. unfold valid_unit_divide.
  rewrite (flt_z _ _ _ _ Hn (zsim_refl f0)).
  set (nn := if flt n' f0 then fneg n else n). set (nn' := if flt n' f0 then fneg n' else n').
  set (dd := if flt n' f0 then fneg d else d). set (dd' := if flt n' f0 then fneg d' else d').
  assert (Hnn : zsim nn nn') by (unfold nn, nn'; destruct (flt n' f0); [apply fneg_z|]; exact Hn).
  assert (Hdd : zsim dd dd') by (unfold dd, dd'; destruct (flt n' f0); [apply fneg_z|]; exact Hd).
  replace (if flt n' f0 then (fneg n, fneg d) else (n, d)) with (nn, dd) by (unfold nn, dd; destruct (flt n' f0); reflexivity).
  replace (if flt n' f0 then (fneg n', fneg d') else (n', d')) with (nn', dd') by (unfold nn', dd'; destruct (flt n' f0); reflexivity).
  rewrite (feq_z _ _ _ _ Hdd (zsim_refl f0)), (feq_z _ _ _ _ Hnn (zsim_refl f0)), (fge_z _ _ _ _ Hnn Hdd).
  destruct (feq dd' f0) eqn:E1; [exact I|]. destruct (feq nn' f0) eqn:E2; [exact I|].
  cbn [orb]. destruct (fge nn' dd'); [exact I|].
  assert (dd = dd') by (apply zsim_nonzero; [exact Hdd|rewrite (feq_z _ _ _ _ Hdd (zsim_refl f0)); exact E1]).
  assert (nn = nn') by (apply zsim_nonzero; [exact Hnn|rewrite (feq_z _ _ _ _ Hnn (zsim_refl f0)); exact E2]).
  subst dd nn. rewrite H, H0.
  destruct (fis_nan (fdiv nn' dd')); [exact I|]. destruct (feq (fdiv nn' dd') f0); [exact I|]. apply zsim_refl.
Qed.

Lemma interp_z a a' b b' t t' : zsim a a' -> zsim b b' -> zsim t t' -> zsim (interp a b t) (interp a' b' t').
Proof. intros Ha Hb Ht. unfold interp. apply fadd_z; [exact Ha|]. apply fmul_z; [apply fsub_z; assumption|exact Ht]. Qed.

Definition pz5 (u v : pt * pt * pt * pt * pt) : Prop :=
  let '(a0, a1, a2, a3, a4) := u in let '(b0, b1, b2, b3, b4) := v in
  pz a0 b0 /\ pz a1 b1 /\ pz a2 b2 /\ pz a3 b3 /\ pz a4 b4.

Lemma chop_quad_z p0 p0' p1 p1' p2 p2' t t' : pz p0 p0' -> pz p1 p1' -> pz p2 p2' -> zsim t t' ->
  pz5 (chop_quad p0 p1 p2 t) (chop_quad p0' p1' p2' t').
Proof.
  intros [X0 Y0] [X1 Y1] [X2 Y2] Ht. unfold chop_quad, pz5. cbv zeta.
  assert (Habx := interp_z _ _ _ _ _ _ X0 X1 Ht). assert (Hbcx := interp_z _ _ _ _ _ _ X1 X2 Ht).
  assert (Haby := interp_z _ _ _ _ _ _ Y0 Y1 Ht). assert (Hbcy := interp_z _ _ _ _ _ _ Y1 Y2 Ht).
  assert (Hmx := interp_z _ _ _ _ _ _ Habx Hbcx Ht). assert (Hmy := interp_z _ _ _ _ _ _ Haby Hbcy Ht).
  repeat split; cbn [px py fst snd]; assumption.
Qed.


(* ---- the add_edge arguments of RasterGlue under pz ---- *)
Lemma edge_arg_z s s' e e' curve c c' : pz s s' -> pz e e' -> pz c c' ->
  edge_arg s e curve c = edge_arg s' e' curve c'.
Proof.
  intros [Sx Sy] [Ex Ey] [Cx Cy]. unfold edge_arg.
  rewrite (flt_z _ _ _ _ Ey Sy), (f32_to_dot2_z _ _ Sx), (f32_to_dot2_z _ _ Sy), (f32_to_dot2_z _ _ Ex),
          (f32_to_dot2_z _ _ Ey), (f32_to_dot2_z _ _ Cx), (f32_to_dot2_z _ _ Cy). reflexivity.
Qed.

Lemma quad_args_z p0 p0' p1 p1' p2 p2' : pz p0 p0' -> pz p1 p1' -> pz p2 p2' ->
  quad_args p0 p1 p2 = quad_args p0' p1' p2'.
Proof.
  intros H0 H1 H2. unfold quad_args. cbv zeta.
  destruct H0 as [X0 Y0]; destruct H1 as [X1 Y1]; destruct H2 as [X2 Y2].
  assert (H0 : pz p0 p0') by (split; assumption). assert (H1 : pz p1 p1') by (split; assumption).
  assert (H2 : pz p2 p2') by (split; assumption).
  rewrite (is_not_monotonic_z _ _ _ _ _ _ Y0 Y1 Y2).
  destruct (is_not_monotonic (py p0') (py p1') (py p2')); [|f_equal; apply edge_arg_z; assumption].
  pose proof (fsub_z _ _ _ _ Y0 Y1) as Hab.
  pose proof (valid_unit_divide_z _ _ _ _ Hab (fadd_z _ _ _ _ (fsub_z _ _ _ _ Hab Y1) Y2)) as Hv.
  destruct (valid_unit_divide (fsub (py p0) (py p1)) _) as [t|];
    destruct (valid_unit_divide (fsub (py p0') (py p1')) _) as [t'|]; cbn [ozsim] in Hv; try contradiction.
  - pose proof (chop_quad_z _ _ _ _ _ _ _ _ H0 H1 H2 Hv) as Hc.
    destruct (chop_quad p0 p1 p2 t) as [[[[d0 d1] d2] d3] d4].
    destruct (chop_quad p0' p1' p2' t') as [[[[e0 e1] e2] e3] e4].
    cbn [pz5] in Hc. destruct Hc as (C0 & C1 & C2 & C3 & C4).
    rewrite (edge_arg_z _ _ _ _ true _ _ C0 C2 C1), (edge_arg_z _ _ _ _ true _ _ C2 C4 C3). reflexivity.
  - rewrite (flt_z _ _ _ _ (fabs_z _ _ Hab) (fabs_z _ _ (fsub_z _ _ _ _ Y1 Y2))).
    f_equal. apply edge_arg_z; [exact H0|exact H2|].
    split; cbn [px py fst snd]; [exact X1|]. destruct (flt _ _); assumption.
Qed.

(* ---- path cursors and the list of add_edge calls ---- *)
Definition oz (a b : option pt) : Prop :=
  match a, b with Some p, Some q => pz p q | None, None => True | _, _ => False end.
Definition kz (k k' : pcur) : Prop := oz (fst k) (fst k') /\ oz (snd k) (snd k').
Definition same_step (r r' : pcur * list edge_args) : Prop := kz (fst r) (fst r') /\ snd r = snd r'.

Lemma a_close_z k k' : kz k k' -> same_step (a_close k) (a_close k').
Proof.
  intros [Hc Hf]. unfold a_close, same_step, kz. cbn [fst snd]. split; [split; exact Hf|].
  destruct (snd k) as [fp|], (snd k') as [fp'|]; cbn [oz] in Hf; try contradiction; try reflexivity.
  destruct (fst k) as [cp|], (fst k') as [cp'|]; cbn [oz] in Hc; try contradiction; try reflexivity.
  f_equal. apply edge_arg_z; [exact Hc|exact Hf|apply pz_refl].
Qed.
Lemma a_start_z k k' p p' : kz k k' -> pz p p' -> kz (a_start k p) (a_start k' p').
Proof.
  intros [Hc Hf] Hp. unfold a_start.
  destruct (fst k) as [cp|] eqn:E, (fst k') as [cp'|] eqn:E'; cbn [oz] in Hc; try contradiction.
  - split; [rewrite E, E'; exact Hc|exact Hf].
  - split; exact Hp.
Qed.
Lemma a_line_z k k' p p' : kz k k' -> pz p p' -> same_step (a_line k p) (a_line k' p').
Proof.
  intros Hk Hp. unfold a_line. cbv zeta. destruct (a_start_z k k' p p' Hk Hp) as [Hc Hf].
  destruct (fst (a_start k p)) as [cp|], (fst (a_start k' p')) as [cp'|]; cbn [oz] in Hc; try contradiction.
  - split; [split; [exact Hp|exact Hf]|]. cbn [snd]. f_equal. apply edge_arg_z; [exact Hc|exact Hp|apply pz_refl].
  - split; [split; [cbn [fst]|cbn [fst]; exact Hf]|reflexivity].
    destruct (a_start_z k k' p p' Hk Hp) as [Hc' _]. exact Hc'.
Qed.
Lemma a_quad_z k k' cp cp' p p' : kz k k' -> pz cp cp' -> pz p p' -> same_step (a_quad k cp p) (a_quad k' cp' p').
Proof.
  intros Hk Hcp Hp. unfold a_quad. cbv zeta. destruct (a_start_z k k' cp cp' Hk Hcp) as [Hc Hf].
  destruct (fst (a_start k cp)) as [c0|] eqn:E, (fst (a_start k' cp')) as [c0'|] eqn:E'; cbn [oz] in Hc; try contradiction.
  - split; [split; [exact Hp|exact Hf]|]. cbn [snd]. apply quad_args_z; assumption.
  - split; [split; [cbn [fst]; rewrite E, E'; exact I|cbn [fst]; exact Hf]|reflexivity].
Qed.
Lemma a_cubic_z k k' c1 c1' c2 c2' p p' quads : kz k k' -> pz c1 c1' -> pz p p' ->
  same_step (a_cubic k c1 c2 p quads) (a_cubic k' c1' c2' p' quads).
Proof.
  intros Hk Hc1 Hp. unfold a_cubic. cbv zeta. destruct (a_start_z k k' c1 c1' Hk Hc1) as [Hc Hf].
  destruct (fst (a_start k c1)) as [c0|] eqn:E, (fst (a_start k' c1')) as [c0'|] eqn:E'; cbn [oz] in Hc; try contradiction.
  - split; [split; [exact Hp|exact Hf]|reflexivity].
  - split; [split; [cbn [fst]; rewrite E, E'; exact I|cbn [fst]; exact Hf]|reflexivity].
Qed.

(* every point of the op, transformed by t, has finite coordinates *)
Definition op_finite (t : xform) (o : pathop) : Prop :=
  match o with
  | MoveTo p | LineTo p => pt_finite (xf_point t p)
  | QuadTo c p => pt_finite (xf_point t c) /\ pt_finite (xf_point t p)
  | CubicTo c1 c2 p _ => pt_finite (xf_point t c1) /\ pt_finite (xf_point t p)
  | Close => True
  end.
Definition path_finite (t : xform) (p : path) : Prop := Forall (op_finite t) (p_ops p).

Lemma a_op_z t k k' o : kz k' k -> op_finite t o ->
  same_step (a_op xf_identity k' (op_transform t o)) (a_op t k o).
Proof.
  intros Hk Hfin. destruct o as [p|p|c p|c1 c2 p quads|]; cbn [op_transform a_op op_finite] in *.
  - destruct (a_close_z k' k Hk) as [H1 H2]. destruct (a_close k') as [k1' l1']. destruct (a_close k) as [k1 l1].
    cbn [fst snd] in *. unfold a_move. split; cbn [fst snd].
    + split; cbn [fst snd oz]; apply xf_identity_transparent; exact Hfin.
    + rewrite H2. reflexivity.
  - apply a_line_z; [exact Hk|apply xf_identity_transparent; exact Hfin].
  - destruct Hfin as [F1 F2]. apply a_quad_z; [exact Hk|apply xf_identity_transparent; exact F1|apply xf_identity_transparent; exact F2].
  - destruct Hfin as [F1 F2]. apply a_cubic_z; [exact Hk|apply xf_identity_transparent; exact F1|apply xf_identity_transparent; exact F2].
  - apply a_close_z; exact Hk.
Qed.

Lemma a_ops_z t ops : forall k k', kz k' k -> Forall (op_finite t) ops ->
  same_step (a_ops xf_identity k' (map (op_transform t) ops)) (a_ops t k ops).
Proof.
  induction ops as [|o r IH]; intros k k' Hk Hfin; cbn [map a_ops].
  - split; [exact Hk|reflexivity].
  - inversion Hfin as [|? ? Ho Hr]; subst.
    destruct (a_op_z t k k' o Hk Ho) as [H1 H2].
    destruct (a_op xf_identity k' (op_transform t o)) as [k1' l1']. destruct (a_op t k o) as [k1 l1]. cbn [fst snd] in *.
    destruct (IH k1 k1' H1 Hr) as [H3 H4].
    destruct (a_ops xf_identity k1' (map (op_transform t) r)) as [k2' l2']. destruct (a_ops t k1 r) as [k2 l2]. cbn [fst snd] in *.
    split; [exact H3|]. cbn [snd]. rewrite H2, H4. reflexivity.
Qed.

Theorem path_args_pretransformed t p : path_finite t p ->
  path_args xf_identity (path_transform t p) = path_args t p.
Proof.
  intros Hfin. unfold path_args, path_transform. cbn [p_ops].
  assert (H0 : kz (None, None) (None, None)) by (split; exact I).
  destruct (a_ops_z t (p_ops p) _ _ H0 Hfin) as [H1 H2].
  destruct (a_ops xf_identity (None, None) (map (op_transform t) (p_ops p))) as [k' l'].
  destruct (a_ops t (None, None) (p_ops p)) as [k l]. cbn [fst snd] in *.
  destruct (a_close_z k' k H1) as [_ H3]. rewrite H2, H3. reflexivity.
Qed.

(* C11 core: the rasteriser receives the same edges *)
Theorem apply_path_pretransformed h t c p : path_finite t p ->
  rz (apply_path h xf_identity c (path_transform t p)) = rz (apply_path h t c p).
Proof.
  intros Hfin. destruct (Z.eq_dec h 0) as [->|Hh].
  - rewrite !apply_path_h0. reflexivity.
  - rewrite !apply_path_is_adds by exact Hh. rewrite (path_args_pretransformed t p Hfin). reflexivity.
Qed.
Print Assumptions apply_path_pretransformed.

(* ===== Part B ===== *)


(* ===== states that composite cannot tell apart ===== *)
(* same size, pixels, layers, probe, clip rectangle and clip mask; the transform, the cursor and the rest of the
   clip stack may differ *)
Definition csim (a b : dt) : Prop :=
  d_w b = d_w a /\ d_h b = d_h a /\ d_buf b = d_buf a /\ d_layers b = d_layers a /\ d_probe b = d_probe a /\
  clip_bounds b = clip_bounds a /\ top_clip_mask b = top_clip_mask a.
Lemma csim_refl a : csim a a.  Proof. repeat split. Qed.
Lemma csim_sym a b : csim a b -> csim b a.
Proof. intros (A & B & C & D & E & F & G). repeat split; congruence. Qed.
Lemma csim_trans a b c : csim a b -> csim b c -> csim a c.
Proof. intros (A & B & C & D & E & F & G) (A' & B' & C' & D' & E' & F' & G'). repeat split; congruence. Qed.

(* the shader composite builds is the same on both sides (or the transform is singular on both sides) *)
Definition same_shader (a b : dt) (src : source) (alpha : f32) : Prop :=
  match xf_inverse (d_ctm a), xf_inverse (d_ctm b) with
  | Some ta, Some tb => choose_shader ta src alpha = choose_shader tb src alpha
  | None, None => True
  | _, _ => False
  end.

Lemma same_shader_same_ctm a b src alpha : d_ctm b = d_ctm a -> same_shader a b src alpha.
Proof. intros E. unfold same_shader. rewrite E. destruct (xf_inverse (d_ctm a)); reflexivity. Qed.
Lemma same_shader_solid a b c alpha ta tb : xf_inverse (d_ctm a) = Some ta -> xf_inverse (d_ctm b) = Some tb ->
  same_shader a b (Solid c) alpha.
Proof. intros Ea Eb. unfold same_shader. rewrite Ea, Eb. reflexivity. Qed.

Lemma csim_dest a b : csim a b -> dest_of b = dest_of a.
Proof.
  intros (A & B & C & D & E & F & G). unfold dest_of, surface_rect. rewrite A, B, C, D. reflexivity.
Qed.

Lemma clip_bounds_set_dest st d : clip_bounds (set_dest st d) = clip_bounds st.
Proof.
  destruct (set_dest_other st d) as (A1 & A2 & A3 & _).
  unfold clip_bounds, surface_rect. rewrite A1, A2, A3. reflexivity.
Qed.
Lemma top_clip_set_dest st d : top_clip_mask (set_dest st d) = top_clip_mask st.
Proof. destruct (set_dest_other st d) as (_ & _ & A3 & _). unfold top_clip_mask. rewrite A3. reflexivity. Qed.

Lemma set_dest_csim a b d : csim a b -> csim (set_dest a d) (set_dest b d).
Proof.
  intros H. pose proof H as (A & B & C & D & E & F & G).
  destruct (set_dest_other a d) as (A1 & A2 & A3 & A4 & A5 & A6 & _).
  destruct (set_dest_other b d) as (B1 & B2 & B3 & B4 & B5 & B6 & _).
  unfold csim. rewrite !clip_bounds_set_dest, !top_clip_set_dest, A1, A2, A6, B1, B2, B6.
  repeat split; try assumption.
  - unfold set_dest. rewrite D. destruct (d_layers a) eqn:El; cbn; congruence.
  - unfold set_dest. rewrite D. destruct (d_layers a) eqn:El; cbn; congruence.
Qed.

(* outcome of the same call on two such states *)
Definition comp_rel (a b : dt) (ra rb : result dt) : Prop :=
  match ra, rb with
  | Ok a', Ok b' => exists d, a' = set_dest a d /\ b' = set_dest b d
  | Err e, Err e' => e = e'
  | _, _ => False
  end.

Lemma composite_sim a b src mask mr rect0 blend alpha : csim a b -> same_shader a b src alpha ->
  comp_rel a b (composite a src mask mr rect0 blend alpha) (composite b src mask mr rect0 blend alpha).
Proof.
  intros H Hs. pose proof H as (A & B & C & D & E & F & G). pose proof (csim_dest a b H) as Hd.
  assert (Hid : exists d, a = set_dest a d /\ b = set_dest b d).
  { exists (fst (dest_of a)). split; [symmetry; apply set_dest_id|]. rewrite <- Hd. symmetry; apply set_dest_id. }
  unfold composite, same_shader in *.
  destruct (xf_inverse (d_ctm a)) as [ta|], (xf_inverse (d_ctm b)) as [tb|]; try contradiction; [|exact Hid].
  rewrite Hd, F, G, E, A, Hs. destruct (dest_of a) as [dest db].
  destruct (r_empty _); [exact Hid|].
  destruct (composite_rows _ _ _ _ _ _ _ _ _ _) as [dest'|e]; cbn [bind comp_rel]; [|reflexivity].
  exists dest'. split; reflexivity.
Qed.

(* outcome of fill / fill_rect / clear on two such states: same pixels, layers, size, probe, rasteriser; the clip
   stack and the transform of each side are preserved *)
Definition out_rel (a b : dt) (ra rb : result dt) : Prop :=
  match ra, rb with
  | Ok a', Ok b' =>
      csim a' b' /\ d_clips a' = d_clips a /\ d_clips b' = d_clips b /\ d_ctm a' = d_ctm a /\ d_ctm b' = d_ctm b /\
      rz (d_cur a') = rz (d_cur b')
  | Err e, Err e' => e = e'
  | _, _ => False
  end.

Lemma fill_sim a b pa pb src o : csim a b -> same_shader a b src (o_alpha o) -> p_winding pa = p_winding pb ->
  rz (apply_path (d_h a) (d_ctm a) (d_cur a) pa) = rz (apply_path (d_h b) (d_ctm b) (d_cur b) pb) ->
  out_rel a b (fill a pa src o) (fill b pb src o).
Proof.
  intros H Hs Hw Hrz. unfold fill.
  set (ca := apply_path (d_h a) (d_ctm a) (d_cur a) pa) in *.
  set (cb := apply_path (d_h b) (d_ctm b) (d_cur b) pb) in *.
  rewrite Hrz, Hw. set (bb := get_bounds (rz cb)).
  destruct ((0 <? r_w bb) && (0 <? r_h bb)).
  - destruct (rasterize _ _ _ _) as [[rz' m]|e]; cbn [bind out_rel]; [|reflexivity].
    set (a2 := with_cur (with_cur a ca) (mk_cursor (cur ca) (first ca) rz')).
    set (b2 := with_cur (with_cur b cb) (mk_cursor (cur cb) (first cb) rz')).
    assert (H2 : csim a2 b2) by exact H.
    assert (Hs2 : same_shader a2 b2 src (o_alpha o)) by exact Hs.
    pose proof (composite_sim a2 b2 src (Some (m_buf m)) bb bb (o_blend o) (o_alpha o) H2 Hs2) as R.
    destruct (composite a2 _ _ _ _ _ _) as [a3|ea], (composite b2 _ _ _ _ _ _) as [b3|eb]; cbn [comp_rel] in R;
      try contradiction; cbn [bind out_rel]; [|exact R].
    destruct R as (d & -> & ->).
    pose proof (set_dest_csim a2 b2 d H2) as H3.
    destruct (set_dest_other a2 d) as (_ & _ & A3 & A4 & A5 & _).
    destruct (set_dest_other b2 d) as (_ & _ & B3 & B4 & B5 & _).
    split; [exact H3|]. cbn [reset_raster with_cur d_clips d_ctm d_cur rz].
    rewrite A3, B3, A4, B4, A5, B5. repeat split.
  - cbn [bind out_rel]. split; [exact H|]. cbn [reset_raster with_cur d_clips d_ctm d_cur rz]. rewrite Hrz. repeat split.
Qed.

(* ===== C11: fill under T = fill of the transformed path under the identity (solid source) ===== *)

(* ===== Part C ===== *)


(* ===== rectangles of either orientation ===== *)
(* a vertical segment at abscissa X between the ordinates B < D: going down (flag false, winding +1) or going up
   (flag true, winding -1) *)
Definition vseg (up : bool) (X B D : Z) : seg := if up then mk_seg true X D X B else mk_seg false X B X D.
Definition vwind (up : bool) : Z := if up then -1 else 1.

Lemma add_vseg r up X B D : B < D ->
  add_seg r (vseg up X B D) =
  if (D <? 0) || (r_h4 r <=? B) then r else
  mk_rast (r_w4 r) (r_h4 r) (Z.min (r_top r) (dot2_to_int B)) (Z.max (r_bottom r) (dot2_to_int (D + 3)))
    (Z.min (Z.min (r_left r) (dot2_to_int X)) (dot2_to_int X))
    (Z.max (Z.max (r_right r) (dot2_to_int (X + 3))) (dot2_to_int (X + 3)))
    (if D <=? Z.max B 0 then r_starts r else (Z.max B 0, vedge X B D (vwind up) (Z.max B 0 - B)) :: r_starts r)
    (r_active r).
Proof.
  intros H. unfold add_seg, vseg.
  destruct up; cbn [g_swap g_sx g_sy g_ex g_ey]; rewrite add_edge_line; replace (D <=? B) with false by lia; reflexivity.
Qed.

(* flat, vertical, flat, vertical (opposite direction), flat: what apply_path makes of rect_path *)
Definition rect_segs_g (f1 f2 f3 : seg) (up : bool) (X1 X2 B D : Z) : list seg :=
  [f1; vseg up X1 B D; f2; vseg (negb up) X2 B D; f3].
Definition flat (g : seg) : Prop := g_sy g = g_ey g.

Lemma rect_rast_g W H f1 f2 f3 up u1 u2 bb d : flat f1 -> flat f2 -> flat f3 -> bb < d ->
  add_segs (rast_new W H) (rect_segs_g f1 f2 f3 up (4 * u1) (4 * u2) (4 * bb) (4 * d)) =
  if (4 * d <? 0) || (H * 4 <=? 4 * bb) then rast_new W H else
  mk_rast (W * 4) (H * 4) (Z.min H bb) (Z.max 0 d) (Z.min W (Z.min u1 u2)) (Z.max 0 (Z.max u1 u2))
    (if 4 * d <=? Z.max (4 * bb) 0 then []
     else [(Z.max (4 * bb) 0, vedge (4 * u2) (4 * bb) (4 * d) (vwind (negb up)) (Z.max (4 * bb) 0 - 4 * bb));
           (Z.max (4 * bb) 0, vedge (4 * u1) (4 * bb) (4 * d) (vwind up) (Z.max (4 * bb) 0 - 4 * bb))]) [].
Proof.
  intros F1 F2 F3 Hbd. unfold rect_segs_g.
  rewrite add_segs_cons, (add_seg_flat _ f1 F1).
  rewrite add_segs_cons.
  rewrite add_segs_cons, (add_seg_flat _ f2 F2).
  rewrite add_segs_cons.
  rewrite add_segs_cons, (add_seg_flat _ f3 F3).
  rewrite add_segs_nil.
  rewrite (add_vseg (rast_new W H)) by lia.
  cbn [rast_new r_h4 r_w4 r_top r_bottom r_left r_right r_starts r_active].
  destruct ((4 * d <? 0) || (H * 4 <=? 4 * bb)) eqn:E1.
  - rewrite add_vseg by lia. cbn [rast_new r_h4]. rewrite E1. reflexivity.
  - rewrite add_vseg by lia. cbn [r_h4 r_w4 r_top r_bottom r_left r_right r_starts r_active]. rewrite E1.
    rewrite !dot2_to_int_eq.
    replace (4 * u1 / 4) with u1 by lia. replace (4 * u2 / 4) with u2 by lia. replace (4 * bb / 4) with bb by lia.
    replace ((4 * u1 + 3) / 4) with u1 by lia. replace ((4 * u2 + 3) / 4) with u2 by lia.
    replace ((4 * d + 3) / 4) with d by lia.
    destruct (4 * d <=? Z.max (4 * bb) 0) eqn:E3; f_equal; lia.
Qed.

Lemma vwind_negb up : vwind up = - vwind (negb up).
Proof. destruct up; reflexivity. Qed.

Lemma rect_row_cov_g rule X X' B D w n ys y0 y cc : B < D -> X <> X' -> w = 1 \/ w = -1 -> y0 <= ys <= y -> y < D ->
  cov rule (live y0 [(ys, vedge X B D w n); (ys, vedge X' B D (- w) n)] y) cc
  = (Z.min X X' <=? cc) && (cc <? Z.max X X').
Proof.
  intros HBD HX Hw Hy HyD. unfold live. cbn [filter fst snd].
  change (e_y2 (vedge X B D w n)) with D. change (e_y2 (vedge X' B D (- w) n)) with D.
  replace ((y0 <=? ys) && (ys <=? y) && (y <? D)) with true by lia. cbn [map].
  unfold edge_at. cbn [fst snd]. unfold vedge. rewrite !line_at_line_at.
  fold (vedge X B D w (n + (y - ys))). fold (vedge X' B D (- w) (n + (y - ys))).
  unfold cov. cbn [wsum existsb]. rewrite !vedge_fullx by exact HBD.
  unfold vedge. rewrite !line_at_wind. cbn [line_edge e_wind].
  destruct Hw as [-> | ->];
  destruct (X <=? cc) eqn:E1; destruct (X' <=? cc) eqn:E2; destruct (cc <? X) eqn:E3; destruct (cc <? X') eqn:E4;
    try lia; destruct rule; cbn; lia.
Qed.

Lemma rect_visible_g W H f1 f2 f3 up u1 u2 bb d :
  flat f1 -> flat f2 -> flat f3 -> u1 <> u2 -> bb < d -> 0 <= W -> 0 <= H ->
  let r := add_segs (rast_new W H) (rect_segs_g f1 f2 f3 up (4 * u1) (4 * u2) (4 * bb) (4 * d)) in
  let b := get_bounds r in
  let a := Z.min u1 u2 in let c := Z.max u1 u2 in
  r_empty b = r_empty (r_inter (mkrect a bb c d) (mkrect 0 0 W H)) /\
  (r_empty b = false -> b = r_inter (mkrect a bb c d) (mkrect 0 0 W H)) /\
  forall q p, 0 <= q < r_h b -> 0 <= p < r_w b ->
    r_starts r = [(y0 b * 4, vedge (4 * u2) (4 * bb) (4 * d) (vwind (negb up)) (y0 b * 4 - 4 * bb));
                  (y0 b * 4, vedge (4 * u1) (4 * bb) (4 * d) (vwind up) (y0 b * 4 - 4 * bb))] /\
    0 <= y0 b * 4 /\ y0 b * 4 + 4 * q + 3 < 4 * d /\ 4 * a <= x0 b * 4 /\ x0 b * 4 + 4 * p + 3 < 4 * c.
Proof.
  intros F1 F2 F3 Hx Hbd HW HH r b a c.
  assert (Hac : a < c) by (unfold a, c; lia).
  assert (Er : r = _) by (apply rect_rast_g; assumption).
  fold a c in Er. clearbody a c.
  unfold r_inter. cbn [x0 y0 x1 y1].
  destruct ((4 * d <? 0) || (H * 4 <=? 4 * bb)) eqn:E1.
  - assert (Eb : b = mkrect (Z.max W 0) (Z.max H 0) (Z.min 0 (dot2_to_int (W * 4))) (Z.min 0 (dot2_to_int (H * 4)))).
    { unfold b. rewrite Er. reflexivity. }
    rewrite Eb. unfold r_empty, r_h, r_w. cbn [x0 y0 x1 y1]. rewrite !dot2_to_int_eq.
    split; [lia|]. split; [lia|]. intros; lia.
  - assert (Eb : b = mkrect (Z.max (Z.min W a) 0) (Z.max (Z.min H bb) 0) (Z.min (Z.max 0 c) W) (Z.min (Z.max 0 d) H)).
    { unfold b. rewrite Er. unfold get_bounds. cbn [r_left r_top r_right r_bottom r_w4 r_h4].
      rewrite !dot2_to_int_eq.
      replace (W * 4 / 4) with W by lia. replace (H * 4 / 4) with H by lia. reflexivity. }
    split; [|split].
    + rewrite Eb. unfold r_empty. cbn [x0 y0 x1 y1].
      assert (Hxx : (Z.max (Z.min W a) 0 <? Z.min (Z.max 0 c) W) = (Z.max a 0 <? Z.min c W)) by (clear - Hac HW; lia).
      assert (Hyy : (Z.max (Z.min H bb) 0 <? Z.min (Z.max 0 d) H) = (Z.max bb 0 <? Z.min d H)) by (clear - Hbd HH; lia).
      rewrite Hxx, Hyy. reflexivity.
    + rewrite Eb. unfold r_empty. cbn [x0 y0 x1 y1]. intros Hne.
      assert (Hxx : Z.max (Z.min W a) 0 < Z.min (Z.max 0 c) W) by (clear - Hne; lia).
      assert (Hyy : Z.max (Z.min H bb) 0 < Z.min (Z.max 0 d) H) by (clear - Hne; lia).
      clear Hne E1 Er. f_equal; lia.
    + intros q p Hq Hp.
      rewrite Eb in Hq, Hp |- *. unfold r_h, r_w in Hq, Hp. cbn [x0 y0 x1 y1] in *.
      assert (G1 : Z.max (4 * bb) 0 = Z.max (Z.min H bb) 0 * 4) by (clear - Hq; lia).
      assert (G2 : Z.max (Z.min H bb) 0 * 4 + 4 * q + 3 < 4 * d) by (clear - Hq; lia).
      assert (G3 : 4 * a <= Z.max (Z.min W a) 0 * 4) by (clear - Hp; lia).
      assert (G4 : Z.max (Z.min W a) 0 * 4 + 4 * p + 3 < 4 * c) by (clear - Hp; lia).
      assert (G5 : 0 <= q /\ 0 <= p) by (clear - Hq Hp; lia).
      rewrite Er. cbn [r_starts].
      replace (4 * d <=? Z.max (4 * bb) 0) with false by (clear - G1 G2 G5; lia).
      rewrite G1. split; [reflexivity|]. clear - G2 G3 G4 G5. lia.
Qed.

(* every mask byte of such a rectangle is 255, with either blitter and either winding rule *)
Theorem rect_mask_full_g (aa : bool) rule W H f1 f2 f3 up u1 u2 bb d :
  flat f1 -> flat f2 -> flat f3 -> u1 <> u2 -> bb < d -> 0 <= W -> 0 <= H ->
  let r := add_segs (rast_new W H) (rect_segs_g f1 f2 f3 up (4 * u1) (4 * u2) (4 * bb) (4 * d)) in
  let b := get_bounds r in
  0 <= r_w b -> 0 <= r_h b ->
  exists r' buf',
    rasterize (if aa then blit_super else blit_mask) rule r (maskbuf_new (x0 b) (y0 b) (r_w b) (r_h b))
      = Ok (r', mk_maskbuf (x0 b * 4) (y0 b * 4) (r_w b) buf') /\
    length buf' = Z.to_nat (r_w b * r_h b + 1) /\
    forall q p, 0 <= q < r_h b -> 0 <= p < r_w b -> zn buf' (q * r_w b + p) = 255.
Proof.
  intros F1 F2 F3 Hx Hbd HW HH r b Hbw Hbh.
  destruct (rect_visible_g W H f1 f2 f3 up u1 u2 bb d F1 F2 F3 Hx Hbd HW HH) as (_ & _ & V3).
  fold r in V3. fold b in V3. cbv zeta in V3.
  assert (Hw : vwind (negb up) = 1 \/ vwind (negb up) = -1) by (destruct up; cbn; lia).
  assert (Hcov : forall q p j cc, 0 <= q < r_h b -> 0 <= p < r_w b -> 0 <= j <= 3 -> 0 <= cc <= 3 ->
            cov rule (live (y0 b * 4) (r_starts r) (y0 b * 4 + 4 * q + j)) (4 * p + cc + x0 b * 4) = true).
  { intros q p j cc Hq Hp Hj Hcc. destruct (V3 q p Hq Hp) as (Es & G0 & G2 & G3 & G4). rewrite Es.
    rewrite (vwind_negb up).
    rewrite rect_row_cov_g; [|lia|lia|exact Hw|lia|lia]. lia. }
  destruct aa.
  - destruct (rasterize_lines_coverage rule W H (rect_segs_g f1 f2 f3 up (4 * u1) (4 * u2) (4 * bb) (4 * d)) HH Hbw Hbh)
      as (r' & buf' & ER & Lb & _ & Cov).
    fold r in ER, Lb, Cov. fold b in ER, Lb, Cov.
    exists r', buf'. split; [exact ER|]. split; [exact Lb|].
    intros q p Hq Hp. specialize (Cov q p Hq Hp). cbv zeta in Cov.
    assert (HK : Kpix rule (y0 b * 4) (r_starts r) (x0 b * 4) (y0 b * 4) q p = 16).
    { unfold Kpix, count4.
      pose proof (Hcov q p 0 0 Hq Hp ltac:(lia) ltac:(lia)) as C00. pose proof (Hcov q p 0 1 Hq Hp ltac:(lia) ltac:(lia)) as C01.
      pose proof (Hcov q p 0 2 Hq Hp ltac:(lia) ltac:(lia)) as C02. pose proof (Hcov q p 0 3 Hq Hp ltac:(lia) ltac:(lia)) as C03.
      pose proof (Hcov q p 1 0 Hq Hp ltac:(lia) ltac:(lia)) as C10. pose proof (Hcov q p 1 1 Hq Hp ltac:(lia) ltac:(lia)) as C11.
      pose proof (Hcov q p 1 2 Hq Hp ltac:(lia) ltac:(lia)) as C12. pose proof (Hcov q p 1 3 Hq Hp ltac:(lia) ltac:(lia)) as C13.
      pose proof (Hcov q p 2 0 Hq Hp ltac:(lia) ltac:(lia)) as C20. pose proof (Hcov q p 2 1 Hq Hp ltac:(lia) ltac:(lia)) as C21.
      pose proof (Hcov q p 2 2 Hq Hp ltac:(lia) ltac:(lia)) as C22. pose proof (Hcov q p 2 3 Hq Hp ltac:(lia) ltac:(lia)) as C23.
      pose proof (Hcov q p 3 0 Hq Hp ltac:(lia) ltac:(lia)) as C30. pose proof (Hcov q p 3 1 Hq Hp ltac:(lia) ltac:(lia)) as C31.
      pose proof (Hcov q p 3 2 Hq Hp ltac:(lia) ltac:(lia)) as C32. pose proof (Hcov q p 3 3 Hq Hp ltac:(lia) ltac:(lia)) as C33.
      replace (y0 b * 4 + 4 * q + 0) with (y0 b * 4 + 4 * q) in * by lia.
      replace (4 * p + 0 + x0 b * 4) with (4 * p + x0 b * 4) in * by lia.
      rewrite C00, C01, C02, C03, C10, C11, C12, C13, C20, C21, C22, C23, C30, C31, C32, C33. reflexivity. }
    rewrite HK in Cov. lia.
  - destruct (rasterize_lines_coverage_aliased rule W H (rect_segs_g f1 f2 f3 up (4 * u1) (4 * u2) (4 * bb) (4 * d)) HH Hbw Hbh)
      as (r' & buf' & ER & Lb & Cov).
    fold r in ER, Lb, Cov. fold b in ER, Lb, Cov.
    exists r', buf'. split; [exact ER|]. split; [exact Lb|].
    intros q p Hq Hp. rewrite (Cov q p Hq Hp).
    pose proof (Hcov q p 0 3 Hq Hp ltac:(lia) ltac:(lia)) as C.
    replace (y0 b * 4 + 4 * q + 0) with (y0 b * 4 + 4 * q) in C by lia. rewrite C. reflexivity.
Qed.
Print Assumptions rect_mask_full_g.

(* ---- rect_path of either orientation ---- *)
(* the transformed corners of rect_path x y w h fall on whole pixels: (xa,ya) (xb,ya) (xb,yb) (xa,yb), and the two
   orienting float comparisons agree with the integers *)
Definition rect_aligned_g (t : xform) (x y w h : f32) (xa ya xb yb : Z) : Prop :=
  let P1 := xf_point t (x, y) in let P2 := xf_point t (fadd x w, y) in
  let P3 := xf_point t (fadd x w, fadd y h) in let P4 := xf_point t (x, fadd y h) in
  f32_to_dot2 (px P1) = 4 * xa /\ f32_to_dot2 (py P1) = 4 * ya /\
  f32_to_dot2 (px P2) = 4 * xb /\ f32_to_dot2 (py P2) = 4 * ya /\
  f32_to_dot2 (px P3) = 4 * xb /\ f32_to_dot2 (py P3) = 4 * yb /\
  f32_to_dot2 (px P4) = 4 * xa /\ f32_to_dot2 (py P4) = 4 * yb /\
  flt (py P3) (py P2) = (yb <? ya) /\ flt (py P1) (py P4) = (ya <? yb).

Lemma rect_path_segs_g t x y w h xa ya xb yb : rect_aligned_g t x y w h xa ya xb yb -> ya <> yb ->
  exists f1 f2 f3, flat f1 /\ flat f2 /\ flat f3 /\
    poly_segs t (rect_path x y w h) =
    rect_segs_g f1 f2 f3 (yb <? ya) (4 * xb) (4 * xa) (4 * Z.min ya yb) (4 * Z.max ya yb).
Proof.
  intros (H1 & H2 & H3 & H4 & H5 & H6 & H7 & H8 & H9 & H10) Hne.
  unfold poly_segs, rect_path. cbn [p_ops poly_go close_segs app]. unfold seg_of.
  rewrite H1, H2, H3, H4, H5, H6, H7, H8, H9, H10.
  eexists (mk_seg _ _ _ _ _), (mk_seg _ _ _ _ _), (mk_seg _ _ _ _ _).
  split; [reflexivity|]. split; [reflexivity|]. split; [reflexivity|].
  unfold rect_segs_g, vseg.
  destruct (Z.lt_total ya yb) as [L|[L|L]]; [|contradiction|].
  - replace (yb <? ya) with false by lia. replace (ya <? yb) with true by lia.
    rewrite Z.min_l, Z.max_r by lia. reflexivity.
  - replace (yb <? ya) with true by lia. replace (ya <? yb) with false by lia.
    rewrite Z.min_r, Z.max_l by lia. reflexivity.
Qed.

(* the general route of fill_rect on an aligned rectangle of either orientation *)
Lemma fill_rect_general_route_g st x y w h src o xa ya xb yb ti stG :
  plain_dt st -> xf_inverse (d_ctm st) = Some ti -> 0 <= d_w st -> 0 < d_h st ->
  rz (d_cur st) = rast_new (d_w st) (d_h st) ->
  rect_aligned_g (d_ctm st) x y w h xa ya xb yb -> xa <> xb -> ya <> yb ->
  fill st (rect_path x y w h) src o = Ok stG ->
  let irect := r_inter (mkrect (Z.min xa xb) (Z.min ya yb) (Z.max xa xb) (Z.max ya yb)) (surface_rect st) in
  zlen (d_buf stG) = zlen (d_buf st) /\
  forall X Y, 0 <= X < d_w st -> 0 <= Y < d_h st ->
    let old := zn (d_buf st) (Y * d_w st + X) in
    let new := zn (d_buf stG) (Y * d_w st + X) in
    if r_in irect X Y
    then blit_px (choose_blitter true None (o_blend o)) (shade (choose_shader ti src (o_alpha o)) X Y) old 255 0 = Ok new
    else new = old.
Proof.
  intros Hplain Hinv HW HH Hidle Hal Hxne Hyne HG irect.
  destruct (rect_path_segs_g _ _ _ _ _ _ _ _ _ Hal Hyne) as (f1 & f2 & f3 & F1 & F2 & F3 & Hsegs).
  pose proof (fill_polygon_rz st (rect_path x y w h) (rect_path_polygon x y w h) ltac:(lia) Hidle) as Hrz.
  rewrite Hsegs in Hrz.
  set (gs := rect_segs_g f1 f2 f3 (yb <? ya) (4 * xb) (4 * xa) (4 * Z.min ya yb) (4 * Z.max ya yb)) in *.
  set (r := add_segs (rast_new (d_w st) (d_h st)) gs) in *.
  set (b := get_bounds r).
  assert (Hbd : Z.min ya yb < Z.max ya yb) by lia.
  destruct (rect_visible_g (d_w st) (d_h st) f1 f2 f3 (yb <? ya) xb xa (Z.min ya yb) (Z.max ya yb) F1 F2 F3
              ltac:(lia) Hbd HW ltac:(lia)) as (V1 & V2 & _).
  fold gs in V1, V2. fold r in V1, V2. fold b in V1, V2. cbv zeta in V1, V2.
  rewrite (Z.min_comm xb xa), (Z.max_comm xb xa) in V1, V2.
  fold (surface_rect st) in V1, V2. fold irect in V1, V2.
  destruct (lines_bounds_in (d_w st) (d_h st) gs) as (B1 & B2 & B3 & B4).
  fold r in B1, B2, B3, B4. fold b in B1, B2, B3, B4.
  destruct ((0 <? r_w b) && (0 <? r_h b)) eqn:Eb.
  - assert (Hne : r_empty b = false) by (unfold r_empty, r_w, r_h in *; lia).
    specialize (V2 Hne).
    destruct (rect_mask_full_g (o_aa o) (p_winding (rect_path x y w h)) (d_w st) (d_h st) f1 f2 f3 (yb <? ya) xb xa
                (Z.min ya yb) (Z.max ya yb) F1 F2 F3 ltac:(lia) Hbd HW ltac:(lia))
      as (r' & buf' & ER & Lb & M).
    { fold gs. fold r. fold b. lia. }
    { fold gs. fold r. fold b. lia. }
    fold gs in ER, Lb, M. fold r in ER, Lb, M. fold b in ER, Lb, M.
    pose proof (fill_with_mask st (rect_path x y w h) src o r' (mk_maskbuf (x0 b * 4) (y0 b * 4) (r_w b) buf')) as F.
    cbv zeta in F. rewrite Hrz in F. fold b in F. specialize (F Eb ER). cbn [m_buf] in F.
    set (st1 := with_cur (with_cur st (apply_path (d_h st) (d_ctm st) (d_cur st) (rect_path x y w h))) _) in F.
    rewrite F in HG.
    destruct (composite st1 src (Some buf') b b (o_blend o) (o_alpha o)) as [st2|] eqn:EC; [|discriminate].
    cbn [bind] in HG. injection HG as <-.
    assert (Hplain1 : plain_dt st1) by exact Hplain.
    destruct (composite_spec_plain st1 src (Some buf') b (o_blend o) (o_alpha o) ti st2 Hplain1 Hinv
                ltac:(lia) ltac:(unfold r_w in Eb; lia) B2 ltac:(lia) ltac:(unfold r_h in Eb; lia) B4 EC) as (L & P).
    change (d_buf (reset_raster st2)) with (d_buf st2).
    change (d_buf st1) with (d_buf st) in *. change (d_w st1) with (d_w st) in *. change (d_h st1) with (d_h st) in *.
    split; [exact L|].
    intros X Y HX HY. cbv zeta. specialize (P X Y HX HY). cbv zeta in P.
    rewrite <- V2. destruct (r_in b X Y) eqn:Ein; [|exact P].
    cbn [has_mask] in P. unfold mask_at in P. unfold r_in in Ein.
    replace ((Y - y0 b) * r_w b + X - x0 b) with ((Y - y0 b) * r_w b + (X - x0 b)) in P by lia.
    rewrite M in P by (unfold r_h, r_w; lia). exact P.
  - pose proof (fill_empty_bounds st (rect_path x y w h) src o) as F. cbv zeta in F.
    rewrite Hrz in F. fold b in F. specialize (F Eb). rewrite F in HG. injection HG as <-.
    cbn [reset_raster with_cur d_buf]. split; [reflexivity|].
    intros X Y HX HY. cbv zeta.
    assert (Hem : r_empty irect = true) by (rewrite <- V1; unfold r_empty, r_w, r_h in *; lia).
    replace (r_in irect X Y) with false; [reflexivity|].
    unfold r_empty in Hem. unfold r_in. lia.
Qed.

(* the two per-pixel descriptions (unmasked blitter / masked blitter at 255 over the same rectangle) give equal
   buffers on premultiplied data *)
Lemma routes_pixels_agree st src o irect ti (bufF bufG : list Z) :
  plain_dt st -> Forall px_ok (d_buf st) -> source_ok src -> 0 <= d_w st -> 0 <= d_h st ->
  zlen bufF = zlen (d_buf st) -> zlen bufG = zlen (d_buf st) ->
  (forall X Y, 0 <= X < d_w st -> 0 <= Y < d_h st ->
     let old := zn (d_buf st) (Y * d_w st + X) in
     if r_in irect X Y
     then blit_px (choose_blitter false None (o_blend o)) (shade (choose_shader ti src (o_alpha o)) X Y) old 0 0
          = Ok (zn bufF (Y * d_w st + X))
     else zn bufF (Y * d_w st + X) = old) ->
  (forall X Y, 0 <= X < d_w st -> 0 <= Y < d_h st ->
     let old := zn (d_buf st) (Y * d_w st + X) in
     if r_in irect X Y
     then blit_px (choose_blitter true None (o_blend o)) (shade (choose_shader ti src (o_alpha o)) X Y) old 255 0
          = Ok (zn bufG (Y * d_w st + X))
     else zn bufG (Y * d_w st + X) = old) ->
  bufF = bufG.
Proof.
  intros (Hp & Hl & Hc & Hlen) Hbuf Hsrc HW0 HH0 LF LG PF PG. cbv zeta in PF, PG.
  apply list_eq_zn; [unfold zlen in LF, LG; lia|].
  intros i Hi. rewrite LF, Hlen in Hi.
  assert (HWpos : 0 < d_w st) by nia.
  assert (HH : 0 < d_h st) by nia.
  assert (HX : 0 <= i mod d_w st < d_w st) by (apply Z.mod_pos_bound; lia).
  assert (HY : 0 <= i / d_w st < d_h st).
  { split; [apply Z.div_pos; lia|]. apply Z.div_lt_upper_bound; [lia|]. lia. }
  assert (Ei : i = i / d_w st * d_w st + i mod d_w st).
  { pose proof (Z.div_mod i (d_w st) ltac:(lia)). lia. }
  specialize (PF _ _ HX HY). specialize (PG _ _ HX HY). rewrite <- Ei in PF, PG.
  destruct (r_in _ _ _); [|congruence].
  set (s := shade (choose_shader ti src (o_alpha o)) (i mod d_w st) (i / d_w st)) in *.
  assert (Hs : px_ok s) by (apply shade_ok, choose_shader_ok; exact Hsrc).
  assert (Hd : px_ok (zn (d_buf st) i)) by (apply zn_ok; exact Hbuf).
  destruct Hs as [Ws Ps]. destruct Hd as [Wd Pd].
  rewrite (fast_path_pixel_eq_general (o_blend o) s (zn (d_buf st) i) Ws Wd Ps Pd) in PF.
  - congruence.
  - exists (zn bufF i). exact PF.
Qed.

(* fill_rect's two routes for a rectangle of either orientation (alignment as a hypothesis) *)
Theorem fill_rect_routes_agree_g st x y w h src o stF stG :
  plain_dt st -> Forall px_ok (d_buf st) -> source_ok src ->
  d_ctm st = xf_identity -> 0 <= d_w st -> 0 < d_h st ->
  rz (d_cur st) = rast_new (d_w st) (d_h st) ->
  let ix := to_i32 x in let iy := to_i32 y in let iw := to_i32 w in let ih := to_i32 h in
  iw <> 0 -> ih <> 0 ->
  i32_min <= ix + iw <= i32_max -> i32_min <= iy + ih <= i32_max ->
  rect_aligned_g xf_identity x y w h ix iy (ix + iw) (iy + ih) ->
  fill_rect st x y w h src o = Ok stF ->
  fill st (rect_path x y w h) src o = Ok stG ->
  d_buf stF = d_buf stG.
Proof.
  intros Hplain Hbuf Hsrc Hctm HW HH Hidle ix iy iw ih Hiw Hih Hsx Hsy Hal HF HG.
  unfold fill_rect in HF. fold ix iy iw ih in HF.
  destruct (xf_is_identity (d_ctm st) && _ && _) eqn:Econd; [|congruence].
  cbv zeta in HF. unfold sat32 in HF.
  replace (Z.max i32_min (Z.min i32_max (ix + iw))) with (ix + iw) in HF by lia.
  replace (Z.max i32_min (Z.min i32_max (iy + ih))) with (iy + ih) in HF by lia.
  destruct xf_inverse_identity as [ti Hti]. rewrite <- Hctm in Hti.
  destruct (fill_rect_fast_route st src o (mkrect (Z.min ix (ix + iw)) (Z.min iy (iy + ih)) (Z.max ix (ix + iw)) (Z.max iy (iy + ih)))
              ti stF Hplain Hti HF) as (LF & PF).
  rewrite <- Hctm in Hal.
  destruct (fill_rect_general_route_g st x y w h src o ix iy (ix + iw) (iy + ih) ti stG Hplain Hti HW HH Hidle Hal
              ltac:(lia) ltac:(lia) HG) as (LG & PG).
  exact (routes_pixels_agree st src o _ ti (d_buf stF) (d_buf stG) Hplain Hbuf Hsrc HW ltac:(lia) LF LG PF PG).
Qed.
Print Assumptions fill_rect_routes_agree_g.

(* ===== C11 ===== *)
(* what the two calls must agree on: everything but the cursor's current / first point *)
Definition same_visible (a b : dt) : Prop :=
  d_buf a = d_buf b /\ d_layers a = d_layers b /\ d_clips a = d_clips b /\ d_w a = d_w b /\ d_h a = d_h b /\
  d_ctm a = d_ctm b /\ d_probe a = d_probe b /\ rz (d_cur a) = rz (d_cur b).

Theorem fill_under_T_is_fill_of_transformed_path st p c o ti :
  xf_inverse (d_ctm st) = Some ti -> path_finite (d_ctm st) p ->
  match step_op st (OpFillPre p (Solid c) o), step_op st (OpFill p (Solid c) o) with
  | Ok a, Ok b => same_visible a b
  | Err e, Err e' => e = e'
  | _, _ => False
  end.
Proof.
  intros Hinv Hfin. cbn [step_op].
  destruct xf_inverse_identity as [ti' Hti'].
  pose proof (fill_sim (with_ctm st xf_identity) st (path_transform (d_ctm st) p) p (Solid c) o) as R.
  specialize (R ltac:(repeat split)).
  specialize (R (same_shader_solid (with_ctm st xf_identity) st c (o_alpha o) ti' ti Hti' Hinv)).
  specialize (R eq_refl).
  specialize (R (apply_path_pretransformed (d_h st) (d_ctm st) (d_cur st) p Hfin)).
  destruct (fill (with_ctm st xf_identity) _ _ _) as [a|ea], (fill st p (Solid c) o) as [b|eb]; cbn [out_rel] in R;
    try contradiction; cbn [bind]; [|exact R].
  destruct R as ((A & B & C & D & E & F & G) & C1 & C2 & T1 & T2 & Rz).
  unfold same_visible. cbn [with_ctm d_buf d_layers d_clips d_w d_h d_ctm d_probe d_cur] in *.
  repeat split; congruence.
Qed.
Print Assumptions fill_under_T_is_fill_of_transformed_path.

(* the invertibility hypothesis is necessary: under a singular transform fill draws nothing (composite returns
   at once) while the pre-transformed path, collapsed onto a line, still leaves slivers in the mask *)
Example singular_ctm_counterexample :
  let T := mk_xform f1 (fdiv f1 (of_int 3)) f0 f0 f0 f0 in
  let st := with_ctm (dt_new 16 8 (repeat 0 128)) T in
  let P := mk_path [MoveTo (of_int 0, f0); LineTo (of_int 13, f0); LineTo (of_int 5, f0); LineTo (of_int 11, f0); Close] NonZero in
  let o := mk_opts SrcOver f1 true in
  xf_inverse T = None /\
  match step_op st (OpFillPre P (Solid 4294967295) o), step_op st (OpFill P (Solid 4294967295) o) with
  | Ok a, Ok b => filter (fun v => negb (v =? 0)) (d_buf a) = [538976288; 269488144; 269488144; 269488144; 269488144] /\
                  filter (fun v => negb (v =? 0)) (d_buf b) = []
  | _, _ => False
  end.
Proof. vm_compute. repeat split; reflexivity. Qed.

(* ===== Part D: the float side and the C14 corollaries ===== *)
Lemma rect_aligned_fint x y w h ix iy iw ih :
  fint x ix -> fint y iy -> fint w iw -> fint h ih ->
  Z.abs ix < 4194304 -> Z.abs iy < 4194304 -> Z.abs (ix + iw) < 4194304 -> Z.abs (iy + ih) < 4194304 ->
  rect_aligned_g xf_identity x y w h ix iy (ix + iw) (iy + ih).
Proof.
  intros Fx Fy Fw Fh Bx By Bxw Byh.
  assert (Sx : small ix) by (unfold small; lia). assert (Sy : small iy) by (unfold small; lia).
  assert (Sxw : small (ix + iw)) by (unfold small; lia). assert (Syh : small (iy + ih)) by (unfold small; lia).
  pose proof (fadd_fint x w ix iw Fx Fw Sxw) as Fxw.
  pose proof (fadd_fint y h iy ih Fy Fh Syh) as Fyh.
  destruct (ident_point_fint x y ix iy Fx Fy Sx Sy) as [P1x P1y].
  destruct (ident_point_fint (fadd x w) y (ix + iw) iy Fxw Fy Sxw Sy) as [P2x P2y].
  destruct (ident_point_fint (fadd x w) (fadd y h) (ix + iw) (iy + ih) Fxw Fyh Sxw Syh) as [P3x P3y].
  destruct (ident_point_fint x (fadd y h) ix (iy + ih) Fx Fyh Sx Syh) as [P4x P4y].
  unfold rect_aligned_g. cbv zeta.
  rewrite (dot2_fint _ _ P1x Bx), (dot2_fint _ _ P1y By), (dot2_fint _ _ P2x Bxw), (dot2_fint _ _ P2y By),
          (dot2_fint _ _ P3x Bxw), (dot2_fint _ _ P3y Byh), (dot2_fint _ _ P4x Bx), (dot2_fint _ _ P4y Byh).
  rewrite (flt_fint _ _ _ _ P3y P2y), (flt_fint _ _ _ _ P1y P4y).
  repeat split; reflexivity.
Qed.

(* fill_rect's integer test gives the four fint facts *)
Lemma integer_rect_fint x y w h :
  let ix := to_i32 x in let iy := to_i32 y in let iw := to_i32 w in let ih := to_i32 h in
  feq (of_int ix) x && feq (of_int iy) y && feq (of_int iw) w && feq (of_int ih) h = true ->
  Z.abs ix < 4194304 -> Z.abs iy < 4194304 -> Z.abs iw < 16777216 -> Z.abs ih < 16777216 ->
  fint x ix /\ fint y iy /\ fint w iw /\ fint h ih.
Proof.
  intros ix iy iw ih Eint Bx By Bw Bh.
  apply andb_true_iff in Eint. destruct Eint as [Eint Eh].
  apply andb_true_iff in Eint. destruct Eint as [Eint Ew].
  apply andb_true_iff in Eint. destruct Eint as [Ex Ey].
  split; [|split; [|split]].
  - apply (feq_fint _ _ _ (of_int_fint ix ltac:(unfold small; lia)) Ex).
  - apply (feq_fint _ _ _ (of_int_fint iy ltac:(unfold small; lia)) Ey).
  - apply (feq_fint _ _ _ (of_int_fint iw ltac:(unfold small; lia)) Ew).
  - apply (feq_fint _ _ _ (of_int_fint ih ltac:(unfold small; lia)) Eh).
Qed.

(* C14 (b): both routes of fill_rect agree for rectangles of either orientation: negative width and/or height
   (|coordinates| < 2^22, width and height not 0), every blend mode, every source, aa on or off *)
Theorem fill_rect_negative_size_agree st x y w h src o stF stG :
  plain_dt st -> Forall px_ok (d_buf st) -> source_ok src ->
  d_ctm st = xf_identity -> 0 <= d_w st -> 0 < d_h st ->
  rz (d_cur st) = rast_new (d_w st) (d_h st) ->
  let ix := to_i32 x in let iy := to_i32 y in let iw := to_i32 w in let ih := to_i32 h in
  iw <> 0 -> ih <> 0 ->
  Z.abs ix < 4194304 -> Z.abs iy < 4194304 -> Z.abs iw < 16777216 -> Z.abs ih < 16777216 ->
  Z.abs (ix + iw) < 4194304 -> Z.abs (iy + ih) < 4194304 ->
  fill_rect st x y w h src o = Ok stF ->
  fill st (rect_path x y w h) src o = Ok stG ->
  d_buf stF = d_buf stG.
Proof.
  intros Hplain Hbuf Hsrc Hctm HW HH Hidle ix iy iw ih Hiw Hih Bx By Bw Bh Bxw Byh HF HG.
  destruct (feq (of_int ix) x && feq (of_int iy) y && feq (of_int iw) w && feq (of_int ih) h) eqn:Eint.
  - destruct (integer_rect_fint x y w h Eint Bx By Bw Bh) as (Fx & Fy & Fw & Fh).
    apply (fill_rect_routes_agree_g st x y w h src o stF stG Hplain Hbuf Hsrc Hctm HW HH Hidle Hiw Hih); try assumption;
      try (fold ix iy iw ih; unfold i32_min, i32_max; lia).
    apply rect_aligned_fint; assumption.
  - unfold fill_rect in HF. fold ix iy iw ih in HF. rewrite Eint in HF.
    rewrite andb_false_r in HF. cbn [andb] in HF. congruence.
Qed.
Print Assumptions fill_rect_negative_size_agree.

(* fill_rect itself returns on a plain premultiplied state for the 24 separable modes (any rectangle) *)
Lemma fill_rect_total st x y w h src o :
  plain_dt st -> Forall px_ok (d_buf st) -> source_ok src -> In (o_blend o) separable_modes ->
  0 < d_h st -> rz (d_cur st) = rast_new (d_w st) (d_h st) ->
  exists stF, fill_rect st x y w h src o = Ok stF.
Proof.
  intros Hplain Hbuf Hsrc Hmode HH Hidle. unfold fill_rect. cbv zeta.
  destruct (xf_is_identity (d_ctm st) && _ && _).
  - set (irect := r_inter _ (surface_rect st)).
    destruct (r_empty irect) eqn:Ee; [eexists; reflexivity|].
    assert (Hb : 0 <= x0 irect /\ x0 irect < x1 irect /\ x1 irect <= d_w st /\
                 0 <= y0 irect /\ y0 irect < y1 irect /\ y1 irect <= d_h st).
    { unfold r_empty in Ee. unfold irect, r_inter, surface_rect in *. cbn [x0 y0 x1 y1] in *. lia. }
    destruct Hb as (B1 & B2 & B3 & B4 & B5 & B6).
    exact (composite_total_plain st src None irect (o_blend o) (o_alpha o) Hplain Hbuf Hsrc Hmode B1 B2 B3 B4 B5 B6 I).
  - exact (fill_polygon_total st (rect_path x y w h) src o Hplain Hbuf Hsrc Hmode HH Hidle (rect_path_polygon x y w h)).
Qed.

(* total form of (b): for the 24 separable modes both routes return, with the same buffer *)
Theorem fill_rect_negative_size_total st x y w h src o :
  plain_dt st -> Forall px_ok (d_buf st) -> source_ok src -> In (o_blend o) separable_modes ->
  d_ctm st = xf_identity -> 0 <= d_w st -> 0 < d_h st ->
  rz (d_cur st) = rast_new (d_w st) (d_h st) ->
  let ix := to_i32 x in let iy := to_i32 y in let iw := to_i32 w in let ih := to_i32 h in
  iw <> 0 -> ih <> 0 ->
  Z.abs ix < 4194304 -> Z.abs iy < 4194304 -> Z.abs iw < 16777216 -> Z.abs ih < 16777216 ->
  Z.abs (ix + iw) < 4194304 -> Z.abs (iy + ih) < 4194304 ->
  exists stF stG,
    fill_rect st x y w h src o = Ok stF /\ fill st (rect_path x y w h) src o = Ok stG /\ d_buf stF = d_buf stG.
Proof.
  intros Hplain Hbuf Hsrc Hmode Hctm HW HH Hidle ix iy iw ih Hiw Hih Bx By Bw Bh Bxw Byh.
  destruct (fill_polygon_total st (rect_path x y w h) src o Hplain Hbuf Hsrc Hmode HH Hidle (rect_path_polygon x y w h))
    as [stG HG].
  destruct (fill_rect_total st x y w h src o Hplain Hbuf Hsrc Hmode HH Hidle) as [stF HF].
  exists stF, stG. split; [exact HF|]. split; [exact HG|].
  exact (fill_rect_negative_size_agree st x y w h src o stF stG Hplain Hbuf Hsrc Hctm HW HH Hidle Hiw Hih
           Bx By Bw Bh Bxw Byh HF HG).
Qed.

(* ---- (a) a clip rectangle that covers the surface ---- *)
Definition covers_surface (st : dt) (R : rect) : Prop :=
  x0 R <= 0 /\ y0 R <= 0 /\ d_w st <= x1 R /\ d_h st <= y1 R.

Lemma push_covering_csim st R : d_clips st = [] -> 0 <= d_w st -> 0 <= d_h st -> covers_surface st R ->
  csim st (push_clip_rect st R).
Proof.
  intros Hc HW HH (C1 & C2 & C3 & C4). unfold csim, push_clip_rect. rewrite Hc.
  cbn [with_clips d_w d_h d_buf d_layers d_probe].
  split; [reflexivity|]. split; [reflexivity|]. split; [reflexivity|]. split; [reflexivity|]. split; [reflexivity|].
  split.
  - unfold clip_bounds. cbn [with_clips d_clips c_rect]. rewrite Hc.
    unfold surface_rect, r_inter. cbn [x0 y0 x1 y1 with_clips d_w d_h]. f_equal; lia.
  - unfold top_clip_mask. cbn [with_clips d_clips c_mask]. rewrite Hc. reflexivity.
Qed.

Lemma fill_rect_clipped_is_fill st R x y w h src o :
  fill_rect (push_clip_rect st R) x y w h src o = fill (push_clip_rect st R) (rect_path x y w h) src o.
Proof.
  unfold fill_rect. cbv zeta. unfold push_clip_rect at 2. cbn [with_clips d_clips].
  rewrite andb_false_r. reflexivity.
Qed.

Lemma fill_same_path_sim a b p src o : csim a b -> d_ctm b = d_ctm a -> d_cur b = d_cur a ->
  out_rel a b (fill a p src o) (fill b p src o).
Proof.
  intros H Ec Eu. apply fill_sim; [exact H|apply same_shader_same_ctm; exact Ec|reflexivity|].
  destruct H as (A & B & _). rewrite B, Ec, Eu. reflexivity.
Qed.

(* C14 (a): fill_rect under a clip rectangle covering the whole surface (general route) writes the pixels of
   fill_rect without it (fast route when the rectangle is an integer rectangle) *)
Theorem fill_rect_covering_clip_agree st R x y w h src o stF stC :
  plain_dt st -> Forall px_ok (d_buf st) -> source_ok src ->
  d_ctm st = xf_identity -> 0 <= d_w st -> 0 < d_h st ->
  rz (d_cur st) = rast_new (d_w st) (d_h st) -> covers_surface st R ->
  let ix := to_i32 x in let iy := to_i32 y in let iw := to_i32 w in let ih := to_i32 h in
  iw <> 0 -> ih <> 0 ->
  Z.abs ix < 4194304 -> Z.abs iy < 4194304 -> Z.abs iw < 16777216 -> Z.abs ih < 16777216 ->
  Z.abs (ix + iw) < 4194304 -> Z.abs (iy + ih) < 4194304 ->
  fill_rect st x y w h src o = Ok stF ->
  fill_rect (push_clip_rect st R) x y w h src o = Ok stC ->
  d_buf stF = d_buf stC /\ d_clips stC = d_clips (push_clip_rect st R).
Proof.
  intros Hplain Hbuf Hsrc Hctm HW HH Hidle Hcov ix iy iw ih Hiw Hih Bx By Bw Bh Bxw Byh HF HC.
  rewrite fill_rect_clipped_is_fill in HC.
  pose proof Hplain as (Hp & Hl & Hc & Hlen).
  pose proof (fill_same_path_sim st (push_clip_rect st R) (rect_path x y w h) src o
                (push_covering_csim st R Hc HW ltac:(lia) Hcov) eq_refl eq_refl) as Rel.
  rewrite HC in Rel.
  destruct (fill st (rect_path x y w h) src o) as [stG|e] eqn:HG; cbn [out_rel] in Rel; [|contradiction].
  destruct Rel as ((A & B & C & D & E & F & G) & C1 & C2 & _).
  rewrite (fill_rect_negative_size_agree st x y w h src o stF stG Hplain Hbuf Hsrc Hctm HW HH Hidle Hiw Hih
             Bx By Bw Bh Bxw Byh HF HG).
  split; [symmetry; exact C|exact C2].
Qed.
Print Assumptions fill_rect_covering_clip_agree.

Theorem fill_rect_covering_clip_total st R x y w h src o :
  plain_dt st -> Forall px_ok (d_buf st) -> source_ok src -> In (o_blend o) separable_modes ->
  d_ctm st = xf_identity -> 0 <= d_w st -> 0 < d_h st ->
  rz (d_cur st) = rast_new (d_w st) (d_h st) -> covers_surface st R ->
  let ix := to_i32 x in let iy := to_i32 y in let iw := to_i32 w in let ih := to_i32 h in
  iw <> 0 -> ih <> 0 ->
  Z.abs ix < 4194304 -> Z.abs iy < 4194304 -> Z.abs iw < 16777216 -> Z.abs ih < 16777216 ->
  Z.abs (ix + iw) < 4194304 -> Z.abs (iy + ih) < 4194304 ->
  exists stF stC,
    fill_rect st x y w h src o = Ok stF /\ fill_rect (push_clip_rect st R) x y w h src o = Ok stC /\
    d_buf stF = d_buf stC.
Proof.
  intros Hplain Hbuf Hsrc Hmode Hctm HW HH Hidle Hcov ix iy iw ih Hiw Hih Bx By Bw Bh Bxw Byh.
  destruct (fill_rect_total st x y w h src o Hplain Hbuf Hsrc Hmode HH Hidle) as [stF HF].
  destruct (fill_polygon_total st (rect_path x y w h) src o Hplain Hbuf Hsrc Hmode HH Hidle (rect_path_polygon x y w h))
    as [stG HG].
  pose proof Hplain as (Hp & Hl & Hc & Hlen).
  pose proof (fill_same_path_sim st (push_clip_rect st R) (rect_path x y w h) src o
                (push_covering_csim st R Hc HW ltac:(lia) Hcov) eq_refl eq_refl) as Rel.
  rewrite HG in Rel.
  destruct (fill (push_clip_rect st R) (rect_path x y w h) src o) as [stC|e] eqn:HC; cbn [out_rel] in Rel; [|contradiction].
  exists stF, stC. split; [exact HF|]. split; [rewrite fill_rect_clipped_is_fill; exact HC|].
  rewrite <- fill_rect_clipped_is_fill in HC.
  exact (proj1 (fill_rect_covering_clip_agree st R x y w h src o stF stC Hplain Hbuf Hsrc Hctm HW HH Hidle Hcov Hiw Hih
                  Bx By Bw Bh Bxw Byh HF HC)).
Qed.

(* ---- (c) clear ---- *)
(* C14 (c): clear(c) with an empty clip stack (direct fill of the buffer) and clear(c) under a covering clip
   rectangle (a Src fill of the surface rectangle under the identity) give the same buffer: every pixel is c *)
Theorem clear_routes_agree_full st R c a b :
  plain_dt st -> Forall px_ok (d_buf st) -> wf_px c ->
  0 < d_w st < 4194304 -> 0 < d_h st < 4194304 ->
  rz (d_cur st) = rast_new (d_w st) (d_h st) -> covers_surface st R ->
  clear st c = Ok a -> clear (push_clip_rect st R) c = Ok b ->
  d_buf a = d_buf b /\ d_buf a = map (fun _ => c) (d_buf st) /\ d_ctm b = d_ctm st.
Proof.
  intros Hplain Hbuf Hwc HW HH Hidle Hcov HA HB.
  pose proof Hplain as (Hp & Hl & Hc & Hlen).
  (* the direct route *)
  assert (EA : d_buf a = map (fun _ => c) (d_buf st)).
  { unfold clear in HA. rewrite Hc in HA. unfold dest_of in HA. rewrite Hl in HA. rewrite Hp in HA.
    cbn [Z.eqb] in HA. injection HA as <-. unfold set_dest. rewrite Hl. reflexivity. }
  (* the clipped route *)
  unfold clear in HB. unfold push_clip_rect at 1 in HB. cbn [with_clips d_clips] in HB.
  set (stc := push_clip_rect st R) in *.
  set (P := rect_path f0 f0 (of_int (d_w stc)) (of_int (d_h stc))) in *.
  set (opts := mk_opts Src f1 true) in *.
  destruct (fill (with_ctm stc xf_identity) P (Solid c) opts) as [st'|e] eqn:HFc; [|discriminate].
  cbn [bind] in HB. injection HB as <-.
  set (st0 := with_ctm st xf_identity).
  assert (Hcs : csim st0 (with_ctm stc xf_identity)) by exact (push_covering_csim st R Hc ltac:(lia) ltac:(lia) Hcov).
  pose proof (fill_same_path_sim st0 (with_ctm stc xf_identity) P (Solid c) opts Hcs eq_refl eq_refl) as Rel.
  rewrite HFc in Rel.
  destruct (fill st0 P (Solid c) opts) as [stG|e] eqn:HG; cbn [out_rel] in Rel; [|contradiction].
  destruct Rel as ((A & B & C & D & E & F & G) & C1 & C2 & T1 & T2 & _).
  assert (Hplain0 : plain_dt st0) by exact Hplain.
  destruct xf_inverse_identity as [ti Hti].
  assert (Hal : rect_aligned_g (d_ctm st0) f0 f0 (of_int (d_w st)) (of_int (d_h st)) 0 0 (d_w st) (d_h st)).
  { apply (rect_aligned_fint f0 f0 (of_int (d_w st)) (of_int (d_h st)) 0 0 (d_w st) (d_h st));
      try exact f0_fint; try (apply of_int_fint; unfold small; lia); lia. }
  destruct (fill_rect_general_route_g st0 f0 f0 (of_int (d_w st)) (of_int (d_h st)) (Solid c) opts 0 0 (d_w st) (d_h st) ti stG
              Hplain0 Hti ltac:(cbn; lia) ltac:(cbn; lia) Hidle Hal ltac:(lia) ltac:(lia) HG) as (LG & PG).
  cbv zeta in PG. change (d_w st0) with (d_w st) in *. change (d_h st0) with (d_h st) in *. change (d_buf st0) with (d_buf st) in *.
  split; [|split; [exact EA|cbn [with_ctm d_ctm]; reflexivity]].
  rewrite EA. cbn [with_ctm d_buf]. rewrite C.
  apply list_eq_zn.
  - rewrite map_length. unfold zlen in LG. lia.
  - intros i Hi. unfold zlen in Hi. rewrite map_length in Hi. fold (zlen (d_buf st)) in Hi. rewrite Hlen in Hi.
    rewrite zn_map by (rewrite Hlen; exact Hi).
    assert (HX : 0 <= i mod d_w st < d_w st) by (apply Z.mod_pos_bound; lia).
    assert (HY : 0 <= i / d_w st < d_h st).
    { split; [apply Z.div_pos; lia|]. apply Z.div_lt_upper_bound; [lia|]. lia. }
    assert (Ei : i = i / d_w st * d_w st + i mod d_w st).
    { pose proof (Z.div_mod i (d_w st) ltac:(lia)). lia. }
    specialize (PG _ _ HX HY). rewrite <- Ei in PG.
    replace (r_in _ (i mod d_w st) (i / d_w st)) with true in PG.
    2:{ symmetry. unfold r_in, r_inter, surface_rect, st0. cbn [x0 y0 x1 y1 with_ctm d_w d_h]. lia. }
    rewrite solid_shader_alpha_one in PG. cbn [shade o_blend opts] in PG.
    pose proof (clear_colour_is_exact c Hwc) as Ecol. unfold alpha_to_alpha256 in Ecol. change (255 + 1) with 256 in Ecol.
    rewrite Ecol in PG.
    rewrite (src_replaces c (zn (d_buf st) i) Hwc (proj1 (zn_ok _ i Hbuf))) in PG.
    injection PG as PG. congruence.
Qed.
Print Assumptions clear_routes_agree_full.

(* total form of (c): with a premultiplied colour both calls return *)
Theorem clear_routes_total st R c :
  plain_dt st -> Forall px_ok (d_buf st) -> px_ok c ->
  0 < d_w st < 4194304 -> 0 < d_h st < 4194304 ->
  rz (d_cur st) = rast_new (d_w st) (d_h st) -> covers_surface st R ->
  exists a b, clear st c = Ok a /\ clear (push_clip_rect st R) c = Ok b /\ d_buf a = d_buf b.
Proof.
  intros Hplain Hbuf Hc HW HH Hidle Hcov.
  pose proof Hplain as (Hp & Hl & Hcl & Hlen).
  assert (HA : exists a, clear st c = Ok a).
  { unfold clear. rewrite Hcl. destruct (dest_of st). eexists; reflexivity. }
  destruct HA as [a HA].
  assert (HB : exists b, clear (push_clip_rect st R) c = Ok b).
  { unfold clear. unfold push_clip_rect at 1. cbn [with_clips d_clips].
    set (stc := push_clip_rect st R).
    set (P := rect_path f0 f0 (of_int (d_w stc)) (of_int (d_h stc))).
    set (opts := mk_opts Src f1 true).
    set (st0 := with_ctm st xf_identity).
    assert (Hcs : csim st0 (with_ctm stc xf_identity)) by exact (push_covering_csim st R Hcl ltac:(lia) ltac:(lia) Hcov).
    pose proof (fill_same_path_sim st0 (with_ctm stc xf_identity) P (Solid c) opts Hcs eq_refl eq_refl) as Rel.
    assert (Hplain0 : plain_dt st0) by exact Hplain.
    destruct (fill_polygon_total st0 P (Solid c) opts Hplain0 Hbuf Hc) as [stG HG].
    - cbn. tauto.
    - cbn. lia.
    - exact Hidle.
    - reflexivity.
    - rewrite HG in Rel.
      destruct (fill (with_ctm stc xf_identity) P (Solid c) opts) as [st'|e]; cbn [out_rel] in Rel; [|contradiction].
      cbn [bind]. eexists; reflexivity. }
  destruct HB as [b HB].
  exists a, b. split; [exact HA|]. split; [exact HB|].
  exact (proj1 (clear_routes_agree_full st R c a b Hplain Hbuf (proj1 Hc) HW HH Hidle Hcov HA HB)).
Qed.
Print Assumptions clear_routes_total.

(* non-vacuity (vm_compute): a rectangle with negative width and height on a 6x5 translucent surface, Multiply; and
   clear under a covering clip rectangle on a 4x3 surface *)
Example fill_rect_negative_example :
  let st := dt_new 6 5 (repeat 2151686160 30) in
  let x := of_int 4 in let y := of_int 4 in let w := of_int (-3) in let h := of_int (-2) in
  let o := mk_opts Multiply f1 true in
  match fill_rect st x y w h (Solid 2155905152) o, fill st (rect_path x y w h) (Solid 2155905152) o with
  | Ok a, Ok b => d_buf a = d_buf b /\ zn (d_buf a) 13 = 3229638736 /\ zn (d_buf a) 12 = 2151686160
  | _, _ => False
  end.
Proof. vm_compute. repeat split; reflexivity. Qed.

Example clear_covering_example :
  let st := dt_new 4 3 (repeat 2151686160 12) in
  match clear st 4286611584, clear (push_clip_rect st (mkrect (-1) (-1) 10 10)) 4286611584 with
  | Ok a, Ok b => d_buf a = d_buf b /\ d_buf a = repeat 4286611584 12
  | _, _ => False
  end.
Proof. vm_compute. repeat split; reflexivity. Qed.
