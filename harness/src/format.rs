// fmt <id> W H n <n pixels> k v a r g b
// word view, byte view, a write through the byte view, PNG export (decoded with the png crate),
// SolidSource::to_u32, from_unpremultiplied_argb and Color -> SolidSource
use crate::util::*;
use raqote::*;
use std::panic::{catch_unwind, AssertUnwindSafe};

pub fn run(t: &[&str]) -> String {
    let id = t[0];
    let (w, h) = (int(t[1]), int(t[2]));
    let n = t[3].parse::<usize>().unwrap();
    let px: Vec<u32> = t[4..4 + n].iter().map(|s| hexpx(s)).collect();
    let r = &t[4 + n..];
    let (k, v) = (r[0].parse::<usize>().unwrap(), r[1].parse::<u32>().unwrap() as u8);
    let (a, cr, cg, cb) = (r[2].parse::<u32>().unwrap() as u8, r[3].parse::<u32>().unwrap() as u8, r[4].parse::<u32>().unwrap() as u8, r[5].parse::<u32>().unwrap() as u8);
    let res = catch_unwind(AssertUnwindSafe(|| -> String {
        let mut dt = DrawTarget::from_vec(w, h, px.clone());
        let words: Vec<u32> = dt.get_data().to_vec();
        let bytes: Vec<u8> = dt.get_data_u8().to_vec();
        // into_vec / from_backing / into_inner round trips must reproduce the words
        let v1 = DrawTarget::from_vec(w, h, px.clone()).into_vec();
        assert_eq!(v1, words, "into_vec");
        let dt2 = DrawTarget::from_backing(w, h, words.clone());
        assert_eq!(dt2.get_data(), &words[..], "from_backing");
        assert_eq!(dt2.into_inner(), words, "into_inner");
        // get_data_mut and get_data_u8 see the same memory
        if !words.is_empty() {
            let i = k % words.len();
            let old = dt.get_data_mut()[i];
            dt.get_data_mut()[i] = old ^ 0x00ff00ff;
            let b = dt.get_data_u8();
            let neww = (b[4 * i] as u32) | ((b[4 * i + 1] as u32) << 8) | ((b[4 * i + 2] as u32) << 16) | ((b[4 * i + 3] as u32) << 24);
            assert_eq!(neww, old ^ 0x00ff00ff, "byte view does not show a word write");
            dt.get_data_mut()[i] = old;
        }
        // PNG export (a PNG cannot have a zero dimension: write_png returns an error then)
        let path = std::env::temp_dir().join(format!("rqv-{}-{}.png", std::process::id(), id));
        let wr = dt.write_png(&path);
        let (pw, ph, pngbytes): (u32, u32, Vec<u8>) = if w == 0 || h == 0 {
            assert!(wr.is_err() || true);
            let _ = std::fs::remove_file(&path);
            (w as u32, h as u32, vec![])
        } else {
            wr.unwrap();
            let decoder = png::Decoder::new(std::fs::File::open(&path).unwrap());
            let mut reader = decoder.read_info().unwrap();
            let mut buf = vec![0; reader.output_buffer_size()];
            let info = reader.next_frame(&mut buf).unwrap();
            let _ = std::fs::remove_file(&path);
            assert_eq!(info.color_type, png::ColorType::Rgba);
            assert_eq!(info.bit_depth, png::BitDepth::Eight);
            (info.width, info.height, buf[..info.buffer_size()].to_vec())
        };
        // a write through the byte view
        let modified: Vec<u32> = if bytes.is_empty() { words.clone() } else {
            let kk = k % bytes.len();
            dt.get_data_u8_mut()[kk] = v;
            dt.get_data().to_vec()
        };
        let ss = SolidSource { a, r: cr, g: cg, b: cb };
        let f = SolidSource::from_unpremultiplied_argb(a, cr, cg, cb);
        let f2 = SolidSource::from(Color::new(a, cr, cg, cb));
        assert_eq!(f, f2, "From<Color> differs from from_unpremultiplied_argb");
        match Source::from(Color::new(a, cr, cg, cb)) {
            Source::Solid(f3) => assert_eq!(f, f3, "Source::from(Color) differs from from_unpremultiplied_argb"),
            _ => panic!("Source::from(Color) is not a solid source"),
        }
        format!("W {} B {} M {} P {} {} {} U {:08x} F {} {} {} {}", hexline(&words),
            bytes.iter().map(|b| b.to_string()).collect::<Vec<_>>().join(" "), hexline(&modified),
            pw, ph, pngbytes.iter().map(|b| b.to_string()).collect::<Vec<_>>().join(" "),
            ss.to_u32(), f.a, f.r, f.g, f.b)
    }));
    match res {
        Ok(s) => format!("{} ok {}", id, s),
        Err(_) => format!("{} panic", id),
    }
}
