// Correspondence harness: runs the real raqote crate (path dependency on /repo, rebuilt from the
// current working tree, hooks on) on case lines read from stdin and prints one result line per
// case in the same format as the extracted model's driver.
use raqote::*;
use std::io::{BufRead, Write};
use std::panic::{catch_unwind, AssertUnwindSafe};

mod util;
mod surface;
mod scene;

fn main() {
    if std::env::var("RQV_VERBOSE").is_err() {
        std::panic::set_hook(Box::new(|_| {}));
    }
    let aug = std::env::args().nth(1).map(|a| a == "aug").unwrap_or(false);
    let stdin = std::io::stdin();
    let stdout = std::io::stdout();
    let mut out = std::io::BufWriter::new(stdout.lock());
    for line in stdin.lock().lines() {
        let line = line.unwrap();
        let toks: Vec<&str> = line.split_whitespace().collect();
        if toks.is_empty() {
            continue;
        }
        let res = match toks[0] {
            "surf" => surface::run(&toks[1..]),
            "scene" => scene::run(&toks[1..], aug),
            k => panic!("unknown case kind {}", k),
        };
        writeln!(out, "{}", res).unwrap();
        out.flush().unwrap();
    }
}
