// Correspondence harness: runs the real raqote crate (path dependency on /repo, rebuilt from the
// current working tree, hooks on) on case lines read from stdin and prints one result line per
// case in the same format as the extracted model's driver.
// Every case runs on a worker thread under a watchdog: a case that does not finish within
// RQV_CASE_TIMEOUT_MS (default 10000) is reported as `<id> hang` and its thread is abandoned.
use std::io::{BufRead, Write};
use std::sync::mpsc;
use std::time::Duration;

mod util;
mod surface;
mod scene;
mod pathops;
mod format;

fn run_line(line: &str, aug: bool) -> String {
    let toks: Vec<&str> = line.split_whitespace().collect();
    if toks.is_empty() {
        return String::new();
    }
    match toks[0] {
        "surf" => surface::run(&toks[1..]),
        "scene" => scene::run(&toks[1..], aug),
        "fmt" => format::run(&toks[1..]),
        k @ ("pcontains" | "pflatten" | "pdash" | "pstroke" | "prect" | "ptransform" | "parc" | "pbuild") => pathops::run(k, &toks[1..], aug),
        k => panic!("unknown case kind {}", k),
    }
}

fn spawn_worker(aug: bool) -> (mpsc::Sender<String>, mpsc::Receiver<String>) {
    let (tx_line, rx_line) = mpsc::channel::<String>();
    let (tx_res, rx_res) = mpsc::channel::<String>();
    std::thread::Builder::new().stack_size(64 << 20).spawn(move || {
        for line in rx_line {
            let r = std::panic::catch_unwind(|| run_line(&line, aug)).unwrap_or_else(|_| {
                let id = line.split_whitespace().nth(1).unwrap_or("?").to_string();
                format!("{} panic", id)
            });
            if tx_res.send(r).is_err() {
                break;
            }
        }
    }).unwrap();
    (tx_line, rx_res)
}

fn main() {
    if std::env::var("RQV_VERBOSE").is_err() {
        std::panic::set_hook(Box::new(|_| {}));
    }
    let aug = std::env::args().nth(1).map(|a| a == "aug").unwrap_or(false);
    let timeout = std::env::var("RQV_CASE_TIMEOUT_MS").ok().and_then(|v| v.parse().ok()).unwrap_or(10000u64);
    let stdin = std::io::stdin();
    let stdout = std::io::stdout();
    let mut out = std::io::BufWriter::new(stdout.lock());
    let (mut tx, mut rx) = spawn_worker(aug);
    for line in stdin.lock().lines() {
        let line = line.unwrap();
        if line.trim().is_empty() {
            continue;
        }
        tx.send(line.clone()).unwrap();
        let res = match rx.recv_timeout(Duration::from_millis(timeout)) {
            Ok(r) => r,
            Err(_) => {
                // abandon the stuck worker
                let w = spawn_worker(aug);
                tx = w.0;
                rx = w.1;
                let id = line.split_whitespace().nth(1).unwrap_or("?").to_string();
                if aug { format!("HANG {}", line) } else { format!("{} hang", id) }
            }
        };
        writeln!(out, "{}", res).unwrap();
        out.flush().unwrap();
    }
}
