// path engine: public path utilities on case lines
//   pcontains <id> tol x y <path> [FLAT <path>]      -> true/false   (aug adds FLAT = path.flatten(tol))
//   pflatten  <id> tol <path> [ORACLE n (k pts)*]    -> path         (aug adds lyon's points per curve)
//   pdash     <id> n dashes offset <flat path>       -> path         (hooked dash_path)
//   pstroke   <id> STYLE ... <flat path>             -> path
//   prect     <id> x y w h                           -> path
//   ptransform <id> <6 floats> <path>                -> path
//   parc      <id> x y r start sweep                 -> path         (implementation only; checked by the oracle)
use crate::scene::{fmt_path_opt, parse_path, parse_style, Cur};
fn fmt_path(p: &Path, t: &Transform) -> String { fmt_path_opt(p, t, false) }
use crate::util::*;
use lyon_geom::{CubicBezierSegment, QuadraticBezierSegment};
use raqote::*;
use std::panic::{catch_unwind, AssertUnwindSafe};

fn ptb(p: Point) -> String { format!("{} {}", p.x.to_bits(), p.y.to_bits()) }

/// per-curve flattening by lyon from the segment start the fill-side cursor semantics gives
fn flatten_oracle(path: &Path, tol: f32) -> String {
    let mut cur: Option<Point> = None;
    let mut start: Option<Point> = None;
    let mut out: Vec<String> = Vec::new();
    for op in &path.ops {
        match *op {
            PathOp::MoveTo(p) => { cur = Some(p); start = Some(p); }
            PathOp::LineTo(p) => { if cur.is_none() { start = Some(p); } cur = Some(p); }
            PathOp::Close => { cur = start; }
            PathOp::QuadTo(c, p) => {
                if cur.is_none() { start = Some(c); }
                let seg = QuadraticBezierSegment { from: cur.unwrap_or(c), ctrl: c, to: p };
                let pts: Vec<String> = seg.flattened(tol).map(ptb).collect();
                out.push(format!("{} {}", pts.len(), pts.join(" ")));
                cur = Some(p);
            }
            PathOp::CubicTo(c1, c2, p) => {
                if cur.is_none() { start = Some(c1); }
                let seg = CubicBezierSegment { from: cur.unwrap_or(c1), ctrl1: c1, ctrl2: c2, to: p };
                let pts: Vec<String> = seg.flattened(tol).map(ptb).collect();
                out.push(format!("{} {}", pts.len(), pts.join(" ")));
                cur = Some(p);
            }
        }
    }
    format!("ORACLE {} {}", out.len(), out.join(" "))
}

pub fn run(kind: &str, t: &[&str], aug: bool) -> String {
    let mut c = Cur { t, i: 0 };
    let id = c.next();
    let ident = Transform::identity();
    if aug {
        let head = format!("{} {}", kind, id);
        return match kind {
            "pcontains" => {
                let (tol, x, y) = (c.f(), c.f(), c.f());
                let p = parse_path(&mut c);
                let flat = catch_unwind(AssertUnwindSafe(|| p.flatten(tol)));
                let flat = flat.unwrap_or(Path { ops: vec![], winding: p.winding });
                format!("{} {} {} {} {} FLAT {}", head, tol.to_bits(), x.to_bits(), y.to_bits(), fmt_path(&p, &ident), fmt_path(&flat, &ident))
            }
            "pflatten" => {
                let tol = c.f();
                let p = parse_path(&mut c);
                let o = catch_unwind(AssertUnwindSafe(|| flatten_oracle(&p, tol))).unwrap_or("ORACLE 0".to_string());
                format!("{} {} {} {}", head, tol.to_bits(), fmt_path(&p, &ident), o)
            }
            _ => format!("{} {}", kind, t.join(" ")),
        };
    }
    let r = catch_unwind(AssertUnwindSafe(|| -> String {
        match kind {
            "pcontains" => {
                let (tol, x, y) = (c.f(), c.f(), c.f());
                let p = parse_path(&mut c);
                format!("{}", p.contains_point(tol, x, y))
            }
            "pflatten" => { let tol = c.f(); let p = parse_path(&mut c); fmt_path(&p.flatten(tol), &ident) }
            "pdash" => {
                let n = c.int();
                let arr: Vec<f32> = (0..n).map(|_| c.f()).collect();
                let off = c.f();
                let p = parse_path(&mut c);
                fmt_path(&dash_path(&p, &arr, off), &ident)
            }
            "pstroke" => { let st = parse_style(&mut c); let p = parse_path(&mut c); fmt_path(&stroke_to_path(&p, &st), &ident) }
            "prect" => { let (x, y, w, h) = (c.f(), c.f(), c.f(), c.f()); let mut pb = PathBuilder::new(); pb.rect(x, y, w, h); fmt_path(&pb.finish(), &ident) }
            "ptransform" => { let xf = c.xf(); let p = parse_path(&mut c); fmt_path(&p.transform(&xf), &ident) }
            "pbuild" => {
                let n = c.int();
                let mut pb = PathBuilder::new();
                for _ in 0..n {
                    match c.next() {
                        "m" => { let (x, y) = (c.f(), c.f()); pb.move_to(x, y); }
                        "l" => { let (x, y) = (c.f(), c.f()); pb.line_to(x, y); }
                        "q" => { let (a, b, x, y) = (c.f(), c.f(), c.f(), c.f()); pb.quad_to(a, b, x, y); }
                        "c" => { let (a, b, d, e, x, y) = (c.f(), c.f(), c.f(), c.f(), c.f(), c.f()); pb.cubic_to(a, b, d, e, x, y); }
                        "z" => pb.close(),
                        "r" => { let (x, y, w, h) = (c.f(), c.f(), c.f(), c.f()); pb.rect(x, y, w, h); }
                        t => panic!("pbuild call {}", t),
                    }
                }
                fmt_path(&pb.finish(), &ident)
            }
            "parc" => {
                let (x, y, r, a0, sw) = (c.f(), c.f(), c.f(), c.f(), c.f());
                let mut pb = PathBuilder::new();
                if c.peek() == "from" { c.next(); let (fx, fy) = (c.f(), c.f()); pb.move_to(fx, fy); }
                pb.arc(x, y, r, a0, sw);
                fmt_path(&pb.finish(), &ident)
            }
            k => panic!("path kind {}", k),
        }
    }));
    match r {
        Ok(s) => format!("{} ok {}", id, s),
        Err(_) => format!("{} panic", id),
    }
}
