// scene <id> <W> <H> I <pixels> ; op ; op ...
// `aug`: rewrite the case adding what the model takes as oracle input from the crate itself
//        (lyon's quadratic approximation of every cubic under the transform in force, and the
//        stroked outline of every stroke op).
// `run`: execute the scene on a real DrawTarget and print the observable state after every op.
use crate::util::*;
use lyon_geom::CubicBezierSegment;
use raqote::*;
use std::panic::{catch_unwind, AssertUnwindSafe};

pub struct Cur<'a, 'b> {
    pub t: &'a [&'b str],
    pub i: usize,
}
impl<'a, 'b> Cur<'a, 'b> {
    pub fn peek(&self) -> &'b str {
        if self.i < self.t.len() { self.t[self.i] } else { "" }
    }
    pub fn next(&mut self) -> &'b str {
        let s = self.t[self.i];
        self.i += 1;
        s
    }
    pub fn int(&mut self) -> i32 { int(self.next()) }
    pub fn f(&mut self) -> f32 { f32b(self.next()) }
    pub fn pt(&mut self) -> Point { let x = self.f(); let y = self.f(); Point::new(x, y) }
    pub fn hex(&mut self) -> u32 { hexpx(self.next()) }
    pub fn xf(&mut self) -> Transform {
        let a = self.f(); let b = self.f(); let c = self.f(); let d = self.f(); let e = self.f(); let f = self.f();
        Transform::new(a, b, c, d, e, f)
    }
    pub fn rect(&mut self) -> IntRect {
        let a = self.int(); let b = self.int(); let c = self.int(); let d = self.int();
        IntRect::new(IntPoint::new(a, b), IntPoint::new(c, d))
    }
}

pub fn parse_path(c: &mut Cur) -> Path {
    assert_eq!(c.next(), "P");
    let winding = if c.int() == 0 { Winding::NonZero } else { Winding::EvenOdd };
    let n = c.int();
    let mut ops = Vec::new();
    for _ in 0..n {
        match c.next() {
            "M" => ops.push(PathOp::MoveTo(c.pt())),
            "L" => ops.push(PathOp::LineTo(c.pt())),
            "Q" => { let a = c.pt(); let b = c.pt(); ops.push(PathOp::QuadTo(a, b)) }
            "C" => {
                let a = c.pt(); let b = c.pt(); let d = c.pt();
                assert_eq!(c.next(), "K");
                let k = c.int();
                for _ in 0..(k * 6) { c.next(); }
                ops.push(PathOp::CubicTo(a, b, d))
            }
            "Z" => ops.push(PathOp::Close),
            "A" => {
                // PathBuilder::arc(x, y, r, start, sweep) issued at this point of the path: everything so far is replayed
                // through a PathBuilder (finish() returns the ops of the calls in call order: C20), then the arc is added
                let (x, y, r, a0, sw) = (c.f(), c.f(), c.f(), c.f(), c.f());
                let mut pb = PathBuilder::new();
                for op in &ops {
                    match *op {
                        PathOp::MoveTo(p) => pb.move_to(p.x, p.y),
                        PathOp::LineTo(p) => pb.line_to(p.x, p.y),
                        PathOp::QuadTo(a, b) => pb.quad_to(a.x, a.y, b.x, b.y),
                        PathOp::CubicTo(a, b, d) => pb.cubic_to(a.x, a.y, b.x, b.y, d.x, d.y),
                        PathOp::Close => pb.close(),
                    }
                }
                pb.arc(x, y, r, a0, sw);
                ops = pb.finish().ops;
            }
            t => panic!("bad path op {}", t),
        }
    }
    Path { ops, winding }
}

fn fb(x: f32) -> String { format!("{}", x.to_bits()) }
fn ptb(p: Point) -> String { format!("{} {}", fb(p.x), fb(p.y)) }

/// print a path; cubics get the quads lyon produces under transform `t` (as apply_path computes them)
pub fn fmt_path(p: &Path, t: &Transform) -> String { fmt_path_opt(p, t, true) }
pub fn fmt_path_opt(p: &Path, t: &Transform, with_quads: bool) -> String {
    let mut s = format!("P {} {}", if p.winding == Winding::NonZero { 0 } else { 1 }, p.ops.len());
    let mut cur: Option<Point> = None;
    let mut first: Option<Point> = None;
    for op in &p.ops {
        match *op {
            PathOp::MoveTo(pt) => {
                s += &format!(" M {}", ptb(pt));
                let d = t.transform_point(pt);
                cur = Some(d); first = Some(d);
            }
            PathOp::LineTo(pt) => {
                s += &format!(" L {}", ptb(pt));
                let d = t.transform_point(pt);
                if cur.is_none() { first = Some(d); }
                cur = Some(d);
            }
            PathOp::QuadTo(a, b) => {
                s += &format!(" Q {} {}", ptb(a), ptb(b));
                if cur.is_none() { first = Some(t.transform_point(a)); }
                cur = Some(t.transform_point(b));
            }
            PathOp::CubicTo(a, b, d) => {
                let (ta, tb, td) = (t.transform_point(a), t.transform_point(b), t.transform_point(d));
                if cur.is_none() { cur = Some(ta); first = Some(ta); }
                let seg = CubicBezierSegment { from: cur.unwrap(), ctrl1: ta, ctrl2: tb, to: td };
                let mut quads = Vec::new();
                if with_quads { seg.for_each_quadratic_bezier(0.01, &mut |q| {
                    quads.push(format!("{} {} {}", ptb(q.from), ptb(q.ctrl), ptb(q.to)));
                }); }
                s += &format!(" C {} {} {} K {}", ptb(a), ptb(b), ptb(d), quads.len());
                for q in quads { s += " "; s += &q; }
                cur = Some(td);
            }
            PathOp::Close => { s += " Z"; cur = first; }
        }
    }
    s
}

pub struct OwnedImage { pub w: i32, pub h: i32, pub data: Vec<u32> }
pub fn parse_image(c: &mut Cur) -> OwnedImage {
    let w = c.int(); let h = c.int();
    let n = (w.max(0) as usize) * (h.max(0) as usize);
    let data = (0..n).map(|_| c.hex()).collect();
    OwnedImage { w, h, data }
}
fn parse_spread(c: &mut Cur) -> Spread {
    match c.next() { "pad" => Spread::Pad, "reflect" => Spread::Reflect, "repeat" => Spread::Repeat, t => panic!("spread {}", t) }
}
fn parse_stops(c: &mut Cur) -> Gradient {
    let n = c.int();
    let mut stops = Vec::new();
    for _ in 0..n {
        let position = c.f();
        let col = c.hex();
        stops.push(GradientStop { position, color: Color::new((col >> 24) as u8, (col >> 16) as u8, (col >> 8) as u8, col as u8) });
    }
    Gradient { stops }
}

pub enum Src { Solid(SolidSource), Image(OwnedImage, ExtendMode, FilterMode, Transform), Other(Source<'static>) }
impl Src {
    pub fn with<R>(&self, f: impl FnOnce(&Source) -> R) -> R {
        match self {
            Src::Solid(s) => f(&Source::Solid(*s)),
            Src::Image(im, e, fl, t) => f(&Source::Image(Image { width: im.w, height: im.h, data: &im.data }, *e, *fl, *t)),
            Src::Other(s) => f(s),
        }
    }
}
pub fn parse_source(c: &mut Cur) -> Src {
    match c.next() {
        "solid" => { let p = c.hex(); Src::Solid(SolidSource { a: (p >> 24) as u8, r: (p >> 16) as u8, g: (p >> 8) as u8, b: p as u8 }) }
        "image" => {
            let im = parse_image(c);
            let e = match c.next() { "pad" => ExtendMode::Pad, "repeat" => ExtendMode::Repeat, t => panic!("{}", t) };
            let f = match c.next() { "bilinear" => FilterMode::Bilinear, "nearest" => FilterMode::Nearest, t => panic!("{}", t) };
            let t = c.xf();
            Src::Image(im, e, f, t)
        }
        "linear" => { let g = parse_stops(c); let s = parse_spread(c); let t = c.xf(); Src::Other(Source::LinearGradient(g, s, t)) }
        "radial" => { let g = parse_stops(c); let s = parse_spread(c); let t = c.xf(); Src::Other(Source::RadialGradient(g, s, t)) }
        "linearc" => { let g = parse_stops(c); let s = parse_spread(c); let a = c.pt(); let b = c.pt(); Src::Other(Source::new_linear_gradient(g, a, b, s)) }
        "radialc" => { let g = parse_stops(c); let s = parse_spread(c); let a = c.pt(); let r = c.f(); Src::Other(Source::new_radial_gradient(g, a, r, s)) }
        "twocirclec" => { let g = parse_stops(c); let s = parse_spread(c); let a = c.pt(); let r1 = c.f(); let b = c.pt(); let r2 = c.f();
            Src::Other(Source::new_two_circle_radial_gradient(g, a, r1, b, r2, s)) }
        "sweepc" => { let g = parse_stops(c); let s = parse_spread(c); let a = c.pt(); let a0 = c.f(); let a1 = c.f();
            Src::Other(Source::new_sweep_gradient(g, a, a0, a1, s)) }
        t => panic!("source {}", t),
    }
}
pub fn parse_opts(c: &mut Cur) -> DrawOptions {
    let m = MODES[c.int() as usize];
    let alpha = c.f();
    let aa = c.int() != 0;
    DrawOptions { blend_mode: m, alpha, antialias: if aa { AntialiasMode::Gray } else { AntialiasMode::None } }
}
pub fn parse_style(c: &mut Cur) -> StrokeStyle {
    assert_eq!(c.next(), "STYLE");
    let width = c.f();
    let cap = match c.next() { "butt" => LineCap::Butt, "round" => LineCap::Round, "square" => LineCap::Square, t => panic!("{}", t) };
    let join = match c.next() { "miter" => LineJoin::Miter, "round" => LineJoin::Round, "bevel" => LineJoin::Bevel, t => panic!("{}", t) };
    let miter_limit = c.f();
    let n = c.int();
    let dash_array = (0..n).map(|_| c.f()).collect();
    let dash_offset = c.f();
    StrokeStyle { width, cap, join, miter_limit, dash_array, dash_offset }
}

/// what DrawTarget::stroke fills: stroke_to_path(dash_path(flatten(path)))
pub fn stroked_outline(path: &Path, style: &StrokeStyle, t: &Transform) -> Path {
    let tolerance = 0.1 / t.determinant().abs().sqrt();
    let mut p = path.flatten(tolerance);
    if !style.dash_array.is_empty() {
        p = dash_path(&p, &style.dash_array, style.dash_offset);
    }
    stroke_to_path(&p, style)
}

fn mask_hash(m: &[u8]) -> u64 {
    let mut h: u64 = 17;
    for b in m { h = (h * 31 + *b as u64 + 7) & 0xffffffff; }
    h
}

fn state_string(dt: &DrawTarget) -> String {
    let mut s = String::from("S");
    for p in dt.get_data() { s += &format!(" {:08x}", p); }
    if let Some((buf, r)) = dt.verif_top_layer() {
        s += &format!(" L {} {} {} {}", r.min.x, r.min.y, r.max.x, r.max.y);
        for p in buf { s += &format!(" {:08x}", p); }
    }
    let (cb, cm) = dt.verif_clip();
    s += &format!(" C {} {} {} {} {}", cb.min.x, cb.min.y, cb.max.x, cb.max.y,
        match cm { Some(m) => format!("{}", mask_hash(m)), None => "none".to_string() });
    let t = dt.get_transform();
    s += &format!(" T {} {} {} {} {} {}", t.m11.to_bits(), t.m12.to_bits(), t.m21.to_bits(), t.m22.to_bits(), t.m31.to_bits(), t.m32.to_bits());
    s += if dt.verif_rasterizer_idle() { " idle" } else { " busy" };
    s
}

/// copy tokens of the op starting at c.i up to (not including) the next ";" into out
fn copy_rest(c: &mut Cur, out: &mut String) {
    while c.peek() != ";" && c.peek() != "" { out.push(' '); out.push_str(c.next()); }
}

pub fn run(t: &[&str], aug: bool) -> String {
    let mut c = Cur { t, i: 0 };
    let id = c.next();
    let w = c.int(); let h = c.int();
    assert_eq!(c.next(), "I");
    let n = (w.max(0) as usize) * (h.max(0) as usize);
    let px: Vec<u32> = (0..n).map(|_| c.hex()).collect();
    let mut out = if aug {
        format!("scene {} {} {} I {}", id, w, h, hexline(&px))
    } else {
        id.to_string()
    };
    let mut dt = match catch_unwind(AssertUnwindSafe(|| DrawTarget::from_vec(w, h, px))) {
        Ok(d) => d,
        Err(_) => return format!("{} | panic", id),
    };
    while c.peek() == ";" {
        c.next();
        let start = c.i;
        let kind = c.next();
        if aug {
            // re-emit the op, adding oracle data; keep the transform in step
            out += " ;";
            match kind {
                "xf" => { let xf = c.xf(); dt.set_transform(&xf); for k in start..c.i { out.push(' '); out.push_str(t[k]); } }
                "fill" | "clippath" | "tfill" => {
                    let p = parse_path(&mut c);
                    if kind == "tfill" {
                        // the cubics of the pre-transformed path are approximated under the identity
                        let tp = p.clone().transform(dt.get_transform());
                        let _ = tp;
                    }
                    out += &format!(" {} {}", kind, fmt_path(&p, dt.get_transform()));
                    copy_rest(&mut c, &mut out);
                }
                "stroke" => {
                    let p = parse_path(&mut c);
                    let pstart = c.i;
                    let style = parse_style(&mut c);
                    out += &format!(" stroke {}", fmt_path(&p, &Transform::identity()));
                    for k in pstart..c.i { out.push(' '); out.push_str(t[k]); }
                    // SRC <source> <opts>
                    while c.peek() != ";" && c.peek() != "" && c.peek() != "STROKED" { out.push(' '); out.push_str(c.next()); }
                    let tr = *dt.get_transform();
                    let outline = catch_unwind(AssertUnwindSafe(|| stroked_outline(&p, &style, &tr)));
                    match outline {
                        Ok(o) => out += &format!(" STROKED {}", fmt_path(&o, &tr)),
                        Err(_) => out += " STROKED P 0 0",
                    }
                    while c.peek() != ";" && c.peek() != "" { c.next(); }
                }
                _ => { out.push(' '); out.push_str(kind); copy_rest(&mut c, &mut out); }
            }
            continue;
        }
        let r = catch_unwind(AssertUnwindSafe(|| {
            match kind {
                "xf" => { let xf = c.xf(); dt.set_transform(&xf); }
                "cliprect" => { let r = c.rect(); dt.push_clip_rect(r); }
                "clippath" => { let p = parse_path(&mut c); dt.push_clip(&p); }
                "popclip" => dt.pop_clip(),
                "layer" => { let o = c.f(); let m = MODES[c.int() as usize]; dt.push_layer_with_blend(o, m); }
                "poplayer" => dt.pop_layer(),
                "fill" => { let p = parse_path(&mut c); let s = parse_source(&mut c); let o = parse_opts(&mut c); s.with(|s| dt.fill(&p, s, &o)); }
                "tfill" => {
                    let p = parse_path(&mut c); let s = parse_source(&mut c); let o = parse_opts(&mut c);
                    let ctm = *dt.get_transform();
                    let tp = p.transform(&ctm);
                    dt.set_transform(&Transform::identity());
                    s.with(|s| dt.fill(&tp, s, &o));
                    dt.set_transform(&ctm);
                }
                "stroke" => {
                    let p = parse_path(&mut c); let st = parse_style(&mut c);
                    assert_eq!(c.next(), "SRC");
                    let s = parse_source(&mut c); let o = parse_opts(&mut c);
                    s.with(|s| dt.stroke(&p, s, &st, &o));
                }
                "fillrect" => { let x = c.f(); let y = c.f(); let w = c.f(); let h = c.f();
                    let s = parse_source(&mut c); let o = parse_opts(&mut c); s.with(|s| dt.fill_rect(x, y, w, h, s, &o)); }
                "clear" => { let p = c.hex(); dt.clear(SolidSource { a: (p >> 24) as u8, r: (p >> 16) as u8, g: (p >> 8) as u8, b: p as u8 }); }
                "mask" => { let s = parse_source(&mut c); let x = c.int(); let y = c.int(); let mw = c.int(); let mh = c.int();
                    let n = (mw.max(0) as usize) * (mh.max(0) as usize);
                    let data: Vec<u8> = (0..n).map(|_| c.int() as u8).collect();
                    let m = Mask { width: mw, height: mh, data };
                    s.with(|s| dt.mask(s, x, y, &m)); }
                "drawimage" => { let x = c.f(); let y = c.f(); let im = parse_image(&mut c); let o = parse_opts(&mut c);
                    dt.draw_image_at(x, y, &Image { width: im.w, height: im.h, data: &im.data }, &o); }
                "drawimagesize" => { let w = c.f(); let h = c.f(); let x = c.f(); let y = c.f(); let im = parse_image(&mut c); let o = parse_opts(&mut c);
                    dt.draw_image_with_size_at(w, h, x, y, &Image { width: im.w, height: im.h, data: &im.data }, &o); }
                "surf" => { let kind = c.next(); let param = c.next(); let im = parse_image(&mut c); let r = c.rect(); let dx = c.int(); let dy = c.int();
                    let src = DrawTarget::from_vec(im.w, im.h, im.data);
                    match kind {
                        "copy" => dt.copy_surface(&src, r, IntPoint::new(dx, dy)),
                        "blend" => dt.blend_surface(&src, r, IntPoint::new(dx, dy), MODES[param.parse::<usize>().unwrap()]),
                        "alpha" => dt.blend_surface_with_alpha(&src, r, IntPoint::new(dx, dy), f32b(param)),
                        _ => panic!("surf kind"),
                    } }
                k => panic!("bad op {}", k),
            }
        }));
        match r {
            Ok(()) => { out += " | "; out += &state_string(&dt); }
            Err(_) => { out += " | panic"; return out; }
        }
        // skip anything left of this op (e.g. oracle tokens)
        while c.peek() != ";" && c.peek() != "" { c.next(); }
    }
    out
}
