// surf <id> <kind> <param> dw dh sw sh x0 y0 x1 y1 dx dy D <pixels> S <pixels>
use crate::util::*;
use raqote::*;
use std::panic::{catch_unwind, AssertUnwindSafe};

pub fn run(t: &[&str]) -> String {
    let id = t[0];
    let kind = t[1];
    let param = t[2];
    let (dw, dh, sw, sh) = (int(t[3]), int(t[4]), int(t[5]), int(t[6]));
    let rect = IntRect::new(IntPoint::new(int(t[7]), int(t[8])), IntPoint::new(int(t[9]), int(t[10])));
    let dst = IntPoint::new(int(t[11]), int(t[12]));
    assert_eq!(t[13], "D");
    let (dpx, spx) = split_at(&t[14..], "S");
    let dpx: Vec<u32> = dpx.iter().map(|s| hexpx(s)).collect();
    let spx: Vec<u32> = spx.iter().map(|s| hexpx(s)).collect();
    let r = catch_unwind(AssertUnwindSafe(|| {
        let mut d = DrawTarget::from_vec(dw, dh, dpx);
        let s = DrawTarget::from_vec(sw, sh, spx);
        // transform, clip and layers must be ignored: set some, derived from the case
        let idn: i32 = id.parse().unwrap_or(0);
        if idn % 3 == 1 {
            d.set_transform(&Transform::translation(3.5, -2.0));
            d.push_clip_rect(IntRect::new(IntPoint::new(1, 1), IntPoint::new(2, 2)));
        } else if idn % 3 == 2 {
            d.set_transform(&Transform::scale(0.0, 0.0));
            d.push_clip_rect(IntRect::new(IntPoint::new(5, 5), IntPoint::new(1, 1)));
        }
        // an open layer (with or without the clip above limiting its size) is ignored too: the block lands on the surface
        if idn % 4 == 3 {
            d.push_layer(0.5);
        }
        match kind {
            "copy" => d.copy_surface(&s, rect, dst),
            "blend" => d.blend_surface(&s, rect, dst, MODES[param.parse::<usize>().unwrap()]),
            "alpha" => d.blend_surface_with_alpha(&s, rect, dst, f32b(param)),
            _ => panic!("kind"),
        }
        d.into_vec()
    }));
    match r {
        Ok(px) => format!("{} ok {}", id, hexline(&px)),
        Err(_) => format!("{} panic", id),
    }
}
