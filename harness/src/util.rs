use raqote::*;

pub fn int(s: &str) -> i32 {
    s.parse::<i64>().unwrap() as i32
}
pub fn uint(s: &str) -> u32 {
    s.parse::<u64>().unwrap() as u32
}
pub fn f32b(s: &str) -> f32 {
    f32::from_bits(uint(s))
}
pub fn hexpx(s: &str) -> u32 {
    u32::from_str_radix(s, 16).unwrap()
}
pub fn hexline(px: &[u32]) -> String {
    let mut s = String::with_capacity(px.len() * 9);
    for (i, p) in px.iter().enumerate() {
        if i > 0 {
            s.push(' ');
        }
        s.push_str(&format!("{:08x}", p));
    }
    s
}
pub const MODES: [BlendMode; 28] = [
    BlendMode::Dst, BlendMode::Src, BlendMode::Clear, BlendMode::SrcOver, BlendMode::DstOver,
    BlendMode::SrcIn, BlendMode::DstIn, BlendMode::SrcOut, BlendMode::DstOut, BlendMode::SrcAtop,
    BlendMode::DstAtop, BlendMode::Xor, BlendMode::Add, BlendMode::Screen, BlendMode::Overlay,
    BlendMode::Darken, BlendMode::Lighten, BlendMode::ColorDodge, BlendMode::ColorBurn,
    BlendMode::HardLight, BlendMode::SoftLight, BlendMode::Difference, BlendMode::Exclusion,
    BlendMode::Multiply, BlendMode::Hue, BlendMode::Saturation, BlendMode::Color, BlendMode::Luminosity,
];
/// split a token list at a marker token
pub fn split_at<'a, 'b>(toks: &'a [&'b str], marker: &str) -> (&'a [&'b str], &'a [&'b str]) {
    match toks.iter().position(|t| *t == marker) {
        Some(i) => (&toks[..i], &toks[i + 1..]),
        None => (toks, &[]),
    }
}
