"""Building the three artefacts every check needs: the Coq development (full .vo build),
the extracted OCaml driver, and the Rust harness linked against /repo's working tree."""
import hashlib, os, subprocess, sys, time, glob

ROOT = os.path.dirname(os.path.dirname(os.path.dirname(os.path.abspath(__file__))))
COQ = os.path.join(ROOT, "coq")
CACHE = os.path.join(ROOT, ".cache")
HARNESS = os.path.join(ROOT, "harness")
DRIVER = os.path.join(ROOT, "ocaml", "driver")
RQV = os.path.join(HARNESS, "target", "debug", "rqv")
ENV = dict(os.environ, CARGO_NET_OFFLINE="true")


def sh(cmd, cwd=None, timeout=3600, env=None):
    p = subprocess.run(cmd, cwd=cwd, shell=isinstance(cmd, str), stdout=subprocess.PIPE,
                       stderr=subprocess.STDOUT, text=True, timeout=timeout, env=env or ENV)
    return p.returncode, p.stdout


def tree_hash(paths):
    h = hashlib.sha256()
    for p in sorted(paths):
        h.update(p.encode())
        with open(p, "rb") as f:
            h.update(f.read())
    return h.hexdigest()


def coq_sources():
    return glob.glob(os.path.join(COQ, "theories", "**", "*.v"), recursive=True) + \
        [os.path.join(COQ, "_CoqProject"), os.path.join(COQ, "Extract.v")]


def file_lock():
    import fcntl
    os.makedirs(CACHE, exist_ok=True)
    f = open(os.path.join(CACHE, "build.lock"), "w")
    fcntl.flock(f, fcntl.LOCK_EX)
    return f


def build_coq(log):
    """Full .vo build with coq_makefile (never -vos); cached by content hash of the sources."""
    os.makedirs(CACHE, exist_ok=True)
    stamp = os.path.join(CACHE, "coq.stamp")
    h = tree_hash(coq_sources())
    if os.path.exists(stamp) and open(stamp).read() == h and os.path.exists(DRIVER):
        return True, "cached"
    t0 = time.time()
    rc, out = sh("coq_makefile -f _CoqProject -o Makefile", cwd=COQ)
    if rc != 0:
        log(out)
        return False, "coq_makefile failed"
    rc, out = sh("timeout 3000 make -j16", cwd=COQ, timeout=3100)
    with open(os.path.join(CACHE, "coq_build.log"), "w") as f:
        f.write(out)
    if rc != 0:
        log(out[-3000:])
        return False, "coq build failed"
    rc, out = sh(os.path.join(ROOT, "ocaml", "build.sh"), timeout=900)
    if rc != 0:
        log(out[-3000:])
        return False, "extraction/driver build failed"
    with open(stamp, "w") as f:
        f.write(h)
    return True, "built in %.0fs" % (time.time() - t0)


def build_harness(log):
    """cargo build (incremental): recompiles raqote from /repo's current working tree."""
    lock = os.path.join(HARNESS, "Cargo.lock")
    if not os.path.exists(lock):
        import shutil
        shutil.copy("/repo/Cargo.lock", lock)
    rc, out = sh("cargo build --offline", cwd=HARNESS, timeout=1800)
    if rc != 0:
        log(out[-4000:])
        return False, out
    return True, "ok"


def harness_hash():
    with open(RQV, "rb") as f:
        return hashlib.sha256(f.read()).hexdigest()[:16]


def run_tool(binary, case_text, timeout=3600):
    """Feed case lines to the harness or the driver, return output lines (and whether it died)."""
    p = subprocess.run([binary], input=case_text, stdout=subprocess.PIPE, stderr=subprocess.PIPE,
                       text=True, timeout=timeout)
    return p.returncode, p.stdout.splitlines(), p.stderr


def run_sharded(binary, lines, shards=16, timeout=3600):
    """Run independent case lines through `binary` in parallel shards, keeping order."""
    import concurrent.futures
    if len(lines) < 64:
        shards = 1
    n = len(lines)
    chunks = [lines[i * n // shards:(i + 1) * n // shards] for i in range(shards)]
    def work(chunk):
        if not chunk:
            return 0, [], ""
        return run_tool(binary, "\n".join(chunk) + "\n", timeout)
    outs = []
    died = None
    with concurrent.futures.ThreadPoolExecutor(max_workers=shards) as ex:
        for rc, out, err in ex.map(work, chunks):
            outs.extend(out)
            if rc != 0 and died is None:
                died = (rc, err[-2000:])
    return outs, died
